//! Controlled single-task executor for the streaming APIs of the real `fn_graph`.
//!
//! User futures are *gates*: pending until the script opens them.  The root future (or stream) is
//! polled by hand with a flag waker; a *quiescent point* is reached when the root returned
//! `Pending` and no wake-up was signalled.  At every quiescent point a chooser picks the next batch
//! of actions (open gates, send the interrupt signal, spurious poll, abort).

use std::cell::{Cell, RefCell};
use std::collections::BTreeMap;
use std::future::Future;
use std::ops::ControlFlow;
use std::panic::{catch_unwind, AssertUnwindSafe};
use std::pin::Pin;
use std::rc::Rc;
use std::sync::atomic::{AtomicBool, Ordering};
use std::sync::Arc;
use std::task::{Context, Poll, Wake, Waker};

use fn_graph::{FnGraph, FnRef, StreamOpts, StreamOutcome, StreamOutcomeState};
use futures::{FutureExt, Stream, StreamExt};

use crate::graphs::{csv, TestFn};

#[derive(Clone, Copy, Debug, PartialEq, Eq)]
pub enum Strat {
    Non,
    Ignore,
    Finish,
    PollN(u64),
}

#[derive(Clone, Debug, PartialEq)]
pub struct RunCfg {
    pub api: String,
    pub rev: bool,
    pub limit: Option<usize>,
    pub strat: Strat,
    pub incl: bool,
    /// order in which the `StreamOpts` builder methods are called (a permutation index 0..6)
    pub ord: u8,
}

impl RunCfg {
    pub fn line(&self, r: usize) -> String {
        format!(
            "run {} api={} dir={} limit={} strat={} incl={} ord={}",
            r,
            self.api,
            if self.rev { "rev" } else { "fwd" },
            self.limit.map(|l| l.to_string()).unwrap_or_else(|| "none".into()),
            match self.strat {
                Strat::Non => "non".to_string(),
                Strat::Ignore => "ignore".to_string(),
                Strat::Finish => "finish".to_string(),
                Strat::PollN(k) => format!("polln:{}", k),
            },
            if self.incl { 1 } else { 0 },
            self.ord
        )
    }
    pub fn parse(line: &str) -> Option<(usize, RunCfg)> {
        let t: Vec<&str> = line.split(' ').collect();
        if t.len() < 3 || t[0] != "run" {
            return None;
        }
        let r = t[1].parse().ok()?;
        let mut c = RunCfg { api: String::new(), rev: false, limit: None, strat: Strat::Non, incl: true, ord: 0 };
        for kv in &t[2..] {
            let (k, v) = kv.split_once('=')?;
            match k {
                "api" => c.api = v.to_string(),
                "dir" => c.rev = v == "rev",
                "limit" => c.limit = if v == "none" { None } else { Some(v.parse().ok()?) },
                "strat" => {
                    c.strat = match v {
                        "non" => Strat::Non,
                        "ignore" => Strat::Ignore,
                        "finish" => Strat::Finish,
                        _ => Strat::PollN(v.strip_prefix("polln:")?.parse().ok()?),
                    }
                }
                "incl" => c.incl = v == "1",
                "ord" => c.ord = v.parse().unwrap_or(0),
                _ => {}
            }
        }
        Some((r, c))
    }
    pub fn is_stream(&self) -> bool {
        self.api.starts_with("stream")
    }
    pub fn is_mut(&self) -> bool {
        self.api.contains("_mut")
    }
    pub fn is_try(&self) -> bool {
        self.api.starts_with("try_")
    }
    pub fn has_opts(&self) -> bool {
        self.api.ends_with("_with") || self.api == "stream_with_interruptible"
    }
}

#[derive(Clone, Debug, PartialEq)]
pub enum Act {
    Open { run: usize, f: usize, ok: bool, intr: bool },
    Intr { run: usize },
    Poll { run: usize },
    Drop { run: usize, f: usize },
    DropStream { run: usize },
    Abort { run: usize },
    /// stream: poll repeatedly, dropping every yielded `FnRef` at once, until `Pending` / `None`
    /// (one tight consumer loop — under `coop` inside ONE budget window)
    Drain { run: usize },
    /// pair sessions with a late second run: create (call the API of) run `run` now
    Start { run: usize },
    /// send the signal right after the `k`-th of the following polls of the root future, whether or not
    /// a wake-up is pending then (a sender on another thread: the signal lands between two polls of one
    /// burst, not at a quiescent point)
    After { run: usize, k: usize },
}

impl Act {
    pub fn text(&self) -> String {
        match self {
            Act::Open { run, f, ok, intr } => {
                format!("open:{}:{}:{}{}", run, f, if *ok { "ok" } else { "err" }, if *intr { ":intr" } else { "" })
            }
            Act::Intr { run } => format!("intr:{}", run),
            Act::Poll { run } => format!("poll:{}", run),
            Act::Drop { run, f } => format!("drop:{}:{}", run, f),
            Act::DropStream { run } => format!("dropstream:{}", run),
            Act::Abort { run } => format!("abort:{}", run),
            Act::Drain { run } => format!("drain:{}", run),
            Act::Start { run } => format!("start:{}", run),
            Act::After { run, k } => format!("after:{}:{}:intr", run, k),
        }
    }
    pub fn parse(s: &str) -> Option<Act> {
        let t: Vec<&str> = s.split(':').collect();
        let run = t.get(1)?.parse().ok()?;
        Some(match t[0] {
            "open" => Act::Open { run, f: t.get(2)?.parse().ok()?, ok: *t.get(3)? == "ok", intr: t.get(4) == Some(&"intr") },
            "intr" => Act::Intr { run },
            "poll" => Act::Poll { run },
            "drop" => Act::Drop { run, f: t.get(2)?.parse().ok()? },
            "dropstream" => Act::DropStream { run },
            "abort" => Act::Abort { run },
            "drain" => Act::Drain { run },
            "start" => Act::Start { run },
            "after" => Act::After { run, k: t.get(2)?.parse().ok()? },
            _ => return None,
        })
    }
}

#[derive(Default)]
struct GateSt {
    opened: Option<bool>,
    waker: Option<Waker>,
    intr_on_end: bool,
    ended: bool,
}

#[cfg(feature = "intr")]
type IntrTx = tokio::sync::mpsc::Sender<interruptible::InterruptSignal>;
#[cfg(not(feature = "intr"))]
type IntrTx = ();

/// An `InterruptibilityState` owned by the caller and handed to several runs with `reborrow()`
/// (its received-signal flag and poll counter outlive each run), plus the sender of its channel.
#[cfg(feature = "intr")]
pub struct SharedIntr {
    pub state: interruptible::InterruptibilityState<'static, 'static>,
    pub tx: tokio::sync::mpsc::Sender<interruptible::InterruptSignal>,
}
#[cfg(not(feature = "intr"))]
pub struct SharedIntr;

#[cfg(feature = "intr")]
impl SharedIntr {
    pub fn new(strat: Strat) -> Self {
        use interruptible::InterruptibilityState;
        let (tx, rx) = tokio::sync::mpsc::channel::<interruptible::InterruptSignal>(16);
        let state = match strat {
            Strat::Non => InterruptibilityState::new_non_interruptible(),
            Strat::Ignore => InterruptibilityState::new_ignore_interruptions(rx.into()),
            Strat::Finish => InterruptibilityState::new_finish_current(rx.into()),
            Strat::PollN(k) => InterruptibilityState::new_poll_next_n(rx.into(), k),
        };
        SharedIntr { state, tx }
    }
}
#[cfg(not(feature = "intr"))]
impl SharedIntr {
    pub fn new(_strat: Strat) -> Self {
        SharedIntr
    }
}

pub struct Shared {
    auto: Cell<u8>, // gates are born open (1: all ok, 2: every third fails, 3: all fail — failures only in try_* runs;
    // 4: all ok except function 0, whose gate is closed and is opened (failing in try_* runs) from inside the
    // completion of function `chain` — a function whose body wakes another one in the same poll)
    chain: Cell<usize>,
    chain_cnt: Cell<usize>,         // auto mode 4: number of functions invoked so far
    chain_f: Cell<Option<usize>>,   // the first function invoked (its gate stays closed)
    chain_x: Cell<Option<usize>>,   // the `chain`-th function invoked (its completion wakes `chain_f`)
    is_try: RefCell<Vec<bool>>,
    log: RefCell<Vec<String>>,
    gates: RefCell<BTreeMap<(usize, usize), GateSt>>,
    cur_run: Cell<usize>,
    intr_tx: RefCell<Vec<Option<IntrTx>>>,
}

impl Shared {
    fn ev(&self, s: String) {
        self.log.borrow_mut().push(s);
    }
    fn send_intr(&self, run: usize) {
        #[cfg(feature = "intr")]
        if let Some(Some(tx)) = self.intr_tx.borrow().get(run) {
            let _ = tx.try_send(interruptible::InterruptSignal);
        }
        self.ev(format!("ev {} intr", run));
    }
}

struct Gate {
    sh: Rc<Shared>,
    run: usize,
    id: usize,
}

impl Future for Gate {
    type Output = bool;
    fn poll(self: Pin<&mut Self>, cx: &mut Context<'_>) -> Poll<bool> {
        let mut gates = self.sh.gates.borrow_mut();
        let st = gates.entry((self.run, self.id)).or_default();
        if let Some(ok) = st.opened {
            st.ended = true;
            let intr = st.intr_on_end;
            drop(gates);
            self.sh.ev(format!("ev {} end {} {}", self.run, self.id, if ok { "ok" } else { "err" }));
            if intr {
                self.sh.send_intr(self.run);
            }
            if self.sh.auto.get() == 4 && Some(self.id) == self.sh.chain_x.get() {
                // wake the first-started function from inside this completion
                let may_fail = self.sh.is_try.borrow().get(self.run).copied().unwrap_or(false);
                let f0 = self.sh.chain_f.get().unwrap_or(usize::MAX);
                let mut gates = self.sh.gates.borrow_mut();
                if let Some(st0) = gates.get_mut(&(self.run, f0)) {
                    if st0.opened.is_none() {
                        st0.opened = Some(!may_fail);
                        if let Some(w) = st0.waker.take() {
                            drop(gates);
                            w.wake();
                        }
                    }
                }
            }
            Poll::Ready(ok)
        } else {
            st.waker = Some(cx.waker().clone());
            Poll::Pending
        }
    }
}

fn mk_gate(sh: &Rc<Shared>, run: usize, id: usize) -> Gate {
    sh.ev(format!("ev {} invoke {}", run, id));
    let auto = sh.auto.get();
    let mut gates = sh.gates.borrow_mut();
    let st = gates.entry((run, id)).or_default();
    if auto == 4 {
        let k = sh.chain_cnt.get();
        sh.chain_cnt.set(k + 1);
        if k == 0 {
            sh.chain_f.set(Some(id));
        } else {
            st.opened = Some(true);
            if k == sh.chain.get() {
                sh.chain_x.set(Some(id));
            }
        }
    } else if auto > 0 {
        let may_fail = sh.is_try.borrow().get(run).copied().unwrap_or(false);
        let ok = !(may_fail && (auto == 3 || (auto == 2 && id % 3 == 0)));
        st.opened = Some(ok);
    }
    drop(gates);
    Gate { sh: sh.clone(), run, id }
}

struct Flag(AtomicBool);
impl Wake for Flag {
    fn wake(self: Arc<Self>) {
        self.0.store(true, Ordering::SeqCst);
    }
    fn wake_by_ref(self: &Arc<Self>) {
        self.0.store(true, Ordering::SeqCst);
    }
}

/// the error a failing function returns: every failure PRINTS the same (`{:?}` = "Fail"), the id is
/// carried on the side — "exactly one error per failed function" also for errors that look alike
pub struct Fail(pub usize);
impl std::fmt::Debug for Fail {
    fn fmt(&self, f: &mut std::fmt::Formatter<'_>) -> std::fmt::Result {
        f.write_str("Fail")
    }
}
impl std::fmt::Display for Fail {
    fn fmt(&self, f: &mut std::fmt::Formatter<'_>) -> std::fmt::Result {
        f.write_str("Fail")
    }
}

pub enum RetVal {
    Outcome { state: char, processed: Vec<usize>, notp: Vec<usize>, errs: Vec<usize>, flow: &'static str },
    Err(usize),
}

impl RetVal {
    fn text(&self) -> String {
        match self {
            RetVal::Outcome { state, processed, notp, errs, flow } => format!(
                "ret state={} processed={} notprocessed={} errs={} flow={}",
                state,
                csv(processed),
                csv(notp),
                csv(errs),
                flow
            ),
            RetVal::Err(f) => format!("ret err {}", f),
        }
    }
}

fn outcome<T>(o: StreamOutcome<T>, errs: Vec<usize>, flow: &'static str) -> RetVal {
    RetVal::Outcome {
        state: match o.state {
            StreamOutcomeState::NotStarted => 'N',
            StreamOutcomeState::Interrupted => 'I',
            StreamOutcomeState::Finished => 'F',
        },
        processed: o.fn_ids_processed.iter().map(|i| i.index()).collect(),
        notp: o.fn_ids_not_processed.iter().map(|i| i.index()).collect(),
        errs,
        flow,
    }
}

pub enum SItem<'a> {
    Plain(FnRef<'a, TestFn>),
    #[allow(dead_code)]
    ISome(FnRef<'a, TestFn>),
    #[allow(dead_code)]
    INone,
}

pub enum Root<'a> {
    Fut(Pin<Box<dyn Future<Output = RetVal> + 'a>>),
    Stream(Pin<Box<dyn Stream<Item = SItem<'a>> + 'a>>),
    Gone,
    /// not created yet (second run of a pair session with `late`)
    Late,
}

pub enum GraphRef<'a> {
    Shared(&'a FnGraph<TestFn>),
    Mut(&'a mut FnGraph<TestFn>),
}

fn mk_opts<'a>(cfg: &RunCfg, sh: &Rc<Shared>, run: usize, shared: Option<&'a mut SharedIntr>) -> StreamOpts<'a, 'a> {
    let mut opts = StreamOpts::new();
    // the three builder methods, called in the order given by `cfg.ord` (they must commute)
    const PERMS: [[u8; 3]; 6] = [[0, 1, 2], [0, 2, 1], [1, 0, 2], [1, 2, 0], [2, 0, 1], [2, 1, 0]];
    #[cfg(feature = "intr")]
    let mut state: Option<interruptible::InterruptibilityState<'a, 'a>> = {
        use interruptible::InterruptibilityState;
        let (tx, st) = match shared {
            Some(si) => (si.tx.clone(), si.state.reborrow()),
            None => {
                let (tx, rx) = tokio::sync::mpsc::channel::<interruptible::InterruptSignal>(16);
                let state = match cfg.strat {
                    Strat::Non => InterruptibilityState::new_non_interruptible(),
                    Strat::Ignore => InterruptibilityState::new_ignore_interruptions(rx.into()),
                    Strat::Finish => InterruptibilityState::new_finish_current(rx.into()),
                    Strat::PollN(k) => InterruptibilityState::new_poll_next_n(rx.into(), k),
                };
                (tx, state)
            }
        };
        let mut v = sh.intr_tx.borrow_mut();
        while v.len() <= run {
            v.push(None);
        }
        v[run] = Some(tx);
        Some(st)
    };
    #[cfg(not(feature = "intr"))]
    let _ = shared;
    for step in PERMS[(cfg.ord % 6) as usize] {
        match step {
            0 => {
                if cfg.rev {
                    opts = opts.rev();
                    // "calling rev() repeatedly is the same as calling it once"
                    if cfg.ord >= 6 {
                        opts = opts.rev();
                    }
                }
            }
            1 => {
                #[cfg(feature = "intr")]
                if let Some(st) = state.take() {
                    opts = opts.interruptibility_state(st);
                }
            }
            _ => {
                #[cfg(feature = "intr")]
                {
                    opts = opts.interrupted_next_item_include(cfg.incl);
                }
            }
        }
    }
    #[cfg(not(feature = "intr"))]
    {
        let _ = (sh, run);
    }
    opts
}

/// Creates the root future / stream of one run on the real graph.
pub fn make_root<'a>(g: GraphRef<'a>, cfg: &RunCfg, sh: &Rc<Shared>, run: usize, shared: Option<&'a mut SharedIntr>) -> Root<'a> {
    let mut shared = shared;
    let limit = cfg.limit;
    let s = sh.clone();
    let api = cfg.api.as_str();
    macro_rules! opts {
        () => {
            mk_opts(cfg, sh, run, shared.take())
        };
    }
    macro_rules! fe {
        () => {{
            let s = s.clone();
            move |f: &TestFn| {
                let gate = mk_gate(&s, run, f.idx);
                async move {
                    gate.await;
                }
            }
        }};
    }
    macro_rules! fe_mut {
        () => {{
            let s = s.clone();
            move |f: &mut TestFn| {
                let gate = mk_gate(&s, run, f.idx);
                async move {
                    gate.await;
                }
            }
        }};
    }
    macro_rules! tfe {
        () => {{
            let s = s.clone();
            move |f: &TestFn| {
                let id = f.idx;
                let gate = mk_gate(&s, run, id);
                async move {
                    if gate.await {
                        Ok(())
                    } else {
                        Err(Fail(id))
                    }
                }
            }
        }};
    }
    macro_rules! tfe_mut {
        () => {{
            let s = s.clone();
            move |f: &mut TestFn| {
                let id = f.idx;
                let gate = mk_gate(&s, run, id);
                async move {
                    if gate.await {
                        Ok(())
                    } else {
                        Err(Fail(id))
                    }
                }
            }
        }};
    }
    macro_rules! cfe {
        () => {{
            let s = s.clone();
            move |f: &TestFn| {
                let id = f.idx;
                let gate = mk_gate(&s, run, id);
                async move {
                    if gate.await {
                        ControlFlow::Continue(())
                    } else {
                        ControlFlow::Break(Fail(id))
                    }
                }
            }
        }};
    }
    macro_rules! cfe_mut {
        () => {{
            let s = s.clone();
            move |f: &mut TestFn| {
                let id = f.idx;
                let gate = mk_gate(&s, run, id);
                async move {
                    if gate.await {
                        ControlFlow::Continue(())
                    } else {
                        ControlFlow::Break(Fail(id))
                    }
                }
            }
        }};
    }
    fn res_map(r: Result<StreamOutcome<()>, (StreamOutcome<()>, Vec<Fail>)>) -> RetVal {
        match r {
            Ok(o) => outcome(o, vec![], "na"),
            Err((o, e)) => outcome(o, e.into_iter().map(|x| x.0).collect(), "na"),
        }
    }
    fn cf_map(r: ControlFlow<(StreamOutcome<()>, Vec<Fail>), StreamOutcome<()>>) -> RetVal {
        match r {
            ControlFlow::Continue(o) => outcome(o, vec![], "cont"),
            ControlFlow::Break((o, e)) => outcome(o, e.into_iter().map(|x| x.0).collect(), "break"),
        }
    }
    match g {
        GraphRef::Shared(g) => match api {
            "fold_async" => {
                let s = s.clone();
                Root::Fut(Box::pin(async move {
                    let o = g
                        .fold_async((), move |(), f| {
                            let gate = mk_gate(&s, run, f.idx);
                            async move {
                                gate.await;
                            }
                            .boxed_local()
                        })
                        .await;
                    outcome(o, vec![], "na")
                }))
            }
            "fold_async_with" => {
                let s = s.clone();
                let o = opts!();
                Root::Fut(Box::pin(async move {
                    let o = g
                        .fold_async_with((), o, move |(), f| {
                            let gate = mk_gate(&s, run, f.idx);
                            async move {
                                gate.await;
                            }
                            .boxed_local()
                        })
                        .await;
                    outcome(o, vec![], "na")
                }))
            }
            "try_fold_async" => {
                let s = s.clone();
                Root::Fut(Box::pin(async move {
                    let r: Result<StreamOutcome<()>, Fail> = g
                        .try_fold_async((), move |(), f| {
                            let id = f.idx;
                            let gate = mk_gate(&s, run, id);
                            async move {
                                if gate.await {
                                    Ok(())
                                } else {
                                    Err(Fail(id))
                                }
                            }
                            .boxed_local()
                        })
                        .await;
                    match r {
                        Ok(o) => outcome(o, vec![], "na"),
                        Err(e) => RetVal::Err(e.0),
                    }
                }))
            }
            "try_fold_async_with" => {
                let s = s.clone();
                let o = opts!();
                Root::Fut(Box::pin(async move {
                    let r: Result<StreamOutcome<()>, Fail> = g
                        .try_fold_async_with((), o, move |(), f| {
                            let id = f.idx;
                            let gate = mk_gate(&s, run, id);
                            async move {
                                if gate.await {
                                    Ok(())
                                } else {
                                    Err(Fail(id))
                                }
                            }
                            .boxed_local()
                        })
                        .await;
                    match r {
                        Ok(o) => outcome(o, vec![], "na"),
                        Err(e) => RetVal::Err(e.0),
                    }
                }))
            }
            "for_each_concurrent" => {
                let f = fe!();
                Root::Fut(Box::pin(async move { outcome(g.for_each_concurrent(limit, f).await, vec![], "na") }))
            }
            "for_each_concurrent_with" => {
                let f = fe!();
                let o = opts!();
                Root::Fut(Box::pin(async move { outcome(g.for_each_concurrent_with(limit, o, f).await, vec![], "na") }))
            }
            "try_for_each_concurrent" => {
                let f = tfe!();
                Root::Fut(Box::pin(async move { res_map(g.try_for_each_concurrent(limit, f).await) }))
            }
            "try_for_each_concurrent_with" => {
                let f = tfe!();
                let o = opts!();
                Root::Fut(Box::pin(async move { res_map(g.try_for_each_concurrent_with(limit, o, f).await) }))
            }
            "try_for_each_concurrent_control" => {
                let f = cfe!();
                Root::Fut(Box::pin(async move { cf_map(g.try_for_each_concurrent_control(limit, f).await) }))
            }
            "try_for_each_concurrent_control_with" => {
                let f = cfe!();
                let o = opts!();
                Root::Fut(Box::pin(async move { cf_map(g.try_for_each_concurrent_control_with(limit, o, f).await) }))
            }
            "stream" => Root::Stream(Box::pin(g.stream().map(SItem::Plain))),
            "stream_with" => {
                let o = opts!();
                Root::Stream(Box::pin(g.stream_with(o).map(SItem::Plain)))
            }
            #[cfg(feature = "intr")]
            "stream_interruptible" => Root::Stream(Box::pin(g.stream_interruptible().map(|p| match p {
                interruptible::PollOutcome::NoInterrupt(r) => SItem::Plain(r),
                interruptible::PollOutcome::Interrupted(Some(r)) => SItem::ISome(r),
                interruptible::PollOutcome::Interrupted(None) => SItem::INone,
            }))),
            #[cfg(feature = "intr")]
            "stream_with_interruptible" => {
                let o = opts!();
                Root::Stream(Box::pin(g.stream_with_interruptible(o).map(|p| match p {
                    interruptible::PollOutcome::NoInterrupt(r) => SItem::Plain(r),
                    interruptible::PollOutcome::Interrupted(Some(r)) => SItem::ISome(r),
                    interruptible::PollOutcome::Interrupted(None) => SItem::INone,
                })))
            }
            _ => Root::Gone,
        },
        GraphRef::Mut(g) => match api {
            "fold_async_mut" => {
                let s = s.clone();
                Root::Fut(Box::pin(async move {
                    let o = g
                        .fold_async_mut((), move |(), f| {
                            let gate = mk_gate(&s, run, f.idx);
                            async move {
                                gate.await;
                            }
                            .boxed_local()
                        })
                        .await;
                    outcome(o, vec![], "na")
                }))
            }
            "fold_async_mut_with" => {
                let s = s.clone();
                let o = opts!();
                Root::Fut(Box::pin(async move {
                    let o = g
                        .fold_async_mut_with((), o, move |(), f| {
                            let gate = mk_gate(&s, run, f.idx);
                            async move {
                                gate.await;
                            }
                            .boxed_local()
                        })
                        .await;
                    outcome(o, vec![], "na")
                }))
            }
            "try_fold_async_mut" => {
                let s = s.clone();
                Root::Fut(Box::pin(async move {
                    let r: Result<StreamOutcome<()>, Fail> = g
                        .try_fold_async_mut((), move |(), f| {
                            let id = f.idx;
                            let gate = mk_gate(&s, run, id);
                            async move {
                                if gate.await {
                                    Ok(())
                                } else {
                                    Err(Fail(id))
                                }
                            }
                            .boxed_local()
                        })
                        .await;
                    match r {
                        Ok(o) => outcome(o, vec![], "na"),
                        Err(e) => RetVal::Err(e.0),
                    }
                }))
            }
            "try_fold_async_mut_with" => {
                let s = s.clone();
                let o = opts!();
                Root::Fut(Box::pin(async move {
                    let r: Result<StreamOutcome<()>, Fail> = g
                        .try_fold_async_mut_with((), o, move |(), f| {
                            let id = f.idx;
                            let gate = mk_gate(&s, run, id);
                            async move {
                                if gate.await {
                                    Ok(())
                                } else {
                                    Err(Fail(id))
                                }
                            }
                            .boxed_local()
                        })
                        .await;
                    match r {
                        Ok(o) => outcome(o, vec![], "na"),
                        Err(e) => RetVal::Err(e.0),
                    }
                }))
            }
            "for_each_concurrent_mut" => {
                let f = fe_mut!();
                Root::Fut(Box::pin(async move { outcome(g.for_each_concurrent_mut(limit, f).await, vec![], "na") }))
            }
            "for_each_concurrent_mut_with" => {
                let f = fe_mut!();
                let o = opts!();
                Root::Fut(Box::pin(async move { outcome(g.for_each_concurrent_mut_with(limit, o, f).await, vec![], "na") }))
            }
            "try_for_each_concurrent_mut" => {
                let f = tfe_mut!();
                Root::Fut(Box::pin(async move { res_map(g.try_for_each_concurrent_mut(limit, f).await) }))
            }
            "try_for_each_concurrent_mut_with" => {
                let f = tfe_mut!();
                let o = opts!();
                Root::Fut(Box::pin(async move { res_map(g.try_for_each_concurrent_mut_with(limit, o, f).await) }))
            }
            "try_for_each_concurrent_control_mut" => {
                let f = cfe_mut!();
                Root::Fut(Box::pin(async move { cf_map(g.try_for_each_concurrent_control_mut(limit, f).await) }))
            }
            "try_for_each_concurrent_control_mut_with" => {
                let f = cfe_mut!();
                let o = opts!();
                Root::Fut(Box::pin(async move { cf_map(g.try_for_each_concurrent_control_mut_with(limit, o, f).await) }))
            }
            _ => Root::Gone,
        },
    }
}

/// What the chooser sees at a quiescent point.
pub struct View {
    pub runs: Vec<RunView>,
}

pub struct RunView {
    pub cfg: RunCfg,
    pub finished: bool,
    pub inflight: Vec<usize>,     // gates registered and not opened
    pub intr_sent: bool,
    pub live: Vec<usize>,         // stream: FnRefs alive
    pub last_poll: Option<String>, // stream: result of the last poll
    pub yielded: usize,
    pub polls: usize,
    pub not_started: bool,
}

struct RunSt<'a> {
    cfg: RunCfg,
    root: Root<'a>,
    intr_after: Option<usize>,
    flag: Arc<Flag>,
    finished: bool,
    intr_sent: bool,
    live: BTreeMap<usize, FnRef<'a, TestFn>>,
    last_poll: Option<String>,
    yielded: usize,
    polls: usize,
}

/// Runs one session (1 or 2 runs on the same graph value).  `choose` returns the next batch of
/// actions at every quiescent point (and once before the first poll), or `None` to end.
thread_local! {
    static RT: tokio::runtime::Runtime = tokio::runtime::Builder::new_current_thread().build().unwrap();
}

/// Polls `f` once.  With `coop` the poll happens inside `Runtime::block_on`, i.e. under tokio's
/// cooperative budget (as inside any tokio task): after 128 channel / lock operations tokio answers
/// `Pending` and wakes the task.  The waker seen by the polled future is the harness's flag waker in
/// both modes.
fn poll_in<T>(coop: bool, f: impl FnOnce() -> T) -> T {
    if coop {
        let mut f = Some(f);
        RT.with(|rt| {
            rt.block_on(async move {
                let r = std::future::poll_fn(move |_| Poll::Ready((f.take().unwrap())())).await;
                // when the budget runs out tokio DEFERS the wake-up of the polled task to the runtime;
                // yielding once lets the runtime deliver deferred wake-ups (to the harness's flag waker)
                // before control returns, exactly as it would before re-polling a real task
                tokio::task::yield_now().await;
                r
            })
        })
    } else {
        f()
    }
}

pub fn session<'g>(
    graph: &'g mut FnGraph<TestFn>,
    cfgs: &[RunCfg],
    coop: bool,
    auto: u8,
    chain: usize,
    late: bool,
    shared_intr: Option<&'g mut SharedIntr>,
    out: &mut Vec<String>,
    choose: &mut dyn FnMut(&View, usize) -> Option<Vec<Act>>,
) {
    let mut shared_intr = shared_intr;
    let sh = Rc::new(Shared {
        auto: Cell::new(auto),
        chain: Cell::new(chain),
        chain_cnt: Cell::new(0),
        chain_f: Cell::new(None),
        chain_x: Cell::new(None),
        is_try: RefCell::new(cfgs.iter().map(|c| c.is_try()).collect()),
        log: RefCell::new(vec![]),
        gates: RefCell::new(BTreeMap::new()),
        cur_run: Cell::new(0),
        intr_tx: RefCell::new(vec![]),
    });
    {
        let s2 = sh.clone();
        fn_graph::verif_hooks::set_sink(Some(Box::new(move |ev| {
            let fn_graph::verif_hooks::HookEvent::Handout(f) = ev;
            let r = s2.cur_run.get();
            s2.ev(format!("ev {} handout {}", r, f));
        })));
    }
    let late = late && cfgs.len() == 2;
    out.push(format!("session k={} coop={} auto={} shared={} late={} chain={}", cfgs.len(), coop as u8, auto, (shared_intr.is_some() && cfgs.len() == 1 && cfgs[0].has_opts()) as u8, late as u8, chain));
    for (i, c) in cfgs.iter().enumerate() {
        out.push(c.line(i));
    }
    let flush = |out: &mut Vec<String>| {
        out.append(&mut sh.log.borrow_mut());
    };

    let mut runs: Vec<RunSt<'g>> = Vec::new();
    let mut gshared_opt: Option<&'g FnGraph<TestFn>> = None;
    if cfgs.len() == 1 && cfgs[0].is_mut() {
        let root = make_root(GraphRef::Mut(graph), &cfgs[0], &sh, 0, shared_intr);
        runs.push(RunSt {
            cfg: cfgs[0].clone(),
            root,
            intr_after: None,
            flag: Arc::new(Flag(AtomicBool::new(true))),
            finished: false,
            intr_sent: false,
            live: BTreeMap::new(),
            last_poll: None,
            yielded: 0,
            polls: 0,
        });
    } else {
        let gshared: &'g FnGraph<TestFn> = graph;
        gshared_opt = Some(gshared);
        for (i, c) in cfgs.iter().enumerate() {
            let root = if late && i == 1 { Root::Late } else { make_root(GraphRef::Shared(gshared), c, &sh, i, if cfgs.len() == 1 { shared_intr.take() } else { None }) };
            runs.push(RunSt {
                cfg: c.clone(),
                root,
                intr_after: None,
                flag: Arc::new(Flag(AtomicBool::new(true))),
                finished: false,
                intr_sent: false,
                live: BTreeMap::new(),
                last_poll: None,
                yielded: 0,
                polls: 0,
            });
        }
    }
    for (i, r) in runs.iter_mut().enumerate() {
        if let Root::Gone = r.root {
            out.push(format!("ev {} unsupported", i));
            r.finished = true;
        }
    }

    let mut step = 0usize;
    loop {
        // ---- choose and perform a batch
        let view = View {
            runs: runs
                .iter()
                .enumerate()
                .map(|(i, r)| RunView {
                    cfg: r.cfg.clone(),
                    finished: r.finished,
                    inflight: sh
                        .gates
                        .borrow()
                        .iter()
                        .filter(|((ru, _), st)| *ru == i && st.opened.is_none())
                        .map(|((_, f), _)| *f)
                        .collect(),
                    intr_sent: r.intr_sent,
                    live: r.live.keys().copied().collect(),
                    last_poll: r.last_poll.clone(),
                    yielded: r.yielded,
                    polls: r.polls,
                    not_started: matches!(r.root, Root::Late),
                })
                .collect(),
        };
        let batch = match choose(&view, step) {
            Some(b) => b,
            None => break,
        };
        step += 1;
        out.push(format!("do {}", batch.iter().map(|a| a.text()).collect::<Vec<_>>().join(" ")));
        for act in &batch {
            match act {
                Act::Open { run, f, ok, intr } => {
                    let mut gates = sh.gates.borrow_mut();
                    match gates.get_mut(&(*run, *f)) {
                        Some(st) if st.opened.is_none() => {
                            st.opened = Some(*ok);
                            st.intr_on_end = *intr;
                            if let Some(w) = st.waker.take() {
                                drop(gates);
                                w.wake();
                            }
                        }
                        _ => {
                            drop(gates);
                            sh.ev(format!("ev {} skip {}", run, act.text()));
                        }
                    }
                }
                Act::Intr { run } => {
                    if let Some(r) = runs.get_mut(*run) {
                        r.intr_sent = true;
                    }
                    sh.send_intr(*run);
                }
                Act::Poll { run } => {
                    if let Some(r) = runs.get_mut(*run) {
                        if let Root::Stream(_) = r.root {
                            poll_stream(r, *run, &sh, coop);
                        } else {
                            r.flag.0.store(true, Ordering::SeqCst);
                        }
                    }
                }
                Act::Drain { run } => {
                    if let Some(r) = runs.get_mut(*run) {
                        drain_stream(r, *run, &sh, coop);
                    }
                }
                Act::After { run, k } => {
                    if let Some(r) = runs.get_mut(*run) {
                        r.intr_after = Some(*k);
                        r.intr_sent = true;
                    }
                }
                Act::Start { run } => {
                    if let (Some(r), Some(g)) = (runs.get_mut(*run), gshared_opt) {
                        if let Root::Late = r.root {
                            r.root = make_root(GraphRef::Shared(g), &r.cfg, &sh, *run, None);
                            r.flag.0.store(true, Ordering::SeqCst);
                            if let Root::Gone = r.root {
                                sh.ev(format!("ev {} unsupported", run));
                                r.finished = true;
                            }
                        }
                    }
                }
                Act::Drop { run, f } => {
                    if let Some(r) = runs.get_mut(*run) {
                        match r.live.remove(f) {
                            Some(fr) => {
                                r.flag.0.store(false, Ordering::SeqCst);
                                // every fourth function's `FnRef` is dropped by an unwinding panic that the
                                // consumer survives (`catch_unwind` around a function's work): still a drop
                                let res = if f % 4 == 3 {
                                    struct Probe;
                                    match catch_unwind(AssertUnwindSafe(move || {
                                        let _fr = fr;
                                        std::panic::panic_any(Probe)
                                    })) {
                                        Err(e) if e.is::<Probe>() => Ok(()),
                                        other => other,
                                    }
                                } else {
                                    catch_unwind(AssertUnwindSafe(move || drop(fr)))
                                };
                                let woken = r.flag.0.load(Ordering::SeqCst);
                                match res {
                                    Ok(()) => sh.ev(format!("ev {} drop {} woken={}", run, f, woken as u8)),
                                    Err(_) => sh.ev(format!("ev {} panic drop", run)),
                                }
                            }
                            None => sh.ev(format!("ev {} skip {}", run, act.text())),
                        }
                    }
                }
                Act::DropStream { run } | Act::Abort { run } => {
                    if let Some(r) = runs.get_mut(*run) {
                        if !r.finished {
                            let root = std::mem::replace(&mut r.root, Root::Gone);
                            let res = catch_unwind(AssertUnwindSafe(move || drop(root)));
                            r.finished = true;
                            match res {
                                Ok(()) => sh.ev(format!("ev {} aborted", run)),
                                Err(_) => sh.ev(format!("ev {} panic abort", run)),
                            }
                        }
                    }
                }
            }
        }
        flush(out);
        // ---- poll future-roots until quiescent
        let mut iters = 0;
        let mut polled: Vec<bool> = vec![false; runs.len()];
        loop {
            let mut progressed = false;
            for (i, r) in runs.iter_mut().enumerate() {
                if r.finished {
                    continue;
                }
                if let Root::Fut(fut) = &mut r.root {
                    if r.flag.0.swap(false, Ordering::SeqCst) {
                        progressed = true;
                        polled[i] = true;
                        sh.cur_run.set(i);
                        let waker = Waker::from(r.flag.clone());
                        let mut cx = Context::from_waker(&waker);
                        let res = catch_unwind(AssertUnwindSafe(|| poll_in(coop, || fut.as_mut().poll(&mut cx))));
                        match res {
                            Ok(Poll::Ready(v)) => {
                                r.finished = true;
                                sh.ev(format!("ev {} {}", i, v.text()));
                                r.root = Root::Gone;
                            }
                            Ok(Poll::Pending) => {
                                if let Some(k) = r.intr_after {
                                    if k == 0 {
                                        r.intr_after = None;
                                        sh.send_intr(i);
                                    } else {
                                        r.intr_after = Some(k - 1);
                                    }
                                }
                            }
                            Err(e) => {
                                let msg = e
                                    .downcast_ref::<&str>()
                                    .map(|s| s.to_string())
                                    .or_else(|| e.downcast_ref::<String>().cloned())
                                    .unwrap_or_default();
                                r.finished = true;
                                sh.ev(format!("ev {} panic {}", i, msg.replace(' ', "_")));
                                // leak the root: dropping a future that panicked mid-poll may panic again
                                std::mem::forget(std::mem::replace(&mut r.root, Root::Gone));
                            }
                        }
                    }
                }
            }
            iters += 1;
            if !progressed {
                break;
            }
            if iters > 100_000 {
                sh.ev("ev 0 livelock".to_string());
                break;
            }
        }
        // a quiescent point is logged only when the root was actually polled in this round (a signal
        // sent at a quiescent point wakes nobody: the state of the real call has not changed)
        for (i, r) in runs.iter().enumerate() {
            if !r.finished && polled[i] {
                if let Root::Fut(_) = r.root {
                    sh.ev(format!("ev {} q", i));
                }
            }
        }
        flush(out);
    }
    // end of session: drop whatever is left (FnRefs first or last is part of the script already)
    for (i, r) in runs.iter_mut().enumerate() {
        let live = std::mem::take(&mut r.live);
        let root = std::mem::replace(&mut r.root, Root::Gone);
        let res = catch_unwind(AssertUnwindSafe(move || {
            drop(root);
            drop(live);
        }));
        if res.is_err() {
            sh.ev(format!("ev {} panic enddrop", i));
        }
    }
    fn_graph::verif_hooks::set_sink(None);
    sh.gates.borrow_mut().clear();
    flush(out);
    out.push("endsession".to_string());
}

fn poll_stream<'a>(r: &mut RunSt<'a>, run: usize, sh: &Rc<Shared>, coop: bool) {
    if let Root::Stream(st) = &mut r.root {
        sh.cur_run.set(run);
        r.flag.0.store(false, Ordering::SeqCst);
        let waker = Waker::from(r.flag.clone());
        let mut cx = Context::from_waker(&waker);
        let res = catch_unwind(AssertUnwindSafe(|| poll_in(coop, || st.as_mut().poll_next(&mut cx))));
        r.polls += 1;
        let woken = r.flag.0.load(Ordering::SeqCst) as u8;
        let text = match res {
            Ok(Poll::Pending) => format!("pending woken={}", woken),
            Ok(Poll::Ready(None)) => "none".to_string(),
            Ok(Poll::Ready(Some(SItem::Plain(fr)))) => {
                let id = fr.idx;
                r.live.insert(id, fr);
                r.yielded += 1;
                format!("some {}", id)
            }
            Ok(Poll::Ready(Some(SItem::ISome(fr)))) => {
                let id = fr.idx;
                r.live.insert(id, fr);
                r.yielded += 1;
                format!("isome {}", id)
            }
            Ok(Poll::Ready(Some(SItem::INone))) => "inone".to_string(),
            Err(_) => {
                r.finished = true;
                std::mem::forget(std::mem::replace(&mut r.root, Root::Gone));
                "panic".to_string()
            }
        };
        sh.ev(format!("ev {} poll {}", run, text));
        r.last_poll = Some(text);
    }
}

/// One tight consumer loop: `while let Some(f) = stream.next() { drop(f) }` until `Pending`/`None`,
/// inside a single budget window when `coop` is on.  The wake flag of the final `Pending` is read
/// after the window (tokio defers a budget-induced wake-up to the runtime).
fn drain_stream<'a>(r: &mut RunSt<'a>, run: usize, sh: &Rc<Shared>, coop: bool) {
    let mut final_pending = false;
    {
        let flag = r.flag.clone();
        let live = &mut r.live;
        let yielded = &mut r.yielded;
        let polls = &mut r.polls;
        let finished = &mut r.finished;
        let root = &mut r.root;
        let fp = &mut final_pending;
        let sh2 = sh.clone();
        poll_in(coop, move || {
            if let Root::Stream(st) = root {
                sh2.cur_run.set(run);
                for _ in 0..400 {
                    flag.0.store(false, Ordering::SeqCst);
                    let waker = Waker::from(flag.clone());
                    let mut cx = Context::from_waker(&waker);
                    let res = catch_unwind(AssertUnwindSafe(|| st.as_mut().poll_next(&mut cx)));
                    *polls += 1;
                    match res {
                        Ok(Poll::Pending) => {
                            *fp = true;
                            break;
                        }
                        Ok(Poll::Ready(None)) => {
                            sh2.ev(format!("ev {} poll none", run));
                            break;
                        }
                        Ok(Poll::Ready(Some(item))) => {
                            let (tag, fr) = match item {
                                SItem::Plain(fr) => ("some", Some(fr)),
                                SItem::ISome(fr) => ("isome", Some(fr)),
                                SItem::INone => ("inone", None),
                            };
                            match fr {
                                Some(fr) => {
                                    let id = fr.idx;
                                    *yielded += 1;
                                    sh2.ev(format!("ev {} poll {} {}", run, tag, id));
                                    flag.0.store(false, Ordering::SeqCst);
                                    let _ = live;
                                    let r2 = catch_unwind(AssertUnwindSafe(move || drop(fr)));
                                    let woken = flag.0.load(Ordering::SeqCst);
                                    match r2 {
                                        Ok(()) => sh2.ev(format!("ev {} drop {} woken={}", run, id, woken as u8)),
                                        Err(_) => sh2.ev(format!("ev {} panic drop", run)),
                                    }
                                }
                                None => sh2.ev(format!("ev {} poll inone", run)),
                            }
                        }
                        Err(_) => {
                            *finished = true;
                            sh2.ev(format!("ev {} poll panic", run));
                            break;
                        }
                    }
                }
            }
        });
    }
    if final_pending {
        let woken = r.flag.0.load(Ordering::SeqCst) as u8;
        let text = format!("pending woken={}", woken);
        sh.ev(format!("ev {} poll {}", run, text));
        r.last_poll = Some(text);
    } else {
        r.last_poll = Some("drained".to_string());
    }
    if r.finished {
        std::mem::forget(std::mem::replace(&mut r.root, Root::Gone));
    }
}
