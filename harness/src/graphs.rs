//! Builder / sequential / GraphInfo part of the harness: drives the real `fn_graph` builder with an
//! op list and prints what it observed.

use std::any::TypeId;
use std::fmt::Write as _;
use std::panic::{catch_unwind, AssertUnwindSafe};

use fn_graph::{DataAccessDyn, Edge, FnGraph, FnGraphBuilder, FnId, TypeIds};

/// data types: `Dn<0>`, `Dn<1>`, … (96 distinct ones, so that "more than 64 types" can be exercised)
pub struct Dn<const N: usize>;

macro_rules! by_type {
    ($i:expr, $f:ident) => {
        by_type!(@arms $i, $f, [0 1 2 3 4 5 6 7 8 9 10 11 12 13 14 15 16 17 18 19 20 21 22 23 24 25 26 27 28 29 30 31
            32 33 34 35 36 37 38 39 40 41 42 43 44 45 46 47 48 49 50 51 52 53 54 55 56 57 58 59 60 61 62 63
            64 65 66 67 68 69 70 71 72 73 74 75 76 77 78 79 80 81 82 83 84 85 86 87 88 89 90 91 92 93 94 95])
    };
    (@arms $i:expr, $f:ident, [$($n:literal)*]) => {
        match $i {
            $($n => $f::<$n>(),)*
            _ => $f::<9999>(),
        }
    };
}

fn tid_of<const N: usize>() -> TypeId {
    TypeId::of::<Dn<N>>()
}

pub fn tid(i: usize) -> TypeId {
    by_type!(i, tid_of)
}

#[derive(Clone, Debug, PartialEq)]
pub struct TestFn {
    pub idx: usize,
    pub tag: u32,
    pub r: Vec<usize>,
    pub w: Vec<usize>,
}

/// `(borrows, borrow_muts)` of the library's own read declaration `R<Dn<N>>`
fn decl_r_of<const N: usize>() -> (TypeIds, TypeIds) {
    let v = Dn::<N>;
    let r = fn_graph::R::new(&v);
    (DataAccessDyn::borrows(&r), DataAccessDyn::borrow_muts(&r))
}

fn decl_r(i: usize) -> (TypeIds, TypeIds) {
    by_type!(i, decl_r_of)
}

/// `(borrows, borrow_muts)` of the library's own write declaration `W<Dn<N>>`
fn decl_w_of<const N: usize>() -> (TypeIds, TypeIds) {
    let mut v = Dn::<N>;
    let w = fn_graph::W::new(&mut v);
    (DataAccessDyn::borrows(&w), DataAccessDyn::borrow_muts(&w))
}

fn decl_w(i: usize) -> (TypeIds, TypeIds) {
    by_type!(i, decl_w_of)
}

// The declarations of a test function are assembled from the library's own declaration helpers
// (`R<T>`, `W<T>`, `()`, `&()`), so that those are part of every build the harness observes.
impl DataAccessDyn for TestFn {
    fn borrows(&self) -> TypeIds {
        let mut out = TypeIds::new();
        for &i in &self.r {
            out.extend(decl_r(i).0);
        }
        for &i in &self.w {
            out.extend(decl_w(i).0);
        }
        out.extend(DataAccessDyn::borrows(&()));
        out.extend(DataAccessDyn::borrows(&&()));
        out
    }
    fn borrow_muts(&self) -> TypeIds {
        let mut out = TypeIds::new();
        for &i in &self.w {
            out.extend(decl_w(i).1);
        }
        for &i in &self.r {
            out.extend(decl_r(i).1);
        }
        out.extend(DataAccessDyn::borrow_muts(&()));
        out.extend(DataAccessDyn::borrow_muts(&&()));
        out
    }
}

#[derive(Clone, Copy, Debug, PartialEq, Eq)]
pub enum K {
    Logic,
    Contains,
}

#[derive(Clone, Debug, PartialEq)]
pub enum Op {
    Fn { tag: u32, r: Vec<usize>, w: Vec<usize> },
    Edge { k: K, a: usize, b: usize },
    Edges { k: K, pairs: Vec<(usize, usize)> },
}

pub fn csv(v: &[usize]) -> String {
    v.iter().map(|x| x.to_string()).collect::<Vec<_>>().join(",")
}

pub fn parse_csv(s: &str) -> Vec<usize> {
    if s.is_empty() {
        vec![]
    } else {
        s.split(',').map(|x| x.parse().unwrap()).collect()
    }
}

impl Op {
    pub fn line(&self) -> String {
        match self {
            Op::Fn { tag, r, w } => format!("op fn tag={} r={} w={}", tag, csv(r), csv(w)),
            Op::Edge { k, a, b } => format!("op {} {} {}", if *k == K::Logic { "logic" } else { "contains" }, a, b),
            Op::Edges { k, pairs } => format!(
                "op {} {}",
                if *k == K::Logic { "logics" } else { "containss" },
                pairs.iter().map(|(a, b)| format!("{}-{}", a, b)).collect::<Vec<_>>().join(",")
            ),
        }
    }

    pub fn parse(line: &str) -> Option<Op> {
        let t: Vec<&str> = line.split(' ').collect();
        if t.len() < 2 || (t[0] != "op" && t[0] != "op2") {
            return None;
        }
        match t[1] {
            "fn" => {
                let mut tag = 0;
                let mut r = vec![];
                let mut w = vec![];
                for kv in &t[2..] {
                    if let Some(v) = kv.strip_prefix("tag=") {
                        tag = v.parse().unwrap();
                    } else if let Some(v) = kv.strip_prefix("r=") {
                        r = parse_csv(v);
                    } else if let Some(v) = kv.strip_prefix("w=") {
                        w = parse_csv(v);
                    }
                }
                Some(Op::Fn { tag, r, w })
            }
            "logic" | "contains" => Some(Op::Edge {
                k: if t[1] == "logic" { K::Logic } else { K::Contains },
                a: t[2].parse().unwrap(),
                b: t[3].parse().unwrap(),
            }),
            "logics" | "containss" => {
                let pairs = if t.len() < 3 || t[2].is_empty() {
                    vec![]
                } else {
                    t[2].split(',')
                        .map(|p| {
                            let (a, b) = p.split_once('-').unwrap();
                            (a.parse().unwrap(), b.parse().unwrap())
                        })
                        .collect()
                };
                Some(Op::Edges { k: if t[1] == "logics" { K::Logic } else { K::Contains }, pairs })
            }
            _ => None,
        }
    }
}

fn batch<const N: usize>(b: &mut FnGraphBuilder<TestFn>, k: K, p: &[(usize, usize)]) -> String {
    let mut arr = [(FnId::new(0), FnId::new(0)); N];
    for i in 0..N {
        arr[i] = (FnId::new(p[i].0), FnId::new(p[i].1));
    }
    let r = match k {
        K::Logic => b.add_logic_edges(arr),
        K::Contains => b.add_contains_edges(arr),
    };
    match r {
        Ok(ids) => format!("res oks {}", csv(&ids.iter().map(|e| e.index()).collect::<Vec<_>>())),
        Err(_) => "res cycle".to_string(),
    }
}

/// Applies the ops to a real builder; returns the result lines and the builder.
pub fn apply_ops(ops: &[Op], res_prefix: &str) -> (FnGraphBuilder<TestFn>, Vec<String>) {
    let mut b = FnGraphBuilder::<TestFn>::new();
    let mut out = vec![];
    let mut n = 0usize;
    let mut skip = 0usize;
    // edges are declared with the ids the builder RETURNED for the functions (as a caller would)
    let mut ids: Vec<FnId> = vec![];
    let mut pairs_mapped: Vec<(usize, usize)>;
    let idof = |ids: &Vec<FnId>, i: usize| ids.get(i).copied().unwrap_or_else(|| FnId::new(i));
    for (oi, op) in ops.iter().enumerate() {
        if skip > 0 {
            skip -= 1;
            continue;
        }
        let line = match op {
            Op::Fn { tag, r, w } => {
                // every third function that is directly followed by another one goes through the
                // batch form `add_fns` together with its successor (same result lines)
                if let (true, Some(Op::Fn { tag: t2, r: r2, w: w2 })) = (n % 3 == 1, ops.get(oi + 1)) {
                    let ids2 = b.add_fns([
                        TestFn { idx: n, tag: *tag, r: r.clone(), w: w.clone() },
                        TestFn { idx: n + 1, tag: *t2, r: r2.clone(), w: w2.clone() },
                    ]);
                    n += 2;
                    skip = 1;
                    out.push(format!("{}res ok {}", res_prefix, ids2[0].index()));
                    ids.push(ids2[0]);
                    ids.push(ids2[1]);
                    format!("res ok {}", ids2[1].index())
                } else {
                    let id = b.add_fn(TestFn { idx: n, tag: *tag, r: r.clone(), w: w.clone() });
                    n += 1;
                    ids.push(id);
                    format!("res ok {}", id.index())
                }
            }
            Op::Edge { k, a, b: c } => {
                let (ia, ic) = (idof(&ids, *a), idof(&ids, *c));
                let r = catch_unwind(AssertUnwindSafe(|| match k {
                    K::Logic => b.add_logic_edge(ia, ic),
                    K::Contains => b.add_contains_edge(ia, ic),
                }));
                match r {
                    Ok(Ok(e)) => format!("res ok {}", e.index()),
                    Ok(Err(_)) => "res cycle".to_string(),
                    Err(_) => "res oob".to_string(),
                }
            }
            Op::Edges { k, pairs } => match {
                pairs_mapped = pairs.iter().map(|(x, y)| (idof(&ids, *x).index(), idof(&ids, *y).index())).collect::<Vec<_>>();
                pairs.len()
            } {
                0 => batch::<0>(&mut b, *k, &pairs_mapped),
                1 => batch::<1>(&mut b, *k, &pairs_mapped),
                2 => batch::<2>(&mut b, *k, &pairs_mapped),
                3 => batch::<3>(&mut b, *k, &pairs_mapped),
                4 => batch::<4>(&mut b, *k, &pairs_mapped),
                _ => batch::<5>(&mut b, *k, &pairs_mapped[..5]),
            },
        };
        out.push(format!("{}{}", res_prefix, line));
    }
    (b, out)
}

pub fn kind_char(e: Edge) -> char {
    match e {
        Edge::Logic => 'L',
        Edge::Contains => 'C',
        Edge::Data => 'D',
    }
}

pub fn edges_str(v: &[(usize, usize, Edge)]) -> String {
    v.iter().map(|(a, b, k)| format!("{}-{}:{}", a, b, kind_char(*k))).collect::<Vec<_>>().join(",")
}

pub fn graph_edges(g: &FnGraph<TestFn>) -> Vec<(usize, usize, Edge)> {
    g.graph.raw_edges().iter().map(|e| (e.source().index(), e.target().index(), e.weight)).collect()
}

/// `build()` under `catch_unwind`; returns the graph and the `built …` line.
pub fn build(b: FnGraphBuilder<TestFn>) -> (Option<FnGraph<TestFn>>, String) {
    build_for("", &[Op::Fn { tag: 0, r: vec![], w: vec![] }], b)
}

/// like `build`; a case without functions whose id hashes to an odd number gets its (empty) graph
/// from `FnGraph::new()` instead of the builder, so that both constructions of the empty graph are
/// run (deterministic in the case id, so a replay takes the same path)
pub fn build_for(id: &str, ops: &[Op], b: FnGraphBuilder<TestFn>) -> (Option<FnGraph<TestFn>>, String) {
    let no_fns = ops.iter().all(|o| !matches!(o, Op::Fn { .. }));
    let h = id.bytes().fold(0xcbf29ce484222325u64, |h, c| (h ^ c as u64).wrapping_mul(0x100000001b3));
    let use_new = no_fns && h % 2 == 1;
    let _ = fn_graph::verif_hooks::take_rank_pops();
    let _ = fn_graph::verif_hooks::take_path_checks();
    let r = catch_unwind(AssertUnwindSafe(move || if use_new { FnGraph::new() } else { b.build() }));
    let pops = fn_graph::verif_hooks::take_rank_pops();
    let checks = fn_graph::verif_hooks::take_path_checks();
    match r {
        Err(e) => {
            let msg = e.downcast_ref::<&str>().map(|s| s.to_string()).or_else(|| e.downcast_ref::<String>().cloned()).unwrap_or_default();
            (None, format!("built panic {}", msg.replace(' ', "_")))
        }
        Ok(g) => {
            let sv = fn_graph::verif_hooks::sched_view(&g);
            let mut s = String::new();
            let _ = write!(
                s,
                "built n={} edges={} ranks={} pops={} checks={} incoming={} outgoing={} struct={} structrev={} nodes={},{}",
                g.graph.node_count(),
                edges_str(&graph_edges(&g)),
                csv(&g.ranks().iter().map(|r| r.0).collect::<Vec<_>>()),
                pops,
                checks,
                csv(&sv.incoming),
                csv(&sv.outgoing),
                edges_str(&sv.structure),
                edges_str(&sv.structure_rev),
                sv.node_counts.0,
                sv.node_counts.1
            );
            (Some(g), s)
        }
    }
}

/// the `built …` line of another value of the same graph (a `clone_from` copy): everything is read
/// from `g`, the hook counters are those of the original build
pub fn rebuilt_line(old_line: &str, g: &FnGraph<TestFn>) -> String {
    let num = |k: &str| -> String {
        old_line.split(' ').find_map(|t| t.strip_prefix(k)).unwrap_or("0").to_string()
    };
    let sv = fn_graph::verif_hooks::sched_view(g);
    format!(
        "built n={} edges={} ranks={} pops={} checks={} incoming={} outgoing={} struct={} structrev={} nodes={},{}",
        g.graph.node_count(),
        edges_str(&graph_edges(g)),
        csv(&g.ranks().iter().map(|r| r.0).collect::<Vec<_>>()),
        num("pops="),
        num("checks="),
        csv(&sv.incoming),
        csv(&sv.outgoing),
        edges_str(&sv.structure),
        edges_str(&sv.structure_rev),
        sv.node_counts.0,
        sv.node_counts.1
    )
}

/// sequential API lines
pub fn seq_lines(g: &mut FnGraph<TestFn>, fails: &[usize]) -> Vec<String> {
    let mut out = vec![];
    let iter: Vec<usize> = g.iter().map(|f| f.idx).collect();
    let iter_rev: Vec<usize> = g.iter_rev().map(|f| f.idx).collect();
    let mut topo = g.toposort();
    let mut toposort = vec![];
    // `toposort()` returns a petgraph `Topo` over `graph_structure`; walk it over the public graph
    // (same node set; the walk needs a graph argument and `graph_structure` is private).
    while let Some(id) = topo.next(&g.graph) {
        toposort.push(id.index());
    }
    // `map`: collected through `by_ref`, then polled again after the end (must stay at the end)
    let (map, map_again) = {
        let mut it = g.map(|f| f.idx);
        let v: Vec<usize> = it.by_ref().collect();
        let again = it.by_ref().take(3).count();
        (v, again)
    };
    let fold: Vec<usize> = g.fold(vec![], |mut acc, f| {
        acc.push(f.idx);
        acc
    });
    let mut for_each = vec![];
    g.for_each(|f| for_each.push(f.idx));
    let insertion: Vec<usize> = g.iter_insertion().map(|f| f.idx).collect();
    let insertion_mut: Vec<usize> = g.iter_insertion_mut().map(|f| f.idx).collect();
    let insertion_idx: Vec<usize> = g.iter_insertion_with_indices().map(|(i, f)| i.index() * 1000 + f.idx).collect();
    // `iter_insertion` is double-ended and exact-size: from the back, and alternately from both ends
    let insertion_rev: Vec<usize> = g.iter_insertion().rev().map(|f| f.idx).collect();
    let insertion_len = g.iter_insertion().len();
    let insertion_mixed: Vec<usize> = {
        let mut it = g.iter_insertion();
        let mut v = vec![];
        loop {
            match it.next() {
                Some(f) => v.push(f.idx),
                None => break,
            }
            match it.next_back() {
                Some(f) => v.push(f.idx),
                None => break,
            }
            if v.len() > 100_000 {
                break;
            }
        }
        v
    };
    out.push(format!(
        "seq iter={} iter_rev={} toposort={} map={} fold={} for_each={} insertion={} insertion_mut={} insertion_idx={} map_again={} insertion_rev={} insertion_len={} insertion_mixed={}",
        csv(&iter),
        csv(&iter_rev),
        csv(&toposort),
        csv(&map),
        csv(&fold),
        csv(&for_each),
        csv(&insertion),
        csv(&insertion_mut),
        csv(&insertion_idx),
        map_again,
        csv(&insertion_rev),
        insertion_len,
        csv(&insertion_mixed)
    ));
    // try_fold / try_for_each with a failing set
    let mut seen = vec![];
    let r: Result<(), usize> = g.try_fold((), |(), f| {
        seen.push(f.idx);
        if fails.contains(&f.idx) {
            Err(f.idx)
        } else {
            Ok(())
        }
    });
    out.push(format!(
        "tryseq kind=try_fold fails={} seen={} err={}",
        csv(fails),
        csv(&seen),
        r.err().map(|e| e.to_string()).unwrap_or_else(|| "none".into())
    ));
    let mut seen = vec![];
    let r: Result<(), usize> = g.try_for_each(|f| {
        seen.push(f.idx);
        if fails.contains(&f.idx) {
            Err(f.idx)
        } else {
            Ok(())
        }
    });
    out.push(format!(
        "tryseq kind=try_for_each fails={} seen={} err={}",
        csv(fails),
        csv(&seen),
        r.err().map(|e| e.to_string()).unwrap_or_else(|| "none".into())
    ));
    out
}

#[cfg(feature = "intr")]
pub fn ginfo_line(g: &FnGraph<TestFn>) -> String {
    use fn_graph::GraphInfo;
    let r = catch_unwind(AssertUnwindSafe(|| {
        let gi: GraphInfo<usize> = GraphInfo::from_graph(g, |f| f.idx * 7 + 3);
        let nodes: Vec<usize> = gi.graph.raw_nodes().iter().map(|n| n.weight).collect();
        let edges: Vec<(usize, usize, Edge)> =
            gi.graph.raw_edges().iter().map(|e| (e.source().index(), e.target().index(), e.weight)).collect();
        let iter: Vec<usize> = gi.iter().copied().collect();
        let iter_rev: Vec<usize> = gi.iter_rev().copied().collect();
        let yaml = serde_yaml_ng::to_string(&gi).unwrap();
        let back: GraphInfo<usize> = serde_yaml_ng::from_str(&yaml).unwrap();
        // the same with a node type that is an enum with data-carrying, struct-like and unit variants
        #[derive(Clone, Debug, PartialEq, serde::Serialize, serde::Deserialize)]
        enum Info {
            Plain(usize),
            Named { idx: usize, name: String },
            Unit,
        }
        let gi2: GraphInfo<Info> = GraphInfo::from_graph(g, |f| match f.idx % 3 {
            0 => Info::Plain(f.idx),
            1 => Info::Named { idx: f.idx, name: format!("fn {}", f.idx) },
            _ => Info::Unit,
        });
        let rt2 = match serde_yaml_ng::to_string(&gi2).ok().map(|y| serde_yaml_ng::from_str::<GraphInfo<Info>>(&y)) {
            Some(Ok(b2)) => b2 == gi2,
            _ => false,
        };
        let roundtrip = back == gi && rt2;
        let back_iter: Vec<usize> = back.iter().copied().collect();
        let back_iter_rev: Vec<usize> = back.iter_rev().copied().collect();
        let back_nodes: Vec<usize> = back.graph.raw_nodes().iter().map(|n| n.weight).collect();
        let back_edges: Vec<(usize, usize, Edge)> =
            back.graph.raw_edges().iter().map(|e| (e.source().index(), e.target().index(), e.weight)).collect();
        // parse the YAML text independently into its (nodes, edges) shape
        let val: serde_yaml_ng::Value = serde_yaml_ng::from_str(&yaml).unwrap();
        let gv = &val["graph"];
        // daggy serialises `Dag { graph, .. }`; petgraph's form has `nodes` and `edges`
        let inner = if gv.get("nodes").is_some() { gv.clone() } else { gv["graph"].clone() };
        let ynodes: Vec<usize> = inner["nodes"].as_sequence().map(|s| s.iter().map(|v| v.as_u64().unwrap() as usize).collect()).unwrap_or_default();
        let yedges: Vec<String> = inner["edges"]
            .as_sequence()
            .map(|s| {
                s.iter()
                    .map(|e| {
                        let t = e.as_sequence().unwrap();
                        let k = match t[2].as_str().unwrap_or("?") {
                            "Logic" => 'L',
                            "Contains" => 'C',
                            "Data" => 'D',
                            _ => '?',
                        };
                        format!("{}-{}:{}", t[0].as_u64().unwrap(), t[1].as_u64().unwrap(), k)
                    })
                    .collect()
            })
            .unwrap_or_default();
        format!(
            "ginfo nodes={} edges={} iter={} iter_rev={} yaml_nodes={} yaml_edges={} roundtrip_eq={} back_nodes={} back_edges={} back_iter={} back_iter_rev={}",
            csv(&nodes),
            edges_str(&edges),
            csv(&iter),
            csv(&iter_rev),
            csv(&ynodes),
            yedges.join(","),
            roundtrip,
            csv(&back_nodes),
            edges_str(&back_edges),
            csv(&back_iter),
            csv(&back_iter_rev)
        )
    }));
    match r {
        Ok(s) => s,
        Err(_) => "ginfo panic".to_string(),
    }
}
