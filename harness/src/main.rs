//! fg_harness — drives the real `fn_graph` (rebuilt from /repo's working tree) on generated or
//! replayed cases and writes what happened as a line protocol (see /verif/DESIGN.md section 3).
//!
//!   fg_harness gen --seed S --count N --kinds <csv> [--maxn K]      > trace
//!   fg_harness replay <casefile>                                      > trace
//!   fg_harness kpops --sizes a,b,c                                    > trace   (C18 growth series)
//!   fg_harness enum --maxn K --kind run|stream --part i --parts n     > trace   (all schedules)
//!   fg_harness enumb --maxn K --decls small|full --part i --parts n   > trace   (builder space)
//!   fg_harness sweep --sizes a,b --stride s                           > trace   (budget x interrupt / failure)

mod graphs;
mod runs;

use graphs::*;
use runs::*;

pub struct Rng(pub u64);
impl Rng {
    pub fn next(&mut self) -> u64 {
        self.0 ^= self.0 << 13;
        self.0 ^= self.0 >> 7;
        self.0 ^= self.0 << 17;
        self.0
    }
    pub fn below(&mut self, n: u64) -> u64 {
        if n == 0 {
            0
        } else {
            (self.next() >> 11) % n
        }
    }
    pub fn chance(&mut self, pct: u64) -> bool {
        self.below(100) < pct
    }
    pub fn pick<'a, T>(&mut self, v: &'a [T]) -> &'a T {
        &v[self.below(v.len() as u64) as usize]
    }
}

const FEAT: &str = if cfg!(feature = "intr") { "intr" } else { "default" };

fn fut_apis() -> Vec<&'static str> {
    vec![
        "fold_async",
        "fold_async_with",
        "fold_async_mut",
        "fold_async_mut_with",
        "for_each_concurrent",
        "for_each_concurrent_with",
        "for_each_concurrent_mut",
        "for_each_concurrent_mut_with",
        "try_fold_async",
        "try_fold_async_with",
        "try_fold_async_mut",
        "try_fold_async_mut_with",
        "try_for_each_concurrent",
        "try_for_each_concurrent_with",
        "try_for_each_concurrent_mut",
        "try_for_each_concurrent_mut_with",
        "try_for_each_concurrent_control",
        "try_for_each_concurrent_control_with",
        "try_for_each_concurrent_control_mut",
        "try_for_each_concurrent_control_mut_with",
    ]
}

fn stream_apis() -> Vec<&'static str> {
    if cfg!(feature = "intr") {
        vec!["stream", "stream_with", "stream_interruptible", "stream_with_interruptible"]
    } else {
        vec!["stream", "stream_with"]
    }
}

/// ---------------------------------------------------------------- graph generators
fn gen_decl(rng: &mut Rng, types: u64, density: u64) -> (Vec<usize>, Vec<usize>) {
    let mut r = vec![];
    let mut w = vec![];
    for d in 0..types {
        let x = rng.below(100);
        if x < density / 2 {
            r.push(d as usize);
        } else if x < density {
            w.push(d as usize);
            // now and then a function both reads and writes a type (an in-place update), or names a
            // type twice in one list
            if rng.chance(12) {
                r.push(d as usize);
            } else if rng.chance(6) {
                w.push(d as usize);
            }
        }
    }
    (r, w)
}

fn gen_ops(rng: &mut Rng, maxn: usize, allow_big: bool) -> (Vec<Op>, String) {
    let mut shape = rng.below(100);
    if shape == 99 && !allow_big {
        // the > 256-function shapes are for the builder checks; run sessions on them cost minutes
        shape = 98;
    }
    let mut ops = vec![];
    let types = 2 + rng.below(4);
    let density = *rng.pick(&[0u64, 20, 40, 60, 90]);
    let kind = |rng: &mut Rng| if rng.chance(50) { K::Logic } else { K::Contains };
    let mut add_fns = |rng: &mut Rng, ops: &mut Vec<Op>, n: usize, dens: u64| {
        for _ in 0..n {
            let (r, w) = gen_decl(rng, types, dens);
            ops.push(Op::Fn { tag: rng.below(3) as u32, r, w });
        }
    };
    let name;
    if shape < 3 {
        name = "empty";
    } else if shape < 7 {
        name = "single";
        add_fns(rng, &mut ops, 1, density);
    } else if shape < 55 {
        // random: fns first, then random pairs in arbitrary direction (some rejected), mixed forms
        name = "random";
        let n = 2 + rng.below((maxn.max(3) - 1) as u64) as usize;
        let n = n.min(maxn.max(2));
        add_fns(rng, &mut ops, n, density);
        let m = rng.below(2 * n as u64 + 1);
        let mut i = 0;
        while i < m {
            let a = rng.below(n as u64) as usize;
            let b = rng.below(n as u64) as usize;
            if rng.chance(12) {
                let cnt = 1 + rng.below(4) as usize;
                let mut pairs = vec![(a, b)];
                for _ in 1..cnt {
                    pairs.push((rng.below(n as u64) as usize, rng.below(n as u64) as usize));
                }
                ops.push(Op::Edges { k: kind(rng), pairs });
                i += cnt as u64;
            } else {
                ops.push(Op::Edge { k: kind(rng), a, b });
                i += 1;
            }
        }
    } else if shape < 63 {
        // interleaved add_fn / edges, forward-biased (few rejections), repeats with other kind
        name = "interleaved";
        let n = 2 + rng.below((maxn.max(3) - 1) as u64) as usize;
        let mut have = 0usize;
        while have < n {
            add_fns(rng, &mut ops, 1, density);
            have += 1;
            if have >= 2 {
                for _ in 0..rng.below(3) {
                    let a = rng.below(have as u64) as usize;
                    let b = rng.below(have as u64) as usize;
                    let (a, b) = if rng.chance(85) { (a.min(b), a.max(b)) } else { (a, b) };
                    ops.push(Op::Edge { k: kind(rng), a, b });
                }
            }
        }
    } else if shape < 70 {
        name = "chain";
        let n = 2 + rng.below((maxn.max(3) - 1) as u64) as usize;
        add_fns(rng, &mut ops, n, density);
        let mut order: Vec<usize> = (0..n).collect();
        for i in (1..n).rev() {
            order.swap(i, rng.below(i as u64 + 1) as usize);
        }
        for i in 0..n - 1 {
            ops.push(Op::Edge { k: kind(rng), a: order[i], b: order[i + 1] });
        }
    } else if shape < 78 {
        name = "diamonds";
        let n = 4 + rng.below((maxn.max(5) - 3) as u64) as usize;
        add_fns(rng, &mut ops, n, density);
        // join node: every earlier pair feeds a later one
        for c in 2..n {
            if rng.chance(70) {
                let a = rng.below(c as u64) as usize;
                let b = rng.below(c as u64) as usize;
                ops.push(Op::Edge { k: kind(rng), a, b: c });
                if a != b {
                    ops.push(Op::Edge { k: kind(rng), a: b, b: c });
                }
            }
        }
    } else if shape < 86 {
        name = "layered";
        let layers = 2 + rng.below(3) as usize;
        let width = 1 + rng.below(((maxn / layers).max(2)) as u64) as usize;
        let n = layers * width;
        add_fns(rng, &mut ops, n, density);
        let mut es = vec![];
        for l in 0..layers - 1 {
            for i in 0..width {
                for j in 0..width {
                    if rng.chance(60) {
                        es.push((l * width + i, (l + 1) * width + j));
                    }
                }
            }
        }
        for i in (1..es.len()).rev() {
            es.swap(i, rng.below(i as u64 + 1) as usize);
        }
        for (a, b) in es {
            ops.push(Op::Edge { k: kind(rng), a, b });
        }
    } else if shape < 91 {
        name = "complete";
        let n = 2 + rng.below((maxn.max(3) - 1) as u64) as usize;
        add_fns(rng, &mut ops, n, density);
        let mut perm: Vec<usize> = (0..n).collect();
        for i in (1..n).rev() {
            perm.swap(i, rng.below(i as u64 + 1) as usize);
        }
        let mut es = vec![];
        for i in 0..n {
            for j in i + 1..n {
                es.push((perm[i], perm[j]));
            }
        }
        for i in (1..es.len()).rev() {
            es.swap(i, rng.below(i as u64 + 1) as usize);
        }
        for (a, b) in es {
            ops.push(Op::Edge { k: kind(rng), a, b });
        }
    } else if shape < 93 {
        // tree: every function has one parent, fan-out 2..4, edges added in shuffled order — with a small
        // limit the ready queue backs up while completed functions release whole groups of children
        name = "tree";
        let n = 5 + rng.below((2 * maxn.max(4)) as u64) as usize;
        let dens = if rng.chance(70) { 0 } else { density };
        add_fns(rng, &mut ops, n, dens);
        let mut es = vec![];
        let mut next = 1usize;
        let mut parent = 0usize;
        while next < n {
            let fan = 2 + rng.below(3) as usize;
            for _ in 0..fan {
                if next < n {
                    es.push((parent, next));
                    next += 1;
                }
            }
            parent += 1;
        }
        for i in (1..es.len()).rev() {
            es.swap(i, rng.below(i as u64 + 1) as usize);
        }
        for (a, b) in es {
            ops.push(Op::Edge { k: kind(rng), a, b });
        }
    } else if shape < 94 {
        // fanchain: a root fanned over a chain m1 -> m2 -> … -> mK -> t, fan edges added in ascending or
        // descending order (ascending makes the rank work list revisit the chain once per wave)
        name = "fanchain";
        let k = 3 + rng.below((maxn.max(8) - 4) as u64) as usize;
        add_fns(rng, &mut ops, k + 2, density);
        let asc = rng.chance(70);
        let chain_first = rng.chance(50);
        let mut chain = vec![];
        for i in 1..=k {
            chain.push(Op::Edge { k: kind(rng), a: i, b: i + 1 });
        }
        let mut fan = vec![];
        for i in 1..=k {
            fan.push(Op::Edge { k: kind(rng), a: 0, b: i });
        }
        if !asc {
            fan.reverse();
        }
        if chain_first {
            ops.extend(chain);
            ops.extend(fan);
        } else {
            ops.extend(fan);
            ops.extend(chain);
        }
    } else if shape < 96 {
        // fan: source -> k mids -> sink, k larger than any small constant channel capacity
        name = "fan";
        let k = *rng.pick(&[5usize, 17, 33, 65, 100, 130, 130, 270]);
        add_fns(rng, &mut ops, k + 2, 0);
        for m in 1..=k {
            ops.push(Op::Edge { k: kind(rng), a: 0, b: m });
        }
        for m in 1..=k {
            ops.push(Op::Edge { k: kind(rng), a: m, b: k + 1 });
        }
    } else if shape == 99 {
        // big: more than 256 functions (indices, counters and ranks that do not fit a byte)
        let n = 257 + rng.below(44) as usize;
        if rng.chance(50) {
            // a spine of n-1 edges (ranks beyond 255) with a few shortcuts and side leaves,
            // functions inserted root-first or leaf-first
            name = "bigchain";
            add_fns(rng, &mut ops, n, 0);
            let leaf_first = rng.chance(40);
            let id = |i: usize| if leaf_first { n - 1 - i } else { i };
            let spine = n - 8;
            for i in 0..spine - 1 {
                ops.push(Op::Edge { k: kind(rng), a: id(i), b: id(i + 1) });
            }
            for _ in 0..6 {
                let a = rng.below(spine as u64 - 2) as usize;
                let b = a + 2 + rng.below((spine - a - 2) as u64) as usize;
                ops.push(Op::Edge { k: kind(rng), a: id(a), b: id(b) });
            }
            for l in spine..n {
                let a = rng.below(spine as u64) as usize;
                ops.push(Op::Edge { k: kind(rng), a: id(a), b: id(l) });
            }
        } else {
            // no logic edges at all, most functions write the same type: one long chain of data edges
            name = "bigwriters";
            for _ in 0..n {
                let t = rng.below(2) as usize;
                let (r, w) = match rng.below(10) { 0 => (vec![], vec![]), 1 | 2 => (vec![t], vec![]), _ => (vec![], vec![t]) };
                ops.push(Op::Fn { tag: rng.below(3) as u32, r, w });
            }
            for _ in 0..rng.below(4) {
                let a = rng.below(n as u64) as usize;
                let b = rng.below(n as u64) as usize;
                ops.push(Op::Edge { k: kind(rng), a: a.min(b), b: a.max(b) });
            }
        }
    } else if shape == 98 {
        // manytypes: more than 64 distinct data types in one graph (bit sets of types)
        name = "manytypes";
        let n = 66 + rng.below(15) as usize;
        for i in 0..n {
            let own = i % 96;
            let far = (i + 64) % 96;
            let (mut r, mut w) = (vec![], vec![]);
            if rng.chance(60) { w.push(own) } else { r.push(own) }
            if rng.chance(15) { if rng.chance(50) { w.push(far) } else { r.push(far) } }
            ops.push(Op::Fn { tag: rng.below(3) as u32, r, w });
        }
        for _ in 0..rng.below(5) {
            let a = rng.below(n as u64) as usize;
            let b = rng.below(n as u64) as usize;
            ops.push(Op::Edge { k: kind(rng), a: a.min(b), b: a.max(b) });
        }
    } else {
        // wide: many roots (more than any small constant channel capacity), few edges, little conflict
        name = "wide";
        let n = *rng.pick(&[17usize, 33, 65, 130]);
        let dens = if rng.chance(50) { 0 } else { 6 };
        add_fns(rng, &mut ops, n, dens);
        for _ in 0..rng.below(6) {
            let a = rng.below(n as u64) as usize;
            let b = rng.below(n as u64) as usize;
            ops.push(Op::Edge { k: kind(rng), a: a.min(b), b: a.max(b) });
        }
    }
    (ops, name.to_string())
}

/// a perturbed copy of `ops` (C12 inequality): change one function, endpoint or kind
fn perturb(rng: &mut Rng, ops: &[Op]) -> (Vec<Op>, String) {
    let mut o = ops.to_vec();
    if o.is_empty() || rng.chance(25) {
        return (o, "same".into());
    }
    let i = rng.below(o.len() as u64) as usize;
    let n = ops.iter().filter(|x| matches!(x, Op::Fn { .. })).count().max(1);
    let what;
    match &mut o[i] {
        Op::Fn { tag, r, w } => match rng.below(3) {
            0 => {
                *tag += 1;
                what = "tag";
            }
            1 => {
                if r.is_empty() {
                    r.push(0)
                } else {
                    r.pop();
                }
                what = "reads";
            }
            _ => {
                if w.is_empty() {
                    w.push(1)
                } else {
                    w.pop();
                }
                what = "writes";
            }
        },
        Op::Edge { k, a, b } => match rng.below(3) {
            0 => {
                *k = if *k == K::Logic { K::Contains } else { K::Logic };
                what = "kind";
            }
            1 => {
                *a = (*a + 1) % n;
                what = "src";
            }
            _ => {
                *b = (*b + 1) % n;
                what = "tgt";
            }
        },
        Op::Edges { k, pairs } => {
            if pairs.is_empty() || rng.chance(50) {
                *k = if *k == K::Logic { K::Contains } else { K::Logic };
                what = "bkind";
            } else {
                let j = rng.below(pairs.len() as u64) as usize;
                pairs[j].1 = (pairs[j].1 + 1) % n;
                what = "btgt";
            }
        }
    }
    (o, what.to_string())
}

/// ---------------------------------------------------------------- run configuration generators
fn gen_runcfg(rng: &mut Rng, stream: bool, shared_only: bool) -> RunCfg {
    let apis = if stream { stream_apis() } else { fut_apis() };
    let mut api;
    loop {
        api = rng.pick(&apis).to_string();
        if shared_only && api.contains("_mut") {
            continue;
        }
        break;
    }
    let mut c = RunCfg { api, rev: false, limit: None, strat: Strat::Non, incl: true, ord: rng.below(12) as u8 };
    if c.api.contains("for_each_concurrent") {
        c.limit = *rng.pick(&[None, None, Some(0), Some(1), Some(1), Some(2), Some(2), Some(3), Some(4), Some(5), Some(64), Some(usize::MAX)]);
    }
    if c.has_opts() {
        c.rev = rng.chance(40);
        if cfg!(feature = "intr") {
            c.strat = match rng.below(10) {
                0 | 1 => Strat::Non,
                2 => Strat::Ignore,
                3..=5 => Strat::Finish,
                _ => Strat::PollN(if rng.chance(15) { rng.below(60) } else { rng.below(4) }),
            };
            c.incl = rng.chance(55);
        }
    }
    c
}

struct GenChooser {
    rng: Rng,
    useless: usize,
    allow_abort: bool,
    midpoll_intr: bool,
    steps: usize,
    burst: bool, // complete / drop everything that is in flight at once
    abort_at: Option<usize>, // history mode: abandon the run at this step
    late_fail: Option<usize>, // bursts: the first `m` completions of a burst are ok, later ones fail often
    hold_back: usize, // bursts: this many in-flight functions / live FnRefs are left out of the burst
    eager_intr: bool, // shared-state histories: send the signal early and with any strategy
}

impl GenChooser {
    fn choose(&mut self, v: &View, step: usize) -> Option<Vec<Act>> {
        let rng = &mut self.rng;
        self.steps += 1;
        if self.steps > 2000 {
            return None;
        }
        let mut batch = vec![];
        let mut any_live = false;
        if self.abort_at == Some(step) {
            for (i, r) in v.runs.iter().enumerate() {
                if !r.finished {
                    batch.push(if r.cfg.is_stream() { Act::DropStream { run: i } } else { Act::Abort { run: i } });
                }
            }
            if !batch.is_empty() {
                return Some(batch);
            }
        }
        for (i, r) in v.runs.iter().enumerate() {
            if r.not_started {
                // a late second run: start it at a random point, at the latest once the first run is over
                let first_over = v.runs.iter().enumerate().all(|(j, o)| j == i || o.finished);
                if first_over || rng.chance(25) {
                    batch.push(Act::Start { run: i });
                }
                any_live = true;
                continue;
            }
            if r.finished {
                // a stream that was dropped / has ended with `FnRef`s still alive: they are dropped one by
                // one while the other run goes on
                if r.cfg.is_stream() && !r.live.is_empty() && v.runs.iter().any(|o| !o.finished) {
                    if rng.chance(35) {
                        let f = *rng.pick(&r.live);
                        batch.push(Act::Drop { run: i, f });
                    }
                }
                continue;
            }
            any_live = true;
            let interrupting = matches!(r.cfg.strat, Strat::Finish | Strat::PollN(_));
            if r.cfg.is_stream() {
                // ---- stream chooser
                if step == 0 {
                    if interrupting && rng.chance(12) {
                        batch.push(Act::Intr { run: i });
                    }
                    batch.push(Act::Poll { run: i });
                    continue;
                }
                let last = r.last_poll.clone().unwrap_or_default();
                // while a late second run is still to be created: often give the stream up (or let it end)
                // with `FnRef`s still alive — they are dropped later, during the second run
                let other_late = v.runs.iter().any(|o| o.not_started);
                if other_late && !r.live.is_empty() && rng.chance(if last == "none" { 60 } else { 30 }) {
                    batch.push(Act::DropStream { run: i });
                    continue;
                }
                if last == "none" || last == "panic" || last == "drained" {
                    // drop what is left in random order, poll once more sometimes, then stop
                    if !r.live.is_empty() {
                        let f = *rng.pick(&r.live);
                        batch.push(Act::Drop { run: i, f });
                        if rng.chance(20) {
                            batch.push(Act::Poll { run: i });
                        }
                    } else if r.polls < 3 * (r.yielded + 2) && rng.chance(30) {
                        batch.push(Act::Poll { run: i });
                    } else {
                        batch.push(Act::DropStream { run: i });
                    }
                    continue;
                }
                if self.allow_abort && rng.chance(2) {
                    batch.push(Act::DropStream { run: i });
                    continue;
                }
                if (interrupting || self.eager_intr) && !r.intr_sent && rng.chance(if self.eager_intr { 30 } else { 10 }) {
                    batch.push(Act::Intr { run: i });
                }
                if last.starts_with("pending") {
                    if r.live.is_empty() {
                        // nothing to drop: a further poll is all that can happen; give it two tries
                        self.useless += 1;
                        if self.useless > 2 {
                            batch.push(Act::DropStream { run: i });
                        } else {
                            if interrupting && !r.intr_sent {
                                batch.push(Act::Intr { run: i });
                            }
                            batch.push(Act::Poll { run: i });
                        }
                    } else {
                        let k = if self.burst { r.live.len().saturating_sub(self.hold_back).max(1) } else { 1 + rng.below(3.min(r.live.len() as u64)) as usize };
                        let mut live = r.live.clone();
                        for _ in 0..k {
                            let j = rng.below(live.len() as u64) as usize;
                            batch.push(Act::Drop { run: i, f: live.remove(j) });
                            if !self.burst && rng.chance(15) {
                                batch.push(Act::Poll { run: i });
                            }
                        }
                        batch.push(Act::Poll { run: i });
                    }
                } else {
                    // got an item: poll on, or drop something first
                    self.useless = 0;
                    if self.burst && rng.chance(50) {
                        // tight consumer loop: drop what is held, then poll-and-drop until Pending / None
                        for &f in &r.live {
                            batch.push(Act::Drop { run: i, f });
                        }
                        batch.push(Act::Drain { run: i });
                        continue;
                    }
                    if !self.burst && !r.live.is_empty() && rng.chance(35) {
                        let f = *rng.pick(&r.live);
                        batch.push(Act::Drop { run: i, f });
                    }
                    batch.push(Act::Poll { run: i });
                }
                continue;
            }
            // ---- future chooser
            if step == 0 {
                if rng.chance(if interrupting { 15 } else { 4 }) {
                    batch.push(Act::Intr { run: i });
                }
                continue;
            }
            if self.allow_abort && rng.chance(2) {
                batch.push(Act::Abort { run: i });
                continue;
            }
            if r.inflight.is_empty() {
                self.useless += 1;
                if self.useless > 2 {
                    batch.push(Act::Abort { run: i });
                } else if !r.intr_sent && rng.chance(50) {
                    batch.push(Act::Intr { run: i });
                } else {
                    batch.push(Act::Poll { run: i });
                }
                continue;
            }
            self.useless = 0;
            if !r.intr_sent && rng.chance(if self.eager_intr { 30 } else if interrupting { 14 } else { 3 }) {
                batch.push(Act::Intr { run: i });
                if rng.chance(50) {
                    continue;
                }
            }
            if rng.chance(3) {
                batch.push(Act::Poll { run: i });
                continue;
            }
            let k = if self.burst {
                r.inflight.len().saturating_sub(self.hold_back).max(1)
            } else if rng.chance(70) {
                1
            } else {
                1 + rng.below(3.min(r.inflight.len() as u64)) as usize
            };
            if self.midpoll_intr && !r.intr_sent && rng.chance(20) {
                // a sender on another thread: the signal lands right after one of the next polls
                batch.push(Act::After { run: i, k: rng.below(3) as usize });
            }
            let mut infl = r.inflight.clone();
            for pos in 0..k.min(infl.len()) {
                let j = rng.below(infl.len() as u64) as usize;
                let f = infl.remove(j);
                let ok = match (self.burst, self.late_fail) {
                    (true, Some(m)) => !(r.cfg.is_try() && pos >= m && rng.chance(40)),
                    _ => !(r.cfg.is_try() && rng.chance(15)),
                };
                let intr = self.midpoll_intr && !r.intr_sent && rng.chance(25);
                batch.push(Act::Open { run: i, f, ok, intr });
            }
        }
        if !any_live {
            return None;
        }
        Some(batch)
    }
}

/// Runs one stage of a case; a panic that escapes the real code there is logged as a `crash` line
/// (the driver counts it against the property that stage belongs to) instead of ending the harness.
fn guarded<T>(out: &mut Vec<String>, stage: &str, f: impl FnOnce() -> T) -> Option<T> {
    match std::panic::catch_unwind(std::panic::AssertUnwindSafe(f)) {
        Ok(v) => Some(v),
        Err(e) => {
            let msg = e.downcast_ref::<&str>().map(|s| s.to_string()).or_else(|| e.downcast_ref::<String>().cloned()).unwrap_or_default();
            out.push(format!("crash stage={} msg={}", stage, msg.replace(' ', "_")));
            None
        }
    }
}

/// ---------------------------------------------------------------- case execution
struct Session {
    cfgs: Vec<RunCfg>,
    coop: bool,
    auto: u8,
    shared: bool, // the run's InterruptibilityState is the case-wide one, handed over with reborrow()
    late: bool,   // pair sessions: the second run is created later, by a `start:1` action
    chain: usize, // auto mode 4: the function whose completion wakes function 0
    script: Option<Vec<Vec<Act>>>, // None = generate
}

fn run_case(
    out: &mut Vec<String>,
    id: &str,
    shape: &str,
    ops: &[Op],
    alt: Option<(Vec<Op>, String)>,
    fails: &[usize],
    sessions: Vec<Session>,
    rng: &mut Rng,
    allow_abort: bool,
    midpoll: bool,
) {
    out.push(format!("case {} feat={} shape={}", id, FEAT, shape));
    for op in ops {
        out.push(op.line());
    }
    // a third of the cases run everything that follows on a value that held ANOTHER graph (the same
    // functions with every edge reversed) and was then overwritten with `clone_from` (deterministic in
    // the case id, so a replay takes the same path)
    let id_hash = id.bytes().fold(0xcbf29ce484222325u64, |h, c| (h ^ c as u64).wrapping_mul(0x100000001b3));
    let other_first: Option<fn_graph::FnGraph<TestFn>> = if id_hash % 3 == 1 && !id.starts_with('k') {
        let rev_ops: Vec<Op> = ops
            .iter()
            .map(|o| match o {
                Op::Edge { k, a, b } => Op::Edge { k: *k, a: *b, b: *a },
                Op::Edges { k, pairs } => Op::Edges { k: *k, pairs: pairs.iter().map(|(a, b)| (*b, *a)).collect() },
                f => f.clone(),
            })
            .collect();
        let r = std::panic::catch_unwind(std::panic::AssertUnwindSafe(|| {
            let (b0, _) = apply_ops(&rev_ops, "");
            build(b0).0
        }));
        r.ok().flatten()
    } else {
        None
    };
    let (b, res) = apply_ops(ops, "");
    // interleave: protocol wants `res` after each op; emit them in order after the ops block
    out.extend(res);
    let t0 = std::time::Instant::now();
    let (g, built) = build_for(id, ops, b);
    let build_ms = t0.elapsed().as_millis();
    let mut g = match g {
        Some(g) => g,
        None => {
            out.push(built);
            out.push(format!("timing build_ms={}", build_ms));
            out.push("end".into());
            return;
        }
    };
    match other_first {
        Some(mut h) => {
            out.push("note clone_from".into());
            match guarded(out, "clone", || {
                h.clone_from(&g);
                let line = rebuilt_line(&built, &h);
                (h, line)
            }) {
                Some((h, line)) => {
                    out.push(line);
                    g = h;
                }
                None => out.push(built),
            }
        }
        None => out.push(built),
    }
    out.push(format!("timing build_ms={}", build_ms));
    let mut g_other: Option<fn_graph::FnGraph<TestFn>> = None;
    let n_fns_all = ops.iter().filter(|x| matches!(x, Op::Fn { .. })).count();
    // B-eq: same ops again, and a perturbed list
    if let Some((alt_ops, what)) = alt {
        out.push(format!("eqwith pert={}", what));
        for op in &alt_ops {
            out.push(op.line().replacen("op ", "op2 ", 1));
        }
        let (b2, res2) = apply_ops(&alt_ops, "");
        out.extend(res2.into_iter().map(|l| l.replacen("res ", "res2 ", 1)));
        let (g2, _) = build(b2);
        match g2 {
            Some(g2) => {
                if let Some(l) = guarded(out, "eq", || format!("eqres {} ranks_eq={}", g == g2, g.ranks() == g2.ranks())) {
                    out.push(l);
                }
                g_other = Some(g2);
            }
            None => out.push("eqres panic".into()),
        }
    }
    if let Some(l) = guarded(out, "seq", || seq_lines(&mut g, fails)) {
        out.extend(l);
    }
    // the same sequential calls on a copy: `clone()`, or — when a second graph is at hand —
    // `clone_from` over a value that held a different graph
    if let Some(l) = guarded(out, "seq", || {
        let mut h = match &g_other {
            Some(o) => {
                let mut h = o.clone();
                h.clone_from(&g);
                h
            }
            None if n_fns_all % 2 == 0 => g.clone(),
            None => {
                let mut h = fn_graph::FnGraph::new();
                h.clone_from(&g);
                h
            }
        };
        seq_lines(&mut h, fails)
    }) {
        out.extend(l);
    }
    #[cfg(feature = "intr")]
    if let Some(l) = guarded(out, "ginfo", || ginfo_line(&g)) {
        out.push(l);
    }
    let n_fns = ops.iter().filter(|x| matches!(x, Op::Fn { .. })).count();
    let mut shared_intr: Option<SharedIntr> = None;
    let n_sessions = sessions.len();
    for s in sessions {
        if s.shared && shared_intr.is_none() {
            shared_intr = Some(SharedIntr::new(s.cfgs[0].strat));
        }
        let sh = if s.shared { shared_intr.as_mut() } else { None };
        let mut sout: Vec<String> = vec![];
        let mut crash: Vec<String> = vec![];
        let gref = &mut g;
        let rng_ref = &mut *rng;
        guarded(&mut crash, "session", || match s.script {
            Some(script) => {
                let mut it = script.into_iter();
                session(gref, &s.cfgs, s.coop, s.auto, s.chain, s.late, sh, &mut sout, &mut |_v, _step| it.next());
            }
            None => {
                let rng = rng_ref;
                let out = &mut sout;
                let burst = rng.chance(if n_fns >= 60 { 60 } else { 22 });
                // runs that share one interrupt state are mostly run to the end (what the state carries over
                // shows in what a LATER run does with all of its functions)
                let allow_abort = allow_abort && !(s.shared && rng.chance(75));
                let abort_at = if allow_abort && rng.chance(35) { Some(1 + rng.below(4) as usize) } else { None };
                // bursts that straddle the constants a "fast path" might hide (16, 32, 64, 128): the first
                // failure right after that many successes; a burst that leaves one or two functions out
                let late_fail = if burst && rng.chance(40) { Some(*rng.pick(&[4usize, 8, 15, 16, 17, 31, 32, 33, 63, 64, 65, 127, 128])) } else { None };
                let hold_back = if burst && rng.chance(40) { 1 + rng.below(2) as usize } else { 0 };
                let mut ch = GenChooser { rng: Rng(rng.next() | 1), useless: 0, allow_abort, midpoll_intr: midpoll, steps: 0, burst, abort_at, late_fail, hold_back, eager_intr: s.shared };
                session(gref, &s.cfgs, s.coop, s.auto, s.chain, s.late, sh, out, &mut |v, step| ch.choose(v, step));
            }
        });
        if !crash.is_empty() {
            // the crash line belongs to the session (its context: first / hist / pair)
            if sout.last().map(|l| l.as_str()) == Some("endsession") {
                sout.pop();
            }
            sout.extend(crash);
            sout.push("endsession".into());
        }
        out.extend(sout);
    }
    // a history ends with the sequential calls once more (a sequential run after any earlier runs)
    if n_sessions >= 2 {
        out.push("ctx hist".into());
        if let Some(l) = guarded(out, "seq", || seq_lines(&mut g, fails)) {
            out.extend(l);
        }
    }
    out.push("end".into());
}

fn gen_main(seed: u64, count: usize, kinds: &str, maxn: usize) {
    let mut rng = Rng(seed.wrapping_mul(0x9E3779B97F4A7C15) | 1);
    let kinds: Vec<&str> = kinds.split(',').collect();
    let has = |k: &str| kinds.contains(&k);
    let stdout = std::io::stdout();
    use std::io::Write;
    let mut lock = stdout.lock();
    for c in 0..count {
        let mut out = vec![];
        let (ops, shape) = gen_ops(&mut rng, maxn, !has("run") && !has("stream"));
        let n = ops.iter().filter(|x| matches!(x, Op::Fn { .. })).count();
        let alt = if has("eq") { Some(perturb(&mut rng, &ops)) } else { None };
        let mut fails: Vec<usize> = (0..n).filter(|_| rng.chance(15)).collect();
        let mut sessions = vec![];
        let hist = has("hist");
        // `memo` histories (own kind, so that the other kinds' random streams are unchanged): the FIRST
        // run on the value is a concurrent one under a random completion schedule, the later ones are
        // sequential runs in the same direction — whatever a run leaves behind on the value (hand-out
        // order, ready sets, counters) must not show in a later run, which the model starts afresh
        if has("memo") {
            fails.clear();
            let with = rng.chance(50);
            let rev = with && rng.chance(40);
            let first = (*rng.pick(&["for_each_concurrent", "try_for_each_concurrent", "try_for_each_concurrent_control", "for_each_concurrent_mut"])).to_string();
            let first = if with { format!("{}_with", first) } else { first };
            let limit = *rng.pick(&[None, None, None, Some(2), Some(3), Some(64)]);
            sessions.push(Session { cfgs: vec![RunCfg { api: first, rev, limit, strat: Strat::Non, incl: true, ord: 0 }], coop: false, auto: 0, shared: false, late: false, chain: 0, script: None });
            for _ in 0..1 + rng.below(2) {
                let later = (*rng.pick(&["fold_async", "fold_async", "try_fold_async", "fold_async_mut", "try_fold_async_mut"])).to_string();
                let later = if with { format!("{}_with", later) } else { later };
                sessions.push(Session { cfgs: vec![RunCfg { api: later, rev, limit: None, strat: Strat::Non, incl: true, ord: 0 }], coop: false, auto: 0, shared: false, late: false, chain: 0, script: None });
            }
            let midpoll = false;
            run_case(&mut out, &format!("g{}_{}", seed, c), &shape, &ops, alt, &fails, sessions, &mut rng, false, midpoll);
            for l in out {
                let _ = writeln!(lock, "{}", l);
            }
            continue;
        }
        // histories: 2-4 runs; now and then several hundred short stream runs on one value (per-graph
        // counters of a few bits)
        let many_streams = hist && has("stream") && rng.chance(2);
        let nsess = if many_streams { 257 + rng.below(8) as usize } else if hist { 2 + rng.below(3) as usize } else { 1 };
        let mut prev_api: Option<String> = None;
        // histories: sometimes all runs share ONE caller-owned InterruptibilityState (reborrow)
        let case_shared: Option<Strat> = if hist && cfg!(feature = "intr") && rng.chance(40) {
            Some(match rng.below(4) { 0 => Strat::Finish, 1 => Strat::PollN(rng.below(4)), 2 => Strat::PollN(1 + rng.below(8)), _ => Strat::Ignore })
        } else {
            None
        };
        for si in 0..nsess {
            // … followed by two ordinary runs
            if many_streams && si + 2 < nsess {
                let api = (*rng.pick(&["stream", "stream_with"])).to_string();
                let cfg = RunCfg { api, rev: false, limit: None, strat: Strat::Non, incl: true, ord: 0 };
                sessions.push(Session { cfgs: vec![cfg], coop: false, auto: 0, shared: false, late: false, chain: 0, script: Some(vec![vec![Act::Poll { run: 0 }], vec![Act::DropStream { run: 0 }]]) });
                continue;
            }
            let pick = rng.below(100);
            if has("pair") && pick < 50 {
                let sa = has("stream") && rng.chance(30);
                let sb = has("stream") && rng.chance(30);
                let a = gen_runcfg(&mut rng, sa, true);
                let mut b = gen_runcfg(&mut rng, sb, true);
                if rng.chance(45) {
                    // two runs of the same API family at once
                    let keep = b.clone();
                    b = RunCfg { api: a.api.clone(), ..keep };
                    if !b.has_opts() {
                        b.rev = false;
                        b.strat = Strat::Non;
                        b.incl = true;
                    }
                    if !b.api.contains("for_each_concurrent") {
                        b.limit = None;
                    }
                }
                // in a third of the pair sessions the second run is created later (`start:1`), possibly
                // after the first one was dropped with `FnRef`s still alive
                let late = rng.chance(33);
                sessions.push(Session { cfgs: vec![a, b], coop: rng.chance(50), auto: 0, shared: false, late, chain: 0, script: None });
            } else if has("stream") && (!has("run") || pick < 35) {
                { let c = gen_runcfg(&mut rng, true, false); sessions.push(Session { cfgs: vec![c], coop: rng.chance(50), auto: 0, shared: false, late: false, chain: 0, script: None }); }
            } else if has("run") {
                { let mut c = gen_runcfg(&mut rng, false, false);
                  if hist {
                      // histories often repeat the API of the previous run (same code path, leftover state)
                      if let Some(pa) = &prev_api {
                          if rng.chance(45) {
                              let keep = c.clone();
                              c = RunCfg { api: pa.clone(), ..keep };
                              if !c.has_opts() { c.rev = false; c.strat = Strat::Non; c.incl = true; }
                              if !c.api.contains("for_each_concurrent") { c.limit = None; }
                          }
                      }
                      prev_api = Some(c.api.clone());
                  } let auto = if rng.chance(12) { 1 + rng.below(3) as u8 } else { 0 }; let shared = case_shared.is_some() && c.has_opts(); if let (true, Some(st)) = (shared, case_shared) { c.strat = st; } sessions.push(Session { cfgs: vec![c], coop: rng.chance(50), auto, shared, late: false, chain: 0, script: None }); }
            }
        }
        let midpoll = has("midpoll");
        run_case(&mut out, &format!("g{}_{}", seed, c), &shape, &ops, alt, &fails, sessions, &mut rng, hist, midpoll);
        for l in out {
            let _ = writeln!(lock, "{}", l);
        }
    }
}

/// replay: re-executes the inputs (`op`, `op2`, `tryseq fails=`, `run`, `do`) of a trace / case file
fn replay_main(path: &str) {
    let text = std::fs::read_to_string(path).expect("read case file");
    let mut cases: Vec<Vec<String>> = vec![];
    for line in text.lines() {
        let line = line.trim_end();
        if line.starts_with("case ") {
            cases.push(vec![]);
        }
        if let Some(c) = cases.last_mut() {
            c.push(line.to_string());
        }
    }
    use std::io::Write;
    let stdout = std::io::stdout();
    let mut lock = stdout.lock();
    for c in cases {
        let head: Vec<&str> = c[0].split(' ').collect();
        let id = head.get(1).copied().unwrap_or("r");
        let shape = head.iter().find_map(|t| t.strip_prefix("shape=")).unwrap_or("replay");
        if let Some(f) = head.iter().find_map(|t| t.strip_prefix("feat=")) {
            if f != FEAT {
                continue;
            }
        }
        let mut ops = vec![];
        let mut alt_ops = vec![];
        let mut alt: Option<String> = None;
        let mut fails = vec![];
        let mut sessions: Vec<Session> = vec![];
        for l in &c[1..] {
            if l.starts_with("op ") {
                if let Some(o) = Op::parse(l) {
                    ops.push(o);
                }
            } else if l.starts_with("op2 ") {
                if let Some(o) = Op::parse(l) {
                    alt_ops.push(o);
                }
            } else if let Some(rest) = l.strip_prefix("eqwith pert=") {
                alt = Some(rest.to_string());
            } else if l.starts_with("tryseq ") {
                if let Some(f) = l.split(' ').find_map(|t| t.strip_prefix("fails=")) {
                    fails = parse_csv(f);
                }
            } else if l.starts_with("session") {
                sessions.push(Session { cfgs: vec![], coop: l.contains("coop=1"), auto: l.split(' ').find_map(|t| t.strip_prefix("auto=")).and_then(|v| v.parse().ok()).unwrap_or(0), shared: l.contains("shared=1"), late: l.contains("late=1"), chain: l.split(' ').find_map(|t| t.strip_prefix("chain=")).and_then(|v| v.parse().ok()).unwrap_or(0), script: Some(vec![]) });
            } else if l.starts_with("run ") {
                if let (Some(s), Some((_, cfg))) = (sessions.last_mut(), RunCfg::parse(l)) {
                    s.cfgs.push(cfg);
                }
            } else if let Some(rest) = l.strip_prefix("do") {
                if let Some(s) = sessions.last_mut() {
                    let acts: Vec<Act> = rest.split(' ').filter(|x| !x.is_empty()).filter_map(Act::parse).collect();
                    s.script.as_mut().unwrap().push(acts);
                }
            }
        }
        let mut out = vec![];
        let mut rng = Rng(1);
        run_case(&mut out, id, shape, &ops, alt.map(|w| (alt_ops, w)), &fails, sessions, &mut rng, false, false);
        for l in out {
            let _ = writeln!(lock, "{}", l);
        }
    }
}

/// C18 growth series: complete DAG and layered DAGs of the given sizes, build only.
fn kpops_main(sizes: &str) {
    use std::io::Write;
    let stdout = std::io::stdout();
    let mut lock = stdout.lock();
    for (i, s) in sizes.split(',').enumerate() {
        let n: usize = s.parse().unwrap();
        for variant in 0..8 {
            let mut ops = vec![];
            for i in 0..n {
                // variant 4: two conflicting writers on top of the lattice (a data edge is added whose
                // target heads the layered part)
                // variant 7: a writer heads the lattice, a second, unconnected writer is inserted last
                let w = if (variant == 4 && i < 2) || (variant == 7 && (i == 0 || i + 1 == n)) { vec![0] } else { vec![] };
                if variant == 6 {
                    // layers made of access declarations alone: groups of 3 functions without any logic
                    // edge, each writes its own type and reads the 3 types of the previous group
                    let g = i / 3;
                    let own = (g * 3 + i % 3) % 96;
                    let r: Vec<usize> = if g == 0 { vec![] } else { (0..3).map(|k| ((g - 1) * 3 + k) % 96).collect() };
                    ops.push(Op::Fn { tag: 0, r, w: vec![own] });
                    continue;
                }
                ops.push(Op::Fn { tag: 0, r: vec![], w });
            }
            if variant == 6 {
            } else if variant == 7 {
                let width = 3;
                let m = n.saturating_sub(1); // the last function stays unconnected
                for b in 1..(1 + width).min(m) {
                    ops.push(Op::Edge { k: K::Logic, a: 0, b });
                }
                for a in 1..m {
                    for b in 1..m {
                        if (b - 1) / width == (a - 1) / width + 1 {
                            ops.push(Op::Edge { k: K::Logic, a, b });
                        }
                    }
                }
            } else if variant == 4 {
                let width = 3;
                if n > 2 {
                    for b in 2..(2 + width).min(n) {
                        ops.push(Op::Edge { k: K::Logic, a: 1, b });
                    }
                }
                for a in 2..n {
                    for b in 2..n {
                        if (b - 2) / width == (a - 2) / width + 1 {
                            ops.push(Op::Edge { k: K::Logic, a, b });
                        }
                    }
                }
            } else if variant == 5 {
                // dense containment: i contains every j > i, each container's innermost functions first
                for a in 0..n {
                    for b in (a + 1..n).rev() {
                        ops.push(Op::Edge { k: K::Contains, a, b });
                    }
                }
            } else if variant == 0 {
                for a in 0..n {
                    for b in a + 1..n {
                        ops.push(Op::Edge { k: K::Logic, a, b });
                    }
                }
            } else if variant == 1 {
                let width = 3;
                for a in 0..n {
                    for b in 0..n {
                        if b / width == a / width + 1 {
                            ops.push(Op::Edge { k: K::Logic, a, b });
                        }
                    }
                }
            } else if variant == 3 {
                // root fanned over a chain, fan edges in ascending order: the fixed rank loop needs about
                // n^2/2 pops here (still within the n^2 bound); a visit budget of nodes + edges does not do
                for a in 1..n.saturating_sub(1) {
                    ops.push(Op::Edge { k: K::Logic, a, b: a + 1 });
                }
                for b in 1..n.saturating_sub(1) {
                    ops.push(Op::Edge { k: K::Logic, a: 0, b });
                }
            } else {
                // dense part next to an unconnected chain of the same depth: the augmenter has to
                // answer many "no path" queries across the two parts
                let h = n / 2;
                for a in 0..h {
                    for b in a + 1..h {
                        ops.push(Op::Edge { k: K::Logic, a, b });
                    }
                }
                for a in h..n.saturating_sub(1) {
                    ops.push(Op::Edge { k: K::Logic, a, b: a + 1 });
                }
            }
            let mut out = vec![];
            out.push(format!("case k{}_{} feat={} shape={}", i, variant, FEAT, ["kcomplete", "klayered", "kdense+chain", "kfanchain", "kwriters+lattice", "kcontains", "kdatalayers", "kwriter+lattice+writer"][variant]));
            for op in &ops {
                out.push(op.line());
            }
            let t0 = std::time::Instant::now();
            let (b, res) = apply_ops(&ops, "");
            out.extend(res);
            let (_g, built) = build(b);
            out.push(built);
            let ms = t0.elapsed().as_millis();
            out.push(format!("timing build_ms={}", ms));
            out.push("end".into());
            for l in out {
                let _ = writeln!(lock, "{}", l);
            }
            if ms > 1500 {
                return; // the series has left polynomial territory; the check reports it
            }
        }
    }
}


/// ---------------------------------------------------------------- exhaustive schedules (thorough tier)
/// Stateless DFS over the script choices: a schedule is the list of option indices taken at the
/// decision points; every leaf re-executes the whole case from scratch.
struct DfsChooser {
    prefix: Vec<usize>,
    arity: Vec<usize>,
    depth: usize,
    since_change: usize, // stream: polls since the last drop / interrupt
}

impl DfsChooser {
    fn options(&mut self, v: &View, step: usize) -> Vec<Vec<Act>> {
        let r = &v.runs[0];
        let interrupting = matches!(r.cfg.strat, Strat::Finish | Strat::PollN(_) | Strat::Ignore);
        let mut o: Vec<Vec<Act>> = vec![];
        if r.finished {
            return o;
        }
        if r.cfg.is_stream() {
            let last = r.last_poll.clone().unwrap_or_default();
            let ended = last == "none" || last == "panic";
            if step == 0 {
                o.push(vec![Act::Poll { run: 0 }]);
                if interrupting {
                    o.push(vec![Act::Intr { run: 0 }, Act::Poll { run: 0 }]);
                }
                return o;
            }
            if ended {
                // drop what is left in index order, then stop (one canonical tail)
                if let Some(&f) = r.live.first() {
                    o.push(vec![Act::Drop { run: 0, f }]);
                } else if r.polls < 40 && self.since_change == 0 {
                    o.push(vec![Act::Poll { run: 0 }]);
                }
                return o;
            }
            if !(last.starts_with("pending") && self.since_change > 0) && r.polls < 40 {
                o.push(vec![Act::Poll { run: 0 }]);
            }
            for &f in &r.live {
                o.push(vec![Act::Drop { run: 0, f }]);
            }
            if r.live.len() >= 2 {
                o.push(r.live.iter().map(|&f| Act::Drop { run: 0, f }).collect());
            }
            if interrupting && !r.intr_sent {
                o.push(vec![Act::Intr { run: 0 }]);
            }
            return o;
        }
        if step == 0 {
            o.push(vec![]);
            if interrupting {
                o.push(vec![Act::Intr { run: 0 }]);
            }
            return o;
        }
        for &f in &r.inflight {
            o.push(vec![Act::Open { run: 0, f, ok: true, intr: false }]);
            if r.cfg.is_try() {
                o.push(vec![Act::Open { run: 0, f, ok: false, intr: false }]);
            }
        }
        if r.inflight.len() >= 2 {
            o.push(r.inflight.iter().map(|&f| Act::Open { run: 0, f, ok: true, intr: false }).collect());
            o.push(r.inflight.iter().rev().map(|&f| Act::Open { run: 0, f, ok: true, intr: false }).collect());
        }
        if interrupting && !r.intr_sent && !r.inflight.is_empty() {
            o.push(vec![Act::Intr { run: 0 }]);
            // a sender on another thread: the signal lands right after the first / second poll of the
            // burst that the next completion starts (not at a quiescent point)
            if matches!(r.cfg.strat, Strat::Finish | Strat::PollN(_)) {
                let f = r.inflight[0];
                for k in 0..2 {
                    o.push(vec![Act::After { run: 0, k }, Act::Open { run: 0, f, ok: true, intr: false }]);
                }
            }
        }
        o
    }

    fn choose(&mut self, v: &View, step: usize) -> Option<Vec<Act>> {
        let opts = self.options(v, step);
        if opts.is_empty() || self.depth > 60 {
            return None;
        }
        let k = if self.depth < self.prefix.len() { self.prefix[self.depth] } else { 0 };
        if self.depth >= self.arity.len() {
            self.arity.push(opts.len());
        } else {
            self.arity[self.depth] = opts.len();
        }
        if self.depth >= self.prefix.len() {
            self.prefix.push(0);
        }
        self.depth += 1;
        let b = opts[k.min(opts.len() - 1)].clone();
        if b.iter().any(|a| matches!(a, Act::Poll { .. })) && b.len() == 1 {
            self.since_change += 1;
        } else {
            self.since_change = 0;
        }
        Some(b)
    }
}

fn enum_cfgs(stream: bool) -> Vec<RunCfg> {
    let mut v = vec![];
    let combos: Vec<(Strat, bool)> = if cfg!(feature = "intr") {
        vec![
            (Strat::Non, true),
            (Strat::Ignore, true),
            (Strat::Finish, true),
            (Strat::Finish, false),
            (Strat::PollN(0), false),
            (Strat::PollN(1), true),
            (Strat::PollN(2), false),
        ]
    } else {
        vec![(Strat::Non, true)]
    };
    let apis = if stream { stream_apis() } else { fut_apis() };
    for api in apis {
        let base = RunCfg { api: api.to_string(), rev: false, limit: None, strat: Strat::Non, incl: true, ord: 0 };
        let limits: Vec<Option<usize>> = if api.contains("for_each_concurrent") { vec![None, Some(1), Some(2)] } else { vec![None] };
        for lim in limits {
            if base.has_opts() {
                for rev in [false, true] {
                    let cs: Vec<(Strat, bool)> = if api == "stream_with" { vec![(Strat::Non, true)] } else { combos.clone() };
                    for (st, incl) in cs {
                        v.push(RunCfg { rev, limit: lim, strat: st, incl, ord: (v.len() % 6) as u8, ..base.clone() });
                    }
                }
            } else {
                v.push(RunCfg { limit: lim, ..base.clone() });
            }
        }
    }
    v
}

fn enum_graphs(maxn: usize) -> Vec<(Vec<Op>, String)> {
    let mut gs = vec![];
    for n in 0..=maxn {
        let pairs: Vec<(usize, usize)> = (0..n).flat_map(|a| (0..n).filter(move |&b| a != b).map(move |b| (a, b))).collect();
        for mask in 0u32..(1u32 << pairs.len()) {
            let es: Vec<(usize, usize)> = pairs.iter().enumerate().filter(|(i, _)| mask & (1 << i) != 0).map(|(_, p)| *p).collect();
            // acyclic and no 2-cycles: Kahn
            let mut indeg = vec![0; n];
            for &(_, b) in &es {
                indeg[b] += 1;
            }
            let mut q: Vec<usize> = (0..n).filter(|&i| indeg[i] == 0).collect();
            let mut seen = 0;
            while let Some(x) = q.pop() {
                seen += 1;
                for &(a, b) in &es {
                    if a == x {
                        indeg[b] -= 1;
                        if indeg[b] == 0 {
                            q.push(b);
                        }
                    }
                }
            }
            if seen != n {
                continue;
            }
            for pat in 0..3 {
                if n == 0 && pat > 0 {
                    continue;
                }
                let mut ops = vec![];
                for i in 0..n {
                    let (r, w) = match pat {
                        0 => (vec![], vec![]),
                        1 => (vec![], vec![0]),
                        _ => {
                            if i == 0 {
                                (vec![], vec![0])
                            } else {
                                (vec![0], vec![])
                            }
                        }
                    };
                    ops.push(Op::Fn { tag: 0, r, w });
                }
                for (j, &(a, b)) in es.iter().enumerate() {
                    ops.push(Op::Edge { k: if (j + mask as usize) % 2 == 0 { K::Logic } else { K::Contains }, a, b });
                }
                gs.push((ops, format!("enum{}m{}p{}", n, mask, pat)));
            }
        }
    }
    gs
}

fn enum_main(maxn: usize, part: usize, parts: usize, streams: bool) {
    use std::io::Write;
    let stdout = std::io::stdout();
    let mut lock = stdout.lock();
    let graphs = enum_graphs(maxn);
    let cfgs = enum_cfgs(streams);
    let mut idx = 0usize;
    let mut rng = Rng(1);
    for (gi, (ops, shape)) in graphs.iter().enumerate() {
        for (ci, cfg) in cfgs.iter().enumerate() {
            idx += 1;
            if idx % parts != part {
                continue;
            }
            let mut prefix: Vec<usize> = vec![];
            let mut leaf = 0usize;
            loop {
                let mut ch = DfsChooser { prefix: prefix.clone(), arity: vec![], depth: 0, since_change: 0 };
                let mut out = vec![];
                let cid = format!("e{}_{}_{}", gi, ci, leaf);
                out.push(format!("case {} feat={} shape={}", cid, FEAT, shape));
                for op in ops {
                    out.push(op.line());
                }
                let (b, res) = apply_ops(ops, "");
                out.extend(res);
                let (g, built) = build_for(&cid, ops, b);
                out.push(built);
                if let Some(mut g) = g {
                    session(&mut g, std::slice::from_ref(cfg), (gi + ci) % 2 == 1, 0, 0, false, None, &mut out, &mut |v, step| ch.choose(v, step));
                }
                out.push("end".into());
                for l in out {
                    let _ = writeln!(lock, "{}", l);
                }
                leaf += 1;
                // next schedule
                let mut p = ch.prefix.clone();
                p.truncate(ch.depth);
                let mut next = None;
                while let Some(last) = p.pop() {
                    let d = p.len();
                    if last + 1 < ch.arity[d] {
                        p.push(last + 1);
                        next = Some(p.clone());
                        break;
                    }
                }
                match next {
                    Some(n) if leaf < 20000 => prefix = n,
                    _ => break,
                }
            }
        }
    }
    let _ = &mut rng;
}


/// exhaustive builder space: every labelled DAG with <= maxn functions (as a set of accepted edges, plus
/// every cyclic attempt being rejected on the way: ALL ordered pairs are attempted in a rotated order),
/// every access declaration in {none, r0, w0, r1, w1, r0w1, r1w0, w0w1, r0r1}^n (or {none,r0,w0}^n),
/// edge kinds alternated.
fn enumb_main(maxn: usize, full_decls: bool, part: usize, parts: usize) {
    use std::io::Write;
    let stdout = std::io::stdout();
    let mut lock = stdout.lock();
    let decl_opts: Vec<(Vec<usize>, Vec<usize>)> = if full_decls {
        vec![
            (vec![], vec![]),
            (vec![0], vec![]),
            (vec![], vec![0]),
            (vec![1], vec![]),
            (vec![], vec![1]),
            (vec![0], vec![1]),
            (vec![1], vec![0]),
            (vec![], vec![0, 1]),
            (vec![0, 1], vec![]),
        ]
    } else {
        vec![(vec![], vec![]), (vec![0], vec![]), (vec![], vec![0])]
    };
    let mut idx = 0usize;
    let mut rng = Rng(1);
    // three unordered functions x every declaration over THREE data types ({none,r,w}^3 each): the
    // smallest space with conflict rings (f0 r1 w2, f1 r0 w1, f2 r2 w0)
    if maxn >= 3 {
        for d in 0..19683usize {
            idx += 1;
            if idx % parts != part {
                continue;
            }
            let mut ops = vec![];
            let mut dd = d;
            for _ in 0..3 {
                let mut r = vec![];
                let mut w = vec![];
                for ty in 0..3 {
                    match dd % 3 {
                        1 => r.push(ty),
                        2 => w.push(ty),
                        _ => {}
                    }
                    dd /= 3;
                }
                ops.push(Op::Fn { tag: 0, r, w });
            }
            let mut out = vec![];
            run_case(&mut out, &format!("b3t_{}", d), "enumb3types", &ops, None, &[], vec![], &mut rng, false, false);
            for l in out {
                let _ = writeln!(lock, "{}", l);
            }
        }
    }
    for n in 0..=maxn {
        let pairs: Vec<(usize, usize)> = (0..n).flat_map(|a| (0..n).map(move |b| (a, b))).collect();
        let nd = decl_opts.len().pow(n as u32);
        for mask in 0u64..(1u64 << pairs.len()) {
            // attempt the selected ordered pairs (self-pairs and back edges included: they are rejected);
            // rotate the attempt order with the mask so that different insertion orders occur
            let mut es: Vec<(usize, usize)> = pairs.iter().enumerate().filter(|(i, _)| mask & (1 << i) != 0).map(|(_, p)| *p).collect();
            if !es.is_empty() {
                let r = (mask as usize) % es.len();
                es.rotate_left(r);
            }
            // skip masks with more than n+1 attempts for n = 4 (keeps the space enumerable)
            if n >= 4 && es.len() > 5 {
                continue;
            }
            for d in 0..nd {
                idx += 1;
                if idx % parts != part {
                    continue;
                }
                let mut ops = vec![];
                let mut dd = d;
                for _ in 0..n {
                    let (r, w) = decl_opts[dd % decl_opts.len()].clone();
                    dd /= decl_opts.len();
                    ops.push(Op::Fn { tag: 0, r, w });
                }
                for (j, &(a, b)) in es.iter().enumerate() {
                    ops.push(Op::Edge { k: if (j + d) % 2 == 0 { K::Logic } else { K::Contains }, a, b });
                }
                let mut out = vec![];
                let fails: Vec<usize> = (0..n).filter(|i| (d >> i) & 1 == 1).collect();
                run_case(&mut out, &format!("b{}_{}_{}", n, mask, d), "enumb", &ops, None, &fails, vec![], &mut rng, false, false);
                for l in out {
                    let _ = writeln!(lock, "{}", l);
                }
            }
        }
    }
}


/// budget x interrupt sweep: a wide graph of independent functions that complete at their first
/// poll (`auto`), polled under tokio's cooperative budget, signal pending at the start,
/// `PollNextN(k)` for every k — every alignment of the interrupt with a budget-induced yield.
fn sweep_main(sizes: &str, stride: usize) {
    use std::io::Write;
    let stdout = std::io::stdout();
    let mut lock = stdout.lock();
    for (i, s) in sizes.split(',').enumerate() {
        let n: usize = s.parse().unwrap();
        let mut ops = vec![];
        for _ in 0..n {
            ops.push(Op::Fn { tag: 0, r: vec![], w: vec![] });
        }
        let apis = ["for_each_concurrent_with", "try_for_each_concurrent_with", "for_each_concurrent_mut_with", "try_for_each_concurrent_control_mut_with"];
        let mut sessions = vec![];
        let mut k = 1;
        while k <= n {
            let api = apis[(k / stride.max(1)) % apis.len()].to_string();
            let cfg = RunCfg { api, rev: k % 2 == 0, limit: None, strat: Strat::PollN(k as u64), incl: k % 3 != 0, ord: (k % 6) as u8 };
            sessions.push(Session { cfgs: vec![cfg], coop: true, auto: 1 + ((k / 7) % 3) as u8, shared: false, late: false, chain: 0, script: Some(vec![vec![Act::Intr { run: 0 }], vec![Act::Poll { run: 0 }], vec![Act::Poll { run: 0 }], vec![Act::Abort { run: 0 }]]) });
            k += stride.max(1);
        }
        // tight stream consumers under the budget: poll-and-drop loops in one budget window
        for (j, api) in stream_apis().iter().enumerate() {
            let cfg = RunCfg { api: api.to_string(), rev: j % 2 == 1, limit: None, strat: Strat::Non, incl: true, ord: j as u8 };
            let mut script = vec![vec![Act::Poll { run: 0 }]];
            for _ in 0..(n / 20 + 6) {
                script.push(vec![Act::Drain { run: 0 }]);
            }
            script.push(vec![Act::DropStream { run: 0 }]);
            sessions.push(Session { cfgs: vec![cfg], coop: true, auto: 0, shared: false, late: false, chain: 0, script: Some(script) });
        }
        let mut out = vec![];
        let mut rng = Rng(1);
        run_case(&mut out, &format!("w{}_{}", i, n), "sweep", &ops, None, &[], sessions, &mut rng, false, false);
        for l in out {
            let _ = writeln!(lock, "{}", l);
        }
        // budget x failure: function 0 (which has a successor) fails, woken from inside the completion of
        // the x-th of n functions that complete at their first poll — for every x, so that the failure
        // lands on every point of tokio's budget window
        let mut ops = ops.clone();
        ops.push(Op::Fn { tag: 0, r: vec![], w: vec![] });
        ops.push(Op::Edge { k: K::Logic, a: 0, b: n });
        ops.push(Op::Edge { k: K::Logic, a: n - 1, b: n });
        let apis = ["try_for_each_concurrent", "try_for_each_concurrent_mut", "try_for_each_concurrent_control", "try_for_each_concurrent_control_mut_with"];
        let mut sessions = vec![];
        let mut x = 1;
        while x < n {
            let api = apis[(x / stride.max(1)) % apis.len()].to_string();
            let cfg = RunCfg { api, rev: false, limit: None, strat: Strat::Non, incl: true, ord: 0 };
            sessions.push(Session { cfgs: vec![cfg], coop: true, auto: 4, shared: false, late: false, chain: x, script: Some(vec![vec![], vec![Act::Poll { run: 0 }], vec![Act::Poll { run: 0 }], vec![Act::Abort { run: 0 }]]) });
            x += stride.max(1);
        }
        let mut out = vec![];
        run_case(&mut out, &format!("wf{}_{}", i, n), "sweepfail", &ops, None, &[], sessions, &mut rng, false, false);
        for l in out {
            let _ = writeln!(lock, "{}", l);
        }
    }
}

fn main() {
    std::panic::set_hook(Box::new(|_| {}));
    let args: Vec<String> = std::env::args().collect();
    let get = |k: &str, d: &str| -> String {
        args.iter().position(|a| a == k).and_then(|i| args.get(i + 1)).cloned().unwrap_or_else(|| d.to_string())
    };
    match args.get(1).map(|s| s.as_str()) {
        Some("gen") => gen_main(
            get("--seed", "1").parse().unwrap(),
            get("--count", "100").parse().unwrap(),
            &get("--kinds", "run,stream,eq"),
            get("--maxn", "7").parse().unwrap(),
        ),
        Some("replay") => replay_main(&args[2]),
        Some("kpops") => kpops_main(&get("--sizes", "8,16,24,32")),
        Some("sweep") => sweep_main(&get("--sizes", "130,160"), get("--stride", "1").parse().unwrap()),
        Some("enumb") => enumb_main(
            get("--maxn", "3").parse().unwrap(),
            get("--decls", "small") == "full",
            get("--part", "0").parse().unwrap(),
            get("--parts", "1").parse().unwrap(),
        ),
        Some("enum") => enum_main(
            get("--maxn", "3").parse().unwrap(),
            get("--part", "0").parse().unwrap(),
            get("--parts", "1").parse().unwrap(),
            get("--kind", "run") == "stream",
        ),
        _ => {
            eprintln!("usage: fg_harness gen|replay|kpops …");
            std::process::exit(2);
        }
    }
}
