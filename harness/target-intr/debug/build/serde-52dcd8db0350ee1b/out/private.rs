#[doc(hidden)]
pub mod __private229 {
    #[doc(hidden)]
    pub use crate::private::*;
}
use serde_core::__private229 as serde_core_private;
