#!/bin/sh
# placeholder: replaced when the framework is in place
exit 0
