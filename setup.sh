#!/bin/sh
# Builds the framework from files on disk only (offline): Lean project (model, driver, theorem
# modules) and the Rust harness (both feature sets) against /repo's working tree.
set -e
cd "$(dirname "$0")"
export CARGO_NET_OFFLINE=true
(cd lean && lake build FnGraphVerif driver $(python3 -c "import json;print(' '.join(sorted({m for v in json.load(open('../theorems.json')).values() for m in v['modules']})))"))
[ -f harness/Cargo.lock ] || cp /repo/Cargo.lock harness/Cargo.lock
(cd harness && cargo build --offline --target-dir target && cargo build --offline --target-dir target-intr --features intr)
echo setup-ok
