#!/usr/bin/env python3
"""Confirms candidate mutations (from /tmp/seed/<id>/<m>) in a scratch worktree:
demo passes on the unmodified tree, patched tree still passes the 44 tests and builds with both
feature sets, demo fails with the patch.  Writes /tmp/seed/<id>/<m>/confirm.json."""
import json, os, subprocess, sys, shutil
ENV = dict(os.environ, CARGO_NET_OFFLINE="true")
def sh(cmd, cwd, timeout=900):
    try:
        p = subprocess.run(cmd, cwd=cwd, env=ENV, stdout=subprocess.PIPE, stderr=subprocess.STDOUT, timeout=timeout)
        return p.returncode, p.stdout.decode("utf-8", "replace")
    except subprocess.TimeoutExpired as e:
        return 124, "timeout"
def main():
    wt = sys.argv[1]
    for d in sys.argv[2:]:
        meta = json.load(open(os.path.join(d, "meta.json")))
        feats = meta.get("features", "") or ""
        fa = ["--features", feats] if feats.strip() else []
        res = {"dir": d}
        sh(["git", "checkout", "--", "."], wt); shutil.rmtree(os.path.join(wt, "tests"), ignore_errors=True)
        os.makedirs(os.path.join(wt, "tests"), exist_ok=True)
        shutil.copy(os.path.join(d, "demo.rs"), os.path.join(wt, "tests", "demo.rs"))
        rc, out = sh(["cargo", "test", "--offline", "--test", "demo"] + fa, wt)
        res["demo_unpatched_passes"] = rc == 0
        rc, out = sh(["git", "apply", os.path.join(d, "patch.diff")], wt)
        res["patch_applies"] = rc == 0
        rc, out = sh(["cargo", "test", "--offline", "--test", "demo"] + fa, wt)
        res["demo_patched_fails"] = rc != 0 and "could not compile" not in out
        res["demo_patched_tail"] = out[-600:]
        os.remove(os.path.join(wt, "tests", "demo.rs"))
        rc, out = sh(["cargo", "test", "--workspace", "--no-fail-fast", "--offline"], wt)
        res["suite_44"] = "44 passed; 0 failed" in out
        rc1, _ = sh(["cargo", "build", "--offline"], wt)
        rc2, _ = sh(["cargo", "build", "--offline", "--features", "interruptible graph_info verif_hooks"], wt)
        res["builds"] = rc1 == 0 and rc2 == 0
        sh(["git", "checkout", "--", "."], wt); shutil.rmtree(os.path.join(wt, "tests"), ignore_errors=True)
        res["confirmed"] = all(res[k] for k in ("demo_unpatched_passes", "patch_applies", "demo_patched_fails", "suite_44", "builds"))
        json.dump(res, open(os.path.join(d, "confirm.json"), "w"), indent=1)
        print(d, "CONFIRMED" if res["confirmed"] else "REJECTED " + json.dumps({k: v for k, v in res.items() if k != "demo_patched_tail"}), flush=True)
main()
