#!/usr/bin/env python3
"""Integration helper: suffixes example identifiers (ex[A-Z]…) per delivered package and renames
helper declarations that clash between packages."""
import re,collections,sys
pk={'S':['Proofs/Reach','Proofs/Release','Proofs/ProtoInv','Proofs/BuilderInv','Theorems/C15','FindingsRun'],
'B':['Proofs/C16Simple','Proofs/C16Update','Theorems/C16'],'C':['Proofs/RankLemmas','Theorems/C13'],'E':['Proofs/TopoLemmas','Theorems/C14'],
'D':['Proofs/DSort','Proofs/DAug','Theorems/C11','Theorems/C12'],'D2':['Proofs/D2Glue','Theorems/Build','Theorems/C12Eq'],
'H':['Proofs/IntrMachine','Proofs/IntrCompose','Theorems/C08'],'I':['Proofs/StreamInv','Proofs/StreamGood','Theorems/C05','Findings'],
'F':['Proofs/ProtoFBase','Proofs/ProtoFRecv','Proofs/ProtoFSched','Proofs/ProtoFFinish','Proofs/ProtoFExample','Proofs/ProtoSafety','Theorems/RunSafety'],
'G':[]}
import os
for a in sys.argv[1:]:
    k,f=a.split(':'); pk.setdefault(k,[]).append(f)
root='/verif/lean/FnGraphVerif/'
pk={k:[f for f in fs if os.path.exists(root+f+'.lean')] for k,fs in pk.items()}
for k,fs in pk.items():
    if k=='S': continue
    for f in fs:
        p=root+f+'.lean'; s=open(p).read()
        SUF=re.compile(r"_(B|C|D|D2|E|F|G|H|I|K|L|M|N)$")
        s2=re.sub(r"\b(ex[A-Z][A-Za-z0-9_]*)", lambda m: m.group(1) if SUF.search(m.group(1)) else m.group(1)+'_'+k, s)
        s2=re.sub(r"\b(cx[A-Z][A-Za-z0-9_]*)", lambda m: m.group(1) if SUF.search(m.group(1)) else m.group(1)+'_'+k, s2)
        open(p,'w').write(s2)
decl=collections.defaultdict(list)
for k,fs in pk.items():
    for f in fs:
        s=open(root+f+'.lean').read()
        for m in re.finditer(r"^(?:private\s+)?(?:theorem|lemma|def|structure|inductive|abbrev)\s+([A-Za-z_][\w.']*)", s, re.M):
            decl[m.group(1)].append(k)
dups={n:ks for n,ks in decl.items() if len(set(ks))>1}
print("duplicates:",dups)
order=list(pk.keys())
for n,ks in dups.items():
    ks=sorted(set(ks),key=order.index)
    for k in ks[1:]:
        for f in pk[k]:
            p=root+f+'.lean'; s=open(p).read()
            open(p,'w').write(re.sub(r"(?<![\w.'])"+re.escape(n)+r"(?![\w'])", n+'_'+k, s))
