#!/usr/bin/env python3
"""Writes the prompts for a round of seeded-change sub-agents (one per claimed property): the
property text, the one-line summaries of all earlier seeds for it, and the task.  The agents get a
scratch worktree outside /repo and /verif and nothing from /verif.
usage: tools/mkseedprompts.py <round> <outdir>   (e.g. 4 /tmp/seed4)"""
import json, glob, os, sys
rnd, out = sys.argv[1], sys.argv[2]
props = {json.loads(l)["id"]: json.loads(l) for l in open("/verif/properties.jsonl")}
tmpl = open("/verif/tools/seedprompt.tmpl").read()
os.makedirs(out, exist_ok=True)
for pid, p in props.items():
    if pid == "C19":
        continue
    earlier = []
    for d in sorted(glob.glob(f"/verif/seeded/*")):
        mf = d + "/meta.json"
        if not os.path.exists(mf):
            continue
        m = json.load(open(mf))
        if m.get("breaks_property") == pid or m.get("property") == pid:
            earlier.append("- " + m.get("summary", "").replace("\n", " ")[:330])
    txt = (tmpl.replace("{PID}", pid).replace("{TITLE}", p["title"]).replace("{STATEMENT}", p["statement"])
           .replace("{QUANT}", p["quantifier"]["text"]).replace("{EARLIER}", "\n".join(earlier)).replace("{OUT}", out).replace("{ROUND}", rnd))
    open(f"{out}/{pid}.prompt.txt", "w").write(txt)
    os.makedirs(f"{out}/{pid}/m1", exist_ok=True)
    os.makedirs(f"{out}/{pid}/m2", exist_ok=True)
print("ok")
