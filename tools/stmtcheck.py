#!/usr/bin/env python3
"""Compares the statements (types) of theorems in /verif/lean with the reference skeletons in
/tmp/lw/REF (the statements as I wrote them): prints the names whose `#check` output differs."""
import re, subprocess, sys, os
def names(path):
    return re.findall(r"^theorem\s+(\S+)", open(path).read(), re.M)
def checks(root, module, ns):
    src = f"import {module}\n" + "".join(f"#check @FG.{n}\n" for n in ns)
    tmp = os.path.join(root, ".stmt.lean"); open(tmp, "w").write(src)
    out = subprocess.run(["lake", "env", "lean", tmp], cwd=root, capture_output=True).stdout.decode()
    os.unlink(tmp)
    res = {}
    for blk in re.split(r"\n(?=@?FG\.)", out):
        m = re.match(r"@?FG\.(\S+) :", blk)
        if m: res[m.group(1)] = re.sub(r"\s+", " ", blk.strip())
    return res
for f in sys.argv[1:]:
    module = "FnGraphVerif.Theorems." + os.path.basename(f)[:-5]
    ref = f"/tmp/lw/REF/FnGraphVerif/Theorems/{os.path.basename(f)}"
    ns = names(ref)
    a = checks("/tmp/lw/REF", module, ns); b = checks("/verif/lean", module, ns)
    for n in ns:
        if a.get(n) != b.get(n):
            print(f"DIFF {module} {n}\n  ref: {a.get(n)}\n  new: {b.get(n)}")
    print(f"{module}: {len(ns)} statements compared")
