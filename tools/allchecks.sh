#!/bin/bash
cd /verif
for seed in "$@"; do
for p in C01 C02 C03 C04 C05 C06 C07 C08 C09 C10 C11 C12 C13 C14 C15 C16 C17 C18 C20; do
  out=$(VERIF_SEED=$seed ./check $p 2>&1); rc=$?
  if [ $rc -ne 0 ]; then echo "seed=$seed $p rc=$rc $out"; cp replays/${p}_quick_${seed}.case /tmp/fa_${p}_${seed}.case 2>/dev/null; fi
done; echo "seed $seed done"; done
