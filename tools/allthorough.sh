#!/bin/bash
cd /verif
for p in C01 C02 C03 C04 C05 C06 C07 C08 C09 C10 C11 C12 C13 C14 C15 C16 C17 C18 C20; do
  s=$(date +%s); out=$(./check $p --tier thorough 2>&1); rc=$?; e=$(date +%s)
  echo "$p rc=$rc $((e-s))s $out"
done
