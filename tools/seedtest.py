#!/usr/bin/env python3
"""Applies each seeded change to /repo, runs the check of the property it breaks (quick tier),
records whether a VIOLATION was reported, and undoes the change.  Writes seeded/RESULTS.json.
usage: tools/seedtest.py [name ...]     (never run concurrently with anything else that uses /repo)"""
import json, os, subprocess, sys, time
ROOT="/verif"
names=sys.argv[1:] or sorted(d for d in os.listdir(f"{ROOT}/seeded") if os.path.isdir(f"{ROOT}/seeded/{d}"))
respath=f"{ROOT}/seeded/RESULTS.json"
results=json.load(open(respath)) if os.path.exists(respath) else {}
for n in names:
    d=f"{ROOT}/seeded/{n}"
    meta=json.load(open(f"{d}/meta.json")); prop=meta["breaks_property"]
    assert subprocess.run(["git","-C","/repo","status","--porcelain"],capture_output=True).stdout.strip()==b"", "/repo not clean"
    r=subprocess.run(["git","-C","/repo","apply",f"{d}/patch.diff"],capture_output=True)
    if r.returncode!=0:
        results[n]={"property":prop,"error":"patch does not apply: "+r.stderr.decode()[:200]}; continue
    t=time.time()
    try:
        p=subprocess.run([f"{ROOT}/check",prop],cwd=ROOT,capture_output=True,timeout=3600)
        out=p.stdout.decode()
        viol=[l for l in out.splitlines() if l.startswith("VIOLATION")]
        results[n]={"property":prop,"detected":p.returncode==1 and bool(viol),"line":viol[0] if viol else "","wall_s":round(time.time()-t,1)}
        if viol and "replay=" in viol[0]:
            rp=viol[0].split("replay=")[1].split(" ")[0]
            try:
                txt=open(rp).read()
                results[n]["replay_head"]=[l for l in txt.splitlines()[:6]]
                # keep the failing case: it goes into corpus/ (replayed first by every check)
                if "no-failing-input-found" not in viol[0] and "\ncase " in "\n"+txt:
                    open(f"{d}/replay.case","w").write(txt)
            except Exception: pass
    finally:
        subprocess.run(["git","-C","/repo","checkout","--","."],check=True)
        subprocess.run(["git","-C","/repo","clean","-fdq","src"],check=True)
    print(n, results[n].get("detected"), results[n].get("line","")[:120], flush=True)
    json.dump(results,open(respath,"w"),indent=1)
