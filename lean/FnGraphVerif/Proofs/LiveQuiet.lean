/-
  Proofs/LiveQuiet.lean — what a poll of the ready stream that does not change the state means:
  the stream answered `Pending`, i.e. the ready queue is empty and its sender is still open.
-/
import FnGraphVerif.Proofs.LiveMeasure
namespace FG
variable {c : Cfg} {s s' : PState}

theorem poll_stuck (hsd : s.sDone = false) (hse : s.streamEnded = false) (hul : underLimit c s = true)
    (h : step? c s .schedPoll = none ∨ step? c s .schedPoll = some s) :
    s.readyQ = [] ∧ s.readyTxOpen = true := by
  apply readyUnder_pending
  obtain ⟨_, _, _, _, hpend, hendd, hintNone, hintSome, hnoInt⟩ :=
    pollNext_spec c.strat s.im (readyUnder s)
  simp only [step?, hsd, hse, hul, Bool.or_self, Bool.not_true, Bool.false_eq_true, if_false] at h
  generalize hu : readyUnder s = u at *
  generalize pollNext c.strat s.im u = r at *
  obtain ⟨m, out⟩ := r
  simp only at hpend hendd hintNone hintSome hnoInt h
  cases out with
  | pending => exact (hpend rfl).1
  | endd =>
    simp only [reduceCtorEq, Option.some.injEq, false_or] at h
    have := congrArg PState.streamEnded h
    simp only [hse] at this
    exact absurd this (by simp)
  | intNone =>
    simp only [reduceCtorEq, Option.some.injEq, false_or] at h
    have := congrArg (fun t => t.im.ian) h
    simp only [(hintNone rfl).1, (hintNone rfl).2] at this
    exact absurd this (by simp)
  | noInt =>
    have hitem := (hnoInt rfl).2
    subst hitem
    have hne := readyUnder_item hu
    cases hq : s.readyQ with
    | nil => exact absurd hq hne
    | cons f rest =>
      simp only [hq, reduceCtorEq, Option.some.injEq, false_or, handOut] at h
      have := congrArg PState.readyQ h
      simp only [hq] at this
      exact absurd this.symm (List.cons_ne_self f rest)
  | intSome =>
    have hitem := (hintSome rfl).2.2
    subst hitem
    have hne := readyUnder_item hu
    cases hq : s.readyQ with
    | nil => exact absurd hq hne
    | cons f rest =>
      simp only [hq] at h
      cases hi : c.incl with
      | true =>
        simp only [hi, if_true, reduceCtorEq, Option.some.injEq, false_or, handOut] at h
        have := congrArg PState.readyQ h
        simp only [hq] at this
        exact absurd this.symm (List.cons_ne_self f rest)
      | false =>
        simp only [hi, Bool.false_eq_true, if_false, reduceCtorEq, Option.some.injEq, false_or] at h
        have := congrArg PState.readyQ h
        simp only [hq] at this
        exact absurd this.symm (List.cons_ne_self f rest)

theorem underLimit_nil (h : s.inflight = []) : underLimit c s = true := by
  unfold underLimit
  rw [h]
  split
  · rfl
  · split
    · rfl
    · rfl
    · rename_i l hl _
      simp only [List.length_nil, decide_eq_true_eq]
      have : l ≠ 0 := fun h0 => hl h0
      omega

theorem underLimit_unlimited (hseq : c.sequential = false) (hlim : c.limit = none ∨ c.limit = some 0) :
    underLimit c s = true := by
  unfold underLimit
  rw [hseq]
  rcases hlim with h | h <;> simp [h]

end FG
