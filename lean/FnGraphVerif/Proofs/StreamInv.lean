/-
  Proofs/StreamInv.lean — inductive invariant of the poll-level stream model
  (`Model/StreamPoll.lean`, fixed closure `drain = true`).

  `SCore` is the part that every intermediate state of a poll satisfies (it is preserved by
  `sRelease`, `sDrain`, `spoll`, `sdrop`, …); `SPark` are the waker facts that hold between
  actions.  `SInv = SCore ∧ SPark` holds in every `SReachable c true` state.
-/
import FnGraphVerif.Proofs.ProtoInv
import FnGraphVerif.Model.StreamPoll
namespace FG

/-! ### small list facts -/

theorem nodup_snoc {l : List Nat} {a : Nat} : (l ++ [a]).Nodup ↔ l.Nodup ∧ a ∉ l := by
  rw [List.nodup_append]
  constructor
  · rintro ⟨h1, _, h3⟩
    exact ⟨h1, fun ha => h3 a ha a (by simp) rfl⟩
  · rintro ⟨h1, h2⟩
    refine ⟨h1, by simp, ?_⟩
    intro x hx b hb
    simp only [List.mem_singleton] at hb
    subst hb
    intro hxb; subst hxb; exact h2 hx

theorem nodup_append_disj {l₁ l₂ : List Nat} (h : (l₁ ++ l₂).Nodup) {a : Nat} (h1 : a ∈ l₁) (h2 : a ∈ l₂) :
    False :=
  (List.nodup_append.mp h).2.2 a h1 a h2 rfl

/-- a duplicate-free list of `n` numbers below `n` contains every number below `n` -/
theorem mem_of_nodup_full {l : List Nat} {n : Nat} (hnd : l.Nodup) (hb : ∀ x ∈ l, x < n)
    (hlen : n ≤ l.length) {v : Nat} (hv : v < n) : v ∈ l := by
  apply Classical.byContradiction
  intro hvl
  have hnd' : (v :: l).Nodup := List.nodup_cons.mpr ⟨hvl, hnd⟩
  have hb' : ∀ x ∈ v :: l, x < n := by
    intro x hx
    rcases List.mem_cons.mp hx with rfl | hx
    · exact hv
    · exact hb x hx
  have := nodup_bounded_length hnd' hb'
  simp only [List.length_cons] at this
  omega

theorem perm_range_of_nodup_full {l : List Nat} {n : Nat} (hnd : l.Nodup) (hb : ∀ x ∈ l, x < n)
    (hlen : n ≤ l.length) : l.Perm (List.range n) := by
  have hsub : l ⊆ List.range n := fun x hx => List.mem_range.mpr (hb x hx)
  exact (List.Nodup.subperm hnd hsub).perm_of_length_le (by simpa using hlen)

/-! ### the core invariant -/

structure SCore (c : Cfg) (s : SState) : Prop where
  cnt : ∀ v, s.counts[v]?.getD 0 = unreleased c.D s.released v
  relNodup : (s.released ++ s.doneQ).Nodup
  doneDropped : ∀ x, x ∈ s.released ∨ x ∈ s.doneQ → x ∈ s.droppedRefs
  droppedDone : s.streamDropped = false → ∀ x ∈ s.droppedRefs, x ∈ s.released ∨ x ∈ s.doneQ
  ready : ∀ v, v ∈ s.readyQ ∨ v ∈ s.yielded → ∀ p ∈ parents c.D v, p ∈ s.released
  queueNodup : (s.readyQ ++ s.yielded).Nodup
  bound : ∀ v, v ∈ s.readyQ ∨ v ∈ s.yielded → v < c.n
  liveYielded : ∀ f ∈ s.live, f ∈ s.yielded
  liveNodup : s.live.Nodup
  liveNotDropped : ∀ f ∈ s.live, f ∉ s.droppedRefs
  droppedYielded : ∀ f ∈ s.droppedRefs, f ∈ s.yielded
  rem : s.fnsRemaining + s.yielded.length = c.n
  tx : s.txOpen = true ↔ s.fnsRemaining ≠ 0
  complete : s.txOpen = true → ∀ v, v < c.n → (∀ p ∈ parents c.D v, p ∈ s.released) →
    v ∈ s.readyQ ∨ v ∈ s.yielded
  noPanic : s.panic = false

/-- waker facts between actions: a parked consumer (`lastPending`) has nothing queued, still holds
    its senders, and either was woken or sits registered on an empty done channel. -/
structure SPark (s : SState) : Prop where
  parked : s.lastPending = true → s.txOpen = true ∧ s.readyQ = []
  parkedWake : s.lastPending = true → s.streamDropped = false →
    s.wake = true ∨ (s.doneQ = [] ∧ s.doneRxWaker = true)

structure SInv (c : Cfg) (s : SState) : Prop where
  core : SCore c s
  park : SPark s

/-! ### consequences of the core invariant -/

theorem SCore.cap_pos (c : Cfg) : c.n ≤ c.cap := by
  unfold Cfg.cap Cfg.n; omega

theorem SCore.readyLen {c : Cfg} {s : SState} (h : SCore c s) : s.readyQ.length ≤ c.n :=
  nodup_bounded_length (List.nodup_append.mp h.queueNodup).1 (fun x hx => h.bound x (Or.inl hx))

theorem SCore.doneLen {c : Cfg} {s : SState} (h : SCore c s) : s.doneQ.length ≤ c.n :=
  nodup_bounded_length (List.nodup_append.mp h.relNodup).2.1
    (fun x hx => h.bound x (Or.inr (h.droppedYielded x (h.doneDropped x (Or.inr hx)))))

/-- a live `FnRef` can always `try_send` its id: the done channel has room -/
theorem SCore.doneRoom {c : Cfg} {s : SState} (h : SCore c s) {f : Nat} (hf : f ∈ s.live) :
    s.doneQ.length < c.cap := by
  have hfd : f ∉ s.doneQ := fun hq => h.liveNotDropped f hf (h.doneDropped f (Or.inr hq))
  have hnd : (f :: s.doneQ).Nodup := List.nodup_cons.mpr ⟨hfd, (List.nodup_append.mp h.relNodup).2.1⟩
  have hb : ∀ x ∈ f :: s.doneQ, x < c.n := by
    intro x hx
    rcases List.mem_cons.mp hx with rfl | hx
    · exact h.bound _ (Or.inr (h.liveYielded _ hf))
    · exact h.bound x (Or.inr (h.droppedYielded x (h.doneDropped x (Or.inr hx))))
  have := nodup_bounded_length hnd hb
  simp only [List.length_cons] at this
  have := SCore.cap_pos c
  omega

/-! ### initial state -/

theorem score_init {c : Cfg} (hc : GoodCfg c) : SCore c (sinit c) := by
  have hpre : ∀ v, v ∈ preload c → v < c.n := fun v hv => ((hc.preMem v).mp hv).1
  refine
    { cnt := ?_, relNodup := by simp [sinit], doneDropped := by simp [sinit],
      droppedDone := by simp [sinit], ready := ?_, queueNodup := by simpa [sinit] using hc.preNodup,
      bound := ?_, liveYielded := by simp [sinit], liveNodup := by simp [sinit],
      liveNotDropped := by simp [sinit], droppedYielded := by simp [sinit],
      rem := by simp [sinit], tx := by simp [sinit], complete := ?_, noPanic := ?_ }
  · intro v
    simp only [sinit, unreleased]
    rw [hc.counts v]
    simp
  · intro v hv p hp
    simp only [sinit, List.not_mem_nil, or_false] at hv
    rw [((hc.preMem v).mp hv).2] at hp
    simp at hp
  · intro v hv
    simp only [sinit, List.not_mem_nil, or_false] at hv
    exact hpre v hv
  · intro _ v hv hp
    left
    simp only [sinit]
    apply (hc.preMem v).mpr
    refine ⟨hv, ?_⟩
    apply List.eq_nil_iff_forall_not_mem.mpr
    intro p hpm
    have := hp p hpm
    simp [sinit] at this
  · simp only [sinit, decide_eq_false_iff_not, Nat.not_lt]
    have := nodup_bounded_length hc.preNodup hpre
    have := SCore.cap_pos c
    omega

theorem spark_init (c : Cfg) : SPark (sinit c) := by
  constructor <;> simp [sinit]

/-! ### `sRelease` -/

section release
variable (c : Cfg) (s : SState) (x : Nat) (rest : List Nat)

@[simp] theorem sRelease_released : (sRelease c s x rest).released = s.released ++ [x] := rfl
@[simp] theorem sRelease_doneQ : (sRelease c s x rest).doneQ = rest := rfl
@[simp] theorem sRelease_counts : (sRelease c s x rest).counts =
    (relFold s.txOpen c.cap (s.counts, s.readyQ, s.panic) (children c.D x)).1 := rfl
@[simp] theorem sRelease_readyQ : (sRelease c s x rest).readyQ =
    (relFold s.txOpen c.cap (s.counts, s.readyQ, s.panic) (children c.D x)).2.1 := rfl
@[simp] theorem sRelease_panic : (sRelease c s x rest).panic =
    (relFold s.txOpen c.cap (s.counts, s.readyQ, s.panic) (children c.D x)).2.2 := rfl
@[simp] theorem sRelease_yielded : (sRelease c s x rest).yielded = s.yielded := rfl
@[simp] theorem sRelease_live : (sRelease c s x rest).live = s.live := rfl
@[simp] theorem sRelease_droppedRefs : (sRelease c s x rest).droppedRefs = s.droppedRefs := rfl
@[simp] theorem sRelease_streamDropped : (sRelease c s x rest).streamDropped = s.streamDropped := rfl
@[simp] theorem sRelease_fnsRemaining : (sRelease c s x rest).fnsRemaining = s.fnsRemaining := rfl
@[simp] theorem sRelease_txOpen : (sRelease c s x rest).txOpen = s.txOpen := rfl
@[simp] theorem sRelease_lastPending : (sRelease c s x rest).lastPending = s.lastPending := rfl
@[simp] theorem sRelease_im : (sRelease c s x rest).im = s.im := rfl
end release

theorem score_release {c : Cfg} (hc : GoodCfg c) {s : SState} (h : SCore c s) {x : Nat} {rest : List Nat}
    (hq : s.doneQ = x :: rest) : SCore c (sRelease c s x rest) := by
  have hnd := h.relNodup
  rw [hq] at hnd
  have hxr : x ∉ s.released := fun hx => nodup_append_disj hnd hx (by simp)
  have hxrest : x ∉ rest := (List.nodup_cons.mp (List.nodup_append.mp hnd).2.1).1
  have hchnd : (children c.D x).Nodup := (hc.simple x).1
  -- facts about the children of `x`
  have hpar : ∀ ch, ch ∈ children c.D x ↔ x ∈ parents c.D ch := fun ch =>
    mem_children.trans mem_parents.symm
  have hchq : ∀ ch ∈ children c.D x, ch ∉ s.readyQ ∧ ch ∉ s.yielded := by
    intro ch hch
    have hxp := (hpar ch).mp hch
    exact ⟨fun hm => hxr (h.ready ch (Or.inl hm) x hxp), fun hm => hxr (h.ready ch (Or.inr hm) x hxp)⟩
  have hchlt : ∀ ch ∈ children c.D x, ch < c.n := fun ch hch => ((mem_children.mp hch).lt hc.wf).2
  have hpos : ∀ ch ∈ children c.D x, s.counts[ch]?.getD 0 ≠ 0 := by
    intro ch hch
    rw [h.cnt ch]
    unfold unreleased
    have : x ∈ (parents c.D ch).filter (fun p => decide (p ∉ s.released)) := by
      simp [(hpar ch).mp hch, hxr]
    exact Nat.ne_of_gt (List.length_pos_of_mem this)
  have hroom : s.readyQ.length + (children c.D x).length ≤ c.cap := by
    have hnd2 : (s.readyQ ++ children c.D x).Nodup := by
      rw [List.nodup_append]
      refine ⟨(List.nodup_append.mp h.queueNodup).1, hchnd, ?_⟩
      intro a ha b hb hab
      subst hab
      exact (hchq a hb).1 ha
    have hb : ∀ v ∈ s.readyQ ++ children c.D x, v < c.n := by
      intro v hv
      rcases List.mem_append.mp hv with hv | hv
      · exact h.bound v (Or.inl hv)
      · exact hchlt v hv
    have := nodup_bounded_length hnd2 hb
    rw [List.length_append] at this
    have := SCore.cap_pos c
    omega
  -- the new counts
  have hcnt : ∀ v, (sRelease c s x rest).counts[v]?.getD 0 = unreleased c.D (s.released ++ [x]) v := by
    intro v
    rw [sRelease_counts, relFold_counts _ _ _ hchnd]
    unfold unreleased
    rw [filter_unreleased_snoc _ (hc.simple v).2 _ _ hxr]
    simp only [hpar v]
    have := h.cnt v
    unfold unreleased at this
    split <;> simp_all
  -- the new ready queue
  have hrq : ∃ t, (sRelease c s x rest).readyQ = s.readyQ ++ t ∧
      (∀ ch ∈ t, ch ∈ children c.D x ∧ s.counts[ch]?.getD 0 - 1 = 0) ∧ t.Nodup ∧
      (s.txOpen = true → ∀ ch ∈ children c.D x, s.counts[ch]?.getD 0 - 1 = 0 → ch ∈ t) := by
    rw [sRelease_readyQ]
    cases htx : s.txOpen
    · refine ⟨[], ?_, by simp, by simp, by simp⟩
      rw [relFold_ready_closed]; simp
    · refine ⟨_, relFold_ready _ _ hchnd _ hroom, ?_, hchnd.filter _, ?_⟩
      · intro ch hch
        simpa using hch
      · intro _ ch hch h0
        simp [hch, h0]
  obtain ⟨t, ht, htmem, htnd, htall⟩ := hrq
  have hrel1 : ∀ ch ∈ t, ∀ p ∈ parents c.D ch, p ∈ s.released ++ [x] := by
    intro ch hch p hp
    obtain ⟨hchx, h0⟩ := htmem ch hch
    by_cases hpx : p = x
    · simp [hpx]
    · apply List.mem_append_left
      rw [h.cnt ch] at h0
      exact only_unreleased (parents c.D ch) s.released x p hxr ((hpar ch).mp hchx) hp hpx h0
  refine
    { cnt := hcnt, relNodup := ?_, doneDropped := ?_, droppedDone := ?_, ready := ?_, queueNodup := ?_,
      bound := ?_, liveYielded := h.liveYielded, liveNodup := h.liveNodup,
      liveNotDropped := h.liveNotDropped, droppedYielded := h.droppedYielded, rem := h.rem, tx := h.tx,
      complete := ?_, noPanic := ?_ }
  · -- relNodup
    rw [sRelease_released, sRelease_doneQ]
    have : s.released ++ [x] ++ rest = s.released ++ x :: rest := by simp
    rw [this]; exact hnd
  · intro y hy
    rw [sRelease_released, sRelease_doneQ] at hy
    apply h.doneDropped y
    rw [hq]
    rcases hy with hy | hy
    · rcases List.mem_append.mp hy with hy | hy
      · exact Or.inl hy
      · right; simp only [List.mem_singleton] at hy; simp [hy]
    · right; simp [hy]
  · intro hsd y hy
    rw [sRelease_released, sRelease_doneQ]
    rcases h.droppedDone hsd y hy with hy | hy
    · exact Or.inl (List.mem_append_left _ hy)
    · rw [hq] at hy
      rcases List.mem_cons.mp hy with rfl | hy
      · left; simp
      · exact Or.inr hy
  · -- ready
    intro v hv p hp
    rw [sRelease_released]
    rw [ht, sRelease_yielded] at hv
    rcases hv with hv | hv
    · rcases List.mem_append.mp hv with hv | hv
      · exact List.mem_append_left _ (h.ready v (Or.inl hv) p hp)
      · exact hrel1 v hv p hp
    · exact List.mem_append_left _ (h.ready v (Or.inr hv) p hp)
  · -- queueNodup
    rw [ht, sRelease_yielded]
    have h1 := List.nodup_append.mp h.queueNodup
    rw [List.nodup_append]
    refine ⟨?_, h1.2.1, ?_⟩
    · rw [List.nodup_append]
      refine ⟨h1.1, htnd, ?_⟩
      intro a ha b hb hab
      subst hab
      exact (hchq a (htmem a hb).1).1 ha
    · intro a ha b hb hab
      subst hab
      rcases List.mem_append.mp ha with ha | ha
      · exact h1.2.2 a ha a hb rfl
      · exact (hchq a (htmem a ha).1).2 hb
  · -- bound
    intro v hv
    rw [ht, sRelease_yielded] at hv
    rcases hv with hv | hv
    · rcases List.mem_append.mp hv with hv | hv
      · exact h.bound v (Or.inl hv)
      · exact hchlt v (htmem v hv).1
    · exact h.bound v (Or.inr hv)
  · -- complete
    intro htx v hv hp
    rw [sRelease_txOpen] at htx
    rw [sRelease_released] at hp
    rw [ht, sRelease_yielded]
    by_cases hxp : x ∈ parents c.D v
    · left
      apply List.mem_append_right
      apply htall htx v ((hpar v).mpr hxp)
      rw [h.cnt v]
      have h0 : unreleased c.D (s.released ++ [x]) v = 0 := by
        unfold unreleased
        rw [List.length_eq_zero_iff, List.filter_eq_nil_iff]
        intro p hpm
        have := hp p hpm
        simp only [List.mem_append, List.mem_singleton] at this
        simp only [List.mem_append, List.mem_singleton, decide_not, Bool.not_eq_eq_eq_not, Bool.not_true,
          decide_eq_false_iff_not, not_not]
        exact this
      unfold unreleased at h0 ⊢
      rw [filter_unreleased_snoc _ (hc.simple v).2 _ _ hxr, if_pos hxp] at h0
      exact h0
    · have : ∀ p ∈ parents c.D v, p ∈ s.released := by
        intro p hpm
        rcases List.mem_append.mp (hp p hpm) with h1 | h1
        · exact h1
        · simp only [List.mem_singleton] at h1; subst h1; exact absurd hpm hxp
      rcases h.complete htx v hv this with h1 | h1
      · exact Or.inl (List.mem_append_left _ h1)
      · exact Or.inr h1
  · rw [sRelease_panic]
    exact relFold_panic _ _ _ hchnd _ h.noPanic hpos

/-! ### `sDrain` -/

/-- the fields a drain does not touch -/
structure SameOuter (s d : SState) : Prop where
  txOpen : d.txOpen = s.txOpen
  yielded : d.yielded = s.yielded
  live : d.live = s.live
  droppedRefs : d.droppedRefs = s.droppedRefs
  streamDropped : d.streamDropped = s.streamDropped
  fnsRemaining : d.fnsRemaining = s.fnsRemaining
  lastPending : d.lastPending = s.lastPending
  im : d.im = s.im

theorem SameOuter.rfl' (s : SState) : SameOuter s s := ⟨rfl, rfl, rfl, rfl, rfl, rfl, rfl, rfl⟩

theorem sDrain_spec {c : Cfg} (hc : GoodCfg c) : ∀ (k : Nat) (s : SState), SCore c s → s.doneQ.length < k →
    SCore c (sDrain c k s) ∧ SameOuter s (sDrain c k s) ∧ (sDrain c k s).doneQ = [] ∧
    (sDrain c k s).released = s.released ++ s.doneQ ∧
    ((sDrain c k s).doneSenders = true → (sDrain c k s).doneRxWaker = true) := by
  intro k
  induction k with
  | zero => intro s _ hk; omega
  | succ k ih =>
    intro s h hk
    rw [sDrain]
    split
    · rename_i x rest hq
      have h' := score_release hc h hq
      have hk' : (sRelease c s x rest).doneQ.length < k := by
        rw [sRelease_doneQ]; rw [hq] at hk; simp only [List.length_cons] at hk; omega
      obtain ⟨a1, a2, a3, a4, a5⟩ := ih _ h' hk'
      refine ⟨a1, ?_, a3, ?_, a5⟩
      · exact ⟨a2.txOpen, a2.yielded, a2.live, a2.droppedRefs, a2.streamDropped, a2.fnsRemaining,
          a2.lastPending, a2.im⟩
      · rw [a4, sRelease_released, sRelease_doneQ, hq]; simp
    · rename_i hq
      split
      · rename_i hs
        refine ⟨?_, ⟨rfl, rfl, rfl, rfl, rfl, rfl, rfl, rfl⟩, hq, by simp [hq], fun _ => rfl⟩
        exact { h with }
      · rename_i hs
        refine ⟨h, SameOuter.rfl' s, hq, by simp [hq], fun hs' => absurd hs' hs⟩

/-! ### `spoll` -/

/-- the state after yielding `f` -/
def syield (d : SState) (f : Nat) (rest : List Nat) : SState :=
  { d with readyQ := rest, yielded := d.yielded ++ [f], live := d.live ++ [f],
           fnsRemaining := d.fnsRemaining - 1, txOpen := d.fnsRemaining - 1 != 0,
           panic := d.panic || d.fnsRemaining == 0 }

/-- the tail of `spoll` after the drain -/
def spollTail (d : SState) : SState × PollRes :=
  if d.txOpen then
    match d.readyQ with
    | f :: rest => (syield d f rest, .some f)
    | [] => ({ d with readyRxWaker := true }, .pending)
  else (d, .none)

theorem spoll_cases {c : Cfg} (hc : GoodCfg c) {s : SState} (h : SCore c s) :
    ∃ d, SCore c d ∧ SameOuter s d ∧ d.doneQ = [] ∧ d.released = s.released ++ s.doneQ ∧
      (d.doneSenders = true → d.doneRxWaker = true) ∧
      spoll c true s = spollTail d := by
  have h0 : SCore c { s with wake := false } := { h with }
  obtain ⟨a1, a2, a3, a4, a5⟩ := sDrain_spec hc (s.doneQ.length + 1) { s with wake := false } h0
    (Nat.lt_succ_self _)
  refine ⟨_, a1, ⟨a2.txOpen, a2.yielded, a2.live, a2.droppedRefs, a2.streamDropped, a2.fnsRemaining,
    a2.lastPending, a2.im⟩, a3, a4, a5, ?_⟩
  unfold spoll spollTail
  simp only [if_true, decr]
  generalize sDrain c _ _ = d
  obtain ⟨_, rq, _, tx, _, _, _, _, _, _, _, _, _, _, _, _⟩ := d
  cases tx <;> cases rq <;> rfl

theorem score_yield {c : Cfg} {d : SState} (h : SCore c d) (htx : d.txOpen = true) {f : Nat} {rest : List Nat}
    (hq : d.readyQ = f :: rest) : SCore c (syield d f rest) := by
  have hnd := h.queueNodup
  rw [hq] at hnd
  have hfy : f ∉ d.yielded := fun hm => nodup_append_disj hnd (by simp) hm
  have hfr : f ∉ rest := (List.nodup_cons.mp (List.nodup_append.mp hnd).1).1
  have hrem : d.fnsRemaining ≠ 0 := h.tx.mp htx
  have hmem : ∀ v, (v ∈ rest ∨ v ∈ d.yielded ++ [f]) ↔ (v ∈ d.readyQ ∨ v ∈ d.yielded) := by
    intro v; rw [hq]; simp only [List.mem_append, List.mem_cons, List.not_mem_nil, or_false]
    constructor
    · rintro (h1 | h1 | h1)
      · exact Or.inl (Or.inr h1)
      · exact Or.inr h1
      · exact Or.inl (Or.inl h1)
    · rintro ((h1 | h1) | h1)
      · exact Or.inr (Or.inr h1)
      · exact Or.inl h1
      · exact Or.inr (Or.inl h1)
  refine
    { cnt := h.cnt, relNodup := h.relNodup, doneDropped := h.doneDropped, droppedDone := h.droppedDone,
      ready := ?_, queueNodup := ?_, bound := ?_, liveYielded := ?_, liveNodup := ?_,
      liveNotDropped := ?_, droppedYielded := ?_, rem := ?_, tx := ?_, complete := ?_, noPanic := ?_ }
  · intro v hv; exact h.ready v ((hmem v).mp hv)
  · show (rest ++ (d.yielded ++ [f])).Nodup
    rw [← List.append_assoc, nodup_snoc]
    have h1 := List.nodup_append.mp hnd
    refine ⟨?_, ?_⟩
    · rw [List.nodup_append]
      exact ⟨(List.nodup_cons.mp h1.1).2, h1.2.1, fun a ha b hb => h1.2.2 a (List.mem_cons_of_mem _ ha) b hb⟩
    · intro hm
      rcases List.mem_append.mp hm with hm | hm
      · exact hfr hm
      · exact hfy hm
  · intro v hv; exact h.bound v ((hmem v).mp hv)
  · intro g hg
    show g ∈ d.yielded ++ [f]
    rcases List.mem_append.mp hg with hg | hg
    · exact List.mem_append_left _ (h.liveYielded g hg)
    · exact List.mem_append_right _ hg
  · show (d.live ++ [f]).Nodup
    rw [nodup_snoc]
    exact ⟨h.liveNodup, fun hm => hfy (h.liveYielded f hm)⟩
  · intro g hg
    show g ∉ d.droppedRefs
    rcases List.mem_append.mp hg with hg | hg
    · exact h.liveNotDropped g hg
    · simp only [List.mem_singleton] at hg; subst hg
      exact fun hm => hfy (h.droppedYielded g hm)
  · intro g hg
    show g ∈ d.yielded ++ [f]
    exact List.mem_append_left _ (h.droppedYielded g hg)
  · show d.fnsRemaining - 1 + (d.yielded ++ [f]).length = c.n
    have := h.rem
    rw [List.length_append, List.length_singleton]; omega
  · show (d.fnsRemaining - 1 != 0) = true ↔ d.fnsRemaining - 1 ≠ 0
    simp
  · intro _ v hv hp
    exact (hmem v).mpr (h.complete htx v hv hp)
  · show (d.panic || d.fnsRemaining == 0) = false
    simp [h.noPanic, hrem]

theorem score_spollTail {c : Cfg} {d : SState} (h : SCore c d) : SCore c (spollTail d).1 := by
  unfold spollTail
  split
  · rename_i htx
    split
    · rename_i f rest hq
      exact score_yield h htx hq
    · exact { h with }
  · exact h

/-! ### `sdrop` -/

/-- the state after `FnRef::drop` of `f`, with the new done queue / wake / done-waker flags -/
def sdropped (s : SState) (f : Nat) (dq : List Nat) (w r : Bool) : SState :=
  { s with live := s.live.erase f, droppedRefs := s.droppedRefs ++ [f], doneQ := dq, wake := w,
           doneRxWaker := r }

theorem sdrop_eq (c : Cfg) (s : SState) (f : Nat) :
    sdrop c s f = if f ∉ s.live then none else
      if s.streamDropped || decide (c.cap ≤ s.doneQ.length) then some (sdropped s f s.doneQ s.wake s.doneRxWaker)
      else some (sdropped s f (s.doneQ ++ [f]) (s.wake || s.doneRxWaker) false) := rfl

theorem score_dropped {c : Cfg} {s : SState} (h : SCore c s) {f : Nat} (hf : f ∈ s.live) {dq : List Nat}
    (w r : Bool) (hdq : dq = s.doneQ ++ [f] ∨ (dq = s.doneQ ∧ s.streamDropped = true)) :
    SCore c (sdropped s f dq w r) := by
  have hfd : f ∉ s.droppedRefs := h.liveNotDropped f hf
  have hfr : f ∉ s.released := fun hm => hfd (h.doneDropped f (Or.inl hm))
  have hfq : f ∉ s.doneQ := fun hm => hfd (h.doneDropped f (Or.inr hm))
  refine
    { cnt := h.cnt, relNodup := ?_, doneDropped := ?_, droppedDone := ?_, ready := h.ready,
      queueNodup := h.queueNodup, bound := h.bound, liveYielded := ?_, liveNodup := ?_,
      liveNotDropped := ?_, droppedYielded := ?_, rem := h.rem, tx := h.tx, complete := h.complete,
      noPanic := h.noPanic }
  · show (s.released ++ dq).Nodup
    rcases hdq with rfl | ⟨rfl, _⟩
    · rw [← List.append_assoc, nodup_snoc]
      refine ⟨h.relNodup, fun hm => ?_⟩
      rcases List.mem_append.mp hm with hm | hm
      · exact hfr hm
      · exact hfq hm
    · exact h.relNodup
  · intro x hx
    show x ∈ s.droppedRefs ++ [f]
    change x ∈ s.released ∨ x ∈ dq at hx
    rcases hdq with rfl | ⟨rfl, _⟩
    · rcases hx with hx | hx
      · exact List.mem_append_left _ (h.doneDropped x (Or.inl hx))
      · rcases List.mem_append.mp hx with hx | hx
        · exact List.mem_append_left _ (h.doneDropped x (Or.inr hx))
        · exact List.mem_append_right _ hx
    · exact List.mem_append_left _ (h.doneDropped x hx)
  · intro hsd x hx
    change s.streamDropped = false at hsd
    change x ∈ s.droppedRefs ++ [f] at hx
    show x ∈ s.released ∨ x ∈ dq
    rcases hdq with rfl | ⟨rfl, hsd'⟩
    · rcases List.mem_append.mp hx with hx | hx
      · rcases h.droppedDone hsd x hx with h1 | h1
        · exact Or.inl h1
        · exact Or.inr (List.mem_append_left _ h1)
      · exact Or.inr (List.mem_append_right _ hx)
    · rw [hsd] at hsd'; cases hsd'
  · intro g hg
    exact h.liveYielded g (List.mem_of_mem_erase hg)
  · exact h.liveNodup.erase f
  · intro g hg
    change g ∈ s.live.erase f at hg
    show g ∉ s.droppedRefs ++ [f]
    have hg' := (h.liveNodup.mem_erase_iff).mp hg
    intro hm
    rcases List.mem_append.mp hm with hm | hm
    · exact h.liveNotDropped g hg'.2 hm
    · simp only [List.mem_singleton] at hm; exact hg'.1 hm
  · intro g hg
    change g ∈ s.droppedRefs ++ [f] at hg
    show g ∈ s.yielded
    rcases List.mem_append.mp hg with hg | hg
    · exact h.droppedYielded g hg
    · simp only [List.mem_singleton] at hg; subst hg; exact h.liveYielded g hf

theorem score_drop {c : Cfg} {s s' : SState} {f : Nat} (h : SCore c s) (hd : sdrop c s f = some s') :
    SCore c s' := by
  rw [sdrop_eq] at hd
  split at hd
  · cases hd
  · rename_i hf
    have hf : f ∈ s.live := Classical.not_not.mp hf
    split at hd
    · rename_i hcond
      cases hd
      apply score_dropped h hf
      right
      refine ⟨rfl, ?_⟩
      rcases Bool.or_eq_true_iff.mp hcond with h1 | h1
      · exact h1
      · have := h.doneRoom hf
        have := of_decide_eq_true h1
        omega
    · cases hd
      exact score_dropped h hf _ _ (Or.inl rfl)

theorem spark_drop {c : Cfg} {s s' : SState} {f : Nat} (h : SPark s) (hd : sdrop c s f = some s') :
    SPark s' := by
  rw [sdrop_eq] at hd
  split at hd
  · cases hd
  · split at hd
    · cases hd
      exact ⟨h.parked, h.parkedWake⟩
    · cases hd
      refine ⟨h.parked, ?_⟩
      intro hp hsd
      left
      show (s.wake || s.doneRxWaker) = true
      rcases h.parkedWake hp hsd with h1 | ⟨_, h1⟩
      · simp [h1]
      · simp [h1]

/-! ### the interruptible wrapper -/

theorem pollNext_pending {st : Strat} {m : IM} {u : Under} (h : (pollNext st m u).2 = .pending) :
    u = .pending := by
  unfold pollNext at h
  split at h
  · cases h
  · generalize interruptCheck st m = m' at h
    obtain ⟨_, _, _, sig, hp, _, _⟩ := m'
    cases hp <;> cases sig <;> cases u <;> simp at h <;> rfl

theorem pollNext_noInner {st : Strat} {m : IM} {u : Under} (h : pollsInner st m = false) :
    (pollNext st m u).2 ≠ .pending := by
  unfold pollsInner at h
  unfold pollNext
  split
  · simp
  · rename_i hian
    simp only [hian] at h
    generalize interruptCheck st m = m' at h ⊢
    obtain ⟨_, _, _, sig, hp, _, _⟩ := m'
    cases hp <;> cases sig <;> simp at h
    simp

theorem spollTail_facts (d : SState) :
    (spollTail d).1.streamDropped = d.streamDropped ∧
    ((spollTail d).2 = .pending → (spollTail d).1.txOpen = true ∧ (spollTail d).1.readyQ = [] ∧
      (spollTail d).1.doneQ = d.doneQ ∧ (spollTail d).1.doneRxWaker = d.doneRxWaker ∧ d.txOpen = true) ∧
    ((spollTail d).2 = .none ↔ d.txOpen = false) ∧
    (d.txOpen = true → d.readyQ ≠ [] → ∃ f, (spollTail d).2 = .some f) := by
  unfold spollTail
  cases htx : d.txOpen
  · simp
  · cases hrq : d.readyQ
    · simp
    · simp [syield]

def underOf : PollRes → Under
  | .some _ => .item
  | .none => .none
  | .pending => .pending

theorem sipoll_inner (c : Cfg) (drain : Bool) (s : SState) (h : pollsInner c.strat s.im = true) :
    (sipoll c drain s).1 =
      { (spoll c drain s).1 with
          im := (pollNext c.strat s.im (underOf (spoll c drain s).2)).1,
          lastPending := decide ((pollNext c.strat s.im (underOf (spoll c drain s).2)).2 = .pending) } ∧
    (sipoll c drain s).2.1 = (pollNext c.strat s.im (underOf (spoll c drain s).2)).2 := by
  unfold sipoll
  rw [if_pos h]
  rcases spoll c drain s with ⟨t, r⟩
  cases r <;> exact ⟨rfl, rfl⟩

theorem sipoll_outer (c : Cfg) (drain : Bool) (s : SState) (h : pollsInner c.strat s.im = false) :
    (sipoll c drain s).1 =
      { s with im := (pollNext c.strat s.im .pending).1, wake := false,
               lastPending := decide ((pollNext c.strat s.im .pending).2 = .pending) } ∧
    (sipoll c drain s).2.1 = (pollNext c.strat s.im .pending).2 := by
  unfold sipoll
  rw [if_neg (by simp [h])]
  exact ⟨rfl, rfl⟩

theorem sipoll_spec_I {c : Cfg} (hc : GoodCfg c) {s : SState} (h : SCore c s) :
    SCore c (sipoll c true s).1 ∧ (sipoll c true s).1.streamDropped = s.streamDropped ∧
    ((sipoll c true s).1.lastPending = true ↔ (sipoll c true s).2.1 = .pending) ∧
    ((sipoll c true s).2.1 = .pending →
      (sipoll c true s).1.txOpen = true ∧ (sipoll c true s).1.readyQ = [] ∧
      (sipoll c true s).1.doneQ = [] ∧ (sipoll c true s).1.doneRxWaker = true) := by
  cases hpi : pollsInner c.strat s.im
  · obtain ⟨e1, e2⟩ := sipoll_outer c true s hpi
    have hne := pollNext_noInner (u := .pending) hpi
    rw [e1, e2]
    refine ⟨{ h with }, rfl, by simp, fun hp => absurd hp hne⟩
  · obtain ⟨e1, e2⟩ := sipoll_inner c true s hpi
    obtain ⟨d, hd, hso, hdq, _, hwk, heq⟩ := spoll_cases hc h
    rw [e1, e2, heq]
    have hcore := score_spollTail hd
    obtain ⟨f1, f2, _, _⟩ := spollTail_facts d
    refine ⟨{ hcore with }, f1.trans hso.streamDropped, by simp, ?_⟩
    intro hp
    have hu := pollNext_pending hp
    have hu' : (spollTail d).2 = .pending := by
      revert hu; cases (spollTail d).2 <;> simp [underOf]
    obtain ⟨g1, g2, g3, g4, g5⟩ := f2 hu'
    refine ⟨g1, g2, g3.trans hdq, g4.trans (hwk ?_)⟩
    simp [SState.doneSenders, g5]

/-! ### the invariant is inductive -/

theorem sinv_init {c : Cfg} (hc : GoodCfg c) : SInv c (sinit c) := ⟨score_init hc, spark_init c⟩

theorem sinv_step {c : Cfg} (hc : GoodCfg c) {s s' : SState} {a : SAction} (h : SInv c s)
    (hs : sstep? c true s a = some s') : SInv c s' := by
  cases a with
  | poll =>
    simp only [sstep?] at hs
    split at hs
    · cases hs
    · rename_i hsd
      have hsd : s.streamDropped = false := by simpa using hsd
      cases hs
      obtain ⟨a1, a2, a3, a4⟩ := sipoll_spec_I hc h.core
      refine ⟨a1, ?_, ?_⟩
      · intro hp
        obtain ⟨b1, b2, _, _⟩ := a4 (a3.mp hp)
        exact ⟨b1, b2⟩
      · intro hp _
        obtain ⟨_, _, b3, b4⟩ := a4 (a3.mp hp)
        exact Or.inr ⟨b3, b4⟩
  | drop f =>
    simp only [sstep?] at hs
    exact ⟨score_drop h.core hs, spark_drop h.park hs⟩
  | dropStream =>
    simp only [sstep?] at hs
    split at hs
    · cases hs
    · rename_i hsd
      have hsd : s.streamDropped = false := by simpa using hsd
      cases hs
      refine ⟨?_, h.park.parked, ?_⟩
      · have hcore := h.core
        exact { hcore with droppedDone := fun hx => by cases hx }
      · intro _ hx; cases hx
  | interrupt =>
    simp only [sstep?] at hs
    cases hs
    have hcore := h.core
    exact ⟨{ hcore with }, h.park.parked, h.park.parkedWake⟩

theorem sinv_reachable {c : Cfg} (hc : GoodCfg c) {s : SState} (hr : SReachable c true s) : SInv c s := by
  induction hr with
  | init => exact sinv_init hc
  | step a _ hs ih => exact sinv_step hc ih hs

/-! ### running a list of actions (for concrete examples) -/

def srun (c : Cfg) (drain : Bool) (s : SState) : List SAction → Option SState
  | [] => some s
  | a :: as => match sstep? c drain s a with
    | none => none
    | some s' => srun c drain s' as

theorem sreachable_srun {c : Cfg} {drain : Bool} {s : SState} (hr : SReachable c drain s) :
    ∀ {as : List SAction} {s' : SState}, srun c drain s as = some s' → SReachable c drain s' := by
  intro as
  induction as generalizing s with
  | nil => intro s' h; simp only [srun, Option.some.injEq] at h; subst h; exact hr
  | cons a as ih =>
    intro s' h
    simp only [srun] at h
    split at h
    · cases h
    · rename_i s1 hs1
      exact ih (SReachable.step a hr hs1) h

end FG
