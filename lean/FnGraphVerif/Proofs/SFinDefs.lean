/-
  Proofs/SFinDefs.lean — closed forms of the external action `finish f ok` (`finOk`, `finErrC`,
  `finErrS`, `finApply`), for the commutation lemmas of `Proofs/SCommute.lean`.
-/
import FnGraphVerif.Proofs.SJoin
namespace FG
variable {c : Cfg} {s s' t : PState}

/-! ### closed forms of `finish` -/

def finOk (c : Cfg) (s : PState) (f : Nat) : PState :=
  { s with
    inflight := s.inflight.erase f, endedOk := s.endedOk ++ [f],
    doneQ := (if s.doneTxOpen && !decide (c.cap ≤ s.doneQ.length) then s.doneQ ++ [f] else s.doneQ),
    sRemaining := s.sRemaining - 1,
    doneTxOpen := (s.doneTxOpen && (s.sRemaining - 1 != 0) && s.closeAfter != some f),
    panic := (s.panic || s.sRemaining == 0 || (s.doneTxOpen && decide (c.cap ≤ s.doneQ.length))) }

def finErrC (c : Cfg) (s : PState) (f : Nat) : PState :=
  { s with
    inflight := s.inflight.erase f, failed := s.failed ++ [f], errors := s.errors ++ [f],
    doneTxOpen := false, sRemaining := s.sRemaining - 1,
    panic := (s.panic || s.sRemaining == 0 || decide (c.cap ≤ s.errors.length)) }

def finErrS (s : PState) (f : Nat) : PState :=
  { s with
    inflight := s.inflight.erase f, failed := s.failed ++ [f], shortErr := some f,
    doneTxOpen := false, readyRxOpen := false, sDone := true }

def finApply (c : Cfg) (s : PState) (f : Nat) (ok : Bool) : Option PState :=
  if ok then some (finOk c s f)
  else match c.errMode with
    | .none => none
    | .collect => some (finErrC c s f)
    | .shortCircuit => some (finErrS s f)

theorem step_fin (c : Cfg) (s : PState) (f : Nat) (ok : Bool) :
    step? c s (.finish f ok) = if f ∈ s.inflight ∧ f ∈ s.invoked then finApply c s f ok else none := by
  by_cases hg : f ∈ s.inflight ∧ f ∈ s.invoked
  · simp only [step?, hg, and_self, not_true_eq_false, if_false, if_true, finApply]
    cases ok
    · simp only [Bool.false_eq_true, if_false]
      cases c.errMode <;> rfl
    · rfl
  · simp only [step?, hg, not_false_eq_true, if_true, if_false]

theorem fin_guard {f : Nat} {ok : Bool} (h : step? c s (.finish f ok) = some s') :
    (f ∈ s.inflight ∧ f ∈ s.invoked) ∧ finApply c s f ok = some s' := by
  rw [step_fin] at h
  split at h
  · rename_i hg; exact ⟨hg, h⟩
  · exact absurd h (by simp)

theorem step_fin_of {f : Nat} {ok : Bool} (hi : f ∈ s.inflight) (hv : f ∈ s.invoked) :
    step? c s (.finish f ok) = finApply c s f ok := by
  rw [step_fin, if_pos ⟨hi, hv⟩]

end FG
