/-
  Proofs/LDiamond.lean — local confluence of the core actions modulo `Sim`: any two core actions
  enabled in a reachable state lead to states that can be joined again.
-/
import FnGraphVerif.Proofs.LDiamondSP
namespace FG
variable {c : Cfg} {s s' t : PState}

theorem step_qr_of {x : Nat} {rest : List Nat} (hqd : s.qDone = false) (hres : s.result = none)
    (hq : s.doneQ = x :: rest) : step? c s .queuerRecv = some (qrApply c s x rest) := by
  simp only [step_qr, hqd, hres, hq]
  rfl

theorem step_qe_of (hqd : s.qDone = false) (hdt : s.doneTxOpen = false) (hdq : s.doneQ = []) :
    step? c s .queuerEnd = some { s with qDone := true, readyTxOpen := false } := by
  simp only [step_qe, hqd, hdt, hdq]
  rfl

theorem step_se_of (hse : s.streamEnded = true) (hinf : s.inflight = []) (hsd : s.sDone = false) :
    step? c s .schedEnd = some { s with sDone := true, doneTxOpen := s.doneTxOpen && !c.sequential } := by
  simp only [step_se, hse, hinf, hsd]
  rfl

theorem lc_qr_sp (hc : GoodCfg c) (hr : Reachable c s) {s1 s2 : PState}
    (h1 : step? c s .queuerRecv = some s1) (h2 : step? c s .schedPoll = some s2) : Join c s1 s2 := by
  have hinv := inv0_reachable hc hr
  have hr1 : Reachable c s1 := Reachable.step _ hr h1
  have hr2 : Reachable c s2 := Reachable.step _ hr h2
  obtain ⟨hqd, hres, x, rest, hq, hs1⟩ := queuerRecv_cases h1
  have hs1' : s1 = qrApply c s x rest := hs1
  subst hs1'
  have hg := guard_of_sp h2
  have hg1 : spGuard c (qrApply c s x rest) = false := hg
  by_cases hpend : readyUnder s = .pending ∧ (pollNext c.strat s.im .pending).2 = .pending
  · refine absorb_join (s := s) (b := .qr) ?_ rfl hg hg1 hpend.1 hpend.2 h2
    intro m
    exact step_qr_of (s := { s with im := m }) hqd hres hq
  · have hP : pollNext c.strat s.im (readyUnder (qrApply c s x rest)) = pollNext c.strat s.im (readyUnder s) := by
      by_cases hu : readyUnder s = .pending
      · have hnp : (pollNext c.strat s.im .pending).2 ≠ .pending := fun h => hpend ⟨hu, h⟩
        rw [hu, pollNext_indep _ _ _ hnp]
      · rw [readyUnder_qr hu]
    have h2s := h2
    rw [sp_of_guard hg] at h2
    have hsp1 : step? c (qrApply c s x rest) .schedPoll =
        spApply c (qrApply c s x rest) (pollNext c.strat s.im (readyUnder s)).1 (pollNext c.strat s.im (readyUnder s)).2 := by
      rw [sp_of_guard hg1]
      show spApply c _ (pollNext c.strat s.im _).1 (pollNext c.strat s.im _).2 = _
      rw [hP]
    obtain ⟨e1, e2, e3, _⟩ := spApply_queuer h2
    have hs2 : step? c s2 .queuerRecv = some (qrApply c s2 x rest) :=
      step_qr_of (by rw [e1, hqd]) (by rw [e3, hres]) (by rw [e2, hq])
    have hp1 : ∀ t1, spApply c (qrApply c s x rest) (pollNext c.strat s.im (readyUnder s)).1
        (pollNext c.strat s.im (readyUnder s)).2 = some t1 → t1.panic = false := by
      intro t1 ht1
      rw [← hsp1] at ht1
      exact (inv0_reachable hc (Reachable.step _ hr1 ht1)).noPanic
    have hp2 : (qrApply c s2 x rest).panic = false :=
      (inv0_reachable hc (Reachable.step _ hr2 hs2)).noPanic
    obtain ⟨t1, ht1, hsim⟩ := qr_sp_commute hc hinv hq h2 hp1 hp2
    rw [← hsp1] at ht1
    exact Join.of_steps (a := .qr) (b := .sp) ht1 hs2 hsim

theorem lc_qr_se {s1 s2 : PState}
    (h1 : step? c s .queuerRecv = some s1) (h2 : step? c s .schedEnd = some s2) : Join c s1 s2 := by
  obtain ⟨hqd, hres, x, rest, hq, hs1⟩ := queuerRecv_cases h1
  have hs1' : s1 = qrApply c s x rest := hs1
  subst hs1'
  obtain ⟨hse, hinf, hsd, rfl⟩ := schedEnd_cases h2
  have ha : step? c (qrApply c s x rest) .schedEnd =
      some { qrApply c s x rest with sDone := true, doneTxOpen := s.doneTxOpen && !c.sequential } := by
    exact step_se_of (s := qrApply c s x rest) hse hinf hsd
  have hb : step? c { s with sDone := true, doneTxOpen := s.doneTxOpen && !c.sequential } .queuerRecv =
      some { qrApply c s x rest with sDone := true, doneTxOpen := s.doneTxOpen && !c.sequential } :=
    step_qr_of (s := { s with sDone := true, doneTxOpen := s.doneTxOpen && !c.sequential }) hqd hres hq
  exact Join.of_steps (a := .qr) (b := .se) ha hb (Sim.refl _)

theorem lc_qe_se {s1 s2 : PState}
    (h1 : step? c s .queuerEnd = some s1) (h2 : step? c s .schedEnd = some s2) : Join c s1 s2 := by
  obtain ⟨hqd, hdt, hdq, rfl⟩ := queuerEnd_cases h1
  obtain ⟨hse, hinf, hsd, rfl⟩ := schedEnd_cases h2
  have ha : step? c { s with qDone := true, readyTxOpen := false } .schedEnd =
      some { s with qDone := true, readyTxOpen := false, sDone := true, doneTxOpen := s.doneTxOpen && !c.sequential } := by
    have := step_se_of (c := c) (s := { s with qDone := true, readyTxOpen := false }) hse hinf hsd
    exact this
  have hb : step? c { s with sDone := true, doneTxOpen := s.doneTxOpen && !c.sequential } .queuerEnd =
      some { s with qDone := true, readyTxOpen := false, sDone := true, doneTxOpen := s.doneTxOpen && !c.sequential } := by
    have hdt' : (s.doneTxOpen && !c.sequential) = false := by rw [hdt]; rfl
    have := step_qe_of (c := c) (s := { s with sDone := true, doneTxOpen := s.doneTxOpen && !c.sequential }) hqd hdt' hdq
    exact this
  exact Join.of_steps (a := .qe) (b := .se) ha hb (Sim.refl _)

/-- **local confluence** of the core actions -/
theorem local_conf (hc : GoodCfg c) : LocalConf c := by
  intro s hr a b s1 s2 h1 h2
  show Join c s1 s2
  cases a <;> cases b <;> simp only [CA.act] at h1 h2
  -- qr
  · rw [h1] at h2; simp only [Option.some.injEq] at h2; subst h2; exact Join.refl _
  · obtain ⟨_, _, x, rest, hq, _⟩ := queuerRecv_cases h1
    obtain ⟨_, _, hq', _⟩ := queuerEnd_cases h2
    rw [hq] at hq'; exact absurd hq' (by simp)
  · exact lc_qr_sp hc hr h1 h2
  · exact lc_qr_se h1 h2
  · obtain ⟨hqd, _⟩ := queuerRecv_cases h1
    obtain ⟨_, hqd', _⟩ := ret_cases h2
    rw [hqd] at hqd'; exact absurd hqd' (by simp)
  -- qe
  · obtain ⟨_, _, x, rest, hq, _⟩ := queuerRecv_cases h2
    obtain ⟨_, _, hq', _⟩ := queuerEnd_cases h1
    rw [hq] at hq'; exact absurd hq' (by simp)
  · rw [h1] at h2; simp only [Option.some.injEq] at h2; subst h2; exact Join.refl _
  · exact lc_qe_sp h1 h2
  · exact lc_qe_se h1 h2
  · obtain ⟨hqd, _⟩ := queuerEnd_cases h1
    obtain ⟨_, hqd', _⟩ := ret_cases h2
    rw [hqd] at hqd'; exact absurd hqd' (by simp)
  -- sp
  · exact (lc_qr_sp hc hr h2 h1).symm
  · exact (lc_qe_sp h2 h1).symm
  · rw [h1] at h2; simp only [Option.some.injEq] at h2; subst h2; exact Join.refl _
  · obtain ⟨_, hse, _⟩ := schedPoll_cases h1
    obtain ⟨hse', _⟩ := schedEnd_cases h2
    rw [hse] at hse'; exact absurd hse' (by simp)
  · obtain ⟨hsd, _⟩ := schedPoll_cases h1
    obtain ⟨hsd', _⟩ := ret_cases h2
    rw [hsd] at hsd'; exact absurd hsd' (by simp)
  -- se
  · exact (lc_qr_se h2 h1).symm
  · exact (lc_qe_se h2 h1).symm
  · obtain ⟨_, hse, _⟩ := schedPoll_cases h2
    obtain ⟨hse', _⟩ := schedEnd_cases h1
    rw [hse] at hse'; exact absurd hse' (by simp)
  · rw [h1] at h2; simp only [Option.some.injEq] at h2; subst h2; exact Join.refl _
  · obtain ⟨_, _, hsd, _⟩ := schedEnd_cases h1
    obtain ⟨hsd', _⟩ := ret_cases h2
    rw [hsd] at hsd'; exact absurd hsd' (by simp)
  -- rt
  · obtain ⟨hqd, _⟩ := queuerRecv_cases h2
    obtain ⟨_, hqd', _⟩ := ret_cases h1
    rw [hqd] at hqd'; exact absurd hqd' (by simp)
  · obtain ⟨hqd, _⟩ := queuerEnd_cases h2
    obtain ⟨_, hqd', _⟩ := ret_cases h1
    rw [hqd] at hqd'; exact absurd hqd' (by simp)
  · obtain ⟨hsd, _⟩ := schedPoll_cases h2
    obtain ⟨hsd', _⟩ := ret_cases h1
    rw [hsd] at hsd'; exact absurd hsd' (by simp)
  · obtain ⟨_, _, hsd, _⟩ := schedEnd_cases h2
    obtain ⟨hsd', _⟩ := ret_cases h1
    rw [hsd] at hsd'; exact absurd hsd' (by simp)
  · rw [h1] at h2; simp only [Option.some.injEq] at h2; subst h2; exact Join.refl _

end FG
