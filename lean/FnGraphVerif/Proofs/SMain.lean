/-
  Proofs/SMain.lean — the induction over an `ObsRun` behind `Theorems/MonitorComplete.lean`: one step
  of the real run keeps the coupling `Cpl` and the monitor accepts the step's events, provided
  closures are invoked in hand-out order (`FifoT`, threaded through the run as in
  `Proofs/QCoup.lean`) and interrupt signals are sent while the monitor is in step with the real run
  (directly after a `q`, or first of all), or the strategy is `NonInterruptible`.
-/
import FnGraphVerif.Proofs.SQuiesce
namespace FG
variable {x : MonCtx} {s s1 : PState} {t : TrackSt}

/-! ### the side condition "invoked in hand-out order", threaded through the monitor -/

def FifoT (t : TrackSt) (evs : List Ev) : Prop :=
  (t.realInvoked ++ evs.filterMap Ev.invoke?) <+: (t.realHandout ++ evs.filterMap Ev.handout?)

theorem trackFut_real (x : MonCtx) (t : TrackSt) (e : Ev) :
    (trackFut x t e).1.realInvoked = t.realInvoked ++ (Ev.invoke? e).toList ∧
    (trackFut x t e).1.realHandout = t.realHandout ++ (Ev.handout? e).toList := by
  cases e with
  | fin f ok =>
    rw [trackFut_fin]
    split <;> simp [Ev.invoke?, Ev.handout?]
  | _ => simp [trackFut, Ev.invoke?, Ev.handout?]

theorem fifoT_cons (x : MonCtx) (t : TrackSt) (e : Ev) (tail : List Ev) :
    FifoT t (e :: tail) ↔ FifoT (trackFut x t e).1 tail := by
  unfold FifoT
  rw [(trackFut_real x t e).1, (trackFut_real x t e).2]
  cases e <;> simp [Ev.invoke?, Ev.handout?, List.filterMap_cons]

theorem fifoT_trackRun (x : MonCtx) (evs tail : List Ev) : ∀ t : TrackSt,
    FifoT t (evs ++ tail) ↔ FifoT (trackRun x t evs).1 tail := by
  induction evs with
  | nil => intro t; simp [trackRun]
  | cons e evs ih =>
    intro t
    rw [List.cons_append, fifoT_cons x, ih, trackRun_cons]

/-- what `FifoT` says about the real state -/
theorem Cpl.fifo_prefix (hx : GoodCtx x) (h : Cpl x s t) {evs : List Ev} (hf : FifoT t evs) :
    s.invoked <+: s.handedOut := by
  unfold FifoT at hf
  rw [h.rInv, h.rHo] at hf
  have hinv := inv0_reachable hx.good h.rs
  have hlen : s.invoked.length ≤ s.handedOut.length :=
    List.Nodup.length_le_of_subset hinv.invNodup hinv.invHanded
  exact prefix_of_append_prefix ((List.prefix_append _ _).trans hf) hlen

theorem Cpl.fifo_invoke (hx : GoodCtx x) (h : Cpl x s t) {f : Nat} {evs : List Ev}
    (hf : FifoT t (.invoke f :: evs)) (hs : step? x.c s (.invoke f) = some s1) :
    s.invoked ++ [f] <+: s.handedOut := by
  unfold FifoT at hf
  rw [h.rInv, h.rHo] at hf
  simp only [List.filterMap_cons, Ev.invoke?, Ev.handout?] at hf
  have hinv1 := inv0_reachable hx.good (Reachable.step _ h.rs hs)
  obtain ⟨_, _, hs1⟩ := invoke_cases hs
  have e1 : s1.invoked = s.invoked ++ [f] := by rw [hs1]
  have e2 : s1.handedOut = s.handedOut := by rw [hs1]
  have hlen : (s.invoked ++ [f]).length ≤ s.handedOut.length := by
    rw [← e1, ← e2]
    exact List.Nodup.length_le_of_subset hinv1.invNodup hinv1.invHanded
  have hp : s.invoked ++ [f] <+: s.invoked ++ f :: evs.filterMap Ev.invoke? := by
    rw [show s.invoked ++ f :: evs.filterMap Ev.invoke? = (s.invoked ++ [f]) ++ evs.filterMap Ev.invoke? by simp]
    exact List.prefix_append _ _
  exact prefix_of_append_prefix (hp.trans hf) hlen

/-! ### interrupt signals: only while the monitor is in step -/

/-- every `intr` comes directly after a `q` (or, with `b = true`, is the first event) -/
def intrAtQFrom : Bool → List Ev → Prop
  | _, [] => True
  | b, .intr :: es => b = true ∧ intrAtQFrom false es
  | _, .q :: es => intrAtQFrom true es
  | _, _ :: es => intrAtQFrom false es

instance instDecidableIntrAtQFrom : ∀ (b : Bool) (evs : List Ev), Decidable (intrAtQFrom b evs)
  | _, [] => isTrue trivial
  | b, e :: es => by
    have := instDecidableIntrAtQFrom true es
    have := instDecidableIntrAtQFrom false es
    cases e <;> unfold intrAtQFrom <;> infer_instance

/-- the condition on interrupt signals: the strategy never looks at the signal, or every signal is
    sent while the monitor is in step with the real run -/
def IntrSide (x : MonCtx) (b : Bool) (evs : List Ev) : Prop := x.c.strat = .non ∨ intrAtQFrom b evs

/-- every step of the real run from `s` that shows no event leaves the state as it is -/
def Quiet (x : MonCtx) (s : PState) : Prop :=
  ∀ (a : Action) (s1 : PState), step? x.c s a = some s1 → stepEvents x.c x.control s a s1 = [] → s1 = s

/-- the monitor is in step: `SimC`-equal states, and the real run cannot move on unobserved -/
def Synced (x : MonCtx) (s : PState) (t : TrackSt) : Prop := SimC s t.s ∧ Quiet x s

theorem quiet_init (hx : GoodCtx x) (hn : x.c.n ≠ 0) : Quiet x (init x.c) := by
  intro a s1 hs hev
  exact absurd hev (init_step_visible hx.good hn x.control hs)

theorem quiet_of_quiescent (hq : Quiescent x.c s) (hres : s.result = none) : Quiet x s := by
  obtain ⟨_, ha, hb, hpoll, hd, he⟩ := nextInternal_none (quiescent_iff.mp hq) hres
  intro a s1 hs hev
  cases a with
  | queuerRecv =>
    exfalso
    obtain ⟨h1, _, y, rest, h2, _⟩ := queuerRecv_cases hs
    rcases ha with h' | h'
    · rw [h1] at h'; exact absurd h' (by simp)
    · rw [h2] at h'; exact absurd h' (by simp)
  | queuerEnd =>
    exfalso
    obtain ⟨h1, h2, _⟩ := queuerEnd_cases hs
    rcases hb with h' | h'
    · rw [h1] at h'; exact absurd h' (by simp)
    · rw [h2] at h'; exact absurd h' (by simp)
  | schedPoll =>
    obtain ⟨h1, h2, h3, _⟩ := schedPoll_cases hs
    rcases hpoll with h4 | h4 | h4 | h4 | h4
    · rw [h1] at h4; exact absurd h4 (by simp)
    · rw [h2] at h4; exact absurd h4 (by simp)
    · rw [h3] at h4; exact absurd h4 (by simp)
    · rw [h4] at hs; exact absurd hs (by simp)
    · rw [h4] at hs; simp only [Option.some.injEq] at hs; exact hs.symm
  | invoke f => exact absurd hev (by simp [stepEvents])
  | finish f ok => exact absurd hev (by simp [stepEvents])
  | interrupt => exact absurd hev (by simp [stepEvents])
  | schedEnd =>
    exfalso
    obtain ⟨h1, h2, h3, _⟩ := schedEnd_cases hs
    exact hd ⟨h1, h2, h3⟩
  | ret =>
    exfalso
    obtain ⟨h1, h2, _⟩ := ret_cases hs
    exact he ⟨h1, h2⟩

theorem intrAtQFrom_single {b : Bool} {e : Ev} {tail : List Ev} (he : e ≠ .intr) (hq : e ≠ .q)
    (h : intrAtQFrom b (e :: tail)) : intrAtQFrom false tail := by
  cases e <;> first | exact absurd rfl he | exact absurd rfl hq | exact h

/-! ### one step of the real run -/

theorem step_cpl (hx : GoodCtx x) (hcoop : x.coop = false) (h : Cpl x s t) {b : Bool}
    (hb : b = true → Synced x s t) {a : Action}
    (hs : step? x.c s a = some s1) {tail : List Ev}
    (hside : IntrSide x b (stepEvents x.c x.control s a s1 ++ tail)) :
    ∃ b', Cpl x s1 (trackRun x t (stepEvents x.c x.control s a s1)).1 ∧
      (b' = true → Synced x s1 (trackRun x t (stepEvents x.c x.control s a s1)).1) ∧
      IntrSide x b' tail ∧
      (FifoT t (stepEvents x.c x.control s a s1 ++ tail) → FifoInv t.s →
        FifoInv (trackRun x t (stepEvents x.c x.control s a s1)).1.s) ∧
      ∀ n ∈ (trackRun x t (stepEvents x.c x.control s a s1)).2, n.ok = true := by
  have silent : ∀ (ha : a.internal), stepEvents x.c x.control s a s1 = [] → s1.handedOut = s.handedOut →
      s1.inflight = s.inflight → s1.invoked = s.invoked →
      ∃ b', Cpl x s1 (trackRun x t (stepEvents x.c x.control s a s1)).1 ∧
        (b' = true → Synced x s1 (trackRun x t (stepEvents x.c x.control s a s1)).1) ∧
        IntrSide x b' tail ∧
        (FifoT t (stepEvents x.c x.control s a s1 ++ tail) → FifoInv t.s →
          FifoInv (trackRun x t (stepEvents x.c x.control s a s1)).1.s) ∧
        ∀ n ∈ (trackRun x t (stepEvents x.c x.control s a s1)).2, n.ok = true := by
    intro ha hev h1 h2 h3
    rw [hev] at hside ⊢
    refine ⟨b, cpl_silent hx h ha hs h1 h2 h3, ?_, hside, fun _ hfi => hfi, fun n hn => by cases hn⟩
    intro hbt
    have hsy := hb hbt
    have : s1 = s := hsy.2 a s1 hs hev
    rw [this]
    exact hsy
  -- a visible step other than `intr`: the monitor is no longer known to be in step
  have visible : ∀ (e : Ev), e ≠ .intr → e ≠ .q → stepEvents x.c x.control s a s1 = [e] →
      (Cpl x s1 (trackFut x t e).1 ∧ ∀ n ∈ (trackFut x t e).2, n.ok = true) →
      (FifoT t (e :: tail) → FifoInv t.s → FifoInv (trackFut x t e).1.s) →
      ∃ b', Cpl x s1 (trackRun x t (stepEvents x.c x.control s a s1)).1 ∧
        (b' = true → Synced x s1 (trackRun x t (stepEvents x.c x.control s a s1)).1) ∧
        IntrSide x b' tail ∧
        (FifoT t (stepEvents x.c x.control s a s1 ++ tail) → FifoInv t.s →
          FifoInv (trackRun x t (stepEvents x.c x.control s a s1)).1.s) ∧
        ∀ n ∈ (trackRun x t (stepEvents x.c x.control s a s1)).2, n.ok = true := by
    intro e he hq hev hres hfifo
    rw [hev] at hside ⊢
    rw [trackRun_singleton]
    refine ⟨false, hres.1, fun hh => absurd hh (by simp), ?_, hfifo, hres.2⟩
    rcases hside with h1 | h1
    · exact Or.inl h1
    · exact Or.inr (intrAtQFrom_single he hq h1)
  cases a with
  | queuerRecv =>
    obtain ⟨_, _, y, rest, _, hs1⟩ := queuerRecv_cases hs
    exact silent ⟨by simp, by simp⟩ rfl (by rw [hs1]) (by rw [hs1]) (by rw [hs1])
  | queuerEnd =>
    obtain ⟨_, _, _, hs1⟩ := queuerEnd_cases hs
    exact silent ⟨by simp, by simp⟩ rfl (by rw [hs1]) (by rw [hs1]) (by rw [hs1])
  | schedEnd =>
    obtain ⟨_, _, _, hs1⟩ := schedEnd_cases hs
    exact silent ⟨by simp, by simp⟩ rfl (by rw [hs1]) (by rw [hs1]) (by rw [hs1])
  | schedPoll =>
    have hint : Action.schedPoll.internal := ⟨by simp, by simp⟩
    rcases internal_step_shape hint hs with ⟨d1, d2⟩ | ⟨g, d1, d2⟩
    · exact silent hint (stepEvents_poll_same x.control d1) d1 d2 (poll_invoked hs)
    · exact visible (.handout g) (by simp) (by simp) (stepEvents_poll_snoc x.control d1)
        (cpl_handout hx hcoop h hs d1 d2 (poll_invoked hs)) (fun _ hfi => fifo_handout hx hcoop h g hfi)
  | invoke f =>
    exact visible (.invoke f) (by simp) (by simp) rfl (cpl_invoke hx h hs)
      (fun hf hfi => fifo_invoke hx h hs hfi (h.fifo_invoke hx hf hs))
  | finish f ok =>
    exact visible (.fin f ok) (by simp) (by simp) rfl (cpl_finish hx h hs)
      (fun _ hfi => fifo_finish hx h hs hfi)
  | interrupt =>
    have hev : stepEvents x.c x.control s .interrupt s1 = [.intr] := rfl
    rw [hev] at hside ⊢
    rw [trackRun_singleton, interrupt_cases hs]
    have hfi' : FifoT t (.intr :: tail) → FifoInv t.s → FifoInv (trackFut x t .intr).1.s := fun _ hfi => hfi
    rcases hside with hst | hq
    · obtain ⟨h1, h2⟩ := cpl_interrupt_non hst h
      exact ⟨false, h1, fun hh => absurd hh (by simp), Or.inl hst, hfi', h2⟩
    · obtain ⟨hbt, hrest⟩ : b = true ∧ intrAtQFrom false tail := hq
      obtain ⟨h1, h2⟩ := cpl_interrupt_sync h (hb hbt).1
      exact ⟨false, h1, fun hh => absurd hh (by simp), Or.inr hrest, hfi', h2⟩
  | ret =>
    obtain ⟨_, _, _, hs1⟩ := ret_cases hs
    have hr1 : s1.result = some (mkRet x.c s) := by rw [hs1]
    obtain ⟨h1, h2⟩ := cpl_ret hx h hs
    cases hm : mkRet x.c s with
    | outcome fnd p np errs =>
      rw [hm] at hr1
      have hev : stepEvents x.c x.control s .ret s1 =
          [.retOutcome fnd p np errs (if x.control then (if (Ret.outcome fnd p np errs).isBreak then "break" else "cont") else "na")] := by
        simp only [stepEvents, hr1]
      rw [hev, trackRun_singleton] at h1 h2
      exact visible _ (by simp) (by simp) hev ⟨h1, h2⟩ (fun _ hfi => fifo_settle hx h hfi)
    | err f =>
      rw [hm] at hr1
      have hev : stepEvents x.c x.control s .ret s1 = [.retErr f] := by
        simp only [stepEvents, hr1]
      rw [hev, trackRun_singleton] at h1 h2
      exact visible _ (by simp) (by simp) hev ⟨h1, h2⟩ (fun _ hfi => fifo_settle hx h hfi)

/-! ### the whole run -/

/-- every note is ok — the note `R-quiesce … invoked` provided closures are started in hand-out order -/
theorem track_gen (hx : GoodCtx x) (hcoop : x.coop = false) {s s' : PState} {evs : List Ev}
    (h : ObsRun x s evs s') : ∀ (t : TrackSt) (b : Bool), Cpl x s t → (b = true → Synced x s t) →
      IntrSide x b evs → ∀ n ∈ (trackRun x t evs).2,
        ((FifoT t evs ∧ FifoInv t.s) → n.ok = true) ∧ (n.ok = true ∨ n.isQInvoked) := by
  induction h with
  | nil s => intro t b _ _ _ n hn; cases hn
  | @step s s1 s' evs a hs hquiet _ ih =>
    intro t b hc hb hside n hn
    obtain ⟨b', hc', hb', hside', hfifo, hnotes⟩ := step_cpl hx hcoop hc hb hs hside
    rw [trackRun_append] at hn
    rcases List.mem_append.mp hn with hn | hn
    · exact ⟨fun _ => hnotes n hn, Or.inl (hnotes n hn)⟩
    · obtain ⟨g1, g2⟩ := ih _ b' hc' hb' hside' n hn
      exact ⟨fun hP => g1 ⟨(fifoT_trackRun x _ _ t).mp hP.1, hfifo hP.1 hP.2⟩, g2⟩
  | @q s s' evs hq hres _ ih =>
    intro t b hc hb hside n hn
    obtain ⟨hc', hsim, hnotes⟩ := cpl_q hx hc hq hres
    rw [trackRun_cons] at hn
    rcases List.mem_append.mp hn with hn | hn
    · obtain ⟨g1, g2⟩ := hnotes n hn
      exact ⟨fun hP => g1 ⟨hP.2, hc.fifo_prefix hx hP.1⟩, g2⟩
    · have hside' : IntrSide x true evs := by
        rcases hside with h1 | h1
        · exact Or.inl h1
        · exact Or.inr h1
      obtain ⟨g1, g2⟩ := ih _ true hc' (fun _ => ⟨hsim, quiet_of_quiescent hq hres⟩) hside' n hn
      exact ⟨fun hP => g1 ⟨(fifoT_cons x t .q evs).mp hP.1, fifo_settle hx hc hP.2⟩, g2⟩

end FG
