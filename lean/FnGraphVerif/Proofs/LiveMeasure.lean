/-
  Proofs/LiveMeasure.lean — what `nextInternal` chooses, that its choice is always enabled, and a
  measure bounded by `settleFuel` that every internal step strictly decreases; hence `settle`
  ends in a quiescent state.
-/
import FnGraphVerif.Proofs.ProtoLive
namespace FG
variable {c : Cfg} {s s' : PState}

theorem nextInternal_cases {a : Action} (h : nextInternal c s = some a) :
    s.result = none ∧
    ((∃ f, a = .invoke f ∧ f ∈ s.inflight ∧ f ∉ s.invoked) ∨
     (a = .queuerRecv ∧ s.qDone = false ∧ s.doneQ ≠ []) ∨
     (a = .queuerEnd ∧ s.qDone = false ∧ s.doneTxOpen = false ∧ s.doneQ = []) ∨
     (a = .schedPoll ∧ ∃ s', step? c s .schedPoll = some s' ∧ s' ≠ s) ∨
     (a = .schedEnd ∧ s.streamEnded = true ∧ s.inflight = [] ∧ s.sDone = false) ∨
     (a = .ret ∧ s.sDone = true ∧ s.qDone = true)) := by
  unfold nextInternal at h
  split at h
  · exact absurd h (by simp)
  · rename_i hres
    simp only [Bool.not_eq_true, Option.isSome_eq_false_iff, Option.isNone_iff_eq_none] at hres
    refine ⟨hres, ?_⟩
    split at h
    · rename_i f hf
      simp only [Option.some.injEq] at h
      have h1 := List.mem_of_find?_eq_some hf
      have h2 := List.find?_some hf
      simp only [decide_eq_true_eq] at h2
      exact Or.inl ⟨f, h.symm, h1, h2⟩
    · split at h
      · rename_i hg
        simp only [Bool.and_eq_true, Bool.not_eq_true', List.isEmpty_eq_false_iff] at hg
        simp only [Option.some.injEq] at h
        exact Or.inr (Or.inl ⟨h.symm, hg.1, hg.2⟩)
      · rename_i hg1
        split at h
        · rename_i hg
          simp only [Bool.and_eq_true, Bool.not_eq_true'] at hg
          simp only [Option.some.injEq] at h
          refine Or.inr (Or.inr (Or.inl ⟨h.symm, hg.1, hg.2, ?_⟩))
          simp only [Bool.and_eq_true, Bool.not_eq_true', List.isEmpty_eq_false_iff, not_and, hg.1,
            true_imp_iff, ne_eq, Decidable.not_not] at hg1
          exact hg1
        · split at h
          · split at h
            · rename_i s1 hs1
              split at h
              · exact absurd h (by simp)
              · rename_i hne
                simp only [Option.some.injEq] at h
                exact Or.inr (Or.inr (Or.inr (Or.inl ⟨h.symm, s1, hs1, hne⟩)))
            · exact absurd h (by simp)
          · split at h
            · rename_i hg
              simp only [Bool.and_eq_true, Bool.not_eq_true', List.isEmpty_iff] at hg
              simp only [Option.some.injEq] at h
              exact Or.inr (Or.inr (Or.inr (Or.inr (Or.inl ⟨h.symm, hg.1.1, hg.1.2, hg.2⟩))))
            · split at h
              · rename_i hg
                simp only [Bool.and_eq_true] at hg
                simp only [Option.some.injEq] at h
                exact Or.inr (Or.inr (Or.inr (Or.inr (Or.inr ⟨h.symm, hg.1, hg.2⟩))))
              · exact absurd h (by simp)

/-- what a state at rest looks like -/
theorem nextInternal_none (h : nextInternal c s = none) (hres : s.result = none) :
    (∀ f ∈ s.inflight, f ∈ s.invoked) ∧
    (s.qDone = true ∨ s.doneQ = []) ∧
    (s.qDone = true ∨ s.doneTxOpen = true) ∧
    (s.sDone = true ∨ s.streamEnded = true ∨ underLimit c s = false ∨
      step? c s .schedPoll = none ∨ step? c s .schedPoll = some s) ∧
    ¬ (s.streamEnded = true ∧ s.inflight = [] ∧ s.sDone = false) ∧
    ¬ (s.sDone = true ∧ s.qDone = true) := by
  unfold nextInternal at h
  simp only [hres, Option.isSome_none, Bool.false_eq_true, if_false] at h
  split at h
  · exact absurd h (by simp)
  · rename_i hfind
    have hall : ∀ f ∈ s.inflight, f ∈ s.invoked := by
      intro f hf
      have := List.find?_eq_none.mp hfind f hf
      simpa using this
    refine ⟨hall, ?_⟩
    split at h
    · exact absurd h (by simp)
    · rename_i hg1
      split at h
      · exact absurd h (by simp)
      · rename_i hg2
        have ha : s.qDone = true ∨ s.doneQ = [] := by
          cases hq : s.qDone with
          | true => exact Or.inl rfl
          | false =>
            right
            simp only [hq, Bool.not_false, Bool.true_and, Bool.not_eq_true', Bool.not_eq_false,
              List.isEmpty_iff] at hg1
            simpa using hg1
        have hb : s.qDone = true ∨ s.doneTxOpen = true := by
          cases hq : s.qDone with
          | true => exact Or.inl rfl
          | false =>
            right
            simpa [hq] using hg2
        refine ⟨ha, hb, ?_⟩
        split at h
        · rename_i hg3
          refine ⟨?_, ?_, ?_⟩
          · split at h
            · rename_i s1 hs1
              split at h
              · rename_i heq
                right; right; right; right
                rw [hs1, heq]
              · exact absurd h (by simp)
            · rename_i hs1
              right; right; right; left; exact hs1
          · simp only [Bool.and_eq_true, Bool.not_eq_true'] at hg3
            intro hh
            rw [hh.1] at hg3
            exact absurd hg3.1.2 (by simp)
          · simp only [Bool.and_eq_true, Bool.not_eq_true'] at hg3
            intro hh
            rw [hh.1] at hg3
            exact absurd hg3.1.1 (by simp)
        · rename_i hg3
          split at h
          · exact absurd h (by simp)
          · rename_i hg4
            split at h
            · exact absurd h (by simp)
            · rename_i hg5
              refine ⟨?_, ?_, ?_⟩
              · cases h1 : s.sDone with
                | true => exact Or.inl rfl
                | false =>
                  cases h2 : s.streamEnded with
                  | true => exact Or.inr (Or.inl rfl)
                  | false =>
                    right; right; left
                    simpa [h1, h2] using hg3
              · intro hh
                apply hg4
                simp [hh.1, hh.2.1, hh.2.2]
              · intro hh
                apply hg5
                simp [hh.1, hh.2]

/-- the action `nextInternal` chooses is enabled -/
theorem nextInternal_enabled {a : Action} (h : nextInternal c s = some a) : ∃ s', step? c s a = some s' := by
  obtain ⟨hres, hcase⟩ := nextInternal_cases h
  rcases hcase with ⟨f, rfl, h1, h2⟩ | ⟨rfl, h1, h2⟩ | ⟨rfl, h1, h2, h3⟩ | ⟨rfl, s1, h1, _⟩ | ⟨rfl, h1, h2, h3⟩ | ⟨rfl, h1, h2⟩
  · simp [step?, h1, h2]
  · cases hq : s.doneQ with
    | nil => exact absurd hq h2
    | cons x rest => simp [step?, h1, hres, hq]
  · simp [step?, h1, h2, h3]
  · exact ⟨s1, h1⟩
  · simp [step?, h1, h2, h3]
  · simp [step?, h1, h2, hres]

theorem settle1_some_iff {a : Action} : settle1 c s = some (a, s') ↔ nextInternal c s = some a ∧ step? c s a = some s' := by
  unfold settle1
  constructor
  · intro h
    split at h
    · exact absurd h (by simp)
    · rename_i a' ha'
      split at h
      · exact absurd h (by simp)
      · rename_i s1 hs1
        simp only [Option.some.injEq, Prod.mk.injEq] at h
        obtain ⟨rfl, rfl⟩ := h
        exact ⟨ha', hs1⟩
  · rintro ⟨h1, h2⟩
    simp [h1, h2]

theorem quiescent_iff : Quiescent c s ↔ nextInternal c s = none := by
  unfold Quiescent settle1
  constructor
  · intro h
    split at h
    · rename_i h1; exact h1
    · rename_i a ha
      obtain ⟨s1, hs1⟩ := nextInternal_enabled ha
      rw [hs1] at h
      exact absurd h (by simp)
  · intro h
    simp [h]

/-! ### the measure -/

/-- every internal action strictly decreases this -/
def mu (c : Cfg) (s : PState) : Nat :=
  (c.n - s.invoked.length) + (c.n - s.released.length) + (bif s.qDone then 0 else 1)
  + 3 * (c.n - (s.handedOut.length + s.dropped.toList.length)) + s.im.pot
  + (bif s.im.ian then 0 else 3) + (bif s.streamEnded then 0 else 3)
  + (bif s.sDone then 0 else 1) + (bif s.result.isSome then 0 else 1)

theorem mu_le (c : Cfg) (s : PState) : mu c s ≤ settleFuel c := by
  unfold mu settleFuel
  have := s.im.pot_le
  cases s.qDone <;> cases s.im.ian <;> cases s.streamEnded <;> cases s.sDone <;> cases s.result.isSome <;>
    simp only [cond_true, cond_false] <;> omega

theorem Inv0.queue_len3 (hinv : Inv0 c s) :
    s.readyQ.length + s.handedOut.length + s.dropped.toList.length ≤ c.n := by
  have h := nodup_bounded_length hinv.queueNodup (n := c.n) (by
    intro x hx
    apply hinv.bound
    rcases List.mem_append.mp hx with hx | hx
    · rcases List.mem_append.mp hx with hx | hx
      · exact Or.inl hx
      · exact Or.inr (Or.inl hx)
    · right; right
      cases hd : s.dropped with
      | none => rw [hd] at hx; simp at hx
      | some d => rw [hd] at hx; simp at hx; rw [hx])
  simpa [List.length_append, Nat.add_assoc] using h

theorem Inv0.invoked_len (hinv : Inv0 c s) : s.invoked.length ≤ c.n :=
  nodup_bounded_length hinv.invNodup (fun x hx => hinv.bound x (Or.inr (Or.inl (hinv.invHanded x hx))))

theorem mu_schedPoll (hinv' : Inv0 c s') (h : step? c s .schedPoll = some s') (hne : s' ≠ s) :
    mu c s' < mu c s := by
  have hlen := hinv'.queue_len3
  obtain ⟨_, hse, _, hcase⟩ := schedPoll_cases h
  obtain ⟨_, _, _, hpot, hpend, hendd, hintNone, hintSome, hnoInt⟩ :=
    pollNext_spec c.strat s.im (readyUnder s)
  generalize pollNext c.strat s.im (readyUnder s) = r at *
  obtain ⟨m, out⟩ := r
  simp only at hpot hpend hendd hintNone hintSome hnoInt hcase
  rcases hcase with ⟨ho, rfl⟩ | ⟨ho, rfl⟩ | ⟨ho, rfl⟩ | ⟨ho, f, rest, hq, rfl⟩ | ⟨ho, f, rest, hq, ⟨hincl, rfl⟩ | ⟨hincl, rfl⟩⟩
  · obtain ⟨_, hian, hp⟩ := hpend ho
    have hp' : m.pot < s.im.pot := by
      rcases hp with hp | hp
      · exfalso; apply hne; rw [hp]
      · exact hp
    simp only [mu, hian]
    omega
  · obtain ⟨hian, _⟩ := hendd ho
    simp only [mu, hian, hse, cond_true, cond_false]
    omega
  · obtain ⟨hian0, hian⟩ := hintNone ho
    simp only [mu, hian, hian0, cond_true, cond_false]
    omega
  · obtain ⟨hian, _⟩ := hnoInt ho
    simp only [handOut, List.length_append, List.length_cons, List.length_nil] at hlen
    simp only [mu, handOut, hian, List.length_append, List.length_cons, List.length_nil]
    omega
  · obtain ⟨hian0, hian, _⟩ := hintSome ho
    simp only [handOut, List.length_append, List.length_cons, List.length_nil] at hlen
    simp only [mu, handOut, hian, hian0, List.length_append, List.length_cons, List.length_nil,
      cond_true, cond_false]
    omega
  · obtain ⟨hian0, hian, _⟩ := hintSome ho
    simp only [Option.toList_some, List.length_cons, List.length_nil] at hlen
    have hd : s.dropped.toList.length ≤ 1 := by cases s.dropped <;> simp
    simp only [mu, hian, hian0, Option.toList_some, List.length_cons, List.length_nil,
      cond_true, cond_false]
    omega

theorem mu_decreases (hinv' : Inv0 c s') {a : Action} (h : settle1 c s = some (a, s')) : mu c s' < mu c s := by
  obtain ⟨hn, hstep⟩ := settle1_some_iff.mp h
  obtain ⟨hres, hcase⟩ := nextInternal_cases hn
  rcases hcase with ⟨f, rfl, _, _⟩ | ⟨rfl, _, _⟩ | ⟨rfl, hqd, _, _⟩ | ⟨rfl, s1, h1, hne⟩ | ⟨rfl, _, _, hsd⟩ | ⟨rfl, _, _⟩
  · have hlen := hinv'.invoked_len
    obtain ⟨_, _, rfl⟩ := invoke_cases hstep
    simp only [List.length_append, List.length_cons, List.length_nil] at hlen
    simp only [mu, List.length_append, List.length_cons, List.length_nil]
    omega
  · have hlen := hinv'.qRem
    obtain ⟨_, _, x, rest, _, rfl⟩ := queuerRecv_cases hstep
    simp only [List.length_append, List.length_cons, List.length_nil] at hlen
    simp only [mu, List.length_append, List.length_cons, List.length_nil]
    omega
  · obtain ⟨_, _, _, rfl⟩ := queuerEnd_cases hstep
    simp only [mu, hqd, cond_true, cond_false]
    omega
  · rw [h1] at hstep
    simp only [Option.some.injEq] at hstep
    subst hstep
    exact mu_schedPoll hinv' h1 hne
  · obtain ⟨_, _, _, rfl⟩ := schedEnd_cases hstep
    simp only [mu, hsd, cond_true, cond_false]
    omega
  · obtain ⟨_, _, _, rfl⟩ := ret_cases hstep
    simp only [mu, hres, Option.isSome_none, Option.isSome_some, cond_true, cond_false]
    omega

/-! ### `settle` -/

theorem settle1_step {a : Action} (h : settle1 c s = some (a, s')) : step? c s a = some s' :=
  (settle1_some_iff.mp h).2

theorem settleN_reachable (k : Nat) : ∀ {s : PState}, Reachable c s → Reachable c (settleN c k s) := by
  induction k with
  | zero => intro s hr; exact hr
  | succ k ih =>
    intro s hr
    unfold settleN
    split
    · exact hr
    · rename_i a s1 h1
      exact ih (Reachable.step a hr (settle1_step h1))

theorem settleN_quiescent (hc : GoodCfg c) (k : Nat) :
    ∀ {s : PState}, Reachable c s → mu c s ≤ k → Quiescent c (settleN c k s) := by
  induction k with
  | zero =>
    intro s hr hk
    unfold settleN Quiescent
    cases h : settle1 c s with
    | none => rfl
    | some p =>
      obtain ⟨a, s1⟩ := p
      have hr1 := Reachable.step a hr (settle1_step h)
      have := mu_decreases (inv0_reachable hc hr1) h
      omega
  | succ k ih =>
    intro s hr hk
    unfold settleN
    split
    · rename_i h; exact h
    · rename_i a s1 h1
      have hr1 := Reachable.step a hr (settle1_step h1)
      have := mu_decreases (inv0_reachable hc hr1) h1
      exact ih hr1 (by omega)

/-- the actions `settle` performs, as a `run` -/
def Action.internal (a : Action) : Prop := a ≠ .interrupt ∧ ∀ f ok, a ≠ .finish f ok

theorem nextInternal_internal {a : Action} (h : nextInternal c s = some a) : a.internal := by
  obtain ⟨_, hcase⟩ := nextInternal_cases h
  rcases hcase with ⟨f, rfl, _⟩ | ⟨rfl, _⟩ | ⟨rfl, _⟩ | ⟨rfl, _⟩ | ⟨rfl, _⟩ | ⟨rfl, _⟩ <;>
    exact ⟨by simp, by simp⟩

theorem settleN_run (k : Nat) : ∀ s : PState, ∃ as, (∀ a ∈ as, a.internal) ∧ run c s as = some (settleN c k s) := by
  induction k with
  | zero => intro s; exact ⟨[], by simp, rfl⟩
  | succ k ih =>
    intro s
    unfold settleN
    split
    · exact ⟨[], by simp, rfl⟩
    · rename_i a s1 h1
      obtain ⟨as, has, hrun⟩ := ih s1
      obtain ⟨hn, hs⟩ := settle1_some_iff.mp h1
      refine ⟨a :: as, ?_, ?_⟩
      · intro b hb
        rcases List.mem_cons.mp hb with rfl | hb
        · exact nextInternal_internal hn
        · exact has b hb
      · simp only [run, hs]
        exact hrun

theorem run_append_G {as bs : List Action} {s1 : PState} (h : run c s as = some s1) :
    run c s (as ++ bs) = run c s1 bs := by
  induction as generalizing s with
  | nil => simp only [run, Option.some.injEq] at h; subst h; rfl
  | cons a as ih =>
    simp only [run, List.cons_append] at h ⊢
    cases hs2 : step? c s a with
    | none => rw [hs2] at h; exact absurd h (by simp)
    | some s2 =>
      rw [hs2] at h
      exact ih h

end FG
