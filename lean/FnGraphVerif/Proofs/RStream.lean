/-
  Proofs/RStream.lean — what one poll of the stream model (`sipoll`) does to the fields the
  monitors look at, in terms of the observation `pollObsOf` the harness would log.
-/
import FnGraphVerif.Proofs.TraceDefs
import FnGraphVerif.Proofs.StreamInv
import FnGraphVerif.Proofs.IntrMachine
namespace FG

/-- the fields of the stream state that only yields / drops / the stream drop change -/
structure SKeep (s d : SState) : Prop where
  yielded : d.yielded = s.yielded
  live : d.live = s.live
  droppedRefs : d.droppedRefs = s.droppedRefs
  streamDropped : d.streamDropped = s.streamDropped

theorem SKeep.refl (s : SState) : SKeep s s := ⟨rfl, rfl, rfl, rfl⟩

theorem SKeep.trans {a b c : SState} (h1 : SKeep a b) (h2 : SKeep b c) : SKeep a c :=
  ⟨h2.yielded.trans h1.yielded, h2.live.trans h1.live, h2.droppedRefs.trans h1.droppedRefs,
   h2.streamDropped.trans h1.streamDropped⟩

theorem sDrain_keep (c : Cfg) (k : Nat) (s : SState) : SKeep s (sDrain c k s) := by
  induction k generalizing s with
  | zero => exact SKeep.refl s
  | succ k ih =>
    unfold sDrain
    split
    · rename_i x rest _
      exact SKeep.trans (b := sRelease c s x rest) ⟨rfl, rfl, rfl, rfl⟩ (ih _)
    · split
      · exact ⟨rfl, rfl, rfl, rfl⟩
      · exact SKeep.refl s

theorem sRecvOnce_keep (c : Cfg) (s : SState) : SKeep s (sRecvOnce c s) := by
  unfold sRecvOnce
  split
  · exact ⟨rfl, rfl, rfl, rfl⟩
  · split
    · exact ⟨rfl, rfl, rfl, rfl⟩
    · exact SKeep.refl s

/-- what the underlying stream yields -/
def PollRes.ys : PollRes → List Nat
  | .some f => [f]
  | _ => []

theorem spoll_keep (c : Cfg) (drain : Bool) (s : SState) :
    (spoll c drain s).1.yielded = s.yielded ++ (spoll c drain s).2.ys ∧
    (spoll c drain s).1.live = s.live ++ (spoll c drain s).2.ys ∧
    (spoll c drain s).1.droppedRefs = s.droppedRefs ∧
    (spoll c drain s).1.streamDropped = s.streamDropped := by
  have hpre : SKeep s (if drain then sDrain c (({ s with wake := false } : SState).doneQ.length + 1)
        { s with wake := false } else sRecvOnce c { s with wake := false }) := by
    cases drain
    · simp only [Bool.false_eq_true, if_false]
      exact SKeep.trans (b := { s with wake := false }) ⟨rfl, rfl, rfl, rfl⟩ (sRecvOnce_keep c _)
    · simp only [if_true]
      exact SKeep.trans (b := { s with wake := false }) ⟨rfl, rfl, rfl, rfl⟩ (sDrain_keep c _ _)
  unfold spoll
  simp only
  generalize (if drain then sDrain c (({ s with wake := false } : SState).doneQ.length + 1)
        { s with wake := false } else sRecvOnce c { s with wake := false }) = t at hpre ⊢
  obtain ⟨h1, h2, h3, h4⟩ := hpre
  split
  · split
    · simp [PollRes.ys, h1, h2, h3, h4]
    · simp [PollRes.ys, h1, h2, h3, h4]
  · simp [PollRes.ys, h1, h2, h3, h4]

/-- what a poll observation says was yielded -/
def PollObs.ys : PollObs → List Nat
  | .some f => [f]
  | .isome f => [f]
  | _ => []

theorem out_not_item {o : Out} (h : o.isItem = false) : o = .intNone ∨ o = .endd ∨ o = .pending := by
  cases o <;> simp_all [Out.isItem]

theorem out_item {o : Out} (h : o.isItem = true) : o = .noInt ∨ o = .intSome := by
  cases o <;> simp_all [Out.isItem]

/-- **one poll of the model, as the harness sees it**: the observation is never `panic`; the state
    changes by exactly the yield the observation shows. -/
theorem sipoll_obs (c : Cfg) (drain : Bool) (s : SState) :
    ∃ ys : List Nat,
      (sipoll c drain s).1.yielded = s.yielded ++ ys ∧
      (sipoll c drain s).1.live = s.live ++ ys ∧
      (sipoll c drain s).1.droppedRefs = s.droppedRefs ∧
      (sipoll c drain s).1.streamDropped = s.streamDropped ∧
      (sipoll c drain s).1.lastPending = decide ((sipoll c drain s).2.1 = .pending) ∧
      ((∃ f, ys = [f] ∧ (sipoll c drain s).2.2 = some f ∧
          (((sipoll c drain s).2.1 = .noInt ∧
            pollObsOf (sipoll c drain s).2.1 (sipoll c drain s).2.2 (sipoll c drain s).1.wake = .some f) ∨
           ((sipoll c drain s).2.1 = .intSome ∧
            pollObsOf (sipoll c drain s).2.1 (sipoll c drain s).2.2 (sipoll c drain s).1.wake = .isome f))) ∨
       (ys = [] ∧
          (((sipoll c drain s).2.1 = .intNone ∧
            pollObsOf (sipoll c drain s).2.1 (sipoll c drain s).2.2 (sipoll c drain s).1.wake = .inone) ∨
           ((sipoll c drain s).2.1 = .endd ∧
            pollObsOf (sipoll c drain s).2.1 (sipoll c drain s).2.2 (sipoll c drain s).1.wake = .none) ∨
           ((sipoll c drain s).2.1 = .pending ∧
            pollObsOf (sipoll c drain s).2.1 (sipoll c drain s).2.2 (sipoll c drain s).1.wake =
              .pending (sipoll c drain s).1.wake)))) := by
  by_cases hp : pollsInner c.strat s.im = true
  · obtain ⟨k1, k2, k3, k4⟩ := spoll_keep c drain s
    have hi := pollNext_isItem_polled c.strat s.im (underOf (spoll c drain s).2) hp
    unfold sipoll
    simp only [hp, if_true]
    revert k1 k2 k3 k4 hi
    generalize spoll c drain s = r
    obtain ⟨t, res⟩ := r
    intro k1 k2 k3 k4 hi
    refine ⟨res.ys, k1, k2, k3, k4, by simp, ?_⟩
    cases res with
    | some f =>
      left
      refine ⟨f, rfl, rfl, ?_⟩
      have hi' : (pollNext c.strat s.im .item).2.isItem = true := by simpa [underOf] using hi
      rcases out_item hi' with h | h
      · left; simp [h, pollObsOf]
      · right; simp [h, pollObsOf]
    | none =>
      right
      refine ⟨rfl, ?_⟩
      have hi' : (pollNext c.strat s.im .none).2.isItem = false := by simpa [underOf] using hi
      rcases out_not_item hi' with h | h | h
      · left; simp [h, pollObsOf]
      · right; left; simp [h, pollObsOf]
      · right; right; simp [h, pollObsOf]
    | pending =>
      right
      refine ⟨rfl, ?_⟩
      have hi' : (pollNext c.strat s.im .pending).2.isItem = false := by simpa [underOf] using hi
      rcases out_not_item hi' with h | h | h
      · left; simp [h, pollObsOf]
      · right; left; simp [h, pollObsOf]
      · right; right; simp [h, pollObsOf]
  · have hp' : pollsInner c.strat s.im = false := by simpa using hp
    have hi := pollNext_isItem_unpolled c.strat s.im .pending hp'
    unfold sipoll
    simp only [hp', Bool.false_eq_true, if_false]
    refine ⟨[], by simp, by simp, by simp, by simp, by simp, ?_⟩
    right
    refine ⟨rfl, ?_⟩
    rcases out_not_item hi with h | h | h
    · left; simp [h, pollObsOf]
    · right; left; simp [h, pollObsOf]
    · right; right; simp [h, pollObsOf]

end FG
