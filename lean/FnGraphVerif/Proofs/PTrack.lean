/-
  Proofs/PTrack.lean — the building blocks of the tracking monitor as runs of the model:
  `advanceUntil`, `settleN`, `settle` perform internal (non-external) model actions only;
  the list of hand-outs only grows along a run.  Helper of `Theorems/MonitorSound.lean`.
-/
import FnGraphVerif.Proofs.TraceDefs
import FnGraphVerif.Proofs.LiveMeasure
namespace FG
variable {c : Cfg} {s s' : PState}

theorem Action.internal.notExternal {a : Action} (h : a.internal) : a.isExternal = false := by
  cases a with
  | finish f ok => exact absurd rfl (h.2 f ok)
  | interrupt => exact absurd rfl h.1
  | _ => rfl

theorem Action.internal_iff {a : Action} : a.internal ↔ a.isExternal = false := by
  constructor
  · exact Action.internal.notExternal
  · intro h
    cases a with
    | finish f ok => exact absurd h (by simp [Action.isExternal])
    | interrupt => exact absurd h (by simp [Action.isExternal])
    | _ => exact ⟨by simp, by simp⟩

theorem filter_external_nil {as : List Action} (h : ∀ a ∈ as, a.isExternal = false) :
    as.filter Action.isExternal = [] := by
  apply List.filter_eq_nil_iff.mpr
  intro a ha
  rw [h a ha]
  simp

theorem settle1_notExternal {a : Action} (h : settle1 c s = some (a, s')) : a.isExternal = false :=
  (nextInternal_internal (settle1_some_iff.mp h).1).notExternal

/-- **1.** the monitor's `advanceUntil` only performs internal model actions -/
theorem advanceUntil_run (c : Cfg) (p : PState → Bool) (k : Nat) (s : PState) :
    ∃ as, (∀ a ∈ as, a.isExternal = false) ∧ run c s as = some (advanceUntil c p k s).1 := by
  induction k generalizing s with
  | zero => exact ⟨[], by simp, rfl⟩
  | succ k ih =>
    unfold advanceUntil
    split
    · exact ⟨[], by simp, rfl⟩
    · split
      · exact ⟨[], by simp, rfl⟩
      · rename_i a s1 h1
        obtain ⟨as, has, hrun⟩ := ih s1
        refine ⟨a :: as, ?_, ?_⟩
        · intro b hb
          rcases List.mem_cons.mp hb with rfl | hb
          · exact settle1_notExternal h1
          · exact has b hb
        · simp only [run, settle1_step h1]
          exact hrun

/-- when `advanceUntil` says `true` the predicate holds of the state it stopped in -/
theorem advanceUntil_true (c : Cfg) (p : PState → Bool) (k : Nat) (s : PState)
    (h : (advanceUntil c p k s).2 = true) : p (advanceUntil c p k s).1 = true := by
  induction k generalizing s with
  | zero => exact h
  | succ k ih =>
    unfold advanceUntil at h ⊢
    split
    · rename_i hp; exact hp
    · rename_i hp
      simp only [hp] at h
      split
      · rename_i h1; simp [h1] at h
      · rename_i a s1 h1
        simp only [h1] at h
        exact ih s1 h

/-- the same for `settleN` / `settle` (restating `settleN_run` with `isExternal`) -/
theorem settleN_run' (c : Cfg) (k : Nat) (s : PState) :
    ∃ as, (∀ a ∈ as, a.isExternal = false) ∧ run c s as = some (settleN c k s) := by
  obtain ⟨as, has, hrun⟩ := settleN_run (c := c) k s
  exact ⟨as, fun a ha => (has a ha).notExternal, hrun⟩

theorem settle_run' (c : Cfg) (s : PState) :
    ∃ as, (∀ a ∈ as, a.isExternal = false) ∧ run c s as = some (settle c s) :=
  settleN_run' c _ s

/-! ### hand-outs only grow -/

theorem step_handedOut_prefix {a : Action} (h : step? c s a = some s') : s.handedOut <+: s'.handedOut := by
  cases a with
  | queuerRecv => obtain ⟨_, _, x, rest, _, rfl⟩ := queuerRecv_cases h; exact List.prefix_refl _
  | queuerEnd => obtain ⟨_, _, _, rfl⟩ := queuerEnd_cases h; exact List.prefix_refl _
  | schedPoll =>
    obtain ⟨_, _, _, hcase⟩ := schedPoll_cases h
    rcases hcase with ⟨_, rfl⟩ | ⟨_, rfl⟩ | ⟨_, rfl⟩ | ⟨_, f, rest, _, rfl⟩ | ⟨_, f, rest, _, ⟨_, rfl⟩ | ⟨_, rfl⟩⟩
    · exact List.prefix_refl _
    · exact List.prefix_refl _
    · exact List.prefix_refl _
    · exact List.prefix_append _ _
    · exact List.prefix_append _ _
    · exact List.prefix_refl _
  | invoke f => obtain ⟨_, _, rfl⟩ := invoke_cases h; exact List.prefix_refl _
  | finish f ok =>
    cases ok with
    | true => obtain ⟨_, _, rfl⟩ := finishOk_cases h; exact List.prefix_refl _
    | false =>
      obtain ⟨_, _, ⟨_, rfl⟩ | ⟨_, rfl⟩⟩ := finishErr_cases h <;> exact List.prefix_refl _
  | interrupt => rw [interrupt_cases h]
  | schedEnd => obtain ⟨_, _, _, rfl⟩ := schedEnd_cases h; exact List.prefix_refl _
  | ret => obtain ⟨_, _, _, rfl⟩ := ret_cases h; exact List.prefix_refl _

theorem run_handedOut_prefix {as : List Action} : ∀ {s s' : PState},
    run c s as = some s' → s.handedOut <+: s'.handedOut := by
  induction as with
  | nil => intro s s' h; simp only [run, Option.some.injEq] at h; rw [h]
  | cons a as ih =>
    intro s s' h
    simp only [run] at h
    cases hs : step? c s a with
    | none => rw [hs] at h; exact absurd h (by simp)
    | some s1 =>
      rw [hs] at h
      exact (step_handedOut_prefix hs).trans (ih h)

theorem advanceUntil_handedOut_prefix (c : Cfg) (p : PState → Bool) (k : Nat) (s : PState) :
    s.handedOut <+: (advanceUntil c p k s).1.handedOut := by
  obtain ⟨as, _, hrun⟩ := advanceUntil_run c p k s
  exact run_handedOut_prefix hrun

/-- the same for the list of invocations -/
theorem step_invoked_prefix {a : Action} (h : step? c s a = some s') : s.invoked <+: s'.invoked := by
  cases a with
  | queuerRecv => obtain ⟨_, _, x, rest, _, rfl⟩ := queuerRecv_cases h; exact List.prefix_refl _
  | queuerEnd => obtain ⟨_, _, _, rfl⟩ := queuerEnd_cases h; exact List.prefix_refl _
  | schedPoll =>
    obtain ⟨_, _, _, hcase⟩ := schedPoll_cases h
    rcases hcase with ⟨_, rfl⟩ | ⟨_, rfl⟩ | ⟨_, rfl⟩ | ⟨_, f, rest, _, rfl⟩ | ⟨_, f, rest, _, ⟨_, rfl⟩ | ⟨_, rfl⟩⟩ <;>
      exact List.prefix_refl _
  | invoke f => obtain ⟨_, _, rfl⟩ := invoke_cases h; exact List.prefix_append _ _
  | finish f ok =>
    cases ok with
    | true => obtain ⟨_, _, rfl⟩ := finishOk_cases h; exact List.prefix_refl _
    | false =>
      obtain ⟨_, _, ⟨_, rfl⟩ | ⟨_, rfl⟩⟩ := finishErr_cases h <;> exact List.prefix_refl _
  | interrupt => rw [interrupt_cases h]
  | schedEnd => obtain ⟨_, _, _, rfl⟩ := schedEnd_cases h; exact List.prefix_refl _
  | ret => obtain ⟨_, _, _, rfl⟩ := ret_cases h; exact List.prefix_refl _

theorem run_invoked_prefix {as : List Action} : ∀ {s s' : PState},
    run c s as = some s' → s.invoked <+: s'.invoked := by
  induction as with
  | nil => intro s s' h; simp only [run, Option.some.injEq] at h; rw [h]
  | cons a as ih =>
    intro s s' h
    simp only [run] at h
    cases hs : step? c s a with
    | none => rw [hs] at h; exact absurd h (by simp)
    | some s1 =>
      rw [hs] at h
      exact (step_invoked_prefix hs).trans (ih h)

theorem run_snoc {as : List Action} {a : Action} {s1 s2 : PState} (h : run c s as = some s1)
    (h2 : step? c s1 a = some s2) : run c s (as ++ [a]) = some s2 := by
  rw [run_append_G h]
  simp only [run, h2]

end FG
