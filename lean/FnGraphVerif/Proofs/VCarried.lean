/-
  Proofs/VCarried.lean — model facts for runs that start from a CARRIED `InterruptibilityState`
  (`initWith c s0 r0 k0`, `ReachableW`; `Proofs/TBase.lean`) that `Theorems/CarriedMonitor.lean`
  needs and that were only available for `Reachable` (runs from `init`):

  * the full invariant `Inv` (under `ApiOk`), `inv_reachableW`;
  * `SeqLast` (sequential runs: the function in flight is the last one invoked) and
    `shortCircuit_first_errorW`;
  * work conservation from the invariants alone (`idle_under_limit_of_inv`: the proof of
    `Proofs/UIdle.lean` uses only `Inv0` and `LInv`);
  * `PreI` of a carried start without signal (`s0 = r0 = false`, any carried count `k0`).
-/
import FnGraphVerif.Theorems.CarriedIntr
import FnGraphVerif.Proofs.QBase
import FnGraphVerif.Proofs.UIdle
namespace FG

variable {c : Cfg} {s s' s₀ : PState} {s0 r0 : Bool} {k0 : Nat}

/-! ### the full invariant -/

/-- `Inv` does not mention `im` -/
theorem inv_initWith (hc : GoodCfg c) (s0 r0 : Bool) (k0 : Nat) : Inv c (initWith c s0 r0 k0) :=
  { inv_init hc with }

theorem inv_reachableFrom (hc : GoodCfg c) (hapi : c.ApiOk) (h0 : Inv c s₀) (hr : ReachableFrom c s₀ s) :
    Inv c s := by
  induction hr with
  | refl => exact h0
  | step a _ h ih => exact inv_step hc hapi ih h

theorem inv_reachableW (hc : GoodCfg c) (hapi : c.ApiOk) (hr : ReachableW c s0 r0 k0 s) : Inv c s :=
  inv_reachableFrom hc hapi (inv_initWith hc s0 r0 k0) hr

/-- **C04** with `ApiOk`, carried start: when the call has returned nothing is in flight -/
theorem return_no_inflight_allW (hc : GoodCfg c) (hapi : c.ApiOk) (hr : ReachableW c s0 r0 k0 s)
    (h : s.result.isSome = true) : s.inflight = [] := by
  have hinv := inv_reachableW hc hapi hr
  obtain ⟨r, hres⟩ := Option.isSome_iff_exists.mp h
  exact hinv.sDoneInfl (hinv.retFrozen r hres).2.1

/-! ### sequential runs: the function in flight is the last one invoked -/

theorem seqLast_initWith (c : Cfg) (s0 r0 : Bool) (k0 : Nat) : SeqLast (initWith c s0 r0 k0) :=
  ⟨by simp [initWith, init], by simp [initWith, init]⟩

/-- `seqLast_step` (`Proofs/QBase.lean`) from the invariant instead of `Reachable` -/
theorem seqLast_step_of_inv (hseq : c.sequential = true) (hinv : Inv c s) {a : Action}
    (hi : SeqLast s) (h : step? c s a = some s') : SeqLast s' := by
  cases a with
  | queuerRecv => obtain ⟨x, rest, _, rfl⟩ := step_queuerRecv h; exact ⟨hi.infl, hi.short⟩
  | queuerEnd => obtain ⟨_, _, _, rfl⟩ := queuerEnd_cases h; exact ⟨hi.infl, hi.short⟩
  | schedEnd => obtain ⟨_, _, _, rfl⟩ := schedEnd_cases h; exact ⟨hi.infl, hi.short⟩
  | ret => obtain ⟨_, _, _, rfl⟩ := ret_cases h; exact ⟨hi.infl, hi.short⟩
  | interrupt => have := interrupt_cases h; subst this; exact ⟨hi.infl, hi.short⟩
  | schedPoll =>
    obtain ⟨_, _, h3⟩ := step_schedPoll_F h
    rcases h3 with ⟨m, se, rx, dtx, rfl⟩ | ⟨m, ca, f, rest, hq, rfl⟩ | ⟨m, f, rest, hq, rfl⟩
    · exact ⟨hi.infl, hi.short⟩
    · refine ⟨?_, hi.short⟩
      intro g hg hgi
      simp only [handOut, List.mem_append, List.mem_singleton] at hg
      rcases hg with hg | rfl
      · exact hi.infl g hg hgi
      · exact absurd (hinv.invHanded g hgi) (hinv.to0.head_not_handed hq).2.1
    · exact ⟨hi.infl, hi.short⟩
  | invoke f =>
    obtain ⟨hf1, hf2, rfl⟩ := invoke_cases h
    refine ⟨?_, ?_⟩
    · intro g hg _
      have hlen := hinv.limSeq hseq
      have : g = f := by
        cases hinf : s.inflight with
        | nil => rw [hinf] at hg; cases hg
        | cons a l =>
          rw [hinf] at hlen hg hf1
          simp only [List.length_cons] at hlen
          have hl : l = [] := List.eq_nil_of_length_eq_zero (by omega)
          subst hl
          simp only [List.mem_singleton] at hg hf1
          rw [hg, hf1]
      subst this
      simp
    · intro g hg
      have hsd := hinv.shortDone (by rw [hg]; rfl)
      have := hinv.sDoneInfl hsd
      rw [this] at hf1
      cases hf1
  | finish f ok =>
    obtain ⟨hf1, hf2, h3⟩ := step_finish h
    rcases h3 with ⟨_, dq, _, rfl⟩ | ⟨_, _, rfl⟩ | ⟨_, _, rfl⟩
    · exact ⟨fun g hg => hi.infl g (List.mem_of_mem_erase hg), hi.short⟩
    · exact ⟨fun g hg => hi.infl g (List.mem_of_mem_erase hg), hi.short⟩
    · refine ⟨fun g hg => hi.infl g (List.mem_of_mem_erase hg), ?_⟩
      intro g hg
      simp only [Option.some.injEq] at hg
      subst hg
      exact hi.infl f hf1 hf2

theorem seqLast_reachableW (hc : GoodCfg c) (hseq : c.sequential = true) (hr : ReachableW c s0 r0 k0 s) :
    SeqLast s := by
  induction hr with
  | refl => exact seqLast_initWith c s0 r0 k0
  | step a hr' h ih => exact seqLast_step_of_inv hseq (inv_reachableW hc (fun _ => hseq) hr') ih h

/-- **C07** (`try_fold_async*` returns the first error), carried start -/
theorem shortCircuit_first_errorW (hc : GoodCfg c) (hapi : c.ApiOk) (hr : ReachableW c s0 r0 k0 s) {f : Nat}
    (hf : s.shortErr = some f) :
    c.errMode = .shortCircuit ∧ s.failed = [f] ∧ s.sDone = true ∧ step? c s .schedPoll = none ∧
    (∀ r, s.result = some r → r = .err f) := by
  have hinv := inv_reachableW hc hapi hr
  have hsome : s.shortErr.isSome = true := by rw [hf]; rfl
  have hm := hinv.shortOnly hsome
  have hsd := hinv.shortDone hsome
  refine ⟨hm, ?_, hsd, ?_, ?_⟩
  · have := hinv.short hm; rw [hf] at this; exact this
  · simp [step?, hsd]
  · intro r hres
    have := (hinv.retFrozen r hres).1
    rw [this]; unfold mkRet; rw [hf]

/-! ### work conservation from the invariants -/

/-- `idle_under_limit_all_started` (`Proofs/UIdle.lean`) from `Inv0` and `LInv` instead of
    `Reachable`: clean run (no signal sent or received, no failure), quiescent, the limit is not what
    keeps the scheduler from polling: every function whose scheduling-graph predecessors have all
    returned ok has been handed out and invoked. -/
theorem idle_under_limit_of_inv (hinv : Inv0 c s) (hl : LInv c s) (hq : Quiescent c s)
    (hul : underLimit c s = true)
    (hni : s.im.sent = false ∧ s.im.recv = false) (hf : s.failed = [])
    {v : Nat} (hv : v < c.n) (hp : ∀ p ∈ parents c.D v, p ∈ s.endedOk) :
    v ∈ s.handedOut ∧ v ∈ s.invoked := by
  by_cases hs0 : s.sRemaining = 0
  · have := hinv.all_ended hs0 hf hv
    exact ⟨hinv.endedHanded v (Or.inl this), hinv.endedInvoked v (Or.inl this)⟩
  · have hnp : ¬ PDone s := by
      intro h
      rcases h with h | h | h
      · exact hs0 h
      · exact h hf
      · rw [hni.2] at h; exact absurd h (by simp)
    have hdt : s.doneTxOpen = true := by
      cases h : s.doneTxOpen with
      | true => rfl
      | false => exact absurd (hl.whyClosed h) hnp
    have hqd : s.qDone = false := by
      cases h : s.qDone with
      | false => rfl
      | true => exact absurd (hl.qDone_pdone h) hnp
    have hrt : s.readyTxOpen = true := by
      cases h : s.readyTxOpen with
      | true => rfl
      | false => exact absurd (hl.rtx_pdone hinv h) hnp
    have hse : s.streamEnded = false := by
      cases h : s.streamEnded with
      | false => rfl
      | true => exact absurd (hl.ended_pdone hinv h) hnp
    have hsd : s.sDone = false := by
      cases h : s.sDone with
      | false => rfl
      | true => exact absurd (hl.sDone_pdone hinv h) hnp
    have hres : s.result = none := by
      cases h : s.result with
      | none => rfl
      | some r => have := (hinv.ret0 r h).1; rw [hsd] at this; exact absurd this (by simp)
    have hrx : s.readyRxOpen = true := by
      cases h : s.readyRxOpen with
      | true => rfl
      | false =>
        rcases hl.rrx h with h | h
        · rw [hse] at h; exact absurd h (by simp)
        · rw [hsd] at h; exact absurd h (by simp)
    obtain ⟨hallinv, ha, _, hpoll, _, _⟩ := nextInternal_none (quiescent_iff.mp hq) hres
    have hdq : s.doneQ = [] := by
      rcases ha with h | h
      · rw [hqd] at h; exact absurd h (by simp)
      · exact h
    have hstuck : step? c s .schedPoll = none ∨ step? c s .schedPoll = some s := by
      rcases hpoll with h | h | h | h
      · rw [hsd] at h; exact absurd h (by simp)
      · rw [hse] at h; exact absurd h (by simp)
      · rw [hul] at h; exact absurd h (by simp)
      · exact h
    obtain ⟨hrq, _⟩ := poll_stuck hsd hse hul hstuck
    have hpar : ∀ p ∈ parents c.D v, p ∈ s.released := by
      intro p hpp
      rcases hl.sent hdt p (hp p hpp) with h | h
      · exact h
      · rw [hdq] at h; exact absurd h (by simp)
    have hho : v ∈ s.handedOut := by
      rcases hl.complete hrx (Or.inl hrt) v hv hpar with h | h | h
      · rw [hrq] at h; exact absurd h (by simp)
      · exact h
      · have := hl.imOk.2 (hl.dropIan (by rw [h]; rfl))
        rw [hni.2] at this; exact absurd this (by simp)
    refine ⟨hho, ?_⟩
    rcases hinv.handedSplit v hho with h | h | h
    · exact hallinv v h
    · exact hinv.endedInvoked v (Or.inl h)
    · exact hinv.endedInvoked v (Or.inr h)

/-- **C10 / C06** (work conservation) for runs with carried interrupt state -/
theorem idle_under_limit_all_startedW (hc : GoodCfg c) (hr : ReachableW c s0 r0 k0 s) (hq : Quiescent c s)
    (hul : underLimit c s = true)
    (hni : s.im.sent = false ∧ s.im.recv = false) (hf : s.failed = [])
    {v : Nat} (hv : v < c.n) (hp : ∀ p ∈ parents c.D v, p ∈ s.endedOk) :
    v ∈ s.handedOut ∧ v ∈ s.invoked :=
  idle_under_limit_of_inv (inv0_reachableW hc hr) (linv_reachableW hc hr) hq hul hni hf hv hp

/-! ### no signal: a carried count alone -/

theorem preI_initWith (c : Cfg) (k0 : Nat) : PreI (initWith c false false k0).im := ⟨rfl, rfl, rfl, rfl⟩

/-- a run without `interrupt` from a carried start without signal never sees a signal -/
theorem run_preI_W {as : List Action} (hni : ∀ a ∈ as, a ≠ Action.interrupt)
    (h : run c (initWith c false false k0) as = some s) : s.im.sent = false ∧ s.im.recv = false := by
  have := run_preI hni (preI_initWith c k0) h
  exact ⟨this.1, this.2.1⟩

end FG
