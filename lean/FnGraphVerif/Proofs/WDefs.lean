/-
  Proofs/WDefs.lean — the interruptible streams (`stream_interruptible` /
  `stream_with_interruptible`) at MICRO-step granularity: the `InterruptibleStream` wrapper of
  `Model/Interrupt.lean` around the micro-step poll of `Model/StreamMicro.lean`.

  One `poll_next` of the wrapper is

      check ; [ pollBegin ; drainStep* ; readyStep ; finish ]

  * `check`   = `interruptCheck` (the `try_recv` on the interrupt channel and the strategy's
                 bookkeeping).  When the wrapper does not poll the inner stream (`pollsInner = false`:
                 it answers `Interrupted(None)` or end-of-stream) the poll is complete after `check`.
  * `pollBegin`, `drainStep`, `readyStep` are literally `mstep?` of `Model/StreamMicro.lean`.
  * `finish`  = the bookkeeping of `pollNext` on the inner answer (`pollNextPost`).

  The ghost `wake` ("woken since the current / last poll began") is cleared by the inner `pollBegin`
  (as in `mstep?`) and, when the poll completes in `check`, by `check` (as in `sipoll`).

  `drop f` (another thread drops a `FnRef`) and `interrupt` (another thread sends the signal:
  `sent := true`) are enabled between ANY two micro steps.  `Model/StreamPoll.lean` (`sipoll`) treats
  the whole poll as one atomic step.

  Nothing under `Model/` is changed; `IM`, `interruptCheck`, `pollsInner`, `pollNext`, `Out`,
  `mstep?`, `sdrop`, … are used literally.  The only new text is `pollNextPost`, the part of
  `pollNext` after the check (`pollNext_eq_post`: `pollNext = interruptCheck ; pollNextPost`, by `rfl`).

  Ghost fields (never read by the machine) for the C08 bound: `sigSeen` (a signal was sent),
  `pollSeen` (the `check` of the current / last poll came after a signal), `yAfter` (items yielded
  by polls whose `check` came after a signal), `yAfterRT` (items yielded after a signal in real
  time, i.e. including the poll that was already past its `check` when the first signal arrived).
-/
import FnGraphVerif.Proofs.MRefine
import FnGraphVerif.Proofs.StreamGood
namespace FG

/-- the part of `pollNext` after `interruptCheck`: what the wrapper does with the inner answer `u` -/
def pollNextPost (m : IM) (u : Under) : IM × Out :=
  let r : IM × Out :=
    if m.hp then
      match u with
      | .pending => (m, .pending)
      | .item => if m.sig then ({ m with ian := true }, .intSome) else (m, .noInt)
      | .none => if m.sig then ({ m with ian := true }, .intNone) else (m, .endd)
    else if m.sig then ({ m with ian := true }, .intNone)
    else match u with
      | .pending => ({ m with hp := true }, .pending)
      | .item => (m, .noInt)
      | .none => (m, .endd)
  if r.2 = .pending then r else ({ r.1 with hp := false, ipc := false }, r.2)

/-- `pollNext` is literally: already interrupted-and-notified, or `interruptCheck` then `pollNextPost` -/
theorem pollNext_eq_post (st : Strat) (m0 : IM) (u : Under) :
    pollNext st m0 u = if m0.ian then (m0, .endd) else pollNextPost (interruptCheck st m0) u := rfl

/-- where the consumer thread stands inside the wrapper's `poll_next` -/
inductive WPc
  | idle        -- not inside a poll of the wrapper
  | checked     -- `interruptCheck` done, the inner stream will be polled
  | inner       -- inside the inner `poll_next` (`MState.pc` says where)
  | returned    -- the inner poll has returned, the wrapper's bookkeeping is still to do
  deriving DecidableEq, Repr, Inhabited

def itemOf : PollRes → Option Nat
  | .some f => some f
  | _ => none

structure MIState where
  m : MState                            -- the inner micro machine; `m.s.im` is the wrapper's state
  w : WPc := .idle
  ret : Option (Out × Option Nat) := none   -- answer of the last completed poll of the wrapper
  sigSeen : Bool := false               -- ghost: a signal has been sent
  pollSeen : Bool := false              -- ghost: `sigSeen` at the `check` of the current / last poll
  yAfter : Nat := 0                     -- ghost: items yielded by polls with `pollSeen`
  yAfterRT : Nat := 0                   -- ghost: items yielded while `sigSeen`
  deriving DecidableEq, Repr, Inhabited

def miinit (c : Cfg) : MIState := { m := minit c }

inductive MIAction
  | check
  | pollBegin
  | drainStep
  | readyStep
  | finish
  | drop (f : Nat)
  | dropStream
  | interrupt
  deriving DecidableEq, Repr, Inhabited

def mistep? (c : Cfg) (x : MIState) : MIAction → Option MIState
  | .check =>
    if x.w = .idle ∧ x.m.s.streamDropped = false then
      if pollsInner c.strat x.m.s.im then
        some { x with m := { x.m with s := { x.m.s with im := interruptCheck c.strat x.m.s.im } },
                      w := .checked, pollSeen := x.sigSeen }
      else
        some { x with m := { x.m with s := { x.m.s with
                                im := (pollNext c.strat x.m.s.im .pending).1, wake := false,
                                lastPending := decide ((pollNext c.strat x.m.s.im .pending).2 = .pending) } },
                      ret := some ((pollNext c.strat x.m.s.im .pending).2, none), pollSeen := x.sigSeen }
    else none
  | .pollBegin =>
    if x.w = .checked then
      match mstep? c x.m .pollBegin with
      | some m' => some { x with m := m', w := .inner }
      | none => none
    else none
  | .drainStep =>
    if x.w = .inner then
      match mstep? c x.m .drainStep with
      | some m' => some { x with m := m' }
      | none => none
    else none
  | .readyStep =>
    if x.w = .inner then
      match mstep? c x.m .readyStep with
      | some m' =>
        some { x with m := m', w := .returned,
                      yAfter := x.yAfter + (if x.pollSeen then m'.s.yielded.length - x.m.s.yielded.length else 0),
                      yAfterRT := x.yAfterRT + (if x.sigSeen then m'.s.yielded.length - x.m.s.yielded.length else 0) }
      | none => none
    else none
  | .finish =>
    if x.w = .returned then
      match x.m.result with
      | some r =>
        some { x with m := { x.m with s := { x.m.s with
                                im := (pollNextPost x.m.s.im (underOf r)).1,
                                lastPending := decide ((pollNextPost x.m.s.im (underOf r)).2 = .pending) } },
                      w := .idle, ret := some ((pollNextPost x.m.s.im (underOf r)).2, itemOf r) }
      | none => none
    else none
  | .drop f =>                        -- another thread: enabled at every program counter
    match mstep? c x.m (.drop f) with
    | some m' => some { x with m := m' }
    | none => none
  | .dropStream =>
    if x.w = .idle then
      match mstep? c x.m .dropStream with
      | some m' => some { x with m := m' }
      | none => none
    else none
  | .interrupt =>                     -- another thread: enabled at every program counter
    some { x with m := { x.m with s := { x.m.s with im := { x.m.s.im with sent := true } } },
                  sigSeen := true }

inductive MIReachable (c : Cfg) : MIState → Prop
  | init : MIReachable c (miinit c)
  | step {x x' : MIState} (a : MIAction) : MIReachable c x → mistep? c x a = some x' → MIReachable c x'

def mirun (c : Cfg) (x : MIState) : List MIAction → Option MIState
  | [] => some x
  | a :: as => match mistep? c x a with
    | none => none
    | some x' => mirun c x' as

theorem mireachable_mirun {c : Cfg} {x : MIState} (hr : MIReachable c x) :
    ∀ {as : List MIAction} {x' : MIState}, mirun c x as = some x' → MIReachable c x' := by
  intro as
  induction as generalizing x with
  | nil => intro x' h; simp only [mirun, Option.some.injEq] at h; subst h; exact hr
  | cons a as ih =>
    intro x' h
    simp only [mirun] at h
    split at h
    · cases h
    · rename_i x1 hx1
      exact ih (MIReachable.step a hr hx1) h

theorem mirun_cons_some {c : Cfg} {x x' : MIState} {a : MIAction} (h : mistep? c x a = some x')
    (as : List MIAction) : mirun c x (a :: as) = mirun c x' as := by
  rw [mirun, h]

theorem mirun_append (c : Cfg) (x : MIState) (as bs : List MIAction) :
    mirun c x (as ++ bs) = (mirun c x as).bind (fun x' => mirun c x' bs) := by
  induction as generalizing x with
  | nil => rfl
  | cons a as ih =>
    simp only [List.cons_append, mirun]
    cases mistep? c x a with
    | none => rfl
    | some x' => exact ih x'

/-- the state after the given micro actions from the initial state (`miinit` if one is not enabled) -/
def miexRun (c : Cfg) (as : List MIAction) : MIState := (mirun c (miinit c) as).getD (miinit c)

theorem miexRun_reachable {c : Cfg} {as : List MIAction}
    (h : (mirun c (miinit c) as).isSome = true) : MIReachable c (miexRun c as) := by
  apply mireachable_mirun MIReachable.init (as := as)
  unfold miexRun
  cases hh : mirun c (miinit c) as with
  | none => rw [hh] at h; cases h
  | some s => rfl

/-- the diamond / the join with an interrupt strategy -/
def exDiamond_W (st : Strat) : Cfg := { exDiamond_I with strat := st }
def exJoin_W (st : Strat) : Cfg := { exJoin_I with strat := st }

end FG
