/-
  Proofs/Release.lean — the release core shared by the queuer (`queuerRecv`) and the
  `stream_internal` poll: what `relFold` does to the counts, to the ready queue and to the
  panic flag, for a duplicate-free child list.
-/
import FnGraphVerif.Model.Proto
import FnGraphVerif.Proofs.Reach
namespace FG

theorem relFold_nil (cs : Bool) (cap : Nat) (st : List Nat × List Nat × Bool) : relFold cs cap st [] = st := rfl

theorem relFold_cons (cs : Bool) (cap : Nat) (st : List Nat × List Nat × Bool) (c : Nat) (l : List Nat) :
    relFold cs cap st (c :: l) = relFold cs cap (relStep cs cap st c) l := rfl

theorem relFold_counts_length (cs : Bool) (cap : Nat) (l : List Nat) (st : List Nat × List Nat × Bool) :
    (relFold cs cap st l).1.length = st.1.length := by
  induction l generalizing st with
  | nil => rfl
  | cons c l ih => rw [relFold_cons, ih]; simp [relStep]

/-- counts drop by one exactly on the children -/
theorem relFold_counts (cs : Bool) (cap : Nat) (l : List Nat) (hnd : l.Nodup)
    (st : List Nat × List Nat × Bool) (v : Nat) :
    (relFold cs cap st l).1[v]?.getD 0 = if v ∈ l then st.1[v]?.getD 0 - 1 else st.1[v]?.getD 0 := by
  induction l generalizing st with
  | nil => simp [relFold]
  | cons c l ih =>
    have hc : c ∉ l := (List.nodup_cons.mp hnd).1
    have hnd' := (List.nodup_cons.mp hnd).2
    rw [relFold_cons, ih hnd']
    by_cases hv : v = c
    · subst hv
      simp only [hc, if_false, List.mem_cons, true_or, if_true]
      by_cases hlt : v < st.1.length
      · simp [relStep, List.getElem?_set, hlt]
      · have : st.1.length ≤ v := Nat.le_of_not_lt hlt
        simp [relStep, List.getElem?_set, this]
    · have hvc : ¬ c = v := fun h => hv h.symm
      by_cases hvl : v ∈ l
      · simp [hvl, hv, relStep, List.getElem?_set, hvc]
      · simp [hvl, hv, relStep, List.getElem?_set, hvc]

/-- if no child's count is 0 beforehand the fold never underflows -/
theorem relFold_panic (cs : Bool) (cap : Nat) (l : List Nat) (hnd : l.Nodup)
    (st : List Nat × List Nat × Bool) (hp : st.2.2 = false) (hpos : ∀ c ∈ l, st.1[c]?.getD 0 ≠ 0) :
    (relFold cs cap st l).2.2 = false := by
  induction l generalizing st with
  | nil => simpa [relFold]
  | cons c l ih =>
    have hc : c ∉ l := (List.nodup_cons.mp hnd).1
    have hnd' := (List.nodup_cons.mp hnd).2
    rw [relFold_cons]
    apply ih hnd'
    · have := hpos c (by simp)
      simp [relStep, hp, this]
    · intro x hx
      have hne : ¬ c = x := fun h => hc (h ▸ hx)
      have := hpos x (List.mem_cons_of_mem _ hx)
      simpa [relStep, List.getElem?_set, hne] using this

/-- the ready queue grows by exactly the children whose count was 1, in adjacency order
    (when sending is possible and the queue never fills) -/
theorem relFold_ready (cap : Nat) (l : List Nat) (hnd : l.Nodup) (st : List Nat × List Nat × Bool)
    (hroom : st.2.1.length + l.length ≤ cap) :
    (relFold true cap st l).2.1 = st.2.1 ++ l.filter (fun c => st.1[c]?.getD 0 - 1 == 0) := by
  induction l generalizing st with
  | nil => simp [relFold]
  | cons c l ih =>
    have hc : c ∉ l := (List.nodup_cons.mp hnd).1
    have hnd' := (List.nodup_cons.mp hnd).2
    rw [relFold_cons]
    have hlen : (relStep true cap st c).2.1.length ≤ st.2.1.length + 1 := by
      simp only [relStep]; split <;> simp
    rw [ih hnd' _ (by simp only [List.length_cons] at hroom; omega)]
    have key : ∀ x ∈ l, (relStep true cap st c).1[x]?.getD 0 = st.1[x]?.getD 0 := by
      intro x hx
      have : ¬ c = x := fun h => hc (h ▸ hx)
      simp [relStep, List.getElem?_set, this]
    have hf : l.filter (fun x => (relStep true cap st c).1[x]?.getD 0 - 1 == 0)
         = l.filter (fun x => st.1[x]?.getD 0 - 1 == 0) := by
      apply List.filter_congr
      intro x hx; rw [key x hx]
    rw [hf]
    have hlt : st.2.1.length < cap := by simp only [List.length_cons] at hroom; omega
    by_cases h0 : st.1[c]?.getD 0 - 1 = 0
    · simp [relStep, h0, hlt, List.filter_cons]
    · simp [relStep, h0, List.filter_cons]

/-- with the sender gone (or the receiver dropped) nothing is queued -/
theorem relFold_ready_closed (cap : Nat) (l : List Nat) (st : List Nat × List Nat × Bool) :
    (relFold false cap st l).2.1 = st.2.1 := by
  induction l generalizing st with
  | nil => rfl
  | cons c l ih => rw [relFold_cons, ih]; simp [relStep]

/-- in every case the queue only grows by children, each at most once -/
theorem relFold_ready_sub (cs : Bool) (cap : Nat) (l : List Nat) (st : List Nat × List Nat × Bool) :
    ∃ t, (relFold cs cap st l).2.1 = st.2.1 ++ t ∧ t.Sublist l := by
  induction l generalizing st with
  | nil => exact ⟨[], by simp [relFold], List.Sublist.refl _⟩
  | cons c l ih =>
    rw [relFold_cons]
    obtain ⟨t, ht, hsub⟩ := ih (relStep cs cap st c)
    by_cases hq : (relStep cs cap st c).2.1 = st.2.1
    · exact ⟨t, by rw [ht, hq], hsub.cons _⟩
    · have : (relStep cs cap st c).2.1 = st.2.1 ++ [c] := by
        simp only [relStep] at hq ⊢
        split at hq
        · rename_i h; simp [h]
        · exact absurd rfl hq
      exact ⟨c :: t, by rw [ht, this]; simp, hsub.cons₂ _⟩

/-- number of parents of `v` whose done id the queuer has not folded yet -/
def unreleased (g : Dag) (released : List Nat) (v : Nat) : Nat :=
  ((parents g v).filter (fun p => decide (p ∉ released))).length

/-- releasing `x` removes exactly one unreleased parent from each child of `x` -/
theorem filter_unreleased_snoc (l : List Nat) (hnd : l.Nodup) (rel : List Nat) (x : Nat) (hx : x ∉ rel) :
    (l.filter (fun p => decide (p ∉ rel ++ [x]))).length
      = (l.filter (fun p => decide (p ∉ rel))).length - (if x ∈ l then 1 else 0) := by
  induction l with
  | nil => simp
  | cons a l ih =>
    have ha : a ∉ l := (List.nodup_cons.mp hnd).1
    have hnd' := (List.nodup_cons.mp hnd).2
    have ih := ih hnd'
    by_cases hax : a = x
    · subst hax
      have e1 : (List.filter (fun p => decide (p ∉ rel ++ [a])) (a :: l)) =
          List.filter (fun p => decide (p ∉ rel ++ [a])) l := by
        rw [List.filter_cons]; simp
      have e2 : (List.filter (fun p => decide (p ∉ rel)) (a :: l)) =
          a :: List.filter (fun p => decide (p ∉ rel)) l := by
        rw [List.filter_cons]; simp [hx]
      rw [e1, e2, ih]; simp [ha]
    · have hxa : ¬ x = a := fun h => hax h.symm
      by_cases har : a ∈ rel
      · have e1 : (List.filter (fun p => decide (p ∉ rel ++ [x])) (a :: l)) =
            List.filter (fun p => decide (p ∉ rel ++ [x])) l := by
          rw [List.filter_cons]; simp [har]
        have e2 : (List.filter (fun p => decide (p ∉ rel)) (a :: l)) =
            List.filter (fun p => decide (p ∉ rel)) l := by
          rw [List.filter_cons]; simp [har]
        rw [e1, e2, ih]; simp [hxa]
      · have e1 : (List.filter (fun p => decide (p ∉ rel ++ [x])) (a :: l)) =
            a :: List.filter (fun p => decide (p ∉ rel ++ [x])) l := by
          rw [List.filter_cons]; simp [har, hax]
        have e2 : (List.filter (fun p => decide (p ∉ rel)) (a :: l)) =
            a :: List.filter (fun p => decide (p ∉ rel)) l := by
          rw [List.filter_cons]; simp [har]
        rw [e1, e2]
        simp only [List.length_cons, ih, List.mem_cons, hxa, false_or]
        by_cases hxl : x ∈ l
        · have hpos : 0 < (l.filter (fun p => decide (p ∉ rel))).length := by
            apply List.length_pos_of_mem (a := x)
            simp [hxl, hx]
          rw [if_pos hxl]; omega
        · rw [if_neg hxl]; omega

/-- if exactly one parent of `v` is unreleased and `x` is an unreleased parent, every other parent is released -/
theorem only_unreleased (l : List Nat) (rel : List Nat) (x p : Nat) (hx : x ∉ rel) (hxl : x ∈ l)
    (hp : p ∈ l) (hpx : p ≠ x) (hone : (l.filter (fun q => decide (q ∉ rel))).length - 1 = 0) : p ∈ rel := by
  apply Classical.byContradiction
  intro hpr
  have hxm : x ∈ l.filter (fun q => decide (q ∉ rel)) := by simp [hxl, hx]
  have hpm : p ∈ l.filter (fun q => decide (q ∉ rel)) := by simp [hp, hpr]
  generalize l.filter (fun q => decide (q ∉ rel)) = m at *
  match m, hxm, hpm with
  | [], hxm, _ => simp at hxm
  | [a], hxm, hpm =>
    simp at hxm hpm; exact hpx (hpm.trans hxm.symm)
  | a :: b :: m, _, _ => simp at hone

end FG
