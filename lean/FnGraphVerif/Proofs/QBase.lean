/-
  Proofs/QBase.lean — model facts used by `Theorems/TracePreds.lean` that are not yet in the
  project: growth of `invoked` after the first interrupt as a difference of lengths, runs without
  `interrupt`, the "last invoked" invariant of sequential runs (for the `try_fold` predicate),
  the first step from `init` is visible, soundness of `reachPlus`.
-/
import FnGraphVerif.Theorems.C04
import FnGraphVerif.Theorems.C08Invoke
import FnGraphVerif.Proofs.TraceDefs
namespace FG

variable {c : Cfg} {s s' : PState}

/-! ### `reachPlus` is sound (no well-formedness needed) -/

theorem reachPlus_sound {g : Dag} {u v : Nat} (h : reachPlus g u v = true) : ReachP g u v := by
  unfold reachPlus at h
  rw [List.any_eq_true] at h
  obtain ⟨w, hw, hp⟩ := h
  exact ReachP.head (mem_children.mp hw) (hasPath_sound hp)

/-! ### runs -/

theorem run_snoc_Q {as : List Action} {a : Action} {s0 s1 s2 : PState} (h1 : run c s0 as = some s1)
    (h2 : step? c s1 a = some s2) : run c s0 (as ++ [a]) = some s2 := by
  rw [run_append_G h1]
  simp [run, h2]

theorem run_invoked_mono {as : List Action} : ∀ {s sF : PState}, run c s as = some sF →
    s.invoked.length ≤ sF.invoked.length := by
  induction as with
  | nil => intro s sF h; simp only [run, Option.some.injEq] at h; subst h; exact Nat.le_refl _
  | cons a as ih =>
    intro s sF h
    simp only [run] at h
    cases hs : step? c s a with
    | none => rw [hs] at h; cases h
    | some s1 =>
      rw [hs] at h
      have h1 := invoked_length_step hs
      have h2 := ih h
      omega

theorem growth_seen {as : List Action} : ∀ {s sF : PState}, run c s as = some sF →
    invokedGrowthAfterIntr c s true as = sF.invoked.length - s.invoked.length := by
  induction as with
  | nil =>
    intro s sF h
    simp only [run, Option.some.injEq] at h
    subst h
    simp [invokedGrowthAfterIntr]
  | cons a as ih =>
    intro s sF h
    simp only [run] at h
    unfold invokedGrowthAfterIntr
    cases hs : step? c s a with
    | none => rw [hs] at h; cases h
    | some s1 =>
      rw [hs] at h
      have h1 := invoked_length_step hs
      have h2 := run_invoked_mono h
      simp only [Bool.true_or, if_true]
      rw [ih h]
      omega

theorem growth_split {pre rest : List Action} : ∀ {s0 s1 sF : PState},
    (∀ a ∈ pre, a ≠ Action.interrupt) → run c s0 pre = some s1 →
    run c s1 (.interrupt :: rest) = some sF →
    invokedGrowthAfterIntr c s0 false (pre ++ .interrupt :: rest) = sF.invoked.length - s1.invoked.length := by
  induction pre with
  | nil =>
    intro s0 s1 sF _ h1 h2
    simp only [run, Option.some.injEq] at h1
    subst h1
    simp only [run] at h2
    simp only [List.nil_append]
    unfold invokedGrowthAfterIntr
    cases hs : step? c s0 .interrupt with
    | none => rw [hs] at h2; cases h2
    | some s1 =>
      rw [hs] at h2
      have h1 := invoked_length_step hs
      simp only [Action.isInvoke, Bool.false_eq_true, if_false, Nat.add_zero] at h1
      simp only [Bool.false_eq_true, if_false, Nat.zero_add, Bool.false_or, BEq.rfl]
      rw [growth_seen h2, h1]
  | cons a pre ih =>
    intro s0 s1 sF hpre h1 h2
    simp only [run] at h1
    simp only [List.cons_append]
    unfold invokedGrowthAfterIntr
    cases hs : step? c s0 a with
    | none => rw [hs] at h1; cases h1
    | some s0' =>
      rw [hs] at h1
      have ha : a ≠ .interrupt := hpre a (by simp)
      have hb : (a == Action.interrupt) = false := by simpa using ha
      simp only [Bool.false_eq_true, if_false, Nat.zero_add, Bool.false_or, hb]
      exact ih (fun b hb => hpre b (by simp [hb])) h1 h2

/-- a run without `interrupt` leaves the interrupt machine untouched by signals -/
theorem run_preI {as : List Action} : ∀ {s sF : PState}, (∀ a ∈ as, a ≠ Action.interrupt) →
    PreI s.im → run c s as = some sF → PreI sF.im := by
  induction as with
  | nil => intro s sF _ hp h; simp only [run, Option.some.injEq] at h; subst h; exact hp
  | cons a as ih =>
    intro s sF has hp h
    simp only [run] at h
    cases hs : step? c s a with
    | none => rw [hs] at h; cases h
    | some s1 =>
      rw [hs] at h
      exact ih (fun b hb => has b (by simp [hb])) (preI_step (has a (by simp)) hp hs) h

theorem preI_init (c : Cfg) : PreI (init c).im := ⟨rfl, rfl, rfl, rfl⟩

/-! ### sequential runs: the function in flight is the last one invoked -/

structure SeqLast (s : PState) : Prop where
  infl : ∀ f ∈ s.inflight, f ∈ s.invoked → s.invoked.getLast? = some f
  short : ∀ f, s.shortErr = some f → s.invoked.getLast? = some f

theorem seqLast_init (c : Cfg) : SeqLast (init c) := ⟨by simp [init], by simp [init]⟩

theorem seqLast_step (hc : GoodCfg c) (hseq : c.sequential = true) (hr : Reachable c s) {a : Action}
    (hi : SeqLast s) (h : step? c s a = some s') : SeqLast s' := by
  have hinv := inv_reachable hc (fun _ => hseq) hr
  cases a with
  | queuerRecv => obtain ⟨x, rest, _, rfl⟩ := step_queuerRecv h; exact ⟨hi.infl, hi.short⟩
  | queuerEnd => obtain ⟨_, _, _, rfl⟩ := queuerEnd_cases h; exact ⟨hi.infl, hi.short⟩
  | schedEnd => obtain ⟨_, _, _, rfl⟩ := schedEnd_cases h; exact ⟨hi.infl, hi.short⟩
  | ret => obtain ⟨_, _, _, rfl⟩ := ret_cases h; exact ⟨hi.infl, hi.short⟩
  | interrupt => have := interrupt_cases h; subst this; exact ⟨hi.infl, hi.short⟩
  | schedPoll =>
    obtain ⟨_, _, h3⟩ := step_schedPoll_F h
    rcases h3 with ⟨m, se, rx, dtx, rfl⟩ | ⟨m, ca, f, rest, hq, rfl⟩ | ⟨m, f, rest, hq, rfl⟩
    · exact ⟨hi.infl, hi.short⟩
    · refine ⟨?_, hi.short⟩
      intro g hg hgi
      simp only [handOut, List.mem_append, List.mem_singleton] at hg
      rcases hg with hg | rfl
      · exact hi.infl g hg hgi
      · exact absurd (hinv.invHanded g hgi)
          ((inv0_reachable hc hr).head_not_handed hq).2.1
    · exact ⟨hi.infl, hi.short⟩
  | invoke f =>
    obtain ⟨hf1, hf2, rfl⟩ := invoke_cases h
    refine ⟨?_, ?_⟩
    · intro g hg _
      have hlen := hinv.limSeq hseq
      -- `f` and `g` are both in flight and at most one function is
      have : g = f := by
        cases hinf : s.inflight with
        | nil => rw [hinf] at hg; cases hg
        | cons a l =>
          rw [hinf] at hlen hg hf1
          simp only [List.length_cons] at hlen
          have hl : l = [] := List.eq_nil_of_length_eq_zero (by omega)
          subst hl
          simp only [List.mem_singleton] at hg hf1
          rw [hg, hf1]
      subst this
      simp
    · intro g hg
      have hsd := hinv.shortDone (by rw [hg]; rfl)
      have := hinv.sDoneInfl hsd
      rw [this] at hf1
      cases hf1
  | finish f ok =>
    obtain ⟨hf1, hf2, h3⟩ := step_finish h
    rcases h3 with ⟨_, dq, _, rfl⟩ | ⟨_, _, rfl⟩ | ⟨_, _, rfl⟩
    · exact ⟨fun g hg => hi.infl g (List.mem_of_mem_erase hg), hi.short⟩
    · exact ⟨fun g hg => hi.infl g (List.mem_of_mem_erase hg), hi.short⟩
    · refine ⟨fun g hg => hi.infl g (List.mem_of_mem_erase hg), ?_⟩
      intro g hg
      simp only [Option.some.injEq] at hg
      subst hg
      exact hi.infl f hf1 hf2

theorem seqLast_reachable (hc : GoodCfg c) (hseq : c.sequential = true) (hr : Reachable c s) :
    SeqLast s := by
  induction hr with
  | init => exact seqLast_init c
  | step a hr' h ih => exact seqLast_step hc hseq hr' ih h

/-! ### the first step of a call on a non-empty graph is visible -/

theorem exists_root {g : Dag} (hwf : WF g) (hac : Acyclic g) (hn : g.n ≠ 0) :
    ∃ r, r < g.n ∧ parents g r = [] := by
  have key := parents_induction_G hwf hac (fun _ => ∃ r, r < g.n ∧ parents g r = []) (by
    intro v hv hp
    cases hpar : parents g v with
    | nil => exact ⟨v, hv, hpar⟩
    | cons p l => exact hp p (by rw [hpar]; simp))
  exact key 0 (by omega)

theorem preload_ne_nil (hc : GoodCfg c) (hn : c.n ≠ 0) : preload c ≠ [] := by
  obtain ⟨r, hr, hp⟩ := exists_root hc.wf hc.acyclic hn
  have := (hc.preMem r).mpr ⟨hr, hp⟩
  intro h
  rw [h] at this
  cases this

theorem pollNext_init_item (st : Strat) : (pollNext st {} .item).2 = .noInt := by
  cases st <;> simp [pollNext, interruptCheck]

theorem init_step_visible (hc : GoodCfg c) (hn : c.n ≠ 0) (ctl : Bool) {a : Action} {s1 : PState}
    (h : step? c (init c) a = some s1) : stepEvents c ctl (init c) a s1 ≠ [] := by
  have hn' : (c.n != 0) = true := by simpa using hn
  cases a with
  | queuerRecv => obtain ⟨x, rest, hq, _⟩ := step_queuerRecv h; simp [init] at hq
  | queuerEnd => obtain ⟨_, hd, _, _⟩ := queuerEnd_cases h; simp [init, hn'] at hd
  | schedEnd => obtain ⟨hse, _, _, _⟩ := schedEnd_cases h; simp [init] at hse
  | ret => obtain ⟨hsd, _, _, _⟩ := ret_cases h; simp [init] at hsd
  | interrupt => simp [stepEvents]
  | invoke f => simp [stepEvents]
  | finish f ok => simp [stepEvents]
  | schedPoll =>
    obtain ⟨_, _, _, h4⟩ := schedPoll_cases h
    have hne := preload_ne_nil hc hn
    have hu : readyUnder (init c) = .item := by
      unfold readyUnder
      have : (init c).readyQ = preload c := rfl
      rw [this]
      cases hp : preload c with
      | nil => exact absurd hp hne
      | cons a l => rfl
    have him : (init c).im = {} := rfl
    rw [hu, him, pollNext_init_item] at h4
    rcases h4 with ⟨h4, _⟩ | ⟨h4, _⟩ | ⟨h4, _⟩ | ⟨_, f, rest, _, rfl⟩ | ⟨h4, _⟩
    · cases h4
    · cases h4
    · cases h4
    · simp [stepEvents, handOut, init]
    · cases h4

end FG
