/-
  Proofs/IntrCompose.lean — how the run protocol (`Model/Proto.lean`) and the stream poll model
  (`Model/StreamPoll.lean`) drive the `InterruptibleStream` machine: every action other than
  `interrupt` / `schedPoll` (`poll`) leaves `im` alone and hands out nothing; `schedPoll` performs
  exactly one `pollNext` and hands out one function iff the answer is `NoInterrupt(item)`, or
  `Interrupted(Some item)` with `interrupted_next_item_include`.
-/
import FnGraphVerif.Model.Proto
import FnGraphVerif.Model.StreamPoll
import FnGraphVerif.Proofs.IntrMachine
namespace FG

/-! ### run protocol -/

theorem step_other {c : Cfg} {s s' : PState} {a : Action} (h : step? c s a = some s')
    (h1 : a ≠ .interrupt) (h2 : a ≠ .schedPoll) :
    s'.im = s.im ∧ s'.handedOut = s.handedOut ∧ s'.dropped = s.dropped ∧
    s'.closeAfter = s.closeAfter := by
  cases a with
  | interrupt => exact absurd rfl h1
  | schedPoll => exact absurd rfl h2
  | queuerRecv =>
    simp only [step?] at h
    split at h
    · exact absurd h (by simp)
    · split at h
      · exact absurd h (by simp)
      · simp only [decr, Option.some.injEq] at h
        subst h
        simp
  | queuerEnd =>
    simp only [step?] at h
    split at h
    · exact absurd h (by simp)
    · simp only [Option.some.injEq] at h
      subst h
      simp
  | invoke f =>
    simp only [step?] at h
    split at h
    · simp only [Option.some.injEq] at h
      subst h
      simp
    · exact absurd h (by simp)
  | finish f ok =>
    simp only [step?] at h
    split at h
    · exact absurd h (by simp)
    · split at h
      · simp only [decr, Option.some.injEq] at h
        subst h
        simp
      · split at h
        · exact absurd h (by simp)
        · simp only [decr, Option.some.injEq] at h
          subst h
          simp
        · simp only [Option.some.injEq] at h
          subst h
          simp
  | schedEnd =>
    simp only [step?] at h
    split at h
    · simp only [Option.some.injEq] at h
      subst h
      simp
    · exact absurd h (by simp)
  | ret =>
    simp only [step?] at h
    split at h
    · simp only [Option.some.injEq] at h
      subst h
      simp
    · exact absurd h (by simp)

theorem step_interrupt {c : Cfg} {s s' : PState} (h : step? c s .interrupt = some s') :
    s'.im = { s.im with sent := true } ∧ s'.handedOut = s.handedOut ∧ s'.dropped = s.dropped ∧
    s'.closeAfter = s.closeAfter := by
  simp only [step?, Option.some.injEq] at h
  subst h
  simp

/-- does the answer of the interruptible ready stream make the scheduler hand a function out? -/
def Out.handsOut (incl : Bool) : Out → Bool
  | .noInt => true
  | .intSome => incl
  | _ => false

theorem step_schedPoll {c : Cfg} {s s' : PState} (h : step? c s .schedPoll = some s') :
    s'.im = (pollNext c.strat s.im (readyUnder s)).1 ∧
    s'.handedOut.length = s.handedOut.length +
      (if (pollNext c.strat s.im (readyUnder s)).2.handsOut c.incl then 1 else 0) ∧
    ((pollNext c.strat s.im (readyUnder s)).2 ≠ .intSome →
      s'.dropped = s.dropped ∧ s'.closeAfter = s.closeAfter) := by
  simp only [step?] at h
  split at h
  · exact absurd h (by simp)
  · generalize pollNext c.strat s.im (readyUnder s) = r at h ⊢
    obtain ⟨m, out⟩ := r
    cases out with
    | pending =>
      simp only [Option.some.injEq] at h
      subst h
      simp [Out.handsOut]
    | endd =>
      simp only [Option.some.injEq] at h
      subst h
      simp [Out.handsOut]
    | intNone =>
      simp only [Option.some.injEq] at h
      subst h
      simp [Out.handsOut]
    | noInt =>
      simp only at h
      split at h
      · exact absurd h (by simp)
      · simp only [Option.some.injEq] at h
        subst h
        simp [Out.handsOut, handOut]
    | intSome =>
      simp only at h
      split at h
      · exact absurd h (by simp)
      · split at h
        · rename_i hincl
          simp only [Option.some.injEq] at h
          subst h
          simp [Out.handsOut, handOut, hincl]
        · rename_i hincl
          simp only [Option.some.injEq] at h
          subst h
          simp [Out.handsOut, hincl]

/-! ### stream poll model -/

theorem sRelease_yielded (c : Cfg) (s : SState) (x : Nat) (rest : List Nat) :
    (sRelease c s x rest).yielded = s.yielded := rfl

theorem sDrain_yielded (c : Cfg) (k : Nat) (s : SState) : (sDrain c k s).yielded = s.yielded := by
  induction k generalizing s with
  | zero => rfl
  | succ k ih =>
    unfold sDrain
    split
    · rw [ih, sRelease_yielded]
    · split <;> rfl

theorem sRecvOnce_yielded (c : Cfg) (s : SState) : (sRecvOnce c s).yielded = s.yielded := by
  unfold sRecvOnce
  split
  · rfl
  · split <;> rfl

/-- what the underlying `stream_internal` answered, as the wrapper sees it -/
def PollRes.under : PollRes → Under
  | .some _ => .item
  | .none => .none
  | .pending => .pending

theorem spoll_yielded (c : Cfg) (drain : Bool) (s : SState) :
    (spoll c drain s).1.yielded.length =
      s.yielded.length + (if (spoll c drain s).2.under = .item then 1 else 0) := by
  have hpre : (if drain then sDrain c (({ s with wake := false } : SState).doneQ.length + 1)
        { s with wake := false } else sRecvOnce c { s with wake := false }).yielded = s.yielded := by
    cases drain
    · simp only [Bool.false_eq_true, if_false]; rw [sRecvOnce_yielded]
    · simp only [if_true]; rw [sDrain_yielded]
  unfold spoll
  simp only
  generalize (if drain then sDrain c (({ s with wake := false } : SState).doneQ.length + 1)
        { s with wake := false } else sRecvOnce c { s with wake := false }) = t at hpre ⊢
  split
  · split
    · simp [PollRes.under, hpre]
    · simp [PollRes.under, hpre]
  · simp [PollRes.under, hpre]

/-- the underlying answer fed to the machine by one `sipoll` -/
def sipollUnder (c : Cfg) (drain : Bool) (s : SState) : Under :=
  if pollsInner c.strat s.im then (spoll c drain s).2.under else .pending

theorem sipoll_spec (c : Cfg) (drain : Bool) (s : SState) :
    (sipoll c drain s).1.im = (pollNext c.strat s.im (sipollUnder c drain s)).1 ∧
    (sipoll c drain s).1.yielded.length = s.yielded.length +
      (if (pollNext c.strat s.im (sipollUnder c drain s)).2.isItem then 1 else 0) := by
  unfold sipoll sipollUnder
  by_cases hp : pollsInner c.strat s.im = true
  · have hy := spoll_yielded c drain s
    have hi := pollNext_isItem_polled c.strat s.im (spoll c drain s).2.under hp
    simp only [hp, if_true]
    revert hy hi
    generalize spoll c drain s = r
    obtain ⟨t, res⟩ := r
    intro hy hi
    cases res <;> simp_all [PollRes.under]
  · have hp' : pollsInner c.strat s.im = false := by simpa using hp
    have hi := pollNext_isItem_unpolled c.strat s.im .pending hp'
    simp only [hp', Bool.false_eq_true, if_false]
    simp [hi]

theorem sstep_other {c : Cfg} {drain : Bool} {s s' : SState} {a : SAction}
    (h : sstep? c drain s a = some s') (h1 : a ≠ .interrupt) (h2 : a ≠ .poll) :
    s'.im = s.im ∧ s'.yielded = s.yielded := by
  cases a with
  | interrupt => exact absurd rfl h1
  | poll => exact absurd rfl h2
  | drop f =>
    simp only [sstep?, sdrop] at h
    split at h
    · exact absurd h (by simp)
    · split at h <;>
      · simp only [Option.some.injEq] at h
        subst h
        simp
  | dropStream =>
    simp only [sstep?, sdropStream] at h
    split at h
    · exact absurd h (by simp)
    · simp only [Option.some.injEq] at h
      subst h
      simp

theorem sstep_interrupt {c : Cfg} {drain : Bool} {s s' : SState}
    (h : sstep? c drain s .interrupt = some s') :
    s'.im = { s.im with sent := true } ∧ s'.yielded = s.yielded := by
  simp only [sstep?, Option.some.injEq] at h
  subst h
  simp

theorem sstep_poll {c : Cfg} {drain : Bool} {s s' : SState}
    (h : sstep? c drain s .poll = some s') :
    s'.im = (pollNext c.strat s.im (sipollUnder c drain s)).1 ∧
    s'.yielded.length = s.yielded.length +
      (if (pollNext c.strat s.im (sipollUnder c drain s)).2.isItem then 1 else 0) := by
  simp only [sstep?] at h
  split at h
  · exact absurd h (by simp)
  · simp only [Option.some.injEq] at h
    subst h
    exact sipoll_spec c drain s

end FG
