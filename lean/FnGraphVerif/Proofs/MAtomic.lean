/-
  Proofs/MAtomic.lean — whole-run refinement: a micro run of the plain stream (`Strat.non`) in which
  every `drop` happens outside a poll (`MReachableA`) is simulated by the atomic model: at every
  idle micro state the `SState` is `SReachable c true` up to the interrupt wrapper's private `im`
  (which the micro model, having no wrapper, never touches).
-/
import FnGraphVerif.Proofs.MRefine
namespace FG

/-- forget the wrapper's bookkeeping -/
def noIm (s : SState) : SState := { s with im := {} }

/-- micro reachability with the atomic discipline: `drop` only while the consumer is outside a poll -/
inductive MReachableA (c : Cfg) : MState → Prop
  | init : MReachableA c (minit c)
  | step {m m' : MState} (a : MAction) : MReachableA c m → (∀ f, a = .drop f → m.pc = .idle) →
      mstep? c m a = some m' → MReachableA c m'

theorem MReachableA.reachable {c : Cfg} {m : MState} (h : MReachableA c m) : MReachable c m := by
  induction h with
  | init => exact MReachable.init
  | step a _ _ hs ih => exact MReachable.step a ih hs

/-- the atomic discipline: a `drop` only while the consumer is outside a poll -/
def okA (m : MState) : MAction → Bool
  | .drop _ => decide (m.pc = .idle)
  | _ => true

/-- `mrun` with the atomic discipline checked -/
def mrunA (c : Cfg) (m : MState) : List MAction → Option MState
  | [] => some m
  | a :: as =>
    if okA m a then
      match mstep? c m a with
      | none => none
      | some m' => mrunA c m' as
    else none

theorem mreachableA_mrunA {c : Cfg} {m : MState} (hr : MReachableA c m) :
    ∀ {as : List MAction} {m' : MState}, mrunA c m as = some m' → MReachableA c m' := by
  intro as
  induction as generalizing m with
  | nil => intro m' h; simp only [mrunA, Option.some.injEq] at h; subst h; exact hr
  | cons a as ih =>
    intro m' h
    simp only [mrunA] at h
    split at h
    · rename_i hok
      split at h
      · cases h
      · rename_i m1 hm1
        refine ih (MReachableA.step a hr ?_ hm1) h
        intro f hf
        subst hf
        simpa [okA] using hok
    · cases h

def mexRunA (c : Cfg) (as : List MAction) : MState := (mrunA c (minit c) as).getD (minit c)

theorem mexRunA_reachable {c : Cfg} {as : List MAction}
    (h : (mrunA c (minit c) as).isSome = true) : MReachableA c (mexRunA c as) := by
  apply mreachableA_mrunA MReachableA.init (as := as)
  unfold mexRunA
  cases hh : mrunA c (minit c) as with
  | none => rw [hh] at h; cases h
  | some s => rfl

/-! ### the model functions commute with `noIm` -/

theorem noIm_sRelease (c : Cfg) (s : SState) (x : Nat) (rest : List Nat) :
    noIm (sRelease c s x rest) = sRelease c (noIm s) x rest := rfl

theorem noIm_sDrain (c : Cfg) : ∀ (k : Nat) (s : SState), noIm (sDrain c k s) = sDrain c k (noIm s) := by
  intro k
  induction k with
  | zero => intro s; rfl
  | succ k ih =>
    intro s
    rw [sDrain, sDrain]
    have e : (noIm s).doneQ = s.doneQ := rfl
    have e2 : (noIm s).doneSenders = s.doneSenders := rfl
    rw [e, e2]
    cases hq : s.doneQ with
    | nil => cases s.doneSenders <;> rfl
    | cons x rest => exact ih _

theorem sDrain_nil (c : Cfg) (k : Nat) (s : SState) (h : s.doneQ = []) :
    sDrain c (k + 1) s = if s.doneSenders then { s with doneRxWaker := true } else s := by
  rw [sDrain]
  split
  · rename_i x rest hq; rw [h] at hq; cases hq
  · rfl

theorem sDrain_cons (c : Cfg) (k : Nat) (s : SState) (x : Nat) (rest : List Nat) (h : s.doneQ = x :: rest) :
    sDrain c (k + 1) s = sDrain c k (sRelease c s x rest) := by
  rw [sDrain]
  split
  · rename_i x' rest' hq; rw [h] at hq; cases hq; rfl
  · rename_i hq; rw [h] at hq; cases hq

theorem noIm_sReadyHalf (s : SState) : sReadyHalf (noIm s) = (noIm (sReadyHalf s).1, (sReadyHalf s).2) := by
  unfold sReadyHalf noIm
  simp only [decr]
  obtain ⟨_, rq, _, tx, _, _, _, _, _, _, _, _, _, _, _, _⟩ := s
  cases tx <;> cases rq <;> rfl

theorem noIm_spoll (c : Cfg) (s : SState) :
    spoll c true (noIm s) = (noIm (spoll c true s).1, (spoll c true s).2) := by
  rw [spoll_eq, spoll_eq]
  show sReadyHalf (sDrain c (s.doneQ.length + 1) (noIm { s with wake := false })) = _
  rw [← noIm_sDrain, noIm_sReadyHalf]

theorem noIm_sdrop (c : Cfg) (s : SState) (f : Nat) : sdrop c (noIm s) f = (sdrop c s f).map noIm := by
  rw [sdrop_eq, sdrop_eq]
  have e : (noIm s).live = s.live := rfl
  have e2 : (noIm s).streamDropped = s.streamDropped := rfl
  have e3 : (noIm s).doneQ = s.doneQ := rfl
  rw [e, e2, e3]
  split
  · rfl
  · split <;> rfl

theorem noIm_lastPending {a b : SState} (h : noIm a = noIm b) (d : Bool) :
    noIm { a with lastPending := d } = noIm { b with lastPending := d } := by
  show { noIm a with lastPending := d } = { noIm b with lastPending := d }
  rw [h]

/-! ### the simulation -/

/-- `s` is the atomic state at the beginning of the poll the micro state `m` is in (or `m`'s own
    state when idle); the rest of `m`'s poll, run without drops, computes `spoll c true s` -/
structure MSimW (c : Cfg) (m : MState) (s : SState) : Prop where
  reach : SReachable c true s
  ian : s.im.ian = false
  sig : s.im.sig = false
  idle : m.pc = .idle → noIm m.s = noIm s
  inPoll : m.pc ≠ .idle → s.streamDropped = false
  draining : m.pc = .draining →
    noIm (sReadyHalf (sDrain c (m.s.doneQ.length + 1) m.s)).1 = noIm (spoll c true s).1 ∧
    (sReadyHalf (sDrain c (m.s.doneQ.length + 1) m.s)).2 = (spoll c true s).2
  readyPoll : m.pc = .readyPoll →
    noIm (sReadyHalf m.s).1 = noIm (spoll c true s).1 ∧ (sReadyHalf m.s).2 = (spoll c true s).2

def MSim (c : Cfg) (m : MState) : Prop := ∃ s, MSimW c m s

theorem msim_init (c : Cfg) : MSim c (minit c) :=
  ⟨sinit c, SReachable.init, rfl, rfl, fun _ => rfl, fun h => absurd rfl h, fun h => (by cases h),
    fun h => (by cases h)⟩

theorem msim_pollBegin {c : Cfg} {m m' : MState} (h : MSim c m) (hs : mstep? c m .pollBegin = some m') :
    MSim c m' := by
  obtain ⟨s, hw⟩ := h
  simp only [mstep?] at hs
  split at hs
  · rename_i hg
    cases hs
    have e := hw.idle hg.1
    have hsd : s.streamDropped = false := by
      have := congrArg SState.streamDropped e
      exact this.symm.trans hg.2
    have hp : spoll c true (noIm m.s) = spoll c true (noIm s) := by rw [e]
    rw [noIm_spoll, noIm_spoll] at hp
    refine ⟨s, hw.reach, hw.ian, hw.sig, fun hp => (by cases hp), fun _ => hsd, fun _ => ?_,
      fun hp => (by cases hp)⟩
    show noIm (spoll c true m.s).1 = noIm (spoll c true s).1 ∧ (spoll c true m.s).2 = (spoll c true s).2
    exact Prod.mk.inj hp
  · cases hs

theorem msim_drainStep {c : Cfg} {m m' : MState} (h : MSim c m) (hs : mstep? c m .drainStep = some m') :
    MSim c m' := by
  obtain ⟨s, hw⟩ := h
  simp only [mstep?] at hs
  split at hs
  · rename_i hpc
    have hd := hw.draining hpc
    have hsd := hw.inPoll (by rw [hpc]; simp)
    split at hs
    · rename_i x rest hq
      cases hs
      refine ⟨s, hw.reach, hw.ian, hw.sig, fun hp => ?_, fun _ => hsd, fun _ => ?_, fun hp => ?_⟩
      · change m.pc = .idle at hp; rw [hpc] at hp; cases hp
      · have hl : m.s.doneQ.length = rest.length + 1 := by rw [hq]; rfl
        rw [sDrain_cons c _ m.s x rest hq, hl] at hd
        exact hd
      · change m.pc = .readyPoll at hp; rw [hpc] at hp; cases hp
    · rename_i hq
      cases hs
      refine ⟨s, hw.reach, hw.ian, hw.sig, fun hp => (by cases hp), fun _ => hsd, fun hp => (by cases hp),
        fun _ => ?_⟩
      rw [sDrain_nil c _ m.s hq] at hd
      exact hd
  · cases hs

theorem msim_readyStep {c : Cfg} (hst : c.strat = .non) {m m' : MState} (h : MSim c m)
    (hs : mstep? c m .readyStep = some m') : MSim c m' := by
  obtain ⟨s, hw⟩ := h
  simp only [mstep?] at hs
  split at hs
  · rename_i hpc
    cases hs
    obtain ⟨e1, e2⟩ := hw.readyPoll hpc
    have hsd := hw.inPoll (by rw [hpc]; simp)
    obtain ⟨i, hi, hian, hsig, _⟩ := sipoll_non c s hst hw.ian hw.sig
    refine ⟨(sipoll c true s).1, SReachable.step .poll hw.reach (by simp [sstep?, hsd]), ?_, ?_,
      fun _ => ?_, fun hp => absurd rfl hp, fun hp => (by cases hp), fun hp => (by cases hp)⟩
    · rw [hi]; exact hian
    · rw [hi]; exact hsig
    · rw [hi, afterPoll, e2]
      exact noIm_lastPending e1 _
  · cases hs

theorem msim_drop {c : Cfg} {m m' : MState} {f : Nat} (h : MSim c m) (hpc : m.pc = .idle)
    (hs : mstep? c m (.drop f) = some m') : MSim c m' := by
  obtain ⟨s, hw⟩ := h
  simp only [mstep?] at hs
  split at hs
  · rename_i s1 hd
    cases hs
    have e := hw.idle hpc
    have h1 : sdrop c (noIm m.s) f = some (noIm s1) := by rw [noIm_sdrop, hd]; rfl
    rw [e, noIm_sdrop] at h1
    cases hd2 : sdrop c s f with
    | none => rw [hd2] at h1; cases h1
    | some s2 =>
      rw [hd2] at h1
      have e' : noIm s2 = noIm s1 := by simpa using h1
      have him : s2.im = s.im := by
        rw [sdrop_eq] at hd2
        split at hd2
        · cases hd2
        · split at hd2 <;> cases hd2 <;> rfl
      refine ⟨s2, SReachable.step (.drop f) hw.reach hd2, ?_, ?_, fun _ => e'.symm,
        fun hp => absurd hpc hp, fun hp => ?_, fun hp => ?_⟩
      · rw [him]; exact hw.ian
      · rw [him]; exact hw.sig
      · change m.pc = .draining at hp; rw [hpc] at hp; cases hp
      · change m.pc = .readyPoll at hp; rw [hpc] at hp; cases hp
  · cases hs

theorem msim_dropStream {c : Cfg} {m m' : MState} (h : MSim c m)
    (hs : mstep? c m .dropStream = some m') : MSim c m' := by
  obtain ⟨s, hw⟩ := h
  simp only [mstep?] at hs
  split at hs
  · rename_i hg
    cases hs
    have e := hw.idle hg.1
    have hsd : s.streamDropped = false := by
      have := congrArg SState.streamDropped e
      exact this.symm.trans hg.2
    refine ⟨sdropStream s, SReachable.step .dropStream hw.reach (by simp [sstep?, hsd]), hw.ian, hw.sig,
      fun _ => ?_, fun hp => absurd hg.1 hp, fun hp => ?_, fun hp => ?_⟩
    · show sdropStream (noIm m.s) = sdropStream (noIm s)
      rw [e]
    · change m.pc = .draining at hp; rw [hg.1] at hp; cases hp
    · change m.pc = .readyPoll at hp; rw [hg.1] at hp; cases hp
  · cases hs

theorem msim_reachableA {c : Cfg} (hst : c.strat = .non) {m : MState} (hr : MReachableA c m) : MSim c m := by
  induction hr with
  | init => exact msim_init c
  | step a _ hdisc hs ih =>
    cases a with
    | pollBegin => exact msim_pollBegin ih hs
    | drainStep => exact msim_drainStep ih hs
    | readyStep => exact msim_readyStep hst ih hs
    | drop f => exact msim_drop ih (hdisc f rfl) hs
    | dropStream => exact msim_dropStream ih hs

theorem msim_idle {c : Cfg} (hst : c.strat = .non) {m : MState} (hr : MReachableA c m) (hpc : m.pc = .idle) :
    ∃ s, SReachable c true s ∧ noIm m.s = noIm s := by
  obtain ⟨s, hw⟩ := msim_reachableA hst hr
  exact ⟨s, hw.reach, hw.idle hpc⟩

end FG
