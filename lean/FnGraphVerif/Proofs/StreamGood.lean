/-
  Proofs/StreamGood.lean — a decidable sufficient condition for `GoodCfg` (used to build concrete
  non-vacuity examples) and two concrete configurations.
-/
import FnGraphVerif.Proofs.StreamInv
namespace FG

theorem parents_eq_nil_of_ge {g : Dag} (hwf : WF g) {v : Nat} (hv : g.n ≤ v) : parents g v = [] := by
  apply List.eq_nil_iff_forall_not_mem.mpr
  intro p hp
  have := ((mem_parents.mp hp).lt hwf).2
  omega

theorem children_eq_nil_of_ge {g : Dag} (hwf : WF g) {v : Nat} (hv : g.n ≤ v) : children g v = [] := by
  apply List.eq_nil_iff_forall_not_mem.mpr
  intro p hp
  have := ((mem_children.mp hp).lt hwf).1
  omega

/-- every edge goes from a smaller to a larger index: the graph is acyclic -/
theorem acyclic_of_increasing {g : Dag} (h : ∀ e ∈ g.edges, e.src < e.tgt) : Acyclic g := by
  have key : ∀ u v, ReachP g u v → u < v := by
    intro u v huv
    induction huv with
    | edge he => obtain ⟨e, hm, rfl, rfl⟩ := he; exact h e hm
    | tail _ he ih => obtain ⟨e, hm, rfl, rfl⟩ := he; exact Nat.lt_trans ih (h e hm)
  intro u hu
  exact Nat.lt_irrefl _ (key u u hu)

/-- a Boolean check that implies `GoodCfg` (edges index-increasing) -/
def Cfg.check (c : Cfg) : Bool :=
  decide (∀ e ∈ c.D.edges, e.src < e.tgt ∧ e.tgt < c.D.n) &&
  decide (c.counts0.length = c.D.n) && decide (preload c).Nodup &&
  decide (∀ v ∈ preload c, v < c.D.n) &&
  decide (∀ v, v < c.D.n → ((children c.D v).Nodup ∧ (parents c.D v).Nodup ∧
    c.counts0[v]?.getD 0 = (parents c.D v).length ∧ (v ∈ preload c ↔ parents c.D v = [])))

theorem goodCfg_of_check {c : Cfg} (h : c.check = true) : GoodCfg c := by
  simp only [Cfg.check, Bool.and_eq_true, decide_eq_true_eq] at h
  obtain ⟨⟨⟨⟨h1, h2⟩, h3⟩, h4⟩, h5⟩ := h
  have hwf : WF c.D := fun e he => ⟨Nat.lt_trans (h1 e he).1 (h1 e he).2, (h1 e he).2⟩
  refine
    { wf := hwf, simple := ?_, acyclic := acyclic_of_increasing (fun e he => (h1 e he).1),
      countsLen := h2, counts := ?_, preNodup := h3, preMem := ?_ }
  · intro u
    by_cases hu : u < c.D.n
    · exact ⟨(h5 u hu).1, (h5 u hu).2.1⟩
    · rw [children_eq_nil_of_ge hwf (Nat.le_of_not_lt hu), parents_eq_nil_of_ge hwf (Nat.le_of_not_lt hu)]
      exact ⟨List.nodup_nil, List.nodup_nil⟩
  · intro v
    by_cases hv : v < c.D.n
    · exact (h5 v hv).2.2.1
    · have hv := Nat.le_of_not_lt hv
      rw [parents_eq_nil_of_ge hwf hv]
      have : c.counts0[v]? = none := List.getElem?_eq_none (by omega)
      simp [this]
  · intro v
    constructor
    · intro hm
      exact ⟨h4 v hm, ((h5 v (h4 v hm)).2.2.2).mp hm⟩
    · rintro ⟨hv, hp⟩
      exact ((h5 v hv).2.2.2).mpr hp

/-- diamond `0 → 1, 0 → 2, 1 → 3, 2 → 3` -/
def exDiamond_I : Cfg :=
  { D := { n := 4, edges := [⟨0, 1, .logic⟩, ⟨0, 2, .logic⟩, ⟨1, 3, .logic⟩, ⟨2, 3, .logic⟩] },
    counts0 := [0, 1, 1, 2] }

/-- join `0 → 2, 1 → 2` -/
def exJoin_I : Cfg :=
  { D := { n := 3, edges := [⟨0, 2, .logic⟩, ⟨1, 2, .logic⟩] }, counts0 := [0, 0, 2] }

theorem exDiamond_good_I : GoodCfg exDiamond_I := goodCfg_of_check (by decide)
theorem exJoin_good_I : GoodCfg exJoin_I := goodCfg_of_check (by decide)

/-- the state after the given actions from the initial state (`sinit` if some action is not enabled) -/
def exRun_I (c : Cfg) (drain : Bool) (as : List SAction) : SState := (srun c drain (sinit c) as).getD (sinit c)

theorem exRun_reachable_I {c : Cfg} {drain : Bool} {as : List SAction}
    (h : (srun c drain (sinit c) as).isSome = true) : SReachable c drain (exRun_I c drain as) := by
  apply sreachable_srun SReachable.init (as := as)
  unfold exRun_I
  cases hh : srun c drain (sinit c) as with
  | none => rw [hh] at h; cases h
  | some s => rfl

end FG
