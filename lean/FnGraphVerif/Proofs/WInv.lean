/-
  Proofs/WInv.lean — inductive invariant of the micro-step interruptible stream (`Proofs/WDefs.lean`):
  the invariant `MInv` of the inner micro machine (`Proofs/MInv.lean`; it does not mention the
  wrapper's `im`) holds at every micro state, plus the shape facts tying the wrapper's program
  counter to the inner one.
-/
import FnGraphVerif.Proofs.WDefs
namespace FG

/-! ### `pollNextPost` -/

theorem pollNextPost_pending {m : IM} {u : Under} (h : (pollNextPost m u).2 = .pending) : u = .pending := by
  unfold pollNextPost at h
  obtain ⟨_, _, _, sig, hp, _, _⟩ := m
  cases hp <;> cases sig <;> cases u <;> simp at h <;> rfl

theorem underOf_pending {r : PollRes} (h : underOf r = .pending) : r = .pending := by
  cases r <;> simp [underOf] at h ⊢

/-- `pollNextPost` neither reads nor writes the signal channel (`sent`) -/
theorem pollNextPost_sent (m : IM) (u : Under) :
    pollNextPost { m with sent := true } u =
      ({ (pollNextPost m u).1 with sent := true }, (pollNextPost m u).2) := by
  unfold pollNextPost
  obtain ⟨_, _, _, sig, hp, _, _⟩ := m
  cases hp <;> cases sig <;> cases u <;> rfl

/-! ### `MInv` does not depend on `im` -/

theorem minv_setIm {c : Cfg} {m : MState} (h : MInv c m) (i : IM) :
    MInv c { m with s := { m.s with im := i } } := by
  have hcore := h.core
  exact ⟨{ hcore with }, fun hp => ⟨(h.park hp).parked, (h.park hp).parkedWake⟩, h.inPoll, h.registered⟩

/-! ### the invariant -/

structure MIInv (c : Cfg) (x : MIState) : Prop where
  minv : MInv c x.m
  wIdle : x.w = .idle → x.m.pc = .idle
  wChecked : x.w = .checked → x.m.pc = .idle ∧ x.m.s.streamDropped = false
  wInner : x.w = .inner → x.m.pc ≠ .idle
  wReturned : x.w = .returned → x.m.pc = .idle ∧ x.m.s.streamDropped = false ∧
    ∃ r, x.m.result = some r ∧ (x.m.s.lastPending = true ↔ r = .pending)

theorem miinv_init {c : Cfg} (hc : GoodCfg c) : MIInv c (miinit c) :=
  ⟨minv_init hc, fun _ => rfl, fun h => (by cases h), fun h => (by cases h), fun h => (by cases h)⟩

theorem miinv_check {c : Cfg} {x x' : MIState} (h : MIInv c x) (hs : mistep? c x .check = some x') :
    MIInv c x' := by
  simp only [mistep?] at hs
  split at hs
  · rename_i hg
    have hpc := h.wIdle hg.1
    split at hs
    · cases hs
      exact ⟨minv_setIm h.minv _, fun hw => (by cases hw), fun _ => ⟨hpc, hg.2⟩, fun hw => (by cases hw),
        fun hw => (by cases hw)⟩
    · rename_i hpi
      have hpi : pollsInner c.strat x.m.s.im = false := by simpa using hpi
      have hne := pollNext_noInner (u := .pending) hpi
      cases hs
      have hcore := h.minv.core
      refine ⟨⟨{ hcore with }, fun _ => ⟨?_, ?_⟩, h.minv.inPoll, fun hp => ?_⟩, fun _ => hpc,
        fun hw => ?_, fun hw => ?_, fun hw => ?_⟩
      · intro hp
        exact absurd (of_decide_eq_true hp) hne
      · intro hp
        exact absurd (of_decide_eq_true hp) hne
      · change x.m.pc = .readyPoll at hp; rw [hpc] at hp; cases hp
      · change x.w = .checked at hw; rw [hg.1] at hw; cases hw
      · change x.w = .inner at hw; rw [hg.1] at hw; cases hw
      · change x.w = .returned at hw; rw [hg.1] at hw; cases hw
  · cases hs

theorem miinv_pollBegin {c : Cfg} {x x' : MIState} (h : MIInv c x) (hs : mistep? c x .pollBegin = some x') :
    MIInv c x' := by
  simp only [mistep?] at hs
  split at hs
  · split at hs
    · rename_i m' hm
      cases hs
      have hi := minv_pollBegin h.minv hm
      refine ⟨hi, fun hw => (by cases hw), fun hw => (by cases hw), fun _ => ?_, fun hw => (by cases hw)⟩
      simp only [mstep?] at hm
      split at hm
      · cases hm; simp
      · cases hm
    · cases hs
  · cases hs

theorem miinv_drainStep {c : Cfg} (hc : GoodCfg c) {x x' : MIState} (h : MIInv c x)
    (hs : mistep? c x .drainStep = some x') : MIInv c x' := by
  simp only [mistep?] at hs
  split at hs
  · rename_i hw0
    split at hs
    · rename_i m' hm
      cases hs
      have hi := minv_drainStep hc h.minv hm
      refine ⟨hi, fun hw => ?_, fun hw => ?_, fun _ => ?_, fun hw => ?_⟩
      · change x.w = .idle at hw; rw [hw0] at hw; cases hw
      · change x.w = .checked at hw; rw [hw0] at hw; cases hw
      · simp only [mstep?] at hm
        split at hm
        · rename_i hpc
          split at hm
          · cases hm
            show x.m.pc ≠ .idle
            rw [hpc]; simp
          · cases hm; simp
        · cases hm
      · change x.w = .returned at hw; rw [hw0] at hw; cases hw
    · cases hs
  · cases hs

theorem readyStep_facts' {c : Cfg} {m m' : MState} (hs : mstep? c m .readyStep = some m') :
    m.pc = .readyPoll ∧ m'.pc = .idle ∧ m'.s.streamDropped = m.s.streamDropped ∧
    ∃ r, m'.result = some r ∧ (m'.s.lastPending = true ↔ r = .pending) := by
  simp only [mstep?] at hs
  split at hs
  · rename_i hpc
    cases hs
    refine ⟨hpc, rfl, ?_, _, rfl, ?_⟩
    · show (sReadyHalf m.s).1.streamDropped = m.s.streamDropped
      rw [sReadyHalf_eq]; exact (spollTail_facts m.s).1
    · simp
  · cases hs

theorem miinv_readyStep {c : Cfg} {x x' : MIState} (h : MIInv c x)
    (hs : mistep? c x .readyStep = some x') : MIInv c x' := by
  simp only [mistep?] at hs
  split at hs
  · split at hs
    · rename_i m' hm
      cases hs
      have hi := minv_readyStep h.minv hm
      obtain ⟨a1, a2, a3, a4⟩ := readyStep_facts' hm
      have hsd : x.m.s.streamDropped = false := h.minv.inPoll (by rw [a1]; simp)
      refine ⟨hi, fun hw => (by cases hw), fun hw => (by cases hw), fun hw => (by cases hw), fun _ => ?_⟩
      exact ⟨a2, a3.trans hsd, a4⟩
    · cases hs
  · cases hs

theorem miinv_finish {c : Cfg} {x x' : MIState} (h : MIInv c x) (hs : mistep? c x .finish = some x') :
    MIInv c x' := by
  simp only [mistep?] at hs
  split at hs
  · rename_i hw0
    obtain ⟨hpc, hsd, r0, hr0, hlp⟩ := h.wReturned hw0
    split at hs
    · rename_i r hr
      cases hs
      rw [hr0] at hr
      cases hr
      have hcore := h.minv.core
      have hpk := h.minv.park hpc
      have key : decide ((pollNextPost x.m.s.im (underOf r0)).2 = .pending) = true → x.m.s.lastPending = true := by
        intro hp
        exact hlp.mpr (underOf_pending (pollNextPost_pending (of_decide_eq_true hp)))
      refine ⟨⟨{ hcore with }, fun _ => ⟨fun hp => hpk.parked (key hp), fun hp => hpk.parkedWake (key hp)⟩,
        h.minv.inPoll, h.minv.registered⟩, fun _ => hpc, fun hw => (by cases hw), fun hw => (by cases hw),
        fun hw => (by cases hw)⟩
    · cases hs
  · cases hs

theorem miinv_drop {c : Cfg} {x x' : MIState} {f : Nat} (h : MIInv c x)
    (hs : mistep? c x (.drop f) = some x') : MIInv c x' := by
  simp only [mistep?] at hs
  split at hs
  · rename_i m' hm
    cases hs
    have hi := minv_drop h.minv hm
    simp only [mstep?] at hm
    split at hm
    · rename_i s' hd
      cases hm
      obtain ⟨e1, _, e3, _⟩ := sdrop_frame hd
      refine ⟨hi, h.wIdle, fun hw => ⟨(h.wChecked hw).1, e1.trans (h.wChecked hw).2⟩, h.wInner, fun hw => ?_⟩
      obtain ⟨b1, b2, r, b3, b4⟩ := h.wReturned hw
      exact ⟨b1, e1.trans b2, r, b3, by rw [← b4]; show s'.lastPending = true ↔ _; rw [e3]⟩
    · cases hm
  · cases hs

theorem miinv_dropStream {c : Cfg} {x x' : MIState} (h : MIInv c x)
    (hs : mistep? c x .dropStream = some x') : MIInv c x' := by
  simp only [mistep?] at hs
  split at hs
  · rename_i hw0
    split at hs
    · rename_i m' hm
      cases hs
      have hi := minv_dropStream h.minv hm
      simp only [mstep?] at hm
      split at hm
      · cases hm
        refine ⟨hi, h.wIdle, fun hw => ?_, fun hw => ?_, fun hw => ?_⟩
        · change x.w = .checked at hw; rw [hw0] at hw; cases hw
        · change x.w = .inner at hw; rw [hw0] at hw; cases hw
        · change x.w = .returned at hw; rw [hw0] at hw; cases hw
      · cases hm
    · cases hs
  · cases hs

theorem miinv_interrupt {c : Cfg} {x x' : MIState} (h : MIInv c x)
    (hs : mistep? c x .interrupt = some x') : MIInv c x' := by
  simp only [mistep?, Option.some.injEq] at hs
  subst hs
  exact ⟨minv_setIm h.minv _, h.wIdle, h.wChecked, h.wInner, h.wReturned⟩

theorem miinv_step {c : Cfg} (hc : GoodCfg c) {x x' : MIState} {a : MIAction} (h : MIInv c x)
    (hs : mistep? c x a = some x') : MIInv c x' := by
  cases a with
  | check => exact miinv_check h hs
  | pollBegin => exact miinv_pollBegin h hs
  | drainStep => exact miinv_drainStep hc h hs
  | readyStep => exact miinv_readyStep h hs
  | finish => exact miinv_finish h hs
  | drop f => exact miinv_drop h hs
  | dropStream => exact miinv_dropStream h hs
  | interrupt => exact miinv_interrupt h hs

theorem miinv_reachable {c : Cfg} (hc : GoodCfg c) {x : MIState} (hr : MIReachable c x) : MIInv c x := by
  induction hr with
  | init => exact miinv_init hc
  | step a _ hs ih => exact miinv_step hc ih hs

end FG
