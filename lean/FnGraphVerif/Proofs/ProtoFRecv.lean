/-
  Proofs/ProtoFRecv.lean — `Inv0` is preserved by the queuer (`queuerRecv`, `queuerEnd`).
-/
import FnGraphVerif.Proofs.ProtoFBase
namespace FG
variable {c : Cfg} {s s' : PState}

theorem step_queuerRecv (h : step? c s .queuerRecv = some s') :
    ∃ x rest, s.doneQ = x :: rest ∧
      s' = { s with doneQ := rest, qRemaining := s.qRemaining - 1,
                    readyTxOpen := s.readyTxOpen && s.qRemaining - 1 != 0,
                    counts := (relFold ((s.readyTxOpen && s.qRemaining - 1 != 0) && s.readyRxOpen) c.cap
                      (s.counts, s.readyQ, s.panic || s.qRemaining == 0) (children c.D x)).1,
                    readyQ := (relFold ((s.readyTxOpen && s.qRemaining - 1 != 0) && s.readyRxOpen) c.cap
                      (s.counts, s.readyQ, s.panic || s.qRemaining == 0) (children c.D x)).2.1,
                    panic := (relFold ((s.readyTxOpen && s.qRemaining - 1 != 0) && s.readyRxOpen) c.cap
                      (s.counts, s.readyQ, s.panic || s.qRemaining == 0) (children c.D x)).2.2,
                    released := s.released ++ [x] } := by
  simp only [step?] at h
  split at h
  · cases h
  · cases hd : s.doneQ with
    | nil => simp [hd] at h
    | cons x rest =>
      simp only [hd, decr] at h
      exact ⟨x, rest, rfl, (Option.some.inj h).symm⟩

theorem inv0_queuerRecv (hc : GoodCfg c) (hinv : Inv0 c s) (h : step? c s .queuerRecv = some s') :
    Inv0 c s' := by
  obtain ⟨x, rest, hd, rfl⟩ := step_queuerRecv h
  generalize hcs : ((s.readyTxOpen && s.qRemaining - 1 != 0) && s.readyRxOpen) = cs
  have hnd := hinv.relNodup
  rw [hd] at hnd
  have hxrel : x ∉ s.released := by
    intro hx
    exact (List.nodup_append.mp hnd).2.2 x hx x (by simp) rfl
  have hxrest : x ∉ rest := by
    have := (List.nodup_append.mp hnd).2.1
    exact (List.nodup_cons.mp this).1
  have hcn : (children c.D x).Nodup := (hc.simple x).1
  have hcp : ∀ v, (v ∈ children c.D x) ↔ (x ∈ parents c.D v) := by
    intro v; rw [mem_children, mem_parents]
  have hqpos : 0 < s.qRemaining := by
    have h1 := hinv.rel_len
    have h2 := hinv.qRem
    rw [hd] at h1; simp only [List.length_cons] at h1; omega
  have hq0 : (s.qRemaining == 0) = false := by
    rw [beq_eq_false_iff_ne]; omega
  have hcntpos : ∀ v ∈ children c.D x, s.counts[v]?.getD 0 ≠ 0 := by
    intro v hv
    rw [hinv.cnt v]; unfold unreleased
    have : x ∈ (parents c.D v).filter (fun p => decide (p ∉ s.released)) := by
      simp [(hcp v).mp hv, hxrel]
    exact Nat.ne_of_gt (List.length_pos_of_mem this)
  obtain ⟨t, ht, hsub, hone⟩ := relFold_ready_one cs c.cap (children c.D x) hcn
    (s.counts, s.readyQ, s.panic || s.qRemaining == 0)
  simp only at ht hone
  -- every newly queued child has all parents released afterwards and was nowhere before
  have hnew : ∀ v ∈ t, v ∉ s.readyQ ∧ v ∉ s.handedOut ∧ s.dropped ≠ some v := by
    intro v hv
    have hxp := (hcp v).mp (hsub.subset hv)
    exact ⟨fun hh => hxrel (hinv.ready v (Or.inl hh) x hxp),
           fun hh => hxrel (hinv.ready v (Or.inr (Or.inl hh)) x hxp),
           fun hh => hxrel (hinv.ready v (Or.inr (Or.inr hh)) x hxp)⟩
  have htn : t.Nodup := hcn.sublist hsub
  exact { hinv with
    cnt := by
      intro v
      have := relFold_counts cs c.cap (children c.D x) hcn (s.counts, s.readyQ, s.panic || s.qRemaining == 0) v
      simp only at this ⊢
      rw [this, hinv.cnt v]
      unfold unreleased
      rw [filter_unreleased_snoc _ (hc.simple v).2 _ _ hxrel]
      by_cases hv : v ∈ children c.D x
      · simp [hv, (hcp v).mp hv]
      · have : x ∉ parents c.D v := fun h => hv ((hcp v).mpr h)
        simp [hv, this]
    cntLen := by
      simp only [relFold_counts_length]; exact hinv.cntLen
    relNodup := by
      have : (s.released ++ [x]) ++ rest = s.released ++ (x :: rest) := by simp
      simp only [this]; exact hnd
    doneEnded := by
      intro y hy
      apply hinv.doneEnded
      rw [hd]
      simp only [List.mem_append, List.mem_cons, List.not_mem_nil, or_false] at hy ⊢
      rcases hy with (h | h) | h
      · exact Or.inl h
      · exact Or.inr (Or.inl h)
      · exact Or.inr (Or.inr h)
    ready := by
      intro v hv p hp
      simp only [ht, List.mem_append] at hv
      simp only [List.mem_append, List.mem_singleton]
      have hold : (v ∈ s.readyQ ∨ v ∈ s.handedOut ∨ s.dropped = some v) → p ∈ s.released :=
        fun hh => hinv.ready v hh p hp
      rcases hv with (hv | hvt) | hv
      · exact Or.inl (hold (Or.inl hv))
      · by_cases hpx : p = x
        · exact Or.inr hpx
        · left
          have h0 := hone v hvt
          rw [hinv.cnt v] at h0
          exact only_unreleased _ _ x p hxrel ((hcp v).mp (hsub.subset hvt)) hp hpx h0
      · exact Or.inl (hold (Or.inr hv))
    queueNodup := by
      simp only [ht]
      have hq := hinv.queueNodup
      rw [List.append_assoc, List.nodup_append] at hq
      rw [List.append_assoc, List.append_assoc, List.nodup_append]
      refine ⟨hq.1, ?_, ?_⟩
      · rw [List.nodup_append]
        refine ⟨htn, hq.2.1, ?_⟩
        intro a ha b hb hab; subst hab
        rcases List.mem_append.mp hb with hb | hb
        · exact (hnew a ha).2.1 hb
        · exact (hnew a ha).2.2 (by simpa [Option.mem_toList] using hb)
      · intro a ha b hb hab; subst hab
        rcases List.mem_append.mp hb with hb | hb
        · exact (hnew a hb).1 ha
        · exact hq.2.2 a ha a hb rfl
    bound := by
      intro v hv
      simp only [ht, List.mem_append] at hv
      rcases hv with (hv | hvt) | hv
      · exact hinv.bound v (Or.inl hv)
      · exact ((mem_children.mp (hsub.subset hvt)).lt hc.wf).2
      · exact hinv.bound v (Or.inr hv)
    noPanic := by
      apply relFold_panic _ _ _ hcn
      · simp [hinv.noPanic, hq0]
      · exact hcntpos
    qRem := by
      have := hinv.qRem
      simp only [List.length_append, List.length_singleton]; omega }

theorem inv0_queuerEnd (hinv : Inv0 c s) (h : step? c s .queuerEnd = some s') : Inv0 c s' := by
  simp only [step?] at h
  split at h
  · cases h
  · cases h
    exact { hinv with
      ret0 := fun r hr => ⟨(hinv.ret0 r hr).1, rfl, (hinv.ret0 r hr).2.2⟩ }

end FG
