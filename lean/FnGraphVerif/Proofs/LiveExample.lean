/-
  Proofs/LiveExample.lean — a concrete 4-node run configuration (a diamond with a data edge,
  limit 2) satisfying `GoodCfg`, used by the non-vacuity examples of `Theorems/C04.lean`.
-/
import FnGraphVerif.Proofs.LiveQuiet
namespace FG

/-- diamond `0 → 1 → 3`, `0 → 2 → 3` -/
def exD_G : Dag := ⟨4, [⟨0, 1, .logic⟩, ⟨0, 2, .logic⟩, ⟨1, 3, .logic⟩, ⟨2, 3, .data⟩]⟩

def exC_G (lim : Option Nat) : Cfg :=
  { D := exD_G, counts0 := [0, 1, 1, 2], limit := lim, errMode := .collect, strat := .pollN 1 }

theorem exD_edge_lt_G {u v : Nat} (h : IsEdge exD_G u v) : u < v := by
  obtain ⟨e, he, rfl, rfl⟩ := h
  simp only [exD_G, List.mem_cons, List.not_mem_nil, or_false] at he
  rcases he with rfl | rfl | rfl | rfl <;> simp

theorem exD_reachP_lt_G {u v : Nat} (h : ReachP exD_G u v) : u < v := by
  induction h with
  | edge he => exact exD_edge_lt_G he
  | tail _ he ih => exact Nat.lt_trans ih (exD_edge_lt_G he)

theorem ex_preload_G {c : Cfg} (hD : c.D = exD_G) (h0 : c.counts0 = [0, 1, 1, 2]) : preload c = [0] := by
  unfold preload
  rw [hD, h0]
  decide

/-- every configuration on the diamond with its in-degrees is good, whatever the API options -/
theorem ex_good_G {c : Cfg} (hD : c.D = exD_G) (h0 : c.counts0 = [0, 1, 1, 2]) : GoodCfg c where
  wf := by
    rw [hD]
    intro e he
    simp only [exD_G, List.mem_cons, List.not_mem_nil, or_false] at he
    rcases he with rfl | rfl | rfl | rfl <;> simp [exD_G]
  simple := by
    rw [hD]
    intro u
    match u with
    | 0 => decide
    | 1 => decide
    | 2 => decide
    | 3 => decide
    | u + 4 => simp [exD_G, children, parents]
  acyclic := by rw [hD]; exact fun u h => Nat.lt_irrefl u (exD_reachP_lt_G h)
  countsLen := by rw [hD, h0]; rfl
  counts := by
    rw [hD, h0]
    intro v
    match v with
    | 0 => decide
    | 1 => decide
    | 2 => decide
    | 3 => decide
    | u + 4 => simp [exD_G, parents]
  preNodup := by rw [ex_preload_G hD h0]; simp
  preMem := by
    intro v
    rw [ex_preload_G hD h0, hD]
    match v with
    | 0 => decide
    | 1 => decide
    | 2 => decide
    | 3 => decide
    | u + 4 => simp [exD_G]

theorem exC_good_G (lim : Option Nat) : GoodCfg (exC_G lim) := ex_good_G rfl rfl

/-- complete `f` (successfully or not), then run the internal actions to quiescence -/
def exStep_G (lim : Option Nat) (s : PState) (f : Nat) (ok : Bool) : PState :=
  settle (exC_G lim) ((step? (exC_G lim) s (.finish f ok)).getD s)

theorem exStep_reachable_G {lim : Option Nat} {s : PState} (hr : Reachable (exC_G lim) s) (f : Nat) (ok : Bool) :
    Reachable (exC_G lim) (exStep_G lim s f ok) := by
  unfold exStep_G
  apply settleN_reachable
  cases h : step? (exC_G lim) s (.finish f ok) with
  | none => exact hr
  | some s1 => exact Reachable.step _ hr h

/-- limit 2: `0` runs alone, then `1` and `2` together, then `3` -/
def exS0_G : PState := settle (exC_G (some 2)) (init (exC_G (some 2)))
def exS1_G : PState := exStep_G (some 2) exS0_G 0 true
def exS2_G : PState := exStep_G (some 2) exS1_G 2 true
def exS3_G : PState := exStep_G (some 2) exS2_G 1 true
def exS4_G : PState := exStep_G (some 2) exS3_G 3 true

theorem exS0_reach_G : Reachable (exC_G (some 2)) exS0_G := settleN_reachable _ .init
theorem exS1_reach_G : Reachable (exC_G (some 2)) exS1_G := exStep_reachable_G exS0_reach_G _ _
theorem exS2_reach_G : Reachable (exC_G (some 2)) exS2_G := exStep_reachable_G exS1_reach_G _ _
theorem exS3_reach_G : Reachable (exC_G (some 2)) exS3_G := exStep_reachable_G exS2_reach_G _ _
theorem exS4_reach_G : Reachable (exC_G (some 2)) exS4_G := exStep_reachable_G exS3_reach_G _ _

/-- unlimited: after `0` and `1` have returned, `2` is in flight and `3` waits for it -/
def exU0_G : PState := settle (exC_G none) (init (exC_G none))
def exU1_G : PState := exStep_G none exU0_G 0 true
def exU2_G : PState := exStep_G none exU1_G 1 true

theorem exU2_reach_G : Reachable (exC_G none) exU2_G :=
  exStep_reachable_G (exStep_reachable_G (settleN_reachable _ .init) _ _) _ _

end FG
