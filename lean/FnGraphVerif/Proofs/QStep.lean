/-
  Proofs/QStep.lean — every model step other than `ret` keeps the coupling `Coup`, and the
  specification predicates evaluated on the events it shows hold.
-/
import FnGraphVerif.Proofs.QCoup
namespace FG

variable {x : MonCtx} {m : PredSt} {s s1 : PState} {as : List Action}

/-- what is shown of one step: the coupling after it, and the notes it emits are ok -/
def StepGoal (x : MonCtx) (m : PredSt) (s : PState) (a : Action) (s1 : PState) (as : List Action) : Prop :=
  Coup x (predRun x m (stepEvents x.c x.control s a s1)).1 s1 (as ++ [a]) ∧
  ∀ n ∈ (predRun x m (stepEvents x.c x.control s a s1)).2, n.ok = true

theorem stepGoal_silent (hx : GoodCtx x) (h : Coup x m s as) {a : Action} (hs : step? x.c s a = some s1)
    (ha : a ≠ .interrupt) (hev : stepEvents x.c x.control s a s1 = [])
    (h1 : s1.handedOut = s.handedOut) (h2 : s1.invoked = s.invoked) (h3 : s1.endedOk = s.endedOk)
    (h4 : s1.failed = s.failed) : StepGoal x m s a s1 as := by
  unfold StepGoal
  rw [hev]
  exact ⟨h.silent hx hs ha hev h1 h2 h3 h4, by intro n hn; cases hn⟩

theorem stepEvents_schedPoll_same {c : Cfg} {ctl : Bool} (h : s1.handedOut = s.handedOut) :
    stepEvents c ctl s .schedPoll s1 = [] := by simp [stepEvents, h]

theorem stepEvents_schedPoll_snoc {c : Cfg} {ctl : Bool} {f : Nat} (h : s1.handedOut = s.handedOut ++ [f]) :
    stepEvents c ctl s .schedPoll s1 = [.handout f] := by simp [stepEvents, h]

/-! ### the silent internal actions -/

theorem step_queuerRecv_coup (hx : GoodCtx x) (h : Coup x m s as)
    (hs : step? x.c s .queuerRecv = some s1) : StepGoal x m s .queuerRecv s1 as := by
  obtain ⟨y, rest, _, e⟩ := step_queuerRecv hs
  exact stepGoal_silent hx h hs (by simp) rfl (by rw [e]) (by rw [e]) (by rw [e]) (by rw [e])

theorem step_queuerEnd_coup (hx : GoodCtx x) (h : Coup x m s as)
    (hs : step? x.c s .queuerEnd = some s1) : StepGoal x m s .queuerEnd s1 as := by
  obtain ⟨_, _, _, e⟩ := queuerEnd_cases hs
  exact stepGoal_silent hx h hs (by simp) rfl (by rw [e]) (by rw [e]) (by rw [e]) (by rw [e])

theorem step_schedEnd_coup (hx : GoodCtx x) (h : Coup x m s as)
    (hs : step? x.c s .schedEnd = some s1) : StepGoal x m s .schedEnd s1 as := by
  obtain ⟨_, _, _, e⟩ := schedEnd_cases hs
  exact stepGoal_silent hx h hs (by simp) rfl (by rw [e]) (by rw [e]) (by rw [e]) (by rw [e])

/-! ### `schedPoll`: C03 (no second hand-out) -/

theorem step_schedPoll_coup (hx : GoodCtx x) (h : Coup x m s as)
    (hs : step? x.c s .schedPoll = some s1) : StepGoal x m s .schedPoll s1 as := by
  have hinv := inv0_reachable hx.good h.reach
  obtain ⟨_, _, h3⟩ := step_schedPoll_F hs
  rcases h3 with ⟨im, se, rx, dtx, e⟩ | ⟨im, ca, f, rest, hq, e⟩ | ⟨im, f, rest, hq, e⟩
  · exact stepGoal_silent hx h hs (by simp) (stepEvents_schedPoll_same (by rw [e]))
      (by rw [e]) (by rw [e]) (by rw [e]) (by rw [e])
  · have e1 : s1.handedOut = s.handedOut ++ [f] := by rw [e]; rfl
    have e2 : s1.invoked = s.invoked := by rw [e]; rfl
    have e3 : s1.endedOk = s.endedOk := by rw [e]; rfl
    have e4 : s1.failed = s.failed := by rw [e]; rfl
    unfold StepGoal
    rw [stepEvents_schedPoll_snoc e1, predRun_single]
    refine ⟨?_, ?_⟩
    · refine h.extend hs (by simp) _ rfl rfl ?_ ?_ ?_ ?_ ?_ ?_
      · rw [predFut_handout_fst, e1, ← h.ho]
      · rw [predFut_handout_fst, e2, ← h.inv]
      · rw [predFut_handout_fst, e3, ← h.eok]
      · rw [predFut_handout_fst, e4, ← h.fl]
      · intro g; rw [predFut_handout_fst, e3, e4]; exact h.ended g
      · intro h0; rw [predFut_handout_fst] at h0; simp at h0
    · apply predFut_handout_ok
      rw [h.ho]
      exact (hinv.head_not_handed hq).2.1
  · exact stepGoal_silent hx h hs (by simp) (stepEvents_schedPoll_same (by rw [e]))
      (by rw [e]) (by rw [e]) (by rw [e]) (by rw [e])

/-! ### `finish` -/

theorem step_finish_coup (hx : GoodCtx x) (h : Coup x m s as) {f : Nat} {ok : Bool}
    (hs : step? x.c s (.finish f ok) = some s1) : StepGoal x m s (.finish f ok) s1 as := by
  obtain ⟨hf1, _, h3⟩ := step_finish hs
  have hev : stepEvents x.c x.control s (.finish f ok) s1 = [.fin f ok] := rfl
  unfold StepGoal
  rw [hev, predRun_single]
  refine ⟨?_, ?_⟩
  swap
  · -- C07 at the failure: a function ordered after `f` is handed out only after `f` ended ok, and
    -- `f` is still in flight
    have hinv := inv0_reachable hx.good h.reach
    apply predFut_fin_ok
    intro _ g hg
    rw [h.inv] at hg
    cases hrp : reachPlus x.c.D f g with
    | false => rfl
    | true =>
      exact absurd (handout_after_ancestors hx.good h.reach (Or.inr (Or.inl (hinv.invHanded g hg)))
        (reachPlus_sound hrp)) (hinv.inflNotEnded f hf1).1
  have key : s1.handedOut = s.handedOut ∧ s1.invoked = s.invoked ∧
      s1.endedOk = (if ok then s.endedOk ++ [f] else s.endedOk) ∧
      s1.failed = (if ok then s.failed else s.failed ++ [f]) := by
    rcases h3 with ⟨hok, dq, _, e⟩ | ⟨hok, _, e⟩ | ⟨hok, _, e⟩ <;> subst hok <;> rw [e] <;>
      exact ⟨rfl, rfl, rfl, rfl⟩
  obtain ⟨e1, e2, e3, e4⟩ := key
  refine h.extend hs (by simp) _ rfl rfl ?_ ?_ ?_ ?_ ?_ ?_
  · rw [predFut_fin_fst, e1, ← h.ho]
  · rw [predFut_fin_fst, e2, ← h.inv]
  · rw [predFut_fin_fst, e3, ← h.eok]
  · rw [predFut_fin_fst, e4, ← h.fl]
  · intro g
    rw [predFut_fin_fst, e3, e4]
    simp only [List.mem_append, List.mem_singleton, h.ended]
    cases ok <;> simp only [if_true, if_false, Bool.false_eq_true, List.mem_append, List.mem_singleton] <;> tauto
  · intro h0; rw [predFut_fin_fst] at h0; simp at h0

/-! ### `interrupt` -/

theorem step_interrupt_coup (h : Coup x m s as) (hs : step? x.c s .interrupt = some s1)
    (hquiet : ∀ f ∈ s.inflight, f ∈ s.invoked) : StepGoal x m s .interrupt s1 as := by
  have e := interrupt_cases hs
  have hev : stepEvents x.c x.control s .interrupt s1 = [.intr] := rfl
  unfold StepGoal
  rw [hev, predRun_single]
  refine ⟨?_, by rw [predFut_intr_snd]; intro n hn; cases hn⟩
  rw [predFut_intr_fst]
  refine ⟨run_snoc_Q h.hrun hs, by rw [e]; exact h.ho, by rw [e]; exact h.inv, by rw [e]; exact h.eok,
    by rw [e]; exact h.fl, by rw [e]; exact h.ended, ?_, ?_, ?_⟩
  · intro hn
    exfalso
    simp only at hn
    cases hi : m.intrAt with
    | none => rw [hi] at hn; cases hn
    | some k => rw [hi] at hn; cases hn
  · intro k hk
    simp only at hk
    cases hi : m.intrAt with
    | none =>
      rw [hi] at hk
      simp only [Option.some.injEq] at hk
      refine ⟨as, [], s, rfl, h.intrNone hi, h.hrun, hquiet, by rw [← hk, h.inv], ?_⟩
      intro hp
      simp only [Option.isNone_none, if_true, beq_iff_eq] at hp
      exact h.first hp
    | some k0 =>
      rw [hi] at hk
      simp only [Option.some.injEq] at hk
      subst hk
      obtain ⟨pre, rest, s0, e1, e2, e3, e4, e5, e6⟩ := h.intrSome k0 hi
      refine ⟨pre, rest ++ [.interrupt], s0, by rw [e1]; simp, e2, e3, e4, e5, ?_⟩
      intro hp
      simp only [Option.isNone_some, Bool.false_eq_true, if_false] at hp
      exact e6 hp
  · intro h0; simp at h0

end FG
