/-
  Proofs/ProtoSafety.lean — `Inv` is inductive: it holds initially and every action preserves it.

  FINDING.  `Inv` (clauses `short`, `sDoneInfl`, `retFrozen`) is NOT inductive under `GoodCfg`
  alone: a configuration with `errMode = .shortCircuit` and `sequential = false` (which no real
  API produces: every `try_fold*` is sequential) can finish the scheduler with another function
  still in flight.  The missing side condition is `Cfg.ApiOk`; a kernel-checked counterexample
  follows its definition.  The sub-invariant `Inv0` (Proofs/ProtoFBase.lean: every clause of `Inv`,
  the three above in a weaker form) IS inductive under `GoodCfg` alone (`inv0_reachable`).
-/
import FnGraphVerif.Proofs.ProtoInv
import FnGraphVerif.Proofs.ProtoFBase
import FnGraphVerif.Proofs.ProtoFRecv
import FnGraphVerif.Proofs.ProtoFSched
import FnGraphVerif.Proofs.ProtoFFinish
import FnGraphVerif.Proofs.ProtoFExample
namespace FG

/-- every real API kind: the short-circuiting `try_fold*` family is sequential -/
def Cfg.ApiOk (c : Cfg) : Prop := c.errMode = .shortCircuit → c.sequential = true

/-- COUNTEREXAMPLE (kernel-checked): in `cxCfg_F` (two unrelated functions, `shortCircuit`, NOT
    sequential, so `¬ cxCfg_F.ApiOk`) both functions are handed out, function 1 fails, the scheduler
    finishes and the call returns `Err 1` while function 0 is still in flight. -/
def cxTrace_F : List Action :=
  [.schedPoll, .schedPoll, .invoke 0, .invoke 1, .finish 1 false, .queuerEnd, .ret]

example : (run cxCfg_F (init cxCfg_F) cxTrace_F).any
    (fun s => s.sDone && s.result == some (.err 1) && s.inflight == [0]) = true := by decide

example : ¬ cxCfg_F.ApiOk := by unfold Cfg.ApiOk; decide

theorem cx_reachable : ∃ s, Reachable cxCfg_F s ∧ s.sDone = true ∧ s.result = some (.err 1) ∧ s.inflight = [0] := by
  have h : (run cxCfg_F (init cxCfg_F) cxTrace_F).any
      (fun s => s.sDone && s.result == some (.err 1) && s.inflight == [0]) = true := by decide
  obtain ⟨s, hr, hp⟩ := reachable_of_any h
  simp only [Bool.and_eq_true, beq_iff_eq] at hp
  exact ⟨s, hr, hp.1.1, hp.1.2, hp.2⟩

/-- `Inv` is not an invariant under `GoodCfg` alone: the original statements of `inv_step` /
    `inv_reachable` (without `ApiOk`) are false. -/
theorem inv_needs_apiOk : ¬ (∀ (c : Cfg) (s : PState), GoodCfg c → Reachable c s → Inv c s) := by
  intro h
  obtain ⟨s, hr, hsd, _, hi⟩ := cx_reachable
  have := (h cxCfg_F s cxCfg_good_F hr).sDoneInfl hsd
  rw [hi] at this; cases this

/-! ### `Inv0` is inductive -/

theorem inv0_init {c : Cfg} (hc : GoodCfg c) : Inv0 c (init c) := by
  have hlen : (preload c).length ≤ c.n :=
    nodup_bounded_length hc.preNodup (fun x hx => ((hc.preMem x).mp hx).1)
  have hcap := cap_ge c
  unfold init
  refine
    { cnt := ?_, cntLen := hc.countsLen, relNodup := by simp, doneEnded := by simp,
      ready := ?_, queueNodup := ?_, bound := ?_,
      inflHanded := by simp, inflNodup := by simp, endNodup := by simp, inflNotEnded := by simp,
      endedHanded := by simp, handedSplit := by simp, invHanded := by simp, invNodup := by simp,
      endedInvoked := by simp, noPanic := ?_, qRem := by simp, sRem := by simp, errs := by simp,
      failedMode := by simp, short0 := by simp, shortOnly := by simp, shortDone := by simp,
      limSeq := by simp, limPar := by simp, sDoneInfl0 := by simp, ret0 := by simp }
  · intro v
    simp only [hc.counts v, unreleased]
    simp
  · intro v hv p hp
    simp only [List.not_mem_nil, or_false, reduceCtorEq] at hv
    rw [((hc.preMem v).mp hv).2] at hp
    cases hp
  · simpa using hc.preNodup
  · intro v hv
    simp only [List.not_mem_nil, or_false, reduceCtorEq] at hv
    exact ((hc.preMem v).mp hv).1
  · simp only [decide_eq_false_iff_not]; omega

theorem inv0_step {c : Cfg} (hc : GoodCfg c) {s s' : PState} {a : Action}
    (hinv : Inv0 c s) (h : step? c s a = some s') : Inv0 c s' := by
  cases a with
  | queuerRecv => exact inv0_queuerRecv hc hinv h
  | queuerEnd => exact inv0_queuerEnd hinv h
  | schedPoll => exact inv0_schedPoll hinv h
  | invoke f => exact inv0_invoke hinv h
  | finish f ok => exact inv0_finish hinv h
  | interrupt => exact inv0_interrupt hinv h
  | schedEnd => exact inv0_schedEnd hinv h
  | ret => exact inv0_ret hinv h

theorem inv0_reachable {c : Cfg} (hc : GoodCfg c) {s : PState} (hr : Reachable c s) : Inv0 c s := by
  induction hr with
  | init => exact inv0_init hc
  | step a _ h ih => exact inv0_step hc ih h

/-! ### the three clauses of `Inv` that need `ApiOk` -/

/-- the clauses of `Inv` beyond `Inv0` -/
structure InvX (c : Cfg) (s : PState) : Prop where
  short : c.errMode = .shortCircuit → s.failed = s.shortErr.toList
  sDoneInfl : s.sDone = true → s.inflight = []
  retFrozen : ∀ r, s.result = some r → r = mkRet c s ∧ s.sDone = true ∧ s.qDone = true

theorem Inv.of_parts {c : Cfg} {s : PState} (h0 : Inv0 c s) (hx : InvX c s) : Inv c s :=
  { h0, hx with }

theorem mkRet_outcome {c : Cfg} {s : PState} {fin : Bool} {p np e : List Nat}
    (h : mkRet c s = .outcome fin p np e) : s.shortErr = none := by
  unfold mkRet at h
  cases hse : s.shortErr with
  | none => rfl
  | some g => rw [hse] at h; cases h

theorem Inv.to0 {c : Cfg} {s : PState} (h : Inv c s) : Inv0 c s :=
  { h with
    short0 := fun hm hn => by have := h.short hm; rw [hn] at this; exact this
    sDoneInfl0 := fun hd _ => h.sDoneInfl hd
    ret0 := fun r hr => by
      obtain ⟨h1, h2, h3⟩ := h.retFrozen r hr
      exact ⟨h2, h3, fun _ => h1, fun fin p np e he => mkRet_outcome (h1 ▸ he)⟩ }

theorem Inv.toX {c : Cfg} {s : PState} (h : Inv c s) : InvX c s := { h with }

theorem invX_init {c : Cfg} : InvX c (init c) := by
  unfold init
  exact { short := by simp, sDoneInfl := by simp, retFrozen := by simp }

theorem invX_step {c : Cfg} (hapi : c.ApiOk) {s s' : PState} {a : Action}
    (h0 : Inv0 c s) (hx : InvX c s) (h : step? c s a = some s') : InvX c s' := by
  cases a with
  | queuerRecv =>
    obtain ⟨x, rest, _, rfl⟩ := step_queuerRecv h
    exact { hx with }
  | queuerEnd =>
    simp only [step?] at h
    split at h
    · cases h
    · cases h
      exact { hx with
        retFrozen := fun r hr => ⟨(hx.retFrozen r hr).1, (hx.retFrozen r hr).2.1, rfl⟩ }
  | schedPoll =>
    obtain ⟨hsd, hu, h | h | h⟩ := step_schedPoll_F h
    · obtain ⟨m, se, rx, dtx, rfl⟩ := h
      exact { hx with }
    · obtain ⟨m, ca, f, rest, hq, rfl⟩ := h
      unfold handOut
      exact { hx with
        sDoneInfl := fun hd => by rw [hsd] at hd; cases hd
        retFrozen := fun r hr => by have := (hx.retFrozen r hr).2.1; rw [hsd] at this; cases this }
    · obtain ⟨m, f, rest, hq, rfl⟩ := h
      exact { hx with }
  | invoke f =>
    simp only [step?] at h
    split at h
    · cases h; exact { hx with }
    · cases h
  | finish f ok =>
    obtain ⟨hf, hfi, h | h | h⟩ := step_finish h
    · obtain ⟨_, dq, hdq, rfl⟩ := h
      exact { hx with
        sDoneInfl := fun hd => by have := hx.sDoneInfl hd; rw [this] at hf; cases hf
        retFrozen := fun r hr => by
          have := hx.sDoneInfl (hx.retFrozen r hr).2.1; rw [this] at hf; cases hf }
    · obtain ⟨_, hm, rfl⟩ := h
      exact { hx with
        short := fun hm' => by rw [hm] at hm'; cases hm'
        sDoneInfl := fun hd => by have := hx.sDoneInfl hd; rw [this] at hf; cases hf
        retFrozen := fun r hr => by
          have := hx.sDoneInfl (hx.retFrozen r hr).2.1; rw [this] at hf; cases hf }
    · obtain ⟨_, hm, rfl⟩ := h
      have hnone : s.shortErr = none := by
        cases hse : s.shortErr with
        | none => rfl
        | some g =>
          have := hx.sDoneInfl (h0.shortDone (by simp [hse]))
          rw [this] at hf; cases hf
      have hlen := h0.limSeq (hapi hm)
      exact { hx with
        short := fun _ => by
          have := hx.short hm
          rw [hnone] at this
          show s.failed ++ [f] = [f]
          rw [this]; rfl
        sDoneInfl := fun _ => by
          show s.inflight.erase f = []
          match hi : s.inflight, hf, hlen with
          | [g], hf, _ =>
            simp only [List.mem_singleton] at hf; subst hf; simp
          | _ :: _ :: _, _, hlen => simp at hlen
        retFrozen := fun r hr => by
          have := hx.sDoneInfl (hx.retFrozen r hr).2.1; rw [this] at hf; cases hf }
  | interrupt =>
    simp only [step?] at h
    cases h; exact { hx with }
  | schedEnd =>
    simp only [step?] at h
    split at h
    · rename_i hg
      simp only [Bool.and_eq_true, List.isEmpty_iff, Bool.not_eq_true'] at hg
      cases h
      exact { hx with
        sDoneInfl := fun _ => hg.1.2
        retFrozen := fun r hr => ⟨(hx.retFrozen r hr).1, rfl, (hx.retFrozen r hr).2.2⟩ }
    · cases h
  | ret =>
    simp only [step?] at h
    split at h
    · rename_i hg
      simp only [Bool.and_eq_true, Option.isNone_iff_eq_none] at hg
      cases h
      exact { hx with
        retFrozen := fun r hr => ⟨(Option.some.inj hr).symm, hg.1.1, hg.1.2⟩ }
    · cases h

/-! ### `Inv` is inductive (under `ApiOk`) -/

theorem inv_init {c : Cfg} (hc : GoodCfg c) : Inv c (init c) :=
  Inv.of_parts (inv0_init hc) invX_init

/-- ORIGINAL STATEMENT (false, see the counterexample below):
    `theorem inv_step (hc : GoodCfg c) (hinv : Inv c s) (h : step? c s a = some s') : Inv c s'`.
    Side condition added: `hapi : c.ApiOk`. -/
theorem inv_step {c : Cfg} (hc : GoodCfg c) (hapi : c.ApiOk) {s s' : PState} {a : Action}
    (hinv : Inv c s) (h : step? c s a = some s') : Inv c s' :=
  Inv.of_parts (inv0_step hc hinv.to0 h) (invX_step hapi hinv.to0 hinv.toX h)

theorem inv_reachable {c : Cfg} (hc : GoodCfg c) (hapi : c.ApiOk) {s : PState} (hr : Reachable c s) :
    Inv c s := by
  induction hr with
  | init => exact inv_init hc
  | step a _ h ih => exact inv_step hc hapi ih h

end FG
