/-
  Proofs/SQuiesce.lean — the coupling `Cpl` at the points where the monitor compares: a `q`
  observation (the real state is quiescent and has not returned; the monitor `settle`s) and the
  return of the call.
-/
import FnGraphVerif.Proofs.SCoupling
namespace FG
variable {x : MonCtx} {s s1 : PState} {t : TrackSt}

theorem cpl_settled (h : Cpl x s t) (hsim : SimC s (settle x.c t.s)) :
    Cpl x s { t with s := settle x.c t.s } where
  rs := h.rs
  rt := settle_reachable h.rt
  join := JoinC.of_sim hsim
  ho := hsim.handedOut.symm
  infl := hsim.inflight.symm
  inv := fun f hf => (settle_invoked_prefix x.c t.s).subset (h.inv f hf)
  rInv := h.rInv
  rHo := h.rHo

/-- at a quiescent point of a run that invoked in hand-out order, everything handed out has been
    invoked, in that order -/
theorem quiescent_invoked_eq {c : Cfg} (hc : GoodCfg c) (hr : Reachable c s) (hq : Quiescent c s)
    (hres : s.result = none) (hfifo : s.invoked <+: s.handedOut) : s.invoked = s.handedOut := by
  have hinv := inv0_reachable hc hr
  have hall := (nextInternal_none (quiescent_iff.mp hq) hres).1
  apply prefix_eq_of_subset_nodup hfifo hinv.handedOut_nodup
  intro f hf
  rcases hinv.handedSplit f hf with h1 | h1 | h1
  · exact hall f h1
  · exact hinv.endedInvoked f (Or.inl h1)
  · exact hinv.endedInvoked f (Or.inr h1)

theorem quiescent_fifoInv_invoked {c : Cfg} (hq : Quiescent c s) (hres : s.result = none) (hf : FifoInv s) :
    s.invoked = s.handedOut := by
  have hall := (nextInternal_none (quiescent_iff.mp hq) hres).1
  unfold FifoInv at hf
  have : s.inflight.filter (fun f => decide (f ∉ s.invoked)) = [] := by
    apply List.filter_eq_nil_iff.mpr
    intro f hfi
    simp [hall f hfi]
  rw [this, List.append_nil] at hf
  exact hf.symm

/-- the one note whose agreement needs closures to be started in hand-out order -/
def Note.isQInvoked : Note → Prop
  | .cmp f w _ _ => f = "R-quiesce" ∧ w = Ev.q.text ++ " invoked"
  | _ => False

theorem fifo_settle (hx : GoodCtx x) (h : Cpl x s t) (hfi : FifoInv t.s) :
    FifoInv (settle x.c t.s) := fifoInv_settleN hx.good _ h.rt hfi

theorem cpl_q (hx : GoodCtx x) (h : Cpl x s t) (hq : Quiescent x.c s) (hres : s.result = none) :
    Cpl x s (trackFut x t .q).1 ∧ SimC s (trackFut x t .q).1.s ∧
    ∀ n ∈ (trackFut x t .q).2,
      ((FifoInv t.s ∧ s.invoked <+: s.handedOut) → n.ok = true) ∧ (n.ok = true ∨ n.isQInvoked) := by
  have hc := hx.good
  have hsim : SimC s (settle x.c t.s) := h.join.sim_settle hc h.rs h.rt (quiescent_nf hc h.rs hq)
  have hcpl := cpl_settled h hsim
  have hres' : (settle x.c t.s).result = none := by rw [← hsim.result]; exact hres
  have hpan : (settle x.c t.s).panic = false := (inv0_reachable hc (settle_reachable h.rt)).noPanic
  have hho : (settle x.c t.s).handedOut = t.realHandout := by rw [← hsim.handedOut, h.rHo]
  have hinvk : (FifoInv t.s ∧ s.invoked <+: s.handedOut) → (settle x.c t.s).invoked = t.realInvoked := by
    rintro ⟨hfi, hfifo⟩
    rw [quiescent_fifoInv_invoked (settle_quiescent hc h.rt) hres' (fifo_settle hx h hfi), hho, h.rHo, h.rInv]
    exact (quiescent_invoked_eq hc h.rs hq hres hfifo).symm
  have htf : trackFut x t .q =
      ({ t with s := settle x.c t.s },
       [.cmp "R-quiesce" (Ev.q.text ++ " returned") (toString (settle x.c t.s).result.isSome) "false",
        .cmp "R-quiesce" (Ev.q.text ++ " invoked") (natsText (settle x.c t.s).invoked) (natsText t.realInvoked)]
       ++ (if t.sawHandoutHook || t.realInvoked.isEmpty then
             [.cmp "R-quiesce" (Ev.q.text ++ " handedOut") (natsText (settle x.c t.s).handedOut) (natsText t.realHandout)]
           else [])
       ++ [.cmp "R-quiesce" (Ev.q.text ++ " panic") (toString (settle x.c t.s).panic) "false"]) := rfl
  rw [htf]
  refine ⟨hcpl, hsim, ?_⟩
  have ok_all : ∀ n : Note, n.ok = true →
      ((FifoInv t.s ∧ s.invoked <+: s.handedOut) → n.ok = true) ∧ (n.ok = true ∨ n.isQInvoked) :=
    fun n hn => ⟨fun _ => hn, Or.inl hn⟩
  intro n hn
  simp only [List.mem_append, List.mem_cons, List.not_mem_nil, or_false] at hn
  rcases hn with ((hn | hn) | hn) | hn
  · subst hn; apply ok_all; rw [Note.ok_cmp, hres']; rfl
  · subst hn
    exact ⟨fun hf => by rw [Note.ok_cmp, hinvk hf], Or.inr ⟨rfl, rfl⟩⟩
  · by_cases hb : (t.sawHandoutHook || t.realInvoked.isEmpty) = true
    · rw [if_pos hb] at hn
      simp only [List.mem_singleton] at hn
      subst hn; apply ok_all; rw [Note.ok_cmp, hho]
    · rw [if_neg hb] at hn
      exact absurd hn List.not_mem_nil
  · subst hn; apply ok_all; rw [Note.ok_cmp, hpan]; rfl

/-! ### the return -/

theorem cpl_ret (hx : GoodCtx x) (h : Cpl x s t) (hs : step? x.c s .ret = some s1) :
    Cpl x s1 (trackRun x t (stepEvents x.c x.control s .ret s1)).1 ∧
    ∀ n ∈ (trackRun x t (stepEvents x.c x.control s .ret s1)).2, n.ok = true := by
  have hc := hx.good
  obtain ⟨_, _, _, hs1⟩ := ret_cases hs
  have hrs1 : Reachable x.c s1 := Reachable.step _ h.rs hs
  have hr1 : s1.result = some (mkRet x.c s) := by rw [hs1]
  have hret : Action.ret.internal := ⟨by simp, by simp⟩
  have hj1 : JoinC x.c s1 t.s :=
    JoinC.trans hc hrs1 h.rs h.rt (JoinC.of_internal_step hc h.rs hret hs).symm h.join
  have hsim : SimC s1 (settle x.c t.s) :=
    hj1.sim_settle hc hrs1 h.rt (nf_of_result hc hrs1 (by rw [hr1]; rfl))
  have hcpl1 : Cpl x s1 t := cpl_silent hx h hret hs (by rw [hs1]) (by rw [hs1]) (by rw [hs1])
  have hcpl := cpl_settled hcpl1 hsim
  have hres' : (settle x.c t.s).result = some (mkRet x.c s) := by rw [← hsim.result]; exact hr1
  generalize mkRet x.c s = r at hr1 hres'
  cases r with
  | outcome fnd p np errs =>
    have hev : stepEvents x.c x.control s .ret s1 =
        [.retOutcome fnd p np errs (if x.control then (if (Ret.outcome fnd p np errs).isBreak then "break" else "cont") else "na")] := by
      simp only [stepEvents, hr1]
    rw [hev, trackRun_singleton]
    have htf : trackFut x t (.retOutcome fnd p np errs
          (if x.control then (if (Ret.outcome fnd p np errs).isBreak then "break" else "cont") else "na")) =
        ({ t with s := settle x.c t.s },
         [.cmp "R-outcome" (Ev.retOutcome fnd p np errs
            (if x.control then (if (Ret.outcome fnd p np errs).isBreak then "break" else "cont") else "na")).text
            (match (settle x.c t.s).result with | some r => retText r x.control | none => "not-returned")
            (Ev.retOutcome fnd p np (errs.mergeSort (· ≤ ·))
              (if x.control then (if (Ret.outcome fnd p np errs).isBreak then "break" else "cont") else "na")).text]) := rfl
    rw [htf]
    refine ⟨hcpl, ?_⟩
    intro n hn
    simp only [List.mem_singleton] at hn
    subst hn
    rw [Note.ok_cmp, hres']
    rfl
  | err f =>
    have hev : stepEvents x.c x.control s .ret s1 = [.retErr f] := by
      simp only [stepEvents, hr1]
    rw [hev, trackRun_singleton]
    have htf : trackFut x t (.retErr f) =
        ({ t with s := settle x.c t.s },
         [.cmp "R-outcome" (Ev.retErr f).text
            (match (settle x.c t.s).result with | some r => retText r x.control | none => "not-returned")
            (Ev.retErr f).text]) := rfl
    rw [htf]
    refine ⟨hcpl, ?_⟩
    intro n hn
    simp only [List.mem_singleton] at hn
    subst hn
    rw [Note.ok_cmp, hres']
    rfl

end FG
