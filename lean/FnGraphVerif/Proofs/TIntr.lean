/-
  Proofs/TIntr.lean — the `InterruptibleStream` machine started from a CARRIED
  `InterruptibilityState` (`sent = s0`, `recv = r0`, `cnt = k0`; `sig = hp = ipc = ian = false`)
  in which a signal is already pending (`s0`) or was already received (`r0`).

  `PollNextN(n)`: the number of items handed on is at most `carriedBudget n r0 k0`
    = `n - (k0 + 1)` when `r0` (every poll that reaches the underlying stream is counted first),
    = `n - k0`       when only `s0` (the poll that first receives the signal is not counted).
  `FinishCurrent`: no item at all.
-/
import FnGraphVerif.Proofs.IntrMachine
namespace FG

/-- items a `PollNextN(n)` stream can still hand on, by the carried reception flag and count -/
def carriedBudget (n : Nat) (r0 : Bool) (k0 : Nat) : Nat := if r0 then n - (k0 + 1) else n - k0

/-- invariant for `PollNextN(n)` (any `n`, also 0) with the signal pending/received from the start;
    `y` = items handed on so far, `B` = the budget -/
structure InvW (n : Nat) (m : IM) (y B : Nat) : Prop where
  pend : m.recv = true ∨ m.sent = true
  ipcHp : m.ipc = true → m.hp = true
  hpOk : m.hp = true → m.recv = true ∧ m.cnt < n
  live : m.ian = false → m.sig = false ∧ y + carriedBudget n (m.recv && !m.hp) m.cnt ≤ B
  bound : y ≤ B

theorem invW_init (n : Nat) (s0 r0 : Bool) (k0 : Nat) (h : r0 = true ∨ s0 = true) :
    InvW n { sent := s0, recv := r0, cnt := k0 } 0 (carriedBudget n r0 k0) := by
  constructor <;> simp [h]

theorem invW_signal {n : Nat} {m : IM} {y B : Nat} (h : InvW n m y B) :
    InvW n { m with sent := true } y B := by
  obtain ⟨h1, h2, h3, h4, h5⟩ := h
  exact ⟨Or.inr rfl, h2, h3, h4, h5⟩

theorem invW_mono {n : Nat} {m : IM} {y y' B : Nat} (h : InvW n m y B) (hy : y' ≤ y) : InvW n m y' B := by
  obtain ⟨h1, h2, h3, h4, h5⟩ := h
  exact ⟨h1, h2, h3, fun hi => ⟨(h4 hi).1, by have := (h4 hi).2; omega⟩, by omega⟩

set_option maxHeartbeats 400000 in
/-- one poll preserves the invariant; the answer is never `Interrupted(Some _)` (the machine never
    decides to interrupt while parked on a `Pending` underlying poll) -/
theorem invW_poll {n : Nat} {m : IM} {y B : Nat} (u : Under) (h : InvW n m y B) :
    InvW n (pollNext (.pollN n) m u).1 (y + if (pollNext (.pollN n) m u).2.isItem then 1 else 0) B ∧
    (pollNext (.pollN n) m u).2 ≠ .intSome := by
  obtain ⟨sent, recv, cnt, sig, hp, ipc, ian⟩ := m
  obtain ⟨h1, h2, h3, h4, h5⟩ := h
  simp only at h1 h2 h3 h4 h5
  cases ian with
  | true => refine ⟨⟨?_, ?_, ?_, ?_, ?_⟩, ?_⟩ <;> simp_all [pollNext, Out.isItem]
  | false =>
    obtain ⟨hsig, hy⟩ := h4 rfl
    subst hsig
    cases hp with
    | true =>
      obtain ⟨hrecv, hcnt⟩ := h3 rfl
      subst hrecv
      have hnc : ¬ n ≤ cnt := by omega
      simp only [carriedBudget, Bool.not_true, Bool.and_false, Bool.false_eq_true, if_false] at hy
      cases ipc <;> cases sent <;> cases u <;> refine ⟨⟨?_, ?_, ?_, ?_, ?_⟩, ?_⟩ <;>
        simp [pollNext, interruptCheck, Strat.isN, Out.isItem, carriedBudget, hnc] <;> omega
    | false =>
      have hipc : ipc = false := by
        cases ipc with
        | false => rfl
        | true => exact absurd (h2 rfl) (by simp)
      subst hipc
      cases recv with
      | true =>
        simp only [carriedBudget, Bool.not_false, Bool.and_self, if_true] at hy
        by_cases hint : n ≤ cnt + 1
        · cases sent <;> cases u <;> refine ⟨⟨?_, ?_, ?_, ?_, ?_⟩, ?_⟩ <;>
            simp [pollNext, interruptCheck, Strat.isN, Out.isItem, carriedBudget, hint] <;> omega
        · cases sent <;> cases u <;> refine ⟨⟨?_, ?_, ?_, ?_, ?_⟩, ?_⟩ <;>
            simp [pollNext, interruptCheck, Strat.isN, Out.isItem, carriedBudget, hint] <;> omega
      | false =>
        have hsent : sent = true := by simpa using h1
        subst hsent
        simp only [carriedBudget, Bool.false_and, Bool.false_eq_true, if_false] at hy
        by_cases hint : n ≤ cnt
        · cases u <;> refine ⟨⟨?_, ?_, ?_, ?_, ?_⟩, ?_⟩ <;>
            simp [pollNext, interruptCheck, Strat.isN, Out.isItem, carriedBudget, hint] <;> omega
        · cases u <;> refine ⟨⟨?_, ?_, ?_, ?_, ?_⟩, ?_⟩ <;>
            simp [pollNext, interruptCheck, Strat.isN, Out.isItem, carriedBudget, hint] <;> omega

/-- invariant for `FinishCurrent` with the signal pending/received from the start: the machine
    never parks and the first poll interrupts -/
structure InvFW (m : IM) : Prop where
  pend : m.recv = true ∨ m.sent = true
  live : m.ian = false → m.sig = false ∧ m.hp = false ∧ m.ipc = false

theorem invFW_init (s0 r0 : Bool) (k0 : Nat) (h : r0 = true ∨ s0 = true) :
    InvFW { sent := s0, recv := r0, cnt := k0 } := by
  constructor <;> simp [h]

theorem invFW_signal {m : IM} (h : InvFW m) : InvFW { m with sent := true } :=
  ⟨Or.inr rfl, h.live⟩

theorem invFW_poll {m : IM} (u : Under) (h : InvFW m) :
    InvFW (pollNext .finish m u).1 ∧ (pollNext .finish m u).2.isItem = false := by
  obtain ⟨sent, recv, cnt, sig, hp, ipc, ian⟩ := m
  obtain ⟨h1, h2⟩ := h
  simp only at h1 h2
  cases ian with
  | true => refine ⟨⟨?_, ?_⟩, ?_⟩ <;> simp_all [pollNext, Out.isItem]
  | false =>
    obtain ⟨rfl, rfl, rfl⟩ := h2 rfl
    cases recv <;> cases sent <;> cases u <;> refine ⟨⟨?_, ?_⟩, ?_⟩ <;>
      simp_all [pollNext, interruptCheck, Strat.isN, Out.isItem]

/-! ### the budget is exact -/

/-- items handed on over a sequence of underlying answers -/
def itemsOf (st : Strat) (m : IM) : List Under → Nat
  | [] => 0
  | u :: us => (if (pollNext st m u).2.isItem then 1 else 0) + itemsOf st (pollNext st m u).1 us

theorem itemsOf_ian (st : Strat) {m : IM} (h : m.ian = true) (us : List Under) : itemsOf st m us = 0 := by
  induction us with
  | nil => rfl
  | cons u us ih => simp [itemsOf, pollNext_ian h, ih, Out.isItem]

theorem itemsOf_replicate_aux (n : Nat) : ∀ (j : Nat) (sent recv : Bool) (cnt : Nat),
    (recv = true ∨ sent = true) →
    itemsOf (.pollN n) ⟨sent, recv, cnt, false, false, false, false⟩ (List.replicate j .item) =
      min j (carriedBudget n recv cnt) := by
  intro j
  induction j with
  | zero => intro _ _ _ _; simp [itemsOf]
  | succ j ih =>
    intro sent recv cnt h
    cases recv with
    | true =>
      by_cases hint : n ≤ cnt + 1
      · have hp : pollNext (.pollN n) ⟨sent, true, cnt, false, false, false, false⟩ .item =
            (⟨sent, true, cnt + 1, true, false, false, true⟩, .intNone) := by
          simp [pollNext, interruptCheck, Strat.isN, hint]
        simp only [List.replicate_succ, itemsOf, hp, Out.isItem, Bool.false_eq_true, if_false]
        rw [itemsOf_ian _ rfl]
        simp only [carriedBudget, if_true]
        omega
      · have hp : pollNext (.pollN n) ⟨sent, true, cnt, false, false, false, false⟩ .item =
            (⟨sent, true, cnt + 1, false, false, false, false⟩, .noInt) := by
          simp [pollNext, interruptCheck, Strat.isN, hint]
        simp only [List.replicate_succ, itemsOf, hp, Out.isItem, if_true]
        rw [ih sent true (cnt + 1) (Or.inl rfl)]
        simp only [carriedBudget, if_true]
        omega
    | false =>
      have hs : sent = true := by simpa using h
      subst hs
      by_cases hint : n ≤ cnt
      · have hp : pollNext (.pollN n) ⟨true, false, cnt, false, false, false, false⟩ .item =
            (⟨false, true, cnt, true, false, false, true⟩, .intNone) := by
          simp [pollNext, interruptCheck, Strat.isN, hint]
        simp only [List.replicate_succ, itemsOf, hp, Out.isItem, Bool.false_eq_true, if_false]
        rw [itemsOf_ian _ rfl]
        simp only [carriedBudget, Bool.false_eq_true, if_false]
        omega
      · have hp : pollNext (.pollN n) ⟨true, false, cnt, false, false, false, false⟩ .item =
            (⟨false, true, cnt, false, false, false, false⟩, .noInt) := by
          simp [pollNext, interruptCheck, Strat.isN, hint]
        simp only [List.replicate_succ, itemsOf, hp, Out.isItem, if_true]
        rw [ih false true cnt (Or.inl rfl)]
        simp only [carriedBudget, if_true, Bool.false_eq_true, if_false]
        omega

/-- EXACTNESS: over an underlying stream that always has an item ready, `j` polls of the carried
    machine hand on exactly `min j (carriedBudget n r0 k0)` items -/
theorem carriedBudget_attained (n : Nat) (s0 r0 : Bool) (k0 : Nat) (h : r0 = true ∨ s0 = true) (j : Nat) :
    itemsOf (.pollN n) { sent := s0, recv := r0, cnt := k0 } (List.replicate j .item) =
      min j (carriedBudget n r0 k0) :=
  itemsOf_replicate_aux n j s0 r0 k0 h

/-- and no sequence of answers and signals does better: `invW_poll` / `invW_signal` bound every
    such sequence; here for polls only -/
theorem itemsOf_le_budget (n : Nat) (s0 r0 : Bool) (k0 : Nat) (h : r0 = true ∨ s0 = true)
    (us : List Under) :
    itemsOf (.pollN n) { sent := s0, recv := r0, cnt := k0 } us ≤ carriedBudget n r0 k0 := by
  have key : ∀ (us : List Under) (m : IM) (y : Nat), InvW n m y (carriedBudget n r0 k0) →
      y + itemsOf (.pollN n) m us ≤ carriedBudget n r0 k0 := by
    intro us
    induction us with
    | nil => intro m y hi; simpa [itemsOf] using hi.bound
    | cons u us ih =>
      intro m y hi
      have := ih _ _ (invW_poll u hi).1
      simp only [itemsOf]
      omega
  simpa using key us _ 0 (invW_init n s0 r0 k0 h)

/-- the budget is attained by a stream that always has an item: after `j` polls `min j B` items -/
example : ((List.range 6).map fun j =>
    ((List.replicate j Under.item).foldl (fun (p : IM × Nat) u =>
        ((pollNext (.pollN 5) p.1 u).1, p.2 + if (pollNext (.pollN 5) p.1 u).2.isItem then 1 else 0))
      (({ sent := false, recv := true, cnt := 2 } : IM), 0)).2) = [0, 1, 2, 2, 2, 2] ∧
    carriedBudget 5 true 2 = 2 := by decide

end FG
