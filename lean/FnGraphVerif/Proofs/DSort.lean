/-
  Proofs/DSort.lean — the stable insertion sort of `augment` (`sortByRank`) and positions
  (`idxOf`) in a duplicate-free list.
-/
import FnGraphVerif.Proofs.BuilderInv
import FnGraphVerif.Model.Augment
import FnGraphVerif.Model.Spec
namespace FG

/-- rank first, insertion order at equal rank -/
def rlt (rk : Nat → Nat) (u v : Nat) : Prop := rk u < rk v ∨ (rk u = rk v ∧ u < v)

theorem rlt_trans {rk : Nat → Nat} {a b c : Nat} (h1 : rlt rk a b) (h2 : rlt rk b c) : rlt rk a c := by
  unfold rlt at *; omega

theorem rlt_irrefl {rk : Nat → Nat} (a : Nat) : ¬ rlt rk a a := by
  unfold rlt; omega

theorem rlt_asymm {rk : Nat → Nat} {a b : Nat} (h : rlt rk a b) : ¬ rlt rk b a := by
  unfold rlt at *; omega

theorem rlt_total {rk : Nat → Nat} {a b : Nat} (h : a ≠ b) : rlt rk a b ∨ rlt rk b a := by
  unfold rlt; omega

theorem mem_insertByRank {rk : Nat → Nat} {x y : Nat} {l : List Nat} :
    y ∈ insertByRank rk x l ↔ y = x ∨ y ∈ l := by
  induction l with
  | nil => simp [insertByRank]
  | cons z zs ih =>
    simp only [insertByRank]
    split
    · simp
    · simp only [List.mem_cons, ih]
      constructor
      · rintro (h | h | h)
        · exact Or.inr (Or.inl h)
        · exact Or.inl h
        · exact Or.inr (Or.inr h)
      · rintro (h | h | h)
        · exact Or.inr (Or.inl h)
        · exact Or.inl h
        · exact Or.inr (Or.inr h)

theorem insertByRank_perm (rk : Nat → Nat) (x : Nat) (l : List Nat) :
    (insertByRank rk x l).Perm (x :: l) := by
  induction l with
  | nil => simp [insertByRank]
  | cons z zs ih =>
    simp only [insertByRank]
    split
    · exact List.Perm.refl _
    · exact (List.Perm.cons z ih).trans (List.Perm.swap x z zs)

theorem insertByRank_pairwise {rk : Nat → Nat} {x : Nat} {l : List Nat}
    (hl : l.Pairwise (rlt rk)) (hx : ∀ y ∈ l, y < x) : (insertByRank rk x l).Pairwise (rlt rk) := by
  induction l with
  | nil => simp [insertByRank]
  | cons z zs ih =>
    rw [List.pairwise_cons] at hl
    simp only [insertByRank]
    split
    · rename_i hlt
      rw [List.pairwise_cons]
      refine ⟨?_, List.pairwise_cons.mpr hl⟩
      intro w hw
      rcases List.mem_cons.mp hw with rfl | hw
      · exact Or.inl hlt
      · exact rlt_trans (Or.inl hlt) (hl.1 w hw)
    · rename_i hge
      rw [List.pairwise_cons]
      refine ⟨?_, ih hl.2 (fun y hy => hx y (List.mem_cons_of_mem _ hy))⟩
      intro w hw
      rcases mem_insertByRank.mp hw with rfl | hw
      · have := hx z (List.mem_cons_self)
        unfold rlt; omega
      · exact hl.1 w hw

theorem sortFold_spec (rk : Nat → Nat) : ∀ (l acc : List Nat), acc.Pairwise (rlt rk) →
    l.Pairwise (· < ·) → (∀ a ∈ acc, ∀ x ∈ l, a < x) →
    (l.foldl (fun acc x => insertByRank rk x acc) acc).Pairwise (rlt rk) ∧
    (l.foldl (fun acc x => insertByRank rk x acc) acc).Perm (acc ++ l) := by
  intro l
  induction l with
  | nil => intro acc h _ _; simpa using h
  | cons x xs ih =>
    intro acc hacc hl hlt
    rw [List.pairwise_cons] at hl
    simp only [List.foldl_cons]
    have h1 : (insertByRank rk x acc).Pairwise (rlt rk) :=
      insertByRank_pairwise hacc (fun y hy => hlt y hy x List.mem_cons_self)
    have h2 : ∀ a ∈ insertByRank rk x acc, ∀ y ∈ xs, a < y := by
      intro a ha y hy
      rcases mem_insertByRank.mp ha with rfl | ha
      · exact hl.1 y hy
      · exact hlt a ha y (List.mem_cons_of_mem _ hy)
    obtain ⟨p1, p2⟩ := ih (insertByRank rk x acc) h1 hl.2 h2
    refine ⟨p1, p2.trans ?_⟩
    exact ((insertByRank_perm rk x acc).append_right xs).trans (List.perm_middle).symm

theorem sortByRank_spec (rk : Nat → Nat) (n : Nat) :
    (sortByRank rk (List.range n)).Pairwise (rlt rk) ∧ (sortByRank rk (List.range n)).Perm (List.range n) := by
  have := sortFold_spec rk (List.range n) [] List.Pairwise.nil List.pairwise_lt_range (by simp)
  simpa [sortByRank] using this

/-! ### positions -/

theorem idxOf_lt {l : List Nat} {v : Nat} (h : v ∈ l) : idxOf l v < l.length :=
  (List.idxOf_lt_length_iff (l := l) (a := v)).mpr h

theorem getElem_idxOf' {l : List Nat} {v : Nat} (h : v ∈ l) : l[idxOf l v]'(idxOf_lt h) = v :=
  List.getElem_idxOf (x := v) (xs := l) (idxOf_lt h)

theorem idxOf_getElem' {l : List Nat} (hnd : l.Nodup) (i : Nat) (h : i < l.length) : idxOf l l[i] = i :=
  List.Nodup.idxOf_getElem hnd i h

theorem idxOf_inj {l : List Nat} {u v : Nat} (hu : u ∈ l) (hv : v ∈ l) (h : idxOf l u = idxOf l v) : u = v := by
  have h1 := getElem_idxOf' hu
  have h2 := getElem_idxOf' hv
  simp only [h] at h1
  exact h1.symm.trans h2

/-- in a list sorted by a strict order, positions compare like the order -/
theorem idxOf_lt_iff_of_pairwise {R : Nat → Nat → Prop} {l : List Nat} (hp : l.Pairwise R)
    (hirr : ∀ a, ¬ R a a) (hasym : ∀ a b, R a b → ¬ R b a) {u v : Nat} (hu : u ∈ l) (hv : v ∈ l) :
    idxOf l u < idxOf l v ↔ R u v := by
  have hp' := List.pairwise_iff_getElem.mp hp
  have h1 := getElem_idxOf' hu
  have h2 := getElem_idxOf' hv
  constructor
  · intro h
    have := hp' _ _ (idxOf_lt hu) (idxOf_lt hv) h
    rwa [h1, h2] at this
  · intro h
    rcases Nat.lt_trichotomy (idxOf l u) (idxOf l v) with hlt | heq | hgt
    · exact hlt
    · have := idxOf_inj hu hv heq
      subst this
      exact absurd h (hirr _)
    · have := hp' _ _ (idxOf_lt hv) (idxOf_lt hu) hgt
      rw [h1, h2] at this
      exact absurd h (hasym _ _ this)

end FG
