/-
  Proofs/PCoop.lean — why `trackFut_sound` needs `coop = false`: in a coop session the hand-out
  event moves the observed function to the front of the model's ready queue, which is not an action
  of the model.  Concretely: two independent functions, ready queue `[1, 0]`; the coop monitor
  accepts `handout 0` and ends in a state with `handedOut = [0]`, which no run of the model from
  the initial state reaches (the model hands out `1` first).
-/
import FnGraphVerif.Proofs.PTrack
namespace FG

/-- two independent functions -/
def coopC_P : Cfg := { D := ⟨2, []⟩, counts0 := [0, 0] }

def coopX_P : MonCtx :=
  { c := coopC_P, decls := [], userD := ⟨2, []⟩, rev := false, control := false,
    interruptible := false, coop := true }

/-- nothing handed out yet and the ready queue is `[1, 0]`, or `1` was handed out first -/
def CoopJ_P (s : PState) : Prop :=
  (s.handedOut = [] ∧ s.inflight = [] ∧ s.doneQ = [] ∧ s.readyQ = [1, 0]) ∨ [1] <+: s.handedOut

theorem coopJ_step_P {c : Cfg} (hincl : c.incl = true) {s s' : PState} {a : Action}
    (hj : CoopJ_P s) (h : step? c s a = some s') : CoopJ_P s' := by
  rcases hj with ⟨h1, h2, h3, h4⟩ | hj
  · cases a with
    | queuerRecv =>
      obtain ⟨_, _, x, rest, hq, _⟩ := queuerRecv_cases h
      rw [h3] at hq; exact absurd hq (by simp)
    | queuerEnd => obtain ⟨_, _, _, rfl⟩ := queuerEnd_cases h; exact Or.inl ⟨h1, h2, h3, h4⟩
    | schedPoll =>
      obtain ⟨_, _, _, hcase⟩ := schedPoll_cases h
      rcases hcase with ⟨_, rfl⟩ | ⟨_, rfl⟩ | ⟨_, rfl⟩ | ⟨_, f, rest, hq, rfl⟩ | ⟨_, f, rest, hq, ⟨_, rfl⟩ | ⟨hi, _⟩⟩
      · exact Or.inl ⟨h1, h2, h3, h4⟩
      · exact Or.inl ⟨h1, h2, h3, h4⟩
      · exact Or.inl ⟨h1, h2, h3, h4⟩
      · right
        rw [h4] at hq
        simp only [List.cons.injEq] at hq
        simp only [handOut, h1, List.nil_append, ← hq.1]
        exact List.prefix_refl _
      · right
        rw [h4] at hq
        simp only [List.cons.injEq] at hq
        simp only [handOut, h1, List.nil_append, ← hq.1]
        exact List.prefix_refl _
      · rw [hincl] at hi; exact absurd hi (by simp)
    | invoke f =>
      obtain ⟨hf, _, _⟩ := invoke_cases h
      rw [h2] at hf; exact absurd hf (by simp)
    | finish f ok =>
      cases ok with
      | true => obtain ⟨hf, _, _⟩ := finishOk_cases h; rw [h2] at hf; exact absurd hf (by simp)
      | false => obtain ⟨hf, _, _⟩ := finishErr_cases h; rw [h2] at hf; exact absurd hf (by simp)
    | interrupt => rw [interrupt_cases h]; exact Or.inl ⟨h1, h2, h3, h4⟩
    | schedEnd => obtain ⟨_, _, _, rfl⟩ := schedEnd_cases h; exact Or.inl ⟨h1, h2, h3, h4⟩
    | ret => obtain ⟨_, _, _, rfl⟩ := ret_cases h; exact Or.inl ⟨h1, h2, h3, h4⟩
  · exact Or.inr (hj.trans (step_handedOut_prefix h))

theorem coopJ_run_P {c : Cfg} (hincl : c.incl = true) {as : List Action} : ∀ {s s' : PState},
    CoopJ_P s → run c s as = some s' → CoopJ_P s' := by
  induction as with
  | nil => intro s s' hj h; simp only [run, Option.some.injEq] at h; rw [← h]; exact hj
  | cons a as ih =>
    intro s s' hj h
    simp only [run] at h
    cases hs : step? c s a with
    | none => rw [hs] at h; exact absurd h (by simp)
    | some s1 =>
      rw [hs] at h
      exact ih (coopJ_step_P hincl hj hs) h

/-- **`coop = false` cannot be dropped from `trackFut_sound`**: a coop session, the monitor in the
    (reachable) initial state, an accepted event — and no run of the model at all leads from the
    monitor's state before the event to its state after it. -/
theorem trackFut_sound_coop_counter :
    ∃ (x : MonCtx) (t : TrackSt) (e : Ev), x.coop = true ∧ Reachable x.c t.s ∧
      (∀ n ∈ (trackFut x t e).2, n.ok = true) ∧
      ¬ ∃ as, run x.c t.s as = some (trackFut x t e).1.s := by
  refine ⟨coopX_P, { s := init coopC_P }, .handout 0, rfl, .init, by decide, ?_⟩
  rintro ⟨as, hrun⟩
  have hj : CoopJ_P (init coopC_P) := Or.inl (by decide)
  have hj' := coopJ_run_P (c := coopC_P) rfl hj hrun
  have hh : (trackFut coopX_P { s := init coopC_P } (.handout 0)).1.s.handedOut = [0] := by decide
  rcases hj' with ⟨h1, _⟩ | hp
  · rw [hh] at h1; exact absurd h1 (by simp)
  · rw [hh] at hp
    obtain ⟨r, hr⟩ := hp
    simp at hr

end FG
