/-
  Proofs/RankLemmas.lean — helper lemmas for Theorems/C13.lean that do not mention walks:
  a topological numbering of a good graph, list `set`/`sum` facts, the relational
  specification of the `relaxChild` fold, and `foldl max` bounds.
-/
import FnGraphVerif.Proofs.BuilderInv
import FnGraphVerif.Model.RankCalc
import Mathlib.Data.Finset.Card
namespace FG

/-! ### topological numbering: number of strict ancestors -/

theorem exists_ord {g : Dag} (hg : GoodG g) :
    ∃ ord : Nat → Nat, (∀ u v, IsEdge g u v → ord u < ord v) ∧ ∀ v, v < g.n → ord v < g.n := by
  classical
  refine ⟨fun v => ((Finset.range g.n).filter (fun u => ReachP g u v)).card, ?_, ?_⟩
  · intro u v he
    apply Finset.card_lt_card
    rw [Finset.ssubset_iff_of_subset]
    · refine ⟨u, ?_, ?_⟩
      · simp only [Finset.mem_filter, Finset.mem_range]
        exact ⟨(he.lt hg.wf).1, ReachP.edge he⟩
      · simp only [Finset.mem_filter, Finset.mem_range, not_and]
        intro _ h; exact hg.acyclic u h
    · intro x hx
      simp only [Finset.mem_filter, Finset.mem_range] at hx ⊢
      exact ⟨hx.1, ReachP.tail hx.2 he⟩
  · intro v hv
    have h1 : ((Finset.range g.n).filter (fun u => ReachP g u v)).card < (Finset.range g.n).card := by
      apply Finset.card_lt_card
      rw [Finset.ssubset_iff_of_subset (Finset.filter_subset _ _)]
      refine ⟨v, Finset.mem_range.mpr hv, ?_⟩
      simp only [Finset.mem_filter, Finset.mem_range, not_and]
      intro _ h; exact hg.acyclic v h
    simpa using h1

/-! ### `set`, `getD`, `sum` -/

theorem getD_set (l : List Nat) (c v x : Nat) :
    (l.set c v)[x]?.getD 0 = if x = c ∧ c < l.length then v else l[x]?.getD 0 := by
  rw [List.getElem?_set]
  by_cases h : c = x
  · subst h
    by_cases h2 : c < l.length
    · simp [h2]
    · simp [h2]
  · have : ¬ x = c := fun h' => h h'.symm
    simp [h, this]

theorem sum_set_add (l : List Nat) (c v : Nat) (h : c < l.length) :
    (l.set c v).sum + l[c]?.getD 0 = l.sum + v := by
  induction l generalizing c with
  | nil => simp at h
  | cons a l ih =>
    cases c with
    | zero => simp; omega
    | succ c =>
      simp only [List.length_cons, Nat.add_lt_add_iff_right] at h
      have := ih c h
      simp only [List.set_cons_succ, List.sum_cons, List.getElem?_cons_succ]
      omega

theorem sum_le_of_bound (l : List Nat) (b : Nat) (h : ∀ x : Nat, l[x]?.getD 0 ≤ b) : l.sum ≤ l.length * b := by
  induction l with
  | nil => simp
  | cons a l ih =>
    have h0 := h 0
    have := ih (fun x => by have := h (x+1); simpa using this)
    simp only [List.getElem?_cons_zero, Option.getD_some] at h0
    simp only [List.sum_cons, List.length_cons, Nat.add_mul, Nat.one_mul]
    omega

/-! ### the fold over the children -/

/-- relational specification of folding `relaxChild false r` over `cs` -/
structure RelaxSpec (r : Nat) (cs rk q rk' q' : List Nat) : Prop where
  len : rk'.length = rk.length
  mono : ∀ x : Nat, rk[x]?.getD 0 ≤ rk'[x]?.getD 0
  chg : ∀ x : Nat, rk'[x]?.getD 0 = rk[x]?.getD 0 ∨ (rk'[x]?.getD 0 = r ∧ x ∈ cs ∧ x ∈ q')
  ge : ∀ x ∈ cs, r ≤ rk'[x]?.getD 0
  sub : ∀ x ∈ q, x ∈ q'
  pot : q'.length + rk.sum ≤ q.length + rk'.sum

theorem relaxFold_spec (r : Nat) (cs : List Nat) : ∀ (rk q : List Nat), (∀ c ∈ cs, c < rk.length) →
    RelaxSpec r cs rk q (cs.foldl (relaxChild false r) (rk, q)).1 (cs.foldl (relaxChild false r) (rk, q)).2 := by
  induction cs with
  | nil =>
    intro rk q _
    exact ⟨rfl, fun _ => Nat.le_refl _, fun _ => Or.inl rfl, fun x hx => by simp at hx, fun _ h => h,
      Nat.le_refl _⟩
  | cons c cs ih =>
    intro rk q hb
    have hc : c < rk.length := hb c (by simp)
    simp only [List.foldl_cons]
    by_cases hlt : rk[c]?.getD 0 < r
    · have hstep : relaxChild false r (rk, q) c = (rk.set c r, q ++ [c]) := by
        simp [relaxChild, hlt]
      rw [hstep]
      have hb' : ∀ c' ∈ cs, c' < (rk.set c r).length := by
        intro c' hc'; simpa using hb c' (by simp [hc'])
      have S := ih (rk.set c r) (q ++ [c]) hb'
      have hget : ∀ x, (rk.set c r)[x]?.getD 0 = if x = c then r else rk[x]?.getD 0 := by
        intro x; rw [getD_set]; simp [hc]
      refine ⟨by rw [S.len]; simp, ?_, ?_, ?_, ?_, ?_⟩
      · intro x
        have := S.mono x; rw [hget] at this
        by_cases hx : x = c
        · subst hx; simp at this; omega
        · simpa [hx] using this
      · intro x
        rcases S.chg x with h | ⟨h1, h2, h3⟩
        · rw [hget] at h
          by_cases hx : x = c
          · subst hx
            simp only [if_true] at h
            exact Or.inr ⟨h, by simp, S.sub _ (by simp)⟩
          · simp only [hx, if_false] at h; exact Or.inl h
        · exact Or.inr ⟨h1, by simp [h2], h3⟩
      · intro x hx
        rcases List.mem_cons.mp hx with rfl | hx
        · have := S.mono x; rw [hget] at this; simpa using this
        · exact S.ge x hx
      · intro x hx; exact S.sub x (by simp [hx])
      · have := S.pot
        have h2 := sum_set_add rk c r hc
        simp only [List.length_append, List.length_cons, List.length_nil] at this
        omega
    · have hstep : relaxChild false r (rk, q) c = (rk, q) := by
        simp [relaxChild, hlt]
      rw [hstep]
      have S := ih rk q (fun c' hc' => hb c' (by simp [hc']))
      refine ⟨S.len, S.mono, ?_, ?_, S.sub, S.pot⟩
      · intro x
        rcases S.chg x with h | ⟨h1, h2, h3⟩
        · exact Or.inl h
        · exact Or.inr ⟨h1, by simp [h2], h3⟩
      · intro x hx
        rcases List.mem_cons.mp hx with rfl | hx
        · have := S.mono x; omega
        · exact S.ge x hx

/-! ### `foldl max` -/

theorem le_foldl_max_init (l : List Nat) (a : Nat) : a ≤ l.foldl max a := by
  induction l generalizing a with
  | nil => simp
  | cons b l ih => simp only [List.foldl_cons]; exact Nat.le_trans (Nat.le_max_left a b) (ih _)

theorem le_foldl_max_of_mem (l : List Nat) (a x : Nat) (hx : x ∈ l) : x ≤ l.foldl max a := by
  induction l generalizing a with
  | nil => simp at hx
  | cons b l ih =>
    simp only [List.foldl_cons]
    rcases List.mem_cons.mp hx with rfl | hx
    · exact Nat.le_trans (Nat.le_max_right a x) (le_foldl_max_init _ _)
    · exact ih _ hx

theorem foldl_max_le (l : List Nat) (a b : Nat) (ha : a ≤ b) (h : ∀ x ∈ l, x ≤ b) : l.foldl max a ≤ b := by
  induction l generalizing a with
  | nil => simpa
  | cons c l ih =>
    simp only [List.foldl_cons]
    exact ih _ (Nat.max_le.mpr ⟨ha, h c (by simp)⟩) (fun x hx => h x (by simp [hx]))

end FG
