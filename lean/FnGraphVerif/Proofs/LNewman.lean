/-
  Proofs/LNewman.lean — Newman's lemma for the core actions modulo `Sim`: termination (`mu_core`)
  and local confluence modulo `Sim` give: all normal forms reachable from a reachable state by core
  actions are `Sim`-equal.
-/
import FnGraphVerif.Proofs.LMeasure
namespace FG
variable {c : Cfg} {s s' t : PState}

/-- local confluence modulo `Sim` (proved in `Proofs/LDiamond.lean`) -/
def LocalConf (c : Cfg) : Prop :=
  ∀ s, Reachable c s → ∀ (a b : CA) (s1 s2 : PState), step? c s a.act = some s1 → step? c s b.act = some s2 →
    ∃ as bs t1 t2, crun c s1 as = some t1 ∧ crun c s2 bs = some t2 ∧ Sim t1 t2

theorem rrx_of_reachable (hc : GoodCfg c) (hr : Reachable c s) : s.readyRxOpen = false → spGuard c s = true := by
  intro hrx
  unfold spGuard
  rcases (linv_reachable hc hr).rrx hrx with h | h <;> simp [h]

theorem nf_sim (hc : GoodCfg c) (hn : NF c s) (hs : Sim s t) (hr : Reachable c t) : NF c t := by
  intro a t' ht
  obtain ⟨s1, hs1, hsim⟩ := sim_step a hs.symm (rrx_of_reachable hc hr) ht
  exact (hsim.trans (hn a s1 hs1)).trans hs

theorem nf_run (hc : GoodCfg c) {bs : List CA} : ∀ {s q : PState}, NF c s → Reachable c s →
    crun c s bs = some q → Sim q s := by
  induction bs with
  | nil => intro s q _ _ h; simp only [crun_nil, Option.some.injEq] at h; subst h; exact Sim.refl _
  | cons b bs ih =>
    intro s q hn hr h
    rw [crun_cons] at h
    cases h1 : step? c s b.act with
    | none => rw [h1] at h; exact absurd h (by simp)
    | some s1 =>
      rw [h1] at h
      simp only [Option.bind] at h
      have hr1 := Reachable.step _ hr h1
      have hs1 := hn b s1 h1
      exact (ih (nf_sim hc hn hs1.symm hr1) hr1 h).trans hs1

/-- a run either stays in the `Sim`-class of its start or can be rearranged to start with a
    class-changing step -/
theorem strip (hc : GoodCfg c) (hr : Reachable c s) {as : List CA} : ∀ {q : PState}, crun c s as = some q →
    Sim q s ∨ ∃ (a : CA) (s1 : PState) (as1 : List CA) (q' : PState), step? c s a.act = some s1 ∧ ¬ Sim s1 s ∧ crun c s1 as1 = some q' ∧ Sim q' q := by
  induction as with
  | nil => intro q h; simp only [crun_nil, Option.some.injEq] at h; subst h; exact Or.inl (Sim.refl _)
  | cons a as ih =>
    intro q h
    rw [crun_cons] at h
    cases h1 : step? c s a.act with
    | none => rw [h1] at h; exact absurd h (by simp)
    | some s1 =>
      rw [h1] at h
      simp only [Option.bind] at h
      by_cases hsim : Sim s1 s
      · obtain ⟨q2, hq2, hs2⟩ := sim_crun hc (Reachable.step _ hr h1) hsim h
        rcases ih hq2 with h3 | ⟨b, s2, as1, q', hb, hns, hrun, hs3⟩
        · exact Or.inl (hs2.trans h3)
        · exact Or.inr ⟨b, s2, as1, q', hb, hns, hrun, hs3.trans hs2.symm⟩
      · exact Or.inr ⟨a, s1, as, q, h1, hsim, h, Sim.refl _⟩

theorem nf_exists (hc : GoodCfg c) : ∀ (n : Nat) {t : PState}, mu c t ≤ n → Reachable c t →
    ∃ as r, crun c t as = some r ∧ NF c r := by
  intro n
  induction n with
  | zero =>
    intro t hn hr
    refine ⟨[], t, rfl, ?_⟩
    intro a t' ht
    by_cases he : t' = t
    · rw [he]; exact Sim.refl _
    · have := mu_core (inv0_reachable hc (Reachable.step _ hr ht)) a ht he
      omega
  | succ n ih =>
    intro t hn hr
    by_cases hnf : NF c t
    · exact ⟨[], t, rfl, hnf⟩
    · have : ∃ (a : CA) (t' : PState), step? c t a.act = some t' ∧ ¬ Sim t' t := by
        apply Classical.byContradiction
        intro hno
        apply hnf
        intro a t' ht
        apply Classical.byContradiction
        intro hns
        exact hno ⟨a, t', ht, hns⟩
      obtain ⟨a, t', ht, hns⟩ := this
      have hne : t' ≠ t := fun he => hns (he ▸ Sim.refl _)
      have hr' := Reachable.step _ hr ht
      have hmu := mu_core (inv0_reachable hc hr') a ht hne
      obtain ⟨as, r, hrun, hnfr⟩ := ih (by omega) hr'
      refine ⟨a :: as, r, ?_, hnfr⟩
      rw [crun_cons, ht]
      exact hrun

/-- **Newman's lemma modulo `Sim`** -/
theorem newman (hc : GoodCfg c) (hlc : LocalConf c) : ∀ (n : Nat) {s : PState}, mu c s ≤ n → Reachable c s →
    ∀ {as bs : List CA} {q q2 : PState}, crun c s as = some q → NF c q → crun c s bs = some q2 → NF c q2 →
      Sim q q2 := by
  intro n
  induction n with
  | zero =>
    intro s hn hr as bs q q2 h1 hq h2 hq2
    -- measure 0: the start is a normal form
    have hnf : NF c s := by
      intro a t' ht
      by_cases he : t' = s
      · rw [he]; exact Sim.refl _
      · have := mu_core (inv0_reachable hc (Reachable.step _ hr ht)) a ht he
        omega
    exact (nf_run hc hnf hr h1).trans (nf_run hc hnf hr h2).symm
  | succ n ih =>
    intro s hn hr as bs q q2 h1 hq h2 hq2
    rcases strip hc hr h1 with hs1 | ⟨a, s1, as1, q', ha, hns1, hrun1, hsq⟩
    · have hnf : NF c s := nf_sim hc hq hs1 hr
      exact hs1.trans (nf_run hc hnf hr h2).symm
    rcases strip hc hr h2 with hs2 | ⟨b, s2, bs1, q2', hb, hns2, hrun2, hsq2⟩
    · have hnf : NF c s := nf_sim hc hq2 hs2 hr
      exact (nf_run hc hnf hr h1).trans hs2.symm
    have hr1 := Reachable.step _ hr ha
    have hr2 := Reachable.step _ hr hb
    have hne1 : s1 ≠ s := fun he => hns1 (he ▸ Sim.refl _)
    have hne2 : s2 ≠ s := fun he => hns2 (he ▸ Sim.refl _)
    have hmu1 := mu_core (inv0_reachable hc hr1) a ha hne1
    have hmu2 := mu_core (inv0_reachable hc hr2) b hb hne2
    have hq' : NF c q' := nf_sim hc hq hsq.symm (crun_reachable hr1 hrun1)
    have hq2' : NF c q2' := nf_sim hc hq2 hsq2.symm (crun_reachable hr2 hrun2)
    obtain ⟨cs, ds, t1, t2, hc1, hc2, hst⟩ := hlc s hr a b s1 s2 ha hb
    have hrt1 := crun_reachable hr1 hc1
    have hrt2 := crun_reachable hr2 hc2
    obtain ⟨es, r1, he1, hnr1⟩ := nf_exists hc _ (Nat.le_refl _) hrt1
    obtain ⟨r2, he2, hsr⟩ := sim_crun hc hrt1 hst he1
    have hnr2 : NF c r2 := nf_sim hc hnr1 hsr (crun_reachable hrt2 he2)
    have hA : Sim q' r1 := ih (by omega) hr1 hrun1 hq' (by rw [crun_append hc1]; exact he1) hnr1
    have hB : Sim q2' r2 := ih (by omega) hr2 hrun2 hq2' (by rw [crun_append hc2]; exact he2) hnr2
    exact ((hsq.symm.trans hA).trans hsr).trans (hB.symm.trans hsq2)

theorem core_confluence (hc : GoodCfg c) (hlc : LocalConf c) (hr : Reachable c s) {as bs : List CA}
    {q q2 : PState} (h1 : crun c s as = some q) (hq : NF c q) (h2 : crun c s bs = some q2) (hq2 : NF c q2) :
    Sim q q2 :=
  newman hc hlc _ (Nat.le_refl _) hr h1 hq h2 hq2

end FG
