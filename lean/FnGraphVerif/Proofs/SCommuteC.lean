/-
  Proofs/SCommuteC.lean — `finish f ok` against `schedPoll` in ALL states, modulo `JoinC`:
  * `Interrupted(Some item)` handed out (`incl`): commutes on the nose;
  * a poll that CLOSES the done channel (`Interrupted(None)`, or `Interrupted(Some item)` swallowed
    with `incl = false`) before / after a successful completion: the two results differ in whether the
    done id is still reported to the queuer (`doneQ`), but both are closed states, and after the queuer
    has drained the channel they agree on everything `SimC` looks at (`drain`).
  Hence `finish` commutes with every core action and every core run modulo `JoinC`
  (`finC_core_commute`, `finC_crun_commute`), and preserves the coupling (`joinC_finish`).
-/
import FnGraphVerif.Proofs.SJoinC
namespace FG
variable {c : Cfg} {s s' t : PState}

theorem panic_false_eta (X : PState) (h : X.panic = false) : ({ X with panic := false } : PState) = X := by
  rw [← h]

/-! ### draining the done channel of a closed state -/

theorem drain (hc : GoodCfg c) : ∀ (D E : List Nat) (w : PState), Reachable c w → closedB w = true →
    w.qDone = false → w.result = none → w.doneQ = D ++ E →
    ∃ w', crun c w (List.replicate D.length CA.qr) = some w' ∧ closedB w' = true ∧
      coreN w' = { coreN w with doneQ := E } := by
  intro D
  induction D with
  | nil =>
    intro E w _ hcl _ _ hq
    refine ⟨w, rfl, hcl, ?_⟩
    simp only [List.nil_append] at hq
    rw [← hq]
    rfl
  | cons x D ih =>
    intro E w hr hcl hqd hres hq
    have hstep : step? c w .queuerRecv = some (qrApply c w x (D ++ E)) := step_qr_of hqd hres (by rw [hq]; rfl)
    have hr1 := Reachable.step _ hr hstep
    have hcl1 := closed_step hcl hstep
    obtain ⟨w', hrun, hcl', hcore⟩ := ih E (qrApply c w x (D ++ E)) hr1 hcl1 hqd hres rfl
    refine ⟨w', ?_, hcl', ?_⟩
    · rw [List.length_cons, List.replicate_succ, crun_cons]
      show (step? c w .queuerRecv).bind _ = _
      rw [hstep]
      exact hrun
    · have p0 := (inv0_reachable hc hr).noPanic
      have p1 := (inv0_reachable hc hr1).noPanic
      have e1 : coreN (qrApply c w x (D ++ E)) =
          { coreN w with doneQ := D ++ E, panic := (qrApply c w x (D ++ E)).panic } := rfl
      rw [hcore, e1, p1]
      exact congrArg (fun X : PState => ({ X with doneQ := E } : PState)) (panic_false_eta { coreN w with doneQ := D ++ E } p0) |>.trans rfl

/-- two closed states that agree, apart from the contents of the done channel, on everything `SimC`
    looks at are joinable: the queuer drains both channels -/
theorem joinC_of_core_doneQ (hc : GoodCfg c) {u A : PState} (hru : Reachable c u) (hrA : Reachable c A)
    (hclu : closedB u = true) (hclA : closedB A = true) (hqd : u.qDone = false) (hres : u.result = none)
    (hcore : ({ coreN u with doneQ := [] } : PState) = { coreN A with doneQ := [] }) : JoinC c u A := by
  have hqdA : A.qDone = false := by
    have := congrArg PState.qDone hcore
    rw [← hqd]; exact this.symm
  have hresA : A.result = none := by
    have := congrArg PState.result hcore
    rw [← hres]; exact this.symm
  obtain ⟨u', hu, hclu', hcu⟩ := drain hc u.doneQ [] u hru hclu hqd hres (by simp)
  obtain ⟨A', hA, _, hcA⟩ := drain hc A.doneQ [] A hrA hclA hqdA hresA (by simp)
  exact ⟨_, _, u', A', hu, hA, simC_of_core hclu' (by rw [hcu, hcA, hcore])⟩

/-! ### `schedPoll`, every answer of the stream -/

theorem finC_sp_commute (hc : GoodCfg c) (hapi : c.ApiOk) (hr : Reachable c s)
    {f : Nat} {ok : Bool} {s1 s' : PState}
    (h1 : step? c s .schedPoll = some s1) (h2 : step? c s (.finish f ok) = some s') :
    ∃ s1', step? c s1 (.finish f ok) = some s1' ∧ JoinC c s' s1' := by
  by_cases hout : (pollNext c.strat s.im (readyUnder s)).2 = .pending ∨
      (pollNext c.strat s.im (readyUnder s)).2 = .noInt ∨ (pollNext c.strat s.im (readyUnder s)).2 = .endd
  · obtain ⟨s1', u, a1, a2, a3⟩ := fin_sp_commute hc hapi hr hout h1 h2
    exact ⟨s1', a1, ⟨[.sp], [], u, s1', crun_one a2, rfl, a3.toC⟩⟩
  obtain ⟨⟨hi, hv⟩, hfa⟩ := fin_guard h2
  have hinv := inv0_reachable hc hr
  have hl := linv_reachable hc hr
  have hr' : Reachable c s' := Reachable.step _ hr h2
  have hr1 : Reachable c s1 := Reachable.step _ hr h1
  obtain ⟨hsd, hse, hul, hcase⟩ := schedPoll_cases h1
  have hnotS : c.errMode ≠ .shortCircuit := by
    intro hm
    have hseq := hapi hm
    unfold underLimit at hul
    simp only [hseq, if_true, List.isEmpty_iff] at hul
    rw [hul] at hi
    exact absurd hi (by simp)
  have hs'shape : s'.sDone = s.sDone ∧ s'.streamEnded = s.streamEnded ∧ s'.inflight = s.inflight.erase f ∧
      s'.im = s.im ∧ s'.readyQ = s.readyQ ∧ s'.readyTxOpen = s.readyTxOpen := by
    cases ok with
    | true =>
      simp only [finApply, if_true, Option.some.injEq] at hfa
      subst hfa
      exact ⟨rfl, rfl, rfl, rfl, rfl, rfl⟩
    | false =>
      simp only [finApply, Bool.false_eq_true, if_false] at hfa
      cases hm : c.errMode with
      | none => rw [hm] at hfa; exact absurd hfa (by simp)
      | collect =>
        rw [hm] at hfa
        simp only [Option.some.injEq] at hfa
        subst hfa
        exact ⟨rfl, rfl, rfl, rfl, rfl, rfl⟩
      | shortCircuit => exact absurd hm hnotS
  obtain ⟨e1, e2, e3, e4, e5, e6⟩ := hs'shape
  have hg' : spGuard c s' = false := by
    unfold spGuard
    rw [e1, e2, hsd, hse, underLimit_erase s' e3 hul]
    rfl
  have hru : readyUnder s' = readyUnder s := by
    unfold readyUnder
    rw [e5, e6]
  have hsp' : step? c s' .schedPoll =
      spApply c s' (pollNext c.strat s.im (readyUnder s)).1 (pollNext c.strat s.im (readyUnder s)).2 := by
    rw [sp_of_guard hg', e4, hru]
  obtain ⟨_, _, _, _, _, _, hintNone, hintSome, _⟩ := pollNext_spec c.strat s.im (readyUnder s)
  generalize hP : pollNext c.strat s.im (readyUnder s) = P at *
  obtain ⟨m, out⟩ := P
  simp only at hout hcase hsp' hintNone hintSome
  -- the closing polls: the common part
  have closing : ∀ (R : List Nat) (Dp : Option Nat), m.ian = true →
      s1 = { s with im := m, readyQ := R, dropped := Dp, doneTxOpen := false } →
      (∀ X : PState, X.readyQ = s.readyQ → X.dropped = s.dropped → spApply c X m out =
        some { X with im := m, readyQ := R, dropped := Dp, doneTxOpen := false }) →
      ∃ s1', step? c s1 (.finish f ok) = some s1' ∧ JoinC c s' s1' := by
    intro R Dp hian hs1 hspX
    subst hs1
    have hfin1 : step? c { s with im := m, readyQ := R, dropped := Dp, doneTxOpen := false } (.finish f ok) =
        finApply c { s with im := m, readyQ := R, dropped := Dp, doneTxOpen := false } f ok :=
      step_fin_of (s := { s with im := m, readyQ := R, dropped := Dp, doneTxOpen := false }) hi hv
    cases ok with
    | false =>
      simp only [finApply, Bool.false_eq_true, if_false] at hfa
      cases hm : c.errMode with
      | none => rw [hm] at hfa; exact absurd hfa (by simp)
      | shortCircuit => exact absurd hm hnotS
      | collect =>
        rw [hm] at hfa
        simp only [Option.some.injEq] at hfa
        subst hfa
        have hu : step? c (finErrC c s f) .schedPoll =
            some { finErrC c s f with im := m, readyQ := R, dropped := Dp, doneTxOpen := false } := by
          rw [hsp']; exact hspX _ rfl rfl
        refine ⟨finErrC c { s with im := m, readyQ := R, dropped := Dp, doneTxOpen := false } f,
          by rw [hfin1]; simp only [finApply, Bool.false_eq_true, if_false, hm], ?_⟩
        exact ⟨[.sp], [], _, _, crun_one hu, rfl, SimC.refl _⟩
    | true =>
      simp only [finApply, if_true, Option.some.injEq] at hfa
      subst hfa
      have hu : step? c (finOk c s f) .schedPoll =
          some { finOk c s f with im := m, readyQ := R, dropped := Dp, doneTxOpen := false } := by
        rw [hsp']; exact hspX _ rfl rfl
      have hf1 : step? c { s with im := m, readyQ := R, dropped := Dp, doneTxOpen := false } (.finish f true) =
          some (finOk c { s with im := m, readyQ := R, dropped := Dp, doneTxOpen := false } f) := by
        rw [hfin1]; rfl
      refine ⟨_, hf1, ?_⟩
      have hru' := Reachable.step _ hr' hu
      have hrA := Reachable.step _ hr1 hf1
      have pu := (inv0_reachable hc hru').noPanic
      have pA := (inv0_reachable hc hrA).noPanic
      have hju : JoinC c (finOk c s f)
          { finOk c s f with im := m, readyQ := R, dropped := Dp, doneTxOpen := false } :=
        JoinC.of_crun (crun_one (a := .sp) hu)
      refine JoinC.trans hc hr' hru' hrA hju ?_
      cases hdt : s.doneTxOpen with
      | false =>
        apply JoinC.of_sim
        apply Sim.toC
        sim_fields
        · show (if s.doneTxOpen && !decide (c.cap ≤ s.doneQ.length) then s.doneQ ++ [f] else s.doneQ) =
            (if false && !decide (c.cap ≤ s.doneQ.length) then s.doneQ ++ [f] else s.doneQ)
          rw [hdt]
        · rw [pu, pA]
      | true =>
        have hqd : s.qDone = false := (hl.txOpen hdt).2.2.1
        have hres : s.result = none := by
          cases hres : s.result with
          | none => rfl
          | some r =>
            have := (hinv.ret0 r hres).2.1
            rw [hqd] at this; exact absurd this (by simp)
        apply joinC_of_core_doneQ hc hru' hrA
        · exact closedB_iff.mpr ⟨hian, rfl⟩
        · exact closedB_iff.mpr ⟨hian, rfl⟩
        · exact hqd
        · exact hres
        · have e : ({ coreN { finOk c s f with im := m, readyQ := R, dropped := Dp, doneTxOpen := false } with
                doneQ := [] } : PState) =
              { ({ coreN (finOk c { s with im := m, readyQ := R, dropped := Dp, doneTxOpen := false } f) with
                  doneQ := [] } : PState) with
                panic := ({ finOk c s f with im := m, readyQ := R, dropped := Dp, doneTxOpen := false } : PState).panic } := rfl
          rw [e, pu]
          exact panic_false_eta _ pA
  rcases hcase with ⟨ho, _⟩ | ⟨ho, _⟩ | ⟨ho, hs1⟩ | ⟨ho, _⟩ | ⟨ho, g, rest, hq, ⟨hincl, hs1⟩ | ⟨hincl, hs1⟩⟩
  · exact absurd (Or.inl ho) hout
  · exact absurd (Or.inr (Or.inr ho)) hout
  · -- `Interrupted(None)`
    subst ho
    refine closing s.readyQ s.dropped (hintNone rfl).2 hs1 ?_
    intro X hX hXd
    rw [← hX, ← hXd]
    rfl
  · exact absurd (Or.inr (Or.inl ho)) hout
  · -- `Interrupted(Some g)`, handed out
    subst ho
    subst hs1
    have hgf : g ≠ f := by
      intro e
      exact (hinv.head_not_handed hq).2.1 (e ▸ hinv.inflHanded f hi)
    have hca : s.closeAfter = none := by
      cases hca : s.closeAfter with
      | none => rfl
      | some y =>
        have := hl.closeIan (by rw [hca]; rfl)
        rw [(hintSome rfl).1] at this
        exact absurd this (by simp)
    have hi1 : f ∈ ({ handOut c { s with im := m } g rest with closeAfter := some g } : PState).inflight :=
      List.mem_append_left _ hi
    have hfin1 : step? c { handOut c { s with im := m } g rest with closeAfter := some g } (.finish f ok) =
        finApply c { handOut c { s with im := m } g rest with closeAfter := some g } f ok :=
      step_fin_of (s := { handOut c { s with im := m } g rest with closeAfter := some g }) hi1 hv
    have hera : (s.inflight ++ [g]).erase f = s.inflight.erase f ++ [g] := List.erase_append_left _ hi
    have hne1 : (some g != some f) = true := by simp [hgf]
    have hne2 : (s.closeAfter != some f) = true := by rw [hca]; rfl
    cases ok with
    | true =>
      simp only [finApply, if_true, Option.some.injEq] at hfa
      subst hfa
      have hu : step? c (finOk c s f) .schedPoll =
          some { handOut c { finOk c s f with im := m } g rest with closeAfter := some g } := by
        rw [hsp']
        show (match s.readyQ with
          | [] => none
          | f' :: rest' => if c.incl then some { handOut c { finOk c s f with im := m } f' rest' with closeAfter := some f' }
              else some { finOk c s f with im := m, readyQ := rest', dropped := some f', doneTxOpen := false }) = _
        rw [hq, hincl]; rfl
      have hf1 : step? c { handOut c { s with im := m } g rest with closeAfter := some g } (.finish f true) =
          some (finOk c { handOut c { s with im := m } g rest with closeAfter := some g } f) := by
        rw [hfin1]; rfl
      refine ⟨_, hf1, ⟨[.sp], [], _, _, crun_one hu, rfl, Sim.toC ?_⟩⟩
      have hnpu := (inv0_reachable hc (Reachable.step _ hr' hu)).noPanic
      have hnp1 := (inv0_reachable hc (Reachable.step _ hr1 hf1)).noPanic
      sim_fields
      · show (s.doneTxOpen && (s.sRemaining - 1 != 0) && s.closeAfter != some f) =
          (s.doneTxOpen && (s.sRemaining - 1 != 0) && (some g != some f))
        rw [hne1, hne2]
      · exact hera.symm
      · rw [hnpu, hnp1]
    | false =>
      simp only [finApply, Bool.false_eq_true, if_false] at hfa
      cases hm : c.errMode with
      | none => rw [hm] at hfa; exact absurd hfa (by simp)
      | shortCircuit => exact absurd hm hnotS
      | collect =>
        rw [hm] at hfa
        simp only [Option.some.injEq] at hfa
        subst hfa
        have hu : step? c (finErrC c s f) .schedPoll =
            some { handOut c { finErrC c s f with im := m } g rest with closeAfter := some g } := by
          rw [hsp']
          show (match s.readyQ with
            | [] => none
            | f' :: rest' => if c.incl then some { handOut c { finErrC c s f with im := m } f' rest' with closeAfter := some f' }
                else some { finErrC c s f with im := m, readyQ := rest', dropped := some f', doneTxOpen := false }) = _
          rw [hq, hincl]; rfl
        have hf1 : step? c { handOut c { s with im := m } g rest with closeAfter := some g } (.finish f false) =
            some (finErrC c { handOut c { s with im := m } g rest with closeAfter := some g } f) := by
          rw [hfin1]; simp only [finApply, Bool.false_eq_true, if_false, hm]
        refine ⟨_, hf1, ⟨[.sp], [], _, _, crun_one hu, rfl, Sim.toC ?_⟩⟩
        have hnpu := (inv0_reachable hc (Reachable.step _ hr' hu)).noPanic
        have hnp1 := (inv0_reachable hc (Reachable.step _ hr1 hf1)).noPanic
        sim_fields
        · exact hera.symm
        · rw [hnpu, hnp1]
  · -- `Interrupted(Some g)`, swallowed
    subst ho
    refine closing rest (some g) (hintSome rfl).2.1 hs1 ?_
    intro X hX _
    show (match X.readyQ with
      | [] => none
      | f' :: rest' => if c.incl then some { handOut c { X with im := m } f' rest' with closeAfter := some f' }
          else some { X with im := m, readyQ := rest', dropped := some f', doneTxOpen := false }) = _
    rw [hX, hq, hincl]
    rfl

/-! ### all core actions, core runs -/

theorem finC_core_commute (hc : GoodCfg c) (hapi : c.ApiOk) (hr : Reachable c s)
    (a : CA) {f : Nat} {ok : Bool} {s1 s' : PState}
    (h1 : step? c s a.act = some s1) (h2 : step? c s (.finish f ok) = some s') :
    ∃ s1', step? c s1 (.finish f ok) = some s1' ∧ JoinC c s' s1' := by
  cases a with
  | qr =>
    obtain ⟨s1', u, a1, a2, a3⟩ := fin_qr_commute hc hr h1 h2
    exact ⟨s1', a1, ⟨[.qr], [], u, s1', crun_one a2, rfl, a3.toC⟩⟩
  | qe =>
    obtain ⟨s1', u, a1, a2, a3⟩ := fin_qe_commute h1 h2
    exact ⟨s1', a1, ⟨[.qe], [], u, s1', crun_one a2, rfl, a3.toC⟩⟩
  | sp => exact finC_sp_commute hc hapi hr h1 h2
  | se =>
    obtain ⟨_, hinf, _⟩ := schedEnd_cases h1
    obtain ⟨⟨hi, _⟩, _⟩ := fin_guard h2
    rw [hinf] at hi; exact absurd hi (by simp)
  | rt =>
    obtain ⟨hsd, _⟩ := ret_cases h1
    obtain ⟨⟨hi, _⟩, _⟩ := fin_guard h2
    have := (inv_reachable hc hapi hr).sDoneInfl hsd
    rw [this] at hi; exact absurd hi (by simp)

theorem finC_crun_commute (hc : GoodCfg c) (hapi : c.ApiOk) {f : Nat} {ok : Bool} (cs : List CA) :
    ∀ {s q s' : PState}, Reachable c s → crun c s cs = some q →
      step? c s (.finish f ok) = some s' → ∃ q', step? c q (.finish f ok) = some q' ∧ JoinC c s' q' := by
  induction cs with
  | nil =>
    intro s q s' _ hrun hfin
    simp only [crun_nil, Option.some.injEq] at hrun
    subst hrun
    exact ⟨s', hfin, JoinC.refl _⟩
  | cons a cs ih =>
    intro s q s' hr hrun hfin
    rw [crun_cons] at hrun
    cases h1 : step? c s a.act with
    | none => rw [h1] at hrun; exact absurd hrun (by simp)
    | some s1 =>
      rw [h1] at hrun
      simp only [Option.bind] at hrun
      obtain ⟨s1', hf1, hj1⟩ := finC_core_commute hc hapi hr a h1 hfin
      have hr1 := Reachable.step _ hr h1
      obtain ⟨q', hq', hj⟩ := ih hr1 hrun hf1
      exact ⟨q', hq', JoinC.trans hc (Reachable.step _ hr hfin) (Reachable.step _ hr1 hf1)
        (Reachable.step _ (crun_reachable hr1 hrun) hq') hj1 hj⟩

/-! ### `finish` respects `SimC` -/

theorem simC_finish (hc : GoodCfg c) {q r q' : PState} {f : Nat} {ok : Bool} (hrq : Reachable c q)
    (hrr : Reachable c r) (hs : SimC q r) (hvr : f ∈ r.invoked)
    (h : step? c q (.finish f ok) = some q') : ∃ r', step? c r (.finish f ok) = some r' ∧ SimC q' r' := by
  cases hcl : closedB q with
  | false =>
    obtain ⟨r', hr', hsim⟩ := sim_finish (simC_open hs hcl) hvr h
    exact ⟨r', hr', hsim.toC⟩
  | true =>
    have hcore := simC_closed hs hcl
    obtain ⟨⟨hi, hv⟩, hfa⟩ := fin_guard h
    have e_in : q.inflight = r.inflight := by have := congrArg PState.inflight hcore; exact this
    obtain ⟨r', hr'⟩ := finApply_some_congr hfa r
    have hstep : step? c r (.finish f ok) = some r' := by
      rw [step_fin_of (by rw [← e_in]; exact hi) hvr]; exact hr'
    refine ⟨r', hstep, simC_of_core (closed_step hcl h) ?_⟩
    have pq := (inv0_reachable hc (Reachable.step _ hrq h)).noPanic
    have pr := (inv0_reachable hc (Reachable.step _ hrr hstep)).noPanic
    have hdt : q.doneTxOpen = false := (closedB_iff.mp hcl).2
    cases ok with
    | true =>
      simp only [finApply, if_true, Option.some.injEq] at hfa hr'
      subst hfa hr'
      have e1 : coreN (finOk c q f) = { coreN (finOk c (coreN q) f) with panic := (finOk c q f).panic } := rfl
      have e2 : coreN (finOk c r f) = { coreN (finOk c (coreN r) f) with panic := (finOk c r f).panic } := rfl
      rw [e1, e2, pq, pr, hcore]
    | false =>
      simp only [finApply, Bool.false_eq_true, if_false] at hfa hr'
      cases hm : c.errMode with
      | none => rw [hm] at hfa; exact absurd hfa (by simp)
      | collect =>
        rw [hm] at hfa hr'
        simp only [Option.some.injEq] at hfa hr'
        subst hfa hr'
        have e1 : coreN (finErrC c q f) = { coreN (finErrC c (coreN q) f) with panic := (finErrC c q f).panic } := rfl
        have e2 : coreN (finErrC c r f) = { coreN (finErrC c (coreN r) f) with panic := (finErrC c r f).panic } := rfl
        rw [e1, e2, pq, pr, hcore]
      | shortCircuit =>
        rw [hm] at hfa hr'
        simp only [Option.some.injEq] at hfa hr'
        subst hfa hr'
        have e1 : coreN (finErrS q f) = coreN (finErrS (coreN q) f) := rfl
        have e2 : coreN (finErrS r f) = coreN (finErrS (coreN r) f) := rfl
        rw [e1, e2, hcore]

/-- **`finish` preserves the coupling `JoinC`** -/
theorem joinC_finish (hc : GoodCfg c) (hapi : c.ApiOk) {f : Nat} {ok : Bool} {s' t' : PState}
    (hrs : Reachable c s) (hrt : Reachable c t) (hj : JoinC c s t)
    (h1 : step? c s (.finish f ok) = some s') (h2 : step? c t (.finish f ok) = some t') : JoinC c s' t' := by
  obtain ⟨as, bs, u1, u2, hu1, hu2, hsim⟩ := hj
  obtain ⟨u1', hf1, hj1⟩ := finC_crun_commute hc hapi as hrs hu1 h1
  obtain ⟨u2', hf2, hj2⟩ := finC_crun_commute hc hapi bs hrt hu2 h2
  have hv2 : f ∈ u2.invoked := crun_invoked_mem hu2 (fin_guard h2).1.2
  have hru1 := crun_reachable hrs hu1
  have hru2 := crun_reachable hrt hu2
  obtain ⟨r', hr', hs'⟩ := simC_finish hc hru1 hru2 hsim hv2 hf1
  rw [hf2] at hr'
  simp only [Option.some.injEq] at hr'
  subst hr'
  have hrs' := Reachable.step _ hrs h1
  have hrt' := Reachable.step _ hrt h2
  have hru1' := Reachable.step _ hru1 hf1
  have hru2' := Reachable.step _ hru2 hf2
  exact JoinC.trans hc hrs' hru1' hrt' hj1
    (JoinC.trans hc hru1' hru2' hrt' (JoinC.of_sim hs') hj2.symm)

/-! ### `interrupt` respects `SimC` -/

theorem simC_intr (h : SimC s t) : SimC (intrSt s) (intrSt t) := by
  have h' : normC s = normC t := h
  show normC (intrSt s) = normC (intrSt t)
  have e : ∀ u : PState, normC (intrSt u) = { normC u with im := { (normC u).im with sent := true } } := by
    intro u
    unfold normC
    have : closedB (intrSt u) = closedB u := rfl
    rw [this]
    split <;> rfl
  rw [e, e, h']

end FG
