/-
  Proofs/SFinish.lean — the external actions against `Sim`:
  * `sim_finish` — `finish f ok` respects `Sim`;
  * `crun_intr_frame` — `NonInterruptible`: the signal is never looked at, `interrupt` commutes with
    every core action (and core run) on the nose; `sim_intr`.
-/
import FnGraphVerif.Proofs.SCommute
namespace FG
variable {c : Cfg} {s s' t : PState}

/-! ### `finish` respects `Sim` -/

theorem sim_finish {q r q' : PState} {f : Nat} {ok : Bool} (hs : Sim q r) (hvr : f ∈ r.invoked)
    (h : step? c q (.finish f ok) = some q') : ∃ r', step? c r (.finish f ok) = some r' ∧ Sim q' r' := by
  obtain ⟨X, Y, rfl, hq⟩ := sim_exists hs
  obtain ⟨⟨hi, hv⟩, hfa⟩ := fin_guard h
  have hfin : step? c { q with invoked := X, readyQ := Y } (.finish f ok) =
      finApply c { q with invoked := X, readyQ := Y } f ok :=
    step_fin_of (s := { q with invoked := X, readyQ := Y }) hi hvr
  cases ok with
  | true =>
    simp only [finApply, if_true, Option.some.injEq] at hfa
    subst hfa
    refine ⟨finOk c { q with invoked := X, readyQ := Y } f, by rw [hfin]; rfl, ?_⟩
    sim_fields
    intro hrx; exact (hq hrx).symm
  | false =>
    simp only [finApply, Bool.false_eq_true, if_false] at hfa
    cases hm : c.errMode with
    | none => rw [hm] at hfa; exact absurd hfa (by simp)
    | collect =>
      rw [hm] at hfa
      simp only [Option.some.injEq] at hfa
      subst hfa
      refine ⟨finErrC c { q with invoked := X, readyQ := Y } f,
        by rw [hfin]; simp only [finApply, Bool.false_eq_true, if_false, hm], ?_⟩
      sim_fields
      intro hrx; exact (hq hrx).symm
    | shortCircuit =>
      rw [hm] at hfa
      simp only [Option.some.injEq] at hfa
      subst hfa
      refine ⟨finErrS { q with invoked := X, readyQ := Y } f,
        by rw [hfin]; simp only [finApply, Bool.false_eq_true, if_false, hm], ?_⟩
      sim_fields
      intro hrx; exact absurd hrx (by simp [finErrS])

/-! ### `finish` commutes with core runs -/

theorem crun_invoked_mem {as : List CA} {q : PState} (h : crun c s as = some q) {f : Nat}
    (hf : f ∈ s.invoked) : f ∈ q.invoked :=
  (run_invoked_prefix h).subset hf

/-! ### `interrupt` under `NonInterruptible` -/

def intrSt (s : PState) : PState := { s with im := { s.im with sent := true } }

theorem step_interrupt_S (c : Cfg) (s : PState) : step? c s .interrupt = some (intrSt s) := rfl

theorem pollNext_non_sent (m : IM) (u : Under) :
    pollNext .non { m with sent := true } u =
      ({ (pollNext .non m u).1 with sent := true }, (pollNext .non m u).2) := by
  obtain ⟨sent, recv, cnt, sig, hp, ipc, ian⟩ := m
  cases ian <;> cases sig <;> cases ipc <;> cases hp <;> cases u <;> simp [pollNext, interruptCheck]

theorem spApply_intr (m : IM) (out : Out) :
    spApply c (intrSt s) { m with sent := true } out = (spApply c s m out).map intrSt := by
  cases out <;> simp only [spApply, Option.map, intrSt]
  · split <;> rfl
  · split
    · rfl
    · split <;> rfl

theorem step_intr_frame (hst : c.strat = .non) (a : CA) :
    step? c (intrSt s) a.act = (step? c s a.act).map intrSt := by
  cases a
  · simp only [CA.act, step_qr]
    have e1 : (intrSt s).qDone = s.qDone := rfl
    have e2 : (intrSt s).result = s.result := rfl
    have e3 : (intrSt s).doneQ = s.doneQ := rfl
    rw [e1, e2, e3]
    split
    · rfl
    · split
      · rfl
      · rfl
  · simp only [CA.act, step_qe]
    have e1 : (intrSt s).qDone = s.qDone := rfl
    have e2 : (intrSt s).doneTxOpen = s.doneTxOpen := rfl
    have e3 : (intrSt s).doneQ = s.doneQ := rfl
    rw [e1, e2, e3]
    split <;> rfl
  · simp only [CA.act, step_sp]
    have hg : spGuard c (intrSt s) = spGuard c s := rfl
    have hu : readyUnder (intrSt s) = readyUnder s := rfl
    have him : (intrSt s).im = { s.im with sent := true } := rfl
    rw [hg, hu, him, hst, pollNext_non_sent]
    split
    · rfl
    · exact spApply_intr _ _
  · simp only [CA.act, step_se]
    have e1 : (intrSt s).streamEnded = s.streamEnded := rfl
    have e2 : (intrSt s).inflight = s.inflight := rfl
    have e3 : (intrSt s).sDone = s.sDone := rfl
    rw [e1, e2, e3]
    split <;> rfl
  · simp only [CA.act, step_rt]
    have e1 : (intrSt s).qDone = s.qDone := rfl
    have e2 : (intrSt s).result = s.result := rfl
    have e3 : (intrSt s).sDone = s.sDone := rfl
    rw [e1, e2, e3]
    split <;> rfl

theorem crun_intr_frame (hst : c.strat = .non) (as : List CA) : ∀ {s q : PState},
    crun c s as = some q → crun c (intrSt s) as = some (intrSt q) := by
  induction as with
  | nil => intro s q h; simp only [crun_nil, Option.some.injEq] at h ⊢; rw [h]
  | cons a as ih =>
    intro s q h
    rw [crun_cons] at h ⊢
    rw [step_intr_frame hst a]
    cases h1 : step? c s a.act with
    | none => rw [h1] at h; exact absurd h (by simp)
    | some s1 =>
      rw [h1] at h
      simp only [Option.map, Option.bind] at h ⊢
      exact ih h

theorem sim_intr (h : Sim s t) : Sim (intrSt s) (intrSt t) := by
  have h' : norm s = norm t := h
  show norm (intrSt s) = norm (intrSt t)
  have e : ∀ u : PState, norm (intrSt u) = { norm u with im := { (norm u).im with sent := true } } := fun _ => rfl
  rw [e, e, h']

end FG
