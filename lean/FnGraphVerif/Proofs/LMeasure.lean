/-
  Proofs/LMeasure.lean — every state-changing core action strictly decreases the measure `mu` of
  `Proofs/LiveMeasure.lean` (there it is shown for the action `nextInternal` picks); runs of core
  actions; normal forms.
-/
import FnGraphVerif.Proofs.LCore
import FnGraphVerif.Theorems.C04
namespace FG
variable {c : Cfg} {s s' t : PState}

theorem mu_core (hinv' : Inv0 c s') (a : CA) (h : step? c s a.act = some s') (hne : s' ≠ s) :
    mu c s' < mu c s := by
  cases a
  · have hlen := hinv'.qRem
    obtain ⟨_, _, x, rest, _, rfl⟩ := queuerRecv_cases h
    simp only [List.length_append, List.length_cons, List.length_nil] at hlen
    simp only [mu, List.length_append, List.length_cons, List.length_nil]
    omega
  · obtain ⟨hqd, _, _, rfl⟩ := queuerEnd_cases h
    simp only [mu, hqd, cond_true, cond_false]
    omega
  · exact mu_schedPoll hinv' h hne
  · obtain ⟨_, _, hsd, rfl⟩ := schedEnd_cases h
    simp only [mu, hsd, cond_true, cond_false]
    omega
  · obtain ⟨_, _, hres, rfl⟩ := ret_cases h
    simp only [mu, hres, Option.isSome_none, Option.isSome_some, cond_true, cond_false]
    omega

/-- a run of core actions -/
def crun (c : Cfg) (s : PState) (as : List CA) : Option PState := run c s (as.map CA.act)

theorem crun_nil : crun c s [] = some s := rfl

theorem crun_cons (a : CA) (as : List CA) :
    crun c s (a :: as) = (step? c s a.act).bind (fun s1 => crun c s1 as) := by
  simp only [crun, List.map_cons, run]
  cases step? c s a.act <;> rfl

theorem crun_append {as bs : List CA} {s1 : PState} (h : crun c s as = some s1) :
    crun c s (as ++ bs) = crun c s1 bs := by
  simp only [crun, List.map_append]
  exact run_append_G h

theorem crun_reachable {as : List CA} (hr : Reachable c s) (h : crun c s as = some s') : Reachable c s' :=
  run_reachable_G hr h

/-- `Sim` transfers whole core runs -/
theorem sim_crun (hc : GoodCfg c) {as : List CA} : ∀ {s t s' : PState}, Reachable c s → Sim s t →
    crun c s as = some s' → ∃ t', crun c t as = some t' ∧ Sim s' t' := by
  induction as with
  | nil =>
    intro s t s' _ hs h
    simp only [crun_nil, Option.some.injEq] at h
    subst h
    exact ⟨t, rfl, hs⟩
  | cons a as ih =>
    intro s t s' hr hs h
    rw [crun_cons] at h
    cases h1 : step? c s a.act with
    | none => rw [h1] at h; exact absurd h (by simp)
    | some s1 =>
      rw [h1] at h
      simp only [Option.bind] at h
      have hl := linv_reachable hc hr
      have hrr : s.readyRxOpen = false → spGuard c s = true := by
        intro hrx
        unfold spGuard
        rcases hl.rrx hrx with h | h <;> simp [h]
      obtain ⟨t1, ht1, hs1⟩ := sim_step a hs hrr h1
      obtain ⟨t', ht', hs'⟩ := ih (Reachable.step _ hr h1) hs1 h
      refine ⟨t', ?_, hs'⟩
      rw [crun_cons, ht1]
      exact ht'

/-- normal form modulo `Sim`: no core action leads out of the `Sim`-class -/
def NF (c : Cfg) (s : PState) : Prop := ∀ (a : CA) (s' : PState), step? c s a.act = some s' → Sim s' s

end FG
