/-
  Proofs/NInvoke.lean — hand-outs versus closure invocations around an interrupt (DESIGN 7.4).

  `schedPoll` hands a function out (it joins `handedOut` / `inflight`), a later `invoke f` calls the
  user closure (it joins `invoked`).  `pendingInvoke s` counts the functions that sit between the
  two.  The potential argument: every `invoke` consumes one pending function, only a hand-out
  creates one, so   #invokes after the signal ≤ #hand-outs after the signal + pending at the signal.
  Nothing here needs `GoodCfg`.
-/
import FnGraphVerif.Theorems.C08
import FnGraphVerif.Proofs.ProtoSafety
namespace FG

/-- number of functions handed out (in flight) whose closure has not been called yet -/
def pendingInvoke (s : PState) : Nat :=
  (s.inflight.filter (fun f => decide (f ∉ s.invoked))).length

def Action.isInvoke : Action → Bool
  | .invoke _ => true
  | _ => false

/-- number of `invoke` actions among the actions of `as` that come after the first `interrupt`
    (`seen` = an `interrupt` has already happened); like `handoutsAfterIntr` the count stops at the
    first action that is not enabled -/
def invokesAfterIntr (c : Cfg) : PState → Bool → List Action → Nat
  | _, _, [] => 0
  | s, seen, a :: as =>
    match step? c s a with
    | none => 0
    | some s' =>
      (if seen && a.isInvoke then 1 else 0) + invokesAfterIntr c s' (seen || a == .interrupt) as

/-- the number of functions handed out but not yet invoked at the moment of the first `interrupt`
    of `as` (0 if there is none, or if the run blocks before it) -/
def pendingAtIntr (c : Cfg) : PState → List Action → Nat
  | _, [] => 0
  | s, a :: as =>
    match step? c s a with
    | none => 0
    | some s' => if a = .interrupt then pendingInvoke s else pendingAtIntr c s' as

/-! ### list facts -/

/-- members of `l` (with multiplicity) that are not in `inv` -/
def pend (l inv : List Nat) : Nat := (l.filter (fun f => decide (f ∉ inv))).length

theorem pendingInvoke_eq (s : PState) : pendingInvoke s = pend s.inflight s.invoked := rfl

theorem pend_nil (inv : List Nat) : pend [] inv = 0 := rfl

theorem pend_cons (x : Nat) (l inv : List Nat) :
    pend (x :: l) inv = (if x ∈ inv then 0 else 1) + pend l inv := by
  unfold pend
  by_cases hx : x ∈ inv
  · simp [hx]
  · simp [hx]; omega

theorem pend_append (l1 l2 inv : List Nat) : pend (l1 ++ l2) inv = pend l1 inv + pend l2 inv := by
  unfold pend
  rw [List.filter_append, List.length_append]

theorem pend_snoc_le (l inv : List Nat) (f : Nat) : pend l (inv ++ [f]) ≤ pend l inv := by
  induction l with
  | nil => simp [pend_nil]
  | cons x l ih =>
    rw [pend_cons, pend_cons]
    by_cases hx : x ∈ inv
    · simp [hx]; exact ih
    · by_cases hxf : x = f
      · simp [hxf]; omega
      · simp [hx, hxf]; exact ih

theorem pend_snoc_lt (l inv : List Nat) (f : Nat) (hf : f ∈ l) (hfi : f ∉ inv) :
    pend l (inv ++ [f]) + 1 ≤ pend l inv := by
  induction l with
  | nil => cases hf
  | cons x l ih =>
    rw [pend_cons, pend_cons]
    by_cases hxf : x = f
    · subst hxf
      have := pend_snoc_le l inv x
      simp [hfi]; omega
    · have hfl : f ∈ l := by
        rcases List.mem_cons.mp hf with h | h
        · exact absurd h.symm hxf
        · exact h
      have ih' := ih hfl
      by_cases hx : x ∈ inv
      · simp [hx]; exact ih'
      · simp [hx, hxf]; omega

theorem pend_erase (l inv : List Nat) (f : Nat) (hfi : f ∈ inv) : pend (l.erase f) inv = pend l inv := by
  induction l with
  | nil => rfl
  | cons x l ih =>
    by_cases hxf : x = f
    · subst hxf
      rw [List.erase_cons_head, pend_cons]
      simp [hfi]
    · have hb : (x == f) = false := by simpa using hxf
      rw [List.erase_cons, hb]
      simp only [Bool.false_eq_true, if_false]
      rw [pend_cons, pend_cons, ih]

theorem pend_le_length (l inv : List Nat) : pend l inv ≤ l.length := by
  unfold pend
  exact List.length_filter_le _ _

/-! ### one protocol step -/

variable {c : Cfg} {s s' : PState}

/-- the potential argument for one step: an `invoke` consumes a pending function, only a
    hand-out creates one -/
theorem pending_step {a : Action} (h : step? c s a = some s') :
    (if a.isInvoke then 1 else 0) + pendingInvoke s' ≤
      pendingInvoke s + (s'.handedOut.length - s.handedOut.length) := by
  simp only [pendingInvoke_eq]
  cases a with
  | queuerRecv =>
    obtain ⟨x, rest, _, rfl⟩ := step_queuerRecv h
    simp [Action.isInvoke]
  | queuerEnd =>
    simp only [step?] at h
    split at h
    · cases h
    · cases h; simp [Action.isInvoke]
  | schedPoll =>
    obtain ⟨_, _, h | h | h⟩ := step_schedPoll_F h
    · obtain ⟨m, se, rx, dtx, rfl⟩ := h
      simp [Action.isInvoke]
    · obtain ⟨m, ca, f, rest, _, rfl⟩ := h
      have h1 := pend_le_length [f] s.invoked
      simp only [Action.isInvoke, handOut, pend_append, List.length_append, List.length_cons,
        List.length_nil, Bool.false_eq_true, if_false] at h1 ⊢
      omega
    · obtain ⟨m, f, rest, _, rfl⟩ := h
      simp [Action.isInvoke]
  | invoke f =>
    simp only [step?] at h
    split at h
    · rename_i hg
      cases h
      have := pend_snoc_lt s.inflight s.invoked f hg.1 hg.2
      simp only [Action.isInvoke, if_true, Nat.sub_self, Nat.add_zero]
      omega
    · cases h
  | finish f ok =>
    obtain ⟨_, hfi, h | h | h⟩ := step_finish h
    · obtain ⟨_, dq, _, rfl⟩ := h
      simp [Action.isInvoke, pend_erase _ _ _ hfi]
    · obtain ⟨_, _, rfl⟩ := h
      simp [Action.isInvoke, pend_erase _ _ _ hfi]
    · obtain ⟨_, _, rfl⟩ := h
      simp [Action.isInvoke, pend_erase _ _ _ hfi]
  | interrupt =>
    simp only [step?] at h
    cases h; simp [Action.isInvoke]
  | schedEnd =>
    simp only [step?] at h
    split at h
    · cases h; simp [Action.isInvoke]
    · cases h
  | ret =>
    simp only [step?] at h
    split at h
    · cases h; simp [Action.isInvoke]
    · cases h

/-- `interrupt` touches neither `inflight` nor `invoked` -/
theorem pending_interrupt (h : step? c s .interrupt = some s') : pendingInvoke s' = pendingInvoke s := by
  simp only [step?] at h
  cases h; rfl

/-- exactly the `invoke` actions extend `invoked`, by one element -/
theorem invoked_length_step {a : Action} (h : step? c s a = some s') :
    s'.invoked.length = s.invoked.length + (if a.isInvoke then 1 else 0) := by
  cases a with
  | queuerRecv =>
    obtain ⟨x, rest, _, rfl⟩ := step_queuerRecv h
    simp [Action.isInvoke]
  | queuerEnd =>
    simp only [step?] at h
    split at h
    · cases h
    · cases h; simp [Action.isInvoke]
  | schedPoll =>
    obtain ⟨_, _, h | h | h⟩ := step_schedPoll_F h
    · obtain ⟨m, se, rx, dtx, rfl⟩ := h
      simp [Action.isInvoke]
    · obtain ⟨m, ca, f, rest, _, rfl⟩ := h
      simp [Action.isInvoke, handOut]
    · obtain ⟨m, f, rest, _, rfl⟩ := h
      simp [Action.isInvoke]
  | invoke f =>
    simp only [step?] at h
    split at h
    · cases h; simp [Action.isInvoke]
    · cases h
  | finish f ok =>
    obtain ⟨_, _, h | h | h⟩ := step_finish h
    · obtain ⟨_, dq, _, rfl⟩ := h
      simp [Action.isInvoke]
    · obtain ⟨_, _, rfl⟩ := h
      simp [Action.isInvoke]
    · obtain ⟨_, _, rfl⟩ := h
      simp [Action.isInvoke]
  | interrupt =>
    simp only [step?] at h
    cases h; simp [Action.isInvoke]
  | schedEnd =>
    simp only [step?] at h
    split at h
    · cases h; simp [Action.isInvoke]
    · cases h
  | ret =>
    simp only [step?] at h
    split at h
    · cases h; simp [Action.isInvoke]
    · cases h

/-! ### whole schedules -/

/-- after the signal: invocations are paid for by the pending functions and the later hand-outs -/
theorem invokes_le_handouts_seen (c : Cfg) (as : List Action) (s : PState) :
    invokesAfterIntr c s true as ≤ pendingInvoke s + handoutsAfterIntr c s true as := by
  induction as generalizing s with
  | nil => simp [invokesAfterIntr]
  | cons a as ih =>
    unfold invokesAfterIntr handoutsAfterIntr
    cases h : step? c s a with
    | none => simp
    | some s1 =>
      have h1 := pending_step h
      have h2 := ih s1
      simp only [Bool.true_or, Bool.true_and, if_true] at h2 ⊢
      omega

/-- before the signal -/
theorem invokes_le_handouts (c : Cfg) (as : List Action) (s : PState) :
    invokesAfterIntr c s false as ≤ handoutsAfterIntr c s false as + pendingAtIntr c s as := by
  induction as generalizing s with
  | nil => simp [invokesAfterIntr]
  | cons a as ih =>
    unfold invokesAfterIntr handoutsAfterIntr pendingAtIntr
    cases h : step? c s a with
    | none => simp
    | some s1 =>
      by_cases ha : a = .interrupt
      · subst ha
        have h1 := invokes_le_handouts_seen c as s1
        have h2 := pending_interrupt h
        simp only [Bool.false_and, Bool.false_or, Bool.false_eq_true, if_false, Nat.zero_add,
          beq_self_eq_true, if_true] at h1 ⊢
        omega
      · have hb : (a == Action.interrupt) = false := by simpa using ha
        have h2 := ih s1
        simp only [Bool.false_and, Bool.false_or, Bool.false_eq_true, if_false, Nat.zero_add,
          hb, ha] at h2 ⊢
        exact h2

/-- the same count in the style of `handoutsAfterIntr`: growth of `invoked` after the signal -/
def invokedGrowthAfterIntr (c : Cfg) : PState → Bool → List Action → Nat
  | _, _, [] => 0
  | s, seen, a :: as =>
    match step? c s a with
    | none => 0
    | some s' =>
      (if seen then s'.invoked.length - s.invoked.length else 0)
        + invokedGrowthAfterIntr c s' (seen || a == .interrupt) as

theorem invokedGrowth_eq (c : Cfg) (as : List Action) (s : PState) (seen : Bool) :
    invokedGrowthAfterIntr c s seen as = invokesAfterIntr c s seen as := by
  induction as generalizing s seen with
  | nil => rfl
  | cons a as ih =>
    unfold invokedGrowthAfterIntr invokesAfterIntr
    cases h : step? c s a with
    | none => rfl
    | some s1 =>
      have h1 := invoked_length_step h
      simp only [ih, h1]
      cases seen <;> cases a.isInvoke <;> simp

/-! ### the value of `pendingAtIntr` -/

theorem pendingInvoke_eq_zero_iff (s : PState) :
    pendingInvoke s = 0 ↔ ∀ f ∈ s.inflight, f ∈ s.invoked := by
  unfold pendingInvoke
  rw [List.length_eq_zero_iff, List.filter_eq_nil_iff]
  constructor
  · intro h f hf
    have := h f hf
    simpa using this
  · intro h f hf
    simpa using h f hf

/-- `pendingAtIntr` is `pendingInvoke` of the state in which the first `interrupt` happens -/
theorem pendingAtIntr_eq (c : Cfg) (pre rest : List Action) (s0 s : PState)
    (hpre : ∀ a ∈ pre, a ≠ Action.interrupt) (hr : run c s0 pre = some s) :
    pendingAtIntr c s0 (pre ++ .interrupt :: rest) = pendingInvoke s := by
  induction pre generalizing s0 with
  | nil =>
    simp only [run, Option.some.injEq] at hr
    subst hr
    simp [pendingAtIntr, step?]
  | cons a pre ih =>
    unfold run at hr
    cases h : step? c s0 a with
    | none => simp [h] at hr
    | some s1 =>
      simp only [h] at hr
      have ha : a ≠ .interrupt := hpre a (by simp)
      simp only [List.cons_append, pendingAtIntr, h, ha, if_false]
      exact ih s1 (fun b hb => hpre b (by simp [hb])) hr

/-- no `interrupt` in the schedule: nothing is pending "at the interrupt" -/
theorem pendingAtIntr_no_interrupt (c : Cfg) (as : List Action) (s0 : PState)
    (has : ∀ a ∈ as, a ≠ Action.interrupt) : pendingAtIntr c s0 as = 0 := by
  induction as generalizing s0 with
  | nil => rfl
  | cons a as ih =>
    unfold pendingAtIntr
    cases h : step? c s0 a with
    | none => rfl
    | some s1 =>
      have ha : a ≠ .interrupt := has a (by simp)
      simp only [ha, if_false]
      exact ih s1 (fun b hb => has b (by simp [hb]))

/-- an invariant `P` of the non-`interrupt` steps that forces `pendingInvoke = 0`, resp. `≤ k` -/
theorem pendingAtIntr_le_of_inv (c : Cfg) (P : PState → Prop) (k : Nat)
    (hstep : ∀ s s' a, P s → step? c s a = some s' → P s')
    (hP : ∀ s, P s → pendingInvoke s ≤ k) (as : List Action) (s0 : PState) (h0 : P s0) :
    pendingAtIntr c s0 as ≤ k := by
  induction as generalizing s0 with
  | nil => simp [pendingAtIntr]
  | cons a as ih =>
    unfold pendingAtIntr
    cases h : step? c s0 a with
    | none => simp
    | some s1 =>
      simp only
      split
      · exact hP s0 h0
      · exact ih s1 (hstep s0 s1 a h0 h)

end FG
