/-
  Proofs/LiveNum.lean — an acyclic well-formed graph has a topological numbering (number of
  strict ancestors), hence induction along the edges; and two pigeonhole facts on
  duplicate-free lists of node ids.
-/
import FnGraphVerif.Proofs.Reach
import Mathlib.Data.Finset.Card
namespace FG
open Classical

noncomputable def anc_G (g : Dag) (v : Nat) : Finset Nat := (Finset.range g.n).filter (fun u => ReachP g u v)

theorem exists_numbering_G {g : Dag} (hwf : WF g) (hac : Acyclic g) :
    ∃ ord : Nat → Nat, ∀ u v, IsEdge g u v → ord u < ord v := by
  refine ⟨fun v => (anc_G g v).card, ?_⟩
  intro u v he
  apply Finset.card_lt_card
  constructor
  · intro x hx
    simp only [anc_G, Finset.mem_filter, Finset.mem_range] at hx ⊢
    exact ⟨hx.1, ReachP.tail hx.2 he⟩
  · intro hsub
    have hu : u ∈ anc_G g v := by
      simp only [anc_G, Finset.mem_filter, Finset.mem_range]
      exact ⟨ReachP.src_lt hwf (ReachP.edge he), ReachP.edge he⟩
    have := hsub hu
    simp only [anc_G, Finset.mem_filter, Finset.mem_range] at this
    exact hac u this.2

/-- induction along the edges of an acyclic graph: a property that holds of a node whenever it
    holds of all its parents holds of every node -/
theorem parents_induction_G {g : Dag} (hwf : WF g) (hac : Acyclic g) (P : Nat → Prop)
    (hstep : ∀ v, v < g.n → (∀ p ∈ parents g v, P p) → P v) : ∀ v, v < g.n → P v := by
  obtain ⟨ord, hord⟩ := exists_numbering_G hwf hac
  have key : ∀ k v, ord v < k → v < g.n → P v := by
    intro k
    induction k with
    | zero => intro v h; omega
    | succ k ih =>
      intro v hv hvn
      apply hstep v hvn
      intro p hp
      have he : IsEdge g p v := mem_parents.mp hp
      have := hord p v he
      exact ih p (by omega) (he.lt hwf).1
  intro v hv
  exact key (ord v + 1) v (by omega) hv

/-- a duplicate-free list of `n` ids below `n` contains every id below `n` -/
theorem nodup_full_G {l : List Nat} {n : Nat} (hnd : l.Nodup) (hb : ∀ x ∈ l, x < n) (hlen : n ≤ l.length)
    {v : Nat} (hv : v < n) : v ∈ l := by
  apply Classical.byContradiction
  intro hnot
  have hnd' : (v :: l).Nodup := List.nodup_cons.mpr ⟨hnot, hnd⟩
  have hb' : ∀ x ∈ v :: l, x < n := by
    intro x hx
    rcases List.mem_cons.mp hx with rfl | hx
    · exact hv
    · exact hb x hx
  have := nodup_bounded_length hnd' hb'
  simp only [List.length_cons] at this
  omega

/-- a duplicate-free list of ids below `n` shorter than `n` misses some id below `n` -/
theorem nodup_missing_G {l : List Nat} {n : Nat} (hlen : l.length < n) : ∃ v, v < n ∧ v ∉ l := by
  apply Classical.byContradiction
  intro h
  have hall : ∀ v, v < n → v ∈ l := by
    intro v hv
    apply Classical.byContradiction
    intro hn
    exact h ⟨v, hv, hn⟩
  have hsub : List.range n ⊆ l := fun x hx => hall x (List.mem_range.mp hx)
  have := List.Nodup.length_le_of_subset (List.nodup_range) hsub
  simp only [List.length_range] at this
  omega

end FG
