/-
  Proofs/UIdle.lean — a concurrency limit is WORK-CONSERVING (C10): in a quiescent state of a clean
  run (no interrupt sent or received, no failure) in which the limit does not disable the
  scheduler's poll (`underLimit`), every function whose predecessors in the scheduling graph have all
  returned ok has been handed out and invoked.  This generalises `maximal_progress` (C06, the
  unlimited case, `Theorems/C04.lean`): in a `Quiescent` state `schedPoll` is not enabled; when
  the limit is not what disables it the ready queue is empty, and the queuer has folded every done
  id, so nothing released is still waiting.

  * `idle_under_limit_all_started` — the general form, hypothesis `underLimit c s = true`
  * `idle_below_limit_all_started` — `c.limit = some (l+1)`, fewer than `l+1` functions in flight
  * `maximal_progress_of_idle`     — the unlimited case is an instance
-/
import FnGraphVerif.Theorems.C04
namespace FG

variable {c : Cfg} {s : PState}

/-- **C10 / C06** (work conservation, general form): clean run, quiescent, and the concurrency
    limit is not what keeps the scheduler from polling: every function whose scheduling-graph
    predecessors have all returned ok has been handed out and invoked. -/
theorem idle_under_limit_all_started (hc : GoodCfg c) (hr : Reachable c s) (hq : Quiescent c s)
    (hul : underLimit c s = true)
    (hni : s.im.sent = false ∧ s.im.recv = false) (hf : s.failed = [])
    {v : Nat} (hv : v < c.n) (hp : ∀ p ∈ parents c.D v, p ∈ s.endedOk) :
    v ∈ s.handedOut ∧ v ∈ s.invoked := by
  have hinv := inv0_reachable hc hr
  have hl := linv_reachable hc hr
  by_cases hs0 : s.sRemaining = 0
  · have := hinv.all_ended hs0 hf hv
    exact ⟨hinv.endedHanded v (Or.inl this), hinv.endedInvoked v (Or.inl this)⟩
  · have hnp : ¬ PDone s := by
      intro h
      rcases h with h | h | h
      · exact hs0 h
      · exact h hf
      · rw [hni.2] at h; exact absurd h (by simp)
    have hdt : s.doneTxOpen = true := by
      cases h : s.doneTxOpen with
      | true => rfl
      | false => exact absurd (hl.whyClosed h) hnp
    have hqd : s.qDone = false := by
      cases h : s.qDone with
      | false => rfl
      | true => exact absurd (hl.qDone_pdone h) hnp
    have hrt : s.readyTxOpen = true := by
      cases h : s.readyTxOpen with
      | true => rfl
      | false => exact absurd (hl.rtx_pdone hinv h) hnp
    have hse : s.streamEnded = false := by
      cases h : s.streamEnded with
      | false => rfl
      | true => exact absurd (hl.ended_pdone hinv h) hnp
    have hsd : s.sDone = false := by
      cases h : s.sDone with
      | false => rfl
      | true => exact absurd (hl.sDone_pdone hinv h) hnp
    have hres : s.result = none := by
      cases h : s.result with
      | none => rfl
      | some r => have := (hinv.ret0 r h).1; rw [hsd] at this; exact absurd this (by simp)
    have hrx : s.readyRxOpen = true := by
      cases h : s.readyRxOpen with
      | true => rfl
      | false =>
        rcases hl.rrx h with h | h
        · rw [hse] at h; exact absurd h (by simp)
        · rw [hsd] at h; exact absurd h (by simp)
    obtain ⟨hallinv, ha, _, hpoll, _, _⟩ := nextInternal_none (quiescent_iff.mp hq) hres
    have hdq : s.doneQ = [] := by
      rcases ha with h | h
      · rw [hqd] at h; exact absurd h (by simp)
      · exact h
    have hstuck : step? c s .schedPoll = none ∨ step? c s .schedPoll = some s := by
      rcases hpoll with h | h | h | h
      · rw [hsd] at h; exact absurd h (by simp)
      · rw [hse] at h; exact absurd h (by simp)
      · rw [hul] at h; exact absurd h (by simp)
      · exact h
    obtain ⟨hrq, _⟩ := poll_stuck hsd hse hul hstuck
    have hpar : ∀ p ∈ parents c.D v, p ∈ s.released := by
      intro p hpp
      rcases hl.sent hdt p (hp p hpp) with h | h
      · exact h
      · rw [hdq] at h; exact absurd h (by simp)
    have hho : v ∈ s.handedOut := by
      rcases hl.complete hrx (Or.inl hrt) v hv hpar with h | h | h
      · rw [hrq] at h; exact absurd h (by simp)
      · exact h
      · have := hl.imOk.2 (hl.dropIan (by rw [h]; rfl))
        rw [hni.2] at this; exact absurd this (by simp)
    refine ⟨hho, ?_⟩
    rcases hinv.handedSplit v hho with h | h | h
    · exact hallinv v h
    · exact hinv.endedInvoked v (Or.inl h)
    · exact hinv.endedInvoked v (Or.inr h)

/-- fewer functions in flight than the limit: the limit does not disable the poll -/
theorem underLimit_of_lt (hseq : c.sequential = false) {l : Nat} (hlim : c.limit = some (l + 1))
    (hlt : s.inflight.length < l + 1) : underLimit c s = true := by
  unfold underLimit
  rw [hseq, hlim]
  simpa using hlt

/-- **C10** (a limit is work-conserving): limit `l+1`, not sequential, clean run, quiescent with
    fewer than `l+1` functions in flight: every function whose scheduling-graph predecessors have
    all returned ok has been handed out and invoked. -/
theorem idle_below_limit_all_started (hc : GoodCfg c) (hr : Reachable c s) (hq : Quiescent c s)
    (hseq : c.sequential = false) {l : Nat} (hlim : c.limit = some (l + 1))
    (hlt : s.inflight.length < l + 1)
    (hni : s.im.sent = false ∧ s.im.recv = false) (hf : s.failed = [])
    {v : Nat} (hv : v < c.n) (hp : ∀ p ∈ parents c.D v, p ∈ s.endedOk) :
    v ∈ s.handedOut ∧ v ∈ s.invoked :=
  idle_under_limit_all_started hc hr hq (underLimit_of_lt hseq hlim hlt) hni hf hv hp

/-- the unlimited case (`maximal_progress`, C06) is an instance of the general form -/
theorem maximal_progress_of_idle (hc : GoodCfg c) (hr : Reachable c s) (hq : Quiescent c s)
    (hseq : c.sequential = false) (hlim : c.limit = none ∨ c.limit = some 0)
    (hni : s.im.sent = false ∧ s.im.recv = false) (hf : s.failed = [])
    {v : Nat} (hv : v < c.n) (hp : ∀ p ∈ parents c.D v, p ∈ s.endedOk) :
    v ∈ s.handedOut ∧ v ∈ s.invoked :=
  idle_under_limit_all_started hc hr hq (underLimit_unlimited hseq hlim) hni hf hv hp

/-! ### non-vacuity (diamond `0→1→3`, `0→2→3` of `Proofs/LiveExample.lean`) -/

/- limit 2, `0` and `2` have returned, `1` is running (one function in flight, below the limit):
   node `1` (parent `0` returned) has been handed out and invoked -/
set_option maxRecDepth 100000 in
example : 1 ∈ exS2_G.handedOut ∧ 1 ∈ exS2_G.invoked :=
  idle_below_limit_all_started (l := 1) (exC_good_G _) exS2_reach_G (by decide) rfl rfl (by decide)
    (by decide) (by decide) (by decide) (by decide)

/- the state really is below its limit with a function still waiting (`3`, parent `1` running) -/
set_option maxRecDepth 100000 in
example : exS2_G.inflight = [1] ∧ exS2_G.result = none ∧ 3 ∉ exS2_G.invoked := by decide

/-- limit 1: after `0` has returned one of `1`, `2` runs and the other is ready but not started -/
def exL1_U : PState := exStep_G (some 1) (settle (exC_G (some 1)) (init (exC_G (some 1)))) 0 true

theorem exL1_reach_U : Reachable (exC_G (some 1)) exL1_U :=
  exStep_reachable_G (settleN_reachable _ .init) _ _

/- the hypothesis "fewer than the limit in flight" is needed: AT the limit (limit 1, `2` running)
   the state is quiescent, clean, node `1` has its only parent `0` returned, and `1` is NOT started -/
set_option maxRecDepth 100000 in
example : Quiescent (exC_G (some 1)) exL1_U ∧ exL1_U.inflight.length = 1 ∧ exL1_U.failed = [] ∧
    (∀ p ∈ parents (exC_G (some 1)).D 1, p ∈ exL1_U.endedOk) ∧ 1 ∉ exL1_U.invoked ∧
    underLimit (exC_G (some 1)) exL1_U = false := by decide

end FG
