/-
  Proofs/WPoll.lean — one poll of the micro-step interruptible stream, run WITHOUT interference
  (no drop, no signal between its micro steps), computes exactly the atomic `sipoll c true`:
  the same state and the same answer.
-/
import FnGraphVerif.Proofs.WSim
namespace FG

theorem sDrain_setIm (c : Cfg) (j : IM) : ∀ (k : Nat) (t : SState),
    sDrain c k { t with im := j } = { sDrain c k t with im := j } := by
  intro k
  induction k with
  | zero => intro t; rfl
  | succ k ih =>
    intro t
    have hcases : t.doneQ = [] ∨ ∃ x rest, t.doneQ = x :: rest := by cases t.doneQ <;> simp
    rcases hcases with hq | ⟨x, rest, hq⟩
    · have hq' : ({ t with im := j } : SState).doneQ = [] := hq
      rw [sDrain_nil c k _ hq', sDrain_nil c k t hq]
      show (if t.doneSenders = true then _ else _) = _
      cases t.doneSenders <;> rfl
    · have hq' : ({ t with im := j } : SState).doneQ = x :: rest := hq
      rw [sDrain_cons c k _ x rest hq', sDrain_cons c k t x rest hq]
      have e : sRelease c { t with im := j } x rest = { sRelease c t x rest with im := j } := rfl
      rw [e]
      exact ih _

theorem finR_sReadyHalf (t : SState) : finR (sReadyHalf t).1 (sReadyHalf t).2 = finS t := by
  unfold finR finS
  simp only [sReadyHalf_im]

/-- `k = |doneQ| + 1` uninterrupted `drainStep`s inside the wrapper -/
theorem mirun_drain (c : Cfg) (y : MIState) (r : Option PollRes) (as : List MIAction) :
    ∀ (k : Nat) (t : SState), k = t.doneQ.length + 1 →
      mirun c { y with m := { s := t, pc := .draining, result := r }, w := .inner }
        (List.replicate k .drainStep ++ as) =
      mirun c { y with m := { s := sDrain c k t, pc := .readyPoll, result := r }, w := .inner } as := by
  intro k
  induction k with
  | zero => intro t hk; omega
  | succ k ih =>
    intro t hk
    rw [List.replicate_succ, List.cons_append, mirun, sDrain]
    simp only [mistep?, mstep?, if_true]
    cases hq : t.doneQ with
    | nil =>
      rw [hq] at hk
      simp only [List.length_nil] at hk
      have hk0 : k = 0 := by omega
      subst hk0
      rfl
    | cons x rest =>
      rw [hq] at hk
      simp only [List.length_cons] at hk
      exact ih (sRelease c t x rest) (by rw [sRelease_doneQ]; omega)

/-- the interference-free schedule of one poll that polls the inner stream -/
def pollSchedule (k : Nat) : List MIAction :=
  .check :: .pollBegin :: (List.replicate k .drainStep ++ [.readyStep, .finish])

def afterCheck (c : Cfg) (x : MIState) : MIState :=
  { x with m := { x.m with s := { x.m.s with im := interruptCheck c.strat x.m.s.im } },
           w := .checked, pollSeen := x.sigSeen }

def afterBegin (c : Cfg) (x : MIState) : MIState :=
  { x with m := { s := { x.m.s with im := interruptCheck c.strat x.m.s.im, wake := false },
                  pc := .draining, result := x.m.result },
           w := .inner, pollSeen := x.sigSeen }

/-- **refinement, one poll (the wrapper polls the inner stream)** -/
theorem mirun_poll_inner (c : Cfg) (x : MIState) (hw : x.w = .idle) (hpc : x.m.pc = .idle)
    (hsd : x.m.s.streamDropped = false) (hpi : pollsInner c.strat x.m.s.im = true) :
    ∃ x', mirun c x (pollSchedule (x.m.s.doneQ.length + 1)) = some x' ∧ x'.w = .idle ∧ x'.m.pc = .idle ∧
      x'.m.s = (sipoll c true x.m.s).1 ∧ x'.ret = some (sipoll c true x.m.s).2 ∧
      x'.m.result = some (spoll c true x.m.s).2 := by
  have h1 : mistep? c x .check = some (afterCheck c x) := by
    simp only [mistep?]
    rw [if_pos ⟨hw, hsd⟩, if_pos hpi]
    rfl
  have h2 : mistep? c (afterCheck c x) .pollBegin = some (afterBegin c x) := by
    simp [mistep?, mstep?, afterCheck, afterBegin, hpc, hsd]
  unfold pollSchedule
  rw [mirun_cons_some h1, mirun_cons_some h2]
  have h3 := mirun_drain c { x with pollSeen := x.sigSeen } x.m.result [.readyStep, .finish]
    (x.m.s.doneQ.length + 1) { x.m.s with im := interruptCheck c.strat x.m.s.im, wake := false } rfl
  have e3 : afterBegin c x = { { x with pollSeen := x.sigSeen } with
      m := { s := { x.m.s with im := interruptCheck c.strat x.m.s.im, wake := false }, pc := .draining,
             result := x.m.result }, w := .inner } := rfl
  rw [e3, h3]
  have hD : sDrain c (x.m.s.doneQ.length + 1) { x.m.s with im := interruptCheck c.strat x.m.s.im, wake := false } =
      { sDrain c (x.m.s.doneQ.length + 1) { x.m.s with wake := false } with im := interruptCheck c.strat x.m.s.im } :=
    sDrain_setIm c _ _ { x.m.s with wake := false }
  rw [hD]
  have hfin := sipoll_eq_finS c x.m.s hpi
  have hans := sipoll_ans_inner c x.m.s hpi
  have hres : (spoll c true x.m.s).2 = (sReadyHalf (sDrain c (x.m.s.doneQ.length + 1) { x.m.s with wake := false })).2 := by
    rw [spoll_eq]
  rw [hres] at hans
  generalize sDrain c (x.m.s.doneQ.length + 1) { x.m.s with wake := false } = D at hfin hans hres ⊢
  have hrh := sReadyHalf_setIm D (interruptCheck c.strat x.m.s.im)
  simp only [mirun, mistep?, mstep?, if_true]
  refine ⟨_, rfl, rfl, rfl, ?_, ?_, ?_⟩
  · show finR (sReadyHalf _).1 (sReadyHalf _).2 = _
    rw [finR_sReadyHalf, hfin]
  · show some ((pollNextPost (sReadyHalf _).1.im (underOf (sReadyHalf _).2)).2, itemOf (sReadyHalf _).2) = _
    rw [hans, sReadyHalf_im, hrh]
  · show some (sReadyHalf _).2 = _
    rw [hres, hrh]

def afterCheckOuter (c : Cfg) (x : MIState) : MIState :=
  { x with m := { x.m with s := { x.m.s with
                            im := (pollNext c.strat x.m.s.im .pending).1, wake := false,
                            lastPending := decide ((pollNext c.strat x.m.s.im .pending).2 = .pending) } },
           ret := some ((pollNext c.strat x.m.s.im .pending).2, none), pollSeen := x.sigSeen }

/-- **refinement, one poll (the wrapper answers without polling the inner stream)** -/
theorem mirun_poll_outer (c : Cfg) (x : MIState) (hw : x.w = .idle)
    (hsd : x.m.s.streamDropped = false) (hpi : pollsInner c.strat x.m.s.im = false) :
    ∃ x', mirun c x [.check] = some x' ∧ x'.w = .idle ∧ x'.m.pc = x.m.pc ∧
      x'.m.s = (sipoll c true x.m.s).1 ∧ x'.ret = some (sipoll c true x.m.s).2 := by
  have h1 : mistep? c x .check = some (afterCheckOuter c x) := by
    simp only [mistep?]
    rw [if_pos ⟨hw, hsd⟩, if_neg (by simp [hpi])]
    rfl
  refine ⟨afterCheckOuter c x, by rw [mirun_cons_some h1]; rfl, hw, rfl, ?_, ?_⟩
  · rw [(sipoll_outer c true x.m.s hpi).1]
    rfl
  · rw [sipoll_ans_outer c x.m.s hpi]
    rfl

end FG
