/-
  Proofs/TBase.lean — runs that start with a CARRIED `InterruptibilityState` (one state handed to
  several runs with `reborrow()`): `initWith`, reachability from an arbitrary start state, and the
  two invariants `Inv0` (safety) and `LInv` (liveness) for such runs.

  `Inv0` does not mention `im`; the only `im` clause of `LInv` is `IM.Ok` (`sig → recv`,
  `ian → recv`), which holds of every carried start because `sig` and `ian` belong to the per-run
  `InterruptibleStream` and start `false`.  So both invariants hold LITERALLY of `initWith …`
  and no generalisation is needed.
-/
import FnGraphVerif.Proofs.ProtoLive
namespace FG

/-- the initial state of a run that is handed an `InterruptibilityState` used before: a signal may
    still sit in its channel (`s0`), a signal may have been received (`r0`), polls may have been
    counted (`k0`) -/
def initWith (c : Cfg) (s0 r0 : Bool) (k0 : Nat) : PState :=
  { init c with im := { sent := s0, recv := r0, cnt := k0 } }

/-- reflexive-transitive closure of `step?` from an arbitrary start state -/
inductive ReachableFrom (c : Cfg) (s₀ : PState) : PState → Prop
  | refl : ReachableFrom c s₀ s₀
  | step {s s' : PState} (a : Action) : ReachableFrom c s₀ s → step? c s a = some s' →
      ReachableFrom c s₀ s'

/-- every state a run with carried interrupt state can produce -/
def ReachableW (c : Cfg) (s0 r0 : Bool) (k0 : Nat) (s : PState) : Prop :=
  ReachableFrom c (initWith c s0 r0 k0) s

variable {c : Cfg} {s s' s₀ : PState}

theorem initWith_fresh (c : Cfg) : initWith c false false 0 = init c := rfl

theorem ReachableFrom.of_run {as : List Action} (h0 : ReachableFrom c s₀ s)
    (h : run c s as = some s') : ReachableFrom c s₀ s' := by
  induction as generalizing s with
  | nil => simp only [run, Option.some.injEq] at h; exact h ▸ h0
  | cons a as ih =>
    simp only [run] at h
    cases hs : step? c s a with
    | none => rw [hs] at h; cases h
    | some s1 => rw [hs] at h; exact ih (ReachableFrom.step a h0 hs) h

theorem run_snoc_T {as : List Action} {a : Action} (h : run c s₀ as = some s)
    (hs : step? c s a = some s') : run c s₀ (as ++ [a]) = some s' := by
  induction as generalizing s₀ with
  | nil =>
    simp only [run, Option.some.injEq] at h
    subst h
    simp only [List.nil_append, run, hs]
  | cons b as ih =>
    simp only [run] at h
    simp only [List.cons_append, run]
    cases hb : step? c s₀ b with
    | none => rw [hb] at h; cases h
    | some s1 => rw [hb] at h; exact ih h

/-- `ReachableFrom` is exactly "some schedule `run`s there" -/
theorem reachableFrom_iff_run : ReachableFrom c s₀ s ↔ ∃ as, run c s₀ as = some s := by
  constructor
  · intro h
    induction h with
    | refl => exact ⟨[], rfl⟩
    | step a _ hs ih =>
      obtain ⟨as, has⟩ := ih
      exact ⟨as ++ [a], run_snoc_T has hs⟩
  · rintro ⟨as, h⟩
    exact ReachableFrom.of_run .refl h

theorem ReachableFrom.trans {s₁ : PState} (h1 : ReachableFrom c s₀ s₁) (h2 : ReachableFrom c s₁ s) :
    ReachableFrom c s₀ s := by
  induction h2 with
  | refl => exact h1
  | step a _ hs ih => exact .step a ih hs

/-- the fresh run is the special case `s0 = r0 = false`, `k0 = 0` -/
theorem reachable_iff_reachableFrom : Reachable c s ↔ ReachableFrom c (init c) s := by
  constructor
  · intro h
    induction h with
    | init => exact .refl
    | step a _ hs ih => exact .step a ih hs
  · intro h
    induction h with
    | refl => exact .init
    | step a _ hs ih => exact .step a ih hs

theorem reachable_iff_reachableW : Reachable c s ↔ ReachableW c false false 0 s :=
  reachable_iff_reachableFrom

/-- turn a decidable check on the result of a trace into a `ReachableW` witness -/
theorem reachableW_of_any {s0 r0 : Bool} {k0 : Nat} {as : List Action} {p : PState → Bool}
    (h : (run c (initWith c s0 r0 k0) as).any p = true) : ∃ s, ReachableW c s0 r0 k0 s ∧ p s = true := by
  cases ho : run c (initWith c s0 r0 k0) as with
  | none => rw [ho] at h; simp at h
  | some s => rw [ho] at h; exact ⟨s, ReachableFrom.of_run .refl ho, by simpa using h⟩

/-! ### the invariants from an arbitrary start -/

theorem inv0_reachableFrom (hc : GoodCfg c) (h0 : Inv0 c s₀) (hr : ReachableFrom c s₀ s) : Inv0 c s := by
  induction hr with
  | refl => exact h0
  | step a _ h ih => exact inv0_step hc ih h

theorem linv_reachableFrom (hc : GoodCfg c) (h0 : Inv0 c s₀) (hl0 : LInv c s₀)
    (hr : ReachableFrom c s₀ s) : LInv c s := by
  induction hr with
  | refl => exact hl0
  | step a hr' h ih =>
    exact linv_step hc (inv0_reachableFrom hc h0 hr') (inv0_reachableFrom hc h0 (.step a hr' h)) ih h

/-- `Inv0` does not mention `im` -/
theorem inv0_initWith (hc : GoodCfg c) (s0 r0 : Bool) (k0 : Nat) : Inv0 c (initWith c s0 r0 k0) :=
  { inv0_init hc with }

/-- the only `im` clause of `LInv` is `IM.Ok`, true of every carried start (`sig = ian = false`) -/
theorem linv_initWith (hc : GoodCfg c) (s0 r0 : Bool) (k0 : Nat) : LInv c (initWith c s0 r0 k0) := by
  have h := linv_init hc
  exact ⟨⟨by simp [initWith], by simp [initWith]⟩, h.dropIan, h.closeIan,
    fun hd => ⟨(h.txOpen hd).1, (h.txOpen hd).2.1, (h.txOpen hd).2.2.1, by simp [initWith]⟩,
    h.sent, h.ended, h.rtx, h.qd, h.sd, h.rrx, h.complete,
    fun hd => by
      rcases h.whyClosed hd with h1 | h1 | h1
      · exact Or.inl h1
      · exact Or.inr (Or.inl h1)
      · simp [init] at h1,
    h.shortFailed⟩

/-- **GENERALISED SAFETY**: `Inv0` holds in every state of a run with carried interrupt state -/
theorem inv0_reachableW (hc : GoodCfg c) {s0 r0 : Bool} {k0 : Nat} (hr : ReachableW c s0 r0 k0 s) :
    Inv0 c s :=
  inv0_reachableFrom hc (inv0_initWith hc s0 r0 k0) hr

theorem linv_reachableW (hc : GoodCfg c) {s0 r0 : Bool} {k0 : Nat} (hr : ReachableW c s0 r0 k0 s) :
    LInv c s :=
  linv_reachableFrom hc (inv0_initWith hc s0 r0 k0) (linv_initWith hc s0 r0 k0) hr

end FG
