/-
  Proofs/WCount.lean — the ghost-instrumented atomic reachability `SReachG` of `Proofs/WSim.lean`
  is `yieldsAfterIntr` (Theorems/C08.lean) of an atomic schedule; hence the C08 stream bound
  `stream_yields_after_interrupt_le` applies to its count.
-/
import FnGraphVerif.Proofs.WStep
namespace FG

theorem srun_append (c : Cfg) (s : SState) (as bs : List SAction) :
    srun c true s (as ++ bs) = (srun c true s as).bind (fun s' => srun c true s' bs) := by
  induction as generalizing s with
  | nil => rfl
  | cons a as ih =>
    simp only [List.cons_append, srun]
    cases sstep? c true s a with
    | none => rfl
    | some s' => exact ih s'

theorem yieldsAfterIntr_append (c : Cfg) (bs cs : List SAction) :
    ∀ (s s1 : SState) (seen : Bool), srun c true s bs = some s1 →
      yieldsAfterIntr c s seen (bs ++ cs) =
        yieldsAfterIntr c s seen bs + yieldsAfterIntr c s1 (seen || bs.any (· == .interrupt)) cs := by
  induction bs with
  | nil =>
    intro s s1 seen h
    simp only [srun, Option.some.injEq] at h
    subst h
    simp [yieldsAfterIntr]
  | cons b bs ih =>
    intro s s1 seen h
    simp only [srun] at h
    cases hb : sstep? c true s b with
    | none => rw [hb] at h; cases h
    | some s2 =>
      rw [hb] at h
      have := ih s2 s1 (seen || b == .interrupt) h
      simp only [List.cons_append, yieldsAfterIntr, hb, this, List.any_cons, Bool.or_assoc]
      omega

/-- a ghost-instrumented atomic run is an atomic schedule with that `yieldsAfterIntr` -/
theorem SReachG.trace {c : Cfg} {s : SState} {seen : Bool} {n : Nat}
    {last : Option (Out × Option Nat)} (h : SReachG c s seen n last) :
    ∃ bs, srun c true (sinit c) bs = some s ∧ bs.any (· == .interrupt) = seen ∧
      yieldsAfterIntr c (sinit c) false bs = n := by
  induction h with
  | init => exact ⟨[], rfl, rfl, rfl⟩
  | step a _ hs ih =>
    rename_i s s' seen n _
    obtain ⟨bs, h1, h2, h3⟩ := ih
    refine ⟨bs ++ [a], ?_, ?_, ?_⟩
    · rw [srun_append, h1]
      simp [srun, hs]
    · rw [List.any_append, h2]
      simp
    · rw [yieldsAfterIntr_append c bs [a] _ _ _ h1, h3, h2]
      simp [yieldsAfterIntr, hs]

/-- **C08** for the instrumented atomic runs -/
theorem SReachG.bound {c : Cfg} (hst : c.strat = .finish ∨ ∃ k, c.strat = .pollN k) {s : SState}
    {seen : Bool} {n : Nat} (h : SReachG c s seen n last) : n ≤ intrBound c.strat true := by
  obtain ⟨bs, _, _, h3⟩ := h.trace
  rw [← h3]
  exact stream_yields_after_interrupt_le c hst bs

end FG
