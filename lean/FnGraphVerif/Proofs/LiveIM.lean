/-
  Proofs/LiveIM.lean — facts about the `InterruptibleStream` machine (`Model/Interrupt.lean`)
  used by the liveness proofs: which answers are possible for which underlying answer, what a
  poll does to `ian`/`recv`, and a potential `IM.pot` that every state-changing `Pending` poll
  strictly decreases and every other poll increases by at most 2.
-/
import FnGraphVerif.Model.Interrupt
namespace FG

/-- potential of the interrupt machine: number of the flags `hp`, `ipc`, `recv`, `sig` that are off -/
def IM.pot (m : IM) : Nat :=
  (if m.hp then 0 else 1) + (if m.ipc then 0 else 1) + (if m.recv then 0 else 1) + (if m.sig then 0 else 1)

theorem IM.pot_le (m : IM) : m.pot ≤ 4 := by
  unfold IM.pot; split <;> split <;> split <;> split <;> omega

/-- `sig` and `ian` only ever hold after the signal was received -/
def IM.Ok (m : IM) : Prop := (m.sig = true → m.recv = true) ∧ (m.ian = true → m.recv = true)

set_option maxHeartbeats 400000 in
theorem interruptCheck_spec (st : Strat) (m : IM) :
    (interruptCheck st m).hp = m.hp ∧ (interruptCheck st m).ian = m.ian ∧
    (m.recv = true → (interruptCheck st m).recv = true) ∧
    (m.sig = true → (interruptCheck st m).sig = true) ∧
    (m.Ok → (interruptCheck st m).Ok) ∧
    (interruptCheck st m = m ∨ (interruptCheck st m).pot < m.pot) ∧
    (interruptCheck st m).pot ≤ m.pot := by
  obtain ⟨sent, recv, cnt, sig, hp, ipc, ian⟩ := m
  cases st <;> cases sig <;> cases ipc <;> cases recv <;> cases sent <;> cases hp <;>
    simp [interruptCheck, IM.pot, IM.Ok, Strat.isN] <;> split <;> omega

/-- everything the liveness proofs need to know about one `poll_next` -/
theorem pollNext_spec (st : Strat) (m : IM) (u : Under) :
    (m.ian = true → pollNext st m u = (m, .endd)) ∧
    (m.recv = true → (pollNext st m u).1.recv = true) ∧
    (m.Ok → (pollNext st m u).1.Ok) ∧
    (pollNext st m u).1.pot ≤ m.pot + 2 ∧
    ((pollNext st m u).2 = .pending → u = .pending ∧ (pollNext st m u).1.ian = m.ian ∧
        ((pollNext st m u).1 = m ∨ (pollNext st m u).1.pot < m.pot)) ∧
    ((pollNext st m u).2 = .endd → (pollNext st m u).1.ian = m.ian ∧ (m.ian = true ∨ u = .none)) ∧
    ((pollNext st m u).2 = .intNone → m.ian = false ∧ (pollNext st m u).1.ian = true) ∧
    ((pollNext st m u).2 = .intSome → m.ian = false ∧ (pollNext st m u).1.ian = true ∧ u = .item) ∧
    ((pollNext st m u).2 = .noInt → (pollNext st m u).1.ian = m.ian ∧ u = .item) := by
  obtain ⟨h1, h2, h3, h4, h5, h6, h7⟩ := interruptCheck_spec st m
  unfold pollNext
  generalize interruptCheck st m = m' at *
  obtain ⟨sent, recv, cnt, sig, hp, ipc, ian⟩ := m
  obtain ⟨sent', recv', cnt', sig', hp', ipc', ian'⟩ := m'
  simp only at h1 h2 h3 h4
  subst h1 h2
  cases ian' <;> cases hp' <;> cases sig' <;> cases u <;> cases recv <;> cases recv' <;>
    simp_all [IM.pot, IM.Ok] <;> omega
end FG
