/-
  Proofs/TopoLemmas.lean — loop invariant of petgraph's `Topo` (Kahn's algorithm with a stack),
  and the topological numbering of an acyclic graph used at loop exit.
-/
import FnGraphVerif.Proofs.BuilderInv
import FnGraphVerif.Model.Spec
import Mathlib.Data.Finset.Card
namespace FG

/-! ### flipping -/

theorem children_flip (g : Dag) (u : Nat) : children g.flip u = parents g u := by
  unfold children parents Dag.flip
  simp only [← List.map_reverse, List.filter_map, List.map_map]
  rfl

theorem parents_flip (g : Dag) (u : Nat) : parents g.flip u = children g u := by
  unfold children parents Dag.flip
  simp only [← List.map_reverse, List.filter_map, List.map_map]
  rfl

theorem reachP_flip {g : Dag} {u v : Nat} (h : ReachP g.flip u v) : ReachP g v u := by
  induction h with
  | edge he => exact ReachP.edge (isEdge_flip.mp he)
  | tail _ he ih => exact ReachP.trans (ReachP.edge (isEdge_flip.mp he)) ih

/-! ### a topological numbering -/

open Classical in
/-- number of strict ancestors -/
noncomputable def ancCount (g : Dag) (v : Nat) : Nat :=
  ((Finset.range g.n).filter (fun u => ReachP g u v)).card

theorem ancCount_lt {g : Dag} (hwf : WF g) (hac : Acyclic g) {u v : Nat} (he : IsEdge g u v) :
    ancCount g u < ancCount g v := by
  classical
  unfold ancCount
  apply Finset.card_lt_card
  rw [Finset.ssubset_iff_of_subset]
  · refine ⟨u, ?_, ?_⟩
    · simp only [Finset.mem_filter, Finset.mem_range]
      exact ⟨(he.lt hwf).1, ReachP.edge he⟩
    · simp only [Finset.mem_filter, Finset.mem_range, not_and]
      intro _; exact hac u
  · intro w hw
    simp only [Finset.mem_filter, Finset.mem_range] at hw ⊢
    exact ⟨hw.1, ReachP.tail hw.2 he⟩

theorem exists_numbering {g : Dag} (hwf : WF g) (hac : Acyclic g) :
    ∃ num : Nat → Nat, ∀ u v, IsEdge g u v → num u < num v :=
  ⟨ancCount g, fun _ _ he => ancCount_lt hwf hac he⟩

/-! ### `idxOf` -/

theorem idxOf_lt_length {l : List Nat} {x : Nat} : idxOf l x < l.length ↔ x ∈ l := by
  unfold idxOf
  rw [List.findIdx_lt_length]
  simp

theorem idxOf_append_of_mem {l : List Nat} {x : Nat} (y : Nat) (h : x ∈ l) :
    idxOf (l ++ [y]) x = idxOf l x := by
  have := idxOf_lt_length.mpr h
  unfold idxOf at *
  rw [List.findIdx_append]
  simp only [this, if_true]

theorem idxOf_append_self {l : List Nat} {x : Nat} (h : x ∉ l) :
    idxOf (l ++ [x]) x = l.length := by
  have h1 : ¬ idxOf l x < l.length := fun hh => h (idxOf_lt_length.mp hh)
  unfold idxOf at *
  rw [List.findIdx_append]
  simp only [h1, if_false]
  simp [List.findIdx_cons]

/-! ### the loop invariant -/

structure TopoInv (g : Dag) (ord st : List Nat) : Prop where
  nodup : ord.Nodup
  bound : ∀ x ∈ ord, x < g.n
  edges : ∀ u v, IsEdge g u v → v ∈ ord → u ∈ ord ∧ idxOf ord u < idxOf ord v
  stack : ∀ x ∈ st, x < g.n ∧ ∀ p, IsEdge g p x → p ∈ ord
  ready : ∀ v, v < g.n → v ∉ ord → (∀ p, IsEdge g p v → p ∈ ord) → v ∈ st

theorem topoPush_all {g : Dag} {ord : List Nat} {c : Nat} :
    (parents g c).all (fun p => decide (p ∈ ord)) = true ↔ ∀ p, IsEdge g p c → p ∈ ord := by
  simp only [List.all_eq_true, decide_eq_true_eq]
  constructor
  · intro h p hp; exact h p (mem_parents.mpr hp)
  · intro h p hp; exact h p (mem_parents.mp hp)

theorem mem_foldl_topoPush {g : Dag} {ord : List Nat} (cs st : List Nat) (y : Nat) :
    y ∈ cs.foldl (topoPush g ord) st ↔ y ∈ st ∨ (y ∈ cs ∧ ∀ p, IsEdge g p y → p ∈ ord) := by
  induction cs generalizing st with
  | nil => simp
  | cons c cs ih =>
    rw [List.foldl_cons, ih]
    unfold topoPush
    by_cases hc : (parents g c).all (fun p => decide (p ∈ ord)) = true
    · simp only [hc, if_true, List.mem_cons]
      constructor
      · rintro ((rfl | h) | h)
        · exact Or.inr ⟨Or.inl rfl, topoPush_all.mp hc⟩
        · exact Or.inl h
        · exact Or.inr ⟨Or.inr h.1, h.2⟩
      · rintro (h | ⟨rfl | h, h2⟩)
        · exact Or.inl (Or.inr h)
        · exact Or.inl (Or.inl rfl)
        · exact Or.inr ⟨h, h2⟩
    · simp only [hc, List.mem_cons]
      constructor
      · rintro (h | h)
        · exact Or.inl h
        · exact Or.inr ⟨Or.inr h.1, h.2⟩
      · rintro (h | ⟨rfl | h, h2⟩)
        · exact Or.inl h
        · exact absurd (topoPush_all.mpr h2) hc
        · exact Or.inr ⟨h, h2⟩

theorem topoNext_none {g : Dag} {ord : List Nat} : ∀ st, topoNext g ord st = none → ∀ x ∈ st, x ∈ ord := by
  intro st
  induction st with
  | nil => intro _ x hx; simp at hx
  | cons a rest ih =>
    intro h x hx
    unfold topoNext at h
    by_cases ha : a ∈ ord
    · simp only [ha, if_true] at h
      rcases List.mem_cons.mp hx with rfl | hx
      · exact ha
      · exact ih h x hx
    · simp [ha] at h

theorem topoInv_step {g : Dag} (hwf : WF g) {ord : List Nat} : ∀ st, TopoInv g ord st →
    ∀ x ord' st', topoNext g ord st = some (x, ord', st') →
      TopoInv g ord' st' ∧ ord'.length = ord.length + 1 := by
  intro st
  induction st with
  | nil => intro _ x ord' st' h; simp [topoNext] at h
  | cons a rest ih =>
    intro hinv x ord' st' h
    unfold topoNext at h
    by_cases ha : a ∈ ord
    · simp only [ha, if_true] at h
      refine ih ⟨hinv.nodup, hinv.bound, hinv.edges, fun y hy => hinv.stack y (List.mem_cons_of_mem _ hy), ?_⟩
        x ord' st' h
      intro v hv hvo hp
      rcases List.mem_cons.mp (hinv.ready v hv hvo hp) with rfl | h'
      · exact absurd ha hvo
      · exact h'
    · simp only [ha, if_false, Option.some.injEq, Prod.mk.injEq] at h
      obtain ⟨rfl, rfl, rfl⟩ := h
      have hast := hinv.stack a (List.mem_cons_self ..)
      refine ⟨⟨?_, ?_, ?_, ?_, ?_⟩, by simp⟩
      · rw [List.nodup_append]
        refine ⟨hinv.nodup, by simp, ?_⟩
        intro x hx y hy hxy
        simp at hy; subst hy; subst hxy; exact ha hx
      · intro y hy
        rcases List.mem_append.mp hy with h | h
        · exact hinv.bound y h
        · simp at h; subst h; exact hast.1
      · intro u v he hv
        rcases List.mem_append.mp hv with h | h
        · have := hinv.edges u v he h
          refine ⟨List.mem_append.mpr (Or.inl this.1), ?_⟩
          rw [idxOf_append_of_mem _ this.1, idxOf_append_of_mem _ h]; exact this.2
        · simp at h; subst h
          have hu := hast.2 u he
          refine ⟨List.mem_append.mpr (Or.inl hu), ?_⟩
          rw [idxOf_append_of_mem _ hu, idxOf_append_self ha]
          exact idxOf_lt_length.mpr hu
      · intro y hy
        rcases (mem_foldl_topoPush _ _ _).mp hy with h | ⟨h1, h2⟩
        · have := hinv.stack y (List.mem_cons_of_mem _ h)
          exact ⟨this.1, fun p hp => List.mem_append.mpr (Or.inl (this.2 p hp))⟩
        · exact ⟨((mem_children.mp h1).lt hwf).2, h2⟩
      · intro v hv hvo hp
        rw [mem_foldl_topoPush]
        have hvo1 : v ∉ ord := fun hh => hvo (List.mem_append.mpr (Or.inl hh))
        have hva : v ≠ a := fun hh => hvo (List.mem_append.mpr (Or.inr (by simp [hh])))
        by_cases hall : ∀ p, IsEdge g p v → p ∈ ord
        · rcases List.mem_cons.mp (hinv.ready v hv hvo1 hall) with h | h
          · exact absurd h hva
          · exact Or.inl h
        · refine Or.inr ⟨?_, hp⟩
          simp only [not_forall] at hall
          obtain ⟨p, hpe, hpo⟩ := hall
          have := hp p hpe
          rcases List.mem_append.mp this with h | h
          · exact absurd h hpo
          · simp at h; subst h; exact mem_children.mpr hpe

/-- with enough fuel the loop ends in a state where the invariant holds and the stack is exhausted -/
theorem topoAll_inv {g : Dag} (hwf : WF g) : ∀ fuel ord st, TopoInv g ord st →
    g.n + 1 ≤ ord.length + fuel →
    ∃ st', TopoInv g (topoAll g fuel ord st) st' ∧ ∀ x ∈ st', x ∈ topoAll g fuel ord st := by
  intro fuel
  induction fuel with
  | zero =>
    intro ord st hinv hf
    have := nodup_bounded_length hinv.nodup hinv.bound
    omega
  | succ k ih =>
    intro ord st hinv hf
    unfold topoAll
    cases hn : topoNext g ord st with
    | none => exact ⟨st, hinv, topoNext_none st hn⟩
    | some r =>
      obtain ⟨x, ord', st'⟩ := r
      obtain ⟨hinv', hlen⟩ := topoInv_step hwf st hinv x ord' st' hn
      exact ih ord' st' hinv' (by omega)

/-- at exit every node has been ordered -/
theorem topoInv_complete {g : Dag} (hwf : WF g) (hac : Acyclic g) {ord st : List Nat}
    (hinv : TopoInv g ord st) (hst : ∀ x ∈ st, x ∈ ord) : ∀ v, v < g.n → v ∈ ord := by
  obtain ⟨num, hnum⟩ := exists_numbering hwf hac
  have key : ∀ k v, num v = k → v < g.n → v ∈ ord := by
    intro k
    induction k using Nat.strong_induction_on with
    | _ k ih =>
      intro v hk hv
      apply Classical.byContradiction
      intro hvo
      apply hvo
      apply hst
      apply hinv.ready v hv hvo
      intro p hp
      exact ih (num p) (by have := hnum p v hp; omega) p rfl (hp.lt hwf).1
  intro v hv
  exact key _ v rfl hv

theorem topoInv_init (g : Dag) : TopoInv g [] (roots g).reverse := by
  refine ⟨List.nodup_nil, by simp, by simp, ?_, ?_⟩
  · intro x hx
    simp only [List.mem_reverse, roots, List.mem_filter, List.mem_range, isRoot, List.isEmpty_iff] at hx
    refine ⟨hx.1, ?_⟩
    intro p hp
    have := mem_parents.mpr hp
    rw [hx.2] at this; simp at this
  · intro v hv _ hp
    simp only [List.mem_reverse, roots, List.mem_filter, List.mem_range, isRoot, List.isEmpty_iff]
    refine ⟨hv, ?_⟩
    apply List.eq_nil_iff_forall_not_mem.mpr
    intro p hpm
    have := hp p (mem_parents.mp hpm)
    simp at this

/-- everything the theorems need about `topo` -/
theorem topo_inv {g : Dag} (hg : GoodG g) :
    ∃ st, TopoInv g (topo g) st ∧ ∀ v, v < g.n → v ∈ topo g := by
  obtain ⟨st', hinv, hst⟩ := topoAll_inv hg.wf (g.n + 1) [] (roots g).reverse (topoInv_init g) (by simp)
  exact ⟨st', hinv, topoInv_complete hg.wf hg.acyclic hinv hst⟩

end FG
