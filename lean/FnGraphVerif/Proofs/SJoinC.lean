/-
  Proofs/SJoinC.lean — `JoinC`: two states have a common reduct by core actions modulo `SimC`
  (`Proofs/SStar.lean`).  Like `Join` (modulo `Sim`, `Proofs/SJoin.lean`) it is an equivalence on
  reachable states, contains every internal run, and joinable normal forms are `SimC`-equal; it is
  the coupling between the real state and the monitor state in `Theorems/MonitorComplete.lean`.
-/
import FnGraphVerif.Proofs.SStar
namespace FG
variable {c : Cfg} {s s' t u : PState}

def JoinC (c : Cfg) (s1 s2 : PState) : Prop :=
  ∃ (as bs : List CA) (t1 t2 : PState), crun c s1 as = some t1 ∧ crun c s2 bs = some t2 ∧ SimC t1 t2

theorem JoinC.symm (h : JoinC c s t) : JoinC c t s := by
  obtain ⟨as, bs, t1, t2, h1, h2, hs⟩ := h
  exact ⟨bs, as, t2, t1, h2, h1, hs.symm⟩

theorem JoinC.refl (s : PState) : JoinC c s s := ⟨[], [], s, s, rfl, rfl, SimC.refl _⟩

theorem Join.toC (h : Join c s t) : JoinC c s t := by
  obtain ⟨as, bs, t1, t2, h1, h2, hs⟩ := h
  exact ⟨as, bs, t1, t2, h1, h2, hs.toC⟩

/-- normal form modulo `SimC` -/
def NFC (c : Cfg) (s : PState) : Prop := ∀ (a : CA) (s' : PState), step? c s a.act = some s' → SimC s' s

theorem NF.toC (h : NF c s) : NFC c s := fun a s' hs => (h a s' hs).toC

theorem nfC_simC (hc : GoodCfg c) (hn : NFC c s) (hs : SimC s t) (hrs : Reachable c s) (hrt : Reachable c t) :
    NFC c t := by
  intro a t' ht
  obtain ⟨s1, hs1, hsim⟩ := simC_step hc hrt hrs hs.symm a ht
  exact (hsim.trans (hn a s1 hs1)).trans hs

theorem nfC_run (hc : GoodCfg c) {bs : List CA} : ∀ {s q : PState}, NFC c s → Reachable c s →
    crun c s bs = some q → SimC q s := by
  induction bs with
  | nil => intro s q _ _ h; simp only [crun_nil, Option.some.injEq] at h; subst h; exact SimC.refl _
  | cons b bs ih =>
    intro s q hn hr h
    rw [crun_cons] at h
    cases h1 : step? c s b.act with
    | none => rw [h1] at h; exact absurd h (by simp)
    | some s1 =>
      rw [h1] at h
      simp only [Option.bind] at h
      have hr1 := Reachable.step _ hr h1
      have hs1 := hn b s1 h1
      exact (ih (nfC_simC hc hn hs1.symm hr hr1) hr1 h).trans hs1

/-- joinable states have `SimC`-equal normal forms -/
theorem JoinC.nf_sim (hc : GoodCfg c) (hrs : Reachable c s) (hrt : Reachable c t) (h : JoinC c s t)
    {as bs : List CA} {q r : PState} (hq : crun c s as = some q) (hnq : NF c q)
    (hr : crun c t bs = some r) (hnr : NF c r) : SimC q r := by
  obtain ⟨as0, bs0, u1, u2, h1, h2, hs⟩ := h
  have hru1 := crun_reachable hrs h1
  have hru2 := crun_reachable hrt h2
  obtain ⟨es, r1, he1, hn1⟩ := nf_exists hc _ (Nat.le_refl _) hru1
  obtain ⟨r2, he2, hs2⟩ := simC_crun hc hru1 hru2 hs he1
  have hrr1 := crun_reachable hru1 he1
  have hrr2 := crun_reachable hru2 he2
  have hn2 : NFC c r2 := nfC_simC hc hn1.toC hs2 hrr1 hrr2
  obtain ⟨fs, r3, he3, hn3⟩ := nf_exists hc _ (Nat.le_refl _) hrr2
  have hs3 : SimC r3 r2 := nfC_run hc hn2 hrr2 he3
  have hA : Sim q r1 := core_confluence hc (local_conf hc) hrs hq hnq (by rw [crun_append h1]; exact he1) hn1
  have hB : Sim r r3 := core_confluence hc (local_conf hc) hrt hr hnr
    (by rw [crun_append h2, crun_append he2]; exact he3) hn3
  exact ((hA.toC.trans hs2).trans hs3.symm).trans hB.toC.symm

theorem JoinC.trans (hc : GoodCfg c) (hrs : Reachable c s) (hrt : Reachable c t) (hru : Reachable c u)
    (h1 : JoinC c s t) (h2 : JoinC c t u) : JoinC c s u := by
  obtain ⟨as, q, hq, hnq⟩ := nf_exists hc _ (Nat.le_refl _) hrs
  obtain ⟨bs, r, hr, hnr⟩ := nf_exists hc _ (Nat.le_refl _) hrt
  obtain ⟨cs, w, hw, hnw⟩ := nf_exists hc _ (Nat.le_refl _) hru
  have hA := h1.nf_sim hc hrs hrt hq hnq hr hnr
  have hB := h2.nf_sim hc hrt hru hr hnr hw hnw
  exact ⟨as, cs, q, w, hq, hw, hA.trans hB⟩

theorem JoinC.of_sim (h : SimC s t) : JoinC c s t := ⟨[], [], s, t, rfl, rfl, h⟩

theorem JoinC.of_crun {as : List CA} (h : crun c s as = some s') : JoinC c s s' :=
  ⟨as, [], s', s', h, rfl, SimC.refl _⟩

theorem JoinC.of_internal_run (hc : GoodCfg c) (hr : Reachable c s) {as : List Action}
    (hint : ∀ a ∈ as, a.internal) (h : run c s as = some s') : JoinC c s s' :=
  (Join.of_internal_run hc hr hint h).toC

theorem JoinC.of_nonext_run (hc : GoodCfg c) (hr : Reachable c s) {as : List Action}
    (hint : ∀ a ∈ as, a.isExternal = false) (h : run c s as = some s') : JoinC c s s' :=
  (Join.of_nonext_run hc hr hint h).toC

theorem JoinC.of_internal_step (hc : GoodCfg c) (hr : Reachable c s) {a : Action}
    (ha : a.internal) (h : step? c s a = some s') : JoinC c s s' :=
  (Join.of_internal_step hc hr ha h).toC

theorem JoinC.to_settle (hc : GoodCfg c) (hr : Reachable c s) : JoinC c s (FG.settle c s) :=
  (Join.to_settle hc hr).toC

theorem JoinC.sim_of_nf (hc : GoodCfg c) (hrs : Reachable c s) (hrt : Reachable c t) (h : JoinC c s t)
    (hns : NF c s) (hnt : NF c t) : SimC s t :=
  h.nf_sim hc hrs hrt (as := []) (bs := []) rfl hns rfl hnt

/-- the real state at rest against the settled monitor state -/
theorem JoinC.sim_settle (hc : GoodCfg c) (hrs : Reachable c s) (hrt : Reachable c t) (h : JoinC c s t)
    (hns : NF c s) : SimC s (FG.settle c t) := by
  have hj : JoinC c s (FG.settle c t) :=
    JoinC.trans hc hrs hrt (settle_reachable hrt) h (JoinC.to_settle hc hrt)
  exact hj.sim_of_nf hc hrs (settle_reachable hrt) hns
    (quiescent_nf hc (settle_reachable hrt) (settle_quiescent hc hrt))

theorem JoinC.settle_sim (hc : GoodCfg c) (hru : Reachable c s) (hrv : Reachable c t)
    (h : JoinC c s t) : SimC (FG.settle c s) (FG.settle c t) := by
  have hj : JoinC c (FG.settle c s) t :=
    JoinC.trans hc (settle_reachable hru) hru hrv (JoinC.to_settle hc hru).symm h
  exact hj.sim_settle hc (settle_reachable hru) hrv
    (quiescent_nf hc (settle_reachable hru) (settle_quiescent hc hru))

end FG
