/-
  Proofs/LIM.lean — two facts about `pollNext` behind the confluence of the internal actions:
  a poll that answers `Pending` is absorbed by the next poll, and a poll that would not answer
  `Pending` to a pending underlying stream does not look at the underlying stream's answer.
-/
import FnGraphVerif.Proofs.LiveIM
namespace FG

/-- the part of `poll_next` after the interrupt check -/
def pollPost (m : IM) (u : Under) : IM × Out :=
  let r : IM × Out :=
    if m.hp then
      match u with
      | .pending => (m, .pending)
      | .item => if m.sig then ({ m with ian := true }, .intSome) else (m, .noInt)
      | .none => if m.sig then ({ m with ian := true }, .intNone) else (m, .endd)
    else if m.sig then ({ m with ian := true }, .intNone)
    else match u with
      | .pending => ({ m with hp := true }, .pending)
      | .item => (m, .noInt)
      | .none => (m, .endd)
  if r.2 = .pending then r else ({ r.1 with hp := false, ipc := false }, r.2)

theorem pollNext_eq (st : Strat) (m : IM) (u : Under) :
    pollNext st m u = if m.ian then (m, .endd) else pollPost (interruptCheck st m) u := rfl

theorem interruptCheck_ian (st : Strat) (m : IM) : (interruptCheck st m).ian = m.ian :=
  (interruptCheck_spec st m).2.1

/-- what a `Pending` answer means for the checked machine -/
theorem pollPost_pending {m : IM} (h : (pollPost m .pending).2 = .pending) :
    (m.hp = true ∨ m.sig = false) ∧ (pollPost m .pending).1 = { m with hp := true } := by
  obtain ⟨sent, recv, cnt, sig, hp, ipc, ian⟩ := m
  cases hp <;> cases sig <;> simp [pollPost] at h ⊢

theorem pollPost_absorb {m : IM} (u : Under) (h : m.hp = true ∨ m.sig = false) :
    pollPost { m with hp := true } u = pollPost m u := by
  obtain ⟨sent, recv, cnt, sig, hp, ipc, ian⟩ := m
  cases hp <;> cases sig <;> cases u <;> simp [pollPost] at h ⊢

/-- after a poll has answered `Pending` the next interrupt check changes nothing -/
theorem interruptCheck_idem (st : Strat) (m : IM)
    (h : (interruptCheck st m).hp = true ∨ (interruptCheck st m).sig = false) :
    interruptCheck st { interruptCheck st m with hp := true } = { interruptCheck st m with hp := true } := by
  obtain ⟨sent, recv, cnt, sig, hp, ipc, ian⟩ := m
  cases st <;> cases sig <;> cases ipc <;> cases recv <;> cases sent <;> cases hp <;>
    simp [interruptCheck, Strat.isN] at h ⊢

theorem pollPost_indep {m : IM} (u : Under) (h : (pollPost m .pending).2 ≠ .pending) :
    pollPost m u = pollPost m .pending := by
  obtain ⟨sent, recv, cnt, sig, hp, ipc, ian⟩ := m
  cases hp <;> cases sig <;> cases u <;> simp [pollPost] at h ⊢

/-- **absorption**: a poll that answered `Pending` followed by a poll with underlying answer `u`
    is the same as the second poll alone -/
theorem pollNext_absorb (st : Strat) (m : IM) (u : Under)
    (h : (pollNext st m .pending).2 = .pending) :
    pollNext st (pollNext st m .pending).1 u = pollNext st m u := by
  rw [pollNext_eq] at h
  rw [pollNext_eq st m .pending, pollNext_eq st m u]
  cases hian : m.ian with
  | true => rw [hian] at h; simp at h
  | false =>
    rw [hian] at h
    simp only [Bool.false_eq_true, if_false] at h ⊢
    obtain ⟨hcase, h1⟩ := pollPost_pending h
    rw [h1, pollNext_eq]
    have hian' : (interruptCheck st m).ian = false := by rw [interruptCheck_ian, hian]
    split
    · rename_i hh
      have e : ({ interruptCheck st m with hp := true } : IM).ian = false := hian'
      rw [e] at hh; exact absurd hh (by simp)
    · rw [interruptCheck_idem st m hcase, pollPost_absorb u hcase]

/-- a poll that does not answer `Pending` to a pending underlying stream never looked at it -/
theorem pollNext_indep (st : Strat) (m : IM) (u : Under)
    (h : (pollNext st m .pending).2 ≠ .pending) :
    pollNext st m u = pollNext st m .pending := by
  rw [pollNext_eq] at h
  rw [pollNext_eq st m .pending, pollNext_eq st m u]
  cases hian : m.ian with
  | true => simp
  | false =>
    rw [hian] at h
    simp only [Bool.false_eq_true, if_false] at h ⊢
    exact pollPost_indep u h

end FG
