/-
  Proofs/SSearch.lean — the exhaustive search done BEFORE proving `Theorems/MonitorComplete.lean`.

  For a graph and a configuration it explores every `ObsRun` from `init` in the product of the
  model state `s` (the "real" run: every enabled action in every order, `interrupt` only where it is
  quiet, `finish` ok / failing, `q` at every quiescent non-returned state) and the state `TrackSt`
  of the tracking monitor `trackFut` (non-coop) fed with the events of that run, memoised, and
  collects the monitor's `cmp` notes that are NOT ok (= the monitor rejects a run of the model).
  A path is not followed beyond its first rejection.  Every rejection is classified by flags of the
  run so far:
    `fifo`  — closures were started in hand-out order (`RunOk` of `Theorems/TracePreds.lean`);
    `intrq` — every `intr` event came before every other event or directly after a `q` event
              (or after another such `intr`);
    `semq`  — at every `intr` the real state was quiescent (or nothing had happened yet)
              [semantic variant of `intrq`: NOT sufficient, the log must contain the `q`];
    `viol`  — shape of the first violation of `intrq`: `q, X, intr` with X = 1 hand-out, 2 invoke,
              3 completion; 9 anything longer.

  Run (compiled; ≈ 3 min of CPU in total) on the 15 graphs with ≤ 3 nodes (`graphs[0..14]`),
  240 configurations each (6 strategies × incl × 4 limits × 5 API modes), 6.3 million product states,
  and on four 4-node graphs (`graphs[15..18]`) for `ignore`, `pollN 1`, `pollN 2`.  Result:

      R-quiesce "q invoked"   only with fifo = false   (every strategy; with any value of intrq)
      R-step    "handout f"   only with intrq = false  (strategies `finish` and `pollN 0` only;
                              also with semq = true; first violations `q, fin, intr` and longer)
      nothing else; with fifo = true and intrq = true no rejection at all.

  The `#eval`s at the end repeat a small part of it (two 2-node graphs, one strategy each).
-/
import FnGraphVerif.Model.Monitor
import Std.Data.HashSet
namespace FG.SSearch

deriving instance DecidableEq for TrackSt
deriving instance Hashable for Strat, IM, Ret, PState, TrackSt, ErrMode, Kind, Edge, Dag

def stepEvents' (control : Bool) (s : PState) (a : Action) (s' : PState) : List Ev :=
  match a with
  | .schedPoll => (s'.handedOut.drop s.handedOut.length).map Ev.handout
  | .invoke f => [.invoke f]
  | .finish f ok => [.fin f ok]
  | .interrupt => [.intr]
  | .ret =>
    match s'.result with
    | some (.outcome fnd p np errs) =>
      [.retOutcome fnd p np errs (if control then (if (Ret.outcome fnd p np errs).isBreak then "break" else "cont") else "na")]
    | some (.err f) => [.retErr f]
    | none => []
  | _ => []

def trackMany (x : MonCtx) (t : TrackSt) : List Ev → TrackSt × List Note
  | [] => (t, [])
  | e :: es => let r := trackFut x t e; let r' := trackMany x r.1 es; (r'.1, r.2 ++ r'.2)

def actionsOf (n : Nat) : List Action :=
  [.queuerRecv, .queuerEnd, .schedPoll, .schedEnd, .ret, .interrupt] ++
  (List.range n).flatMap (fun f => [.invoke f, .finish f true, .finish f false])

def stripDigits (s : String) : String := String.ofList (s.toList.filter (fun ch => !ch.isDigit))

structure Flags where
  fifo : Bool := true
  intrq : Bool := true     -- syntactic: intr only at the start / after q / after such an intr
  semq : Bool := true      -- semantic: at every intr the real state was quiescent or nothing had happened
  afterQ : Bool := true    -- (bookkeeping) the previous event was `q` / an allowed intr / nothing yet
  sinceQ : Nat := 0        -- (bookkeeping) events since the last `q` / allowed intr / start, capped at 2
  lastKind : Nat := 0      -- (bookkeeping) kind of the previous event: 1 handout, 2 invoke, 3 fin, 4 other
  viol : Nat := 0          -- first violation of `intrq`: `q, X, intr` with X of kind 1/2/3; 9 = anything else
  deriving DecidableEq, Hashable, Repr

structure Item where
  s : PState
  t : TrackSt
  fl : Flags
  path : List String   -- reversed

abbrev Key := PState × TrackSt × Flags
abbrev Found := List (String × Flags × String)

def Flags.key (f : Flags) : Bool × Bool × Bool × Nat := (f.fifo, f.intrq, f.semq, f.viol)

/-- only the weakest explanations are interesting: keep one example per (note, flags) -/
def addFound (acc : Found) (key : String) (fl : Flags) (ex : String) : Found :=
  if acc.any (fun e => e.1 == key && e.2.1.key == fl.key) then acc else (key, fl, ex) :: acc

partial def explore (x : MonCtx) (tag : String) (maxStates : Nat) (quietOnly : Bool) :
    Std.HashSet Key → List Item → Found → Nat → (Found × Nat)
  | _, [], acc, cnt => (acc, cnt)
  | vis, it :: rest, acc, cnt =>
    if cnt > maxStates then (("LIMIT", {}, tag) :: acc, cnt) else
    let c := x.c
    let succs : List (Item × List Note) :=
      (actionsOf c.n).filterMap (fun a =>
        match step? c it.s a with
        | none => none
        | some s1 =>
          if quietOnly && a == .interrupt && !(it.s.inflight.all (fun f => decide (f ∈ it.s.invoked))) then none else
          let evs := stepEvents' x.control it.s a s1
          let r := trackMany x it.t evs
          let isIntr := a == .interrupt
          let fl : Flags :=
            { fifo := it.fl.fifo && s1.invoked.isPrefixOf s1.handedOut,
              intrq := it.fl.intrq && (!isIntr || it.fl.afterQ),
              semq := it.fl.semq && (!isIntr || decide (Quiescent c it.s) || it.s == init c ||
                        (it.fl.afterQ && it.t.realHandout.isEmpty && it.t.realInvoked.isEmpty)),
              afterQ := if evs.isEmpty then it.fl.afterQ else (isIntr && it.fl.afterQ),
              sinceQ := if evs.isEmpty || (isIntr && it.fl.afterQ) then it.fl.sinceQ else min 2 (it.fl.sinceQ + evs.length),
              lastKind := match evs.getLast? with
                | some (.handout _) => 1 | some (.invoke _) => 2 | some (.fin _ _) => 3 | some _ => 4 | none => it.fl.lastKind,
              viol := if it.fl.viol != 0 || !isIntr || it.fl.afterQ then it.fl.viol
                      else if it.fl.sinceQ == 1 then it.fl.lastKind else 9 }
          some ({ s := s1, t := r.1, fl := fl, path := (reprStr a) :: it.path }, r.2))
      ++ (if decide (Quiescent c it.s) && it.s.result.isNone then
            let r := trackFut x it.t .q
            [({ s := it.s, t := r.1, fl := { it.fl with afterQ := true, sinceQ := 0 }, path := "q" :: it.path }, r.2)]
          else [])
    let (vis, rest, acc) := succs.foldl (fun (st : Std.HashSet Key × List Item × Found) (p : Item × List Note) =>
      let (vis, rest, acc) := st
      let bad := p.2.filter (fun n => !n.ok)
      if !bad.isEmpty then
        let acc := bad.foldl (fun acc n =>
          match n with
          | .cmp fc wh m i =>
            let key := fc ++ ":" ++ stripDigits wh ++ " " ++ reprStr c.strat
            addFound acc key p.1.fl (tag ++ " PATH " ++ toString p.1.path.reverse ++ s!" model={m} impl={i}")
          | _ => acc) acc
        (vis, rest, acc)     -- do not follow a rejected run
      else
      let k : Key := (p.1.s, p.1.t, p.1.fl)
      if vis.contains k then (vis, rest, acc) else (vis.insert k, p.1 :: rest, acc)) (vis, rest, acc)
    explore x tag maxStates quietOnly vis rest acc (cnt + 1)

def mkDecls (g : Dag) : List FnDecl :=
  (List.range g.n).map (fun u =>
    ⟨[], ((List.range g.edges.length).filter (fun i => match g.edges[i]? with | some e => e.src == u || e.tgt == u | none => false)), u⟩)

def countsOf (g : Dag) : List Nat := (List.range g.n).map (fun v => (parents g v).length)

def mkE (l : List (Nat × Nat)) : List Edge := l.map (fun p => ⟨p.1, p.2, .logic⟩)

def graphs : List Dag :=
  [⟨0, []⟩, ⟨1, []⟩, ⟨2, []⟩, ⟨2, mkE [(0,1)]⟩, ⟨2, mkE [(1,0)]⟩,
   ⟨3, []⟩, ⟨3, mkE [(0,1)]⟩, ⟨3, mkE [(2,0)]⟩, ⟨3, mkE [(0,1),(1,2)]⟩, ⟨3, mkE [(2,1),(1,0)]⟩,
   ⟨3, mkE [(0,1),(0,2)]⟩, ⟨3, mkE [(0,2),(1,2)]⟩, ⟨3, mkE [(0,1),(1,2),(0,2)]⟩, ⟨3, mkE [(1,0),(1,2)]⟩,
   ⟨3, mkE [(2,1),(0,1)]⟩,
   -- 4 nodes (searched with the interrupting strategies only): chain, diamond, fan-out, fan-in
   ⟨4, mkE [(0,1),(1,2),(2,3)]⟩, ⟨4, mkE [(0,1),(0,2),(1,3),(2,3)]⟩, ⟨4, mkE [(0,1),(0,2),(0,3)]⟩,
   ⟨4, mkE [(0,3),(1,3),(2,3)]⟩]

def strats : List Strat := [.non, .ignore, .finish, .pollN 0, .pollN 1, .pollN 2]
def limits : List (Option Nat) := [none, some 0, some 1, some 2]
def modes : List (Bool × ErrMode) := [(false, .none), (false, .collect), (true, .none), (true, .collect), (true, .shortCircuit)]

def cfgs (g : Dag) (sts : List Strat) : List Cfg :=
  sts.flatMap fun st => [true, false].flatMap fun incl => limits.flatMap fun lim => modes.map fun md =>
    { D := g, counts0 := countsOf g, limit := lim, sequential := md.1, errMode := md.2, strat := st, incl := incl }

def cfgTag (c : Cfg) : String :=
  s!"n={c.D.n} edges={c.D.edges.map (fun e => (e.src, e.tgt))} lim={c.limit} seq={c.sequential} err={reprStr c.errMode} strat={reprStr c.strat} incl={c.incl}"

def runCfg (c : Cfg) (control : Bool) (quietOnly : Bool := true) : Found × Nat :=
  let x : MonCtx := { c := c, decls := mkDecls c.D, userD := c.D, rev := false, control := control, interruptible := false, coop := false }
  let it : Item := { s := init c, t := { s := init c }, fl := {}, path := [] }
  explore x (cfgTag c) 3000000 quietOnly (({} : Std.HashSet Key).insert (it.s, it.t, it.fl)) [it] [] 0

def merge (a b : Found) : Found :=
  b.foldl (fun acc e => addFound acc e.1 e.2.1 e.2.2) a

def searchGraph (gi : Nat) (sts : List Strat := strats) : IO Unit := do
  let g := graphs[gi]!
  let mut acc : Found := []
  let mut total := 0
  for c in cfgs g sts do
    let r := runCfg c true
    acc := merge acc r.1
    total := total + r.2
  IO.println s!"graph {gi}: states {total}"
  for e in acc do
    IO.println s!"FAIL {e.1} fifo={e.2.1.fifo} intrq={e.2.1.intrq} semq={e.2.1.semq} viol={e.2.1.viol} :: {e.2.2}"

end FG.SSearch

/- graph 2 = two independent functions (here: `NonInterruptible` only, class (a)),
   graph 3 = the chain `0 → 1` (here: `FinishCurrent` only, class (b)) -/
#eval FG.SSearch.searchGraph 2 [.non]
#eval FG.SSearch.searchGraph 3 [.finish]
