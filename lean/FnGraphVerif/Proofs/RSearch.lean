/-
  Proofs/RSearch.lean — exhaustive search (by `#eval`) for runs of the STREAM model that falsify a
  predicate of `predStream`: all acyclic graphs on ≤ 3 nodes, all strategies, both values of
  `interruptible`, every enabled action list up to a bounded length.
-/
import FnGraphVerif.Proofs.TraceDefs
import FnGraphVerif.Proofs.StreamGood
namespace FG.RSearch
open FG

/-- all edge sets over the unordered pairs of `{0..n-1}`: each pair absent / forward / backward -/
def pairsOf (n : Nat) : List (Nat × Nat) :=
  (List.range n).flatMap (fun u => ((List.range n).filter (fun v => decide (u < v))).map (fun v => (u, v)))

def edgeSets : List (Nat × Nat) → List (List Edge)
  | [] => [[]]
  | (u, v) :: rest =>
    (edgeSets rest).flatMap (fun es => [es, ⟨u, v, .logic⟩ :: es, ⟨v, u, .logic⟩ :: es])

def dags (n : Nat) : List Dag :=
  ((edgeSets (pairsOf n)).map (fun es => (⟨n, es⟩ : Dag))).filter isAcyclicB

def cfgOf (g : Dag) (st : Strat) : Cfg :=
  { D := g, counts0 := (List.range g.n).map (fun v => (parents g v).length), strat := st }

/-- declarations in which two functions conflict iff they are ordered by the graph -/
def declsOf (g : Dag) : List FnDecl :=
  (List.range g.n).map (fun u =>
    { reads := [], writes := ((List.range g.n).flatMap (fun a => (List.range g.n).filterMap (fun b =>
        if (a == u || b == u) && reachPlus g a b then some (a * g.n + b) else none))) })

def ctxOf (g : Dag) (st : Strat) (intr : Bool) : MonCtx :=
  { c := cfgOf g st, decls := declsOf g, userD := g, rev := false, control := false,
    interruptible := intr, coop := false }

def actionsOf_R (n : Nat) : List SAction :=
  [.poll, .interrupt, .dropStream] ++ (List.range n).map SAction.drop

def runPreds (x : MonCtx) (m : SPredSt) : List Ev → SPredSt × List Note
  | [] => (m, [])
  | e :: es => let r := predStream x false m e; let r' := runPreds x r.1 es; (r'.1, r.2 ++ r'.2)

structure Hit where
  g : Dag
  strat : Strat
  intr : Bool
  acts : List SAction
  note : Note
  deriving Repr

/-- depth-first search; returns the failing notes with the action list that led there -/
def dfs (x : MonCtx) : Nat → SState → SPredSt → List SAction → Nat → List Hit
  | 0, _, _, _, _ => []
  | depth + 1, s, m, acts, nIntr =>
  (actionsOf_R x.c.n).flatMap (fun a =>
    if a == .interrupt && nIntr ≥ 2 then [] else
    match sstep? x.c true s a with
    | none => []
    | some s' =>
      let r := runPreds x m (sStepEvents x.c s a)
      let bad := r.2.filter (fun n => !n.ok)
      let here := bad.map (fun n => (⟨x.c.D, x.c.strat, x.interruptible, (a :: acts).reverse, n⟩ : Hit))
      -- do not continue below a failure: we want shortest witnesses
      if !here.isEmpty then here else
      dfs x depth s' r.1 (a :: acts) (if a == .interrupt then nIntr + 1 else nIntr))

def strats_R : List Strat := [.non, .ignore, .finish, .pollN 0, .pollN 1, .pollN 2]

def noteKey (n : Note) : String :=
  match n with
  | .prop p w _ => p ++ " | " ++ (if (w.splitOn "none-iff-all").length > 1 then "none-iff-all"
      else if (w.splitOn "wake-after-drop").length > 1 then "wake-after-drop"
      else if (w.splitOn "not-after-end").length > 1 then "not-after-end"
      else if (w.splitOn "clean stream").length > 1 then "clean-stream"
      else if (w.splitOn "built-graph").length > 1 then "built-graph"
      else if (w.splitOn "pending").length > 1 then "pending"
      else if (w.splitOn "panic").length > 1 then "panic"
      else "yield")
  | .cmp f w _ _ => f ++ w

def stratKey : Strat → String
  | .non => "non" | .ignore => "ignore" | .finish => "finish" | .pollN k => s!"pollN {k}"

def search (maxN depth : Nat) : List Hit :=
  (List.range (maxN + 1)).flatMap (fun n => (dags n).flatMap (fun g => strats_R.flatMap (fun st =>
    [true, false].flatMap (fun intr =>
      let x := ctxOf g st intr
      dfs x depth (sinit x.c) {} [] 0))))

/-- one shortest witness per (predicate, strategy, interruptible) -/
def summarize (hs : List Hit) : List (String × Hit) :=
  hs.foldl (fun acc h =>
    let k := noteKey h.note ++ " | " ++ stratKey h.strat ++ " | intr=" ++ toString h.intr
    match acc.find? (fun p => p.1 == k) with
    | some (_, h0) => if h.acts.length < h0.acts.length then (acc.filter (fun p => p.1 != k)) ++ [(k, h)] else acc
    | none => acc ++ [(k, h)]) []

-- every configuration searched satisfies the decidable sufficient condition for `GoodCfg`? (only
-- index-increasing ones do; the others are relabelings, `Cfg.check` is merely sufficient)
#eval (List.range 4).map (fun n => ((dags n).length, ((dags n).filter (fun g => (cfgOf g .non).check)).length))

end FG.RSearch

namespace FG.RSearch

/- RESULT (depth 9, ≤ 3 nodes, ≤ 2 signals per run, 31 graphs × 6 strategies × 2): the only
    predicate that fails on a model run is `C05 none-iff-all`, and only in contexts with
    `interruptible = false` under an interrupting strategy (`finish`, `pollN k`) after a signal:
    shortest witness `[interrupt, poll, poll]`.  (About 27 s.) -/
#eval (summarize (search 3 9)).map (fun p => (p.1, toString (repr p.2.g.edges), toString (repr p.2.acts), toString (repr p.2.note)))

/-! coverage: how often each predicate was evaluated during such a search (so "no failure" is not vacuous) -/

def bump (acc : List (String × Nat)) (k : String) : List (String × Nat) :=
  match acc.find? (fun p => p.1 == k) with
  | some _ => acc.map (fun p => if p.1 == k then (p.1, p.2 + 1) else p)
  | none => acc ++ [(k, 1)]

def cover (x : MonCtx) : Nat → SState → SPredSt → Nat → List (String × Nat) → List (String × Nat)
  | 0, _, _, _, acc => acc
  | depth + 1, s, m, nIntr, acc =>
  (actionsOf_R x.c.n).foldl (fun acc a =>
    if a == .interrupt && nIntr ≥ 2 then acc else
    match sstep? x.c true s a with
    | none => acc
    | some s' =>
      let r := runPreds x m (sStepEvents x.c s a)
      if r.2.any (fun n => !n.ok) then acc else
      let acc := r.2.foldl (fun acc n => bump acc (noteKey n ++
        (match n with | .prop "C08" _ _ => s!" pre={m.intrPre}" | _ => "") ++
        (if s.streamDropped then " (after aborted)" else "") ++
        (if !s.txOpen then " (sender taken)" else ""))) acc
      cover x depth s' r.1 (if a == .interrupt then nIntr + 1 else nIntr) acc) acc

/- RESULT (depth 7): every predicate kind is evaluated thousands of times, e.g. the C08 bound 465 times
   with the signal pending before the first poll (`pre=true`) and 4120 times otherwise; no predicate
   is ever evaluated after `aborted` (polls are disabled, the drop predicate is guarded), and
   `wake-after-drop` never after the stream's own sender was taken (a parked stream holds it). -/
#eval (List.range 4).foldl (fun acc n => (dags n).foldl (fun acc g => strats_R.foldl (fun acc st =>
    [true, false].foldl (fun acc intr =>
      let x := ctxOf g st intr
      cover x 7 (sinit x.c) {} 0 acc) acc) acc) acc) []

end FG.RSearch
