/-
  Proofs/ProtoFExample.lean — two concrete configurations with their `GoodCfg` proofs:
  `exCfg_F` (diamond 0→1, 0→2, 1→3, 2→3; used by the non-vacuity examples) and `cxCfg_F`
  (two unrelated functions, short-circuiting but NOT sequential; the counterexample showing that
  `Inv` needs `Cfg.ApiOk`).
-/
import FnGraphVerif.Proofs.ProtoFBase
namespace FG

theorem run_reachable_F {c : Cfg} {s s' : PState} (hr : Reachable c s) {as : List Action}
    (h : run c s as = some s') : Reachable c s' := by
  induction as generalizing s with
  | nil => simp only [run] at h; cases h; exact hr
  | cons a as ih =>
    simp only [run] at h
    cases hs : step? c s a with
    | none => rw [hs] at h; cases h
    | some s1 => rw [hs] at h; exact ih (Reachable.step a hr hs) h

/-- turn a decidable check on the result of a trace into a reachable witness -/
theorem reachable_of_any {c : Cfg} {as : List Action} {p : PState → Bool}
    (h : (run c (init c) as).any p = true) : ∃ s, Reachable c s ∧ p s = true := by
  cases ho : run c (init c) as with
  | none => rw [ho] at h; simp at h
  | some s => rw [ho] at h; exact ⟨s, run_reachable_F Reachable.init ho, by simpa using h⟩

theorem acyclic_of_increasing_F {g : Dag} (h : ∀ e ∈ g.edges, e.src < e.tgt) : Acyclic g := by
  have key : ∀ u v, ReachP g u v → u < v := by
    intro u v huv
    induction huv with
    | edge he => obtain ⟨e, hm, rfl, rfl⟩ := he; exact h e hm
    | tail _ he ih => obtain ⟨e, hm, rfl, rfl⟩ := he; exact Nat.lt_trans ih (h e hm)
  intro u hu
  exact Nat.lt_irrefl _ (key u u hu)

/-! ### the diamond -/

def exDag_F : Dag := ⟨4, [⟨0, 1, .logic⟩, ⟨0, 2, .logic⟩, ⟨1, 3, .logic⟩, ⟨2, 3, .data⟩]⟩
def exCfg_F : Cfg := { D := exDag_F, counts0 := [0, 1, 1, 2] }

theorem exCfg_good_F (c : Cfg) (hD : c.D = exDag_F) (h0 : c.counts0 = [0, 1, 1, 2]) : GoodCfg c := by
  have hpre : preload c = [0] := by unfold preload; rw [hD, h0]; decide
  refine ⟨?_, ?_, ?_, ?_, ?_, ?_, ?_⟩
  · rw [hD]; unfold WF; decide
  · rw [hD]; intro u
    match u with
    | 0 | 1 | 2 | 3 => decide
    | n + 4 => simp [children, parents, exDag_F]
  · rw [hD]; exact acyclic_of_increasing_F (by decide)
  · rw [hD, h0]; rfl
  · rw [hD, h0]; intro v
    match v with
    | 0 | 1 | 2 | 3 => decide
    | n + 4 => simp [parents, exDag_F]
  · rw [hpre]; simp
  · rw [hpre, hD]; intro v
    match v with
    | 0 | 1 | 2 | 3 => decide
    | n + 4 => simp only [exDag_F]; constructor
               · intro h; simp at h
               · intro h; omega

/-! ### two unrelated functions, short-circuiting without being sequential -/

def cxCfg_F : Cfg := { D := ⟨2, []⟩, counts0 := [0, 0], errMode := .shortCircuit }

theorem cxCfg_good_F : GoodCfg cxCfg_F := by
  have hpre : preload cxCfg_F = [1, 0] := by decide
  refine ⟨?_, ?_, ?_, rfl, ?_, ?_, ?_⟩
  · intro e he; cases he
  · intro u; simp [children, parents, cxCfg_F]
  · exact acyclic_of_increasing_F (by intro e he; cases he)
  · intro v
    match v with
    | 0 | 1 => decide
    | n + 2 => simp [parents, cxCfg_F]
  · rw [hpre]; simp
  · rw [hpre]; intro v
    match v with
    | 0 | 1 => decide
    | n + 2 => simp only [cxCfg_F]; constructor
               · intro h; simp at h
               · intro h; omega

end FG
