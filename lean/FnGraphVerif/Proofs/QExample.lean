/-
  Proofs/QExample.lean — a checker that turns a concrete schedule (model actions and `q`
  observations) into an `ObsRun`, and the diamond `0→1, 0→2, 1→3, 2→3` as a monitor context, for
  the counterexample and the non-vacuity examples of `Theorems/TracePreds.lean`.
-/
import FnGraphVerif.Proofs.TraceDefs
import FnGraphVerif.Theorems.RunSafety
namespace FG

/-- one item of a concrete observed schedule -/
inductive OA
  | act (a : Action)
  | q
  deriving DecidableEq, Repr

/-- the events of a concrete schedule and its final state; `none` if some action is not enabled,
    an `interrupt` is not quiet, or a `q` is placed at a state that is not quiescent / has returned -/
def obsEvents (x : MonCtx) : PState → List OA → Option (List Ev × PState)
  | s, [] => some ([], s)
  | s, .act a :: l =>
    match step? x.c s a with
    | none => none
    | some s1 =>
      if a = .interrupt ∧ ¬ (∀ f ∈ s.inflight, f ∈ s.invoked) then none else
      match obsEvents x s1 l with
      | none => none
      | some r => some (stepEvents x.c x.control s a s1 ++ r.1, r.2)
  | s, .q :: l =>
    if Quiescent x.c s ∧ s.result = none then
      match obsEvents x s l with
      | none => none
      | some r => some (.q :: r.1, r.2)
    else none

theorem obsRun_of_obsEvents (x : MonCtx) : ∀ (l : List OA) (s : PState) (r : List Ev × PState),
    obsEvents x s l = some r → ObsRun x s r.1 r.2 := by
  intro l
  induction l with
  | nil =>
    intro s r h
    simp only [obsEvents, Option.some.injEq] at h
    subst h
    exact .nil s
  | cons o l ih =>
    intro s r h
    cases o with
    | act a =>
      simp only [obsEvents] at h
      cases hs : step? x.c s a with
      | none => rw [hs] at h; cases h
      | some s1 =>
        rw [hs] at h
        simp only at h
        split at h
        · cases h
        · rename_i hq
          cases hr : obsEvents x s1 l with
          | none => rw [hr] at h; cases h
          | some r1 =>
            rw [hr] at h
            simp only [Option.some.injEq] at h
            subst h
            refine .step a hs ?_ (ih s1 r1 hr)
            intro ha
            by_contra hn
            exact hq ⟨ha, hn⟩
    | q =>
      simp only [obsEvents] at h
      split at h
      · rename_i hq
        cases hr : obsEvents x s l with
        | none => rw [hr] at h; cases h
        | some r1 =>
          rw [hr] at h
          simp only [Option.some.injEq] at h
          subst h
          exact .q hq.1 hq.2 (ih s r1 hr)
      · cases h

theorem obsRun_of_obsEvents' {x : MonCtx} {l : List OA} {s : PState} {evs : List Ev}
    (h : (obsEvents x s l).map (·.1) = some evs) : ∃ s', ObsRun x s evs s' := by
  cases hr : obsEvents x s l with
  | none => rw [hr] at h; cases h
  | some r =>
    rw [hr] at h
    simp only [Option.map_some, Option.some.injEq] at h
    subst h
    exact ⟨r.2, obsRun_of_obsEvents x l s r hr⟩

/-- the diamond with the declarations `exDecls_F` (0 and 3 write a resource that 1 and 2 read) as a
    monitor context, for any configuration on that graph -/
def xDiamond (c : Cfg) : MonCtx :=
  { c := c, decls := exDecls_F, userD := exDag_F, rev := false, control := true,
    interruptible := false, coop := false }

theorem xDiamond_good (c : Cfg) (hD : c.D = exDag_F) (h0 : c.counts0 = [0, 1, 1, 2])
    (hapi : c.errMode = .shortCircuit → c.sequential = true) : GoodCtx (xDiamond c) where
  good := exCfg_good_F c hD h0
  api := hapi
  userN := by show exDag_F.n = c.D.n; rw [hD]
  userSub := by
    intro u v h
    show IsEdge c.D u v
    rw [hD]
    exact h
  userWF := (exCfg_good_F exCfg_F rfl rfl).wf
  ordered := by
    intro u v hu hv hne hcf
    have hn : c.n = exCfg_F.n := by unfold Cfg.n; rw [hD]; rfl
    show ReachP c.D u v ∨ ReachP c.D v u
    rw [hD]
    exact exDecls_ordered_F u v (hn ▸ hu) (hn ▸ hv) hne hcf

end FG
