/-
  Proofs/ProtoLive.lean — the liveness invariant `LInv` of the run protocol: the flag clauses
  (why a sender is closed, what an ended stream implies) and the completeness of the release
  core (J1: every node all of whose parents are released is queued, handed out or swallowed).
  `linv_reachable`: it holds in every reachable state.
-/
import FnGraphVerif.Proofs.LiveStep
import FnGraphVerif.Proofs.LiveNum
import FnGraphVerif.Proofs.ProtoSafety
namespace FG
variable {c : Cfg} {s s' : PState}

/-- one of the three reasons for a run to wind down has occurred: every function has ended,
    a function failed, or an interrupt signal was received -/
def PDone (s : PState) : Prop := s.sRemaining = 0 ∨ s.failed ≠ [] ∨ s.im.recv = true

structure LInv (c : Cfg) (s : PState) : Prop where
  imOk : s.im.Ok
  dropIan : s.dropped.isSome = true → s.im.ian = true
  closeIan : s.closeAfter.isSome = true → s.im.ian = true
  /-- J2: while the done sender is open nothing has gone wrong and functions remain -/
  txOpen : s.doneTxOpen = true → s.sRemaining ≠ 0 ∧ s.failed = [] ∧ s.qDone = false ∧
      (s.im.ian = true → ∃ f, s.closeAfter = some f ∧ f ∈ s.inflight)
  /-- while the done sender is open every successful end has been reported -/
  sent : s.doneTxOpen = true → ∀ f ∈ s.endedOk, f ∈ s.released ∨ f ∈ s.doneQ
  /-- J3 -/
  ended : s.streamEnded = true → s.im.ian = true ∨ (s.readyQ = [] ∧ s.readyTxOpen = false)
  /-- J4 -/
  rtx : s.readyTxOpen = false → s.qDone = true ∨ s.qRemaining = 0
  qd : s.qDone = true → s.readyTxOpen = false
  /-- J5 -/
  sd : s.sDone = true → s.streamEnded = true ∨ s.shortErr.isSome = true
  rrx : s.readyRxOpen = false → s.streamEnded = true ∨ s.sDone = true
  /-- J1: completeness of the release core -/
  complete : s.readyRxOpen = true → (s.readyTxOpen = true ∨ s.qRemaining = 0) → ∀ v, v < c.n →
      (∀ p ∈ parents c.D v, p ∈ s.released) → v ∈ s.readyQ ∨ v ∈ s.handedOut ∨ s.dropped = some v
  /-- the done sender is only closed for a reason -/
  whyClosed : s.doneTxOpen = false → PDone s
  /-- `try_fold*` returning an error has recorded the failure -/
  shortFailed : s.shortErr.isSome = true → s.failed ≠ []

/-! ### static consequences of `Inv` and `LInv` -/

theorem Inv0.released_lt (hinv : Inv0 c s) {y : Nat} (hy : y ∈ s.released) : y < c.n :=
  hinv.bound y (Or.inr (Or.inl (hinv.endedHanded y (Or.inl (hinv.doneEnded y (Or.inl hy))))))

theorem Inv0.endedOk_lt (hinv : Inv0 c s) {y : Nat} (hy : y ∈ s.endedOk) : y < c.n :=
  hinv.bound y (Or.inr (Or.inl (hinv.endedHanded y (Or.inl hy))))

theorem Inv0.released_nodup (hinv : Inv0 c s) : s.released.Nodup := hinv.relNodup.of_append_left

theorem Inv0.endedOk_nodup (hinv : Inv0 c s) : s.endedOk.Nodup := hinv.endNodup.of_append_left

theorem Inv0.handedOut_nodup (hinv : Inv0 c s) : s.handedOut.Nodup := by
  have := hinv.queueNodup
  rw [List.append_assoc] at this
  exact (List.nodup_append.mp (List.nodup_append.mp this).2.1).1

theorem Inv0.readyQ_nodup (hinv : Inv0 c s) : s.readyQ.Nodup := by
  have := hinv.queueNodup
  rw [List.append_assoc] at this
  exact (List.nodup_append.mp this).1

/-- everything released ⇒ everything ended ⇒ the scheduler's counter is 0 -/
theorem Inv0.sRem_zero_of_qRem_zero (hinv : Inv0 c s) (h : s.qRemaining = 0) : s.sRemaining = 0 := by
  have h1 := hinv.qRem
  have h2 := hinv.sRem
  have hsub : s.released ⊆ s.endedOk := fun y hy => hinv.doneEnded y (Or.inl hy)
  have h3 := List.Nodup.length_le_of_subset hinv.released_nodup hsub
  omega

/-- the scheduler's counter is 0 ⇒ every function has ended (successfully or, when errors are
    collected, with an error) -/
theorem Inv0.all_ended (hinv : Inv0 c s) (h : s.sRemaining = 0) (hf : s.failed = []) {v : Nat} (hv : v < c.n) :
    v ∈ s.endedOk := by
  have h2 := hinv.sRem
  rw [hf] at h2
  simp only [List.length_nil, ite_self, Nat.add_zero] at h2
  exact nodup_full_G hinv.endedOk_nodup (fun x hx => hinv.endedOk_lt hx) (by omega) hv

theorem LInv.qDone_pdone (hl : LInv c s) (h : s.qDone = true) : PDone s := by
  apply hl.whyClosed
  cases hd : s.doneTxOpen with
  | false => rfl
  | true => have := (hl.txOpen hd).2.2.1; rw [h] at this; exact absurd this (by simp)

theorem LInv.rtx_pdone (hinv : Inv0 c s) (hl : LInv c s) (h : s.readyTxOpen = false) : PDone s := by
  rcases hl.rtx h with h | h
  · exact hl.qDone_pdone h
  · exact Or.inl (hinv.sRem_zero_of_qRem_zero h)

theorem LInv.ended_pdone (hinv : Inv0 c s) (hl : LInv c s) (h : s.streamEnded = true) : PDone s := by
  rcases hl.ended h with h | ⟨_, h⟩
  · exact Or.inr (Or.inr (hl.imOk.2 h))
  · exact hl.rtx_pdone hinv h

theorem LInv.sDone_pdone (hinv : Inv0 c s) (hl : LInv c s) (h : s.sDone = true) : PDone s := by
  rcases hl.sd h with h | h
  · exact hl.ended_pdone hinv h
  · exact Or.inr (Or.inl (hl.shortFailed h))

/-! ### the release core under `queuerRecv` -/

theorem length_le_one_of_all_eq_G {l : List Nat} {x : Nat} (hnd : l.Nodup) (h : ∀ y ∈ l, y = x) : l.length ≤ 1 := by
  match l, hnd, h with
  | [], _, _ => simp
  | [a], _, _ => simp
  | a :: b :: m, hnd, h =>
    have ha := h a (by simp)
    have hb := h b (by simp)
    have := (List.nodup_cons.mp hnd).1
    exact absurd (by simp [ha, hb]) this

theorem complete_queuerRecv (hc : GoodCfg c) (hinv : Inv0 c s) (hl : LInv c s) {x : Nat} {rest : List Nat}
    (hq : s.doneQ = x :: rest)
    (hqr' : s.qRemaining - 1 + (s.released ++ [x]).length = c.n)
    (hrx : s.readyRxOpen = true)
    (hcase : (s.readyTxOpen && (s.qRemaining - 1 != 0)) = true ∨ s.qRemaining - 1 = 0)
    {v : Nat} (hv : v < c.n) (hpar : ∀ p ∈ parents c.D v, p ∈ s.released ++ [x]) :
    v ∈ (relFold ((s.readyTxOpen && (s.qRemaining - 1 != 0)) && s.readyRxOpen) c.cap
          (s.counts, s.readyQ, s.panic || s.qRemaining == 0) (children c.D x)).2.1 ∨
      v ∈ s.handedOut ∨ s.dropped = some v := by
  have hxdq : x ∈ s.doneQ := by rw [hq]; simp
  have hxnr : x ∉ s.released := fun hx => (List.nodup_append.mp hinv.relNodup).2.2 x hx x hxdq rfl
  by_cases hq0 : s.qRemaining - 1 = 0
  · -- everything is released, hence handed out
    right; left
    have hnd : (s.released ++ [x]).Nodup := by
      apply List.nodup_append.mpr
      refine ⟨hinv.released_nodup, by simp, ?_⟩
      intro a ha b hb
      simp only [List.mem_singleton] at hb
      subst hb
      intro hab; subst hab; exact hxnr ha
    have hend : ∀ y ∈ s.released ++ [x], y ∈ s.endedOk := by
      intro y hy
      rcases List.mem_append.mp hy with hy | hy
      · exact hinv.doneEnded y (Or.inl hy)
      · simp only [List.mem_singleton] at hy; subst hy; exact hinv.doneEnded y (Or.inr hxdq)
    have hb : ∀ y ∈ s.released ++ [x], y < c.n := fun y hy => hinv.endedOk_lt (hend y hy)
    have hvin := nodup_full_G hnd hb (by omega) hv
    exact hinv.endedHanded v (Or.inl (hend v hvin))
  · have htx : (s.readyTxOpen && (s.qRemaining - 1 != 0)) = true := by
      rcases hcase with h | h
      · exact h
      · exact absurd h hq0
    have htxo : s.readyTxOpen = true := by
      simp only [Bool.and_eq_true] at htx; exact htx.1
    rw [htx, hrx]
    -- room in the queue
    have hdisj : ∀ a ∈ s.readyQ, ∀ b ∈ children c.D x, a ≠ b := by
      intro a ha b hb hab
      subst hab
      have hxp : x ∈ parents c.D a := mem_parents.mpr (mem_children.mp hb)
      exact hxnr (hinv.ready a (Or.inl ha) x hxp)
    have hnd : (s.readyQ ++ children c.D x).Nodup :=
      List.nodup_append.mpr ⟨hinv.readyQ_nodup, (hc.simple x).1, hdisj⟩
    have hbd : ∀ y ∈ s.readyQ ++ children c.D x, y < c.n := by
      intro y hy
      rcases List.mem_append.mp hy with hy | hy
      · exact hinv.bound y (Or.inl hy)
      · exact ((mem_children.mp hy).lt hc.wf).2
    have hroom : s.readyQ.length + (children c.D x).length ≤ c.cap := by
      have := nodup_bounded_length hnd hbd
      simp only [List.length_append] at this
      have : c.n ≤ c.cap := by unfold Cfg.cap Cfg.n; omega
      unfold Cfg.n at *
      omega
    rw [show (true && true) = true from rfl, relFold_ready c.cap (children c.D x) (hc.simple x).1 _ hroom]
    by_cases hall : ∀ p ∈ parents c.D v, p ∈ s.released
    · rcases hl.complete hrx (Or.inl htxo) v hv hall with h | h | h
      · left; exact List.mem_append_left _ h
      · right; left; exact h
      · right; right; exact h
    · left
      apply List.mem_append_right
      have hex : ∃ p, p ∈ parents c.D v ∧ p ∉ s.released := by
        apply Classical.byContradiction
        intro hne
        apply hall
        intro p hp
        apply Classical.byContradiction
        intro hpr
        exact hne ⟨p, hp, hpr⟩
      obtain ⟨p, hp, hpr⟩ := hex
      have hpx : p = x := by
        rcases List.mem_append.mp (hpar p hp) with h | h
        · exact absurd h hpr
        · simpa using h
      subst hpx
      have hvc : v ∈ children c.D p := mem_children.mpr (mem_parents.mp hp)
      simp only [List.mem_filter, hvc, true_and, beq_iff_eq]
      rw [hinv.cnt v]
      unfold unreleased
      have hle : ((parents c.D v).filter (fun q => decide (q ∉ s.released))).length ≤ 1 := by
        apply length_le_one_of_all_eq_G (x := p)
        · exact ((hc.simple v).2).sublist List.filter_sublist
        · intro y hy
          simp only [List.mem_filter, decide_eq_true_eq] at hy
          rcases List.mem_append.mp (hpar y hy.1) with h | h
          · exact absurd h hy.2
          · simpa using h
      omega

/-! ### `LInv` holds initially -/

theorem linv_init (hc : GoodCfg c) : LInv c (init c) := by
  refine ⟨?_, ?_, ?_, ?_, ?_, ?_, ?_, ?_, ?_, ?_, ?_, ?_, by simp [init]⟩
  · simp [init, IM.Ok]
  · simp [init]
  · simp [init]
  · intro h
    simp only [init, bne_iff_ne, ne_eq] at h
    simp [init, h]
  · simp [init]
  · simp [init]
  · intro h
    simp only [init, bne_eq_false_iff_eq] at h
    right; simp only [init]; exact h
  · simp [init]
  · simp [init]
  · simp [init]
  · intro _ _ v hv hpar
    left
    simp only [init] at hpar ⊢
    rw [hc.preMem]
    refine ⟨hv, ?_⟩
    apply List.eq_nil_iff_forall_not_mem.mpr
    intro p hp
    exact absurd (hpar p hp) (by simp)
  · intro h
    simp only [init, bne_eq_false_iff_eq] at h
    left; simp only [init]; exact h

/-! ### every action preserves `LInv` -/

theorem linv_invoke {f : Nat} (hl : LInv c s) (h : step? c s (.invoke f) = some s') : LInv c s' := by
  obtain ⟨_, _, rfl⟩ := invoke_cases h
  exact ⟨hl.imOk, hl.dropIan, hl.closeIan, hl.txOpen, hl.sent, hl.ended, hl.rtx, hl.qd, hl.sd, hl.rrx,
    hl.complete, hl.whyClosed, hl.shortFailed⟩

theorem linv_interrupt (hl : LInv c s) (h : step? c s .interrupt = some s') : LInv c s' := by
  have := interrupt_cases h
  subst this
  exact ⟨hl.imOk, hl.dropIan, hl.closeIan, hl.txOpen, hl.sent, hl.ended, hl.rtx, hl.qd, hl.sd, hl.rrx,
    hl.complete, hl.whyClosed, hl.shortFailed⟩

theorem linv_ret (hl : LInv c s) (h : step? c s .ret = some s') : LInv c s' := by
  obtain ⟨_, _, _, rfl⟩ := ret_cases h
  exact ⟨hl.imOk, hl.dropIan, hl.closeIan, hl.txOpen, hl.sent, hl.ended, hl.rtx, hl.qd, hl.sd, hl.rrx,
    hl.complete, hl.whyClosed, hl.shortFailed⟩

theorem linv_schedEnd (hinv : Inv0 c s) (hl : LInv c s) (h : step? c s .schedEnd = some s') : LInv c s' := by
  obtain ⟨hse, _, _, rfl⟩ := schedEnd_cases h
  refine ⟨hl.imOk, hl.dropIan, hl.closeIan, ?_, ?_, hl.ended, hl.rtx, hl.qd, ?_, ?_, hl.complete, ?_, hl.shortFailed⟩
  · intro hd
    simp only [Bool.and_eq_true] at hd
    exact hl.txOpen hd.1
  · intro hd
    simp only [Bool.and_eq_true] at hd
    exact hl.sent hd.1
  · intro _; exact Or.inl hse
  · intro _; exact Or.inr rfl
  · intro _; exact (hl.ended_pdone hinv hse : PDone s)

theorem linv_queuerEnd (hl : LInv c s) (h : step? c s .queuerEnd = some s') : LInv c s' := by
  obtain ⟨hqd, hdt, _, rfl⟩ := queuerEnd_cases h
  refine ⟨hl.imOk, hl.dropIan, hl.closeIan, ?_, hl.sent, ?_, ?_, ?_, hl.sd, hl.rrx, ?_, hl.whyClosed, hl.shortFailed⟩
  · intro hd
    exact absurd (hdt ▸ hd : false = true) (by simp)
  · intro hse
    rcases hl.ended hse with h | ⟨h, _⟩
    · exact Or.inl h
    · exact Or.inr ⟨h, rfl⟩
  · intro _; exact Or.inl rfl
  · intro _; rfl
  · intro hrx hcase v hv hpar
    rcases hcase with h | h
    · exact absurd h (by simp)
    · exact hl.complete hrx (Or.inr h) v hv hpar

theorem linv_finishOk {f : Nat} (hinv' : Inv0 c s') (hl : LInv c s)
    (h : step? c s (.finish f true) = some s') : LInv c s' := by
  have hnp := hinv'.noPanic
  obtain ⟨hfi, _, rfl⟩ := finishOk_cases h
  simp only [Bool.or_eq_false_iff, Bool.and_eq_false_imp] at hnp
  refine ⟨hl.imOk, hl.dropIan, hl.closeIan, ?_, ?_, hl.ended, hl.rtx, hl.qd, hl.sd, hl.rrx, hl.complete, ?_, hl.shortFailed⟩
  · intro hd
    simp only [Bool.and_eq_true, bne_iff_ne, ne_eq] at hd
    obtain ⟨⟨hd, hsr⟩, hca⟩ := hd
    obtain ⟨_, h2, h3, h4⟩ := hl.txOpen hd
    refine ⟨hsr, h2, h3, ?_⟩
    intro hian
    obtain ⟨g, hg, hgi⟩ := h4 hian
    refine ⟨g, hg, ?_⟩
    have hne : g ≠ f := by
      intro hgf; subst hgf; exact hca hg
    exact (List.mem_erase_of_ne hne).mpr hgi
  · intro hd g hg
    simp only [Bool.and_eq_true, bne_iff_ne, ne_eq] at hd
    obtain ⟨⟨hd, _⟩, _⟩ := hd
    have hfull := hnp.2 hd
    simp only [hd, hfull, Bool.true_and, Bool.not_false, if_true]
    rcases List.mem_append.mp hg with hg | hg
    · rcases hl.sent hd g hg with h | h
      · exact Or.inl h
      · exact Or.inr (List.mem_append_left _ h)
    · exact Or.inr (List.mem_append_right _ hg)
  · intro hd
    cases hdo : s.doneTxOpen with
    | false =>
      rcases hl.whyClosed hdo with h | h | h
      · left; show s.sRemaining - 1 = 0; omega
      · exact Or.inr (Or.inl h)
      · exact Or.inr (Or.inr h)
    | true =>
      simp only [hdo, Bool.true_and, Bool.and_eq_false_imp, bne_iff_ne, ne_eq, bne_eq_false_iff_eq] at hd
      by_cases hsr : s.sRemaining - 1 = 0
      · exact Or.inl hsr
      · have hca := hd hsr
        exact Or.inr (Or.inr (hl.imOk.2 (hl.closeIan (by rw [hca]; rfl))))

theorem linv_finishErr {f : Nat} (hl : LInv c s)
    (h : step? c s (.finish f false) = some s') : LInv c s' := by
  obtain ⟨_, _, ⟨_, rfl⟩ | ⟨_, rfl⟩⟩ := finishErr_cases h
  · refine ⟨hl.imOk, hl.dropIan, hl.closeIan, ?_, ?_, hl.ended, hl.rtx, hl.qd, hl.sd, hl.rrx, hl.complete, ?_, fun _ => by simp⟩
    · intro hd; exact absurd hd (by simp)
    · intro hd; exact absurd hd (by simp)
    · intro _; exact Or.inr (Or.inl (by simp))
  · refine ⟨hl.imOk, hl.dropIan, hl.closeIan, ?_, ?_, hl.ended, hl.rtx, hl.qd, ?_, ?_, ?_, ?_, fun _ => by simp⟩
    · intro hd; exact absurd hd (by simp)
    · intro hd; exact absurd hd (by simp)
    · intro _; exact Or.inr rfl
    · intro _; exact Or.inr rfl
    · intro hd; exact absurd hd (by simp)
    · intro _; exact Or.inr (Or.inl (by simp))

theorem readyUnder_none (h : readyUnder s = .none) : s.readyQ = [] ∧ s.readyTxOpen = false := by
  unfold readyUnder at h
  cases hq : s.readyQ with
  | nil => cases ht : s.readyTxOpen <;> simp [hq, ht] at h ⊢
  | cons a l => simp [hq] at h

theorem readyUnder_pending (h : readyUnder s = .pending) : s.readyQ = [] ∧ s.readyTxOpen = true := by
  unfold readyUnder at h
  cases hq : s.readyQ with
  | nil => cases ht : s.readyTxOpen <;> simp [hq, ht] at h ⊢
  | cons a l => simp [hq] at h

theorem readyUnder_item (h : readyUnder s = .item) : s.readyQ ≠ [] := by
  unfold readyUnder at h
  cases hq : s.readyQ with
  | nil => cases ht : s.readyTxOpen <;> simp [hq, ht] at h
  | cons a l => simp

theorem pdone_im {m : IM} (hm : s.im.recv = true → m.recv = true) (h : PDone s) :
    PDone { s with im := m } := by
  rcases h with h | h | h
  · exact Or.inl h
  · exact Or.inr (Or.inl h)
  · exact Or.inr (Or.inr (hm h))

theorem linv_schedPoll (hl : LInv c s) (h : step? c s .schedPoll = some s') : LInv c s' := by
  obtain ⟨_, hse, _, hcase⟩ := schedPoll_cases h
  obtain ⟨_, hrecv, hok, _, hpend, hendd, hintNone, hintSome, hnoInt⟩ :=
    pollNext_spec c.strat s.im (readyUnder s)
  have hok' := hok hl.imOk
  generalize pollNext c.strat s.im (readyUnder s) = r at *
  obtain ⟨m, out⟩ := r
  simp only at hrecv hok' hpend hendd hintNone hintSome hnoInt hcase
  rcases hcase with ⟨ho, rfl⟩ | ⟨ho, rfl⟩ | ⟨ho, rfl⟩ | ⟨ho, f, rest, hq, rfl⟩ | ⟨ho, f, rest, hq, ⟨hincl, rfl⟩ | ⟨hincl, rfl⟩⟩
  · -- Pending
    obtain ⟨_, hian, _⟩ := hpend ho
    refine ⟨hok', ?_, ?_, ?_, hl.sent, ?_, hl.rtx, hl.qd, hl.sd, hl.rrx, hl.complete, ?_, hl.shortFailed⟩
    · intro hd; show m.ian = true; rw [hian]; exact hl.dropIan hd
    · intro hd; show m.ian = true; rw [hian]; exact hl.closeIan hd
    · intro hd
      obtain ⟨h1, h2, h3, h4⟩ := hl.txOpen hd
      refine ⟨h1, h2, h3, ?_⟩
      intro hi; apply h4; rw [← hian]; exact hi
    · intro hd; exact absurd (hse ▸ hd : false = true) (by simp)
    · intro hd; exact pdone_im hrecv (hl.whyClosed hd)
  · -- end of stream
    obtain ⟨hian, hwhy⟩ := hendd ho
    refine ⟨hok', ?_, ?_, ?_, hl.sent, ?_, hl.rtx, hl.qd, ?_, ?_, ?_, ?_, hl.shortFailed⟩
    · intro hd; show m.ian = true; rw [hian]; exact hl.dropIan hd
    · intro hd; show m.ian = true; rw [hian]; exact hl.closeIan hd
    · intro hd
      obtain ⟨h1, h2, h3, h4⟩ := hl.txOpen hd
      refine ⟨h1, h2, h3, ?_⟩
      intro hi; apply h4; rw [← hian]; exact hi
    · intro _
      rcases hwhy with h | h
      · left; show m.ian = true; rw [hian]; exact h
      · right; exact readyUnder_none h
    · intro _; exact Or.inl rfl
    · intro _; exact Or.inl rfl
    · intro hd; exact absurd hd (by simp)
    · intro hd; exact pdone_im hrecv (hl.whyClosed hd)
  · -- Interrupted(None)
    obtain ⟨_, hian⟩ := hintNone ho
    refine ⟨hok', ?_, ?_, ?_, ?_, ?_, hl.rtx, hl.qd, hl.sd, hl.rrx, hl.complete, ?_, hl.shortFailed⟩
    · intro _; exact hian
    · intro _; exact hian
    · intro hd; exact absurd hd (by simp)
    · intro hd; exact absurd hd (by simp)
    · intro hd; exact absurd (hse ▸ hd : false = true) (by simp)
    · intro _; exact Or.inr (Or.inr (hok'.2 hian))
  · -- NoInterrupt(item)
    obtain ⟨hian, _⟩ := hnoInt ho
    simp only [handOut]
    refine ⟨hok', ?_, ?_, ?_, hl.sent, ?_, hl.rtx, hl.qd, hl.sd, hl.rrx, ?_, ?_, hl.shortFailed⟩
    · intro hd; show m.ian = true; rw [hian]; exact hl.dropIan hd
    · intro hd; show m.ian = true; rw [hian]; exact hl.closeIan hd
    · intro hd
      obtain ⟨h1, h2, h3, h4⟩ := hl.txOpen hd
      refine ⟨h1, h2, h3, ?_⟩
      intro hi
      obtain ⟨g, hg, hgi⟩ := h4 (by rw [← hian]; exact hi)
      exact ⟨g, hg, List.mem_append_left _ hgi⟩
    · intro hd; exact absurd (hse ▸ hd : false = true) (by simp)
    · intro hrx htx v hv hpar
      rcases hl.complete hrx htx v hv hpar with h | h | h
      · rw [hq] at h
        rcases List.mem_cons.mp h with h | h
        · right; left; subst h; simp
        · left; exact h
      · right; left; exact List.mem_append_left _ h
      · right; right; exact h
    · intro hd; exact pdone_im hrecv (hl.whyClosed hd)
  · -- Interrupted(Some item), item included
    obtain ⟨_, hian, _⟩ := hintSome ho
    simp only [handOut]
    refine ⟨hok', ?_, ?_, ?_, hl.sent, ?_, hl.rtx, hl.qd, hl.sd, hl.rrx, ?_, ?_, hl.shortFailed⟩
    · intro _; exact hian
    · intro _; exact hian
    · intro hd
      obtain ⟨h1, h2, h3, _⟩ := hl.txOpen hd
      refine ⟨h1, h2, h3, ?_⟩
      intro _
      exact ⟨f, rfl, by simp⟩
    · intro hd; exact absurd (hse ▸ hd : false = true) (by simp)
    · intro hrx htx v hv hpar
      rcases hl.complete hrx htx v hv hpar with h | h | h
      · rw [hq] at h
        rcases List.mem_cons.mp h with h | h
        · right; left; subst h; simp
        · left; exact h
      · right; left; exact List.mem_append_left _ h
      · right; right; exact h
    · intro hd; exact pdone_im hrecv (hl.whyClosed hd)
  · -- Interrupted(Some item), item swallowed
    obtain ⟨hian0, hian, _⟩ := hintSome ho
    refine ⟨hok', ?_, ?_, ?_, ?_, ?_, hl.rtx, hl.qd, hl.sd, hl.rrx, ?_, ?_, hl.shortFailed⟩
    · intro _; exact hian
    · intro _; exact hian
    · intro hd; exact absurd hd (by simp)
    · intro hd; exact absurd hd (by simp)
    · intro hd; exact absurd (hse ▸ hd : false = true) (by simp)
    · intro hrx htx v hv hpar
      rcases hl.complete hrx htx v hv hpar with h | h | h
      · rw [hq] at h
        rcases List.mem_cons.mp h with h | h
        · right; right; subst h; rfl
        · left; exact h
      · right; left; exact h
      · have := hl.dropIan (by rw [h]; rfl)
        rw [hian0] at this
        exact absurd this (by simp)
    · intro _; exact Or.inr (Or.inr (hok'.2 hian))

theorem linv_queuerRecv (hc : GoodCfg c) (hinv : Inv0 c s) (hinv' : Inv0 c s') (hl : LInv c s)
    (h : step? c s .queuerRecv = some s') : LInv c s' := by
  have hqr' := hinv'.qRem
  obtain ⟨hqd, _, x, rest, hq, rfl⟩ := queuerRecv_cases h
  refine ⟨hl.imOk, hl.dropIan, hl.closeIan, hl.txOpen, ?_, ?_, ?_, ?_, hl.sd, hl.rrx, ?_, hl.whyClosed, hl.shortFailed⟩
  · intro hd g hg
    rcases hl.sent hd g hg with h | h
    · exact Or.inl (List.mem_append_left _ h)
    · rw [hq] at h
      rcases List.mem_cons.mp h with h | h
      · left; subst h; simp
      · exact Or.inr h
  · intro hse
    rcases hl.ended hse with h | ⟨h1, h2⟩
    · exact Or.inl h
    · right
      simp only [h2, Bool.false_and, and_true]
      rw [relFold_ready_closed]
      exact h1
  · intro htx
    right
    show s.qRemaining - 1 = 0
    simp only [Bool.and_eq_false_imp, bne_eq_false_iff_eq] at htx
    cases hto : s.readyTxOpen with
    | true => exact htx hto
    | false =>
      rcases hl.rtx hto with h | h
      · rw [hqd] at h; exact absurd h (by simp)
      · omega
  · intro hd; exact absurd (hqd ▸ hd : false = true) (by simp)
  · intro hrx hcase v hv hpar
    exact complete_queuerRecv hc hinv hl hq hqr' hrx hcase hv hpar

theorem linv_step (hc : GoodCfg c) (hinv : Inv0 c s) (hinv' : Inv0 c s') (hl : LInv c s) {a : Action}
    (h : step? c s a = some s') : LInv c s' := by
  cases a with
  | queuerRecv => exact linv_queuerRecv hc hinv hinv' hl h
  | queuerEnd => exact linv_queuerEnd hl h
  | schedPoll => exact linv_schedPoll hl h
  | invoke f => exact linv_invoke hl h
  | finish f ok =>
    cases ok with
    | true => exact linv_finishOk hinv' hl h
    | false => exact linv_finishErr hl h
  | interrupt => exact linv_interrupt hl h
  | schedEnd => exact linv_schedEnd hinv hl h
  | ret => exact linv_ret hl h

theorem linv_reachable (hc : GoodCfg c) (hr : Reachable c s) : LInv c s := by
  induction hr with
  | init => exact linv_init hc
  | step a hr' h ih =>
    exact linv_step hc (inv0_reachable hc hr') (inv0_reachable hc (Reachable.step a hr' h)) ih h

end FG
