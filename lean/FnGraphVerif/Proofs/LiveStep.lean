/-
  Proofs/LiveStep.lean — one lemma per action of `step?`: the guard that must have held and the
  successor state in closed form.
-/
import FnGraphVerif.Proofs.ProtoInv
import FnGraphVerif.Proofs.LiveIM
namespace FG
variable {c : Cfg} {s s' : PState}

theorem queuerRecv_cases (h : step? c s .queuerRecv = some s') :
    s.qDone = false ∧ s.result = none ∧ ∃ x rest, s.doneQ = x :: rest ∧
      s' = { s with
        doneQ := rest, qRemaining := s.qRemaining - 1,
        readyTxOpen := (s.readyTxOpen && (s.qRemaining - 1 != 0)),
        counts := (relFold ((s.readyTxOpen && (s.qRemaining - 1 != 0)) && s.readyRxOpen) c.cap
          (s.counts, s.readyQ, s.panic || s.qRemaining == 0) (children c.D x)).1,
        readyQ := (relFold ((s.readyTxOpen && (s.qRemaining - 1 != 0)) && s.readyRxOpen) c.cap
          (s.counts, s.readyQ, s.panic || s.qRemaining == 0) (children c.D x)).2.1,
        panic := (relFold ((s.readyTxOpen && (s.qRemaining - 1 != 0)) && s.readyRxOpen) c.cap
          (s.counts, s.readyQ, s.panic || s.qRemaining == 0) (children c.D x)).2.2,
        released := s.released ++ [x] } := by
  simp only [step?] at h
  split at h
  · exact absurd h (by simp)
  · rename_i hg
    simp only [Bool.or_eq_true, not_or, Bool.not_eq_true, Option.isSome_eq_false_iff,
      Option.isNone_iff_eq_none] at hg
    refine ⟨hg.1, hg.2, ?_⟩
    split at h
    · exact absurd h (by simp)
    · rename_i x rest hq
      simp only [decr, Option.some.injEq] at h
      exact ⟨x, rest, hq, h.symm⟩

theorem queuerEnd_cases (h : step? c s .queuerEnd = some s') :
    s.qDone = false ∧ s.doneTxOpen = false ∧ s.doneQ = [] ∧
      s' = { s with qDone := true, readyTxOpen := false } := by
  simp only [step?] at h
  split at h
  · exact absurd h (by simp)
  · rename_i hg
    simp only [Bool.or_eq_true, not_or, Bool.not_eq_true, Bool.not_eq_true', List.isEmpty_eq_false_iff,
      ne_eq, Decidable.not_not] at hg
    simp only [Option.some.injEq] at h
    exact ⟨hg.1.1, hg.1.2, hg.2, h.symm⟩

theorem schedPoll_cases (h : step? c s .schedPoll = some s') :
    s.sDone = false ∧ s.streamEnded = false ∧ underLimit c s = true ∧
    (((pollNext c.strat s.im (readyUnder s)).2 = .pending ∧ s' = { s with im := (pollNext c.strat s.im (readyUnder s)).1 }) ∨
     ((pollNext c.strat s.im (readyUnder s)).2 = .endd ∧
        s' = { s with im := (pollNext c.strat s.im (readyUnder s)).1, streamEnded := true, readyRxOpen := false }) ∨
     ((pollNext c.strat s.im (readyUnder s)).2 = .intNone ∧
        s' = { s with im := (pollNext c.strat s.im (readyUnder s)).1, doneTxOpen := false }) ∨
     ((pollNext c.strat s.im (readyUnder s)).2 = .noInt ∧ ∃ f rest, s.readyQ = f :: rest ∧
        s' = handOut c { s with im := (pollNext c.strat s.im (readyUnder s)).1 } f rest) ∨
     ((pollNext c.strat s.im (readyUnder s)).2 = .intSome ∧ ∃ f rest, s.readyQ = f :: rest ∧
        ((c.incl = true ∧ s' = { handOut c { s with im := (pollNext c.strat s.im (readyUnder s)).1 } f rest with closeAfter := some f }) ∨
         (c.incl = false ∧ s' = { s with im := (pollNext c.strat s.im (readyUnder s)).1, readyQ := rest, dropped := some f, doneTxOpen := false })))) := by
  simp only [step?] at h
  split at h
  · exact absurd h (by simp)
  · rename_i hg
    simp only [Bool.or_eq_true, Bool.not_eq_true', not_or, Bool.not_eq_true, Bool.not_eq_false] at hg
    refine ⟨hg.1.1, hg.1.2, hg.2, ?_⟩
    generalize pollNext c.strat s.im (readyUnder s) = r at *
    obtain ⟨m, out⟩ := r
    cases out with
    | pending =>
      simp only [Option.some.injEq] at h
      exact Or.inl ⟨rfl, h.symm⟩
    | endd =>
      simp only [Option.some.injEq] at h
      exact Or.inr (Or.inl ⟨rfl, h.symm⟩)
    | intNone =>
      simp only [Option.some.injEq] at h
      exact Or.inr (Or.inr (Or.inl ⟨rfl, h.symm⟩))
    | noInt =>
      simp only at h
      split at h
      · exact absurd h (by simp)
      · rename_i f rest hq
        simp only [Option.some.injEq] at h
        exact Or.inr (Or.inr (Or.inr (Or.inl ⟨rfl, f, rest, hq, h.symm⟩)))
    | intSome =>
      simp only at h
      split at h
      · exact absurd h (by simp)
      · rename_i f rest hq
        split at h
        · rename_i hi
          simp only [Option.some.injEq] at h
          exact Or.inr (Or.inr (Or.inr (Or.inr ⟨rfl, f, rest, hq, Or.inl ⟨hi, h.symm⟩⟩)))
        · rename_i hi
          simp only [Bool.not_eq_true] at hi
          simp only [Option.some.injEq] at h
          exact Or.inr (Or.inr (Or.inr (Or.inr ⟨rfl, f, rest, hq, Or.inr ⟨hi, h.symm⟩⟩)))

theorem invoke_cases {f : Nat} (h : step? c s (.invoke f) = some s') :
    f ∈ s.inflight ∧ f ∉ s.invoked ∧ s' = { s with invoked := s.invoked ++ [f] } := by
  simp only [step?] at h
  split at h
  · rename_i hg
    simp only [Option.some.injEq] at h
    exact ⟨hg.1, hg.2, h.symm⟩
  · exact absurd h (by simp)

theorem finishOk_cases {f : Nat} (h : step? c s (.finish f true) = some s') :
    f ∈ s.inflight ∧ f ∈ s.invoked ∧
    s' = { s with
      inflight := s.inflight.erase f, endedOk := s.endedOk ++ [f],
      doneQ := (if s.doneTxOpen && !decide (c.cap ≤ s.doneQ.length) then s.doneQ ++ [f] else s.doneQ),
      sRemaining := s.sRemaining - 1,
      doneTxOpen := (s.doneTxOpen && (s.sRemaining - 1 != 0) && s.closeAfter != some f),
      panic := (s.panic || s.sRemaining == 0 || (s.doneTxOpen && decide (c.cap ≤ s.doneQ.length))) } := by
  simp only [step?] at h
  split at h
  · exact absurd h (by simp)
  · rename_i hg
    simp only [Decidable.not_not] at hg
    simp only [if_true, decr, Option.some.injEq] at h
    exact ⟨hg.1, hg.2, h.symm⟩

theorem finishErr_cases {f : Nat} (h : step? c s (.finish f false) = some s') :
    f ∈ s.inflight ∧ f ∈ s.invoked ∧
    (c.errMode = .collect ∧ s' = { s with
        inflight := s.inflight.erase f, failed := s.failed ++ [f], errors := s.errors ++ [f],
        doneTxOpen := false, sRemaining := s.sRemaining - 1,
        panic := (s.panic || s.sRemaining == 0 || decide (c.cap ≤ s.errors.length)) } ∨
     c.errMode = .shortCircuit ∧ s' = { s with
        inflight := s.inflight.erase f, failed := s.failed ++ [f], shortErr := some f,
        doneTxOpen := false, readyRxOpen := false, sDone := true }) := by
  simp only [step?] at h
  split at h
  · exact absurd h (by simp)
  · rename_i hg
    simp only [Decidable.not_not] at hg
    refine ⟨hg.1, hg.2, ?_⟩
    simp only [Bool.false_eq_true, if_false] at h
    split at h
    · exact absurd h (by simp)
    · rename_i hm
      simp only [decr, Option.some.injEq] at h
      exact Or.inl ⟨hm, h.symm⟩
    · rename_i hm
      simp only [Option.some.injEq] at h
      exact Or.inr ⟨hm, h.symm⟩

theorem interrupt_cases (h : step? c s .interrupt = some s') :
    s' = { s with im := { s.im with sent := true } } := by
  simp only [step?, Option.some.injEq] at h
  exact h.symm

theorem schedEnd_cases (h : step? c s .schedEnd = some s') :
    s.streamEnded = true ∧ s.inflight = [] ∧ s.sDone = false ∧
    s' = { s with sDone := true, doneTxOpen := (s.doneTxOpen && !c.sequential) } := by
  simp only [step?] at h
  split at h
  · rename_i hg
    simp only [Bool.and_eq_true, List.isEmpty_iff, Bool.not_eq_true'] at hg
    simp only [Option.some.injEq] at h
    exact ⟨hg.1.1, hg.1.2, hg.2, h.symm⟩
  · exact absurd h (by simp)

theorem ret_cases (h : step? c s .ret = some s') :
    s.sDone = true ∧ s.qDone = true ∧ s.result = none ∧
    s' = { s with result := some (mkRet c s) } := by
  simp only [step?] at h
  split at h
  · rename_i hg
    simp only [Bool.and_eq_true, Option.isNone_iff_eq_none] at hg
    simp only [Option.some.injEq] at h
    exact ⟨hg.1.1, hg.1.2, hg.2, h.symm⟩
  · exact absurd h (by simp)

end FG
