/-
  Proofs/DAug.lean — the loop invariant of `augment`.

  `ids` is any duplicate-free enumeration of the nodes in which every edge of the input graph
  points forward (position = `idxOf ids`).  The invariant `AInv` says: the state is `ok`, the
  edge list is the input's plus a list `Dd` of data edges, each of which joins two conflicting
  functions and points forward; the graph is simple; every data edge was produced by a pair
  that the scan has already passed (`scanned`); and (`hist`) when a data edge was inserted its
  end points were not joined by a path, and everything inserted later starts strictly earlier
  in `ids` or starts at the same node and ends strictly later.
-/
import FnGraphVerif.Proofs.DSort
namespace FG

/-! ### graph facts -/

theorem reachP_numbering {g : Dag} (f : Nat → Nat) (h : ∀ u v, IsEdge g u v → f u < f v) {u v : Nat}
    (hr : ReachP g u v) : f u < f v := by
  induction hr with
  | edge he => exact h _ _ he
  | tail _ he ih => exact Nat.lt_trans ih (h _ _ he)

theorem reach_numbering {g : Dag} (f : Nat → Nat) (h : ∀ u v, IsEdge g u v → f u < f v) {u v : Nat}
    (hr : Reach g u v) : f u ≤ f v := by
  rcases hr.cases_head with rfl | hp
  · exact Nat.le_refl _
  · exact Nat.le_of_lt (reachP_numbering f h hp)

theorem acyclic_of_numbering {g : Dag} (f : Nat → Nat) (h : ∀ u v, IsEdge g u v → f u < f v) : Acyclic g := by
  intro u hu
  exact Nat.lt_irrefl _ (reachP_numbering f h hu)

theorem children_addE (g : Dag) (e : Edge) (u : Nat) :
    children (addE g e) u = (if e.src = u then [e.tgt] else []) ++ children g u := by
  unfold children addE
  simp only [List.reverse_append, List.reverse_cons, List.reverse_nil, List.nil_append,
    List.cons_append, List.filter_cons, beq_iff_eq]
  split <;> simp

theorem parents_addE (g : Dag) (e : Edge) (v : Nat) :
    parents (addE g e) v = (if e.tgt = v then [e.src] else []) ++ parents g v := by
  unfold parents addE
  simp only [List.reverse_append, List.reverse_cons, List.reverse_nil, List.nil_append,
    List.cons_append, List.filter_cons, beq_iff_eq]
  split <;> simp

theorem simple_addE {g : Dag} {e : Edge} (hs : Simple g) (hne : ¬ IsEdge g e.src e.tgt) :
    Simple (addE g e) := by
  intro u
  rw [children_addE, parents_addE]
  refine ⟨?_, ?_⟩
  · split
    · rename_i h
      subst h
      simp only [List.singleton_append, List.nodup_cons]
      exact ⟨fun hm => hne (mem_children.mp hm), (hs _).1⟩
    · simpa using (hs u).1
  · split
    · rename_i h
      subst h
      simp only [List.singleton_append, List.nodup_cons]
      exact ⟨fun hm => hne (mem_parents.mp hm), (hs _).2⟩
    · simpa using (hs u).2

theorem findEdge_none_D {g : Dag} {a c : Nat} (h : ¬ IsEdge g a c) : findEdge g a c = none := by
  unfold findEdge
  rw [List.findIdx?_eq_none_iff]
  intro e he
  by_cases hs : e.src = a
  · by_cases ht : e.tgt = c
    · exact absurd ⟨e, he, hs, ht⟩ h
    · simp [ht]
  · simp [hs]

theorem updateEdge_fresh {g : Dag} {a c : Nat} (k : Kind) (ha : a < g.n) (hc : c < g.n)
    (hne : ¬ IsEdge g a c) (hnp : hasPath g c a = false) :
    updateEdge g a c k = (addE g ⟨a, c, k⟩, .ok g.edges.length) := by
  unfold updateEdge
  have h1 : ¬ (g.n ≤ a ∨ g.n ≤ c) := by omega
  rw [if_neg h1, findEdge_none_D hne]
  simp only [hnp]
  rfl

/-! ### the three outcomes of `augPair` -/

theorem augPair_path {decls : List FnDecl} {u v : Nat} {st : AugSt} (hok : st.ok = true)
    (hp : hasPath st.g u v = true) : augPair decls u st v = { st with checks := st.checks + 1 } := by
  simp [augPair, hok, hp]

theorem augPair_noconf {decls : List FnDecl} {u v : Nat} {st : AugSt} (hok : st.ok = true)
    (hp : hasPath st.g u v = false) (hc : conflict (declOf decls u) (declOf decls v) = false) :
    augPair decls u st v = { st with checks := st.checks + 1 } := by
  simp [augPair, hok, hp, hc]

theorem augPair_add {decls : List FnDecl} {u v : Nat} {st : AugSt} (hok : st.ok = true)
    (hp : hasPath st.g u v = false) (hc : conflict (declOf decls u) (declOf decls v) = true)
    {g' : Dag} {i : Nat} (hu : updateEdge st.g u v .data = (g', .ok i)) :
    augPair decls u st v = ⟨g', st.checks + 1, true⟩ := by
  simp [augPair, hok, hp, hc, hu]

/-! ### the invariant -/

structure OrdCtx (g : Dag) (ids : List Nat) : Prop where
  good : GoodG g
  nodup : ids.Nodup
  mem : ∀ v, v ∈ ids ↔ v < g.n
  len : ids.length = g.n
  fwd : ∀ u v, IsEdge g u v → idxOf ids u < idxOf ids v

structure AInv (g : Dag) (decls : List FnDecl) (ids : List Nat) (st : AugSt) (Dd : List Edge)
    (k bound : Nat) : Prop where
  ok : st.ok = true
  n : st.g.n = g.n
  edges : st.g.edges = g.edges ++ Dd
  data : ∀ e ∈ Dd, e.kind = .data ∧ conflict (declOf decls e.src) (declOf decls e.tgt) = true ∧
    e.src < g.n ∧ e.tgt < g.n ∧ idxOf ids e.src < idxOf ids e.tgt
  simple : Simple st.g
  scanned : ∀ e ∈ Dd, k < idxOf ids e.src ∨ (idxOf ids e.src = k ∧ idxOf ids e.tgt < bound)
  hist : ∀ D1 e D2, Dd = D1 ++ e :: D2 →
    ¬ Reach ⟨g.n, g.edges ++ D1⟩ e.src e.tgt ∧
    ∀ e' ∈ D2, idxOf ids e'.src < idxOf ids e.src ∨
      (idxOf ids e'.src = idxOf ids e.src ∧ idxOf ids e.tgt < idxOf ids e'.tgt)

section
variable {g : Dag} {decls : List FnDecl} {ids : List Nat}

theorem AInv.init (g : Dag) (decls : List FnDecl) (ids : List Nat) (hg : GoodG g) (k b : Nat) :
    AInv g decls ids ⟨g, 0, true⟩ [] k b where
  ok := rfl
  n := rfl
  edges := by simp
  data := by simp
  simple := hg.simple
  scanned := by simp
  hist := by intro D1 e D2 h; simp at h

theorem AInv.fwd (ctx : OrdCtx g ids) {st : AugSt} {Dd : List Edge} {k b : Nat}
    (inv : AInv g decls ids st Dd k b) {x y : Nat} (he : IsEdge st.g x y) : idxOf ids x < idxOf ids y := by
  obtain ⟨e, hm, rfl, rfl⟩ := he
  rw [inv.edges] at hm
  rcases List.mem_append.mp hm with h | h
  · exact ctx.fwd _ _ ⟨e, h, rfl, rfl⟩
  · exact (inv.data e h).2.2.2.2

theorem AInv.wf (ctx : OrdCtx g ids) {st : AugSt} {Dd : List Edge} {k b : Nat}
    (inv : AInv g decls ids st Dd k b) : WF st.g := by
  intro e hm
  rw [inv.edges] at hm
  rw [inv.n]
  rcases List.mem_append.mp hm with h | h
  · exact ctx.good.wf e h
  · exact ⟨(inv.data e h).2.2.1, (inv.data e h).2.2.2.1⟩

theorem AInv.goodG (ctx : OrdCtx g ids) {st : AugSt} {Dd : List Edge} {k b : Nat}
    (inv : AInv g decls ids st Dd k b) : GoodG st.g :=
  ⟨inv.wf ctx, inv.simple, acyclic_of_numbering (idxOf ids) (fun _ _ he => inv.fwd ctx he)⟩

theorem AInv.graph_eq {st : AugSt} {Dd : List Edge} {k b : Nat}
    (inv : AInv g decls ids st Dd k b) : st.g = ⟨g.n, g.edges ++ Dd⟩ := by
  have h1 := inv.n
  have h2 := inv.edges
  cases hg : st.g with
  | mk n es => rw [hg] at h1 h2; simp only at h1 h2; rw [h1, h2]

/-- only `checks` changed, and the scan moved on -/
theorem AInv.bump {st : AugSt} {Dd : List Edge} {k b b' : Nat}
    (inv : AInv g decls ids st Dd k b) (hb : b ≤ b') (c : Nat) :
    AInv g decls ids { st with checks := c } Dd k b' where
  ok := inv.ok
  n := inv.n
  edges := inv.edges
  data := inv.data
  simple := inv.simple
  scanned := by
    intro e he
    rcases inv.scanned e he with h | ⟨h1, h2⟩
    · exact Or.inl h
    · exact Or.inr ⟨h1, Nat.lt_of_lt_of_le h2 hb⟩
  hist := inv.hist

/-- the outer loop moves to the previous position -/
theorem AInv.next {st : AugSt} {Dd : List Edge} {k b : Nat}
    (inv : AInv g decls ids st Dd (k + 1) b) : AInv g decls ids st Dd k 0 where
  ok := inv.ok
  n := inv.n
  edges := inv.edges
  data := inv.data
  simple := inv.simple
  scanned := by
    intro e he
    rcases inv.scanned e he with h | ⟨h1, _⟩
    · exact Or.inl (by omega)
    · exact Or.inl (by omega)
  hist := inv.hist

theorem augPair_step (ctx : OrdCtx g ids) {st : AugSt} {Dd : List Edge} {k bound : Nat}
    (inv : AInv g decls ids st Dd k bound) {u v : Nat} (hu : u < g.n) (hv : v < g.n)
    (hk : idxOf ids u = k) (hkv : k < idxOf ids v) (hb : bound ≤ idxOf ids v) :
    ∃ Dd', AInv g decls ids (augPair decls u st v) Dd' k (idxOf ids v + 1) ∧
      (∀ x y, Reach st.g x y → Reach (augPair decls u st v).g x y) ∧
      (conflict (declOf decls u) (declOf decls v) = true → Reach (augPair decls u st v).g u v) ∧
      (augPair decls u st v).checks ≤ st.checks + 1 := by
  have hwf := inv.wf ctx
  have hun : u < st.g.n := by rw [inv.n]; exact hu
  have hvn : v < st.g.n := by rw [inv.n]; exact hv
  by_cases hp : hasPath st.g u v = true
  · rw [augPair_path inv.ok hp]
    exact ⟨Dd, inv.bump (by omega) _, fun _ _ h => h, fun _ => hasPath_sound hp, Nat.le_refl _⟩
  · have hp' : hasPath st.g u v = false := by simpa using hp
    by_cases hc : conflict (declOf decls u) (declOf decls v) = true
    · have hnr : ¬ Reach st.g u v := (hasPath_false_iff hwf hun v).mp hp'
      have hne : ¬ IsEdge st.g u v := fun he => hnr (Reach.tail (Reach.refl _) he)
      have hback : hasPath st.g v u = false := by
        rw [hasPath_false_iff hwf hvn]
        intro hr
        have := reach_numbering (idxOf ids) (fun _ _ he => inv.fwd ctx he) hr
        omega
      rw [augPair_add inv.ok hp' hc (updateEdge_fresh .data hun hvn hne hback)]
      refine ⟨Dd ++ [⟨u, v, .data⟩], ?_, ?_, ?_, Nat.le_refl _⟩
      · refine ⟨rfl, inv.n, ?_, ?_, ?_, ?_, ?_⟩
        · show st.g.edges ++ [_] = _
          rw [inv.edges, List.append_assoc]
        · intro e he
          rcases List.mem_append.mp he with h | h
          · exact inv.data e h
          · simp only [List.mem_singleton] at h
            subst h
            exact ⟨rfl, hc, hu, hv, by simp only; omega⟩
        · exact simple_addE (e := ⟨u, v, .data⟩) inv.simple hne
        · intro e he
          rcases List.mem_append.mp he with h | h
          · rcases inv.scanned e h with h1 | ⟨h1, h2⟩
            · exact Or.inl h1
            · exact Or.inr ⟨h1, by omega⟩
          · simp only [List.mem_singleton] at h
            subst h
            exact Or.inr ⟨hk, Nat.lt_succ_self _⟩
        · intro D1 e D2 hsplit
          have hcases : D2 = [] ∨ ∃ D2' y, D2 = D2' ++ [y] := by
            rcases List.eq_nil_or_concat D2 with h | ⟨a, b, h⟩
            · exact Or.inl h
            · exact Or.inr ⟨a, b, by simpa using h⟩
          rcases hcases with rfl | ⟨D2', y, rfl⟩
          · have h' : Dd ++ [⟨u, v, .data⟩] = D1 ++ [e] := hsplit
            obtain ⟨h1, h2⟩ := List.append_inj' h' rfl
            simp only [List.cons.injEq, and_true] at h2
            subst h1; subst h2
            refine ⟨?_, by simp⟩
            rw [← inv.graph_eq]
            exact hnr
          · have h' : Dd ++ [⟨u, v, .data⟩] = (D1 ++ e :: D2') ++ [y] := by
              rw [hsplit]; simp
            obtain ⟨h1, h2⟩ := List.append_inj' h' rfl
            simp only [List.cons.injEq, and_true] at h2
            subst h2
            obtain ⟨i1, i2⟩ := inv.hist D1 e D2' h1
            refine ⟨i1, ?_⟩
            intro e' he'
            rcases List.mem_append.mp he' with h | h
            · exact i2 e' h
            · simp only [List.mem_singleton] at h
              subst h
              have hmem : e ∈ Dd := by rw [h1]; simp
              simp only
              rcases inv.scanned e hmem with s | ⟨s1, s2⟩
              · exact Or.inl (by omega)
              · exact Or.inr ⟨by omega, by omega⟩
      · intro x y h
        exact Reach.mono_addE h
      · intro _
        exact Reach.tail (Reach.refl _) (isEdge_addE.mpr (Or.inr ⟨rfl, rfl⟩))
    · have hc' : conflict (declOf decls u) (declOf decls v) = false := by simpa using hc
      rw [augPair_noconf inv.ok hp' hc']
      exact ⟨Dd, inv.bump (by omega) _, fun _ _ h => h, fun h => absurd h hc, Nat.le_refl _⟩

theorem augInner (ctx : OrdCtx g ids) {u k : Nat} (hu : u < g.n) (hk : idxOf ids u = k) :
    ∀ (L : List Nat) (st : AugSt) (Dd : List Edge) (bound : Nat), AInv g decls ids st Dd k bound →
      L.Pairwise (fun a b => idxOf ids a < idxOf ids b) →
      (∀ v ∈ L, v < g.n ∧ k < idxOf ids v ∧ bound ≤ idxOf ids v) →
      ∃ Dd' bound', AInv g decls ids (L.foldl (augPair decls u) st) Dd' k bound' ∧
        (∀ x y, Reach st.g x y → Reach (L.foldl (augPair decls u) st).g x y) ∧
        (∀ v ∈ L, conflict (declOf decls u) (declOf decls v) = true →
          Reach (L.foldl (augPair decls u) st).g u v) ∧
        (L.foldl (augPair decls u) st).checks ≤ st.checks + L.length := by
  intro L
  induction L with
  | nil =>
    intro st Dd bound inv _ _
    exact ⟨Dd, bound, inv, fun _ _ h => h, by simp, by simp⟩
  | cons v vs ih =>
    intro st Dd bound inv hpw hall
    rw [List.pairwise_cons] at hpw
    obtain ⟨hvn, hkv, hbv⟩ := hall v List.mem_cons_self
    obtain ⟨Dd1, inv1, mono1, conf1, chk1⟩ := augPair_step ctx inv hu hvn hk hkv hbv
    have hall' : ∀ w ∈ vs, w < g.n ∧ k < idxOf ids w ∧ idxOf ids v + 1 ≤ idxOf ids w := by
      intro w hw
      obtain ⟨a, b, _⟩ := hall w (List.mem_cons_of_mem _ hw)
      exact ⟨a, b, hpw.1 w hw⟩
    obtain ⟨Dd2, b2, inv2, mono2, conf2, chk2⟩ := ih _ Dd1 _ inv1 hpw.2 hall'
    simp only [List.foldl_cons]
    refine ⟨Dd2, b2, inv2, fun x y h => mono2 x y (mono1 x y h), ?_, ?_⟩
    · intro w hw hc
      rcases List.mem_cons.mp hw with rfl | hw
      · exact mono2 _ _ (conf1 hc)
      · exact conf2 w hw hc
    · simp only [List.length_cons]; omega

theorem ids_pairwise (ctx : OrdCtx g ids) : ids.Pairwise (fun a b => idxOf ids a < idxOf ids b) := by
  rw [List.pairwise_iff_getElem]
  intro i j hi hj hij
  rw [idxOf_getElem' ctx.nodup i hi, idxOf_getElem' ctx.nodup j hj]
  exact hij

theorem getElem_pos (ctx : OrdCtx g ids) {v : Nat} (hv : v < g.n) :
    ids[idxOf ids v]? = some v := by
  have hm := (ctx.mem v).mpr hv
  rw [List.getElem?_eq_getElem (idxOf_lt hm), getElem_idxOf' hm]

theorem pos_lt (ctx : OrdCtx g ids) {v : Nat} (hv : v < g.n) : idxOf ids v < g.n := by
  rw [← ctx.len]; exact idxOf_lt ((ctx.mem v).mpr hv)

theorem augOuter_step (ctx : OrdCtx g ids) {st : AugSt} {Dd : List Edge} {k B : Nat} (hk : k < g.n)
    (inv : AInv g decls ids st Dd (k + 1) B) :
    ∃ Dd' B', AInv g decls ids (augOuter decls ids st k) Dd' k B' ∧
      (∀ x y, Reach st.g x y → Reach (augOuter decls ids st k).g x y) ∧
      (∀ a b, a < g.n → b < g.n → idxOf ids a = k → k < idxOf ids b →
        conflict (declOf decls a) (declOf decls b) = true → Reach (augOuter decls ids st k).g a b) ∧
      (augOuter decls ids st k).checks ≤ st.checks + g.n := by
  have hkl : k < ids.length := by rw [ctx.len]; exact hk
  have hu0 : ids[k]?.getD 0 = ids[k] := by simp [hkl]
  unfold augOuter
  simp only [hu0]
  have hum : ids[k] ∈ ids := List.getElem_mem hkl
  have hun : ids[k] < g.n := (ctx.mem _).mp hum
  have hpk : idxOf ids ids[k] = k := idxOf_getElem' ctx.nodup k hkl
  have hpw : ((ids.drop k).filter (fun v => v != ids[k])).Pairwise (fun a b => idxOf ids a < idxOf ids b) :=
    List.Pairwise.sublist (List.filter_sublist.trans (List.drop_sublist k ids)) (ids_pairwise ctx)
  have hall : ∀ v ∈ (ids.drop k).filter (fun v => v != ids[k]),
      v < g.n ∧ k < idxOf ids v ∧ 0 ≤ idxOf ids v := by
    intro v hv
    rw [List.mem_filter] at hv
    obtain ⟨hd, hne⟩ := hv
    have hne' : v ≠ ids[k] := by simpa using hne
    obtain ⟨j, hj, rfl⟩ := List.mem_drop_iff_getElem.mp hd
    refine ⟨(ctx.mem _).mp (List.getElem_mem _), ?_, Nat.zero_le _⟩
    rw [idxOf_getElem' ctx.nodup _ _]
    rcases Nat.eq_zero_or_pos j with rfl | hpos
    · exact absurd rfl hne'
    · omega
  obtain ⟨Dd', B', inv', mono, conf, chk⟩ := augInner ctx hun hpk _ st Dd 0 inv.next hpw hall
  refine ⟨Dd', B', inv', mono, ?_, ?_⟩
  · intro a b ha hb hpa hpb hc
    have hab : a = ids[k] := by
      have := getElem_pos ctx ha
      rw [hpa, List.getElem?_eq_getElem hkl] at this
      exact (Option.some.inj this).symm
    subst hab
    apply conf b _ hc
    rw [List.mem_filter]
    refine ⟨?_, ?_⟩
    · rw [List.mem_drop_iff_getElem]
      have hbl : idxOf ids b < ids.length := by rw [ctx.len]; exact pos_lt ctx hb
      refine ⟨idxOf ids b - k, by omega, ?_⟩
      have h1 : k + (idxOf ids b - k) = idxOf ids b := by omega
      simp only [h1]
      exact getElem_idxOf' ((ctx.mem b).mpr hb)
    · have : b ≠ ids[k] := by
        intro h
        rw [h, hpk] at hpb
        exact Nat.lt_irrefl _ hpb
      simpa using this
  · have hlen : ((ids.drop k).filter (fun v => v != ids[k])).length ≤ g.n := by
      have h1 := List.length_filter_le (fun v => v != ids[k]) (ids.drop k)
      have h2 : (ids.drop k).length ≤ ids.length := by simp
      rw [ctx.len] at h2
      omega
    omega

/-- every conflicting pair whose first member sits at position `≥ k` is joined -/
def Joined (g : Dag) (decls : List FnDecl) (ids : List Nat) (st : AugSt) (k : Nat) : Prop :=
  ∀ a b, a < g.n → b < g.n → k ≤ idxOf ids a → idxOf ids a < idxOf ids b →
    conflict (declOf decls a) (declOf decls b) = true → Reach st.g a b

theorem augOuter_fold (ctx : OrdCtx g ids) : ∀ (m : Nat), m ≤ g.n → ∀ (st : AugSt) (Dd : List Edge) (B : Nat),
    AInv g decls ids st Dd m B → Joined g decls ids st m →
    ∃ Dd' B', AInv g decls ids ((List.range m).reverse.foldl (augOuter decls ids) st) Dd' 0 B' ∧
      Joined g decls ids ((List.range m).reverse.foldl (augOuter decls ids) st) 0 ∧
      ((List.range m).reverse.foldl (augOuter decls ids) st).checks ≤ st.checks + m * g.n := by
  intro m
  induction m with
  | zero =>
    intro _ st Dd B inv hj
    exact ⟨Dd, B, by simpa using inv, by simpa using hj, by simp⟩
  | succ m ih =>
    intro hm st Dd B inv hj
    have hrev : (List.range (m + 1)).reverse = m :: (List.range m).reverse := by
      rw [List.range_succ, List.reverse_append]; rfl
    rw [hrev, List.foldl_cons]
    obtain ⟨Dd1, B1, inv1, mono1, conf1, chk1⟩ := augOuter_step (decls := decls) ctx (by omega : m < g.n) inv
    have hj1 : Joined g decls ids (augOuter decls ids st m) m := by
      intro a b ha hb hpa hpb hc
      rcases Nat.eq_or_lt_of_le hpa with h | h
      · exact conf1 a b ha hb h.symm (by omega) hc
      · exact mono1 _ _ (hj a b ha hb h hpb hc)
    obtain ⟨Dd2, B2, inv2, hj2, chk2⟩ := ih (by omega) _ Dd1 B1 inv1 hj1
    refine ⟨Dd2, B2, inv2, hj2, ?_⟩
    rw [Nat.succ_mul]
    omega

/-- a data edge is not implied by the other edges: a path from its source to its target in the
    graph without it would already have existed when it was inserted -/
theorem AInv.not_redundant (ctx : OrdCtx g ids) {st : AugSt} {Dd : List Edge} {k b : Nat}
    (inv : AInv g decls ids st Dd k b) {D1 D2 : List Edge} {e : Edge} (hsplit : Dd = D1 ++ e :: D2) :
    ¬ Reach ⟨g.n, g.edges ++ D1 ++ D2⟩ e.src e.tgt := by
  obtain ⟨h1, h2⟩ := inv.hist D1 e D2 hsplit
  have hsub : ∀ x y, IsEdge ⟨g.n, g.edges ++ D1 ++ D2⟩ x y → IsEdge st.g x y := by
    rintro x y ⟨e', hm, hs, ht⟩
    refine ⟨e', ?_, hs, ht⟩
    rw [inv.edges, hsplit]
    simp only [List.mem_append, List.mem_cons] at hm ⊢
    rcases hm with (h | h) | h
    · exact Or.inl h
    · exact Or.inr (Or.inl h)
    · exact Or.inr (Or.inr (Or.inr h))
  have hfwd : ∀ x y, IsEdge ⟨g.n, g.edges ++ D1 ++ D2⟩ x y → idxOf ids x < idxOf ids y :=
    fun x y he => inv.fwd ctx (hsub x y he)
  have key : ∀ s y, Reach ⟨g.n, g.edges ++ D1 ++ D2⟩ s y → s = e.src → idxOf ids y ≤ idxOf ids e.tgt →
      Reach ⟨g.n, g.edges ++ D1⟩ s y := by
    intro s y hr
    induction hr with
    | refl => intro _ _; exact Reach.refl _
    | @tail w y hr he ih =>
      intro hs hy
      have hwy := hfwd _ _ he
      have h3 := ih hs (by omega)
      have hsw := reach_numbering (idxOf ids) hfwd hr
      obtain ⟨e', hm, rfl, rfl⟩ := he
      simp only [List.mem_append] at hm
      rcases hm with hm | hm
      · exact Reach.tail h3 ⟨e', by simpa using hm, rfl, rfl⟩
      · exfalso
        subst hs
        rcases h2 e' hm with h | ⟨_, h⟩
        · omega
        · omega
  exact fun hr => h1 (key _ _ hr rfl (Nat.le_refl _))

end
end FG
