/-
  Proofs/WStep.lean — every micro step of the interruptible stream preserves the simulation
  relation `MITr` of `Proofs/WSim.lean`; hence every reachable micro state is simulated by an
  atomic run.
-/
import FnGraphVerif.Proofs.WSim
namespace FG

variable {c : Cfg} {x x' : MIState}

/-! ### `check` -/

theorem mitr_check (h : MITr c x) (hs : mistep? c x .check = some x') : MITr c x' := by
  obtain ⟨s, seen, n, last, hg, hsim⟩ := h
  simp only [mistep?] at hs
  split at hs
  · rename_i hgd
    obtain ⟨hw0, hsd⟩ := hgd
    cases hsim with
    | idle _ w hms hseen hn hret =>
      have him : x.m.s.im = s.im := by rw [hms]; rfl
      have hsd' : s.streamDropped = false := by rw [hms] at hsd; exact hsd
      rw [him] at hs
      split at hs
      · rename_i hpi
        cases hs
        refine ⟨s, seen, n, last, hg, MITrS.checked rfl false w ⟨hsd', hpi⟩ ?_ hseen ?_ hn hret⟩
        · rw [hms]; rfl
        · show x.sigSeen = (x.sigSeen || false)
          simp
      · rename_i hpi
        have hpi : pollsInner c.strat s.im = false := by simpa using hpi
        cases hs
        obtain ⟨e1, _⟩ := sipoll_outer c true s hpi
        have hy : (sipoll c true s).1.yielded = s.yielded := by rw [e1]
        have hg' := hg.poll hsd'
        rw [hy] at hg'
        have e2 : (n + if seen = true then s.yielded.length - s.yielded.length else 0) = n := by simp
        rw [e2] at hg'
        refine ⟨_, seen, n, _, hg', MITrS.idle hw0 false ?_ hseen hn ?_⟩
        · rw [hms, e1]
          rfl
        · rw [sipoll_ans_outer c s hpi]
    | checked hw => rw [hw0] at hw; cases hw
    | draining hw => rw [hw0] at hw; cases hw
    | ready hw => rw [hw0] at hw; cases hw
    | returned hw => rw [hw0] at hw; cases hw
  · cases hs

/-! ### `pollBegin` -/

theorem mitr_pollBegin (h : MITr c x) (hs : mistep? c x .pollBegin = some x') : MITr c x' := by
  obtain ⟨s, seen, n, last, hg, hsim⟩ := h
  simp only [mistep?] at hs
  split at hs
  · rename_i hw0
    split at hs
    · rename_i m' hm
      cases hs
      simp only [mstep?] at hm
      split at hm
      · cases hm
        cases hsim with
        | checked _ p w hf hms hseen hsig hn hret =>
          refine ⟨s, seen, n, last, hg, MITrS.draining rfl rfl p _ false hf (RelStar.refl _) ?_ hseen hsig hn hret⟩
          rw [hms]
          rfl
        | idle hw => rw [hw0] at hw; cases hw
        | draining hw => rw [hw0] at hw; cases hw
        | ready hw => rw [hw0] at hw; cases hw
        | returned hw => rw [hw0] at hw; cases hw
      · cases hm
    · cases hs
  · cases hs

/-! ### `drainStep` -/

theorem mitr_drainStep (h : MITr c x) (hs : mistep? c x .drainStep = some x') : MITr c x' := by
  obtain ⟨s, seen, n, last, hg, hsim⟩ := h
  simp only [mistep?] at hs
  split at hs
  · rename_i hw0
    split at hs
    · rename_i m' hm
      cases hs
      simp only [mstep?] at hm
      split at hm
      · rename_i hpc0
        cases hsim with
        | draining _ _ p a w hf hrel hms hseen hsig hn hret =>
          have hq : x.m.s.doneQ = a.doneQ := by rw [hms]; rfl
          split at hm
          · -- one more iteration of the drain loop
            rename_i y rest hy
            cases hm
            refine ⟨s, seen, n, last, hg, MITrS.draining hw0 hpc0 p (sRelease c a y rest) w hf
              (RelStar.step hrel (hq ▸ hy)) ?_ hseen hsig hn hret⟩
            show sRelease c x.m.s y rest = _
            rw [hms, adj_sRelease]
          · -- the done channel is empty: the atomic poll happens here
            rename_i hy
            cases hm
            have haq : a.doneQ = [] := hq ▸ hy
            have hdr : sDrain c (s.doneQ.length + 1) { s with wake := false } = sReg a := hrel.drain_nil haq
            have hpoll := sipoll_eq_finS c s hf.polls
            rw [hdr] at hpoll
            have hfr := hrel.frame
            have hms' : (if x.m.s.doneSenders = true then { x.m.s with doneRxWaker := true } else x.m.s) =
                adj (sReg a) w (sentOr (interruptCheck c.strat s.im) p) := by
              show sReg x.m.s = _
              rw [hms, adj_sReg]
            have hg1 := hg.poll hf.notDropped
            -- the yield of the atomic poll is the pending yield of the micro poll
            have hyl : (sipoll c true s).1.yielded.length - s.yielded.length =
                (sReadyHalf (adj (sReg a) w (sentOr (interruptCheck c.strat s.im) p))).1.yielded.length -
                  (adj (sReg a) w (sentOr (interruptCheck c.strat s.im) p)).yielded.length := by
              have e1 : s.yielded = (sReg a).yielded := by
                have : (sReg a).yielded = a.yielded := by
                  unfold sReg; split <;> rfl
                rw [this, hfr.2.2.2.2]
              rw [hpoll, e1, adj_sReadyHalf]
              have : (finS { sReg a with im := interruptCheck c.strat s.im }).yielded = (sReadyHalf (sReg a)).1.yielded := by
                unfold finS
                rw [sReadyHalf_setIm]
              rw [this]
              rfl
            have hans : (sipoll c true s).2 =
                ((pollNextPost (interruptCheck c.strat s.im) (underOf (sReadyHalf (sReg a)).2)).2,
                  itemOf (sReadyHalf (sReg a)).2) := by
              rw [sipoll_ans_inner c s hf.polls, spoll_eq, hdr]
            cases p with
            | false =>
              refine ⟨_, seen, _, _, hg1, MITrS.ready hw0 rfl w ?_ ?_ ?_ ?_⟩
              · show finS (if x.m.s.doneSenders = true then { x.m.s with doneRxWaker := true } else x.m.s) = _
                rw [hms', hpoll]
                exact finS_adj _ _ _
              · show seen = x.sigSeen
                rw [hsig, hseen]; simp
              · show _ = x.yAfter + if x.pollSeen = true then
                  (sReadyHalf (if x.m.s.doneSenders = true then { x.m.s with doneRxWaker := true } else x.m.s)).1.yielded.length
                    - (if x.m.s.doneSenders = true then { x.m.s with doneRxWaker := true } else x.m.s).yielded.length else 0
                rw [hms', ← hyl, hn, hseen]
              · show some (sipoll c true s).2 = some ((pollNextPost
                    (if x.m.s.doneSenders = true then { x.m.s with doneRxWaker := true } else x.m.s).im
                    (underOf (sReadyHalf (if x.m.s.doneSenders = true then { x.m.s with doneRxWaker := true } else x.m.s)).2)).2,
                  itemOf (sReadyHalf (if x.m.s.doneSenders = true then { x.m.s with doneRxWaker := true } else x.m.s)).2)
                rw [hms', hans, adj_sReadyHalf]
                rfl
            | true =>
              refine ⟨_, true, _, _, hg1.interrupt, MITrS.ready hw0 rfl w ?_ ?_ ?_ ?_⟩
              · show finS (if x.m.s.doneSenders = true then { x.m.s with doneRxWaker := true } else x.m.s) = _
                rw [hms', hpoll]
                have e := finS_sent (adj (sReg a) w (interruptCheck c.strat s.im))
                have e' : ({ adj (sReg a) w (interruptCheck c.strat s.im) with
                    im := { (adj (sReg a) w (interruptCheck c.strat s.im)).im with sent := true } } : SState) =
                    adj (sReg a) w (sentOr (interruptCheck c.strat s.im) true) := rfl
                rw [e'] at e
                rw [e, finS_adj]
                rfl
              · show true = x.sigSeen
                rw [hsig]; simp
              · show _ = x.yAfter + if x.pollSeen = true then
                  (sReadyHalf (if x.m.s.doneSenders = true then { x.m.s with doneRxWaker := true } else x.m.s)).1.yielded.length
                    - (if x.m.s.doneSenders = true then { x.m.s with doneRxWaker := true } else x.m.s).yielded.length else 0
                rw [hms', ← hyl, hn, hseen]
              · show some (sipoll c true s).2 = some ((pollNextPost
                    (if x.m.s.doneSenders = true then { x.m.s with doneRxWaker := true } else x.m.s).im
                    (underOf (sReadyHalf (if x.m.s.doneSenders = true then { x.m.s with doneRxWaker := true } else x.m.s)).2)).2,
                  itemOf (sReadyHalf (if x.m.s.doneSenders = true then { x.m.s with doneRxWaker := true } else x.m.s)).2)
                rw [hms', hans, adj_sReadyHalf]
                show _ = some ((pollNextPost { interruptCheck c.strat s.im with sent := true } _).2, _)
                rw [pollNextPost_sent]
        | idle hw => rw [hw0] at hw; cases hw
        | checked hw => rw [hw0] at hw; cases hw
        | ready _ hpc => rw [hpc0] at hpc; cases hpc
        | returned hw => rw [hw0] at hw; cases hw
      · cases hm
    · cases hs
  · cases hs

/-! ### `readyStep`, `finish` -/

theorem mitr_readyStep (h : MITr c x) (hs : mistep? c x .readyStep = some x') : MITr c x' := by
  obtain ⟨s, seen, n, last, hg, hsim⟩ := h
  simp only [mistep?] at hs
  split at hs
  · rename_i hw0
    split at hs
    · rename_i m' hm
      cases hs
      simp only [mstep?] at hm
      split at hm
      · rename_i hpc0
        cases hm
        cases hsim with
        | ready _ _ w hms hseen hn hret =>
          refine ⟨s, seen, n, last, hg, MITrS.returned rfl (sReadyHalf x.m.s).2 rfl w ?_ hseen hn ?_⟩
          · exact (finR_readyStep x.m.s).trans hms
          · show last = some ((pollNextPost (sReadyHalf x.m.s).1.im _).2, _)
            rw [sReadyHalf_im]
            exact hret
        | idle hw => rw [hw0] at hw; cases hw
        | checked hw => rw [hw0] at hw; cases hw
        | draining _ hpc => rw [hpc0] at hpc; cases hpc
        | returned hw => rw [hw0] at hw; cases hw
      · cases hm
    · cases hs
  · cases hs

theorem mitr_finish (h : MITr c x) (hs : mistep? c x .finish = some x') : MITr c x' := by
  obtain ⟨s, seen, n, last, hg, hsim⟩ := h
  simp only [mistep?] at hs
  split at hs
  · rename_i hw0
    split at hs
    · rename_i r0 hr0
      cases hs
      cases hsim with
      | returned _ r hr w hms hseen hn hret =>
        rw [hr0] at hr
        cases hr
        exact ⟨s, seen, n, last, hg, MITrS.idle rfl w hms hseen hn hret.symm⟩
      | idle hw => rw [hw0] at hw; cases hw
      | checked hw => rw [hw0] at hw; cases hw
      | draining hw => rw [hw0] at hw; cases hw
      | ready hw => rw [hw0] at hw; cases hw
    · cases hs
  · cases hs

/-! ### `drop` -/

theorem adj_sdrop_some {c : Cfg} {s t' : SState} {w : Bool} {i : IM} {f : Nat}
    (h : sdrop c (adj s w i) f = some t') : ∃ s', sdrop c s f = some s' ∧ t' = adj s' w i := by
  rw [adj_sdrop] at h
  cases hd : sdrop c s f with
  | none => rw [hd] at h; cases h
  | some s' =>
    rw [hd] at h
    simp only [Option.map_some, Option.some.injEq] at h
    exact ⟨s', rfl, h.symm⟩

theorem mitr_drop (hc : GoodCfg c) {f : Nat} (h : MITr c x) (hs : mistep? c x (.drop f) = some x') :
    MITr c x' := by
  obtain ⟨s, seen, n, last, hg, hsim⟩ := h
  simp only [mistep?] at hs
  split at hs
  · rename_i m' hm
    cases hs
    simp only [mstep?] at hm
    split at hm
    · rename_i t' hd
      cases hm
      cases hsim with
      | idle hw w hms hseen hn hret =>
        rw [hms] at hd
        obtain ⟨s', hd', rfl⟩ := adj_sdrop_some hd
        have him := sdrop_im hd'
        refine ⟨s', seen, n, last, hg.drop hd', MITrS.idle hw w ?_ hseen hn hret⟩
        show adj s' w s.im = _
        rw [him]
      | checked hw p w hf hms hseen hsig hn hret =>
        rw [hms] at hd
        obtain ⟨s', hd', rfl⟩ := adj_sdrop_some hd
        have him := sdrop_im hd'
        have hsd := (sdrop_frame hd').1
        refine ⟨s', seen, n, last, hg.drop hd', MITrS.checked hw p w ⟨hsd.trans hf.notDropped, him ▸ hf.polls⟩ ?_
          hseen hsig hn hret⟩
        show adj s' w (sentOr (interruptCheck c.strat s.im) p) = _
        rw [him]
      | draining hw hpc p a w hf hrel hms hseen hsig hn hret =>
        rw [hms] at hd
        obtain ⟨a', hda, rfl⟩ := adj_sdrop_some hd
        have hfr := hrel.frame
        have hfa : f ∈ a.live := sdrop_mem hda
        have hfs : f ∈ s.live := by rw [hfr.1] at hfa; exact hfa
        have hcore := (sinv_reachable hc hg.reachable).core
        have hroom : s.doneQ.length < c.cap := hcore.doneRoom hfs
        have hds : sdrop c s f = some (adj (dropNW s f) s.doneRxWaker s.im) :=
          sdrop_sent hfs hf.notDropped hroom
        have hda' : sdrop c a f = some (adj (dropNW a f) a.doneRxWaker a.im) :=
          sdrop_sent hfa (hfr.2.1.trans hf.notDropped) (Nat.lt_of_le_of_lt hfr.2.2.2.1 hroom)
        rw [hda'] at hda
        cases hda
        refine ⟨_, seen, n, last, hg.drop hds, MITrS.draining hw hpc p (dropNW a f) (a.doneRxWaker || w)
          ⟨hf.notDropped, hf.polls⟩ ?_ ?_ hseen hsig hn hret⟩
        · exact hrel.dropNW f
        · show adj (adj (dropNW a f) a.doneRxWaker a.im) w _ = _
          rw [adj_adj]
          rfl
      | ready hw hpc w hms hseen hn hret =>
        have h1 := finS_sdrop hd
        rw [hms] at h1
        obtain ⟨s', hd', h2⟩ := adj_sdrop_some h1
        have him := sdrop_im hd'
        obtain ⟨h3, h4⟩ := sReadyHalf_sdrop hd
        have hy1 : (sReadyHalf t').1.yielded = (sReadyHalf x.m.s).1.yielded := (sdrop_frame h3).2.2.2.2.1
        have hy2 : t'.yielded = x.m.s.yielded := (sdrop_frame hd).2.2.2.2.1
        refine ⟨s', seen, n, last, hg.drop hd', MITrS.ready hw hpc w ?_ hseen ?_ ?_⟩
        · show finS t' = adj s' w s'.im
          rw [h2, him]
        · show n = x.yAfter + if x.pollSeen = true then (sReadyHalf t').1.yielded.length - t'.yielded.length else 0
          rw [hy1, hy2]
          exact hn
        · show last = some ((pollNextPost t'.im (underOf (sReadyHalf t').2)).2, itemOf (sReadyHalf t').2)
          rw [h4, sdrop_im hd]
          exact hret
      | returned hw r hr w hms hseen hn hret =>
        have h1 := finR_sdrop r hd
        rw [hms] at h1
        obtain ⟨s', hd', h2⟩ := adj_sdrop_some h1
        have him := sdrop_im hd'
        refine ⟨s', seen, n, last, hg.drop hd', MITrS.returned hw r hr w ?_ hseen hn ?_⟩
        · show finR t' r = adj s' w s'.im
          rw [h2, him]
        · show last = some ((pollNextPost t'.im (underOf r)).2, itemOf r)
          rw [sdrop_im hd]
          exact hret
    · cases hm
  · cases hs

/-! ### `dropStream` -/

theorem mitr_dropStream (h : MITr c x) (hs : mistep? c x .dropStream = some x') : MITr c x' := by
  obtain ⟨s, seen, n, last, hg, hsim⟩ := h
  simp only [mistep?] at hs
  split at hs
  · rename_i hw0
    split at hs
    · rename_i m' hm
      cases hs
      simp only [mstep?] at hm
      split at hm
      · rename_i hgd
        cases hm
        cases hsim with
        | idle _ w hms hseen hn hret =>
          have hsd : s.streamDropped = false := by
            have := hgd.2
            rw [hms] at this
            exact this
          refine ⟨sdropStream s, seen, n, last, hg.dropStream hsd, MITrS.idle hw0 w ?_ hseen hn hret⟩
          show sdropStream x.m.s = _
          rw [hms]
          rfl
        | checked hw => rw [hw0] at hw; cases hw
        | draining hw => rw [hw0] at hw; cases hw
        | ready hw => rw [hw0] at hw; cases hw
        | returned hw => rw [hw0] at hw; cases hw
      · cases hm
    · cases hs
  · cases hs

/-! ### `interrupt` -/

theorem mitr_interrupt (h : MITr c x) (hs : mistep? c x .interrupt = some x') : MITr c x' := by
  obtain ⟨s, seen, n, last, hg, hsim⟩ := h
  simp only [mistep?, Option.some.injEq] at hs
  subst hs
  cases hsim with
  | idle hw w hms hseen hn hret =>
    refine ⟨_, true, n, last, hg.interrupt, MITrS.idle hw w ?_ rfl hn hret⟩
    rw [hms]
    rfl
  | checked hw p w hf hms hseen hsig hn hret =>
    refine ⟨s, seen, n, last, hg, MITrS.checked hw true w hf ?_ hseen ?_ hn hret⟩
    · rw [hms]
      show adj s w { sentOr (interruptCheck c.strat s.im) p with sent := true } = _
      rw [sentOr_sent]
    · show true = (x.pollSeen || true)
      simp
  | draining hw hpc p a w hf hrel hms hseen hsig hn hret =>
    refine ⟨s, seen, n, last, hg, MITrS.draining hw hpc true a w hf hrel ?_ hseen ?_ hn hret⟩
    · rw [hms]
      show adj a w { sentOr (interruptCheck c.strat s.im) p with sent := true } = _
      rw [sentOr_sent]
    · show true = (x.pollSeen || true)
      simp
  | ready hw hpc w hms hseen hn hret =>
    refine ⟨_, true, n, last, hg.interrupt, MITrS.ready hw hpc w ?_ rfl ?_ ?_⟩
    · show finS { x.m.s with im := { x.m.s.im with sent := true } } = _
      rw [finS_sent, hms]
      rfl
    · show n = x.yAfter + if x.pollSeen = true then
        (sReadyHalf { x.m.s with im := { x.m.s.im with sent := true } }).1.yielded.length - x.m.s.yielded.length else 0
      rw [sReadyHalf_setIm]
      exact hn
    · show last = some ((pollNextPost { x.m.s.im with sent := true }
          (underOf (sReadyHalf { x.m.s with im := { x.m.s.im with sent := true } }).2)).2,
        itemOf (sReadyHalf { x.m.s with im := { x.m.s.im with sent := true } }).2)
      rw [sReadyHalf_setIm, pollNextPost_sent]
      exact hret
  | returned hw r hr w hms hseen hn hret =>
    refine ⟨_, true, n, last, hg.interrupt, MITrS.returned hw r hr w ?_ rfl hn ?_⟩
    · show finR { x.m.s with im := { x.m.s.im with sent := true } } r = _
      rw [finR_sent, hms]
      rfl
    · show last = some ((pollNextPost { x.m.s.im with sent := true } (underOf r)).2, itemOf r)
      rw [pollNextPost_sent]
      exact hret

/-! ### every reachable micro state is simulated -/

theorem mitr_step (hc : GoodCfg c) {a : MIAction} (h : MITr c x) (hs : mistep? c x a = some x') : MITr c x' := by
  cases a with
  | check => exact mitr_check h hs
  | pollBegin => exact mitr_pollBegin h hs
  | drainStep => exact mitr_drainStep h hs
  | readyStep => exact mitr_readyStep h hs
  | finish => exact mitr_finish h hs
  | drop f => exact mitr_drop hc h hs
  | dropStream => exact mitr_dropStream h hs
  | interrupt => exact mitr_interrupt h hs

theorem mitr_reachable (hc : GoodCfg c) (hr : MIReachable c x) : MITr c x := by
  induction hr with
  | init => exact mitr_init c
  | step a _ hs ih => exact mitr_step hc ih hs

end FG
