/-
  Proofs/RStep.lean — every step of the stream model preserves the coupling `SCpl`, and the notes
  `predStream` emits on the event of that step all hold.
-/
import FnGraphVerif.Proofs.RPred
namespace FG

variable {x : MonCtx} {s : SState} {m : SPredSt}

theorem scpl_intr (h : SCpl x s m) :
    SCpl x { s with im := { s.im with sent := true } } (predStream x false m .intr).1 ∧
    (predStream x false m .intr).2 = [] := by
  refine ⟨?_, rfl⟩
  exact
    { reach := SReachable.step .interrupt h.reach rfl
      yielded := h.yielded, live := h.live, dropped := h.dropped, lastPending := h.lastPending,
      sd := h.sd, wake := h.wake, ghost := ghost_intr h.ghost h.yielded }

theorem scpl_aborted (h : SCpl x s m) (hsd : s.streamDropped = false) :
    SCpl x (sdropStream s) (predStream x false m .aborted).1 ∧
    (predStream x false m .aborted).2 = [] := by
  refine ⟨?_, rfl⟩
  exact
    { reach := SReachable.step .dropStream h.reach (by simp [sstep?, hsd])
      yielded := h.yielded, live := h.live, dropped := h.dropped, lastPending := h.lastPending,
      sd := rfl, wake := h.wake,
      ghost := ghost_other h.ghost rfl rfl rfl rfl rfl }

theorem scpl_drop (hx : GoodCtx x) (h : SCpl x s m) {f : Nat} {s1 : SState} (hd : sdrop x.c s f = some s1) :
    SCpl x s1 (predStream x false m
      (.drop f (s.doneRxWaker && !s.streamDropped && decide (s.doneQ.length < x.c.cap)))).1 ∧
    ∀ n ∈ (predStream x false m
      (.drop f (s.doneRxWaker && !s.streamDropped && decide (s.doneQ.length < x.c.cap)))).2, n.ok = true := by
  have hr1 : SReachable x.c true s1 := SReachable.step (.drop f) h.reach hd
  -- the shape of `s1`
  have hs1 : s1.yielded = s.yielded ∧ s1.live = s.live.erase f ∧ s1.droppedRefs = s.droppedRefs ++ [f] ∧
      s1.streamDropped = s.streamDropped ∧ s1.lastPending = s.lastPending ∧ s1.im = s.im ∧
      s1.wake = (s.wake || (s.doneRxWaker && !s.streamDropped && decide (s.doneQ.length < x.c.cap))) := by
    rw [sdrop_eq] at hd
    split at hd
    · cases hd
    · split at hd
      · rename_i hcond
        cases hd
        refine ⟨rfl, rfl, rfl, rfl, rfl, rfl, ?_⟩
        show s.wake = _
        rcases Bool.or_eq_true_iff.mp hcond with h1 | h1
        · simp [h1]
        · have : ¬ s.doneQ.length < x.c.cap := by have := of_decide_eq_true h1; omega
          simp [this]
      · rename_i hcond
        cases hd
        refine ⟨rfl, rfl, rfl, rfl, rfl, rfl, ?_⟩
        show (s.wake || s.doneRxWaker) = _
        simp only [Bool.or_eq_true, decide_eq_true_eq, not_or, Bool.not_eq_true, Nat.not_le] at hcond
        simp [hcond.1, hcond.2]
  obtain ⟨e1, e2, e3, e4, e5, e6, e7⟩ := hs1
  generalize (s.doneRxWaker && !s.streamDropped && decide (s.doneQ.length < x.c.cap)) = w at e7 ⊢
  have hwake : m.lastPending = true → (m.wokenSincePoll || w) = s1.wake := by
    intro hp; rw [e7, h.wake hp]
  constructor
  · exact
      { reach := hr1
        yielded := by rw [e1]; exact h.yielded
        live := by rw [e2, ← h.live]; rfl
        dropped := by rw [e3, ← h.dropped]; rfl
        lastPending := by rw [e5]; exact h.lastPending
        sd := by rw [e4]; exact h.sd
        wake := hwake
        ghost := ghost_other h.ghost e6 e1 rfl rfl rfl }
  · intro n hn
    have hnotes : (predStream x false m (.drop f w)).2 =
        if m.lastPending && !m.streamDropped then
          [.prop "C05" ((Ev.drop f w).text ++ " wake-after-drop")
            ((m.wokenSincePoll || w) || allBlockedB x.c m.yielded (m.droppedRefs ++ [f]))]
          ++ (if m.yieldedAtIntr.isSome then [] else
                [.prop "C03" ((Ev.drop f w).text ++ " clean stream parked for good")
                  ((m.wokenSincePoll || w) || allBlockedB x.c m.yielded (m.droppedRefs ++ [f]))])
          ++ (if x.interruptible then [] else
                [.prop "C06" ((Ev.drop f w).text ++ " idle with a released function unstarted")
                  ((m.wokenSincePoll || w) || allBlockedB x.c m.yielded (m.droppedRefs ++ [f]))])
        else [] := rfl
    rw [hnotes] at hn
    split at hn
    · rename_i hcond
      simp only [Bool.and_eq_true, Bool.not_eq_true'] at hcond
      have hok : ((m.wokenSincePoll || w) || allBlockedB x.c m.yielded (m.droppedRefs ++ [f])) = true → n.ok = true := by
        intro hv
        simp only [List.mem_append, List.mem_singleton] at hn
        rcases hn with (hn | hn) | hn
        · subst hn; exact hv
        · split at hn
          · cases hn
          · simp only [List.mem_singleton] at hn; subst hn; exact hv
        · split at hn
          · cases hn
          · simp only [List.mem_singleton] at hn; subst hn; exact hv
      apply hok
      rw [hwake hcond.1, h.yielded, h.dropped, ← e1, ← e3]
      cases hw : s1.wake with
      | true => rfl
      | false =>
        apply allBlockedB_of_not_needsPoll
        intro hnp
        have := no_lost_wakeup hx.good hr1 (by rw [e4, ← h.sd]; exact hcond.2)
          (by rw [e5, ← h.lastPending]; exact hcond.1) hnp
        rw [hw] at this; cases this
    · cases hn

/-- the underlying stream ends only after everything was yielded (any strategy) -/
theorem spoll_none_all {c : Cfg} (hc : GoodCfg c) {s : SState} (hr : SReachable c true s)
    (h : (spoll c true s).2 = .none) : s.yielded.length = c.n := by
  have hi := (sinv_reachable hc hr).core
  obtain ⟨d, _, hso, _, _, _, heq⟩ := spoll_cases hc hi
  rw [heq, (spollTail_facts d).2.2.1, hso.txOpen] at h
  have h0 : s.fnsRemaining = 0 := by
    apply Classical.byContradiction
    intro hne
    rw [hi.tx.mpr hne] at h; cases h
  have := hi.rem
  omega

theorem sipollUnder_none {c : Cfg} {s : SState} (h : sipollUnder c true s = .none) :
    (spoll c true s).2 = .none := by
  unfold sipollUnder at h
  split at h
  · revert h
    cases (spoll c true s).2 <;> simp [PollRes.under]
  · cases h

theorem transparentOut_endd {u : Under} (h : transparentOut u = .endd) : u = .none := by
  cases u <;> simp_all [transparentOut]

/-- the notes of a yield -/
theorem yield_notes (hx : GoodCtx x) (h : SCpl x s m) {f : Nat} {s1 : SState} (hr1 : SReachable x.c true s1)
    (k1 : s1.yielded = s.yielded ++ [f]) (k2 : s1.live = s.live ++ [f]) (k3 : s1.droppedRefs = s.droppedRefs)
    {m1 : SPredSt} (hg : Ghost x.c.strat s1 m1) (g1 : m1.yieldedAtIntr = m.yieldedAtIntr)
    (g2 : m1.intrPre = m.intrPre) :
    (decide (f ∉ m.yielded) = true) ∧
    ((!conflictInflightB x.decls m.live f) = true) ∧
    ((List.range (if x.rev then x.userD.flip else x.userD).n).all
      (fun u => !reachPlus (if x.rev then x.userD.flip else x.userD) u f || decide (u ∈ m.droppedRefs)) = true) ∧
    ((parents x.c.D f).all (fun p => decide (p ∈ m.droppedRefs)) = true) ∧
    (decide (m.yielded.length < x.c.n) = true) ∧
    (∀ k0 b, m.yieldedAtIntr = some k0 → boundOf x.c.strat true m.intrPre = some b →
      decide (m.yielded.length + 1 - k0 ≤ b) = true) := by
  have hi1 := (sinv_reachable hx.good hr1).core
  have hnd : (s.yielded ++ [f]).Nodup := by
    have := (List.nodup_append.mp hi1.queueNodup).2.1
    rwa [k1] at this
  have hfy : f ∉ s.yielded := (nodup_snoc.mp hnd).2
  have hfy1 : f ∈ s1.yielded := by rw [k1]; simp
  have hfl1 : f ∈ s1.live := by rw [k2]; simp
  have hanc : ∀ u, ReachP x.c.D u f → u ∈ m.droppedRefs := by
    intro u hu
    rw [h.dropped, ← k3]
    exact (stream_yield_after_ancestors hx.good hr1 (Or.inr hfy1) hu).1
  refine ⟨?_, ?_, ?_, ?_, ?_, ?_⟩
  · rw [h.yielded]; simpa using hfy
  · rw [Bool.not_eq_true', conflictInflightB, List.any_eq_false]
    intro u hu hcon
    simp only [Bool.and_eq_true, bne_iff_ne, ne_eq] at hcon
    rw [h.live] at hu
    have hul1 : u ∈ s1.live := by rw [k2]; exact List.mem_append_left _ hu
    have hun : u < x.c.n := hi1.bound u (Or.inr (hi1.liveYielded u hul1))
    have hfn : f < x.c.n := hi1.bound f (Or.inr hfy1)
    rcases hx.ordered u f hun hfn hcon.1 hcon.2 with hr | hr
    · exact stream_no_ancestor_live hx.good hr1 hul1 hfl1 hr
    · exact stream_no_ancestor_live hx.good hr1 hfl1 hul1 hr
  · rw [List.all_eq_true]
    intro u _
    cases hrp : reachPlus (if x.rev then x.userD.flip else x.userD) u f with
    | false => rfl
    | true =>
      have := hanc u (ReachP.map_edges hx.userSub (reachPlus_sound_R hrp))
      simpa using this
  · rw [List.all_eq_true]
    intro p hp
    have := hanc p (ReachP.edge (mem_parents.mp hp))
    simpa using this
  · have hb : ∀ v ∈ s.yielded ++ [f], v < x.c.n := fun v hv => hi1.bound v (Or.inr (k1 ▸ hv))
    have := nodup_bounded_length hnd hb
    rw [List.length_append, List.length_singleton] at this
    rw [h.yielded]
    simp only [decide_eq_true_eq]
    omega
  · intro k0 b hk hb
    have := ghost_bound hg (g1.trans hk) (g2 ▸ hb)
    rw [k1, List.length_append, List.length_singleton] at this
    rw [h.yielded]
    simp only [decide_eq_true_eq]
    omega

theorem yield_step (hx : GoodCtx x) (h : SCpl x s m) {f : Nat} {s1 : SState} (hr1 : SReachable x.c true s1)
    (hs1 : s1 = (sipoll x.c true s).1)
    (k1 : s1.yielded = s.yielded ++ [f]) (k2 : s1.live = s.live ++ [f]) (k3 : s1.droppedRefs = s.droppedRefs)
    (k4 : s1.streamDropped = s.streamDropped) (k5 : s1.lastPending = false)
    {r : PollObs} (hr : r = .some f ∨ r = .isome f) :
    SCpl x s1 (predStream x false m (.poll r)).1 ∧ ∀ n ∈ (predStream x false m (.poll r)).2, n.ok = true := by
  have hg : Ghost x.c.strat s1 (predStream x false m (.poll r)).1 := by
    rw [hs1]
    rcases hr with rfl | rfl <;> exact ghost_poll h.ghost rfl rfl rfl
  have g1 : (predStream x false m (.poll r)).1.yieldedAtIntr = m.yieldedAtIntr := by
    rcases hr with rfl | rfl <;> rfl
  have g2 : (predStream x false m (.poll r)).1.intrPre = m.intrPre := by
    rcases hr with rfl | rfl <;> rfl
  obtain ⟨n1, n2, n3, n4, n5, n6⟩ := yield_notes hx h hr1 k1 k2 k3 hg g1 g2
  constructor
  · rcases hr with rfl | rfl <;> exact
      { reach := hr1
        yielded := by rw [k1, ← h.yielded]; rfl
        live := by rw [k2, ← h.live]; rfl
        dropped := by rw [k3]; exact h.dropped
        lastPending := by rw [k5]; rfl
        sd := by rw [k4]; exact h.sd
        wake := fun hp => by cases hp
        ghost := hg }
  · intro n hn
    have hnotes : (predStream x false m (.poll r)).2 =
        [.prop "C03" (Ev.poll r).text (decide (f ∉ m.yielded)),
         .prop "C01" (Ev.poll r).text (!conflictInflightB x.decls m.live f),
         .prop "C02" (Ev.poll r).text ((List.range (if x.rev then x.userD.flip else x.userD).n).all
            (fun u => !reachPlus (if x.rev then x.userD.flip else x.userD) u f || decide (u ∈ m.droppedRefs))),
         .prop "C01" ((Ev.poll r).text ++ " (built-graph predecessors)")
            ((parents x.c.D f).all (fun p => decide (p ∈ m.droppedRefs))),
         .prop "C05" ((Ev.poll r).text ++ " not-after-end") (decide (m.yielded.length < x.c.n))]
        ++ (match m.yieldedAtIntr, boundOf x.c.strat true m.intrPre with
            | some k0, some b =>
              if x.interruptible then [.prop "C08" (Ev.poll r).text (decide (m.yielded.length + 1 - k0 ≤ b))] else []
            | _, _ => []) := by
      rcases hr with rfl | rfl <;> rfl
    rw [hnotes] at hn
    rcases List.mem_append.mp hn with hn | hn
    · simp only [List.mem_cons, List.not_mem_nil, or_false] at hn
      rcases hn with rfl | rfl | rfl | rfl | rfl
      · exact n1
      · exact n2
      · exact n3
      · exact n4
      · exact n5
    · split at hn
      · rename_i k0 b hk hb
        split at hn
        · simp only [List.mem_singleton] at hn
          subst hn
          exact n6 k0 b hk hb
        · cases hn
      · cases hn

theorem scpl_poll (hx : GoodCtx x) (h : SCpl x s m) (hsd : s.streamDropped = false)
    (hpl : x.interruptible = false → (x.c.strat = .non ∨ x.c.strat = .ignore) ∨ m.yieldedAtIntr = none) :
    SCpl x (sipoll x.c true s).1 (predStream x false m
      (.poll (pollObsOf (sipoll x.c true s).2.1 (sipoll x.c true s).2.2 (sipoll x.c true s).1.wake))).1 ∧
    ∀ n ∈ (predStream x false m
      (.poll (pollObsOf (sipoll x.c true s).2.1 (sipoll x.c true s).2.2 (sipoll x.c true s).1.wake))).2,
      n.ok = true := by
  have hr1 : SReachable x.c true (sipoll x.c true s).1 :=
    SReachable.step .poll h.reach (by simp [sstep?, hsd])
  obtain ⟨ys, k1, k2, k3, k4, k5, hcase⟩ := sipoll_obs x.c true s
  rcases hcase with ⟨f, hy, _, ⟨ho, hr⟩ | ⟨ho, hr⟩⟩ | ⟨hy, ⟨ho, hr⟩ | ⟨ho, hr⟩ | ⟨ho, hr⟩⟩
  · subst hy
    rw [hr]
    exact yield_step hx h hr1 rfl k1 k2 k3 k4 (by rw [k5, ho]; rfl) (Or.inl rfl)
  · subst hy
    rw [hr]
    exact yield_step hx h hr1 rfl k1 k2 k3 k4 (by rw [k5, ho]; rfl) (Or.inr rfl)
  · -- Interrupted(None)
    subst hy
    rw [hr]
    rw [List.append_nil] at k1 k2
    refine ⟨?_, fun n hn => by cases hn⟩
    exact
      { reach := hr1
        yielded := by rw [k1]; exact h.yielded
        live := by rw [k2]; exact h.live
        dropped := by rw [k3]; exact h.dropped
        lastPending := by rw [k5, ho]; rfl
        sd := by rw [k4]; exact h.sd
        wake := fun hp => by cases hp
        ghost := ghost_poll h.ghost rfl rfl rfl }
  · -- None
    subst hy
    rw [hr]
    rw [List.append_nil] at k1 k2
    constructor
    · exact
        { reach := hr1
          yielded := by rw [k1]; exact h.yielded
          live := by rw [k2]; exact h.live
          dropped := by rw [k3]; exact h.dropped
          lastPending := by rw [k5, ho]; rfl
          sd := by rw [k4]; exact h.sd
          wake := fun hp => by cases hp
          ghost := ghost_poll h.ghost rfl rfl rfl }
    · intro n hn
      have hnotes : (predStream x false m (.poll .none)).2 =
          if x.interruptible && m.yieldedAtIntr.isSome then []
          else [.prop "C05" ((Ev.poll .none).text ++ " none-iff-all") (m.yielded.length == x.c.n)] := rfl
      rw [hnotes] at hn
      split at hn
      · cases hn
      · rename_i hcond
        simp only [List.mem_singleton] at hn
        subst hn
        show (m.yielded.length == x.c.n) = true
        have hc : (x.c.strat = .non ∨ x.c.strat = .ignore) ∨ m.yieldedAtIntr = none := by
          cases hi : x.interruptible with
          | false => exact hpl hi
          | true =>
            right
            rw [hi] at hcond
            cases hm : m.yieldedAtIntr with
            | none => rfl
            | some k => rw [hm] at hcond; simp at hcond
        have ht := ghost_transparent h.ghost hc (sipollUnder x.c true s)
        rw [← sipoll_out, ho] at ht
        have hu := transparentOut_endd ht.symm
        have := spoll_none_all hx.good h.reach (sipollUnder_none hu)
        rw [h.yielded, this]
        simp
  · -- Pending
    subst hy
    rw [hr]
    rw [List.append_nil] at k1 k2
    constructor
    · exact
        { reach := hr1
          yielded := by rw [k1]; exact h.yielded
          live := by rw [k2]; exact h.live
          dropped := by rw [k3]; exact h.dropped
          lastPending := by rw [k5, ho]; rfl
          sd := by rw [k4]; exact h.sd
          wake := fun _ => rfl
          ghost := ghost_poll h.ghost rfl rfl rfl }
    · have hblocked : (sipoll x.c true s).1.wake = false →
          allBlockedB x.c m.yielded m.droppedRefs = true := by
        intro hw
        rw [allBlockedB_iff, h.yielded, h.dropped, ← k1, ← k3]
        rcases pending_not_stalled hx.good h.reach hsd ho with h1 | h1
        · rw [hw] at h1; cases h1
        · intro v hv
          by_cases hvy : v ∈ (sipoll x.c true s).1.yielded
          · exact Or.inl hvy
          · exact Or.inr (h1 v hv hvy)
      intro n hn
      generalize (sipoll x.c true s).1.wake = w at hn hblocked
      have hnotes : (predStream x false m (.poll (.pending w))).2 =
          (if w then [] else [.prop "C05" (Ev.poll (.pending w)).text (allBlockedB x.c m.yielded m.droppedRefs)])
          ++ (if w || m.yieldedAtIntr.isSome then [] else
                [.prop "C03" ((Ev.poll (.pending w)).text ++ " clean stream can never yield the rest")
                  (allBlockedB x.c m.yielded m.droppedRefs)])
          ++ (if w || x.interruptible then [] else
                [.prop "C06" (Ev.poll (.pending w)).text (allBlockedB x.c m.yielded m.droppedRefs)]) := rfl
      rw [hnotes] at hn
      cases w with
      | true => simp at hn
      | false =>
        have hb := hblocked rfl
        simp only [Bool.false_eq_true, if_false, Bool.false_or, List.mem_append] at hn
        rcases hn with (hn | hn) | hn
        · simp only [List.mem_singleton] at hn; subst hn; exact hb
        · split at hn
          · cases hn
          · simp only [List.mem_singleton] at hn; subst hn; exact hb
        · split at hn
          · cases hn
          · simp only [List.mem_singleton] at hn; subst hn; exact hb

end FG
