/-
  Proofs/IntrMachine.lean — invariants of the `InterruptibleStream` machine (`Model/Interrupt.lean`)
  stated on raw components `(m, everSent, counters)` so that they can be reused by the ghost run of
  `Theorems/C08.lean`.
-/
import FnGraphVerif.Model.Interrupt
namespace FG

/-- the answer hands an item on: `NoInterrupt(item)` or `Interrupted(Some item)` -/
def Out.isItem : Out → Bool
  | .noInt => true
  | .intSome => true
  | _ => false

/-! ### `PollNextN(n)`, `n ≥ 1` -/

/-- invariant for `PollNextN(n)`, `n ≥ 1`; `y` = items handed on since the signal was sent -/
structure InvN (n : Nat) (m : IM) (es : Bool) (y : Nat) : Prop where
  notSent : es = false → m.recv = false ∧ m.sent = false
  sentEver : es = true → m.recv = true ∨ m.sent = true
  notRecv : m.recv = false → y = 0 ∧ m.cnt = 0 ∧ m.ipc = false
  ipcHp : m.ipc = true → m.hp = true
  hpY : m.hp = true → y ≤ m.cnt
  live : m.ian = false → m.sig = false ∧ m.cnt < n ∧ y ≤ m.cnt + 1
  bound : y ≤ n

theorem invN_init (n : Nat) (hn : 1 ≤ n) : InvN n {} false 0 := by
  constructor <;> simp <;> omega

theorem invN_signal {n : Nat} {m : IM} {es : Bool} {y : Nat} (h : InvN n m es y) :
    InvN n { m with sent := true } true y := by
  obtain ⟨sent, recv, cnt, sig, hp, ipc, ian⟩ := m
  obtain ⟨h1, h2, h3, h4, h5, h6, h7⟩ := h
  constructor <;> simp_all

theorem invN_poll {n : Nat} (hn : 1 ≤ n) {m : IM} {es : Bool} {y : Nat} (u : Under)
    (h : InvN n m es y) :
    InvN n (pollNext (.pollN n) m u).1 es
      (if es && (pollNext (.pollN n) m u).2.isItem then y + 1 else y) := by
  obtain ⟨sent, recv, cnt, sig, hp, ipc, ian⟩ := m
  obtain ⟨h1, h2, h3, h4, h5, h6, h7⟩ := h
  simp only at h1 h2 h3 h4 h5 h6 h7
  cases ian with
  | true => constructor <;> simp_all [pollNext, Out.isItem]
  | false =>
    obtain ⟨hsig, hcnt, hy⟩ := h6 rfl
    subst hsig
    cases ipc with
    | true =>
      have hhp := h4 rfl; subst hhp
      have hyc := h5 rfl
      have hrecv : recv = true := by
        cases recv with
        | true => rfl
        | false => exact absurd (h3 rfl).2.2 (by simp)
      subst hrecv
      have hes : es = true := by
        cases es with
        | true => rfl
        | false => exact absurd (h1 rfl).1 (by simp)
      subst hes
      cases u <;> constructor <;> simp [pollNext, interruptCheck, Out.isItem] <;> omega
    | false =>
      cases recv with
      | false =>
        obtain ⟨hy0, hc0, _⟩ := h3 rfl
        subst hy0; subst hc0
        cases sent with
        | false =>
          have hes : es = false := by
            cases es with
            | false => rfl
            | true => exact absurd (h2 rfl) (by simp)
          subst hes
          cases hp <;> cases u <;> constructor <;>
            simp [pollNext, interruptCheck, Out.isItem] <;> omega
        | true =>
          have hes : es = true := by
            cases es with
            | true => rfl
            | false => exact absurd (h1 rfl).2 (by simp)
          subst hes
          have hn0 : ¬ n ≤ 0 := by omega
          cases hp <;> cases u <;> constructor <;>
            simp [pollNext, interruptCheck, Strat.isN, Out.isItem, hn0] <;> omega
      | true =>
        have hes : es = true := by
          cases es with
          | true => rfl
          | false => exact absurd (h1 rfl).1 (by simp)
        subst hes
        cases hp with
        | true =>
          have hyc := h5 rfl
          have hnc : ¬ n ≤ cnt := by omega
          cases sent <;> cases u <;> constructor <;>
            simp [pollNext, interruptCheck, Strat.isN, Out.isItem, hnc] <;> omega
        | false =>
          by_cases hint : n ≤ cnt + 1
          · cases sent <;> cases u <;> constructor <;>
              simp [pollNext, interruptCheck, Strat.isN, Out.isItem, hint] <;> omega
          · cases sent <;> cases u <;> constructor <;>
              simp [pollNext, interruptCheck, Strat.isN, Out.isItem, hint] <;> omega

/-! ### `FinishCurrent` / `PollNextN(0)` -/

/-- invariant for `FinishCurrent` and `PollNextN(0)`; `yN` / `yI` = `NoInterrupt(item)` /
    `Interrupted(Some item)` answers since the signal was sent -/
structure InvF (m : IM) (es : Bool) (yN yI : Nat) : Prop where
  sentEver : es = true → m.recv = true ∨ m.sent = true
  ipcSig : m.ipc = true → m.sig = true
  noPlain : yN = 0
  live : m.ian = false → yI = 0
  bound : yI ≤ 1

theorem invF_init : InvF {} false 0 0 := by
  constructor <;> simp

theorem invF_signal {m : IM} {es : Bool} {yN yI : Nat} (h : InvF m es yN yI) :
    InvF { m with sent := true } true yN yI := by
  obtain ⟨sent, recv, cnt, sig, hp, ipc, ian⟩ := m
  obtain ⟨h1, h2, h3, h4, h5⟩ := h
  constructor <;> simp_all

theorem invF_poll {st : Strat} (hst : st = .finish ∨ st = .pollN 0) {m : IM} {es : Bool}
    {yN yI : Nat} (u : Under) (h : InvF m es yN yI) :
    InvF (pollNext st m u).1 es
      (if es && (pollNext st m u).2 = .noInt then yN + 1 else yN)
      (if es && (pollNext st m u).2 = .intSome then yI + 1 else yI) := by
  obtain ⟨sent, recv, cnt, sig, hp, ipc, ian⟩ := m
  obtain ⟨h1, h2, h3, h4, h5⟩ := h
  simp only at h1 h2 h3 h4 h5
  subst h3
  cases ian with
  | true => constructor <;> simp_all [pollNext]
  | false =>
    have hy := h4 rfl
    subst hy
    cases es with
    | false =>
      rcases hst with rfl | rfl <;> cases sig <;> cases ipc <;> cases hp <;> cases recv <;>
        cases sent <;> cases u <;> constructor <;>
        simp_all [pollNext, interruptCheck, Strat.isN]
    | true =>
      cases sig with
      | true =>
        rcases hst with rfl | rfl <;> cases hp <;> cases u <;> constructor <;>
          simp_all [pollNext, interruptCheck]
      | false =>
        have hipc : ipc = false := by
          cases ipc with
          | false => rfl
          | true => exact absurd (h2 rfl) (by simp)
        subst hipc
        have hrs := h1 rfl
        rcases hst with rfl | rfl <;> cases hp <;> cases recv <;> cases sent <;> cases u <;>
          constructor <;> simp_all [pollNext, interruptCheck, Strat.isN]

/-- the signal was pending before the first poll: the machine has never parked on `Pending` -/
structure InvPre (m : IM) (es : Bool) (yI : Nat) : Prop where
  sent : es = true
  noHp : m.ian = false → m.hp = false
  none : yI = 0

theorem invPre_signal {m : IM} {es : Bool} {yI : Nat} (h : InvPre m es yI) :
    InvPre { m with sent := true } true yI := by
  obtain ⟨h1, h2, h3⟩ := h
  constructor <;> simp_all

theorem invPre_poll {st : Strat} (hst : st = .finish ∨ st = .pollN 0) {m : IM} {es : Bool}
    {yN yI : Nat} (u : Under) (h : InvF m es yN yI) (hp : InvPre m es yI) :
    InvPre (pollNext st m u).1 es
      (if es && (pollNext st m u).2 = .intSome then yI + 1 else yI) := by
  obtain ⟨sent, recv, cnt, sig, hp, ipc, ian⟩ := m
  obtain ⟨h1, h2, h3, h4, h5⟩ := h
  obtain ⟨p1, p2, p3⟩ := hp
  simp only at h1 h2 h3 h4 h5 p1 p2 p3
  subst p1; subst p3
  cases ian with
  | true => constructor <;> simp_all [pollNext]
  | false =>
    have hhp := p2 rfl
    subst hhp
    have hrs := h1 rfl
    cases sig with
    | true =>
      rcases hst with rfl | rfl <;> cases u <;> constructor <;>
        simp_all [pollNext, interruptCheck]
    | false =>
      have hipc : ipc = false := by
        cases ipc with
        | false => rfl
        | true => exact absurd (h2 rfl) (by simp)
      subst hipc
      rcases hst with rfl | rfl <;> cases recv <;> cases sent <;> cases u <;>
        constructor <;> simp_all [pollNext, interruptCheck, Strat.isN]

/-! ### general facts -/

theorem pollNext_ian {st : Strat} {m : IM} (h : m.ian = true) (u : Under) :
    pollNext st m u = (m, .endd) := by
  simp [pollNext, h]

/-- an `Interrupted(..)` answer sets `interrupted_and_notified` -/
theorem pollNext_int_ian (st : Strat) (m : IM) (u : Under)
    (h : (pollNext st m u).2 = .intSome ∨ (pollNext st m u).2 = .intNone) :
    (pollNext st m u).1.ian = true := by
  unfold pollNext at h ⊢
  by_cases hian : m.ian = true
  · simp [hian] at h
  · simp only [hian, Bool.false_eq_true, if_false] at h ⊢
    generalize interruptCheck st m = m' at h ⊢
    cases hhp : m'.hp <;> cases hsig : m'.sig <;> cases u <;> simp_all

/-- when the wrapper polls the underlying stream, it hands on an item iff the stream gave one -/
theorem pollNext_isItem_polled (st : Strat) (m : IM) (u : Under) (h : pollsInner st m = true) :
    (pollNext st m u).2.isItem = decide (u = .item) := by
  unfold pollsInner at h
  unfold pollNext
  by_cases hian : m.ian = true
  · simp [hian] at h
  · simp only [hian, Bool.false_eq_true, if_false] at h ⊢
    generalize interruptCheck st m = m' at h ⊢
    cases hhp : m'.hp <;> cases hsig : m'.sig <;> cases u <;> simp_all [Out.isItem]

/-- when the wrapper does not poll the underlying stream, it hands on nothing -/
theorem pollNext_isItem_unpolled (st : Strat) (m : IM) (u : Under) (h : pollsInner st m = false) :
    (pollNext st m u).2.isItem = false := by
  unfold pollsInner at h
  unfold pollNext
  by_cases hian : m.ian = true
  · simp [hian, Out.isItem]
  · simp only [hian, Bool.false_eq_true, if_false] at h ⊢
    generalize interruptCheck st m = m' at h ⊢
    cases hhp : m'.hp <;> cases hsig : m'.sig <;> cases u <;> simp_all [Out.isItem]

/-! ### `NonInterruptible` / `IgnoreInterruptions` -/

theorem interruptCheck_transparent {st : Strat} (hst : st = .non ∨ st = .ignore) {m : IM}
    (hsig : m.sig = false) (hian : m.ian = false) :
    (interruptCheck st m).sig = false ∧ (interruptCheck st m).ian = false := by
  obtain ⟨sent, recv, cnt, sig, hp, ipc, ian⟩ := m
  simp only at hsig hian
  subst hsig; subst hian
  rcases hst with rfl | rfl
  · cases ipc <;> simp [interruptCheck]
  · cases ipc <;> cases recv <;> cases sent <;> simp [interruptCheck]

def transparentOut : Under → Out
  | .item => .noInt
  | .none => .endd
  | .pending => .pending

theorem pollNext_transparent {st : Strat} (hst : st = .non ∨ st = .ignore) {m : IM}
    (hsig : m.sig = false) (hian : m.ian = false) (u : Under) :
    (pollNext st m u).1.sig = false ∧ (pollNext st m u).1.ian = false ∧
    (pollNext st m u).2 = transparentOut u := by
  obtain ⟨h1, h2⟩ := interruptCheck_transparent hst hsig hian
  unfold pollNext
  simp only [hian, Bool.false_eq_true, if_false]
  generalize interruptCheck st m = m' at h1 h2 ⊢
  cases hhp : m'.hp <;> cases u <;> simp_all [transparentOut]

end FG
