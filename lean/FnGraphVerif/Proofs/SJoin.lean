/-
  Proofs/SJoin.lean — `Join` (two states have a common reduct by core actions, modulo `Sim`;
  `Proofs/LDiamondBase.lean`) is an equivalence relation on reachable states (by confluence), every
  internal run stays inside its `Join` class, and two joinable normal forms are `Sim`-equal.
  Helper of `Theorems/MonitorComplete.lean`: `Join` is the coupling between the state of the model
  run that produced the events and the state of the tracking monitor.
-/
import FnGraphVerif.Theorems.Confluence
import FnGraphVerif.Proofs.PTrack
namespace FG
variable {c : Cfg} {s s' t u : PState}

/-- joinable states have `Sim`-equal normal forms -/
theorem Join.nf_sim (hc : GoodCfg c) (hrs : Reachable c s) (hrt : Reachable c t) (h : Join c s t)
    {as bs : List CA} {q r : PState} (hq : crun c s as = some q) (hnq : NF c q)
    (hr : crun c t bs = some r) (hnr : NF c r) : Sim q r := by
  obtain ⟨as0, bs0, t1, t2, h1, h2, hs⟩ := h
  have hrt1 := crun_reachable hrs h1
  have hrt2 := crun_reachable hrt h2
  obtain ⟨es, r1, he1, hn1⟩ := nf_exists hc _ (Nat.le_refl _) hrt1
  obtain ⟨r2, he2, hs2⟩ := sim_crun hc hrt1 hs he1
  have hn2 : NF c r2 := FG.nf_sim hc hn1 hs2 (crun_reachable hrt2 he2)
  have hA : Sim q r1 := core_confluence hc (local_conf hc) hrs hq hnq (by rw [crun_append h1]; exact he1) hn1
  have hB : Sim r r2 := core_confluence hc (local_conf hc) hrt hr hnr (by rw [crun_append h2]; exact he2) hn2
  exact (hA.trans hs2).trans hB.symm

theorem Join.trans (hc : GoodCfg c) (hrs : Reachable c s) (hrt : Reachable c t) (hru : Reachable c u)
    (h1 : Join c s t) (h2 : Join c t u) : Join c s u := by
  obtain ⟨as, q, hq, hnq⟩ := nf_exists hc _ (Nat.le_refl _) hrs
  obtain ⟨bs, r, hr, hnr⟩ := nf_exists hc _ (Nat.le_refl _) hrt
  obtain ⟨cs, w, hw, hnw⟩ := nf_exists hc _ (Nat.le_refl _) hru
  have hA := h1.nf_sim hc hrs hrt hq hnq hr hnr
  have hB := h2.nf_sim hc hrt hru hr hnr hw hnw
  exact ⟨as, cs, q, w, hq, hw, hA.trans hB⟩

theorem Join.of_sim (h : Sim s t) : Join c s t := ⟨[], [], s, t, rfl, rfl, h⟩

theorem Join.of_crun {as : List CA} (h : crun c s as = some s') : Join c s s' :=
  ⟨as, [], s', s', h, rfl, Sim.refl _⟩

theorem Join.of_core {a : CA} (h : step? c s a.act = some s') : Join c s s' :=
  Join.of_crun (crun_one h)

/-- an internal run stays in the `Join` class -/
theorem Join.of_internal_run (hc : GoodCfg c) (hr : Reachable c s) {as : List Action}
    (hint : ∀ a ∈ as, a.internal) (h : run c s as = some s') : Join c s s' := by
  obtain ⟨cs, q5, hcs, hsim⟩ := internal_to_core hc hr hint h
  exact ⟨cs, [], q5, s', hcs, rfl, hsim⟩

theorem Join.of_nonext_run (hc : GoodCfg c) (hr : Reachable c s) {as : List Action}
    (hint : ∀ a ∈ as, a.isExternal = false) (h : run c s as = some s') : Join c s s' :=
  Join.of_internal_run hc hr (fun a ha => Action.internal_iff.mpr (hint a ha)) h

theorem Join.of_internal_step (hc : GoodCfg c) (hr : Reachable c s) {a : Action}
    (ha : a.internal) (h : step? c s a = some s') : Join c s s' := by
  apply Join.of_internal_run hc hr (as := [a])
  · intro b hb; rw [List.mem_singleton.mp hb]; exact ha
  · simp only [run, h]

theorem Join.to_settle (hc : GoodCfg c) (hr : Reachable c s) : Join c s (FG.settle c s) := by
  obtain ⟨as, has, hrun⟩ := settleN_run (c := c) (settleFuel c) s
  exact Join.of_internal_run hc hr has hrun

/-- joinable normal forms (e.g. quiescent states) are `Sim`-equal -/
theorem Join.sim_of_nf (hc : GoodCfg c) (hrs : Reachable c s) (hrt : Reachable c t) (h : Join c s t)
    (hns : NF c s) (hnt : NF c t) : Sim s t :=
  h.nf_sim hc hrs hrt (as := []) (bs := []) rfl hns rfl hnt

/-- the real state at rest against the settled monitor state -/
theorem Join.sim_settle (hc : GoodCfg c) (hrs : Reachable c s) (hrt : Reachable c t) (h : Join c s t)
    (hns : NF c s) : Sim s (FG.settle c t) := by
  have hj : Join c s (FG.settle c t) := Join.trans hc hrs hrt (settle_reachable hrt) h (Join.to_settle hc hrt)
  exact hj.sim_of_nf hc hrs (settle_reachable hrt) hns
    (quiescent_nf hc (settle_reachable hrt) (settle_quiescent hc hrt))

end FG
