/-
  Proofs/QPred.lean — the specification predicates `predFut` event by event: the new predicate
  state and, from semantic hypotheses stated on the predicate state alone, that every emitted
  note is ok.  No model facts here; `Proofs/QCoup.lean` supplies the hypotheses from the coupling
  between the predicate state and the model state.
-/
import FnGraphVerif.Proofs.TraceDefs
namespace FG

theorem predRun_append (x : MonCtx) (m : PredSt) (l1 l2 : List Ev) :
    predRun x m (l1 ++ l2) =
      ((predRun x (predRun x m l1).1 l2).1, (predRun x m l1).2 ++ (predRun x (predRun x m l1).1 l2).2) := by
  induction l1 generalizing m with
  | nil => simp [predRun]
  | cons e l1 ih => simp only [List.cons_append, predRun, ih, List.append_assoc]

theorem predRun_nil (x : MonCtx) (m : PredSt) : predRun x m [] = (m, []) := rfl

theorem predRun_single (x : MonCtx) (m : PredSt) (e : Ev) : predRun x m [e] = predFut x m e := by
  simp [predRun]

/-- the one predicate that is NOT true of every model run: the `processed` list of the outcome is
    the list of started functions IN THE ORDER OF THEIR STARTS -/
def Note.isProcStarted : Note → Prop
  | .prop p wh _ => p = "C09" ∧ ∃ w, wh = w ++ " processed=started"
  | _ => False

/-- what is shown of every note: it is ok under the hypothesis `P` (closures are invoked in hand-out
    order), and without `P` it is ok unless it is the `processed=started` note -/
def Note.Good (P : Prop) (n : Note) : Prop := (P → n.ok = true) ∧ (n.ok = true ∨ n.isProcStarted)

theorem Note.good_of_ok {P : Prop} {n : Note} (h : n.ok = true) : n.Good P := ⟨fun _ => h, Or.inl h⟩

/-! ### state updates -/

theorem predFut_intr_fst (x : MonCtx) (m : PredSt) :
    (predFut x m .intr).1 =
      { m with nEv := m.nEv + 1,
               intrAt := (match m.intrAt with | none => some m.realInvoked.length | y => y),
               intrPre := if m.intrAt.isNone then m.nEv == 0 else m.intrPre } := rfl

theorem predFut_intr_snd (x : MonCtx) (m : PredSt) : (predFut x m .intr).2 = [] := rfl

theorem predFut_handout_fst (x : MonCtx) (m : PredSt) (f : Nat) :
    (predFut x m (.handout f)).1 = { m with nEv := m.nEv + 1, realHandout := m.realHandout ++ [f] } := rfl

theorem predFut_invoke_fst (x : MonCtx) (m : PredSt) (f : Nat) :
    (predFut x m (.invoke f)).1 = { m with nEv := m.nEv + 1, realInvoked := m.realInvoked ++ [f] } := rfl

theorem predFut_fin_fst (x : MonCtx) (m : PredSt) (f : Nat) (ok : Bool) :
    (predFut x m (.fin f ok)).1 =
      { m with nEv := m.nEv + 1, realEnded := m.realEnded ++ [f],
               realEndedOk := if ok then m.realEndedOk ++ [f] else m.realEndedOk,
               realFailed := if ok then m.realFailed else m.realFailed ++ [f] } := rfl

theorem predFut_fin_snd (x : MonCtx) (m : PredSt) (f : Nat) (ok : Bool) :
    (predFut x m (.fin f ok)).2 =
      if ok then [] else
        [.prop "C07" ((Ev.fin f ok).text ++ " (a function ordered after it was started before)")
          (m.realInvoked.all (fun g => !reachPlus x.c.D f g))] := rfl

/-- C07 at a failure: nothing ordered after the failing function has been started before -/
theorem predFut_fin_ok (x : MonCtx) (m : PredSt) (f : Nat) (ok : Bool)
    (h7 : ok = false → ∀ g ∈ m.realInvoked, reachPlus x.c.D f g = false) :
    ∀ n ∈ (predFut x m (.fin f ok)).2, n.ok = true := by
  rw [predFut_fin_snd]
  cases ok with
  | true => intro n hn; cases hn
  | false =>
    simp only [Bool.false_eq_true, if_false, List.mem_singleton]
    rintro n rfl
    simp only [Note.ok, List.all_eq_true, Bool.not_eq_true']
    exact h7 rfl

theorem predFut_q_fst (x : MonCtx) (m : PredSt) :
    (predFut x m .q).1 = { m with nEv := m.nEv + 1 } := rfl

theorem predFut_retErr_fst (x : MonCtx) (m : PredSt) (f : Nat) :
    (predFut x m (.retErr f)).1 = { m with nEv := m.nEv + 1 } := rfl

theorem predFut_retOutcome_fst (x : MonCtx) (m : PredSt) (fnd : Bool) (p np e : List Nat) (fl : String) :
    (predFut x m (.retOutcome fnd p np e fl)).1 = { m with nEv := m.nEv + 1 } := rfl

/-! ### the notes -/

theorem predFut_handout_ok (x : MonCtx) (m : PredSt) (f : Nat) (h : f ∉ m.realHandout) :
    ∀ n ∈ (predFut x m (.handout f)).2, n.ok = true := by
  simp only [predFut, List.mem_singleton]
  rintro n rfl
  simp [Note.ok, h]

theorem predFut_invoke_ok (x : MonCtx) (m : PredSt) (f : Nat)
    (h3 : f ∉ m.realInvoked)
    (h1 : conflictInflightB x.decls m.realInflight f = false)
    (h2 : ∀ u, reachPlus (if x.rev then x.userD.flip else x.userD) u f = true → u ∈ m.realEndedOk)
    (h1b : ∀ p ∈ parents x.c.D f, p ∈ m.realEndedOk)
    (h7 : ∀ y ∈ m.realFailed, reachPlus x.c.D y f = false)
    (h7c : ∀ y ∈ m.realFailed, y = f ∨ conflict (declOf x.decls y) (declOf x.decls f) = false)
    (h10s : x.c.sequential = true → m.realInflight.length + 1 ≤ 1)
    (h10p : x.c.sequential = false → ∀ l, x.c.limit = some (l + 1) → m.realInflight.length + 1 ≤ l + 1)
    (h8 : ∀ k b, m.intrAt = some k → boundOf x.c.strat x.c.incl m.intrPre = some b →
      m.realInvoked.length + 1 - k ≤ b) :
    ∀ n ∈ (predFut x m (.invoke f)).2, n.ok = true := by
  simp only [predFut, List.mem_append, List.mem_cons, List.not_mem_nil, or_false]
  rintro n (hn | hn)
  · rcases hn with rfl | rfl | rfl | rfl | rfl | rfl | rfl
    · simp [Note.ok, h3]
    · simp [Note.ok, h1]
    · simp only [Note.ok, List.all_eq_true, Bool.or_eq_true, Bool.not_eq_true', decide_eq_true_eq]
      intro u _
      cases hr : reachPlus (if x.rev = true then x.userD.flip else x.userD) u f with
      | false => exact Or.inl rfl
      | true => exact Or.inr (h2 u hr)
    · simp only [Note.ok, List.all_eq_true, decide_eq_true_eq]
      exact h1b
    · simp only [Note.ok, List.all_eq_true, Bool.not_eq_true']
      exact h7
    · simp only [Note.ok, List.all_eq_true, Bool.or_eq_true, beq_iff_eq, Bool.not_eq_true']
      exact h7c
    · simp only [Note.ok]
      cases hs : x.c.sequential with
      | true => simpa using h10s hs
      | false =>
        simp only [Bool.false_eq_true, if_false]
        cases hl : x.c.limit with
        | none => rfl
        | some l =>
          cases l with
          | zero => rfl
          | succ l => simpa using h10p hs l hl
  · split at hn
    · rename_i k b hk hb
      split at hn
      · simp only [List.mem_singleton] at hn
        subst hn
        simpa [Note.ok] using h8 k b hk hb
      · cases hn
    · cases hn

theorem predFut_q_ok (x : MonCtx) (m : PredSt)
    (hdead : m.realInflight ≠ [])
    (h6 : m.intrAt = none → m.realFailed = [] → x.c.sequential = false →
      (x.c.limit = none ∨ x.c.limit = some 0) → allBlockedB x.c m.realInvoked m.realEndedOk = true)
    (h10 : m.intrAt = none → m.realFailed = [] → x.c.sequential = false →
      ∀ l, x.c.limit = some (l + 1) → m.realInflight.length < l + 1 →
      allBlockedB x.c m.realInvoked m.realEndedOk = true) :
    ∀ n ∈ (predFut x m .q).2, n.ok = true := by
  have hd : m.realInflight.isEmpty = false := by
    cases h : m.realInflight with
    | nil => exact absurd h hdead
    | cons a l => rfl
  have h6' : (m.intrAt.isNone && m.realFailed.isEmpty) = true → x.c.sequential = false →
      (x.c.limit = none ∨ x.c.limit = some 0) → allBlockedB x.c m.realInvoked m.realEndedOk = true := by
    intro hc
    simp only [Bool.and_eq_true, Option.isNone_iff_eq_none, List.isEmpty_iff] at hc
    exact h6 hc.1 hc.2
  have hpre : ∀ n ∈ ([Note.prop "C04" Ev.q.text true]
      ++ (if (m.intrAt.isNone && m.realFailed.isEmpty) = true then
            [Note.prop "C03" (Ev.q.text ++ " clean run can never hand out the rest") true] else [])
      ++ (if (!m.realFailed.isEmpty) = true then
            [Note.prop "C07" (Ev.q.text ++ " never returns after a failure") true] else [])
      ++ (if m.intrAt.isSome = true then
            [Note.prop "C08" (Ev.q.text ++ " never returns after the interrupt") true] else []) : List Note),
      n.ok = true := by
    intro n hn
    simp only [List.mem_append, List.mem_cons, List.not_mem_nil, or_false] at hn
    rcases hn with ((rfl | hn) | hn) | hn
    · rfl
    · split at hn
      · simp only [List.mem_singleton] at hn; subst hn; rfl
      · cases hn
    · split at hn
      · simp only [List.mem_singleton] at hn; subst hn; rfl
      · cases hn
    · split at hn
      · simp only [List.mem_singleton] at hn; subst hn; rfl
      · cases hn
  simp only [predFut, hd, Bool.not_false]
  intro n hn
  rw [List.mem_append, List.mem_append, List.mem_append] at hn
  rcases hn with ((hn | hn) | hn) | hn
  · exact hpre n hn
  · split at hn
    · split at hn
      · simp only [List.mem_singleton] at hn; subst hn; rfl
      · cases hn
    · cases hn
  · cases hs : x.c.sequential with
    | true => simp [hs] at hn
    | false =>
      rcases hlim : x.c.limit with _ | _ | l
      · simp only [hs, hlim, BEq.rfl, Bool.and_true] at hn
        split at hn
        · rename_i hc
          simp only [List.mem_singleton] at hn; subst hn
          exact h6' hc hs (Or.inl hlim)
        · cases hn
      · simp only [hs, hlim, BEq.rfl, Bool.and_true] at hn
        split at hn
        · rename_i hc
          simp only [List.mem_singleton] at hn; subst hn
          exact h6' hc hs (Or.inr hlim)
        · cases hn
      · simp [hs, hlim] at hn
  · rcases hlim : x.c.limit with _ | _ | l
    · simp only [hlim] at hn; cases hn
    · -- `limit = some 0` means unbounded: the C10 note states the fact of the C06 note
      simp only [hlim] at hn
      split at hn
      · rename_i hc
        simp only [Bool.and_eq_true, Option.isNone_iff_eq_none, List.isEmpty_iff,
          Bool.not_eq_true'] at hc
        simp only [List.mem_singleton] at hn; subst hn
        exact h6 hc.1.1 hc.1.2 hc.2 (Or.inr hlim)
      · cases hn
    · simp only [hlim] at hn
      split at hn
      · rename_i hc
        simp only [Bool.and_eq_true, Option.isNone_iff_eq_none, List.isEmpty_iff, Bool.not_eq_true',
          decide_eq_true_eq] at hc
        simp only [List.mem_singleton] at hn; subst hn
        exact h10 hc.1.1.1 hc.1.1.2 hc.1.2 l hlim hc.2
      · cases hn

theorem predFut_retErr_ok (x : MonCtx) (m : PredSt) (f : Nat)
    (hi : m.realInflight = []) (hf : m.realFailed = [f]) (hl : m.realInvoked.getLast? = some f) :
    ∀ n ∈ (predFut x m (.retErr f)).2, n.ok = true := by
  simp only [predFut, List.mem_cons, List.not_mem_nil, or_false]
  rintro n (rfl | rfl)
  · simp [Note.ok, hi]
  · simp [Note.ok, hf, hl]

theorem sameMembers_self (a : List Nat) : sameMembers a a = true := by
  simp [sameMembers]

theorem predFut_retOutcome_good (P : Prop) (x : MonCtx) (m : PredSt) (fnd : Bool) (proc notp errs : List Nat)
    (flow : String)
    (hi : m.realInflight = [])
    (hproc : P → proc = m.realInvoked)
    (hnp : notp = (List.range x.c.n).filter (fun v => decide (v ∉ proc)))
    (hst : fnd = (proc.length == x.c.n))
    (hflow : (flow == "na" || ((flow == "cont") == (fnd && errs.isEmpty))) = true)
    (herr : errs = m.realFailed)
    (hsub : ∀ f ∈ m.realInvoked, f ∈ proc)
    (hclean : m.intrAt = none → m.realFailed = [] → isPermOfRange m.realInvoked x.c.n = true)
    (hnoop : (x.c.strat = .non ∨ x.c.strat = .ignore) → m.realFailed = [] →
      isPermOfRange m.realInvoked x.c.n = true) :
    ∀ n ∈ (predFut x m (.retOutcome fnd proc notp errs flow)).2, n.Good P := by
  simp only [predFut, List.mem_append, List.mem_cons, List.not_mem_nil, or_false]
  rintro n ((hn | hn) | hn)
  · rcases hn with rfl | rfl | rfl | rfl | rfl | rfl | rfl
    · exact Note.good_of_ok (by simp [Note.ok, hi])
    · refine ⟨fun hp => by simp [Note.ok, hproc hp], ?_⟩
      by_cases h : proc = m.realInvoked
      · exact Or.inl (by simp [Note.ok, h])
      · exact Or.inr ⟨rfl, _, rfl⟩
    · exact Note.good_of_ok (by simp [Note.ok, hnp])
    · exact Note.good_of_ok (by simp [Note.ok, hst])
    · exact Note.good_of_ok (by simpa [Note.ok] using hflow)
    · exact Note.good_of_ok (by simp [Note.ok, herr, sameMembers_self])
    · exact Note.good_of_ok (by simpa [Note.ok] using hsub)
  · split at hn
    · rename_i hc
      simp only [Bool.and_eq_true, Option.isNone_iff_eq_none, List.isEmpty_iff] at hc
      simp only [List.mem_singleton] at hn
      subst hn
      exact Note.good_of_ok (by simpa [Note.ok] using hclean hc.1 hc.2)
    · cases hn
  · split at hn
    · rename_i hs
      split at hn
      · rename_i hc
        simp only [List.isEmpty_iff] at hc
        simp only [List.mem_singleton] at hn
        subst hn
        exact Note.good_of_ok (by simpa [Note.ok] using hnoop (Or.inl hs) hc)
      · cases hn
    · rename_i hs
      split at hn
      · rename_i hc
        simp only [List.isEmpty_iff] at hc
        simp only [List.mem_singleton] at hn
        subst hn
        exact Note.good_of_ok (by simpa [Note.ok] using hnoop (Or.inr hs) hc)
      · cases hn
    · cases hn

end FG
