/-
  Proofs/RPred.lean — the coupling invariant between the predicate monitor's state (`SPredSt`) and
  the state of the stream model (`SState`), and its preservation by every model step; every note
  the predicates emit on the events of a model step holds.
-/
import FnGraphVerif.Proofs.RGhost
namespace FG

/-- the ghost run of the `InterruptibleStream` machine behind a model state / monitor state pair -/
def Ghost (st : Strat) (s : SState) (m : SPredSt) : Prop :=
  ∃ ievs : List IEv, (irun st ievs).m = s.im ∧
    (irun st ievs).everSent = m.yieldedAtIntr.isSome ∧
    (∀ k0, m.yieldedAtIntr = some k0 → k0 + ((irun st ievs).yN + (irun st ievs).yI) = s.yielded.length) ∧
    (m.nEv = 0 → ievs = []) ∧ (m.intrPre = true → ∃ t, ievs = .signal :: t)

structure SCpl (x : MonCtx) (s : SState) (m : SPredSt) : Prop where
  reach : SReachable x.c true s
  yielded : m.yielded = s.yielded
  live : m.live = s.live
  dropped : m.droppedRefs = s.droppedRefs
  lastPending : m.lastPending = s.lastPending
  sd : m.streamDropped = s.streamDropped
  wake : m.lastPending = true → m.wokenSincePoll = s.wake
  ghost : Ghost x.c.strat s m

theorem scpl_init (x : MonCtx) : SCpl x (sinit x.c) {} :=
  { reach := SReachable.init, yielded := rfl, live := rfl, dropped := rfl, lastPending := rfl, sd := rfl,
    wake := fun h => (by cases h),
    ghost := ⟨[], rfl, rfl, (fun k0 h => by cases h), (fun _ => rfl), (fun h => by cases h)⟩ }

/-! ### the ghost run along model steps -/

theorem ghost_other {st : Strat} {s s1 : SState} {m m1 : SPredSt} (h : Ghost st s m)
    (him : s1.im = s.im) (hy : s1.yielded = s.yielded) (h1 : m1.yieldedAtIntr = m.yieldedAtIntr)
    (h2 : m1.intrPre = m.intrPre) (h3 : m1.nEv = m.nEv + 1) : Ghost st s1 m1 := by
  obtain ⟨ievs, a1, a2, a3, _, a5⟩ := h
  refine ⟨ievs, by rw [him]; exact a1, by rw [h1]; exact a2, ?_, ?_, ?_⟩
  · intro k0 hk; rw [hy]; exact a3 k0 (h1 ▸ hk)
  · intro h0; omega
  · intro hp; exact a5 (h2 ▸ hp)

theorem ghost_intr {x : MonCtx} {st : Strat} {s : SState} {m : SPredSt} (h : Ghost st s m)
    (hy : m.yielded = s.yielded) :
    Ghost st { s with im := { s.im with sent := true } } (predStream x false m .intr).1 := by
  obtain ⟨ievs, a1, a2, a3, a4, a5⟩ := h
  have hyi : (predStream x false m .intr).1.yieldedAtIntr =
      (match m.yieldedAtIntr with | none => some m.yielded.length | y => y) := rfl
  have hpre : (predStream x false m .intr).1.intrPre =
      (if m.yieldedAtIntr.isNone then m.nEv == 0 else m.intrPre) := rfl
  have hsum : (irun st (ievs ++ [.signal])).yN = (irun st ievs).yN ∧
      (irun st (ievs ++ [.signal])).yI = (irun st ievs).yI := by
    rw [irun_snoc]; exact ⟨rfl, rfl⟩
  refine ⟨ievs ++ [.signal], ?_, ?_, ?_, ?_, ?_⟩
  · rw [irun_snoc]; simp [istep, a1]
  · rw [irun_snoc, hyi]
    show true = _
    cases m.yieldedAtIntr <;> rfl
  · intro k0 hk
    rw [hsum.1, hsum.2]
    show k0 + ((irun st ievs).yN + (irun st ievs).yI) = s.yielded.length
    rw [hyi] at hk
    cases hm : m.yieldedAtIntr with
    | none =>
      rw [hm] at hk a2
      obtain ⟨_, _, _, _, b5, b6⟩ := irun_nosig st ievs a2
      simp only [Option.some.injEq] at hk
      rw [b5, b6, ← hk, hy]; rfl
    | some k =>
      rw [hm] at hk
      simp only [Option.some.injEq] at hk
      subst hk
      exact a3 k hm
  · intro h0
    have : m.nEv + 1 = 0 := h0
    omega
  · intro hp
    rw [hpre] at hp
    cases hm : m.yieldedAtIntr with
    | none =>
      rw [hm] at hp
      simp only [Option.isNone_none, if_true, beq_iff_eq] at hp
      rw [a4 hp]
      exact ⟨[], rfl⟩
    | some k =>
      rw [hm] at hp
      simp only [Option.isNone_some, Bool.false_eq_true, if_false] at hp
      obtain ⟨t, ht⟩ := a5 hp
      exact ⟨t ++ [.signal], by rw [ht]; rfl⟩

theorem sipoll_out (c : Cfg) (drain : Bool) (s : SState) :
    (sipoll c drain s).2.1 = (pollNext c.strat s.im (sipollUnder c drain s)).2 := by
  unfold sipoll sipollUnder
  by_cases hp : pollsInner c.strat s.im = true
  · simp only [hp, if_true]
    generalize spoll c drain s = r
    obtain ⟨t, res⟩ := r
    cases res <;> rfl
  · have hp' : pollsInner c.strat s.im = false := by simpa using hp
    simp only [hp', Bool.false_eq_true, if_false]

theorem ghost_poll {c : Cfg} {s : SState} {m m1 : SPredSt} (h : Ghost c.strat s m)
    (h1 : m1.yieldedAtIntr = m.yieldedAtIntr) (h2 : m1.intrPre = m.intrPre) (h3 : m1.nEv = m.nEv + 1) :
    Ghost c.strat (sipoll c true s).1 m1 := by
  obtain ⟨ievs, a1, a2, a3, _, a5⟩ := h
  obtain ⟨e1, e2⟩ := sipoll_spec c true s
  have hsum := istep_poll_sum c.strat (irun c.strat ievs) (sipollUnder c true s)
  refine ⟨ievs ++ [.poll (sipollUnder c true s)], ?_, ?_, ?_, ?_, ?_⟩
  · rw [irun_snoc, e1, ← a1]; rfl
  · rw [irun_snoc, h1, ← a2]; rfl
  · intro k0 hk
    rw [h1] at hk
    have hes : (irun c.strat ievs).everSent = true := by rw [a2, hk]; rfl
    rw [irun_snoc, hsum, e2, hes, a1]
    have := a3 k0 hk
    simp only [Bool.true_and]
    split <;> omega
  · intro h0; omega
  · intro hp
    obtain ⟨t, ht⟩ := a5 (h2 ▸ hp)
    exact ⟨t ++ [.poll (sipollUnder c true s)], by rw [ht]; rfl⟩

/-- **C08** (stream form) in the shape the predicate checks it -/
theorem ghost_bound {st : Strat} {s : SState} {m : SPredSt} (h : Ghost st s m) {k0 b : Nat}
    (hk : m.yieldedAtIntr = some k0) (hb : boundOf st true m.intrPre = some b) :
    s.yielded.length - k0 ≤ b := by
  obtain ⟨ievs, _, _, a3, _, a5⟩ := h
  have e := a3 k0 hk
  have hF : st = .finish ∨ st = .pollN 0 → (if true && !m.intrPre then 1 else 0) = b →
      s.yielded.length - k0 ≤ b := by
    intro hst hb
    cases hpre : m.intrPre with
    | false =>
      obtain ⟨f1, f2, _, _⟩ := finish_bound st hst ievs
      rw [hpre] at hb
      simp only [Bool.not_false, Bool.and_self, if_true] at hb
      omega
    | true =>
      obtain ⟨t, ht⟩ := a5 hpre
      obtain ⟨_, _, f3, f4⟩ := finish_bound st hst t
      rw [← ht] at f3 f4
      omega
  cases st with
  | non => simp [boundOf] at hb
  | ignore => simp [boundOf] at hb
  | finish =>
    simp only [boundOf, Option.some.injEq] at hb
    exact hF (Or.inl rfl) hb
  | pollN n =>
    cases n with
    | zero =>
      simp only [boundOf, Option.some.injEq] at hb
      exact hF (Or.inr rfl) hb
    | succ k =>
      simp only [boundOf, Option.some.injEq] at hb
      have := pollN_bound (k + 1) (by omega) ievs
      omega

/-- without a signal, or under a transparent strategy, the wrapper answers what the stream answers -/
theorem ghost_transparent {st : Strat} {s : SState} {m : SPredSt} (h : Ghost st s m)
    (hcase : (st = .non ∨ st = .ignore) ∨ m.yieldedAtIntr = none) (u : Under) :
    (pollNext st s.im u).2 = transparentOut u := by
  obtain ⟨ievs, a1, a2, _, _, _⟩ := h
  rw [← a1]
  rcases hcase with hst | hn
  · obtain ⟨b1, b2⟩ := irun_transparent hst ievs
    exact (pollNext_transparent hst b1 b2 u).2.2
  · rw [hn] at a2
    obtain ⟨b1, b2, b3, b4, _⟩ := irun_nosig st ievs a2
    exact (pollNext_nosig st b1 b2 b3 b4 u).2.2.2.2

end FG
