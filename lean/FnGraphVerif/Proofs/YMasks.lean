/-
  Proofs/YMasks.lean — helper lemmas for `Theorems/SpecFast.lean`:
  `idxOf` on split lists, what `topoOrderB` says, the bit algebra of one `reachMasks` step,
  and the fold invariant of `reachMasks` along the reversed topological order.
-/
import FnGraphVerif.Proofs.Reach
import FnGraphVerif.Model.Spec
namespace FG
namespace YM  -- helper names live in `FG.YM` so they cannot clash with other helper files

/-! ### `idxOf` -/

theorem idxOf_lt_of_mem {l : List Nat} {x : Nat} (h : x ∈ l) : idxOf l x < l.length := by
  unfold idxOf
  exact List.findIdx_lt_length_of_exists ⟨x, h, by simp⟩

theorem idxOf_append_of_mem {a b : List Nat} {x : Nat} (h : x ∈ a) : idxOf (a ++ b) x < a.length := by
  have h1 := idxOf_lt_of_mem h
  unfold idxOf at h1 ⊢
  rw [List.findIdx_append, if_pos h1]
  exact h1

theorem idxOf_append_of_not_mem {a b : List Nat} {x : Nat} (h : x ∉ a) :
    idxOf (a ++ x :: b) x = a.length := by
  unfold idxOf
  have h1 : List.findIdx (· == x) a = a.length := by
    rw [List.findIdx_eq_length]
    intro y hy
    simp only [beq_eq_false_iff_ne, ne_eq]
    rintro rfl; exact h hy
  rw [List.findIdx_append, if_neg (by omega)]
  simp [List.findIdx_cons]

/-! ### what `topoOrderB` says -/

theorem isPermOfRange_perm {l : List Nat} {n : Nat} (h : isPermOfRange l n = true) :
    l.Perm (List.range n) := by
  unfold isPermOfRange at h
  simp only [Bool.and_eq_true, beq_iff_eq, List.all_eq_true, List.mem_range, decide_eq_true_eq] at h
  obtain ⟨hlen, hall⟩ := h
  have hsub : List.range n ⊆ l := fun v hv => hall v (List.mem_range.mp hv)
  have hsp : (List.range n).Subperm l := List.Nodup.subperm List.nodup_range hsub
  exact (hsp.perm_of_length_le (by simp [hlen])).symm

theorem topoOrderB_perm {g : Dag} {ord : List Nat} (h : topoOrderB g ord = true) :
    ord.Perm (List.range g.n) := by
  unfold topoOrderB at h
  rw [Bool.and_eq_true] at h
  exact isPermOfRange_perm h.1

theorem topoOrderB_edge {g : Dag} {ord : List Nat} (h : topoOrderB g ord = true) {u v : Nat}
    (he : IsEdge g u v) : idxOf ord u < idxOf ord v := by
  unfold topoOrderB at h
  rw [Bool.and_eq_true, List.all_eq_true] at h
  obtain ⟨e, hmem, rfl, rfl⟩ := he
  simpa using h.2 e hmem

theorem topoOrderB_reachP {g : Dag} {ord : List Nat} (h : topoOrderB g ord = true) {u v : Nat}
    (hr : ReachP g u v) : idxOf ord u < idxOf ord v := by
  induction hr with
  | edge he => exact topoOrderB_edge h he
  | tail _ he ih => exact Nat.lt_trans ih (topoOrderB_edge h he)

/-- a valid order exists only on an acyclic graph (no well-formedness needed) -/
theorem topoOrderB_Acyclic {g : Dag} {ord : List Nat} (h : topoOrderB g ord = true) : Acyclic g :=
  fun _ hu => Nat.lt_irrefl _ (topoOrderB_reachP h hu)

theorem topoOrderB_mem_iff {g : Dag} {ord : List Nat} (h : topoOrderB g ord = true) {u : Nat} :
    u ∈ ord ↔ u < g.n := by
  rw [(topoOrderB_perm h).mem_iff, List.mem_range]

theorem topoOrderB_nodup {g : Dag} {ord : List Nat} (h : topoOrderB g ord = true) : ord.Nodup :=
  (topoOrderB_perm h).nodup_iff.mpr List.nodup_range

/-- in the reversed order every child of `u` comes before `u` -/
theorem topoOrderB_children_before {g : Dag} (hwf : WF g) {ord : List Nat} (h : topoOrderB g ord = true)
    {pre post : List Nat} {u c : Nat} (hsplit : ord.reverse = pre ++ u :: post) (he : IsEdge g u c) :
    c ∈ pre := by
  have hord : ord = post.reverse ++ u :: pre.reverse := by
    have := congrArg List.reverse hsplit
    simpa using this
  have hnd := topoOrderB_nodup h
  rw [hord, List.nodup_append] at hnd
  have hu : u ∉ post.reverse := fun hm => hnd.2.2 u hm u List.mem_cons_self rfl
  have hlt := topoOrderB_edge h he
  have hc : c ∈ ord := (topoOrderB_mem_iff h).mpr (he.lt hwf).2
  rw [hord] at hlt hc
  rw [idxOf_append_of_not_mem hu] at hlt
  rcases List.mem_append.mp hc with hc | hc
  · have := idxOf_append_of_mem (b := u :: pre.reverse) hc
    omega
  · rcases List.mem_cons.mp hc with rfl | hc
    · rw [idxOf_append_of_not_mem hu] at hlt; omega
    · exact List.mem_reverse.mp hc

/-! ### strict reachability unfolds at the first edge -/

theorem reachP_iff_child {g : Dag} {u v : Nat} :
    ReachP g u v ↔ ∃ c, IsEdge g u c ∧ (c = v ∨ ReachP g c v) := by
  constructor
  · intro h
    obtain ⟨c, hc, hr⟩ := h.first
    exact ⟨c, hc, hr.cases_head⟩
  · rintro ⟨c, hc, rfl | hr⟩
    · exact ReachP.edge hc
    · exact ReachP.head hc (Reach.of_reachP hr)

/-! ### one step of `reachMasks` -/

/-- the mask computed for a node from the masks `acc` of its children -/
def childMask (g : Dag) (acc : List Nat) (u : Nat) : Nat :=
  (children g u).foldl (fun m c => m ||| (1 <<< c) ||| acc[c]?.getD 0) 0

def maskStep (g : Dag) (acc : List Nat) (u : Nat) : List Nat := acc.set u (childMask g acc u)

theorem reachMasks_eq (g : Dag) (ord : List Nat) :
    reachMasks g ord = ord.foldl (maskStep g) (List.replicate g.n 0) := rfl

theorem testBit_one_shiftLeft (c v : Nat) : (1 <<< c).testBit v = decide (c = v) := by
  rw [Nat.one_shiftLeft, Nat.testBit_two_pow]

theorem testBit_maskFold (acc : List Nat) (cs : List Nat) (m0 v : Nat) :
    (cs.foldl (fun m c => m ||| (1 <<< c) ||| acc[c]?.getD 0) m0).testBit v
      = (m0.testBit v || cs.any (fun c => decide (c = v) || (acc[c]?.getD 0).testBit v)) := by
  induction cs generalizing m0 with
  | nil => simp
  | cons c cs ih =>
    rw [List.foldl_cons, ih, Nat.testBit_or, Nat.testBit_or, testBit_one_shiftLeft, List.any_cons]
    simp only [Bool.or_assoc]

theorem testBit_childMask {g : Dag} {acc : List Nat} {u v : Nat} :
    (childMask g acc u).testBit v = true ↔
      ∃ c, IsEdge g u c ∧ (c = v ∨ (acc[c]?.getD 0).testBit v = true) := by
  unfold childMask
  rw [testBit_maskFold]
  simp only [Nat.zero_testBit, Bool.false_or, List.any_eq_true, Bool.or_eq_true, decide_eq_true_eq,
    mem_children]

/-! ### the fold invariant -/

/-- every node of `done` has its final, correct mask -/
def MaskInv (g : Dag) (acc done : List Nat) : Prop :=
  acc.length = g.n ∧ ∀ u ∈ done, ∀ v, (acc[u]?.getD 0).testBit v = true ↔ ReachP g u v

theorem maskInv_step {g : Dag} {acc done : List Nat} {u : Nat} (hinv : MaskInv g acc done)
    (hu : u < g.n) (hch : ∀ c, IsEdge g u c → c ∈ done) : MaskInv g (maskStep g acc u) (done ++ [u]) := by
  obtain ⟨hlen, hall⟩ := hinv
  have hnew : ∀ v, (childMask g acc u).testBit v = true ↔ ReachP g u v := by
    intro v
    rw [testBit_childMask, reachP_iff_child]
    constructor
    · rintro ⟨c, hc, h⟩
      exact ⟨c, hc, h.imp id (hall c (hch c hc) v).mp⟩
    · rintro ⟨c, hc, h⟩
      exact ⟨c, hc, h.imp id (hall c (hch c hc) v).mpr⟩
  refine ⟨by simp [maskStep, hlen], ?_⟩
  intro w hw v
  unfold maskStep
  by_cases hwu : u = w
  · subst hwu
    rw [List.getElem?_set_self (by omega)]
    exact hnew v
  · rw [List.getElem?_set_ne hwu]
    rcases List.mem_append.mp hw with hw | hw
    · exact hall w hw v
    · simp only [List.mem_singleton] at hw; exact absurd hw.symm hwu

theorem maskInv_fold {g : Dag} (hwf : WF g) {ord : List Nat} (h : topoOrderB g ord = true) :
    ∀ (post pre acc : List Nat), ord.reverse = pre ++ post → MaskInv g acc pre →
      MaskInv g (post.foldl (maskStep g) acc) (pre ++ post) := by
  intro post
  induction post with
  | nil => intro pre acc _ hinv; simpa using hinv
  | cons u post ih =>
    intro pre acc hsplit hinv
    rw [List.foldl_cons]
    have hu : u < g.n := by
      apply (topoOrderB_mem_iff h).mp
      rw [← List.mem_reverse, hsplit]
      simp
    have hstep := maskInv_step hinv hu (fun c hc => topoOrderB_children_before hwf h hsplit hc)
    have := ih (pre ++ [u]) (maskStep g acc u) (by simpa using hsplit) hstep
    simpa using this

theorem maskInv_reachMasks {g : Dag} (hwf : WF g) {ord : List Nat} (h : topoOrderB g ord = true) :
    MaskInv g (reachMasks g ord.reverse) ord.reverse := by
  rw [reachMasks_eq]
  have := maskInv_fold hwf h ord.reverse [] (List.replicate g.n 0) (by simp)
    ⟨by simp, fun u hu => by cases hu⟩
  simpa using this

end YM
end FG
