/-
  Proofs/LDiamondSP.lean — the two substantial local diamonds: the queuer's actions
  (`queuerRecv`, `queuerEnd`) against `schedPoll`.
-/
import FnGraphVerif.Proofs.LDiamondBase
namespace FG
variable {c : Cfg} {s s' t : PState}

/-! ### a poll that answered `Pending` before the queuer moved is absorbed by the next poll -/

theorem guard_of_sp {s2 : PState} (h : step? c s .schedPoll = some s2) : spGuard c s = false := by
  rw [step_sp] at h
  rcases Bool.eq_false_or_eq_true (spGuard c s) with hg | hg
  · rw [hg] at h; exact absurd h (by simp)
  · exact hg

theorem sp_of_guard (hg : spGuard c s = false) : step? c s .schedPoll =
    spApply c s (pollNext c.strat s.im (readyUnder s)).1 (pollNext c.strat s.im (readyUnder s)).2 := by
  rw [step_sp, hg]; rfl

theorem absorb_join {b : CA} {s1 s2 : PState}
    (hfr : ∀ m, step? c { s with im := m } b.act = some { s1 with im := m })
    (him : s1.im = s.im) (hg : spGuard c s = false) (hg1 : spGuard c s1 = false)
    (hu : readyUnder s = .pending) (hp : (pollNext c.strat s.im .pending).2 = .pending)
    (h2 : step? c s .schedPoll = some s2) : Join c s1 s2 := by
  rw [sp_of_guard hg, hu] at h2
  generalize hm : pollNext c.strat s.im .pending = r at h2 hp
  obtain ⟨m, out⟩ := r
  simp only at hp
  subst hp
  simp only [spApply, Option.some.injEq] at h2
  subst h2
  obtain ⟨t1, ht1⟩ := sp_enabled hg1
  have hm1 : m = (pollNext c.strat s.im .pending).1 := by rw [hm]
  have hpend : (pollNext c.strat s.im .pending).2 = .pending := by rw [hm]
  have hstep : step? c { s1 with im := m } .schedPoll = some t1 := by
    rw [← ht1]
    have hg1' : spGuard c { s1 with im := m } = false := hg1
    rw [sp_of_guard hg1', sp_of_guard hg1]
    have hu1 : readyUnder { s1 with im := m } = readyUnder s1 := rfl
    rw [hu1, spApply_im, him]
    show spApply c s1 (pollNext c.strat m (readyUnder s1)).1 (pollNext c.strat m (readyUnder s1)).2 = _
    rw [hm1, pollNext_absorb c.strat s.im (readyUnder s1) hpend]
  exact ⟨[.sp], [b, .sp], t1, t1, crun_one ht1, crun_two (hfr m) hstep, Sim.refl _⟩

/-! ### `queuerEnd` against `schedPoll` -/

theorem readyUnder_qe (h : readyUnder s ≠ .pending) :
    readyUnder { s with qDone := true, readyTxOpen := false } = readyUnder s := by
  unfold readyUnder at h ⊢
  simp only at h ⊢
  cases h1 : s.readyQ.isEmpty <;> cases h2 : s.readyTxOpen <;> simp_all

theorem spApply_qe_frame (m : IM) (out : Out) :
    spApply c { s with qDone := true, readyTxOpen := false } m out =
      (spApply c s m out).map (fun t => { t with qDone := true, readyTxOpen := false }) := by
  cases out with
  | pending => rfl
  | endd => rfl
  | intNone => rfl
  | noInt => simp only [spApply]; split <;> rfl
  | intSome =>
    simp only [spApply]
    split
    · rfl
    · split <;> rfl

theorem lc_qe_sp {s1 s2 : PState} (h1 : step? c s .queuerEnd = some s1) (h2 : step? c s .schedPoll = some s2) :
    Join c s1 s2 := by
  obtain ⟨hqd, hdt, hdq, rfl⟩ := queuerEnd_cases h1
  have hg := guard_of_sp h2
  have hg1 : spGuard c { s with qDone := true, readyTxOpen := false } = false := hg
  by_cases hpend : readyUnder s = .pending ∧ (pollNext c.strat s.im .pending).2 = .pending
  · refine absorb_join (s := s) (b := .qe) ?_ rfl hg hg1 hpend.1 hpend.2 h2
    intro m
    simp only [CA.act, step_qe, hqd, hdt, hdq]
    rfl
  · have hP : pollNext c.strat s.im (readyUnder { s with qDone := true, readyTxOpen := false }) =
        pollNext c.strat s.im (readyUnder s) := by
      by_cases hu : readyUnder s = .pending
      · have hnp : (pollNext c.strat s.im .pending).2 ≠ .pending := fun h => hpend ⟨hu, h⟩
        rw [hu, pollNext_indep _ _ _ hnp]
      · rw [readyUnder_qe hu]
    rw [sp_of_guard hg] at h2
    have hs1 : step? c { s with qDone := true, readyTxOpen := false } .schedPoll =
        some { s2 with qDone := true, readyTxOpen := false } := by
      rw [sp_of_guard hg1]
      show spApply c _ (pollNext c.strat s.im _).1 (pollNext c.strat s.im _).2 = _
      rw [hP, spApply_qe_frame, h2]
      rfl
    obtain ⟨e1, e2, _, e4⟩ := spApply_queuer h2
    have hs2 : step? c s2 .queuerEnd = some { s2 with qDone := true, readyTxOpen := false } := by
      simp only [step_qe, e1, e2, e4 hdt, hqd, hdq]
      rfl
    exact Join.of_steps (a := .qe) (b := .sp) hs1 hs2 (Sim.refl _)

/-! ### `queuerRecv` against `schedPoll` -/

theorem readyUnder_qr {x : Nat} {rest : List Nat} (h : readyUnder s ≠ .pending) :
    readyUnder (qrApply c s x rest) = readyUnder s := by
  unfold readyUnder at h ⊢
  cases hq : s.readyQ with
  | nil =>
    rw [hq] at h
    simp only [List.isEmpty_nil, Bool.not_true, Bool.false_eq_true, if_false] at h ⊢
    have htx : s.readyTxOpen = false := by
      cases h2 : s.readyTxOpen with
      | false => rfl
      | true => rw [h2] at h; simp at h
    have e1 : (qrApply c s x rest).readyTxOpen = false := by simp [qrApply, htx]
    have e2 : (qrApply c s x rest).readyQ = [] := by
      simp only [qrApply, htx, Bool.false_and]
      rw [relFold_ready_closed, hq]
    simp [e1, e2, htx]
  | cons f r =>
    obtain ⟨t, ht, _⟩ := relFold_ready_sub ((s.readyTxOpen && (s.qRemaining - 1 != 0)) && s.readyRxOpen) c.cap
      (children c.D x) (s.counts, s.readyQ, s.panic || s.qRemaining == 0)
    have e2 : (qrApply c s x rest).readyQ = f :: (r ++ t) := by
      simp only [qrApply]
      rw [ht, hq]; rfl
    simp [e2]

/-- `queuerRecv` and a `schedPoll` with the same answer of the interruptible stream commute, up to the
    ready queue when the poll ends the stream -/
theorem qr_sp_commute (hc : GoodCfg c) (hinv : Inv0 c s) {x : Nat} {rest : List Nat}
    (hq : s.doneQ = x :: rest) {m : IM} {out : Out} {s2 : PState} (h2 : spApply c s m out = some s2)
    (hp1 : ∀ t1, spApply c (qrApply c s x rest) m out = some t1 → t1.panic = false)
    (hp2 : (qrApply c s2 x rest).panic = false) :
    ∃ t1, spApply c (qrApply c s x rest) m out = some t1 ∧ Sim t1 (qrApply c s2 x rest) := by
  have hroom := qr_room hc hinv hq
  have hnd : (children c.D x).Nodup := (hc.simple x).1
  cases out with
  | pending =>
    simp only [spApply, Option.some.injEq] at h2
    subst h2
    exact ⟨_, rfl, Sim.refl _⟩
  | intNone =>
    simp only [spApply, Option.some.injEq] at h2
    subst h2
    exact ⟨_, rfl, Sim.refl _⟩
  | endd =>
    simp only [spApply, Option.some.injEq] at h2
    subst h2
    refine ⟨_, rfl, ?_⟩
    have hp1' := hp1 _ rfl
    apply sim_of_fields <;> try rfl
    · exact relFold_fst_indep _ _ _ _ _ _ _ _ _ _
    · intro h; exact absurd h (by simp)
    · rw [hp1', hp2]
  | noInt =>
    simp only [spApply] at h2
    split at h2
    · exact absurd h2 (by simp)
    · rename_i f r hqr
      simp only [Option.some.injEq] at h2
      subst h2
      have e1 : (qrApply c s x rest).readyQ = f :: (r ++ qrExt c s x) := by
        rw [qrApply_readyQ_eq rest hnd hroom, hqr]; rfl
      have hroom2 : (handOut c { s with im := m } f r).readyQ.length + (children c.D x).length ≤ c.cap := by
        rw [hqr] at hroom
        simp only [handOut, List.length_cons] at hroom ⊢
        omega
      have e2 : (qrApply c (handOut c { s with im := m } f r) x rest).readyQ = r ++ qrExt c s x := by
        rw [qrApply_readyQ_eq rest hnd hroom2]; rfl
      have hsp : spApply c (qrApply c s x rest) m .noInt =
          some (handOut c { qrApply c s x rest with im := m } f (r ++ qrExt c s x)) := by
        simp only [spApply, e1]
      refine ⟨_, hsp, ?_⟩
      have hp1' := hp1 _ hsp
      have : handOut c { qrApply c s x rest with im := m } f (r ++ qrExt c s x) =
          qrApply c (handOut c { s with im := m } f r) x rest := by
        apply PState.ext' <;> try rfl
        · exact relFold_fst_indep _ _ _ _ _ _ _ _ _ _
        · rw [e2]; rfl
        · rw [hp1', hp2]
      rw [this]
      exact Sim.refl _
  | intSome =>
    simp only [spApply] at h2
    split at h2
    · exact absurd h2 (by simp)
    · rename_i f r hqr
      have e1 : (qrApply c s x rest).readyQ = f :: (r ++ qrExt c s x) := by
        rw [qrApply_readyQ_eq rest hnd hroom, hqr]; rfl
      split at h2
      · rename_i hincl
        simp only [Option.some.injEq] at h2
        subst h2
        have hroom2 : ({ handOut c { s with im := m } f r with closeAfter := some f } : PState).readyQ.length
            + (children c.D x).length ≤ c.cap := by
          rw [hqr] at hroom
          simp only [handOut, List.length_cons] at hroom ⊢
          omega
        have e2 : (qrApply c { handOut c { s with im := m } f r with closeAfter := some f } x rest).readyQ
            = r ++ qrExt c s x := by
          rw [qrApply_readyQ_eq rest hnd hroom2]; rfl
        have hsp : spApply c (qrApply c s x rest) m .intSome =
            some { handOut c { qrApply c s x rest with im := m } f (r ++ qrExt c s x) with closeAfter := some f } := by
          simp only [spApply, e1, hincl, if_true]
        refine ⟨_, hsp, ?_⟩
        have hp1' := hp1 _ hsp
        have : ({ handOut c { qrApply c s x rest with im := m } f (r ++ qrExt c s x) with closeAfter := some f } : PState) =
            qrApply c { handOut c { s with im := m } f r with closeAfter := some f } x rest := by
          apply PState.ext' <;> try rfl
          · exact relFold_fst_indep _ _ _ _ _ _ _ _ _ _
          · rw [e2]; rfl
          · rw [hp1', hp2]
        rw [this]
        exact Sim.refl _
      · rename_i hincl
        simp only [Option.some.injEq] at h2
        subst h2
        have hroom2 : ({ s with im := m, readyQ := r, dropped := some f, doneTxOpen := false } : PState).readyQ.length
            + (children c.D x).length ≤ c.cap := by
          rw [hqr] at hroom
          simp only [List.length_cons] at hroom ⊢
          omega
        have e2 : (qrApply c { s with im := m, readyQ := r, dropped := some f, doneTxOpen := false } x rest).readyQ
            = r ++ qrExt c s x := by
          rw [qrApply_readyQ_eq rest hnd hroom2]; rfl
        have hsp : spApply c (qrApply c s x rest) m .intSome =
            some { qrApply c s x rest with im := m, readyQ := r ++ qrExt c s x, dropped := some f, doneTxOpen := false } := by
          simp only [spApply, e1, hincl, Bool.false_eq_true, if_false]
        refine ⟨_, hsp, ?_⟩
        have hp1' := hp1 _ hsp
        have : ({ qrApply c s x rest with im := m, readyQ := r ++ qrExt c s x, dropped := some f, doneTxOpen := false } : PState) =
            qrApply c { s with im := m, readyQ := r, dropped := some f, doneTxOpen := false } x rest := by
          apply PState.ext' <;> try rfl
          · exact relFold_fst_indep _ _ _ _ _ _ _ _ _ _
          · rw [e2]
          · rw [hp1', hp2]
        rw [this]
        exact Sim.refl _

end FG
