/-
  Proofs/SCoupling.lean — the coupling `Cpl` between the state of the model run that produced the
  events (the "real" state) and the state of the tracking monitor, and its preservation by every
  kind of step of an `ObsRun`, together with the notes the monitor emits for the step's events.
  The two model states are related by `JoinC` (a common reduct by core actions modulo `SimC`): the
  monitor runs internal actions in its own order (eagerly in `settle`, lazily otherwise), the real
  run in any order.
-/
import FnGraphVerif.Proofs.SCommuteC
namespace FG
variable {x : MonCtx} {s s1 : PState} {t : TrackSt}

structure Cpl (x : MonCtx) (s : PState) (t : TrackSt) : Prop where
  rs : Reachable x.c s
  rt : Reachable x.c t.s
  join : JoinC x.c s t.s
  ho : t.s.handedOut = s.handedOut
  infl : t.s.inflight = s.inflight
  inv : ∀ f ∈ s.invoked, f ∈ t.s.invoked
  rInv : t.realInvoked = s.invoked
  rHo : t.realHandout = s.handedOut

theorem cpl_init (x : MonCtx) : Cpl x (init x.c) { s := init x.c } where
  rs := .init
  rt := .init
  join := JoinC.refl _
  ho := rfl
  infl := rfl
  inv := fun _ h => h
  rInv := rfl
  rHo := rfl

/-! ### general facts about `settle` -/

theorem settle_handedOut_prefix (c : Cfg) (s : PState) : s.handedOut <+: (settle c s).handedOut := by
  obtain ⟨as, _, hrun⟩ := settleN_run (c := c) (settleFuel c) s
  exact run_handedOut_prefix hrun

theorem settle_invoked_prefix (c : Cfg) (s : PState) : s.invoked <+: (settle c s).invoked := by
  obtain ⟨as, _, hrun⟩ := settleN_run (c := c) (settleFuel c) s
  exact run_invoked_prefix hrun

/-! ### silent steps of the real run -/

theorem cpl_silent (hx : GoodCtx x) (h : Cpl x s t) {a : Action} (ha : a.internal)
    (hs : step? x.c s a = some s1) (hho : s1.handedOut = s.handedOut) (hin : s1.inflight = s.inflight)
    (hiv : s1.invoked = s.invoked) : Cpl x s1 t where
  rs := Reachable.step _ h.rs hs
  rt := h.rt
  join := JoinC.trans hx.good (Reachable.step _ h.rs hs) h.rs h.rt
    (JoinC.of_internal_step hx.good h.rs ha hs).symm h.join
  ho := by rw [hho]; exact h.ho
  infl := by rw [hin]; exact h.infl
  inv := by rw [hiv]; exact h.inv
  rInv := by rw [hiv]; exact h.rInv
  rHo := by rw [hho]; exact h.rHo

/-! ### a hand-out -/

theorem cpl_handout (hx : GoodCtx x) (hcoop : x.coop = false) (h : Cpl x s t)
    (hs : step? x.c s .schedPoll = some s1) {g : Nat} (hho : s1.handedOut = s.handedOut ++ [g])
    (hin : s1.inflight = s.inflight ++ [g]) (hiv : s1.invoked = s.invoked) :
    Cpl x s1 (trackFut x t (.handout g)).1 ∧ ∀ n ∈ (trackFut x t (.handout g)).2, n.ok = true := by
  have hc := hx.good
  have hrs1 : Reachable x.c s1 := Reachable.step _ h.rs hs
  have hsp : Action.schedPoll.internal := ⟨by simp, by simp⟩
  have hj1 : JoinC x.c s1 t.s :=
    JoinC.trans hc hrs1 h.rs h.rt (JoinC.of_internal_step hc h.rs hsp hs).symm h.join
  -- the monitor's advance
  have hadv : handoutAdv x t g = advanceUntil x.c
      (fun u => decide (t.s.handedOut.length < u.handedOut.length)) (trackFuel x.c) t.s := by
    unfold handoutAdv; rw [handoutStart_noncoop hcoop]
  obtain ⟨P, hP⟩ : ∃ P : PState → Bool, P = (fun u : PState => decide (t.s.handedOut.length < u.handedOut.length)) :=
    ⟨_, rfl⟩
  rw [← hP] at hadv
  -- it succeeds
  have hPsettle : P (settle x.c t.s) = true := by
    subst hP
    have e := (JoinC.settle_sim hc hrs1 h.rt hj1).handedOut
    have hp := settle_handedOut_prefix x.c s1
    rw [e, hho] at hp
    have := hp.length_le
    simp only [List.length_append, List.length_cons, List.length_nil] at this
    simp only [decide_eq_true_eq]
    rw [h.ho]; omega
  have hr2 : (handoutAdv x t g).2 = true := by
    rw [hadv]; exact advanceUntil_succeeds hc h.rt P (trackFuel_ge x.c) hPsettle
  obtain ⟨as0, has0, hrun0⟩ := advanceUntil_run x.c P (trackFuel x.c) t.s
  rw [← hadv] at hrun0
  have hrr : Reachable x.c (handoutAdv x t g).1 := run_reachable_G h.rt hrun0
  have hjr : JoinC x.c t.s (handoutAdv x t g).1 := JoinC.of_nonext_run hc h.rt has0 hrun0
  have hj2 : JoinC x.c s1 (handoutAdv x t g).1 := JoinC.trans hc hrs1 h.rt hrr hj1 hjr
  -- where it stops
  have hstop : ∃ g', (handoutAdv x t g).1.handedOut = t.s.handedOut ++ [g'] ∧
      (handoutAdv x t g).1.inflight = t.s.inflight ++ [g'] := by
    have hr2' := hr2
    rw [hadv] at hr2' ⊢
    obtain ⟨hp1, hcase⟩ := advanceUntil_true' P (trackFuel x.c) t.s hr2'
    subst hP
    rcases hcase with he | ⟨s0, a, as, has, hrun, hp0, hlast⟩
    · rw [he] at hp1
      simp at hp1
    · obtain ⟨L, e1, e2⟩ := nonext_run_shape has hrun
      have hL : L = [] := by
        simp only [decide_eq_false_iff_not, e1, List.length_append] at hp0
        exact List.length_eq_zero_iff.mp (by omega)
      subst hL
      simp only [List.append_nil] at e1 e2
      have hint : a.internal := Action.internal_iff.mpr (settle1_notExternal hlast)
      rcases internal_step_shape hint (settle1_step hlast) with ⟨d1, _⟩ | ⟨g', d1, d2⟩
      · exfalso
        simp only [decide_eq_true_eq, d1, e1] at hp1
        omega
      · exact ⟨g', by rw [d1, e1], by rw [d2, e2]⟩
  obtain ⟨g', hg1, hg2⟩ := hstop
  have hgg : g' = g := by
    have e := (JoinC.settle_sim hc hrs1 hrr hj2).handedOut
    have p1 := settle_handedOut_prefix x.c s1
    have p2 := settle_handedOut_prefix x.c (handoutAdv x t g).1
    rw [← e, hg1, h.ho] at p2
    rw [hho] at p1
    exact snoc_prefix_inj p2 p1
  subst hgg
  have hstate : (trackFut x t (.handout g')).1 =
      { t with s := (handoutAdv x t g').1, realHandout := t.realHandout ++ [g'], sawHandoutHook := true } := rfl
  constructor
  · rw [hstate]
    exact {
      rs := hrs1
      rt := hrr
      join := hj2
      ho := by show (handoutAdv x t g').1.handedOut = _; rw [hg1, hho, h.ho]
      infl := by show (handoutAdv x t g').1.inflight = _; rw [hg2, hin, h.infl]
      inv := by
        intro f hf
        rw [hiv] at hf
        exact (run_invoked_prefix hrun0).subset (h.inv f hf)
      rInv := by show t.realInvoked = _; rw [hiv]; exact h.rInv
      rHo := by show t.realHandout ++ [g'] = _; rw [hho, h.rHo] }
  · intro n hn
    rw [trackFut_handout_notes, hr2] at hn
    simp only [if_true, List.mem_singleton] at hn
    subst hn
    rw [Note.ok_cmp, hg1, List.drop_left, natsText_single]

/-! ### an invocation -/

theorem cpl_invoke (hx : GoodCtx x) (h : Cpl x s t) {f : Nat}
    (hs : step? x.c s (.invoke f) = some s1) :
    Cpl x s1 (trackFut x t (.invoke f)).1 ∧ ∀ n ∈ (trackFut x t (.invoke f)).2, n.ok = true := by
  have hc := hx.good
  obtain ⟨hfi, hfn, hs1⟩ := invoke_cases hs
  have hrs1 : Reachable x.c s1 := Reachable.step _ h.rs hs
  have hsim1 : Sim s1 s := by rw [hs1]; rfl
  have hfit : f ∈ t.s.inflight := by rw [h.infl]; exact hfi
  have hstate : (trackFut x t (.invoke f)).1 =
      { t with s := (invokeAdv x t f).1, realInvoked := t.realInvoked ++ [f] } := rfl
  have hnotes : (trackFut x t (.invoke f)).2 =
      [.cmp "R-step" (Ev.invoke f).text (if (invokeAdv x t f).2 then "enabled" else "not-enabled") "enabled"] := rfl
  by_cases hA : f ∈ t.s.invoked
  · -- the monitor has already invoked `f` (eagerly)
    have hcnt : t.realInvoked.count f < t.s.invoked.count f := by
      rw [h.rInv, List.count_eq_zero.mpr hfn]
      exact List.count_pos_iff.mpr hA
    have hadv : invokeAdv x t f = (t.s, true) := by
      unfold invokeAdv
      rw [if_neg (fun hh => hh.2 hA), if_pos ⟨hA, hcnt⟩]
    constructor
    · rw [hstate, hadv]
      exact {
        rs := hrs1
        rt := h.rt
        join := JoinC.trans hc hrs1 h.rs h.rt (JoinC.of_sim hsim1.toC) h.join
        ho := by show t.s.handedOut = _; rw [hs1]; exact h.ho
        infl := by show t.s.inflight = _; rw [hs1]; exact h.infl
        inv := by
          intro g hg
          rw [hs1] at hg
          rcases List.mem_append.mp hg with hg | hg
          · exact h.inv g hg
          · rw [List.mem_singleton.mp hg]; exact hA
        rInv := by show t.realInvoked ++ [f] = _; rw [hs1, h.rInv]
        rHo := by show t.realHandout = _; rw [hs1]; exact h.rHo }
    · intro n hn
      rw [hnotes, hadv] at hn
      simp only [if_true, List.mem_singleton] at hn
      subst hn
      rfl
  · -- the monitor invokes `f` now
    have hstep : step? x.c t.s (.invoke f) = some { t.s with invoked := t.s.invoked ++ [f] } := by
      simp only [step?, hfit, hA, not_false_eq_true, and_self, if_true]
    have hadv : invokeAdv x t f = ({ t.s with invoked := t.s.invoked ++ [f] }, true) := by
      unfold invokeAdv
      rw [if_pos ⟨hfit, hA⟩, hstep]
      rfl
    have hrt1 : Reachable x.c { t.s with invoked := t.s.invoked ++ [f] } := Reachable.step _ h.rt hstep
    constructor
    · rw [hstate, hadv]
      exact {
        rs := hrs1
        rt := hrt1
        join := JoinC.trans hc hrs1 h.rs hrt1 (JoinC.of_sim hsim1.toC)
          (JoinC.trans hc h.rs h.rt hrt1 h.join (JoinC.of_sim (show Sim t.s { t.s with invoked := t.s.invoked ++ [f] } from rfl).toC))
        ho := by show t.s.handedOut = _; rw [hs1]; exact h.ho
        infl := by show t.s.inflight = _; rw [hs1]; exact h.infl
        inv := by
          intro g hg
          rw [hs1] at hg
          show g ∈ t.s.invoked ++ [f]
          rcases List.mem_append.mp hg with hg | hg
          · exact List.mem_append_left _ (h.inv g hg)
          · exact List.mem_append_right _ hg
        rInv := by show t.realInvoked ++ [f] = _; rw [hs1, h.rInv]
        rHo := by show t.realHandout = _; rw [hs1]; exact h.rHo }
    · intro n hn
      rw [hnotes, hadv] at hn
      simp only [if_true, List.mem_singleton] at hn
      subst hn
      rfl

/-! ### the monitor keeps invoking in hand-out order as long as the real run does -/

theorem fifo_handout (hx : GoodCtx x) (hcoop : x.coop = false) (h : Cpl x s t) (g : Nat)
    (hfi : FifoInv t.s) : FifoInv (trackFut x t (.handout g)).1.s := by
  show FifoInv (handoutAdv x t g).1
  unfold handoutAdv
  rw [handoutStart_noncoop hcoop]
  exact fifoInv_advanceUntil hx.good _ _ h.rt hfi

theorem fifo_invoke (hx : GoodCtx x) (h : Cpl x s t) {f : Nat}
    (hs : step? x.c s (.invoke f) = some s1) (hfi : FifoInv t.s)
    (hfifo : s.invoked ++ [f] <+: s.handedOut) : FifoInv (trackFut x t (.invoke f)).1.s := by
  have hc := hx.good
  obtain ⟨hfin, hfn, hs1⟩ := invoke_cases hs
  have hfit : f ∈ t.s.inflight := by rw [h.infl]; exact hfin
  show FifoInv (invokeAdv x t f).1
  by_cases hA : f ∈ t.s.invoked
  · have hcnt : t.realInvoked.count f < t.s.invoked.count f := by
      rw [h.rInv, List.count_eq_zero.mpr hfn]
      exact List.count_pos_iff.mpr hA
    have hadv : invokeAdv x t f = (t.s, true) := by
      unfold invokeAdv
      rw [if_neg (fun hh => hh.2 hA), if_pos ⟨hA, hcnt⟩]
    rw [hadv]; exact hfi
  · have hstep : step? x.c t.s (.invoke f) = some { t.s with invoked := t.s.invoked ++ [f] } := by
      simp only [step?, hfit, hA, not_false_eq_true, and_self, if_true]
    have hadv : invokeAdv x t f = ({ t.s with invoked := t.s.invoked ++ [f] }, true) := by
      unfold invokeAdv
      rw [if_pos ⟨hfit, hA⟩, hstep]
      rfl
    rw [hadv]
    -- the monitor is not ahead: it has invoked exactly what the real run has
    have hinvS := inv0_reachable hc h.rs
    have hinvT := inv0_reachable hc h.rt
    have hpT : t.s.invoked <+: s.handedOut := by
      rw [← h.ho]
      have := hfi
      unfold FifoInv at this
      rw [this]
      exact List.prefix_append _ _
    have hpS : s.invoked <+: s.handedOut := (List.prefix_append _ _).trans hfifo
    have hlen : t.s.invoked.length ≤ s.invoked.length := by
      by_contra hlt
      have : s.invoked ++ [f] <+: t.s.invoked :=
        List.prefix_of_prefix_length_le hfifo hpT (by simp; omega)
      exact hA (this.subset (by simp))
    have hlen2 : s.invoked.length ≤ t.s.invoked.length :=
      List.Nodup.length_le_of_subset hinvS.invNodup h.inv
    have heq : t.s.invoked = s.invoked := prefix_eq_of_length_le hpT hpS hlen2 hlen
    have hhead : (t.s.inflight.filter (fun g => decide (g ∉ t.s.invoked))).head? = some f := by
      have hfi' := hfi
      unfold FifoInv at hfi'
      rw [h.ho, heq] at hfi'
      rw [hfi'] at hfifo
      have := (List.prefix_append_right_inj _).mp hfifo
      rw [heq]
      cases hU : t.s.inflight.filter (fun g => decide (g ∉ s.invoked)) with
      | nil => rw [hU] at this; simp at this
      | cons u U =>
        rw [hU] at this
        obtain ⟨R, hR⟩ := this
        simp only [List.singleton_append, List.cons.injEq] at hR
        rw [hR.1]; rfl
    exact fifoInv_step hinvT hfi hstep (by
      intro g hg
      simp only [Action.invoke.injEq] at hg
      subst hg
      exact hhead)

theorem fifo_finish (hx : GoodCtx x) (h : Cpl x s t) {f : Nat} {ok : Bool}
    (hs : step? x.c s (.finish f ok) = some s1) (hfi : FifoInv t.s) :
    FifoInv (trackFut x t (.fin f ok)).1.s := by
  obtain ⟨⟨hfin, hfv⟩, hfa⟩ := fin_guard hs
  have hfit : f ∈ t.s.inflight := by rw [h.infl]; exact hfin
  have hfvt : f ∈ t.s.invoked := h.inv f hfv
  have hstart : finStart x t f = t.s := by unfold finStart; rw [if_pos hfvt]
  obtain ⟨t1, ht1⟩ := finApply_some_congr hfa t.s
  have hstep : step? x.c t.s (.finish f ok) = some t1 := by rw [step_fin_of hfit hfvt]; exact ht1
  rw [trackFut_fin, hstart, hstep]
  exact fifoInv_step (inv0_reachable hx.good h.rt) hfi hstep (by intro g hg; cases hg)

/-! ### a completion -/

theorem cpl_finish (hx : GoodCtx x) (h : Cpl x s t) {f : Nat} {ok : Bool}
    (hs : step? x.c s (.finish f ok) = some s1) :
    Cpl x s1 (trackFut x t (.fin f ok)).1 ∧ ∀ n ∈ (trackFut x t (.fin f ok)).2, n.ok = true := by
  have hc := hx.good
  obtain ⟨⟨hfi, hfv⟩, hfa⟩ := fin_guard hs
  have hrs1 : Reachable x.c s1 := Reachable.step _ h.rs hs
  have hfit : f ∈ t.s.inflight := by rw [h.infl]; exact hfi
  have hfvt : f ∈ t.s.invoked := h.inv f hfv
  have hstart : finStart x t f = t.s := by unfold finStart; rw [if_pos hfvt]
  obtain ⟨t1, ht1⟩ := finApply_some_congr hfa t.s
  have hstep : step? x.c t.s (.finish f ok) = some t1 := by rw [step_fin_of hfit hfvt]; exact ht1
  obtain ⟨a1, a2, a3⟩ := finApply_shape hfa
  obtain ⟨b1, b2, b3⟩ := finApply_shape ht1
  have htf : trackFut x t (.fin f ok) =
      ({ t with s := t1 }, [.cmp "R-step" (Ev.fin f ok).text "enabled" "enabled"]) := by
    rw [trackFut_fin, hstart, hstep]
  rw [htf]
  constructor
  · exact {
      rs := hrs1
      rt := Reachable.step _ h.rt hstep
      join := joinC_finish hc hx.api h.rs h.rt h.join hs hstep
      ho := by show t1.handedOut = _; rw [b2, a2, h.ho]
      infl := by show t1.inflight = _; rw [b1, a1, h.infl]
      inv := by
        intro g hg
        show g ∈ t1.invoked
        rw [b3]; rw [a3] at hg; exact h.inv g hg
      rInv := by show t.realInvoked = _; rw [a3]; exact h.rInv
      rHo := by show t.realHandout = _; rw [a2]; exact h.rHo }
  · intro n hn
    simp only [List.mem_singleton] at hn
    subst hn
    rfl

/-! ### an interrupt signal -/

theorem joinC_interrupt_non {c : Cfg} {s t : PState} (hst : c.strat = .non) (hj : JoinC c s t) :
    JoinC c (intrSt s) (intrSt t) := by
  obtain ⟨as, bs, u1, u2, hu1, hu2, hsim⟩ := hj
  exact ⟨as, bs, intrSt u1, intrSt u2, crun_intr_frame hst as hu1, crun_intr_frame hst bs hu2, simC_intr hsim⟩

theorem cpl_interrupt_of (h : Cpl x s t) (hj : JoinC x.c (intrSt s) (intrSt t.s)) :
    Cpl x (intrSt s) (trackFut x t .intr).1 ∧ ∀ n ∈ (trackFut x t .intr).2, n.ok = true := by
  have htf : trackFut x t .intr = ({ t with s := intrSt t.s }, []) := rfl
  rw [htf]
  constructor
  · exact {
      rs := Reachable.step .interrupt h.rs rfl
      rt := Reachable.step .interrupt h.rt rfl
      join := hj
      ho := h.ho
      infl := h.infl
      inv := h.inv
      rInv := h.rInv
      rHo := h.rHo }
  · intro n hn; cases hn

/-- `NonInterruptible`: the signal is never looked at, it may arrive at any time -/
theorem cpl_interrupt_non (hst : x.c.strat = .non) (h : Cpl x s t) :
    Cpl x (intrSt s) (trackFut x t .intr).1 ∧ ∀ n ∈ (trackFut x t .intr).2, n.ok = true :=
  cpl_interrupt_of h (joinC_interrupt_non hst h.join)

/-- any strategy: the signal arrives while the real state and the monitor state are `SimC`-equal
    (directly after a `q` observation, or before anything else has happened) -/
theorem cpl_interrupt_sync (h : Cpl x s t) (hsim : SimC s t.s) :
    Cpl x (intrSt s) (trackFut x t .intr).1 ∧ ∀ n ∈ (trackFut x t .intr).2, n.ok = true :=
  cpl_interrupt_of h (JoinC.of_sim (simC_intr hsim))

end FG
