/-
  Proofs/ProtoFSched.lean — `Inv0` is preserved by the scheduler's poll (`schedPoll`), by
  `invoke`, `interrupt`, `schedEnd` and `ret`.
-/
import FnGraphVerif.Proofs.ProtoFBase
namespace FG
variable {c : Cfg} {s s' : PState}

/-- the three shapes of a `schedPoll` step -/
theorem step_schedPoll_F (h : step? c s .schedPoll = some s') :
    s.sDone = false ∧ underLimit c s = true ∧
    ((∃ m se rx dtx, s' = { s with im := m, streamEnded := se, readyRxOpen := rx, doneTxOpen := dtx }) ∨
     (∃ m ca f rest, s.readyQ = f :: rest ∧
        s' = { handOut c { s with im := m } f rest with closeAfter := ca }) ∨
     (∃ m f rest, s.readyQ = f :: rest ∧
        s' = { s with im := m, readyQ := rest, dropped := some f, doneTxOpen := false })) := by
  simp only [step?] at h
  split at h
  · cases h
  · rename_i hg
    simp only [Bool.or_eq_true, Bool.not_eq_true', not_or, Bool.not_eq_true, Bool.not_eq_false] at hg
    refine ⟨hg.1.1, hg.2, ?_⟩
    generalize pollNext c.strat s.im (readyUnder s) = r at h
    obtain ⟨m, out⟩ := r
    cases out with
    | pending =>
      simp only at h; cases h
      exact Or.inl ⟨m, s.streamEnded, s.readyRxOpen, s.doneTxOpen, rfl⟩
    | endd =>
      simp only at h; cases h
      exact Or.inl ⟨m, true, false, s.doneTxOpen, rfl⟩
    | intNone =>
      simp only at h; cases h
      exact Or.inl ⟨m, s.streamEnded, s.readyRxOpen, false, rfl⟩
    | noInt =>
      simp only at h
      cases hq : s.readyQ with
      | nil => simp [hq] at h
      | cons f rest =>
        simp only [hq] at h; cases h
        exact Or.inr (Or.inl ⟨m, s.closeAfter, f, rest, rfl, rfl⟩)
    | intSome =>
      simp only at h
      cases hq : s.readyQ with
      | nil => simp [hq] at h
      | cons f rest =>
        simp only [hq] at h
        split at h
        · cases h
          exact Or.inr (Or.inl ⟨m, some f, f, rest, rfl, rfl⟩)
        · cases h
          exact Or.inr (Or.inr ⟨m, f, rest, rfl, rfl⟩)

theorem underLimit_seq (hu : underLimit c s = true) (hs : c.sequential = true) : s.inflight = [] := by
  unfold underLimit at hu
  rw [if_pos hs] at hu
  exact List.isEmpty_iff.mp hu

theorem underLimit_par (hu : underLimit c s = true) (hs : c.sequential = false) {l : Nat}
    (hl : c.limit = some (l + 1)) : s.inflight.length < l + 1 := by
  unfold underLimit at hu
  simp only [hs, Bool.false_eq_true, if_false, hl] at hu
  simpa using hu

theorem inv0_handOut (hinv : Inv0 c s) {f : Nat} {rest : List Nat} (hq : s.readyQ = f :: rest)
    (hsd : s.sDone = false) (hu : underLimit c s = true) (m : IM) (ca : Option Nat) :
    Inv0 c { handOut c { s with im := m } f rest with closeAfter := ca } := by
  obtain ⟨hfr, hfh, hfd⟩ := hinv.head_not_handed hq
  have hfi : f ∉ s.inflight := fun h => hfh (hinv.inflHanded f h)
  have hfe : f ∉ s.endedOk ∧ f ∉ s.failed :=
    ⟨fun h => hfh (hinv.endedHanded f (Or.inl h)), fun h => hfh (hinv.endedHanded f (Or.inr h))⟩
  have hmem : ∀ v, (v ∈ rest ∨ v ∈ s.handedOut ++ [f] ∨ s.dropped = some v) →
      (v ∈ s.readyQ ∨ v ∈ s.handedOut ∨ s.dropped = some v) := by
    intro v hv
    rw [hq]
    simp only [List.mem_append, List.mem_cons, List.not_mem_nil, or_false] at hv ⊢
    rcases hv with h | (h | h) | h
    · exact Or.inl (Or.inr h)
    · exact Or.inr (Or.inl h)
    · exact Or.inl (Or.inl h)
    · exact Or.inr (Or.inr h)
  unfold handOut
  exact { hinv with
    ready := fun v hv => hinv.ready v (hmem v hv)
    bound := fun v hv => hinv.bound v (hmem v hv)
    queueNodup := by
      have hqn := hinv.queueNodup
      rw [hq] at hqn
      have e : rest ++ (s.handedOut ++ [f]) ++ s.dropped.toList
          = (rest ++ s.handedOut) ++ f :: s.dropped.toList := by simp
      show (rest ++ (s.handedOut ++ [f]) ++ s.dropped.toList).Nodup
      rw [e, List.Perm.nodup_iff List.perm_middle]
      simpa using hqn
    inflHanded := by
      intro g hg
      simp only [List.mem_append, List.mem_singleton] at hg ⊢
      rcases hg with hg | hg
      · exact Or.inl (hinv.inflHanded g hg)
      · exact Or.inr hg
    inflNodup := nodup_snoc_F.mpr ⟨hinv.inflNodup, hfi⟩
    inflNotEnded := by
      intro g hg
      simp only [List.mem_append, List.mem_singleton] at hg
      rcases hg with hg | rfl
      · exact hinv.inflNotEnded g hg
      · exact hfe
    endedHanded := fun g hg => List.mem_append.mpr (Or.inl (hinv.endedHanded g hg))
    handedSplit := by
      intro g hg
      simp only [List.mem_append, List.mem_singleton] at hg ⊢
      rcases hg with hg | hg
      · rcases hinv.handedSplit g hg with h | h
        · exact Or.inl (Or.inl h)
        · exact Or.inr h
      · exact Or.inl (Or.inr hg)
    invHanded := fun g hg => List.mem_append.mpr (Or.inl (hinv.invHanded g hg))
    noPanic := by
      show (s.panic || (c.isMut && decide (f ∈ s.inflight))) = false
      simp [hinv.noPanic, hfi]
    limSeq := by
      intro hs
      have := underLimit_seq hu hs
      show (s.inflight ++ [f]).length ≤ 1
      simp [this]
    limPar := by
      intro hs l hl
      have := underLimit_par hu hs hl
      show (s.inflight ++ [f]).length ≤ l + 1
      simp only [List.length_append, List.length_singleton]; omega
    sDoneInfl0 := by
      intro h; exact absurd (show s.sDone = true from h) (by simp [hsd])
    ret0 := by
      intro r hr
      have := (hinv.ret0 r hr).1
      rw [hsd] at this; cases this }

theorem inv0_dropOut (hinv : Inv0 c s) {f : Nat} {rest : List Nat} (hq : s.readyQ = f :: rest) (m : IM) :
    Inv0 c { s with im := m, readyQ := rest, dropped := some f, doneTxOpen := false } := by
  obtain ⟨hfr, hfh, hfd⟩ := hinv.head_not_handed hq
  have hmem : ∀ v, (v ∈ rest ∨ v ∈ s.handedOut ∨ some f = some v) →
      (v ∈ s.readyQ ∨ v ∈ s.handedOut ∨ s.dropped = some v) := by
    intro v hv
    rw [hq]
    simp only [List.mem_cons, Option.some.injEq] at hv ⊢
    rcases hv with h | h | h
    · exact Or.inl (Or.inr h)
    · exact Or.inr (Or.inl h)
    · exact Or.inl (Or.inl h.symm)
  exact { hinv with
    ready := fun v hv => hinv.ready v (hmem v hv)
    bound := fun v hv => hinv.bound v (hmem v hv)
    queueNodup := by
      have hqn := hinv.queueNodup
      rw [hq] at hqn
      have h1 : (f :: (rest ++ s.handedOut)).Nodup := by
        have := (List.nodup_append.mp hqn).1
        simpa using this
      show (rest ++ s.handedOut ++ [f]).Nodup
      exact nodup_snoc_F.mpr ⟨(List.nodup_cons.mp h1).2, (List.nodup_cons.mp h1).1⟩ }

theorem inv0_schedPoll (hinv : Inv0 c s) (h : step? c s .schedPoll = some s') : Inv0 c s' := by
  obtain ⟨hsd, hu, h | h | h⟩ := step_schedPoll_F h
  · obtain ⟨m, se, rx, dtx, rfl⟩ := h
    exact { hinv with }
  · obtain ⟨m, ca, f, rest, hq, rfl⟩ := h
    exact inv0_handOut hinv hq hsd hu m ca
  · obtain ⟨m, f, rest, hq, rfl⟩ := h
    exact inv0_dropOut hinv hq m

theorem inv0_invoke (hinv : Inv0 c s) {f : Nat} (h : step? c s (.invoke f) = some s') : Inv0 c s' := by
  simp only [step?] at h
  split at h
  · rename_i hg
    cases h
    exact { hinv with
      invHanded := by
        intro g hg'
        simp only [List.mem_append, List.mem_singleton] at hg'
        rcases hg' with hg' | rfl
        · exact hinv.invHanded g hg'
        · exact hinv.inflHanded g hg.1
      invNodup := nodup_snoc_F.mpr ⟨hinv.invNodup, hg.2⟩
      endedInvoked := fun g hg' => List.mem_append.mpr (Or.inl (hinv.endedInvoked g hg')) }
  · cases h

theorem inv0_interrupt (hinv : Inv0 c s) (h : step? c s .interrupt = some s') : Inv0 c s' := by
  simp only [step?] at h
  cases h
  exact { hinv with }

theorem inv0_schedEnd (hinv : Inv0 c s) (h : step? c s .schedEnd = some s') : Inv0 c s' := by
  simp only [step?] at h
  split at h
  · rename_i hg
    simp only [Bool.and_eq_true, List.isEmpty_iff, Bool.not_eq_true'] at hg
    cases h
    exact { hinv with
      shortDone := fun _ => rfl
      sDoneInfl0 := fun _ _ => hg.1.2
      ret0 := fun r hr => ⟨rfl, (hinv.ret0 r hr).2⟩ }
  · cases h

theorem inv0_ret (hinv : Inv0 c s) (h : step? c s .ret = some s') : Inv0 c s' := by
  simp only [step?] at h
  split at h
  · rename_i hg
    simp only [Bool.and_eq_true, Option.isNone_iff_eq_none] at hg
    cases h
    exact { hinv with
      ret0 := by
        intro r hr
        have hr' : mkRet c s = r := Option.some.inj hr
        refine ⟨hg.1.1, hg.1.2, fun _ => hr'.symm, ?_⟩
        intro fin p np e he
        rw [he] at hr'
        unfold mkRet at hr'
        cases hse : s.shortErr with
        | none => rfl
        | some g => rw [hse] at hr'; cases hr' }
  · cases h

end FG
