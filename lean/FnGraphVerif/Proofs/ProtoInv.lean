/-
  Proofs/ProtoInv.lean — hypotheses on a run configuration (`GoodCfg`) and the safety
  invariant `Inv` of the run protocol.  `inv_reachable` (every reachable state satisfies
  `Inv`) is proved in `Proofs/ProtoSafety.lean`; the property theorems in `Theorems/` are
  static consequences of `Inv`.
-/
import FnGraphVerif.Proofs.Release
import FnGraphVerif.Model.Settle
namespace FG

/-- What `build` guarantees about the scheduling graph and the initial counts of a run. -/
structure GoodCfg (c : Cfg) : Prop where
  wf : WF c.D
  simple : Simple c.D
  acyclic : Acyclic c.D
  countsLen : c.counts0.length = c.D.n
  counts : ∀ v, c.counts0[v]?.getD 0 = (parents c.D v).length
  /-- the preload (Topo order filtered by a zero count) lists every root exactly once -/
  preNodup : (preload c).Nodup
  preMem : ∀ v, v ∈ preload c ↔ (v < c.D.n ∧ parents c.D v = [])

structure Inv (c : Cfg) (s : PState) : Prop where
  -- release core
  cnt : ∀ v, s.counts[v]?.getD 0 = unreleased c.D s.released v
  cntLen : s.counts.length = c.n
  relNodup : (s.released ++ s.doneQ).Nodup
  doneEnded : ∀ x, x ∈ s.released ∨ x ∈ s.doneQ → x ∈ s.endedOk
  ready : ∀ v, (v ∈ s.readyQ ∨ v ∈ s.handedOut ∨ s.dropped = some v) → ∀ p ∈ parents c.D v, p ∈ s.released
  queueNodup : (s.readyQ ++ s.handedOut ++ s.dropped.toList).Nodup
  bound : ∀ v, (v ∈ s.readyQ ∨ v ∈ s.handedOut ∨ s.dropped = some v) → v < c.n
  -- bookkeeping of hand-outs
  inflHanded : ∀ f ∈ s.inflight, f ∈ s.handedOut
  inflNodup : s.inflight.Nodup
  endNodup : (s.endedOk ++ s.failed).Nodup
  inflNotEnded : ∀ f ∈ s.inflight, f ∉ s.endedOk ∧ f ∉ s.failed
  endedHanded : ∀ f, f ∈ s.endedOk ∨ f ∈ s.failed → f ∈ s.handedOut
  handedSplit : ∀ f ∈ s.handedOut, f ∈ s.inflight ∨ f ∈ s.endedOk ∨ f ∈ s.failed
  invHanded : ∀ f ∈ s.invoked, f ∈ s.handedOut
  invNodup : s.invoked.Nodup
  endedInvoked : ∀ f, f ∈ s.endedOk ∨ f ∈ s.failed → f ∈ s.invoked
  -- no `expect` / underflow / blocking send
  noPanic : s.panic = false
  -- counters
  qRem : s.qRemaining + s.released.length = c.n
  sRem : s.sRemaining + s.endedOk.length + (if c.errMode = .collect then s.failed.length else 0) = c.n
  -- failures
  errs : s.errors = (if c.errMode = .collect then s.failed else [])
  failedMode : c.errMode = .none → s.failed = []
  short : c.errMode = .shortCircuit → s.failed = s.shortErr.toList
  shortOnly : s.shortErr.isSome = true → c.errMode = .shortCircuit
  shortDone : s.shortErr.isSome = true → s.sDone = true
  -- limit
  limSeq : c.sequential = true → s.inflight.length ≤ 1
  limPar : c.sequential = false → ∀ l, c.limit = some (l + 1) → s.inflight.length ≤ l + 1
  -- end of run
  sDoneInfl : s.sDone = true → s.inflight = []
  retFrozen : ∀ r, s.result = some r → r = mkRet c s ∧ s.sDone = true ∧ s.qDone = true

end FG
