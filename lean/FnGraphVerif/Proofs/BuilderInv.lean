/-
  Proofs/BuilderInv.lean — the invariant of every graph the builder ever holds.
-/
import FnGraphVerif.Proofs.Reach
import FnGraphVerif.Model.Builder
namespace FG

/-- well-formed, at most one edge per ordered pair, acyclic -/
structure GoodG (g : Dag) : Prop where
  wf : WF g
  simple : Simple g
  acyclic : Acyclic g

/-- the public API only adds logic and contains edges -/
def Op.isUser : Op → Bool
  | .addFn _ => true
  | .edge k _ _ => k != .data
  | .edges k _ => k != .data

/-- builder states reachable from the empty builder by any sequence of (public) calls -/
inductive BReach : BState → Prop
  | empty : BReach BState.empty
  | step {b : BState} (op : Op) (hk : op.isUser = true) : BReach b → BReach (applyOp b op).1

end FG
