/-
  Proofs/RTrack.lean — a stream trace accepted by the model-tracking monitor `trackStream`
  (non-coop) is a run of the stream model.
-/
import FnGraphVerif.Proofs.RText
import FnGraphVerif.Proofs.RStream
namespace FG

/-- the model action an observed stream event denotes -/
def Ev.saction? : Ev → Option SAction
  | .poll _ => some .poll
  | .drop f _ => some (.drop f)
  | .intr => some .interrupt
  | .aborted => some .dropStream
  | _ => none

/-- well-formedness of a stream trace, given the `FnRef`s live and whether the stream was dropped at
    its start: every dropped `f` was yielded before (by a poll of the trace, or is in `live`) and not
    dropped since, no poll after `aborted`, `aborted` at most once. -/
def wfStreamFrom : List Nat → Bool → List Ev → Bool
  | _, _, [] => true
  | live, sd, .poll r :: es => !sd && wfStreamFrom (live ++ r.ys) sd es
  | live, sd, .drop f _ :: es => decide (f ∈ live) && wfStreamFrom (live.erase f) sd es
  | live, sd, .aborted :: es => !sd && wfStreamFrom live true es
  | live, sd, _ :: es => wfStreamFrom live sd es

/-- well-formedness of a complete stream trace (decidable: a `Bool`) -/
def wfStreamTrace (evs : List Ev) : Bool := wfStreamFrom [] false evs

theorem strackRun_cons (x : MonCtx) (t : STrackSt) (e : Ev) (es : List Ev) :
    strackRun x t (e :: es) =
      ((strackRun x (trackStream x t e).1 es).1, (trackStream x t e).2 ++ (strackRun x (trackStream x t e).1 es).2) :=
  rfl

theorem srun_cons_some {c : Cfg} {d : Bool} {s s1 : SState} {a : SAction} (h : sstep? c d s a = some s1)
    (as : List SAction) : srun c d s (a :: as) = srun c d s1 as := by
  simp [srun, h]

theorem strack_sound_from {x : MonCtx} (hcoop : x.coop = false) {evs : List Ev} :
    ∀ {t : STrackSt}, wfStreamFrom t.ss.live t.ss.streamDropped evs = true →
      (∀ n ∈ (strackRun x t evs).2, n.ok = true) →
      srun x.c true t.ss (evs.filterMap Ev.saction?) = some (strackRun x t evs).1.ss := by
  induction evs with
  | nil => intro t _ _; rfl
  | cons e es ih =>
    intro t hwf hok
    rw [strackRun_cons] at hok ⊢
    have hok1 : ∀ n ∈ (trackStream x t e).2, n.ok = true := fun n hn => hok n (List.mem_append_left _ hn)
    have hok2 : ∀ n ∈ (strackRun x (trackStream x t e).1 es).2, n.ok = true :=
      fun n hn => hok n (List.mem_append_right _ hn)
    show srun x.c true t.ss ((e :: es).filterMap Ev.saction?) = some (strackRun x (trackStream x t e).1 es).1.ss
    cases e with
    | poll r =>
      have hby : isBudgetYield x t r = false := by simp [isBudgetYield, hcoop]
      simp only [wfStreamFrom, Bool.and_eq_true, Bool.not_eq_true'] at hwf
      obtain ⟨hsd, hwf'⟩ := hwf
      have hts : trackStream x t (.poll r) = ({ t with ss := (sipoll x.c true t.ss).1 },
          [.cmp "S-poll" (Ev.poll r).text (pollText (sipoll x.c true t.ss).2.1 (sipoll x.c true t.ss).2.2
              (sipoll x.c true t.ss).1.wake) r.text,
           .cmp "S-poll" ((Ev.poll r).text ++ " panic") (toString (sipoll x.c true t.ss).1.panic) "false"]) := by
        simp [trackStream, hby]
      rw [hts] at hok1 hok2 ⊢
      have htext := hok1 _ (List.mem_cons_self ..)
      simp only [Note.ok, beq_iff_eq] at htext
      have hobs := pollObsOf_of_text htext
      obtain ⟨ys, _, hlive, _, hsd', _, hcase⟩ := sipoll_obs x.c true t.ss
      have hys : ys = r.ys := by
        rcases hcase with ⟨f, hy, _, ⟨_, h⟩ | ⟨_, h⟩⟩ | ⟨hy, ⟨_, h⟩ | ⟨_, h⟩ | ⟨_, h⟩⟩ <;>
          (rw [hobs] at h; subst h; rw [hy]; rfl)
      have hstep : sstep? x.c true t.ss .poll = some (sipoll x.c true t.ss).1 := by simp [sstep?, hsd]
      simp only [List.filterMap_cons, Ev.saction?]
      rw [srun_cons_some hstep]
      apply ih (t := { t with ss := (sipoll x.c true t.ss).1 }) _ hok2
      show wfStreamFrom (sipoll x.c true t.ss).1.live (sipoll x.c true t.ss).1.streamDropped es = true
      rw [hlive, hsd', hys]; exact hwf'
    | drop f w =>
      simp only [wfStreamFrom, Bool.and_eq_true, decide_eq_true_eq] at hwf
      obtain ⟨hf, hwf'⟩ := hwf
      obtain ⟨s1, hs1⟩ : ∃ s1, sdrop x.c t.ss f = some s1 := by
        rw [sdrop_eq]; simp only [hf, not_true_eq_false, if_false]; split <;> exact ⟨_, rfl⟩
      have hs1' : s1.live = t.ss.live.erase f ∧ s1.streamDropped = t.ss.streamDropped := by
        rw [sdrop_eq] at hs1
        simp only [hf, not_true_eq_false, if_false] at hs1
        split at hs1 <;> (cases hs1; exact ⟨rfl, rfl⟩)
      have hts : (trackStream x t (.drop f w)).1 = { t with ss := s1 } := by
        simp [trackStream, hs1]
      rw [hts] at hok2 ⊢
      have hstep : sstep? x.c true t.ss (.drop f) = some s1 := by simp [sstep?, hs1]
      simp only [List.filterMap_cons, Ev.saction?]
      rw [srun_cons_some hstep]
      apply ih (t := { t with ss := s1 }) _ hok2
      show wfStreamFrom s1.live s1.streamDropped es = true
      rw [hs1'.1, hs1'.2]; exact hwf'
    | intr =>
      simp only [wfStreamFrom] at hwf
      have hstep : sstep? x.c true t.ss .interrupt = some { t.ss with im := { t.ss.im with sent := true } } := rfl
      simp only [List.filterMap_cons, Ev.saction?]
      rw [srun_cons_some hstep]
      exact ih (t := { t with ss := { t.ss with im := { t.ss.im with sent := true } } }) hwf hok2
    | aborted =>
      simp only [wfStreamFrom, Bool.and_eq_true, Bool.not_eq_true'] at hwf
      obtain ⟨hsd, hwf'⟩ := hwf
      have hstep : sstep? x.c true t.ss .dropStream = some (sdropStream t.ss) := by simp [sstep?, hsd]
      simp only [List.filterMap_cons, Ev.saction?]
      rw [srun_cons_some hstep]
      exact ih (t := { t with ss := sdropStream t.ss }) hwf' hok2
    | handout f => exact ih (t := t) (by simpa [wfStreamFrom] using hwf) hok2
    | invoke f => exact ih (t := t) (by simpa [wfStreamFrom] using hwf) hok2
    | fin f ok => exact ih (t := t) (by simpa [wfStreamFrom] using hwf) hok2
    | q => exact ih (t := t) (by simpa [wfStreamFrom] using hwf) hok2
    | retOutcome a b c d e => exact ih (t := t) (by simpa [wfStreamFrom] using hwf) hok2
    | retErr f => exact ih (t := t) (by simpa [wfStreamFrom] using hwf) hok2
    | panic => exact ih (t := t) (by simpa [wfStreamFrom] using hwf) hok2
    | livelock => exact ih (t := t) (by simpa [wfStreamFrom] using hwf) hok2
    | other => exact ih (t := t) (by simpa [wfStreamFrom] using hwf) hok2

end FG
