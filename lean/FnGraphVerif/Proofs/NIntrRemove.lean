/-
  Proofs/NIntrRemove.lean — with `NonInterruptible` / `IgnoreInterruptions` the `interrupt` actions
  of a schedule can be deleted: the run protocol never looks at `im` except through the answer of
  `pollNext`, and that answer is the underlying one (`pollNext_transparent`).
-/
import FnGraphVerif.Theorems.C08
namespace FG

/-- forget the state of the `InterruptibleStream` machine -/
def clrIm (s : PState) : PState := { s with im := {} }

theorem eq_setIm_of_clrIm {s t : PState} (h : clrIm s = clrIm t) : s = { t with im := s.im } := by
  obtain ⟨⟩ := s
  obtain ⟨⟩ := t
  simp only [clrIm, PState.mk.injEq] at h ⊢
  simp_all

/-- every action except `interrupt` / `schedPoll` commutes with overwriting `im` -/
theorem step_setIm (c : Cfg) (s : PState) (m : IM) {a : Action} (h1 : a ≠ .interrupt)
    (h2 : a ≠ .schedPoll) :
    step? c { s with im := m } a = (step? c s a).map (fun s' => { s' with im := m }) := by
  cases a with
  | interrupt => exact absurd rfl h1
  | schedPoll => exact absurd rfl h2
  | queuerRecv =>
    simp only [step?]
    split
    · rfl
    · split <;> rfl
  | queuerEnd =>
    simp only [step?]
    split <;> rfl
  | invoke f =>
    simp only [step?]
    split <;> rfl
  | finish f ok =>
    simp only [step?]
    split
    · rfl
    · split
      · rfl
      · split <;> rfl
  | schedEnd =>
    simp only [step?]
    split <;> rfl
  | ret =>
    simp only [step?, mkRet]
    split <;> rfl

/-- `schedPoll`: apart from `im` the successor depends on the machine only through its answer -/
theorem schedPoll_clrIm (c : Cfg) (s : PState) (m1 m2 : IM)
    (h : (pollNext c.strat m1 (readyUnder s)).2 = (pollNext c.strat m2 (readyUnder s)).2) :
    (step? c { s with im := m1 } .schedPoll).map clrIm =
      (step? c { s with im := m2 } .schedPoll).map clrIm := by
  have hu1 : readyUnder { s with im := m1 } = readyUnder s := rfl
  have hu2 : readyUnder { s with im := m2 } = readyUnder s := rfl
  have hl1 : underLimit c { s with im := m1 } = underLimit c s := rfl
  have hl2 : underLimit c { s with im := m2 } = underLimit c s := rfl
  simp only [step?, hu1, hu2, hl1, hl2]
  split
  · rfl
  · revert h
    generalize pollNext c.strat m1 (readyUnder s) = r1
    generalize pollNext c.strat m2 (readyUnder s) = r2
    obtain ⟨m1', o1⟩ := r1
    obtain ⟨m2', o2⟩ := r2
    intro h
    simp only at h
    subst h
    cases o1 with
    | pending => rfl
    | endd => rfl
    | intNone => rfl
    | noInt =>
      simp only
      cases s.readyQ <;> rfl
    | intSome =>
      simp only
      cases s.readyQ with
      | nil => rfl
      | cons f rest =>
        simp only
        split <;> rfl

/-- the simulation relation: equal up to `im`, neither machine interrupted -/
structure RIm (s t : PState) : Prop where
  eq : clrIm s = clrIm t
  sSig : s.im.sig = false
  sIan : s.im.ian = false
  tSig : t.im.sig = false
  tIan : t.im.ian = false

theorem clrIm_setIm (t : PState) (m : IM) : clrIm { t with im := m } = clrIm t := rfl

theorem RIm_step {c : Cfg} (hst : c.strat = .non ∨ c.strat = .ignore) {s t : PState} {a : Action}
    (ha : a ≠ .interrupt) (hR : RIm s t) :
    (step? c s a = none ∧ step? c t a = none) ∨
    (∃ s' t', step? c s a = some s' ∧ step? c t a = some t' ∧ RIm s' t') := by
  have hs := eq_setIm_of_clrIm hR.eq
  by_cases h2 : a = .schedPoll
  · subst h2
    obtain ⟨a1, a2, a3⟩ := pollNext_transparent hst hR.sSig hR.sIan (readyUnder t)
    obtain ⟨b1, b2, b3⟩ := pollNext_transparent hst hR.tSig hR.tIan (readyUnder t)
    have ht : t = { t with im := t.im } := rfl
    have key := schedPoll_clrIm c t s.im t.im (by rw [a3, b3])
    rw [← hs, ← ht] at key
    have hru : readyUnder s = readyUnder t := by rw [hs]; rfl
    cases hs1 : step? c s .schedPoll with
    | none =>
      cases ht1 : step? c t .schedPoll with
      | none => exact Or.inl ⟨rfl, rfl⟩
      | some t' => rw [hs1, ht1] at key; cases key
    | some s' =>
      cases ht1 : step? c t .schedPoll with
      | none => rw [hs1, ht1] at key; cases key
      | some t' =>
        rw [hs1, ht1] at key
        simp only [Option.map_some, Option.some.injEq] at key
        obtain ⟨e1, _, _⟩ := step_schedPoll hs1
        obtain ⟨f1, _, _⟩ := step_schedPoll ht1
        refine Or.inr ⟨s', t', rfl, rfl, key, ?_, ?_, ?_, ?_⟩
        · rw [e1, hru]; exact a1
        · rw [e1, hru]; exact a2
        · rw [f1]; exact b1
        · rw [f1]; exact b2
  · have key := step_setIm c t s.im ha h2
    rw [← hs] at key
    cases ht1 : step? c t a with
    | none => rw [ht1] at key; exact Or.inl ⟨key, rfl⟩
    | some t' =>
      rw [ht1] at key
      simp only [Option.map_some] at key
      obtain ⟨f1, _, _, _⟩ := step_other ht1 ha h2
      refine Or.inr ⟨_, t', key, rfl, clrIm_setIm t' s.im, hR.sSig, hR.sIan, ?_, ?_⟩
      · rw [f1]; exact hR.tSig
      · rw [f1]; exact hR.tIan

theorem RIm_interrupt {c : Cfg} {s s' t : PState} (h : step? c s .interrupt = some s')
    (hR : RIm s t) : RIm s' t := by
  simp only [step?, Option.some.injEq] at h
  subst h
  exact ⟨hR.eq, hR.sSig, hR.sIan, hR.tSig, hR.tIan⟩

theorem run_cons (c : Cfg) (s : PState) (a : Action) (as : List Action) :
    run c s (a :: as) = match step? c s a with
      | none => none
      | some s' => run c s' as := rfl

/-- deleting the `interrupt` actions of a schedule changes nothing but `im` -/
theorem run_filter_interrupt {c : Cfg} (hst : c.strat = .non ∨ c.strat = .ignore)
    (as : List Action) (s t : PState) (hR : RIm s t) :
    (run c s as).map clrIm = (run c t (as.filter (· ≠ .interrupt))).map clrIm := by
  induction as generalizing s t with
  | nil => simp only [List.filter_nil, run, Option.map_some, hR.eq]
  | cons a as ih =>
    by_cases ha : a = .interrupt
    · subst ha
      have hf : (Action.interrupt :: as).filter (· ≠ .interrupt) = as.filter (· ≠ .interrupt) := by
        simp
      rw [hf, run_cons]
      cases h : step? c s .interrupt with
      | none => simp [step?] at h
      | some s1 => exact ih s1 t (RIm_interrupt h hR)
    · have hf : (a :: as).filter (· ≠ .interrupt) = a :: as.filter (· ≠ .interrupt) := by
        simp [ha]
      rw [hf, run_cons, run_cons]
      rcases RIm_step hst ha hR with ⟨e1, e2⟩ | ⟨s1, t1, e1, e2, hR'⟩
      · rw [e1, e2]
      · rw [e1, e2]
        exact ih s1 t1 hR'

end FG
