/-
  Proofs/C16Update.lean — case analysis of `updateEdge` and preservation of `GoodG`
  by its two successful branches (overwrite in place / append).
-/
import FnGraphVerif.Proofs.C16Simple
namespace FG

/-- the four outcomes of `update_edge` -/
theorem updateEdge_cases (g : Dag) (a c : Nat) (k : Kind) :
    ((g.n ≤ a ∨ g.n ≤ c) ∧ updateEdge g a c k = (g, .oob)) ∨
    (a < g.n ∧ c < g.n ∧ ∃ i, findEdge g a c = some i ∧
      updateEdge g a c k = ({ g with edges := g.edges.set i ⟨a, c, k⟩ }, .ok i)) ∨
    (a < g.n ∧ c < g.n ∧ findEdge g a c = none ∧ hasPath g c a = true ∧
      updateEdge g a c k = (g, .wouldCycle)) ∨
    (a < g.n ∧ c < g.n ∧ findEdge g a c = none ∧ hasPath g c a = false ∧
      updateEdge g a c k = (addE g ⟨a, c, k⟩, .ok g.edges.length)) := by
  unfold updateEdge
  by_cases hb : g.n ≤ a ∨ g.n ≤ c
  · left; exact ⟨hb, by rw [if_pos hb]⟩
  · right
    rw [if_neg hb]
    have ha : a < g.n := by omega
    have hc : c < g.n := by omega
    cases hf : findEdge g a c with
    | some i => left; exact ⟨ha, hc, i, rfl, rfl⟩
    | none =>
      right
      cases hp : hasPath g c a with
      | true => left; exact ⟨ha, hc, rfl, rfl, by simp⟩
      | false => right; exact ⟨ha, hc, rfl, rfl, by simp [addE]⟩

/-! ### overwrite in place -/

theorem getElem?_set_same_pair {es : List Edge} {i : Nat} {a c : Nat} {k : Kind}
    (hi : ∃ e, es[i]? = some e ∧ e.src = a ∧ e.tgt = c) {p : Nat} {e1 : Edge}
    (h : (es.set i ⟨a, c, k⟩)[p]? = some e1) :
    ∃ e1', es[p]? = some e1' ∧ e1'.src = e1.src ∧ e1'.tgt = e1.tgt := by
  obtain ⟨e0, he0, hs0, ht0⟩ := hi
  rw [List.getElem?_set] at h
  by_cases hip : i = p
  · subst hip
    rw [if_pos rfl] at h
    split at h
    · cases h; exact ⟨e0, he0, hs0, ht0⟩
    · cases h
  · rw [if_neg hip] at h
    exact ⟨e1, h, rfl, rfl⟩

theorem pairsUniq_set {es : List Edge} {i : Nat} {a c : Nat} {k : Kind}
    (hi : ∃ e, es[i]? = some e ∧ e.src = a ∧ e.tgt = c) (h : PairsUniq es) :
    PairsUniq (es.set i ⟨a, c, k⟩) := by
  intro p q e1 e2 h1 h2 hs ht
  obtain ⟨e1', h1', hs1, ht1⟩ := getElem?_set_same_pair hi h1
  obtain ⟨e2', h2', hs2, ht2⟩ := getElem?_set_same_pair hi h2
  exact h p q e1' e2' h1' h2' (by omega) (by omega)

theorem goodG_set {g : Dag} (hg : GoodG g) {i a c : Nat} (k : Kind) (ha : a < g.n) (hc : c < g.n)
    (hi : ∃ e, g.edges[i]? = some e ∧ e.src = a ∧ e.tgt = c) :
    GoodG { g with edges := g.edges.set i ⟨a, c, k⟩ } := by
  refine ⟨?_, ?_, ?_⟩
  · intro e he
    rcases List.mem_or_eq_of_mem_set he with h | h
    · exact hg.wf e h
    · subst h; exact ⟨ha, hc⟩
  · rw [simple_iff_pairsUniq]
    exact pairsUniq_set hi ((simple_iff_pairsUniq g).mp hg.simple)
  · exact acyclic_congr (fun u v h => (isEdge_set_kind hi).mp h) hg.acyclic

/-! ### append -/

theorem goodG_addE {g : Dag} (hg : GoodG g) {a c : Nat} (k : Kind) (ha : a < g.n) (hc : c < g.n)
    (hne : ¬ IsEdge g a c) (hnr : ¬ Reach g c a) : GoodG (addE g ⟨a, c, k⟩) := by
  refine ⟨?_, ?_, acyclic_addE hg.acyclic hnr⟩
  · intro e he
    simp only [addE, List.mem_append, List.mem_singleton] at he
    rcases he with h | h
    · exact hg.wf e h
    · subst h; exact ⟨ha, hc⟩
  · rw [simple_iff_pairsPW]
    have h0 := (simple_iff_pairsPW g).mp hg.simple
    unfold PairsPW at *
    simp only [addE]
    rw [List.pairwise_append]
    refine ⟨h0, by simp, ?_⟩
    intro e1 he1 e2 he2 hst
    simp only [List.mem_singleton] at he2
    subst he2
    exact hne ⟨e1, he1, hst.1, hst.2⟩

/-! ### consequences for `updateEdge` -/

theorem updateEdge_n (g : Dag) (a c : Nat) (k : Kind) : (updateEdge g a c k).1.n = g.n := by
  rcases updateEdge_cases g a c k with ⟨_, h⟩ | ⟨_, _, i, _, h⟩ | ⟨_, _, _, _, h⟩ | ⟨_, _, _, _, h⟩ <;>
    (rw [h]; try rfl)

theorem updateEdge_goodG {g : Dag} (hg : GoodG g) (a c : Nat) (k : Kind) :
    GoodG (updateEdge g a c k).1 := by
  rcases updateEdge_cases g a c k with ⟨_, h⟩ | ⟨ha, hc, i, hf, h⟩ | ⟨_, _, _, _, h⟩ | ⟨ha, hc, hf, hp, h⟩
  · rw [h]; exact hg
  · rw [h]; exact goodG_set hg k ha hc (findEdge_some hf)
  · rw [h]; exact hg
  · rw [h]; exact goodG_addE hg k ha hc (findEdge_none hf) ((hasPath_false_iff hg.wf hc a).mp hp)

theorem updateEdge_kinds {g : Dag} {a c : Nat} {k : Kind} (hk : k ≠ .data)
    (h : ∀ e ∈ g.edges, e.kind ≠ .data) : ∀ e ∈ (updateEdge g a c k).1.edges, e.kind ≠ .data := by
  rcases updateEdge_cases g a c k with ⟨_, hu⟩ | ⟨_, _, i, _, hu⟩ | ⟨_, _, _, _, hu⟩ | ⟨_, _, _, _, hu⟩
  · rw [hu]; exact h
  · rw [hu]; intro e he
    rcases List.mem_or_eq_of_mem_set he with h' | h'
    · exact h e h'
    · subst h'; exact hk
  · rw [hu]; exact h
  · rw [hu]; intro e he
    simp only [addE, List.mem_append, List.mem_singleton] at he
    rcases he with h' | h'
    · exact h e h'
    · subst h'; exact hk

/-! ### the batch form -/

theorem applyEdges_cons' (k : Kind) (g : Dag) (a c : Nat) (ps : List (Nat × Nat)) (acc : List Nat) :
    applyEdges k g ((a, c) :: ps) acc =
      match updateEdge g a c k with
      | (g', .ok i) => applyEdges k g' ps (acc ++ [i])
      | (g', r) => (g', r) := by
  rfl

/-- either the first call is accepted and the fold goes on, or it is the final answer -/
theorem applyEdges_cons_cases (k : Kind) (g : Dag) (a c : Nat) (ps : List (Nat × Nat)) (acc : List Nat) :
    (∃ i, (updateEdge g a c k).2 = .ok i ∧
      applyEdges k g ((a, c) :: ps) acc = applyEdges k (updateEdge g a c k).1 ps (acc ++ [i])) ∨
    ((∀ i, (updateEdge g a c k).2 ≠ .ok i) ∧
      applyEdges k g ((a, c) :: ps) acc = updateEdge g a c k) := by
  rw [applyEdges_cons']
  rcases hu : updateEdge g a c k with ⟨g', r⟩
  cases r with
  | ok i => left; exact ⟨i, rfl, rfl⟩
  | oks l => right; exact ⟨fun i h => (by cases h), rfl⟩
  | wouldCycle => right; exact ⟨fun i h => (by cases h), rfl⟩
  | oob => right; exact ⟨fun i h => (by cases h), rfl⟩

theorem applyEdges_goodG {g : Dag} (hg : GoodG g) (k : Kind) (ps : List (Nat × Nat)) (acc : List Nat) :
    GoodG (applyEdges k g ps acc).1 := by
  induction ps generalizing g acc with
  | nil => simpa [applyEdges] using hg
  | cons p ps ih =>
    obtain ⟨a, c⟩ := p
    rcases applyEdges_cons_cases k g a c ps acc with ⟨i, _, h⟩ | ⟨_, h⟩
    · rw [h]; exact ih (updateEdge_goodG hg a c k) _
    · rw [h]; exact updateEdge_goodG hg a c k

theorem applyEdges_n (g : Dag) (k : Kind) (ps : List (Nat × Nat)) (acc : List Nat) :
    (applyEdges k g ps acc).1.n = g.n := by
  induction ps generalizing g acc with
  | nil => simp [applyEdges]
  | cons p ps ih =>
    obtain ⟨a, c⟩ := p
    rcases applyEdges_cons_cases k g a c ps acc with ⟨i, _, h⟩ | ⟨_, h⟩
    · rw [h, ih, updateEdge_n]
    · rw [h, updateEdge_n]

theorem applyEdges_kinds {g : Dag} {k : Kind} (hk : k ≠ .data) (ps : List (Nat × Nat)) (acc : List Nat)
    (h : ∀ e ∈ g.edges, e.kind ≠ .data) : ∀ e ∈ (applyEdges k g ps acc).1.edges, e.kind ≠ .data := by
  induction ps generalizing g acc with
  | nil => simpa [applyEdges] using h
  | cons p ps ih =>
    obtain ⟨a, c⟩ := p
    rcases applyEdges_cons_cases k g a c ps acc with ⟨i, _, h'⟩ | ⟨_, h'⟩
    · rw [h']; exact ih _ (updateEdge_kinds hk h)
    · rw [h']; exact updateEdge_kinds hk h

/-! ### builder states -/

theorem goodG_addFn {b : BState} (d : FnDecl) (h : GoodG b.graph) :
    GoodG (BState.graph { b with fns := b.fns ++ [d] }) := by
  refine ⟨?_, ?_, ?_⟩
  · intro e he
    have := h.wf e he
    simp only [BState.graph, List.length_append, List.length_singleton] at this ⊢
    omega
  · exact h.simple
  · exact acyclic_congr (g := b.graph) (fun u v h => h) h.acyclic

theorem graph_with_edges (b : BState) (g' : Dag) (hn : g'.n = b.graph.n) :
    BState.graph { b with edges := g'.edges } = g' := by
  cases g'; simp only [BState.graph] at hn ⊢; subst hn; rfl

/-- every builder state is good and holds only logic/contains edges -/
theorem breach_goodG {b : BState} (h : BReach b) :
    GoodG b.graph ∧ ∀ e ∈ b.edges, e.kind ≠ .data := by
  induction h with
  | empty =>
    refine ⟨⟨?_, ?_, ?_⟩, ?_⟩
    · intro e he; simp [BState.empty, BState.graph] at he
    · intro u; simp [BState.empty, BState.graph, children, parents]
    · intro u hu
      obtain ⟨b, ⟨e, he, _⟩, _⟩ := hu.first
      simp [BState.empty, BState.graph] at he
    · intro e he; simp [BState.empty] at he
  | @step b op hk _ ih =>
    obtain ⟨hg, hkd⟩ := ih
    cases op with
    | addFn d => exact ⟨goodG_addFn d hg, hkd⟩
    | edge k a c =>
      have hk' : k ≠ .data := by simpa [Op.isUser] using hk
      simp only [applyOp]
      rw [graph_with_edges b _ (updateEdge_n _ _ _ _)]
      exact ⟨updateEdge_goodG hg a c k, updateEdge_kinds hk' hkd⟩
    | edges k ps =>
      have hk' : k ≠ .data := by simpa [Op.isUser] using hk
      simp only [applyOp]
      rw [graph_with_edges b _ (applyEdges_n _ _ _ _)]
      exact ⟨applyEdges_goodG hg k ps [], applyEdges_kinds hk' ps [] hkd⟩

/-! ### a concrete reachable builder state for non-vacuity examples: `0 → 1 → 2` on three nodes -/

def exB_B : BState :=
  (applyOp (applyOp (applyOp (applyOp (applyOp BState.empty (.addFn ⟨[], [], 0⟩)).1
    (.addFn ⟨[0], [1], 1⟩)).1 (.addFn ⟨[1], [], 2⟩)).1 (.edge .logic 0 1)).1 (.edge .contains 1 2)).1

theorem exB_reach_B : BReach exB_B :=
  BReach.step _ rfl (BReach.step _ rfl (BReach.step _ rfl (BReach.step _ rfl (BReach.step _ rfl BReach.empty))))

def exG_B : Dag := ⟨3, [⟨0, 1, .logic⟩, ⟨1, 2, .contains⟩]⟩

theorem exB_graph_B : exB_B.graph = exG_B := by decide

theorem exG_good_B : GoodG exG_B := exB_graph_B ▸ (breach_goodG exB_reach_B).1

end FG
