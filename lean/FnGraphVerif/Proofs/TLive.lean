/-
  Proofs/TLive.lean — the liveness theorems of `Theorems/C04.lean` (`deadlock_free`,
  `settle_quiescent`, `eventually_returns`) factored through the invariants: they hold in every
  state satisfying `Inv0` and `LInv`, hence from every start state that satisfies both — in
  particular from a start with carried interrupt state (`Proofs/TBase.lean`).
-/
import FnGraphVerif.Theorems.C04
import FnGraphVerif.Proofs.TBase
namespace FG

variable {c : Cfg} {s s₀ : PState}

/-- **C04** as a static consequence of the two invariants (the proof of `deadlock_free` uses
    nothing else about reachability) -/
theorem deadlock_free_of_inv (hc : GoodCfg c) (hinv : Inv0 c s) (hl : LInv c s) (hq : Quiescent c s)
    (hi : s.inflight = []) : s.result.isSome = true := by
  cases hres : s.result with
  | some r => rfl
  | none =>
  exfalso
  obtain ⟨_, ha, hb, hpoll, hd, he⟩ := nextInternal_none (quiescent_iff.mp hq) hres
  have hul : underLimit c s = true := underLimit_nil hi
  have key : s.qDone = false → (s.sRemaining ≠ 0 ∧ s.failed = [] ∧ s.im.ian = false ∧ s.doneQ = []) := by
    intro hqd
    have hdt : s.doneTxOpen = true := by
      rcases hb with h | h
      · rw [hqd] at h; exact absurd h (by simp)
      · exact h
    have hdq : s.doneQ = [] := by
      rcases ha with h | h
      · rw [hqd] at h; exact absurd h (by simp)
      · exact h
    obtain ⟨h1, h2, _, h4⟩ := hl.txOpen hdt
    refine ⟨h1, h2, ?_, hdq⟩
    cases hian : s.im.ian with
    | false => rfl
    | true =>
      obtain ⟨f, _, hf⟩ := h4 hian
      rw [hi] at hf
      exact absurd hf (by simp)
  cases hsd : s.sDone with
  | true =>
    have hqd : s.qDone = false := by
      cases hq' : s.qDone with
      | false => rfl
      | true => exact absurd ⟨hsd, hq'⟩ he
    obtain ⟨h1, h2, h3, _⟩ := key hqd
    rcases hl.sd hsd with hse | hsh
    · rcases hl.ended hse with h | ⟨_, h⟩
      · rw [h3] at h; exact absurd h (by simp)
      · rcases hl.rtx h with h | h
        · rw [hqd] at h; exact absurd h (by simp)
        · exact h1 (hinv.sRem_zero_of_qRem_zero h)
    · exact hl.shortFailed hsh h2
  | false =>
    have hse : s.streamEnded = false := by
      cases h : s.streamEnded with
      | false => rfl
      | true => exact absurd ⟨h, hi, hsd⟩ hd
    have hstuck : step? c s .schedPoll = none ∨ step? c s .schedPoll = some s := by
      rcases hpoll with h | h | h | h
      · rw [hsd] at h; exact absurd h (by simp)
      · rw [hse] at h; exact absurd h (by simp)
      · rw [hul] at h; exact absurd h (by simp)
      · exact h
    obtain ⟨hrq, hrt⟩ := poll_stuck hsd hse hul hstuck
    have hqd : s.qDone = false := by
      cases hq' : s.qDone with
      | false => rfl
      | true => have := hl.qd hq'; rw [hrt] at this; exact absurd this (by simp)
    obtain ⟨h1, h2, h3, hdq⟩ := key hqd
    have hdt : s.doneTxOpen = true := by
      rcases hb with h | h
      · rw [hqd] at h; exact absurd h (by simp)
      · exact h
    have hrx : s.readyRxOpen = true := by
      cases h : s.readyRxOpen with
      | true => rfl
      | false =>
        rcases hl.rrx h with h | h
        · rw [hse] at h; exact absurd h (by simp)
        · rw [hsd] at h; exact absurd h (by simp)
    have hall : ∀ v, v < c.D.n → v ∈ s.released := by
      apply parents_induction_G hc.wf hc.acyclic
      intro v hv hpar
      rcases hl.complete hrx (Or.inl hrt) v hv hpar with h | h | h
      · rw [hrq] at h; exact absurd h (by simp)
      · rcases hinv.handedSplit v h with h | h | h
        · rw [hi] at h; exact absurd h (by simp)
        · rcases hl.sent hdt v h with h | h
          · exact h
          · rw [hdq] at h; exact absurd h (by simp)
        · rw [h2] at h; exact absurd h (by simp)
      · have := hl.dropIan (by rw [h]; rfl)
        rw [h3] at this; exact absurd this (by simp)
    have hsub : List.range c.D.n ⊆ s.released := fun x hx => hall x (List.mem_range.mp hx)
    have hlen := List.Nodup.length_le_of_subset List.nodup_range hsub
    simp only [List.length_range] at hlen
    have hqr := hinv.qRem
    unfold Cfg.n at hqr
    exact h1 (hinv.sRem_zero_of_qRem_zero (by omega))

/-! ### `settle` from an arbitrary start -/

theorem settleN_reachableFrom (k : Nat) : ∀ {s : PState}, ReachableFrom c s₀ s →
    ReachableFrom c s₀ (settleN c k s) := by
  induction k with
  | zero => intro s hr; exact hr
  | succ k ih =>
    intro s hr
    unfold settleN
    split
    · exact hr
    · rename_i a s1 h1
      exact ih (ReachableFrom.step a hr (settle1_step h1))

theorem settleN_quiescent_from (hc : GoodCfg c) (h0 : Inv0 c s₀) (k : Nat) :
    ∀ {s : PState}, ReachableFrom c s₀ s → mu c s ≤ k → Quiescent c (settleN c k s) := by
  induction k with
  | zero =>
    intro s hr hk
    unfold settleN Quiescent
    cases h : settle1 c s with
    | none => rfl
    | some p =>
      obtain ⟨a, s1⟩ := p
      have hr1 := ReachableFrom.step a hr (settle1_step h)
      have := mu_decreases (inv0_reachableFrom hc h0 hr1) h
      omega
  | succ k ih =>
    intro s hr hk
    unfold settleN
    split
    · rename_i h; exact h
    · rename_i a s1 h1
      have hr1 := ReachableFrom.step a hr (settle1_step h1)
      have := mu_decreases (inv0_reachableFrom hc h0 hr1) h1
      exact ih hr1 (by omega)

theorem settle_reachableFrom (hr : ReachableFrom c s₀ s) : ReachableFrom c s₀ (settle c s) :=
  settleN_reachableFrom _ hr

theorem settle_quiescent_from (hc : GoodCfg c) (h0 : Inv0 c s₀) (hr : ReachableFrom c s₀ s) :
    Quiescent c (settle c s) :=
  settleN_quiescent_from hc h0 _ hr (mu_le c s)

/-! ### eventual return from an arbitrary start -/

theorem eventually_returns_from_aux (hc : GoodCfg c) (h0 : Inv0 c s₀) (hl0 : LInv c s₀) (k : Nat) :
    ∀ {s : PState}, ReachableFrom c s₀ s → c.n - s.endedOk.length ≤ k →
    ∃ as s', (∀ a ∈ as, a ≠ .interrupt ∧ ∀ f, a ≠ .finish f false) ∧ run c s as = some s' ∧
      s'.result.isSome = true := by
  induction k with
  | zero =>
    intro s hr hk
    obtain ⟨as, has, hrun⟩ := settleN_run (c := c) (settleFuel c) s
    have hr1 : ReachableFrom c s₀ (settle c s) := settle_reachableFrom hr
    have hq1 : Quiescent c (settle c s) := settle_quiescent_from hc h0 hr
    have hinv1 := inv0_reachableFrom hc h0 hr1
    refine ⟨as, settle c s, fun a ha => ⟨(has a ha).1, fun f => (has a ha).2 f false⟩, hrun, ?_⟩
    cases hi : (settle c s).inflight with
    | nil => exact deadlock_free_of_inv hc hinv1 (linv_reachableFrom hc h0 hl0 hr1) hq1 hi
    | cons f rest =>
      exfalso
      have hfi : f ∈ (settle c s).inflight := by rw [hi]; simp
      have hne := (hinv1.inflNotEnded f hfi).1
      have hlt : f < c.n := hinv1.bound f (Or.inr (Or.inl (hinv1.inflHanded f hfi)))
      have heo : (settle c s).endedOk = s.endedOk := run_internal_endedOk_G has hrun
      have hnd : (f :: (settle c s).endedOk).Nodup := List.nodup_cons.mpr ⟨hne, hinv1.endedOk_nodup⟩
      have := nodup_bounded_length hnd (n := c.n) (by
        intro x hx
        rcases List.mem_cons.mp hx with rfl | hx
        · exact hlt
        · exact hinv1.endedOk_lt hx)
      simp only [List.length_cons, heo] at this
      omega
  | succ k ih =>
    intro s hr hk
    obtain ⟨as, has, hrun⟩ := settleN_run (c := c) (settleFuel c) s
    have hr1 : ReachableFrom c s₀ (settle c s) := settle_reachableFrom hr
    have hq1 : Quiescent c (settle c s) := settle_quiescent_from hc h0 hr
    have hinv1 := inv0_reachableFrom hc h0 hr1
    have has' : ∀ a ∈ as, a ≠ .interrupt ∧ ∀ f, a ≠ .finish f false :=
      fun a ha => ⟨(has a ha).1, fun f => (has a ha).2 f false⟩
    cases hres : (settle c s).result with
    | some r => exact ⟨as, settle c s, has', hrun, by rw [hres]; rfl⟩
    | none =>
      cases hi : (settle c s).inflight with
      | nil =>
        have := deadlock_free_of_inv hc hinv1 (linv_reachableFrom hc h0 hl0 hr1) hq1 hi
        rw [hres] at this
        exact absurd this (by simp)
      | cons f rest =>
        have hfi : f ∈ (settle c s).inflight := by rw [hi]; simp
        have hfinv : f ∈ (settle c s).invoked :=
          (nextInternal_none (quiescent_iff.mp hq1) hres).1 f hfi
        have hstep : ∃ s2, step? c (settle c s) (.finish f true) = some s2 := by
          simp [step?, hfi, hfinv]
        obtain ⟨s2, hs2⟩ := hstep
        have hr2 : ReachableFrom c s₀ s2 := ReachableFrom.step _ hr1 hs2
        have hinv2 := inv0_reachableFrom hc h0 hr2
        have heo : (settle c s).endedOk = s.endedOk := run_internal_endedOk_G has hrun
        have heo2 : s2.endedOk = s.endedOk ++ [f] := by
          obtain ⟨_, _, rfl⟩ := finishOk_cases hs2
          simp only [heo]
        have hlen := nodup_bounded_length hinv2.endedOk_nodup (n := c.n) (fun x hx => hinv2.endedOk_lt hx)
        rw [heo2] at hlen
        simp only [List.length_append, List.length_cons, List.length_nil] at hlen
        obtain ⟨bs, s3, hbs, hrun3, hres3⟩ := ih hr2 (by rw [heo2]; simp only [List.length_append, List.length_cons, List.length_nil]; omega)
        refine ⟨as ++ (.finish f true :: bs), s3, ?_, ?_, hres3⟩
        · intro a ha
          rcases List.mem_append.mp ha with ha | ha
          · exact has' a ha
          · rcases List.mem_cons.mp ha with rfl | ha
            · exact ⟨by simp, by simp⟩
            · exact hbs a ha
        · rw [run_append_G hrun]
          have hs2' : step? c (settleN c (settleFuel c) s) (.finish f true) = some s2 := hs2
          simp only [run, hs2']
          exact hrun3

theorem eventually_returns_from (hc : GoodCfg c) (h0 : Inv0 c s₀) (hl0 : LInv c s₀)
    (hr : ReachableFrom c s₀ s) :
    ∃ as s', (∀ a ∈ as, a ≠ .interrupt ∧ ∀ f, a ≠ .finish f false) ∧ run c s as = some s' ∧
      s'.result.isSome = true :=
  eventually_returns_from_aux hc h0 hl0 _ hr (Nat.le_refl _)

end FG
