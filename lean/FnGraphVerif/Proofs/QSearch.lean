/-
  Proofs/QSearch.lean — the exhaustive search done BEFORE proving `Theorems/TracePreds.lean`.

  For a graph and a configuration it explores every `ObsRun` from `init` (product of the model state
  and the predicate state `PredSt`, memoised; every enabled action, `interrupt` only where it is
  quiet, `finish` ok / failing, `q` at every quiescent non-returned state) and collects the
  specification notes of `predFut` that are not ok, separately for runs that so far started the
  closures in hand-out order (`fifo = true`) and those that did not.

  Run on 15 graphs_Q with ≤ 3 nodes (`graphs_Q`), 240 configurations each (6 strategies × incl ×
  4 limits_Q × 5 API modes_Q), `#eval FG.QSearch.searchGraph_Q i` for `i = 0 … 14`
  (2.2 million product states in total): the ONLY failing note is
      `C09 … processed=started`, and only with `fifo = false`.
  The `#eval` at the end repeats this for the two 2-node graphs_Q.
-/
import FnGraphVerif.Model.Monitor
import Std.Data.HashSet
namespace FG.QSearch

deriving instance DecidableEq for PredSt
deriving instance Hashable for Strat, IM, Ret, PState, PredSt, ErrMode, Kind, Edge, Dag

def stepEvents'_Q (control : Bool) (s : PState) (a : Action) (s' : PState) : List Ev :=
  match a with
  | .schedPoll => (s'.handedOut.drop s.handedOut.length).map Ev.handout
  | .invoke f => [.invoke f]
  | .finish f ok => [.fin f ok]
  | .interrupt => [.intr]
  | .ret =>
    match s'.result with
    | some (.outcome fnd p np errs) =>
      [.retOutcome fnd p np errs (if control then (if (Ret.outcome fnd p np errs).isBreak then "break" else "cont") else "na")]
    | some (.err f) => [.retErr f]
    | none => []
  | _ => []

def predMany (x : MonCtx) (m : PredSt) : List Ev → PredSt × List Note
  | [] => (m, [])
  | e :: es => let r := predFut x m e; let r' := predMany x r.1 es; (r'.1, r.2 ++ r'.2)

def actionsOf_Q (n : Nat) : List Action :=
  [.queuerRecv, .queuerEnd, .schedPoll, .schedEnd, .ret, .interrupt] ++
  (List.range n).flatMap (fun f => [.invoke f, .finish f true, .finish f false])

def stripDigits_Q (s : String) : String := String.ofList (s.toList.filter (fun ch => !ch.isDigit))

structure Item_Q where
  s : PState
  m : PredSt
  fifo : Bool
  path : List String   -- reversed

def isPrefixB (a b : List Nat) : Bool := a.isPrefixOf b

/-- explore; returns list of (key, fifo, example) -/
partial def explore (x : MonCtx) (tag : String) (maxStates : Nat) :
    Std.HashSet (PState × PredSt × Bool) → List Item_Q → List (String × Bool × String) → Nat → (List (String × Bool × String) × Nat)
  | _, [], acc, cnt => (acc, cnt)
  | vis, it :: rest, acc, cnt =>
    if cnt > maxStates then (("LIMIT", true, tag) :: acc, cnt) else
    let c := x.c
    -- successors
    let succs : List (Item_Q × List Note) :=
      (actionsOf_Q c.n).filterMap (fun a =>
        match step? c it.s a with
        | none => none
        | some s1 =>
          if a == .interrupt && !(it.s.inflight.all (fun f => decide (f ∈ it.s.invoked))) then none else
          let evs := stepEvents'_Q x.control it.s a s1
          let r := predMany x it.m evs
          let m1 := { r.1 with nEv := min r.1.nEv 1 }
          let fifo := it.fifo && isPrefixB s1.invoked s1.handedOut
          some ({ s := s1, m := m1, fifo := fifo, path := (reprStr a) :: it.path }, r.2))
      ++ (if decide (Quiescent c it.s) && it.s.result.isNone then
            let r := predFut x it.m .q
            [({ s := it.s, m := { r.1 with nEv := min r.1.nEv 1 }, fifo := it.fifo, path := "q" :: it.path }, r.2)]
          else [])
    let (vis, rest, acc) := succs.foldl (fun (st : Std.HashSet (PState × PredSt × Bool) × List Item_Q × List (String × Bool × String)) (p : Item_Q × List Note) =>
      let (vis, rest, acc) := st
      let bad := p.2.filter (fun n => !n.ok)
      let acc := bad.foldl (fun acc n =>
        match n with
        | .prop pr wh _ =>
          let key := pr ++ ":" ++ stripDigits_Q wh
          if acc.any (fun e => e.1 == key && e.2.1 == p.1.fifo) then acc
          else (key, p.1.fifo, tag ++ " PATH " ++ toString p.1.path.reverse) :: acc
        | _ => acc) acc
      let k := (p.1.s, p.1.m, p.1.fifo)
      if vis.contains k then (vis, rest, acc) else (vis.insert k, p.1 :: rest, acc)) (vis, rest, acc)
    explore x tag maxStates vis rest acc (cnt + 1)

def mkDecls_Q (g : Dag) : List FnDecl :=
  (List.range g.n).map (fun u =>
    ⟨[], ((List.range g.edges.length).filter (fun i => match g.edges[i]? with | some e => e.src == u || e.tgt == u | none => false)), u⟩)

def countsOf_Q (g : Dag) : List Nat := (List.range g.n).map (fun v => (parents g v).length)

def mkE_Q (l : List (Nat × Nat)) : List Edge := l.map (fun p => ⟨p.1, p.2, .logic⟩)

def graphs_Q : List Dag :=
  [⟨0, []⟩, ⟨1, []⟩, ⟨2, []⟩, ⟨2, mkE_Q [(0,1)]⟩, ⟨2, mkE_Q [(1,0)]⟩,
   ⟨3, []⟩, ⟨3, mkE_Q [(0,1)]⟩, ⟨3, mkE_Q [(2,0)]⟩, ⟨3, mkE_Q [(0,1),(1,2)]⟩, ⟨3, mkE_Q [(2,1),(1,0)]⟩,
   ⟨3, mkE_Q [(0,1),(0,2)]⟩, ⟨3, mkE_Q [(0,2),(1,2)]⟩, ⟨3, mkE_Q [(0,1),(1,2),(0,2)]⟩, ⟨3, mkE_Q [(1,0),(1,2)]⟩,
   ⟨3, mkE_Q [(2,1),(0,1)]⟩]

def strats_Q : List Strat := [.non, .ignore, .finish, .pollN 0, .pollN 1, .pollN 2]
def limits_Q : List (Option Nat) := [none, some 0, some 1, some 2]
def modes_Q : List (Bool × ErrMode) := [(false, .none), (false, .collect), (true, .none), (true, .collect), (true, .shortCircuit)]

def cfgs_Q (g : Dag) : List Cfg :=
  strats_Q.flatMap fun st => [true, false].flatMap fun incl => limits_Q.flatMap fun lim => modes_Q.map fun md =>
    { D := g, counts0 := countsOf_Q g, limit := lim, sequential := md.1, errMode := md.2, strat := st, incl := incl }

def cfgTag_Q (c : Cfg) : String :=
  s!"n={c.D.n} edges={c.D.edges.map (fun e => (e.src, e.tgt))} lim={c.limit} seq={c.sequential} err={reprStr c.errMode} strat={reprStr c.strat} incl={c.incl}"

def runCfg_Q (c : Cfg) (control : Bool) : List (String × Bool × String) × Nat :=
  let x : MonCtx := { c := c, decls := mkDecls_Q c.D, userD := c.D, rev := false, control := control, interruptible := false, coop := false }
  let it : Item_Q := { s := init c, m := {}, fifo := true, path := [] }
  explore x (cfgTag_Q c) 2000000 (({} : Std.HashSet _).insert (it.s, it.m, true)) [it] [] 0

def merge_Q (a b : List (String × Bool × String)) : List (String × Bool × String) :=
  b.foldl (fun acc e => if acc.any (fun e' => e'.1 == e.1 && e'.2.1 == e.2.1) then acc else e :: acc) a

def searchGraph_Q (gi : Nat) : IO Unit := do
  let g := graphs_Q[gi]!
  let mut acc : List (String × Bool × String) := []
  let mut total := 0
  for c in cfgs_Q g do
    let r := runCfg_Q c true
    acc := merge_Q acc r.1
    total := total + r.2
  IO.println s!"graph {gi}: states {total}"
  for e in acc do
    IO.println s!"FAIL {e.1} fifo={e.2.1} :: {e.2.2}"

end FG.QSearch

/- graph 2 = two independent functions, graph 3 = the chain `0 → 1` -/
#eval FG.QSearch.searchGraph_Q 2
#eval FG.QSearch.searchGraph_Q 3
