/-
  Proofs/ProtoFBase.lean — the sub-invariant `Inv0` of the run protocol (inductive under `GoodCfg`
  alone), list helpers and the `relFold` variant used by `queuerRecv`.
-/
import FnGraphVerif.Proofs.ProtoInv
namespace FG

/-- All clauses of `Inv` that hold for EVERY configuration (also a non-sequential
    `shortCircuit` one, which no real API produces); the three clauses `short`, `sDoneInfl`,
    `retFrozen` of `Inv` appear in the weaker forms `short0`, `sDoneInfl0`, `ret0`. -/
structure Inv0 (c : Cfg) (s : PState) : Prop where
  cnt : ∀ v, s.counts[v]?.getD 0 = unreleased c.D s.released v
  cntLen : s.counts.length = c.n
  relNodup : (s.released ++ s.doneQ).Nodup
  doneEnded : ∀ x, x ∈ s.released ∨ x ∈ s.doneQ → x ∈ s.endedOk
  ready : ∀ v, (v ∈ s.readyQ ∨ v ∈ s.handedOut ∨ s.dropped = some v) → ∀ p ∈ parents c.D v, p ∈ s.released
  queueNodup : (s.readyQ ++ s.handedOut ++ s.dropped.toList).Nodup
  bound : ∀ v, (v ∈ s.readyQ ∨ v ∈ s.handedOut ∨ s.dropped = some v) → v < c.n
  inflHanded : ∀ f ∈ s.inflight, f ∈ s.handedOut
  inflNodup : s.inflight.Nodup
  endNodup : (s.endedOk ++ s.failed).Nodup
  inflNotEnded : ∀ f ∈ s.inflight, f ∉ s.endedOk ∧ f ∉ s.failed
  endedHanded : ∀ f, f ∈ s.endedOk ∨ f ∈ s.failed → f ∈ s.handedOut
  handedSplit : ∀ f ∈ s.handedOut, f ∈ s.inflight ∨ f ∈ s.endedOk ∨ f ∈ s.failed
  invHanded : ∀ f ∈ s.invoked, f ∈ s.handedOut
  invNodup : s.invoked.Nodup
  endedInvoked : ∀ f, f ∈ s.endedOk ∨ f ∈ s.failed → f ∈ s.invoked
  noPanic : s.panic = false
  qRem : s.qRemaining + s.released.length = c.n
  sRem : s.sRemaining + s.endedOk.length + (if c.errMode = .collect then s.failed.length else 0) = c.n
  errs : s.errors = (if c.errMode = .collect then s.failed else [])
  failedMode : c.errMode = .none → s.failed = []
  short0 : c.errMode = .shortCircuit → s.shortErr = none → s.failed = []
  shortOnly : s.shortErr.isSome = true → c.errMode = .shortCircuit
  shortDone : s.shortErr.isSome = true → s.sDone = true
  limSeq : c.sequential = true → s.inflight.length ≤ 1
  limPar : c.sequential = false → ∀ l, c.limit = some (l + 1) → s.inflight.length ≤ l + 1
  sDoneInfl0 : s.sDone = true → s.shortErr = none → s.inflight = []
  ret0 : ∀ r, s.result = some r → s.sDone = true ∧ s.qDone = true ∧ (s.shortErr = none → r = mkRet c s) ∧
    (∀ fin p np e, r = .outcome fin p np e → s.shortErr = none)

theorem Inv0.irrel {c : Cfg} {s : PState} (h : Inv0 c s) (m : IM) (ca : Option Nat) (se rx tx dtx : Bool) :
    Inv0 c { s with im := m, closeAfter := ca, streamEnded := se, readyRxOpen := rx, readyTxOpen := tx,
                    doneTxOpen := dtx } := { h with }

variable {c : Cfg} {s s' : PState}

/-! ### list helpers -/

theorem nodup_snoc_F {l : List Nat} {a : Nat} : (l ++ [a]).Nodup ↔ l.Nodup ∧ a ∉ l := by
  rw [List.nodup_append]
  constructor
  · rintro ⟨h1, _, h3⟩; exact ⟨h1, fun h => h3 a h a (by simp) rfl⟩
  · rintro ⟨h1, h2⟩
    refine ⟨h1, by simp, ?_⟩
    intro x hx y hy hxy; simp at hy; subst hy; subst hxy; exact h2 hx

theorem nodup_cons_bounded_length {l : List Nat} {a n : Nat} (hnd : l.Nodup) (ha : a ∉ l) (han : a < n)
    (hb : ∀ x ∈ l, x < n) : l.length + 1 ≤ n := by
  have h : (a :: l).Nodup := List.nodup_cons.mpr ⟨ha, hnd⟩
  have := nodup_bounded_length h (n := n) (by
    intro x hx; rcases List.mem_cons.mp hx with rfl | hx
    · exact han
    · exact hb x hx)
  simpa using this

theorem cap_ge (c : Cfg) : c.n ≤ c.cap := by unfold Cfg.cap Cfg.n; omega

/-! ### the `relFold` variant: every queued child had count 1 -/

theorem relFold_ready_one (cs : Bool) (cap : Nat) (l : List Nat) (hnd : l.Nodup)
    (st : List Nat × List Nat × Bool) :
    ∃ t, (relFold cs cap st l).2.1 = st.2.1 ++ t ∧ t.Sublist l ∧ ∀ x ∈ t, st.1[x]?.getD 0 - 1 = 0 := by
  induction l generalizing st with
  | nil => exact ⟨[], by simp [relFold], List.Sublist.refl _, by simp⟩
  | cons a l ih =>
    have ha : a ∉ l := (List.nodup_cons.mp hnd).1
    have hnd' := (List.nodup_cons.mp hnd).2
    rw [relFold_cons]
    obtain ⟨t, ht, hsub, hone⟩ := ih hnd' (relStep cs cap st a)
    have key : ∀ x ∈ t, st.1[x]?.getD 0 - 1 = 0 := by
      intro x hx
      have hxl : x ∈ l := hsub.subset hx
      have hne : ¬ a = x := fun h => ha (h ▸ hxl)
      have := hone x hx
      simpa [relStep, List.getElem?_set, hne] using this
    by_cases hq : (relStep cs cap st a).2.1 = st.2.1
    · exact ⟨t, by rw [ht, hq], hsub.cons _, key⟩
    · have hq' : (relStep cs cap st a).2.1 = st.2.1 ++ [a] ∧ st.1[a]?.getD 0 - 1 = 0 := by
        simp only [relStep] at hq ⊢
        split at hq
        · rename_i h
          simp only [Bool.and_eq_true, beq_iff_eq, decide_eq_true_eq] at h
          simp [h]
        · exact absurd rfl hq
      refine ⟨a :: t, by rw [ht, hq'.1]; simp, hsub.cons_cons _, ?_⟩
      intro x hx
      rcases List.mem_cons.mp hx with rfl | hx
      · exact hq'.2
      · exact key x hx

/-! ### static consequences of `Inv0` used by several steps -/

theorem Inv0.handed_lt (h : Inv0 c s) {f : Nat} (hf : f ∈ s.handedOut) : f < c.n :=
  h.bound f (Or.inr (Or.inl hf))

theorem Inv0.ended_lt (h : Inv0 c s) {f : Nat} (hf : f ∈ s.endedOk ++ s.failed) : f < c.n :=
  h.handed_lt (h.endedHanded f (List.mem_append.mp hf))

/-- an in-flight function is not yet counted: the scheduler's counter is positive -/
theorem Inv0.ended_room (h : Inv0 c s) {f : Nat} (hf : f ∈ s.inflight) :
    s.endedOk.length + s.failed.length + 1 ≤ c.n := by
  have hne := h.inflNotEnded f hf
  have := nodup_cons_bounded_length (a := f) (n := c.n) h.endNodup
    (by simp only [List.mem_append]; exact fun h' => h'.elim hne.1 hne.2)
    (h.handed_lt (h.inflHanded f hf)) (fun x hx => h.ended_lt hx)
  simpa using this

theorem Inv0.sRem_pos (h : Inv0 c s) {f : Nat} (hf : f ∈ s.inflight) : 0 < s.sRemaining := by
  have h1 := h.ended_room hf
  have h2 := h.sRem
  split at h2 <;> omega

theorem Inv0.rel_lt (h : Inv0 c s) {x : Nat} (hx : x ∈ s.released ++ s.doneQ) : x < c.n :=
  h.handed_lt (h.endedHanded x (Or.inl (h.doneEnded x (List.mem_append.mp hx))))

theorem Inv0.infl_not_done (h : Inv0 c s) {f : Nat} (hf : f ∈ s.inflight) : f ∉ s.released ++ s.doneQ :=
  fun hx => (h.inflNotEnded f hf).1 (h.doneEnded f (List.mem_append.mp hx))

/-- an in-flight function has not sent its done id: the done channel has room -/
theorem Inv0.done_room (h : Inv0 c s) {f : Nat} (hf : f ∈ s.inflight) :
    s.released.length + s.doneQ.length + 1 ≤ c.n := by
  have := nodup_cons_bounded_length (a := f) (n := c.n) h.relNodup (h.infl_not_done hf)
    (h.handed_lt (h.inflHanded f hf)) (fun x hx => h.rel_lt hx)
  simpa using this

theorem Inv0.rel_len (h : Inv0 c s) : s.released.length + s.doneQ.length ≤ c.n := by
  have := nodup_bounded_length h.relNodup (n := c.n) (fun x hx => h.rel_lt hx)
  simpa using this

theorem Inv0.queue_len (h : Inv0 c s) : s.readyQ.length + s.handedOut.length ≤ c.n := by
  have hnd : (s.readyQ ++ s.handedOut).Nodup := (List.nodup_append.mp h.queueNodup).1
  have := nodup_bounded_length hnd (n := c.n) (fun x hx => h.bound x (by
    rcases List.mem_append.mp hx with h' | h'
    · exact Or.inl h'
    · exact Or.inr (Or.inl h')))
  simpa using this

theorem Inv0.failed_nodup (h : Inv0 c s) : s.failed.Nodup := (List.nodup_append.mp h.endNodup).2.1

theorem Inv0.head_not_handed (h : Inv0 c s) {f : Nat} {rest : List Nat} (hq : s.readyQ = f :: rest) :
    f ∉ rest ∧ f ∉ s.handedOut ∧ s.dropped ≠ some f := by
  have hnd := h.queueNodup
  rw [hq] at hnd
  simp only [List.cons_append, List.nodup_cons, List.mem_append, not_or] at hnd
  refine ⟨hnd.1.1.1, hnd.1.1.2, ?_⟩
  intro hd; rw [hd] at hnd; simp at hnd

end FG
