/-
  Proofs/SAdvance.lean — the monitor's own moves, for `Theorems/MonitorComplete.lean`:
  * `advanceUntil` walks along the path of `settleN` and stops at the FIRST state satisfying the
    predicate; it fails only if `settleN` with the same fuel ends in a state violating it;
  * with at least `settleFuel` steps of fuel `settleN` is `settle`;
  * `FifoInv`: the functions handed out are the invoked ones followed by the not yet invoked
    in-flight ones — an invariant of every run that invokes in hand-out order, in particular of the
    monitor's `settle1` (it invokes the first pending function).
-/
import FnGraphVerif.Proofs.SFinish
namespace FG
variable {c : Cfg} {s s' t : PState}

/-! ### `settleN` -/

theorem settleN_of_quiescent (hq : Quiescent c s) (k : Nat) : settleN c k s = s := by
  cases k with
  | zero => rfl
  | succ k =>
    unfold settleN
    rw [show settle1 c s = none from hq]

theorem settleN_add (a b : Nat) : ∀ s : PState, settleN c (a + b) s = settleN c b (settleN c a s) := by
  induction a with
  | zero => intro s; simp [settleN]
  | succ a ih =>
    intro s
    rw [show a + 1 + b = (a + b) + 1 by omega]
    cases h : settle1 c s with
    | none =>
      have hq : Quiescent c s := h
      rw [settleN_of_quiescent hq, settleN_of_quiescent hq, settleN_of_quiescent hq]
    | some p =>
      obtain ⟨x, s1⟩ := p
      simp only [settleN, h]
      exact ih s1

theorem settleN_ge (hc : GoodCfg c) (hr : Reachable c s) {k : Nat} (hk : settleFuel c ≤ k) :
    settleN c k s = settle c s := by
  obtain ⟨d, rfl⟩ := Nat.exists_eq_add_of_le hk
  rw [settleN_add]
  exact settleN_of_quiescent (settle_quiescent hc hr) d

/-! ### `advanceUntil` -/

/-- failure: the whole fuel was used (or rest was reached) without meeting the predicate -/
theorem advanceUntil_false (p : PState → Bool) (k : Nat) : ∀ s : PState,
    (advanceUntil c p k s).2 = false →
      (advanceUntil c p k s).1 = settleN c k s ∧ p (settleN c k s) = false := by
  induction k with
  | zero =>
    intro s h
    simp only [advanceUntil] at h
    exact ⟨rfl, h⟩
  | succ k ih =>
    intro s h
    unfold advanceUntil at h ⊢
    by_cases hp : p s = true
    · simp only [hp, if_true] at h
      exact absurd h (by simp)
    · simp only [hp, Bool.false_eq_true, if_false] at h ⊢
      cases h1 : settle1 c s with
      | none =>
        simp only [settleN, h1]
        exact ⟨by first | rfl | trivial, by simpa using hp⟩
      | some q =>
        obtain ⟨a, s1⟩ := q
        rw [h1] at h
        simp only [settleN, h1]
        exact ih s1 h

/-- success: the predicate holds in the state reached, and either that is the start state or the
    last step came from a state (reached by internal actions) in which it did not hold -/
theorem advanceUntil_true' (p : PState → Bool) (k : Nat) : ∀ s : PState,
    (advanceUntil c p k s).2 = true →
      p (advanceUntil c p k s).1 = true ∧
      ((advanceUntil c p k s).1 = s ∨
       ∃ s0 a as, (∀ b ∈ as, b.isExternal = false) ∧ run c s as = some s0 ∧ p s0 = false ∧
         settle1 c s0 = some (a, (advanceUntil c p k s).1)) := by
  induction k with
  | zero =>
    intro s h
    simp only [advanceUntil] at h ⊢
    exact ⟨h, Or.inl (by first | rfl | trivial)⟩
  | succ k ih =>
    intro s h
    unfold advanceUntil at h ⊢
    by_cases hp : p s = true
    · simp only [hp, if_true]
      exact ⟨by first | exact hp | trivial, Or.inl (by first | rfl | trivial)⟩
    · simp only [hp, Bool.false_eq_true, if_false] at h ⊢
      cases h1 : settle1 c s with
      | none => rw [h1] at h; exact absurd h (by simp)
      | some q =>
        obtain ⟨a, s1⟩ := q
        rw [h1] at h
        simp only at h ⊢
        obtain ⟨hp1, hcase⟩ := ih s1 h
        refine ⟨hp1, Or.inr ?_⟩
        rcases hcase with he | ⟨s0, a', as, has, hrun, hp0, hlast⟩
        · refine ⟨s, a, [], by simp, rfl, by simpa using hp, ?_⟩
          rw [he]; exact h1
        · refine ⟨s0, a', a :: as, ?_, ?_, hp0, hlast⟩
          · intro b hb
            rcases List.mem_cons.mp hb with rfl | hb
            · exact settle1_notExternal h1
            · exact has b hb
          · simp only [run, settle1_step h1]
            exact hrun

/-- with enough fuel: if the settled state satisfies the predicate the monitor finds such a state -/
theorem advanceUntil_succeeds (hc : GoodCfg c) (hr : Reachable c s) (p : PState → Bool) {k : Nat}
    (hk : settleFuel c ≤ k) (hp : p (settle c s) = true) : (advanceUntil c p k s).2 = true := by
  cases h : (advanceUntil c p k s).2 with
  | true => rfl
  | false =>
    have := (advanceUntil_false p k s h).2
    rw [settleN_ge hc hr hk, hp] at this
    exact absurd this (by simp)

theorem trackFuel_ge (c : Cfg) : settleFuel c ≤ trackFuel c := by
  unfold trackFuel; omega

/-! ### invoking in hand-out order -/

def FifoInv (s : PState) : Prop :=
  s.handedOut = s.invoked ++ s.inflight.filter (fun f => decide (f ∉ s.invoked))

theorem nextInternal_invoke {f : Nat} (h : nextInternal c s = some (.invoke f)) :
    s.inflight.find? (fun f => decide (f ∉ s.invoked)) = some f := by
  unfold nextInternal at h
  split at h
  · exact absurd h (by simp)
  · split at h
    · rename_i g hg
      simp only [Option.some.injEq, Action.invoke.injEq] at h
      rw [hg, h]
    · exfalso
      repeat' split at h
      all_goals simp at h

theorem filter_snoc_invoked (l inv : List Nat) (f : Nat) :
    l.filter (fun g => decide (g ∉ inv ++ [f])) =
      (l.filter (fun g => decide (g ∉ inv))).filter (fun g => g != f) := by
  rw [List.filter_filter]
  apply List.filter_congr
  intro g _
  by_cases h1 : g ∈ inv <;> by_cases h2 : g = f <;> simp [h1, h2]

/-- every step of a run that invokes the first pending function keeps `FifoInv` -/
theorem fifoInv_step (hinv : Inv0 c s) (h : FifoInv s) {a : Action} (hs : step? c s a = some s')
    (ha : ∀ f, a = .invoke f → (s.inflight.filter (fun g => decide (g ∉ s.invoked))).head? = some f) :
    FifoInv s' := by
  unfold FifoInv at h ⊢
  cases a with
  | queuerRecv => obtain ⟨_, _, x, rest, _, rfl⟩ := queuerRecv_cases hs; exact h
  | queuerEnd => obtain ⟨_, _, _, rfl⟩ := queuerEnd_cases hs; exact h
  | schedPoll =>
    have hand : ∀ (g : Nat) (rest : List Nat), s.readyQ = g :: rest →
        s.handedOut ++ [g] = s.invoked ++ (s.inflight ++ [g]).filter (fun f => decide (f ∉ s.invoked)) := by
      intro g rest hq
      have hg : g ∉ s.invoked := by
        intro hgi
        have h1 := hinv.invHanded g hgi
        have hnd := hinv.queueNodup
        rw [List.append_assoc] at hnd
        have := (List.nodup_append.mp hnd).2.2 g (by rw [hq]; simp) g (List.mem_append_left _ h1)
        exact this rfl
      rw [List.filter_append]
      simp only [List.filter_cons, hg, not_false_eq_true, decide_true, if_true, List.filter_nil]
      rw [← List.append_assoc, ← h]
    obtain ⟨_, _, _, hcase⟩ := schedPoll_cases hs
    rcases hcase with ⟨_, rfl⟩ | ⟨_, rfl⟩ | ⟨_, rfl⟩ | ⟨_, g, rest, hq, rfl⟩ | ⟨_, g, rest, hq, ⟨_, rfl⟩ | ⟨_, rfl⟩⟩
    · exact h
    · exact h
    · exact h
    · exact hand g rest hq
    · exact hand g rest hq
    · exact h
  | invoke f =>
    obtain ⟨hfi, hfn, rfl⟩ := invoke_cases hs
    have hhead := ha f rfl
    show s.handedOut = (s.invoked ++ [f]) ++ s.inflight.filter (fun g => decide (g ∉ s.invoked ++ [f]))
    rw [filter_snoc_invoked]
    cases hU : s.inflight.filter (fun g => decide (g ∉ s.invoked)) with
    | nil => rw [hU] at hhead; exact absurd hhead (by simp)
    | cons g U' =>
      rw [hU] at hhead h
      simp only [List.head?_cons, Option.some.injEq] at hhead
      subst hhead
      have hnd : (g :: U').Nodup := by rw [← hU]; exact hinv.inflNodup.filter _
      have hg : g ∉ U' := (List.nodup_cons.mp hnd).1
      have : (g :: U').filter (fun x => x != g) = U' := by
        simp only [List.filter_cons, bne_self_eq_false, Bool.false_eq_true, if_false]
        apply List.filter_eq_self.mpr
        intro x hx
        simp only [bne_iff_ne, ne_eq]
        intro hxg; exact hg (hxg ▸ hx)
      rw [this, h]
      simp
  | finish f ok =>
    have key : ∀ (hv : f ∈ s.invoked),
        s.handedOut = s.invoked ++ (s.inflight.erase f).filter (fun g => decide (g ∉ s.invoked)) := by
      intro hv
      rw [hinv.inflNodup.erase_eq_filter, List.filter_filter]
      have : s.inflight.filter (fun a => decide (a ∉ s.invoked) && (a != f)) =
          s.inflight.filter (fun a => decide (a ∉ s.invoked)) := by
        apply List.filter_congr
        intro x _
        by_cases hx : x ∈ s.invoked
        · simp [hx]
        · have : x ≠ f := fun e => hx (e ▸ hv)
          simp [hx, this]
      rw [this]
      exact h
    cases ok with
    | true => obtain ⟨_, hv, rfl⟩ := finishOk_cases hs; exact key hv
    | false =>
      obtain ⟨_, hv, ⟨_, rfl⟩ | ⟨_, rfl⟩⟩ := finishErr_cases hs <;> exact key hv
  | interrupt => rw [interrupt_cases hs]; exact h
  | schedEnd => obtain ⟨_, _, _, rfl⟩ := schedEnd_cases hs; exact h
  | ret => obtain ⟨_, _, _, rfl⟩ := ret_cases hs; exact h

theorem fifoInv_settle1 (hinv : Inv0 c s) (h : FifoInv s) {a : Action} (hs : settle1 c s = some (a, s')) :
    FifoInv s' := by
  obtain ⟨hn, hstep⟩ := settle1_some_iff.mp hs
  apply fifoInv_step hinv h hstep
  intro f hf
  subst hf
  rw [List.head?_filter]
  exact nextInternal_invoke hn

theorem fifoInv_settleN (hc : GoodCfg c) (k : Nat) : ∀ {s : PState}, Reachable c s → FifoInv s →
    FifoInv (settleN c k s) := by
  induction k with
  | zero => intro s _ h; exact h
  | succ k ih =>
    intro s hr h
    unfold settleN
    split
    · exact h
    · rename_i a s1 h1
      exact ih (settle1_reachable hr h1) (fifoInv_settle1 (inv0_reachable hc hr) h h1)

theorem fifoInv_advanceUntil (hc : GoodCfg c) (p : PState → Bool) (k : Nat) : ∀ {s : PState},
    Reachable c s → FifoInv s → FifoInv (advanceUntil c p k s).1 := by
  induction k with
  | zero => intro s _ h; exact h
  | succ k ih =>
    intro s hr h
    unfold advanceUntil
    split
    · exact h
    · split
      · exact h
      · rename_i a s1 h1
        exact ih (settle1_reachable hr h1) (fifoInv_settle1 (inv0_reachable hc hr) h h1)

end FG
