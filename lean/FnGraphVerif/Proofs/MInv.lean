/-
  Proofs/MInv.lean — inductive invariant of the micro-step stream model (`Model/StreamMicro.lean`).

  `SCore` (of `Proofs/StreamInv.lean`) holds at every micro state; `SPark` holds whenever the consumer
  is outside a poll; inside a poll the stream is not dropped; and once the drain loop has seen the
  done channel empty (`pc = readyPoll`) the consumer — provided it still holds its senders — is either
  already woken or registered on a still empty done channel.  The last fact is what survives drops
  landing mid-poll: a drop before the registering `drainStep` is drained by a later `drainStep` of the
  same poll, a drop after it consumes the registered waker and sets `wake`.
-/
import FnGraphVerif.Proofs.StreamInv
import FnGraphVerif.Model.StreamMicro
namespace FG

/-- the second half of `spoll` in the model is the `spollTail` of `Proofs/StreamInv.lean` -/
theorem sReadyHalf_eq (d : SState) : sReadyHalf d = spollTail d := by
  unfold sReadyHalf spollTail
  simp only [decr]
  obtain ⟨_, rq, _, tx, _, _, _, _, _, _, _, _, _, _, _, _⟩ := d
  cases tx <;> cases rq <;> rfl

/-- `spoll` = clear `wake`, drain, second half -/
theorem spoll_eq (c : Cfg) (s : SState) :
    spoll c true s = sReadyHalf (sDrain c (s.doneQ.length + 1) { s with wake := false }) := rfl

theorem spollTail_wake (d : SState) : (spollTail d).1.wake = d.wake := by
  unfold spollTail
  cases htx : d.txOpen
  · simp
  · cases hrq : d.readyQ <;> simp [syield]

structure MInv (c : Cfg) (m : MState) : Prop where
  core : SCore c m.s
  park : m.pc = .idle → SPark m.s
  inPoll : m.pc ≠ .idle → m.s.streamDropped = false
  registered : m.pc = .readyPoll → m.s.txOpen = true →
    m.s.wake = true ∨ (m.s.doneQ = [] ∧ m.s.doneRxWaker = true)

theorem minv_init {c : Cfg} (hc : GoodCfg c) : MInv c (minit c) :=
  ⟨score_init hc, fun _ => spark_init c, fun h => absurd rfl h, fun h => (by cases h)⟩

/-! ### facts about `sdrop` -/

theorem sdrop_frame {c : Cfg} {s s' : SState} {f : Nat} (hd : sdrop c s f = some s') :
    s'.streamDropped = s.streamDropped ∧ s'.txOpen = s.txOpen ∧ s'.lastPending = s.lastPending ∧
    s'.readyQ = s.readyQ ∧ s'.yielded = s.yielded ∧
    ((s'.doneQ = s.doneQ ∧ s'.wake = s.wake ∧ s'.doneRxWaker = s.doneRxWaker) ∨
     (s'.doneQ = s.doneQ ++ [f] ∧ s'.wake = (s.wake || s.doneRxWaker))) := by
  rw [sdrop_eq] at hd
  split at hd
  · cases hd
  · split at hd
    · cases hd
      exact ⟨rfl, rfl, rfl, rfl, rfl, Or.inl ⟨rfl, rfl, rfl⟩⟩
    · cases hd
      exact ⟨rfl, rfl, rfl, rfl, rfl, Or.inr ⟨rfl, rfl⟩⟩

/-- "woken, or registered on an empty done channel" survives a drop -/
theorem wakeOrReg_drop {c : Cfg} {s s' : SState} {f : Nat} (hd : sdrop c s f = some s')
    (h : s.wake = true ∨ (s.doneQ = [] ∧ s.doneRxWaker = true)) :
    s'.wake = true ∨ (s'.doneQ = [] ∧ s'.doneRxWaker = true) := by
  obtain ⟨_, _, _, _, _, hcase⟩ := sdrop_frame hd
  rcases hcase with ⟨e1, e2, e3⟩ | ⟨_, e2⟩
  · rw [e1, e2, e3]; exact h
  · left
    rw [e2]
    rcases h with h1 | ⟨_, h1⟩ <;> simp [h1]

/-! ### the micro steps preserve the invariant -/

theorem minv_pollBegin {c : Cfg} {m m' : MState} (h : MInv c m) (hs : mstep? c m .pollBegin = some m') :
    MInv c m' := by
  simp only [mstep?] at hs
  split at hs
  · rename_i hg
    cases hs
    have hcore := h.core
    exact ⟨{ hcore with }, fun hp => (by cases hp), fun _ => hg.2, fun hp => by cases hp⟩
  · cases hs

theorem minv_drainStep {c : Cfg} (hc : GoodCfg c) {m m' : MState} (h : MInv c m)
    (hs : mstep? c m .drainStep = some m') : MInv c m' := by
  simp only [mstep?] at hs
  split at hs
  · rename_i hpc
    split at hs
    · rename_i x rest hq
      cases hs
      refine ⟨score_release hc h.core hq, fun hp => ?_, fun _ => ?_, fun hp => ?_⟩
      · change m.pc = .idle at hp; rw [hpc] at hp; cases hp
      · show (sRelease c m.s x rest).streamDropped = false
        rw [sRelease_streamDropped]; exact h.inPoll (by rw [hpc]; simp)
      · change m.pc = .readyPoll at hp; rw [hpc] at hp; cases hp
    · rename_i hq
      cases hs
      have hcore := h.core
      have hsd : m.s.streamDropped = false := h.inPoll (by rw [hpc]; simp)
      by_cases hds : m.s.doneSenders = true
      · simp only [hds, if_true]
        refine ⟨{ hcore with }, fun hp => (by cases hp), fun _ => hsd, fun _ _ => Or.inr ⟨hq, rfl⟩⟩
      · simp only [hds]
        refine ⟨hcore, fun hp => (by cases hp), fun _ => hsd, fun _ htx => ?_⟩
        exfalso; apply hds
        simp only [SState.doneSenders]
        change m.s.txOpen = true at htx
        simp [htx]
  · cases hs

theorem minv_readyStep {c : Cfg} {m m' : MState} (h : MInv c m)
    (hs : mstep? c m .readyStep = some m') : MInv c m' := by
  simp only [mstep?] at hs
  split at hs
  · rename_i hpc
    cases hs
    rw [sReadyHalf_eq]
    have hcore := score_spollTail h.core
    obtain ⟨f1, f2, _, _⟩ := spollTail_facts m.s
    have hsd : m.s.streamDropped = false := h.inPoll (by rw [hpc]; simp)
    refine ⟨{ hcore with }, fun _ => ⟨?_, ?_⟩, fun hp => absurd rfl hp, fun hp => by cases hp⟩
    · intro hp
      have hp : (spollTail m.s).2 = .pending := by simpa using hp
      obtain ⟨g1, g2, _⟩ := f2 hp
      exact ⟨g1, g2⟩
    · intro hp _
      have hp : (spollTail m.s).2 = .pending := by simpa using hp
      obtain ⟨_, _, g3, g4, g5⟩ := f2 hp
      show (spollTail m.s).1.wake = true ∨ ((spollTail m.s).1.doneQ = [] ∧ (spollTail m.s).1.doneRxWaker = true)
      rw [spollTail_wake, g3, g4]
      exact h.registered hpc g5
  · cases hs

theorem minv_drop {c : Cfg} {m m' : MState} {f : Nat} (h : MInv c m)
    (hs : mstep? c m (.drop f) = some m') : MInv c m' := by
  simp only [mstep?] at hs
  split at hs
  · rename_i s' hd
    cases hs
    obtain ⟨e1, e2, _⟩ := sdrop_frame hd
    refine ⟨score_drop h.core hd, fun hp => spark_drop (h.park hp) hd, fun hp => ?_, fun hp htx => ?_⟩
    · show s'.streamDropped = false
      rw [e1]; exact h.inPoll hp
    · change s'.txOpen = true at htx
      rw [e2] at htx
      exact wakeOrReg_drop hd (h.registered hp htx)
  · cases hs

theorem minv_dropStream {c : Cfg} {m m' : MState} (h : MInv c m)
    (hs : mstep? c m .dropStream = some m') : MInv c m' := by
  simp only [mstep?] at hs
  split at hs
  · rename_i hg
    cases hs
    have hcore := h.core
    have hpk := h.park hg.1
    refine ⟨{ hcore with droppedDone := fun hx => by cases hx }, fun _ => ⟨hpk.parked, ?_⟩,
      fun hp => absurd hg.1 hp, fun hp => ?_⟩
    · intro _ hx; cases hx
    · change m.pc = .readyPoll at hp; rw [hg.1] at hp; cases hp
  · cases hs

theorem minv_step {c : Cfg} (hc : GoodCfg c) {m m' : MState} {a : MAction} (h : MInv c m)
    (hs : mstep? c m a = some m') : MInv c m' := by
  cases a with
  | pollBegin => exact minv_pollBegin h hs
  | drainStep => exact minv_drainStep hc h hs
  | readyStep => exact minv_readyStep h hs
  | drop f => exact minv_drop h hs
  | dropStream => exact minv_dropStream h hs

theorem minv_reachable {c : Cfg} (hc : GoodCfg c) {m : MState} (hr : MReachable c m) : MInv c m := by
  induction hr with
  | init => exact minv_init hc
  | step a _ hs ih => exact minv_step hc ih hs

/-! ### running a list of micro actions -/

theorem mreachable_mrun {c : Cfg} {m : MState} (hr : MReachable c m) :
    ∀ {as : List MAction} {m' : MState}, mrun c m as = some m' → MReachable c m' := by
  intro as
  induction as generalizing m with
  | nil => intro m' h; simp only [mrun, Option.some.injEq] at h; subst h; exact hr
  | cons a as ih =>
    intro m' h
    simp only [mrun] at h
    split at h
    · cases h
    · rename_i m1 hm1
      exact ih (MReachable.step a hr hm1) h

theorem mrun_append (c : Cfg) (m : MState) (as bs : List MAction) :
    mrun c m (as ++ bs) = (mrun c m as).bind (fun m' => mrun c m' bs) := by
  induction as generalizing m with
  | nil => rfl
  | cons a as ih =>
    simp only [List.cons_append, mrun]
    cases mstep? c m a with
    | none => rfl
    | some m' => exact ih m'

/-- the state after the given micro actions from the initial state (`minit` if one is not enabled) -/
def mexRun (c : Cfg) (as : List MAction) : MState := (mrun c (minit c) as).getD (minit c)

theorem mexRun_reachable {c : Cfg} {as : List MAction}
    (h : (mrun c (minit c) as).isSome = true) : MReachable c (mexRun c as) := by
  apply mreachable_mrun MReachable.init (as := as)
  unfold mexRun
  cases hh : mrun c (minit c) as with
  | none => rw [hh] at h; cases h
  | some s => rfl

end FG
