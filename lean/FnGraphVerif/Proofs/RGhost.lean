/-
  Proofs/RGhost.lean — facts about the `InterruptibleStream` machine and its ghost run (`irun`)
  needed to couple the stream predicates of `predStream` with the stream model, and the Boolean
  specification helpers (`allBlockedB`, `reachPlus`, `conflictInflightB`) read as propositions.
-/
import FnGraphVerif.Theorems.C08
import FnGraphVerif.Theorems.C05
import FnGraphVerif.Proofs.RStream
namespace FG

/-! ### the machine before any signal / under a transparent strategy -/

/-- no signal in the channel, none received: the wrapper is transparent, whatever the strategy -/
theorem pollNext_nosig (st : Strat) {m : IM} (h1 : m.sent = false) (h2 : m.recv = false)
    (h3 : m.sig = false) (h4 : m.ian = false) (u : Under) :
    (pollNext st m u).1.sent = false ∧ (pollNext st m u).1.recv = false ∧
    (pollNext st m u).1.sig = false ∧ (pollNext st m u).1.ian = false ∧
    (pollNext st m u).2 = transparentOut u := by
  obtain ⟨sent, recv, cnt, sig, hp, ipc, ian⟩ := m
  simp only at h1 h2 h3 h4
  subst h1; subst h2; subst h3; subst h4
  cases st <;> cases ipc <;> cases hp <;> cases u <;>
    simp [pollNext, interruptCheck, transparentOut]

theorem irun_snoc (st : Strat) (evs : List IEv) (e : IEv) :
    irun st (evs ++ [e]) = istep st (irun st evs) e := by
  simp [irun, List.foldl_append]

/-- before the first signal the machine is in a "no signal" state and nothing is counted -/
theorem irun_nosig (st : Strat) (evs : List IEv) (h : (irun st evs).everSent = false) :
    (irun st evs).m.sent = false ∧ (irun st evs).m.recv = false ∧ (irun st evs).m.sig = false ∧
    (irun st evs).m.ian = false ∧ (irun st evs).yN = 0 ∧ (irun st evs).yI = 0 := by
  have key := ifold_inv st (fun g => g.everSent = false →
      g.m.sent = false ∧ g.m.recv = false ∧ g.m.sig = false ∧ g.m.ian = false ∧ g.yN = 0 ∧ g.yI = 0)
    ?_ evs {} (fun _ => ⟨rfl, rfl, rfl, rfl, rfl, rfl⟩)
  · exact key h
  · intro g e ih
    cases e with
    | signal => intro hes; simp [istep] at hes
    | poll u =>
      intro hes
      have hes' : g.everSent = false := hes
      obtain ⟨a1, a2, a3, a4, a5, a6⟩ := ih hes'
      obtain ⟨b1, b2, b3, b4, _⟩ := pollNext_nosig st a1 a2 a3 a4 u
      refine ⟨b1, b2, b3, b4, ?_, ?_⟩
      · simp [istep, hes', a5]
      · simp [istep, hes', a6]

/-- `NonInterruptible` / `IgnoreInterruptions`: never `sig`, never `ian` -/
theorem irun_transparent {st : Strat} (hst : st = .non ∨ st = .ignore) (evs : List IEv) :
    (irun st evs).m.sig = false ∧ (irun st evs).m.ian = false := by
  refine ifold_inv st (fun g => g.m.sig = false ∧ g.m.ian = false) ?_ evs {} ⟨rfl, rfl⟩
  intro g e ih
  cases e with
  | signal => exact ih
  | poll u =>
    obtain ⟨b1, b2, _⟩ := pollNext_transparent hst ih.1 ih.2 u
    exact ⟨b1, b2⟩

/-! ### the Boolean specification helpers -/

theorem allBlockedB_iff (c : Cfg) (Y D : List Nat) :
    allBlockedB c Y D = true ↔ ∀ v, v < c.n → v ∈ Y ∨ ∃ p ∈ parents c.D v, p ∉ D := by
  simp [allBlockedB, List.all_eq_true, List.any_eq_true]

/-- not `needsPoll` is what `allBlockedB` checks -/
theorem allBlockedB_of_not_needsPoll {c : Cfg} {s : SState} (h : ¬ needsPoll c s) :
    allBlockedB c s.yielded s.droppedRefs = true := by
  rw [allBlockedB_iff]
  intro v hv
  by_cases hy : v ∈ s.yielded
  · exact Or.inl hy
  · right
    apply Classical.byContradiction
    intro hcon
    apply h
    refine ⟨v, hv, hy, ?_⟩
    intro p hp
    apply Classical.byContradiction
    intro hpd
    exact hcon ⟨p, hp, hpd⟩

theorem reachPlus_sound_R {g : Dag} {u v : Nat} (h : reachPlus g u v = true) : ReachP g u v := by
  unfold reachPlus at h
  rw [List.any_eq_true] at h
  obtain ⟨c, hc, hp⟩ := h
  exact ReachP.head (mem_children.mp hc) (hasPath_sound hp)

theorem ReachP.map_edges {g g' : Dag} (hsub : ∀ u v, IsEdge g u v → IsEdge g' u v) {u v : Nat}
    (h : ReachP g u v) : ReachP g' u v := by
  induction h with
  | edge he => exact ReachP.edge (hsub _ _ he)
  | tail _ he ih => exact ReachP.tail ih (hsub _ _ he)

end FG
