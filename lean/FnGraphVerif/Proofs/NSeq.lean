/-
  Proofs/NSeq.lean — the sequential (`fold*`) case of the hand-out / invocation relation.

  In a sequential run the scheduler only polls the ready stream while nothing is in flight, so
  (1) at most one function is handed out and not yet invoked, (2) while a function is in flight the
  `InterruptibleStream` is not parked on a `Pending` answer (`has_pending = false`).  Because of (2)
  a signal that arrives while a function is pending makes `FinishCurrent` / `PollNextN(0)` answer
  `Interrupted(None)` at the next poll: nothing more is handed out.  None of this needs `GoodCfg`.
-/
import FnGraphVerif.Proofs.NInvoke
namespace FG

/-! ### machine facts -/

theorem Out.isItem_of_handsOut {incl : Bool} {o : Out} (h : o.handsOut incl = true) :
    o.isItem = true := by
  cases o <;> simp_all [Out.handsOut, Out.isItem]

/-- an answer that carries an item clears `has_pending` and `item_polled_is_counted` -/
theorem pollNext_item_hp (st : Strat) (m : IM) (u : Under) (h : (pollNext st m u).2.isItem = true) :
    (pollNext st m u).1.hp = false ∧ (pollNext st m u).1.ipc = false := by
  unfold pollNext at h ⊢
  by_cases hian : m.ian = true
  · simp [hian, Out.isItem] at h
  · simp only [hian, Bool.false_eq_true, if_false] at h ⊢
    generalize interruptCheck st m = m' at h ⊢
    cases hhp : m'.hp <;> cases hsig : m'.sig <;> cases u <;> simp_all [Out.isItem]

/-- no signal has ever been sent -/
def PreI (m : IM) : Prop := m.sent = false ∧ m.recv = false ∧ m.sig = false ∧ m.ian = false

theorem pollNext_pre (st : Strat) {m : IM} (u : Under) (h : PreI m) : PreI (pollNext st m u).1 := by
  obtain ⟨sent, recv, cnt, sig, hp, ipc, ian⟩ := m
  obtain ⟨h1, h2, h3, h4⟩ := h
  simp only at h1 h2 h3 h4
  subst h1; subst h2; subst h3; subst h4
  unfold PreI
  cases st <;> cases ipc <;> cases hp <;> cases u <;> simp [pollNext, interruptCheck]

/-- the signal was sent while the machine was neither parked on `Pending` nor interrupted, and has
    not been looked at yet — or the machine has already answered `Interrupted(..)` -/
def JI (m : IM) : Prop :=
  m.ian = true ∨ (m.sent = true ∧ m.recv = false ∧ m.sig = false ∧ m.ipc = false ∧ m.hp = false)

theorem JI_signal {m : IM} (h : JI m) : JI { m with sent := true } := by
  rcases h with h | ⟨_, h2, h3, h4, h5⟩
  · exact Or.inl h
  · exact Or.inr ⟨rfl, h2, h3, h4, h5⟩

/-- `FinishCurrent` / `PollNextN(0)` from such a state: `Interrupted(None)`, then end of stream -/
theorem pollNext_JI {st : Strat} (hst : st = .finish ∨ st = .pollN 0) {m : IM} (u : Under)
    (incl : Bool) (h : JI m) :
    JI (pollNext st m u).1 ∧ (pollNext st m u).2.handsOut incl = false := by
  obtain ⟨sent, recv, cnt, sig, hp, ipc, ian⟩ := m
  unfold JI at h ⊢
  simp only at h
  cases ian with
  | true => simp [pollNext, Out.handsOut]
  | false =>
    simp only [Bool.false_eq_true, false_or] at h
    obtain ⟨h1, h2, h3, h4, h5⟩ := h
    subst h1; subst h2; subst h3; subst h4; subst h5
    rcases hst with rfl | rfl <;> cases u <;>
      simp [pollNext, interruptCheck, Strat.isN, Out.handsOut]

/-! ### the sequential invariant -/

structure SeqI (s : PState) : Prop where
  len : s.inflight.length ≤ 1
  hp : s.inflight ≠ [] → s.im.hp = false ∧ s.im.ipc = false

variable {c : Cfg} {s s' : PState}

theorem seqI_init (c : Cfg) : SeqI (init c) := ⟨by simp [init], by simp [init]⟩

/-- a sequential scheduler polls only when nothing is in flight -/
theorem seq_poll_inflight_nil (hseq : c.sequential = true) (h : step? c s .schedPoll = some s') :
    s.inflight = [] := by
  obtain ⟨_, hu, _⟩ := step_schedPoll_F h
  simpa [underLimit, hseq] using hu

theorem seqI_step (hseq : c.sequential = true) {a : Action} (hi : SeqI s)
    (h : step? c s a = some s') : SeqI s' := by
  cases a with
  | queuerRecv =>
    obtain ⟨x, rest, _, rfl⟩ := step_queuerRecv h
    exact ⟨hi.len, hi.hp⟩
  | queuerEnd =>
    simp only [step?] at h
    split at h
    · cases h
    · cases h; exact ⟨hi.len, hi.hp⟩
  | schedPoll =>
    have hnil := seq_poll_inflight_nil hseq h
    obtain ⟨e1, e2, _⟩ := step_schedPoll h
    obtain ⟨_, _, h | h | h⟩ := step_schedPoll_F h
    · obtain ⟨m, se, rx, dtx, rfl⟩ := h
      exact ⟨by simp [hnil], fun hne => absurd hnil hne⟩
    · obtain ⟨m, ca, f, rest, _, rfl⟩ := h
      refine ⟨by simp [handOut, hnil], fun _ => ?_⟩
      have hho : (pollNext c.strat s.im (readyUnder s)).2.handsOut c.incl = true := by
        by_cases hh : (pollNext c.strat s.im (readyUnder s)).2.handsOut c.incl = true
        · exact hh
        · simp [handOut, hh] at e2
      have := pollNext_item_hp _ _ _ (Out.isItem_of_handsOut hho)
      rw [e1]; exact this
    · obtain ⟨m, f, rest, _, rfl⟩ := h
      exact ⟨by simp [hnil], fun hne => absurd hnil hne⟩
  | invoke f =>
    simp only [step?] at h
    split at h
    · cases h; exact ⟨hi.len, hi.hp⟩
    · cases h
  | finish f ok =>
    have key : (s.inflight.erase f).length ≤ 1 ∧
        ((s.inflight.erase f) ≠ [] → s.im.hp = false ∧ s.im.ipc = false) := by
      refine ⟨Nat.le_trans (List.length_erase_le) hi.len, fun hne => hi.hp ?_⟩
      intro h0; rw [h0] at hne; exact hne rfl
    obtain ⟨_, _, h | h | h⟩ := step_finish h
    · obtain ⟨_, dq, _, rfl⟩ := h
      exact ⟨key.1, key.2⟩
    · obtain ⟨_, _, rfl⟩ := h
      exact ⟨key.1, key.2⟩
    · obtain ⟨_, _, rfl⟩ := h
      exact ⟨key.1, key.2⟩
  | interrupt =>
    simp only [step?] at h
    cases h; exact ⟨hi.len, hi.hp⟩
  | schedEnd =>
    simp only [step?] at h
    split at h
    · cases h; exact ⟨hi.len, hi.hp⟩
    · cases h
  | ret =>
    simp only [step?] at h
    split at h
    · cases h; exact ⟨hi.len, hi.hp⟩
    · cases h

theorem seqI_reachable (hseq : c.sequential = true) (hr : Reachable c s) : SeqI s := by
  induction hr with
  | init => exact seqI_init c
  | step a _ h ih => exact seqI_step hseq ih h

theorem SeqI.pending_le_one (hi : SeqI s) : pendingInvoke s ≤ 1 :=
  Nat.le_trans (pend_le_length _ _) hi.len

/-! ### the phases of a schedule -/

theorem preI_step {a : Action} (ha : a ≠ .interrupt) (hp : PreI s.im) (h : step? c s a = some s') :
    PreI s'.im := by
  by_cases h2 : a = .schedPoll
  · subst h2
    obtain ⟨e1, _, _⟩ := step_schedPoll h
    rw [e1]; exact pollNext_pre _ _ hp
  · obtain ⟨e1, _, _, _⟩ := step_other h ha h2
    rw [e1]; exact hp

/-- from a `JI` state `FinishCurrent` / `PollNextN(0)` hand out nothing any more -/
theorem handouts_zero_of_JI (c : Cfg) (hst : c.strat = .finish ∨ c.strat = .pollN 0)
    (as : List Action) (s : PState) (hJ : JI s.im) : handoutsAfterIntr c s true as = 0 := by
  induction as generalizing s with
  | nil => rfl
  | cons a as ih =>
    unfold handoutsAfterIntr
    cases h : step? c s a with
    | none => rfl
    | some s1 =>
      simp only [if_true, Bool.true_or]
      by_cases h1 : a = .interrupt
      · subst h1
        obtain ⟨e1, e2, _, _⟩ := step_interrupt h
        have := ih s1 (by rw [e1]; exact JI_signal hJ)
        rw [this, e2]; simp
      · by_cases h2 : a = .schedPoll
        · subst h2
          obtain ⟨e1, e2, _⟩ := step_schedPoll h
          obtain ⟨j1, j2⟩ := pollNext_JI hst (readyUnder s) c.incl hJ
          have := ih s1 (by rw [e1]; exact j1)
          rw [this, e2, j2]; simp
        · obtain ⟨e1, e2, _, _⟩ := step_other h h1 h2
          have := ih s1 (by rw [e1]; exact hJ)
          rw [this, e2]; simp

/-- sequential, `FinishCurrent` / `PollNextN(0)`: a function pending at the signal excludes any
    later hand-out -/
theorem seq_pending_or_handouts (c : Cfg) (hseq : c.sequential = true)
    (hst : c.strat = .finish ∨ c.strat = .pollN 0) (as : List Action) (s : PState)
    (hp : PreI s.im) (hi : SeqI s) :
    pendingAtIntr c s as = 0 ∨ handoutsAfterIntr c s false as = 0 := by
  induction as generalizing s with
  | nil => exact Or.inl rfl
  | cons a as ih =>
    unfold pendingAtIntr handoutsAfterIntr
    cases h : step? c s a with
    | none => exact Or.inl rfl
    | some s1 =>
      by_cases ha : a = .interrupt
      · subst ha
        simp only [if_true, Bool.false_eq_true, if_false, Nat.zero_add, Bool.false_or,
          beq_self_eq_true]
        by_cases hz : pendingInvoke s = 0
        · exact Or.inl hz
        · right
          have hne : s.inflight ≠ [] := by
            intro h0
            apply hz
            rw [pendingInvoke_eq, h0]; rfl
          obtain ⟨q1, q2⟩ := hi.hp hne
          obtain ⟨e1, _, _, _⟩ := step_interrupt h
          exact handouts_zero_of_JI c hst as s1
            (by rw [e1]; exact Or.inr ⟨rfl, hp.2.1, hp.2.2.1, q2, q1⟩)
      · have hb : (a == Action.interrupt) = false := by simpa using ha
        simp only [ha, if_false, Bool.false_eq_true, Nat.zero_add, Bool.false_or, hb]
        exact ih s1 (preI_step ha hp h) (seqI_step hseq hi h)

end FG
