/-
  Proofs/TraceDefs.lean — definitions that relate the driver's monitor (`Model/Monitor.lean`) to
  runs of the model: the events a model run would show to the harness, and the monitor run over a
  list of events.  Statements about them are in `Theorems/MonitorSound.lean` (an accepted trace is
  a model run) and `Theorems/TracePreds.lean` (every model run satisfies the specification
  predicates the driver evaluates on real traces).
-/
import FnGraphVerif.Model.Monitor
import FnGraphVerif.Proofs.ProtoInv
namespace FG

/-! ### monitor runs -/

def trackRun (x : MonCtx) : TrackSt → List Ev → TrackSt × List Note
  | t, [] => (t, [])
  | t, e :: es =>
    let r := trackFut x t e
    let r' := trackRun x r.1 es
    (r'.1, r.2 ++ r'.2)

def predRun (x : MonCtx) : PredSt → List Ev → PredSt × List Note
  | m, [] => (m, [])
  | m, e :: es =>
    let r := predFut x m e
    let r' := predRun x r.1 es
    (r'.1, r.2 ++ r'.2)

/-- the external (environment) actions: completions of user futures and the interrupt signal -/
def Action.isExternal : Action → Bool
  | .interrupt => true
  | .finish _ _ => true
  | _ => false

def Ev.external? : Ev → Option Action
  | .intr => some .interrupt
  | .fin f ok => some (.finish f ok)
  | _ => none

/-! ### the events a run of the model shows -/

/-- what the harness would log for one model step `s —a→ s'` -/
def stepEvents (c : Cfg) (control : Bool) (s : PState) (a : Action) (s' : PState) : List Ev :=
  match a with
  | .schedPoll => (s'.handedOut.drop s.handedOut.length).map Ev.handout
  | .invoke f => [.invoke f]
  | .finish f ok => [.fin f ok]
  | .interrupt => [.intr]
  | .ret =>
    match s'.result with
    | some (.outcome fnd p np errs) =>
      [.retOutcome fnd p np errs (if control then (if (Ret.outcome fnd p np errs).isBreak then "break" else "cont") else "na")]
    | some (.err f) => [.retErr f]
    | none => []
  | _ => []

/-- `ObsRun x s evs s'`: the model can go from `s` to `s'` showing exactly the events `evs`; a `q`
    event may be shown at any quiescent point at which the call has not returned.  `quiet` says
    whether every `interrupt` of the run happens at a point where every handed-out function has
    been invoked (signals sent before the call or at quiescent points; see DESIGN 7.4). -/
inductive ObsRun (x : MonCtx) : PState → List Ev → PState → Prop
  | nil (s) : ObsRun x s [] s
  | step {s s1 s' : PState} {evs : List Ev} (a : Action) (h : step? x.c s a = some s1)
      (hquiet : a = .interrupt → ∀ f ∈ s.inflight, f ∈ s.invoked)
      (rest : ObsRun x s1 evs s') : ObsRun x s (stepEvents x.c x.control s a s1 ++ evs) s'
  | q {s s' : PState} {evs : List Ev} (hq : Quiescent x.c s) (hres : s.result = none)
      (rest : ObsRun x s evs s') : ObsRun x s (.q :: evs) s'

/-- hypotheses that tie the declarations and the user graph of a monitor context to its scheduling
    graph (what `build_sound` / `build_structs` / `build_goodCfg` give for every built graph) -/
structure GoodCtx (x : MonCtx) : Prop where
  good : GoodCfg x.c
  api : x.c.errMode = .shortCircuit → x.c.sequential = true
  userN : x.userD.n = x.c.n
  userSub : ∀ u v, IsEdge (if x.rev then x.userD.flip else x.userD) u v → IsEdge x.c.D u v
  userWF : WF x.userD
  ordered : ∀ u v, u < x.c.n → v < x.c.n → u ≠ v →
    conflict (declOf x.decls u) (declOf x.decls v) = true → ReachP x.c.D u v ∨ ReachP x.c.D v u

end FG

namespace FG

/-! ### streams -/

def strackRun (x : MonCtx) : STrackSt → List Ev → STrackSt × List Note
  | t, [] => (t, [])
  | t, e :: es =>
    let r := trackStream x t e
    let r' := strackRun x r.1 es
    (r'.1, r.2 ++ r'.2)

/-- the predicates over a stream trace; model runs have no budget yields -/
def spredRun (x : MonCtx) : SPredSt → List Ev → SPredSt × List Note
  | m, [] => (m, [])
  | m, e :: es =>
    let r := predStream x false m e
    let r' := spredRun x r.1 es
    (r'.1, r.2 ++ r'.2)

def pollObsOf (out : Out) (fo : Option Nat) (wake : Bool) : PollObs :=
  match out, fo with
  | .noInt, some f => .some f
  | .intSome, some f => .isome f
  | .intNone, _ => .inone
  | .endd, _ => .none
  | .pending, _ => .pending wake
  | _, _ => .panic

/-- what the harness would log for one step of the stream model -/
def sStepEvents (c : Cfg) (s : SState) (a : SAction) : List Ev :=
  match a with
  | .poll => let p := sipoll c true s; [.poll (pollObsOf p.2.1 p.2.2 p.1.wake)]
  | .drop f => [.drop f (s.doneRxWaker && !s.streamDropped && decide (s.doneQ.length < c.cap))]
  | .dropStream => [.aborted]
  | .interrupt => [.intr]

inductive SObsRun (x : MonCtx) : SState → List Ev → SState → Prop
  | nil (s) : SObsRun x s [] s
  | step {s s1 s' : SState} {evs : List Ev} (a : SAction) (h : sstep? x.c true s a = some s1)
      (rest : SObsRun x s1 evs s') : SObsRun x s (sStepEvents x.c s a ++ evs) s'

end FG
