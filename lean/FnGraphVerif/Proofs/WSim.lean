/-
  Proofs/WSim.lean — the simulation relation between the micro-step interruptible stream
  (`Proofs/WDefs.lean`) and the atomic model `sstep?` / `sipoll` (`Model/StreamPoll.lean`).

  `SReachG c s seen n`: `s` is reachable in the atomic model by a schedule in which `seen` says
  whether a signal was sent and `n` is `yieldsAfterIntr` of that schedule (Theorems/C08.lean).

  `MITrS c x s seen n` relates a micro state `x` to an atomic state `s`:
  * outside a poll the states agree up to a spurious wake-up (`adj s w s.im`);
  * between `check` and the `drainStep` that sees the done channel empty the atomic run is BEHIND:
    `s` is the state before the atomic poll, with all drops that arrived so far already applied
    (they commute to BEFORE the poll); a signal that arrived in this window is remembered (`p`) —
    it was not seen by this poll's `interruptCheck` and commutes to AFTER the poll;
  * from that `drainStep` on the atomic run is AHEAD: `s` is the state after the atomic poll (and the
    remembered signal), drops and signals arriving now are applied to it directly (they commute to
    AFTER the poll); the rest of the micro poll (`finS` / `finR`) computes `s`.
-/
import FnGraphVerif.Proofs.WAdj
import FnGraphVerif.Theorems.C08
namespace FG

/-! ### atomic reachability with the C08 ghost count -/

/-- the answer of the last atomic poll -/
def lastOf (c : Cfg) (s : SState) (last : Option (Out × Option Nat)) : SAction → Option (Out × Option Nat)
  | .poll => some (sipoll c true s).2
  | _ => last

inductive SReachG (c : Cfg) : SState → Bool → Nat → Option (Out × Option Nat) → Prop
  | init : SReachG c (sinit c) false 0 none
  | step {s s' : SState} {seen : Bool} {n : Nat} {last : Option (Out × Option Nat)} (a : SAction) :
      SReachG c s seen n last → sstep? c true s a = some s' →
      SReachG c s' (seen || a == .interrupt)
        (n + if seen then s'.yielded.length - s.yielded.length else 0) (lastOf c s last a)

section
variable {c : Cfg} {s s' : SState} {seen : Bool} {n : Nat} {last : Option (Out × Option Nat)}

theorem SReachG.reachable (h : SReachG c s seen n last) : SReachable c true s := by
  induction h with
  | init => exact SReachable.init
  | step a _ hs ih => exact SReachable.step a ih hs

theorem SReachG.drop {f : Nat} (h : SReachG c s seen n last)
    (hd : sdrop c s f = some s') : SReachG c s' seen n last := by
  have h1 := SReachG.step (.drop f) h (by simpa [sstep?] using hd)
  have hy : s'.yielded = s.yielded := (sdrop_frame hd).2.2.2.2.1
  have e1 : (seen || SAction.drop f == SAction.interrupt) = seen := by
    cases seen <;> rfl
  have e2 : (n + if seen = true then s'.yielded.length - s.yielded.length else 0) = n := by
    rw [hy]; simp
  rw [e1, e2] at h1
  exact h1

theorem SReachG.dropStream (h : SReachG c s seen n last)
    (hsd : s.streamDropped = false) : SReachG c (sdropStream s) seen n last := by
  have h1 := SReachG.step (s' := sdropStream s) .dropStream h (by simp [sstep?, hsd])
  have e1 : (seen || SAction.dropStream == SAction.interrupt) = seen := by
    cases seen <;> rfl
  have e2 : (n + if seen = true then (sdropStream s).yielded.length - s.yielded.length else 0) = n := by
    simp [sdropStream]
  rw [e1, e2] at h1
  exact h1

theorem SReachG.interrupt (h : SReachG c s seen n last) :
    SReachG c { s with im := { s.im with sent := true } } true n last := by
  have h1 := SReachG.step (s' := { s with im := { s.im with sent := true } }) .interrupt h (by simp [sstep?])
  have e1 : (seen || SAction.interrupt == SAction.interrupt) = true := by
    cases seen <;> rfl
  have e2 : (n + if seen = true then
      ({ s with im := { s.im with sent := true } } : SState).yielded.length - s.yielded.length else 0) = n := by
    simp
  rw [e1, e2] at h1
  exact h1

theorem SReachG.poll (h : SReachG c s seen n last)
    (hsd : s.streamDropped = false) :
    SReachG c (sipoll c true s).1 seen
      (n + if seen then (sipoll c true s).1.yielded.length - s.yielded.length else 0)
      (some (sipoll c true s).2) := by
  have h1 := SReachG.step (s' := (sipoll c true s).1) .poll h (by simp [sstep?, hsd])
  have e1 : (seen || SAction.poll == SAction.interrupt) = seen := by
    cases seen <;> rfl
  rw [e1] at h1
  exact h1
end

/-! ### small facts -/

/-- the signal that arrived after this poll's `interruptCheck` -/
def sentOr (i : IM) : Bool → IM
  | true => { i with sent := true }
  | false => i

theorem sentOr_sent (i : IM) (p : Bool) : { sentOr i p with sent := true } = sentOr i true := by
  cases p <;> rfl

theorem pollsInner_ian {st : Strat} {m : IM} (h : pollsInner st m = true) : m.ian = false := by
  unfold pollsInner at h
  cases hi : m.ian
  · rfl
  · rw [hi] at h; simp at h

theorem sdrop_mem {c : Cfg} {s s' : SState} {f : Nat} (hd : sdrop c s f = some s') : f ∈ s.live := by
  rw [sdrop_eq] at hd
  split at hd
  · cases hd
  · rename_i hf; exact Classical.not_not.mp hf

theorem sReadyHalf_setIm (t : SState) (j : IM) :
    sReadyHalf { t with im := j } = ({ (sReadyHalf t).1 with im := j }, (sReadyHalf t).2) := by
  unfold sReadyHalf
  simp only [decr]
  obtain ⟨_, rq, _, tx, _, _, _, _, _, _, _, _, _, _, _, _⟩ := t
  cases tx <;> cases rq <;> rfl

theorem finS_adj (t : SState) (w : Bool) (i : IM) :
    finS (adj t w i) = adj (finS { t with im := i }) w (finS { t with im := i }).im := by
  have h1 := adj_sReadyHalf t w i
  have h2 := sReadyHalf_setIm t i
  unfold finS
  rw [h1, h2]
  rfl

/-- the atomic poll of the wrapper that polls the inner stream, in terms of `finS` -/
theorem sipoll_eq_finS (c : Cfg) (s : SState) (hpi : pollsInner c.strat s.im = true) :
    (sipoll c true s).1 =
      finS { sDrain c (s.doneQ.length + 1) { s with wake := false } with im := interruptCheck c.strat s.im } := by
  have hian := pollsInner_ian hpi
  have h2 := sReadyHalf_setIm (sDrain c (s.doneQ.length + 1) { s with wake := false }) (interruptCheck c.strat s.im)
  rw [(sipoll_inner c true s hpi).1, spoll_eq]
  unfold finS
  rw [h2]
  simp only [pollNext_eq_post, hian]
  rfl

/-- the answer of the atomic poll that polls the inner stream -/
theorem sipoll_ans_inner (c : Cfg) (s : SState) (hpi : pollsInner c.strat s.im = true) :
    (sipoll c true s).2 =
      ((pollNextPost (interruptCheck c.strat s.im) (underOf (spoll c true s).2)).2, itemOf (spoll c true s).2) := by
  have hian := pollsInner_ian hpi
  unfold sipoll
  rw [if_pos hpi]
  rcases spoll c true s with ⟨t, r⟩
  cases r <;> simp only [pollNext_eq_post, hian] <;> rfl

theorem sipoll_ans_outer (c : Cfg) (s : SState) (hpi : pollsInner c.strat s.im = false) :
    (sipoll c true s).2 = ((pollNext c.strat s.im .pending).2, none) := by
  unfold sipoll
  rw [if_neg (by simp [hpi])]

/-! ### the relation -/

/-- the atomic poll about to be simulated does poll the inner stream -/
structure Front (c : Cfg) (s : SState) : Prop where
  notDropped : s.streamDropped = false
  polls : pollsInner c.strat s.im = true

inductive MITrS (c : Cfg) (x : MIState) (s : SState) (seen : Bool) (n : Nat)
    (last : Option (Out × Option Nat)) : Prop
  | idle (hw : x.w = .idle) (w : Bool) (hs : x.m.s = adj s w s.im) (hseen : seen = x.sigSeen)
      (hn : n = x.yAfter) (hret : x.ret = last)
  | checked (hw : x.w = .checked) (p w : Bool) (hf : Front c s)
      (hs : x.m.s = adj s w (sentOr (interruptCheck c.strat s.im) p))
      (hseen : seen = x.pollSeen) (hsig : x.sigSeen = (x.pollSeen || p)) (hn : n = x.yAfter)
      (hret : x.ret = last)
  | draining (hw : x.w = .inner) (hpc : x.m.pc = .draining) (p : Bool) (a : SState) (w : Bool) (hf : Front c s)
      (hrel : RelStar c { s with wake := false } a)
      (hs : x.m.s = adj a w (sentOr (interruptCheck c.strat s.im) p))
      (hseen : seen = x.pollSeen) (hsig : x.sigSeen = (x.pollSeen || p)) (hn : n = x.yAfter)
      (hret : x.ret = last)
  | ready (hw : x.w = .inner) (hpc : x.m.pc = .readyPoll) (w : Bool) (hs : finS x.m.s = adj s w s.im)
      (hseen : seen = x.sigSeen)
      (hn : n = x.yAfter +
        if x.pollSeen then (sReadyHalf x.m.s).1.yielded.length - x.m.s.yielded.length else 0)
      (hret : last = some ((pollNextPost x.m.s.im (underOf (sReadyHalf x.m.s).2)).2, itemOf (sReadyHalf x.m.s).2))
  | returned (hw : x.w = .returned) (r : PollRes) (hr : x.m.result = some r) (w : Bool)
      (hs : finR x.m.s r = adj s w s.im) (hseen : seen = x.sigSeen) (hn : n = x.yAfter)
      (hret : last = some ((pollNextPost x.m.s.im (underOf r)).2, itemOf r))

/-- the micro state `x` is simulated by some atomic run -/
def MITr (c : Cfg) (x : MIState) : Prop := ∃ s seen n last, SReachG c s seen n last ∧ MITrS c x s seen n last

theorem mitr_init (c : Cfg) : MITr c (miinit c) :=
  ⟨sinit c, false, 0, none, SReachG.init, MITrS.idle rfl false (adj_false_im _).symm rfl rfl rfl⟩

end FG
