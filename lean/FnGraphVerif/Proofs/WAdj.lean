/-
  Proofs/WAdj.lean — algebra for the refinement of the micro-step interruptible stream:

  * `adj a w i` = the state `a` with possibly one more (spurious) wake-up `w` and the wrapper state
    `i`; every piece of the poll (`sRelease`, the registering `poll_recv`, `sReadyHalf`, `sdrop`)
    commutes with `adj`: `wake` is write-only and `im` is private to the wrapper.
  * `RelStar c s a`: `a` is `s` after some iterations of the drain loop;
    a `FnRef` drop (`dropNW`, the drop without its effect on `wake`) commutes with these iterations
    and the completed drain of `s` is the completed drain of `a`.
  * `finS` / `finR`: the rest of the wrapper's poll from the `readyPoll` / `returned` program points;
    both commute with `sdrop` and with the arrival of a signal.
-/
import FnGraphVerif.Proofs.WInv
import FnGraphVerif.Proofs.MAtomic
namespace FG

/-- `a` with an extra wake-up `w` and the wrapper state `i` -/
def adj (a : SState) (w : Bool) (i : IM) : SState := { a with wake := a.wake || w, im := i }

/-- the registering `poll_recv` on an empty done channel -/
def sReg (t : SState) : SState := if t.doneSenders then { t with doneRxWaker := true } else t

section adjFields
variable (a : SState) (w : Bool) (i : IM)
@[simp] theorem adj_doneQ : (adj a w i).doneQ = a.doneQ := rfl
@[simp] theorem adj_live : (adj a w i).live = a.live := rfl
@[simp] theorem adj_im : (adj a w i).im = i := rfl
@[simp] theorem adj_wake : (adj a w i).wake = (a.wake || w) := rfl
@[simp] theorem adj_streamDropped : (adj a w i).streamDropped = a.streamDropped := rfl
@[simp] theorem adj_yielded : (adj a w i).yielded = a.yielded := rfl
@[simp] theorem adj_droppedRefs : (adj a w i).droppedRefs = a.droppedRefs := rfl
@[simp] theorem adj_lastPending : (adj a w i).lastPending = a.lastPending := rfl
@[simp] theorem adj_panic : (adj a w i).panic = a.panic := rfl
@[simp] theorem adj_txOpen : (adj a w i).txOpen = a.txOpen := rfl
@[simp] theorem adj_readyQ : (adj a w i).readyQ = a.readyQ := rfl
@[simp] theorem adj_doneSenders : (adj a w i).doneSenders = a.doneSenders := rfl
end adjFields

theorem adj_adj (a : SState) (w w' : Bool) (i i' : IM) : adj (adj a w i) w' i' = adj a (w || w') i' := by
  simp only [adj, Bool.or_assoc]

theorem adj_false_im (a : SState) : adj a false a.im = a := by
  simp only [adj, Bool.or_false]

theorem adj_setIm (a : SState) (w : Bool) (i i' : IM) : { adj a w i with im := i' } = adj a w i' := rfl

theorem adj_clearWake (a : SState) (w : Bool) (i : IM) :
    { adj a w i with wake := false } = adj { a with wake := false } false i := rfl

theorem adj_sRelease (c : Cfg) (a : SState) (w : Bool) (i : IM) (x : Nat) (rest : List Nat) :
    sRelease c (adj a w i) x rest = adj (sRelease c a x rest) w i := by
  simp only [sRelease, adj]
  rw [Bool.or_right_comm]
  congr 1

theorem adj_sReg (a : SState) (w : Bool) (i : IM) : sReg (adj a w i) = adj (sReg a) w i := by
  unfold sReg
  rw [adj_doneSenders]
  cases a.doneSenders <;> rfl

theorem adj_sReadyHalf (a : SState) (w : Bool) (i : IM) :
    sReadyHalf (adj a w i) = (adj (sReadyHalf a).1 w i, (sReadyHalf a).2) := by
  unfold sReadyHalf adj
  simp only [decr]
  obtain ⟨_, rq, _, tx, _, _, _, _, _, _, _, _, _, _, _, _⟩ := a
  cases tx <;> cases rq <;> rfl

theorem adj_sdrop (c : Cfg) (a : SState) (w : Bool) (i : IM) (f : Nat) :
    sdrop c (adj a w i) f = (sdrop c a f).map (fun a' => adj a' w i) := by
  rw [sdrop_eq, sdrop_eq]
  show (if f ∉ a.live then none else if (a.streamDropped || decide (c.cap ≤ a.doneQ.length)) then _ else _) = _
  by_cases hf : f ∉ a.live
  · rw [if_pos hf, if_pos hf]; rfl
  · rw [if_neg hf, if_neg hf]
    by_cases hc : (a.streamDropped || decide (c.cap ≤ a.doneQ.length)) = true
    · rw [if_pos hc, if_pos hc]; rfl
    · rw [if_neg hc, if_neg hc]
      simp only [Option.map_some, sdropped, adj]
      rw [Bool.or_right_comm]

theorem sdrop_im {c : Cfg} {s s' : SState} {f : Nat} (hd : sdrop c s f = some s') : s'.im = s.im := by
  rw [sdrop_eq] at hd
  split at hd
  · cases hd
  · split at hd <;> cases hd <;> rfl

/-! ### a drop that is sent, without its wake-up -/

/-- `FnRef::drop` with a successful `try_send`, minus the wake-up -/
def dropNW (a : SState) (f : Nat) : SState :=
  { a with live := a.live.erase f, droppedRefs := a.droppedRefs ++ [f], doneQ := a.doneQ ++ [f],
           doneRxWaker := false }

theorem sdrop_sent {c : Cfg} {a : SState} {f : Nat} (hf : f ∈ a.live) (hsd : a.streamDropped = false)
    (hroom : a.doneQ.length < c.cap) : sdrop c a f = some (adj (dropNW a f) a.doneRxWaker a.im) := by
  rw [sdrop_eq, if_neg (by simpa using hf)]
  have : (a.streamDropped || decide (c.cap ≤ a.doneQ.length)) = false := by
    simp [hsd]; omega
  rw [this]
  rfl

theorem dropNW_clearWake (a : SState) (w : Bool) (i : IM) (f : Nat) :
    { adj (dropNW a f) w i with wake := false } = adj (dropNW { a with wake := false } f) false i := rfl

/-! ### iterations of the drain loop -/

inductive RelStar (c : Cfg) : SState → SState → Prop
  | refl (s : SState) : RelStar c s s
  | step {s a : SState} {x : Nat} {rest : List Nat} : RelStar c s a → a.doneQ = x :: rest →
      RelStar c s (sRelease c a x rest)

theorem RelStar.frame {c : Cfg} {s a : SState} (h : RelStar c s a) :
    a.live = s.live ∧ a.streamDropped = s.streamDropped ∧ a.im = s.im ∧ a.doneQ.length ≤ s.doneQ.length ∧
    a.yielded = s.yielded := by
  induction h with
  | refl => exact ⟨rfl, rfl, rfl, Nat.le_refl _, rfl⟩
  | step _ hq ih =>
    obtain ⟨a1, a2, a3, a4, a5⟩ := ih
    refine ⟨a1, a2, a3, ?_, a5⟩
    rw [sRelease_doneQ]
    rw [hq] at a4
    simp only [List.length_cons] at a4
    omega

theorem RelStar.dropNW {c : Cfg} {s a : SState} (h : RelStar c s a) (f : Nat) :
    RelStar c (dropNW s f) (dropNW a f) := by
  induction h with
  | refl => exact RelStar.refl _
  | step _ hq ih =>
    rename_i a x rest _
    have hq' : (FG.dropNW a f).doneQ = x :: (rest ++ [f]) := by
      show a.doneQ ++ [f] = _
      rw [hq]; rfl
    exact RelStar.step ih hq'

theorem RelStar.drain {c : Cfg} {s a : SState} (h : RelStar c s a) :
    sDrain c (s.doneQ.length + 1) s = sDrain c (a.doneQ.length + 1) a := by
  induction h with
  | refl => rfl
  | step _ hq ih =>
    rename_i a x rest _
    rw [ih, sRelease_doneQ]
    have hl : a.doneQ.length = rest.length + 1 := by rw [hq]; rfl
    rw [hl]
    exact sDrain_cons c _ a x rest hq

theorem RelStar.core {c : Cfg} (hc : GoodCfg c) {s a : SState} (h : RelStar c s a) (hs : SCore c s) :
    SCore c a := by
  induction h with
  | refl => exact hs
  | step _ hq ih => exact score_release hc ih hq

/-- the completed drain, from an intermediate state with an empty done channel -/
theorem RelStar.drain_nil {c : Cfg} {s a : SState} (h : RelStar c s a) (hq : a.doneQ = []) :
    sDrain c (s.doneQ.length + 1) s = sReg a := by
  rw [h.drain, hq]
  exact sDrain_nil c 0 a hq

/-! ### the rest of the wrapper's poll -/

/-- from `readyPoll`: `fn_ready_rx.poll_recv`, then the wrapper's bookkeeping -/
def finS (t : SState) : SState :=
  { (sReadyHalf t).1 with
      im := (pollNextPost t.im (underOf (sReadyHalf t).2)).1,
      lastPending := decide ((pollNextPost t.im (underOf (sReadyHalf t).2)).2 = .pending) }

/-- from `returned` (the inner poll answered `r`): the wrapper's bookkeeping -/
def finR (t : SState) (r : PollRes) : SState :=
  { t with im := (pollNextPost t.im (underOf r)).1,
           lastPending := decide ((pollNextPost t.im (underOf r)).2 = .pending) }

theorem sReadyHalf_im (t : SState) : (sReadyHalf t).1.im = t.im := by
  unfold sReadyHalf
  simp only [decr]
  obtain ⟨_, rq, _, tx, _, _, _, _, _, _, _, _, _, _, _, _⟩ := t
  cases tx <;> cases rq <;> rfl

/-- `readyStep` then `finR` is `finS` -/
theorem finR_readyStep (t : SState) :
    finR { (sReadyHalf t).1 with lastPending := decide ((sReadyHalf t).2 = .pending) } (sReadyHalf t).2 = finS t := by
  unfold finR finS
  simp only [sReadyHalf_im]

theorem finR_sdrop {c : Cfg} {t t' : SState} {f : Nat} (r : PollRes) (hd : sdrop c t f = some t') :
    sdrop c (finR t r) f = some (finR t' r) := by
  have him := sdrop_im hd
  rw [sdrop_eq] at hd ⊢
  unfold finR
  simp only
  split at hd
  · cases hd
  · rename_i hf
    rw [if_neg hf]
    split at hd
    · rename_i hcond
      rw [if_pos hcond]
      cases hd
      rfl
    · rename_i hcond
      rw [if_neg hcond]
      cases hd
      rfl

theorem finR_sent (t : SState) (r : PollRes) :
    finR { t with im := { t.im with sent := true } } r =
      { finR t r with im := { (finR t r).im with sent := true } } := by
  unfold finR
  simp only [pollNextPost_sent]

theorem finS_sent (t : SState) :
    finS { t with im := { t.im with sent := true } } =
      { finS t with im := { (finS t).im with sent := true } } := by
  have h : sReadyHalf { t with im := { t.im with sent := true } } =
      ({ (sReadyHalf t).1 with im := { t.im with sent := true } }, (sReadyHalf t).2) := by
    unfold sReadyHalf
    simp only [decr]
    obtain ⟨_, rq, _, tx, _, _, _, _, _, _, _, _, _, _, _, _⟩ := t
    cases tx <;> cases rq <;> rfl
  unfold finS
  rw [h]
  simp only [pollNextPost_sent]

theorem sReadyHalf_sdrop {c : Cfg} {t t' : SState} {f : Nat} (hd : sdrop c t f = some t') :
    sdrop c (sReadyHalf t).1 f = some (sReadyHalf t').1 ∧ (sReadyHalf t').2 = (sReadyHalf t).2 := by
  rw [sdrop_eq] at hd
  split at hd
  · cases hd
  · rename_i hf
    have hf : f ∈ t.live := Classical.not_not.mp hf
    have herase : ∀ g, (t.live ++ [g]).erase f = t.live.erase f ++ [g] := fun g =>
      List.erase_append_left [g] hf
    unfold sReadyHalf
    simp only [decr]
    split at hd
    · rename_i hcond
      cases hd
      obtain ⟨_, rq, dq, tx, _, _, _, _, _, lv, _, _, sd, _, _, _⟩ := t
      simp only at hf herase hcond
      cases tx <;> cases rq <;> simp [sdrop_eq, sdropped, hf, hcond, herase]
    · rename_i hcond
      cases hd
      obtain ⟨_, rq, dq, tx, _, _, _, _, _, lv, _, _, sd, _, _, _⟩ := t
      simp only at hf herase hcond
      cases tx <;> cases rq <;> simp [sdrop_eq, sdropped, hf, hcond, herase]

theorem finS_sdrop {c : Cfg} {t t' : SState} {f : Nat} (hd : sdrop c t f = some t') :
    sdrop c (finS t) f = some (finS t') := by
  obtain ⟨h1, h2⟩ := sReadyHalf_sdrop hd
  have him := sdrop_im hd
  unfold finS
  rw [h2, him]
  generalize (pollNextPost t.im (underOf (sReadyHalf t).2)) = p
  generalize (sReadyHalf t).1 = u at h1
  generalize (sReadyHalf t').1 = u' at h1
  rw [sdrop_eq] at h1 ⊢
  simp only
  split at h1
  · cases h1
  · rename_i hf
    rw [if_neg hf]
    split at h1
    · rename_i hcond
      rw [if_pos hcond]
      cases h1
      rfl
    · rename_i hcond
      rw [if_neg hcond]
      cases h1
      rfl

end FG
