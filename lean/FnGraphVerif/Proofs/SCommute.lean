/-
  Proofs/SCommute.lean — the external action `finish f ok` commutes (modulo `Sim`) with the core
  actions `queuerRecv`, `queuerEnd`, and with a `schedPoll` that answers `Pending`, `NoInterrupt(item)`
  or end-of-stream: the completion of a user future can be moved before the internal actions the
  executor performed first.  (Not so when the interruptible stream answers `Interrupted(None)` / drops
  an item: that poll closes the done channel, and a completion after it is no longer reported to the
  queuer — the states differ in `doneQ`, `released`, `counts`; see `Proofs/SCommuteC.lean`.)
-/
import FnGraphVerif.Proofs.SFinDefs
namespace FG
variable {c : Cfg} {s s' t : PState}

theorem relFold_snd_indep (b : Bool) (cap : Nat) (l : List Nat) (cs q : List Nat) (p p' : Bool) :
    (relFold b cap (cs, q, p) l).2.1 = (relFold b cap (cs, q, p') l).2.1 := by
  induction l generalizing cs q p p' with
  | nil => rfl
  | cons a l ih =>
    rw [relFold_cons, relFold_cons]
    have h1 : relStep b cap (cs, q, p) a = (cs.set a (cs[a]?.getD 0 - 1), (relStep b cap (cs, q, p) a).2.1,
        (relStep b cap (cs, q, p) a).2.2) := rfl
    have h2 : relStep b cap (cs, q, p') a = (cs.set a (cs[a]?.getD 0 - 1), (relStep b cap (cs, q, p) a).2.1,
        (relStep b cap (cs, q, p') a).2.2) := rfl
    rw [h1, h2]
    exact ih _ _ _ _

theorem underLimit_erase {f : Nat} (X : PState) (hX : X.inflight = s.inflight.erase f)
    (h : underLimit c s = true) : underLimit c X = true := by
  unfold underLimit at h ⊢
  rw [hX]
  cases hseq : c.sequential with
  | true =>
    simp only [hseq, if_true, List.isEmpty_iff] at h
    simp [h]
  | false =>
    simp only [hseq, Bool.false_eq_true, if_false] at h ⊢
    cases hl : c.limit with
    | none => rfl
    | some l =>
      cases l with
      | zero => rfl
      | succ l =>
        simp only [hl, decide_eq_true_eq] at h ⊢
        have := List.length_erase_le (a := f) (l := s.inflight)
        omega

macro "sim_fields" : tactic =>
  `(tactic| (refine sim_of_fields ?_ ?_ ?_ ?_ ?_ ?_ ?_ ?_ ?_ ?_ ?_ ?_ ?_ ?_ ?_ ?_ ?_ ?_ ?_ ?_ ?_ ?_ ?_ <;> first | rfl | (intro _; rfl) | skip))

/-! ### queuerRecv -/

theorem fin_qr_commute (hc : GoodCfg c) (hr : Reachable c s) {f : Nat} {ok : Bool} {s1 s' : PState}
    (h1 : step? c s .queuerRecv = some s1) (h2 : step? c s (.finish f ok) = some s') :
    ∃ s1' u, step? c s1 (.finish f ok) = some s1' ∧ step? c s' .queuerRecv = some u ∧ Sim u s1' := by
  obtain ⟨hqd, hres, x, rest, hq, hs1⟩ := queuerRecv_cases h1
  have hs1' : s1 = qrApply c s x rest := hs1
  subst hs1'
  obtain ⟨⟨hi, hv⟩, hfa⟩ := fin_guard h2
  have hr' : Reachable c s' := Reachable.step _ hr h2
  have hr1 : Reachable c (qrApply c s x rest) := Reachable.step _ hr h1
  have hfin1 : step? c (qrApply c s x rest) (.finish f ok) = finApply c (qrApply c s x rest) f ok :=
    step_fin_of (s := qrApply c s x rest) hi hv
  cases ok with
  | true =>
    simp only [finApply, if_true, Option.some.injEq] at hfa
    subst hfa
    have hnp := (inv0_reachable hc hr').noPanic
    by_cases hD : (s.doneTxOpen && !decide (c.cap ≤ s.doneQ.length)) = true
    · have hu : step? c (finOk c s f) .queuerRecv = some (qrApply c (finOk c s f) x (rest ++ [f])) := by
        apply step_qr_of (s := finOk c s f) hqd hres
        show (if s.doneTxOpen && !decide (c.cap ≤ s.doneQ.length) then s.doneQ ++ [f] else s.doneQ) = _
        rw [if_pos hD, hq]; rfl
      refine ⟨finOk c (qrApply c s x rest) f, _, by rw [hfin1]; rfl, hu, ?_⟩
      have hnpu := (inv0_reachable hc (Reachable.step _ hr' hu)).noPanic
      have hnp1 := (inv0_reachable hc (Reachable.step _ hr1 (by rw [hfin1]; rfl : step? c (qrApply c s x rest) (.finish f true) = some (finOk c (qrApply c s x rest) f)))).noPanic
      sim_fields
      · exact relFold_fst_indep _ _ _ _ _ _ _ _ _ _
      · intro _; exact relFold_snd_indep _ _ _ _ _ _ _
      · show rest ++ [f] = (if s.doneTxOpen && !decide (c.cap ≤ rest.length) then rest ++ [f] else rest)
        rw [hq] at hD
        simp only [Bool.and_eq_true, Bool.not_eq_true', decide_eq_false_iff_not, List.length_cons] at hD
        rw [if_pos]
        simp only [Bool.and_eq_true, Bool.not_eq_true', decide_eq_false_iff_not]
        exact ⟨hD.1, by omega⟩
      · rw [hnpu, hnp1]
    · have hdt : s.doneTxOpen = false := by
        cases hd : s.doneTxOpen with
        | false => rfl
        | true =>
          exfalso
          rw [hd] at hD
          simp only [Bool.true_and, Bool.not_eq_true', decide_eq_false_iff_not, Decidable.not_not] at hD
          have : (finOk c s f).panic = true := by
            simp [finOk, hd, hD]
          rw [hnp] at this; exact absurd this (by simp)
      have hu : step? c (finOk c s f) .queuerRecv = some (qrApply c (finOk c s f) x rest) := by
        apply step_qr_of (s := finOk c s f) hqd hres
        show (if s.doneTxOpen && !decide (c.cap ≤ s.doneQ.length) then s.doneQ ++ [f] else s.doneQ) = _
        rw [if_neg hD, hq]
      refine ⟨finOk c (qrApply c s x rest) f, _, by rw [hfin1]; rfl, hu, ?_⟩
      have hnpu := (inv0_reachable hc (Reachable.step _ hr' hu)).noPanic
      have hnp1 := (inv0_reachable hc (Reachable.step _ hr1 (by rw [hfin1]; rfl : step? c (qrApply c s x rest) (.finish f true) = some (finOk c (qrApply c s x rest) f)))).noPanic
      sim_fields
      · exact relFold_fst_indep _ _ _ _ _ _ _ _ _ _
      · intro _; exact relFold_snd_indep _ _ _ _ _ _ _
      · show rest = (if s.doneTxOpen && !decide (c.cap ≤ rest.length) then rest ++ [f] else rest)
        rw [hdt]; rfl
      · rw [hnpu, hnp1]
  | false =>
    simp only [finApply, Bool.false_eq_true, if_false] at hfa
    cases hm : c.errMode with
    | none => rw [hm] at hfa; exact absurd hfa (by simp)
    | collect =>
      rw [hm] at hfa
      simp only [Option.some.injEq] at hfa
      subst hfa
      have hu : step? c (finErrC c s f) .queuerRecv = some (qrApply c (finErrC c s f) x rest) :=
        step_qr_of (s := finErrC c s f) hqd hres hq
      have hf1 : step? c (qrApply c s x rest) (.finish f false) = some (finErrC c (qrApply c s x rest) f) := by
        rw [hfin1]; simp only [finApply, Bool.false_eq_true, if_false, hm]
      refine ⟨_, _, hf1, hu, ?_⟩
      have hnpu := (inv0_reachable hc (Reachable.step _ hr' hu)).noPanic
      have hnp1 := (inv0_reachable hc (Reachable.step _ hr1 hf1)).noPanic
      sim_fields
      · exact relFold_fst_indep _ _ _ _ _ _ _ _ _ _
      · intro _; exact relFold_snd_indep _ _ _ _ _ _ _
      · rw [hnpu, hnp1]
    | shortCircuit =>
      rw [hm] at hfa
      simp only [Option.some.injEq] at hfa
      subst hfa
      have hu : step? c (finErrS s f) .queuerRecv = some (qrApply c (finErrS s f) x rest) :=
        step_qr_of (s := finErrS s f) hqd hres hq
      have hf1 : step? c (qrApply c s x rest) (.finish f false) = some (finErrS (qrApply c s x rest) f) := by
        rw [hfin1]; simp only [finApply, Bool.false_eq_true, if_false, hm]
      refine ⟨_, _, hf1, hu, ?_⟩
      have hnpu := (inv0_reachable hc (Reachable.step _ hr' hu)).noPanic
      have hnp1 := (inv0_reachable hc (Reachable.step _ hr1 hf1)).noPanic
      sim_fields
      · exact relFold_fst_indep _ _ _ _ _ _ _ _ _ _
      · intro h; exact absurd h (by simp [qrApply, finErrS])
      · rw [hnpu, hnp1]

/-! ### queuerEnd -/

theorem fin_qe_commute {f : Nat} {ok : Bool} {s1 s' : PState}
    (h1 : step? c s .queuerEnd = some s1) (h2 : step? c s (.finish f ok) = some s') :
    ∃ s1' u, step? c s1 (.finish f ok) = some s1' ∧ step? c s' .queuerEnd = some u ∧ Sim u s1' := by
  obtain ⟨hqd, hdt, hdq, rfl⟩ := queuerEnd_cases h1
  obtain ⟨⟨hi, hv⟩, hfa⟩ := fin_guard h2
  have hfin1 : step? c { s with qDone := true, readyTxOpen := false } (.finish f ok) =
      finApply c { s with qDone := true, readyTxOpen := false } f ok :=
    step_fin_of (s := { s with qDone := true, readyTxOpen := false }) hi hv
  cases ok with
  | true =>
    simp only [finApply, if_true, Option.some.injEq] at hfa
    subst hfa
    refine ⟨finOk c { s with qDone := true, readyTxOpen := false } f, _, by rw [hfin1]; rfl, ?_, Sim.refl _⟩
    apply step_qe_of (s := finOk c s f) hqd
    · show (s.doneTxOpen && (s.sRemaining - 1 != 0) && s.closeAfter != some f) = false
      rw [hdt]; rfl
    · show (if s.doneTxOpen && !decide (c.cap ≤ s.doneQ.length) then s.doneQ ++ [f] else s.doneQ) = []
      rw [hdt, hdq]; rfl
  | false =>
    simp only [finApply, Bool.false_eq_true, if_false] at hfa
    cases hm : c.errMode with
    | none => rw [hm] at hfa; exact absurd hfa (by simp)
    | collect =>
      rw [hm] at hfa
      simp only [Option.some.injEq] at hfa
      subst hfa
      refine ⟨finErrC c { s with qDone := true, readyTxOpen := false } f, _, ?_, ?_, Sim.refl _⟩
      · rw [hfin1]; simp only [finApply, Bool.false_eq_true, if_false, hm]
      · exact step_qe_of (s := finErrC c s f) hqd rfl hdq
    | shortCircuit =>
      rw [hm] at hfa
      simp only [Option.some.injEq] at hfa
      subst hfa
      refine ⟨finErrS { s with qDone := true, readyTxOpen := false } f, _, ?_, ?_, Sim.refl _⟩
      · rw [hfin1]; simp only [finApply, Bool.false_eq_true, if_false, hm]
      · exact step_qe_of (s := finErrS s f) hqd rfl hdq

/-! ### schedPoll, the answers that leave the done channel alone -/

theorem fin_sp_commute (hc : GoodCfg c) (hapi : c.ApiOk) (hr : Reachable c s)
    (hout : (pollNext c.strat s.im (readyUnder s)).2 = .pending ∨ (pollNext c.strat s.im (readyUnder s)).2 = .noInt ∨
      (pollNext c.strat s.im (readyUnder s)).2 = .endd)
    {f : Nat} {ok : Bool} {s1 s' : PState}
    (h1 : step? c s .schedPoll = some s1) (h2 : step? c s (.finish f ok) = some s') :
    ∃ s1' u, step? c s1 (.finish f ok) = some s1' ∧ step? c s' .schedPoll = some u ∧ Sim u s1' := by
  obtain ⟨⟨hi, hv⟩, hfa⟩ := fin_guard h2
  have hr' : Reachable c s' := Reachable.step _ hr h2
  have hr1 : Reachable c s1 := Reachable.step _ hr h1
  obtain ⟨hsd, hse, hul, hcase⟩ := schedPoll_cases h1
  -- the short-circuiting `try_fold` is sequential: nothing is in flight when it polls
  have hnotS : c.errMode ≠ .shortCircuit := by
    intro hm
    have hseq := hapi hm
    unfold underLimit at hul
    simp only [hseq, if_true, List.isEmpty_iff] at hul
    rw [hul] at hi
    exact absurd hi (by simp)
  -- the three shapes of `s'`
  have hs'shape : s'.sDone = s.sDone ∧ s'.streamEnded = s.streamEnded ∧ s'.inflight = s.inflight.erase f ∧
      s'.im = s.im ∧ s'.readyQ = s.readyQ ∧ s'.readyTxOpen = s.readyTxOpen := by
    cases ok with
    | true =>
      simp only [finApply, if_true, Option.some.injEq] at hfa
      subst hfa
      exact ⟨rfl, rfl, rfl, rfl, rfl, rfl⟩
    | false =>
      simp only [finApply, Bool.false_eq_true, if_false] at hfa
      cases hm : c.errMode with
      | none => rw [hm] at hfa; exact absurd hfa (by simp)
      | collect =>
        rw [hm] at hfa
        simp only [Option.some.injEq] at hfa
        subst hfa
        exact ⟨rfl, rfl, rfl, rfl, rfl, rfl⟩
      | shortCircuit => exact absurd hm hnotS
  obtain ⟨e1, e2, e3, e4, e5, e6⟩ := hs'shape
  have hg' : spGuard c s' = false := by
    unfold spGuard
    rw [e1, e2, hsd, hse, underLimit_erase s' e3 hul]
    rfl
  have hru : readyUnder s' = readyUnder s := by
    unfold readyUnder
    rw [e5, e6]
  have hsp' : step? c s' .schedPoll =
      spApply c s' (pollNext c.strat s.im (readyUnder s)).1 (pollNext c.strat s.im (readyUnder s)).2 := by
    rw [sp_of_guard hg', e4, hru]
  generalize hP : pollNext c.strat s.im (readyUnder s) = P at *
  obtain ⟨m, out⟩ := P
  simp only at hout hcase hsp'
  rcases hcase with ⟨ho, rfl⟩ | ⟨ho, rfl⟩ | ⟨ho, _⟩ | ⟨ho, g, rest, hq, rfl⟩ | ⟨ho, _⟩
  · -- Pending
    subst ho
    have hfin1 : step? c { s with im := m } (.finish f ok) = finApply c { s with im := m } f ok :=
      step_fin_of (s := { s with im := m }) hi hv
    cases ok with
    | true =>
      simp only [finApply, if_true, Option.some.injEq] at hfa
      subst hfa
      exact ⟨finOk c { s with im := m } f, _, by rw [hfin1]; rfl, hsp', Sim.refl _⟩
    | false =>
      simp only [finApply, Bool.false_eq_true, if_false] at hfa
      cases hm : c.errMode with
      | none => rw [hm] at hfa; exact absurd hfa (by simp)
      | collect =>
        rw [hm] at hfa
        simp only [Option.some.injEq] at hfa
        subst hfa
        exact ⟨finErrC c { s with im := m } f, _, by rw [hfin1]; simp only [finApply, Bool.false_eq_true, if_false, hm],
          hsp', Sim.refl _⟩
      | shortCircuit => exact absurd hm hnotS
  · -- end of stream
    subst ho
    have hfin1 : step? c { s with im := m, streamEnded := true, readyRxOpen := false } (.finish f ok) =
        finApply c { s with im := m, streamEnded := true, readyRxOpen := false } f ok :=
      step_fin_of (s := { s with im := m, streamEnded := true, readyRxOpen := false }) hi hv
    cases ok with
    | true =>
      simp only [finApply, if_true, Option.some.injEq] at hfa
      subst hfa
      exact ⟨finOk c { s with im := m, streamEnded := true, readyRxOpen := false } f, _, by rw [hfin1]; rfl, hsp',
        Sim.refl _⟩
    | false =>
      simp only [finApply, Bool.false_eq_true, if_false] at hfa
      cases hm : c.errMode with
      | none => rw [hm] at hfa; exact absurd hfa (by simp)
      | collect =>
        rw [hm] at hfa
        simp only [Option.some.injEq] at hfa
        subst hfa
        exact ⟨finErrC c { s with im := m, streamEnded := true, readyRxOpen := false } f, _,
          by rw [hfin1]; simp only [finApply, Bool.false_eq_true, if_false, hm], hsp', Sim.refl _⟩
      | shortCircuit => exact absurd hm hnotS
  · -- `Interrupted(None)`: excluded by `hout`
    subst ho
    rcases hout with h | h | h <;> exact absurd h (by simp)
  · -- `NoInterrupt(item)`
    subst ho
    have hi1 : f ∈ (handOut c { s with im := m } g rest).inflight := List.mem_append_left _ hi
    have hfin1 : step? c (handOut c { s with im := m } g rest) (.finish f ok) =
        finApply c (handOut c { s with im := m } g rest) f ok :=
      step_fin_of (s := handOut c { s with im := m } g rest) hi1 hv
    have hera : (s.inflight ++ [g]).erase f = s.inflight.erase f ++ [g] := List.erase_append_left _ hi
    cases ok with
    | true =>
      simp only [finApply, if_true, Option.some.injEq] at hfa
      subst hfa
      have hu : step? c (finOk c s f) .schedPoll = some (handOut c { finOk c s f with im := m } g rest) := by
        rw [hsp']
        show (match s.readyQ with | [] => none | f' :: rest' => some (handOut c { finOk c s f with im := m } f' rest')) = _
        rw [hq]
      have hf1 : step? c (handOut c { s with im := m } g rest) (.finish f true) =
          some (finOk c (handOut c { s with im := m } g rest) f) := by rw [hfin1]; rfl
      refine ⟨_, _, hf1, hu, ?_⟩
      have hnpu := (inv0_reachable hc (Reachable.step _ hr' hu)).noPanic
      have hnp1 := (inv0_reachable hc (Reachable.step _ hr1 hf1)).noPanic
      sim_fields
      · exact hera.symm
      · rw [hnpu, hnp1]
    | false =>
      simp only [finApply, Bool.false_eq_true, if_false] at hfa
      cases hm : c.errMode with
      | none => rw [hm] at hfa; exact absurd hfa (by simp)
      | collect =>
        rw [hm] at hfa
        simp only [Option.some.injEq] at hfa
        subst hfa
        have hu : step? c (finErrC c s f) .schedPoll = some (handOut c { finErrC c s f with im := m } g rest) := by
          rw [hsp']
          show (match s.readyQ with | [] => none | f' :: rest' => some (handOut c { finErrC c s f with im := m } f' rest')) = _
          rw [hq]
        have hf1 : step? c (handOut c { s with im := m } g rest) (.finish f false) =
            some (finErrC c (handOut c { s with im := m } g rest) f) := by
          rw [hfin1]; simp only [finApply, Bool.false_eq_true, if_false, hm]
        refine ⟨_, _, hf1, hu, ?_⟩
        have hnpu := (inv0_reachable hc (Reachable.step _ hr' hu)).noPanic
        have hnp1 := (inv0_reachable hc (Reachable.step _ hr1 hf1)).noPanic
        sim_fields
        · exact hera.symm
        · rw [hnpu, hnp1]
      | shortCircuit => exact absurd hm hnotS
  · -- `Interrupted(Some item)`: excluded by `hout`
    subst ho
    rcases hout with h | h | h <;> exact absurd h (by simp)

end FG
