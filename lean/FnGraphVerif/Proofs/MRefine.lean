/-
  Proofs/MRefine.lean — the micro-step stream model refines to the atomic one when no drop lands
  inside a poll: `pollBegin ; drainStep^(|doneQ|+1) ; readyStep` computes exactly `spoll c true`.
-/
import FnGraphVerif.Proofs.MInv
namespace FG

theorem mrun_cons_some {c : Cfg} {m m' : MState} {a : MAction} (h : mstep? c m a = some m')
    (as : List MAction) : mrun c m (a :: as) = mrun c m' as := by
  rw [mrun, h]

/-- `k = |doneQ| + 1` uninterrupted `drainStep`s compute `sDrain c k` and leave the drain loop -/
theorem mrun_drain (c : Cfg) (r : Option PollRes) (as : List MAction) :
    ∀ (k : Nat) (s : SState), k = s.doneQ.length + 1 →
      mrun c { s := s, pc := .draining, result := r } (List.replicate k .drainStep ++ as) =
      mrun c { s := sDrain c k s, pc := .readyPoll, result := r } as := by
  intro k
  induction k with
  | zero => intro s hk; omega
  | succ k ih =>
    intro s hk
    rw [List.replicate_succ, List.cons_append, mrun, sDrain]
    simp only [mstep?, if_true]
    cases hq : s.doneQ with
    | nil =>
      rw [hq] at hk
      simp only [List.length_nil] at hk
      have hk0 : k = 0 := by omega
      subst hk0
      rfl
    | cons x rest =>
      rw [hq] at hk
      simp only [List.length_cons] at hk
      exact ih (sRelease c s x rest) (by rw [sRelease_doneQ]; omega)

/-- the state a completed poll leaves behind in the micro model, in terms of the atomic `spoll` -/
def afterPoll (c : Cfg) (s : SState) : MState :=
  { s := { (spoll c true s).1 with lastPending := decide ((spoll c true s).2 = .pending) },
    pc := .idle, result := some (spoll c true s).2 }

/-- **refinement, one poll**: from an idle, undropped micro state, `pollBegin`, then `|doneQ| + 1`
    `drainStep`s, then `readyStep` — no drop interleaved — is enabled and yields exactly
    `spoll c true m.s`: the same state (plus the ghost `lastPending`, which the atomic model sets in
    `sipoll`) and the same result.  `as` is an arbitrary continuation. -/
theorem mrun_poll (c : Cfg) (m : MState) (hpc : m.pc = .idle) (hsd : m.s.streamDropped = false)
    (as : List MAction) :
    mrun c m (.pollBegin :: (List.replicate (m.s.doneQ.length + 1) .drainStep ++ (.readyStep :: as))) =
      mrun c (afterPoll c m.s) as := by
  have hstep : mstep? c m .pollBegin = some { m with s := { m.s with wake := false }, pc := .draining } := by
    simp only [mstep?]
    rw [if_pos ⟨hpc, hsd⟩]
  rw [mrun_cons_some hstep]
  rw [mrun_drain c m.result (.readyStep :: as) (m.s.doneQ.length + 1) { m.s with wake := false } rfl]
  rw [mrun]
  simp only [mstep?, if_true]
  rw [afterPoll, spoll_eq]

theorem pollNext_non (i : IM) (u : Under) (hian : i.ian = false) (hsig : i.sig = false) :
    ((pollNext .non i u).2 = .pending ↔ u = .pending) ∧
      (pollNext .non i u).1.ian = false ∧ (pollNext .non i u).1.sig = false := by
  unfold pollNext interruptCheck
  obtain ⟨_, _, _, sig, hp, ipc, ian⟩ := i
  simp only at hian hsig
  subst hian hsig
  cases hp <;> cases ipc <;> cases u <;> simp

/-- the atomic poll of the wrapper with `Strat.non` is `spoll` plus the ghost `lastPending` and the
    wrapper's own bookkeeping `im` (which the micro model — no wrapper — leaves alone) -/
theorem sipoll_non (c : Cfg) (s : SState) (hst : c.strat = .non) (hian : s.im.ian = false)
    (hsig : s.im.sig = false) :
    ∃ i, (sipoll c true s).1 = { (afterPoll c s).s with im := i } ∧ i.ian = false ∧ i.sig = false ∧
      ((sipoll c true s).2.1 = .pending ↔ (afterPoll c s).result = some .pending) := by
  have hpi : pollsInner c.strat s.im = true := by
    unfold pollsInner interruptCheck
    rw [hst]
    simp only [hian, hsig]
    cases s.im.ipc <;> cases s.im.hp <;> simp [hsig]
  obtain ⟨e1, e2⟩ := sipoll_inner c true s hpi
  have key : ∀ u : Under, ((pollNext c.strat s.im u).2 = .pending ↔ u = .pending) ∧
      (pollNext c.strat s.im u).1.ian = false ∧ (pollNext c.strat s.im u).1.sig = false := by
    intro u
    rw [hst]
    exact pollNext_non s.im u hian hsig
  refine ⟨(pollNext c.strat s.im (underOf (spoll c true s).2)).1, ?_, (key _).2.1, (key _).2.2, ?_⟩
  · rw [e1, afterPoll]
    have : decide ((pollNext c.strat s.im (underOf (spoll c true s).2)).2 = .pending) =
        decide ((spoll c true s).2 = .pending) := by
      apply decide_eq_decide.mpr
      rw [(key _).1]
      cases (spoll c true s).2 <;> simp [underOf]
    rw [this]
  · rw [e2, (key _).1, afterPoll]
    cases (spoll c true s).2 <;> simp [underOf]

end FG
