/-
  Proofs/LCore.lean — the "core" internal actions (everything internal except `invoke`), the
  normal form `norm` that forgets what the order of internal actions may influence (the order of
  `invoked`; the ready queue once its receiver is dropped), the induced equivalence `Sim`, and the
  proof that `Sim` is a strong bisimulation for the core actions.
-/
import FnGraphVerif.Proofs.LiveMeasure
import FnGraphVerif.Proofs.LIM
namespace FG
variable {c : Cfg} {s s' t : PState}

/-- core actions: the internal actions of the queuer, the scheduler and the caller -/
inductive CA | qr | qe | sp | se | rt
  deriving DecidableEq, Repr

def CA.act : CA → Action
  | .qr => .queuerRecv
  | .qe => .queuerEnd
  | .sp => .schedPoll
  | .se => .schedEnd
  | .rt => .ret

theorem CA.act_internal (a : CA) : a.act.internal := by
  cases a <;> exact ⟨by simp [CA.act], by simp [CA.act]⟩

theorem PState.ext' {a b : PState}
    (h1 : a.counts = b.counts) (h2 : a.readyQ = b.readyQ) (h3 : a.readyTxOpen = b.readyTxOpen)
    (h4 : a.readyRxOpen = b.readyRxOpen) (h5 : a.doneQ = b.doneQ) (h6 : a.doneTxOpen = b.doneTxOpen)
    (h7 : a.released = b.released) (h8 : a.qRemaining = b.qRemaining) (h9 : a.qDone = b.qDone)
    (h10 : a.sRemaining = b.sRemaining) (h11 : a.handedOut = b.handedOut) (h12 : a.invoked = b.invoked)
    (h13 : a.inflight = b.inflight) (h14 : a.endedOk = b.endedOk) (h15 : a.failed = b.failed)
    (h16 : a.errors = b.errors) (h17 : a.dropped = b.dropped) (h18 : a.closeAfter = b.closeAfter)
    (h19 : a.im = b.im) (h20 : a.streamEnded = b.streamEnded) (h21 : a.sDone = b.sDone)
    (h22 : a.shortErr = b.shortErr) (h23 : a.result = b.result) (h24 : a.panic = b.panic) : a = b := by
  cases a; cases b; simp_all

/-- forget the order-dependent parts -/
def norm (s : PState) : PState :=
  { s with invoked := [], readyQ := if s.readyRxOpen then s.readyQ else [] }

/-- equal up to `invoked` and, once the ready receiver is gone, the ready queue -/
def Sim (s t : PState) : Prop := norm s = norm t

theorem Sim.refl (s : PState) : Sim s s := rfl
theorem Sim.symm (h : Sim s t) : Sim t s := Eq.symm h
theorem Sim.trans {u : PState} (h1 : Sim s t) (h2 : Sim t u) : Sim s u := Eq.trans h1 h2

/-! ### closed forms of the two big actions -/

/-- what `schedPoll` does with the answer `(m, out)` of the interruptible stream -/
def spApply (c : Cfg) (s : PState) (m : IM) : Out → Option PState
  | .pending => some { s with im := m }
  | .endd => some { s with im := m, streamEnded := true, readyRxOpen := false }
  | .intNone => some { s with im := m, doneTxOpen := false }
  | .noInt =>
    match s.readyQ with
    | [] => none
    | f :: rest => some (handOut c { s with im := m } f rest)
  | .intSome =>
    match s.readyQ with
    | [] => none
    | f :: rest =>
      if c.incl then some { handOut c { s with im := m } f rest with closeAfter := some f }
      else some { s with im := m, readyQ := rest, dropped := some f, doneTxOpen := false }

def spGuard (c : Cfg) (s : PState) : Bool := s.sDone || s.streamEnded || !underLimit c s

theorem step_sp (c : Cfg) (s : PState) : step? c s .schedPoll =
    if spGuard c s then none
    else spApply c s (pollNext c.strat s.im (readyUnder s)).1 (pollNext c.strat s.im (readyUnder s)).2 := by
  unfold spGuard
  by_cases hg : (s.sDone || s.streamEnded || !underLimit c s) = true
  · simp only [step?, hg, if_true]
  · simp only [step?, hg]
    generalize pollNext c.strat s.im (readyUnder s) = r
    obtain ⟨m, out⟩ := r
    cases out <;> simp only [spApply] <;> rfl

/-- the queuer folds the done id `x` -/
def qrApply (c : Cfg) (s : PState) (x : Nat) (rest : List Nat) : PState :=
  { s with
    doneQ := rest, qRemaining := s.qRemaining - 1,
    readyTxOpen := (s.readyTxOpen && (s.qRemaining - 1 != 0)),
    counts := (relFold ((s.readyTxOpen && (s.qRemaining - 1 != 0)) && s.readyRxOpen) c.cap
      (s.counts, s.readyQ, s.panic || s.qRemaining == 0) (children c.D x)).1,
    readyQ := (relFold ((s.readyTxOpen && (s.qRemaining - 1 != 0)) && s.readyRxOpen) c.cap
      (s.counts, s.readyQ, s.panic || s.qRemaining == 0) (children c.D x)).2.1,
    panic := (relFold ((s.readyTxOpen && (s.qRemaining - 1 != 0)) && s.readyRxOpen) c.cap
      (s.counts, s.readyQ, s.panic || s.qRemaining == 0) (children c.D x)).2.2,
    released := s.released ++ [x] }

theorem step_qr (c : Cfg) (s : PState) : step? c s .queuerRecv =
    if s.qDone || s.result.isSome then none
    else match s.doneQ with
      | [] => none
      | x :: rest => some (qrApply c s x rest) := by
  by_cases hg : (s.qDone || s.result.isSome) = true
  · simp only [step?, hg, if_true]
  · cases hq : s.doneQ with
    | nil => simp only [step?, hg, hq]
    | cons x rest => simp only [step?, hg, hq]; rfl

theorem step_qe (c : Cfg) (s : PState) : step? c s .queuerEnd =
    if s.qDone || s.doneTxOpen || !s.doneQ.isEmpty then none
    else some { s with qDone := true, readyTxOpen := false } := rfl

theorem step_se (c : Cfg) (s : PState) : step? c s .schedEnd =
    if s.streamEnded && s.inflight.isEmpty && !s.sDone then
      some { s with sDone := true, doneTxOpen := s.doneTxOpen && !c.sequential }
    else none := rfl

theorem step_rt (c : Cfg) (s : PState) : step? c s .ret =
    if s.sDone && s.qDone && s.result.isNone then some { s with result := some (mkRet c s) } else none := rfl

/-! ### frame lemmas: the core actions neither read nor write `invoked` -/

theorem spApply_invoked (X : List Nat) (m : IM) (out : Out) :
    spApply c { s with invoked := X } m out = (spApply c s m out).map (fun t => { t with invoked := X }) := by
  cases out <;> simp only [spApply, Option.map]
  · split <;> rfl
  · split
    · rfl
    · split <;> rfl

theorem step_invoked_frame (a : CA) (X : List Nat) :
    step? c { s with invoked := X } a.act = (step? c s a.act).map (fun t => { t with invoked := X }) := by
  cases a
  · simp only [CA.act, step_qr]
    split
    · rfl
    · split
      · rfl
      · rfl
  · simp only [CA.act, step_qe]
    split <;> rfl
  · simp only [CA.act, step_sp]
    have hg : spGuard c { s with invoked := X } = spGuard c s := rfl
    have hu : readyUnder { s with invoked := X } = readyUnder s := rfl
    rw [hg, hu]
    split
    · rfl
    · exact spApply_invoked X _ _
  · simp only [CA.act, step_se]
    split <;> rfl
  · simp only [CA.act, step_rt]
    split <;> rfl

/-! ### frame lemmas: once the ready receiver is gone the ready queue is dead -/

theorem relFold_closed_frame (cap : Nat) (l : List Nat) (cs q : List Nat) (p : Bool) (q' : List Nat) :
    relFold false cap (cs, q, p) l =
      ((relFold false cap (cs, q', p) l).1, q, (relFold false cap (cs, q', p) l).2.2) := by
  induction l generalizing cs p with
  | nil => rfl
  | cons a l ih =>
    rw [relFold_cons, relFold_cons]
    have h1 : relStep false cap (cs, q, p) a = (cs.set a (cs[a]?.getD 0 - 1), q, p || cs[a]?.getD 0 == 0) := by
      simp [relStep]
    have h2 : relStep false cap (cs, q', p) a = (cs.set a (cs[a]?.getD 0 - 1), q', p || cs[a]?.getD 0 == 0) := by
      simp [relStep]
    rw [h1, h2]
    exact ih _ _

theorem qrApply_readyQ (Y : List Nat) (x : Nat) (rest : List Nat) (hrx : s.readyRxOpen = false) :
    qrApply c { s with readyQ := Y } x rest = { qrApply c s x rest with readyQ := Y } := by
  unfold qrApply
  simp only [hrx, Bool.and_false]
  rw [relFold_closed_frame c.cap (children c.D x) s.counts Y _ s.readyQ]

theorem step_readyQ_frame (a : CA) (Y : List Nat) (hrx : s.readyRxOpen = false) (hg : spGuard c s = true) :
    step? c { s with readyQ := Y } a.act = (step? c s a.act).map (fun t => { t with readyQ := Y }) := by
  cases a
  · simp only [CA.act, step_qr]
    split
    · rfl
    · split
      · rfl
      · simp only [Option.map]
        rw [qrApply_readyQ Y _ _ hrx]
  · simp only [CA.act, step_qe]
    split <;> rfl
  · simp only [CA.act, step_sp]
    have hg' : spGuard c { s with readyQ := Y } = true := hg
    rw [hg, hg']
    rfl
  · simp only [CA.act, step_se]
    split <;> rfl
  · simp only [CA.act, step_rt]
    split <;> rfl

/-! ### `Sim` spelled out, and the bisimulation -/

theorem sim_iff : Sim s t ↔
    (t = { s with invoked := t.invoked, readyQ := t.readyQ } ∧ (s.readyRxOpen = true → t.readyQ = s.readyQ)) := by
  cases s; cases t
  simp only [Sim, norm, PState.mk.injEq, true_and]
  constructor
  · intro h
    obtain ⟨h1, h2, h3, h4, h⟩ := h
    subst h4
    refine ⟨by simp_all, ?_⟩
    intro hrx
    simpa [hrx] using h2.symm
  · rintro ⟨h, h2⟩
    obtain ⟨h1, h3, h4, h⟩ := h
    subst h4
    refine ⟨h1.symm, ?_, by simp_all⟩
    cases hrx : ‹Bool› <;> simp_all

theorem sim_exists (h : Sim s t) : ∃ X Y, t = { s with invoked := X, readyQ := Y } ∧
    (s.readyRxOpen = true → Y = s.readyQ) :=
  ⟨t.invoked, t.readyQ, (sim_iff.mp h).1, (sim_iff.mp h).2⟩

/-- no core action reopens the ready receiver -/
theorem core_rx_closed (a : CA) (h : step? c s a.act = some s') (hrx : s.readyRxOpen = false) :
    s'.readyRxOpen = false := by
  cases a
  · obtain ⟨_, _, x, rest, _, rfl⟩ := queuerRecv_cases h; exact hrx
  · obtain ⟨_, _, _, rfl⟩ := queuerEnd_cases h; exact hrx
  · obtain ⟨_, _, _, hcase⟩ := schedPoll_cases h
    rcases hcase with ⟨_, rfl⟩ | ⟨_, rfl⟩ | ⟨_, rfl⟩ | ⟨_, f, rest, _, rfl⟩ | ⟨_, f, rest, _, ⟨_, rfl⟩ | ⟨_, rfl⟩⟩ <;>
      first | exact hrx | rfl
  · obtain ⟨_, _, _, rfl⟩ := schedEnd_cases h; exact hrx
  · obtain ⟨_, _, _, rfl⟩ := ret_cases h; exact hrx

/-- `Sim` is a strong bisimulation for the core actions (on states whose ready receiver, once
    dropped, is never polled again — every reachable state, `LInv.rrx`) -/
theorem sim_step (a : CA) (hs : Sim s t) (hrr : s.readyRxOpen = false → spGuard c s = true)
    (h : step? c s a.act = some s') : ∃ t', step? c t a.act = some t' ∧ Sim s' t' := by
  obtain ⟨X, Y, rfl, hq⟩ := sim_exists hs
  rcases Bool.eq_false_or_eq_true s.readyRxOpen with hrx | hrx
  · have hY := hq hrx
    subst hY
    refine ⟨{ s' with invoked := X }, ?_, rfl⟩
    have := step_invoked_frame (c := c) (s := s) a X
    rw [h] at this
    exact this
  · refine ⟨{ s' with invoked := X, readyQ := Y }, ?_, ?_⟩
    · have h1 := step_readyQ_frame (c := c) (s := s) a Y hrx (hrr hrx)
      rw [h] at h1
      have h2 := step_invoked_frame (c := c) (s := { s with readyQ := Y }) a X
      rw [h1] at h2
      exact h2
    · have := core_rx_closed a h hrx
      simp only [Sim, norm, this]
      rfl

end FG
