/-
  Proofs/Reach.lean — edges, reachability, and the executable path test.

  `hasPath g a b = true ↔ Reach g a b` for every well-formed graph and `a < g.n`
  (soundness by induction over the breadth-first loop, completeness from the
  closure invariant, termination within `g.n` rounds by a pigeonhole on the
  duplicate-free visited list).
-/
import FnGraphVerif.Model.Graph
import Mathlib.Data.List.Perm.Subperm
import Mathlib.Data.List.Nodup
namespace FG

def IsEdge (g : Dag) (u v : Nat) : Prop := ∃ e ∈ g.edges, e.src = u ∧ e.tgt = v

theorem mem_parents {g : Dag} {u v : Nat} : u ∈ parents g v ↔ IsEdge g u v := by
  unfold parents IsEdge
  simp only [List.mem_map, List.mem_filter, List.mem_reverse, beq_iff_eq]
  constructor
  · rintro ⟨e, ⟨he, ht⟩, hs⟩; exact ⟨e, he, hs, ht⟩
  · rintro ⟨e, he, hs, ht⟩; exact ⟨e, ⟨he, ht⟩, hs⟩

theorem mem_children {g : Dag} {u v : Nat} : v ∈ children g u ↔ IsEdge g u v := by
  unfold children IsEdge
  simp only [List.mem_map, List.mem_filter, List.mem_reverse, beq_iff_eq]
  constructor
  · rintro ⟨e, ⟨he, hs⟩, ht⟩; exact ⟨e, he, hs, ht⟩
  · rintro ⟨e, he, hs, ht⟩; exact ⟨e, ⟨he, hs⟩, ht⟩

theorem isEdge_flip {g : Dag} {u v : Nat} : IsEdge g.flip u v ↔ IsEdge g v u := by
  unfold IsEdge Dag.flip
  simp only [List.mem_map]
  constructor
  · rintro ⟨e, ⟨e0, he0, rfl⟩, hs, ht⟩; exact ⟨e0, he0, ht, hs⟩
  · rintro ⟨e, he, hs, ht⟩; exact ⟨_, ⟨e, he, rfl⟩, ht, hs⟩

/-- reflexive-transitive reachability -/
inductive Reach (g : Dag) : Nat → Nat → Prop
  | refl (a) : Reach g a a
  | tail {a w b} : Reach g a w → IsEdge g w b → Reach g a b

/-- reachability through at least one edge -/
inductive ReachP (g : Dag) : Nat → Nat → Prop
  | edge {u v} : IsEdge g u v → ReachP g u v
  | tail {u w v} : ReachP g u w → IsEdge g w v → ReachP g u v

theorem Reach.trans {g : Dag} {a b c : Nat} (h1 : Reach g a b) (h2 : Reach g b c) : Reach g a c := by
  induction h2 with
  | refl => exact h1
  | tail _ he ih => exact Reach.tail ih he

theorem ReachP.trans {g : Dag} {a b c : Nat} (h1 : ReachP g a b) (h2 : ReachP g b c) : ReachP g a c := by
  induction h2 with
  | edge he => exact ReachP.tail h1 he
  | tail _ he ih => exact ReachP.tail ih he

theorem Reach.of_reachP {g : Dag} {a b : Nat} (h : ReachP g a b) : Reach g a b := by
  induction h with
  | edge he => exact Reach.tail (Reach.refl _) he
  | tail _ he ih => exact Reach.tail ih he

theorem Reach.cases_head {g : Dag} {a b : Nat} (h : Reach g a b) : a = b ∨ ReachP g a b := by
  induction h with
  | refl => exact Or.inl rfl
  | tail _ he ih =>
    rcases ih with rfl | ih
    · exact Or.inr (ReachP.edge he)
    · exact Or.inr (ReachP.tail ih he)

theorem ReachP.head {g : Dag} {a b c : Nat} (he : IsEdge g a b) (h : Reach g b c) : ReachP g a c := by
  induction h with
  | refl => exact ReachP.edge he
  | tail _ he' ih => exact ReachP.tail ih he'

/-- a strict path starts with an edge -/
theorem ReachP.first {g : Dag} {a c : Nat} (h : ReachP g a c) : ∃ b, IsEdge g a b ∧ Reach g b c := by
  induction h with
  | edge he => exact ⟨_, he, Reach.refl _⟩
  | tail _ he ih => obtain ⟨b, hab, hbc⟩ := ih; exact ⟨b, hab, Reach.tail hbc he⟩

def WF (g : Dag) : Prop := ∀ e ∈ g.edges, e.src < g.n ∧ e.tgt < g.n
def Acyclic (g : Dag) : Prop := ∀ u, ¬ ReachP g u u
/-- at most one edge per ordered pair: neighbour lists are duplicate free -/
def Simple (g : Dag) : Prop := ∀ u, (children g u).Nodup ∧ (parents g u).Nodup

theorem IsEdge.lt {g : Dag} (hwf : WF g) {u v : Nat} (h : IsEdge g u v) : u < g.n ∧ v < g.n := by
  obtain ⟨e, he, rfl, rfl⟩ := h; exact hwf e he

theorem Reach.lt {g : Dag} (hwf : WF g) {a b : Nat} (h : Reach g a b) (ha : a < g.n) : b < g.n := by
  induction h with
  | refl => exact ha
  | tail _ he _ => exact (he.lt hwf).2

theorem ReachP.src_lt {g : Dag} (hwf : WF g) {a b : Nat} (h : ReachP g a b) : a < g.n := by
  induction h with
  | edge he => exact (he.lt hwf).1
  | tail _ _ ih => exact ih

theorem ReachP.tgt_lt {g : Dag} (hwf : WF g) {a b : Nat} (h : ReachP g a b) : b < g.n := by
  cases h with
  | edge he => exact (he.lt hwf).2
  | tail _ he => exact (he.lt hwf).2

/-! ### `addNew` / `newOnes` -/

theorem addNew_prefix (acc xs : List Nat) : ∃ t, addNew acc xs = acc ++ t := by
  induction xs generalizing acc with
  | nil => exact ⟨[], by simp [addNew]⟩
  | cons x xs ih =>
    simp only [addNew, List.foldl_cons]
    by_cases h : x ∈ acc
    · simp only [h, if_true]; exact ih acc
    · simp only [h, if_false]
      obtain ⟨t, ht⟩ := ih (acc ++ [x])
      exact ⟨x :: t, by simp only [addNew] at ht; rw [ht]; simp⟩

theorem mem_addNew {acc xs : List Nat} {y : Nat} : y ∈ addNew acc xs ↔ y ∈ acc ∨ y ∈ xs := by
  induction xs generalizing acc with
  | nil => simp [addNew]
  | cons x xs ih =>
    simp only [addNew, List.foldl_cons]
    by_cases h : x ∈ acc
    · simp only [h, if_true]
      have := ih (acc := acc); simp only [addNew] at this; rw [this]
      constructor
      · rintro (h1 | h1); exact Or.inl h1; exact Or.inr (List.mem_cons_of_mem _ h1)
      · rintro (h1 | h1)
        · exact Or.inl h1
        · rcases List.mem_cons.mp h1 with rfl | h2
          · exact Or.inl h
          · exact Or.inr h2
    · simp only [h, if_false]
      have := ih (acc := acc ++ [x]); simp only [addNew] at this; rw [this]
      simp only [List.mem_append, List.mem_cons, List.not_mem_nil, or_false]
      constructor
      · rintro ((h1 | h1) | h1)
        · exact Or.inl h1
        · exact Or.inr (Or.inl h1)
        · exact Or.inr (Or.inr h1)
      · rintro (h1 | h1 | h1)
        · exact Or.inl (Or.inl h1)
        · exact Or.inl (Or.inr h1)
        · exact Or.inr h1

theorem addNew_nodup {acc xs : List Nat} (h : acc.Nodup) : (addNew acc xs).Nodup := by
  induction xs generalizing acc with
  | nil => simpa [addNew]
  | cons x xs ih =>
    simp only [addNew, List.foldl_cons]
    by_cases hx : x ∈ acc
    · simp only [hx, if_true]; exact ih h
    · simp only [hx, if_false]
      apply ih
      rw [List.nodup_append]
      refine ⟨h, by simp, ?_⟩
      intro a ha b hb hab
      simp at hb; subst hb; subst hab; exact hx ha

theorem addNew_eq (vis xs : List Nat) : addNew vis xs = vis ++ newOnes vis xs := by
  obtain ⟨t, ht⟩ := addNew_prefix vis xs
  unfold newOnes; rw [ht]; simp

theorem mem_newOnes {vis xs : List Nat} {y : Nat} (hnd : vis.Nodup) :
    y ∈ newOnes vis xs ↔ y ∉ vis ∧ y ∈ xs := by
  have hnd' : (addNew vis xs).Nodup := addNew_nodup hnd
  have hm := mem_addNew (acc := vis) (xs := xs) (y := y)
  rw [addNew_eq] at hnd' hm
  rw [List.nodup_append] at hnd'
  simp only [List.mem_append] at hm
  constructor
  · intro hy
    refine ⟨fun hv => hnd'.2.2 y hv y hy rfl, ?_⟩
    rcases hm.mp (Or.inr hy) with h | h
    · exact absurd rfl (hnd'.2.2 y h y hy)
    · exact h
  · rintro ⟨hnv, hx⟩
    rcases hm.mpr (Or.inr hx) with h | h
    · exact absurd h hnv
    · exact h

/-! ### the breadth-first loop -/

theorem bfs_sound (g : Dag) (a : Nat) : ∀ fuel fr vis,
    (∀ x ∈ vis, Reach g a x) → (∀ x ∈ fr, x ∈ vis) → vis.Nodup →
    ∀ x ∈ bfsLoop g fuel fr vis, Reach g a x := by
  intro fuel
  induction fuel with
  | zero => intro fr vis hv _ _ x hx; exact hv x (by simpa [bfsLoop] using hx)
  | succ k ih =>
    intro fr vis hv hfr hnd x hx
    simp only [bfsLoop] at hx
    split at hx
    · exact hv x hx
    · apply ih (newOnes vis (fr.flatMap (children g))) (vis ++ newOnes vis (fr.flatMap (children g))) _ _ _ x hx
      · intro y hy
        rcases List.mem_append.mp hy with h | h
        · exact hv y h
        · have := (mem_newOnes hnd).mp h
          obtain ⟨w, hw, hyw⟩ := List.mem_flatMap.mp this.2
          exact Reach.tail (hv w (hfr w hw)) (mem_children.mp hyw)
      · intro y hy; exact List.mem_append.mpr (Or.inr hy)
      · rw [← addNew_eq]; exact addNew_nodup hnd

/-- invariant of the loop that gives completeness -/
structure BfsInv (g : Dag) (a : Nat) (fuel : Nat) (fr vis : List Nat) : Prop where
  start : a ∈ vis
  frSub : ∀ x ∈ fr, x ∈ vis
  closed : ∀ x ∈ vis, x ∉ fr → ∀ c ∈ children g x, c ∈ vis
  nodup : vis.Nodup
  bound : ∀ x ∈ vis, x < g.n
  budget : g.n + 1 ≤ vis.length + fuel

theorem nodup_bounded_length {l : List Nat} {n : Nat} (hnd : l.Nodup) (hb : ∀ x ∈ l, x < n) : l.length ≤ n := by
  have hsub : l ⊆ List.range n := fun x hx => List.mem_range.mpr (hb x hx)
  have := (List.Nodup.subperm hnd hsub).length_le
  simpa using this

theorem bfs_complete (g : Dag) (hwf : WF g) (a : Nat) : ∀ fuel fr vis, BfsInv g a fuel fr vis →
    ∀ x, Reach g a x → x ∈ bfsLoop g fuel fr vis := by
  intro fuel
  induction fuel with
  | zero =>
    intro fr vis hinv
    have := nodup_bounded_length hinv.nodup hinv.bound
    have := hinv.budget
    omega
  | succ k ih =>
    intro fr vis hinv x hx
    simp only [bfsLoop]
    split
    · rename_i hemp
      -- nothing new: `vis` is closed under `children`
      have hclosed : ∀ y ∈ vis, ∀ c ∈ children g y, c ∈ vis := by
        intro y hy c hc
        by_cases hyf : y ∈ fr
        · apply Classical.byContradiction
          intro hcv
          have : c ∈ newOnes vis (fr.flatMap (children g)) :=
            (mem_newOnes hinv.nodup).mpr ⟨hcv, List.mem_flatMap.mpr ⟨y, hyf, hc⟩⟩
          rw [List.isEmpty_iff.mp hemp] at this
          simp at this
        · exact hinv.closed y hy hyf c hc
      induction hx with
      | refl => exact hinv.start
      | tail _ he ih2 => exact hclosed _ ih2 _ (mem_children.mpr he)
    · rename_i hne
      refine ih _ _ ?_ x hx
      have hnn : (vis ++ newOnes vis (fr.flatMap (children g))).Nodup := by
        rw [← addNew_eq]; exact addNew_nodup hinv.nodup
      refine ⟨List.mem_append.mpr (Or.inl hinv.start), fun y hy => List.mem_append.mpr (Or.inr hy), ?_, hnn, ?_, ?_⟩
      · intro y hy hyn c hc
        rcases List.mem_append.mp hy with h | h
        · by_cases hyf : y ∈ fr
          · by_cases hcv : c ∈ vis
            · exact List.mem_append.mpr (Or.inl hcv)
            · exact List.mem_append.mpr (Or.inr ((mem_newOnes hinv.nodup).mpr ⟨hcv, List.mem_flatMap.mpr ⟨y, hyf, hc⟩⟩))
          · exact List.mem_append.mpr (Or.inl (hinv.closed y h hyf c hc))
        · exact absurd h hyn
      · intro y hy
        rcases List.mem_append.mp hy with h | h
        · exact hinv.bound y h
        · obtain ⟨w, _, hyw⟩ := List.mem_flatMap.mp ((mem_newOnes hinv.nodup).mp h).2
          exact ((mem_children.mp hyw).lt hwf).2
      · have hpos : 0 < (newOnes vis (fr.flatMap (children g))).length := by
          apply List.length_pos_iff.mpr
          intro h; rw [h] at hne; simp at hne
        have := hinv.budget
        simp only [List.length_append]
        omega

theorem mem_reachSet {g : Dag} (hwf : WF g) {a b : Nat} (ha : a < g.n) : b ∈ reachSet g a ↔ Reach g a b := by
  unfold reachSet
  constructor
  · apply bfs_sound g a g.n [a] [a]
    · intro x hx; simp at hx; subst hx; exact Reach.refl _
    · intro x hx; exact hx
    · simp
  · intro h
    apply bfs_complete g hwf a g.n [a] [a] _ b h
    refine ⟨by simp, fun x hx => hx, ?_, by simp, ?_, by simp; omega⟩
    · intro x hx hxn; simp at hx; subst hx; simp at hxn
    · intro x hx; simp at hx; subst hx; exact ha

/-- the executable path test decides reachability -/
theorem hasPath_iff_reach {g : Dag} (hwf : WF g) {a : Nat} (ha : a < g.n) (b : Nat) :
    hasPath g a b = true ↔ Reach g a b := by
  unfold hasPath
  rw [decide_eq_true_iff]
  exact mem_reachSet hwf ha

theorem hasPath_false_iff {g : Dag} (hwf : WF g) {a : Nat} (ha : a < g.n) (b : Nat) :
    hasPath g a b = false ↔ ¬ Reach g a b := by
  rw [← hasPath_iff_reach hwf ha b]; cases hasPath g a b <;> simp

/-- soundness needs no hypothesis at all -/
theorem hasPath_sound {g : Dag} {a b : Nat} (h : hasPath g a b = true) : Reach g a b := by
  unfold hasPath at h
  rw [decide_eq_true_iff] at h
  unfold reachSet at h
  apply bfs_sound g a g.n [a] [a] _ _ _ b h
  · intro x hx; simp at hx; subst hx; exact Reach.refl _
  · intro x hx; exact hx
  · simp

/-! ### adding an edge -/

def addE (g : Dag) (e : Edge) : Dag := { g with edges := g.edges ++ [e] }

theorem isEdge_addE {g : Dag} {e : Edge} {u v : Nat} :
    IsEdge (addE g e) u v ↔ IsEdge g u v ∨ (u = e.src ∧ v = e.tgt) := by
  unfold IsEdge addE
  simp only [List.mem_append, List.mem_singleton]
  constructor
  · rintro ⟨e', he | he, hs, ht⟩
    · exact Or.inl ⟨e', he, hs, ht⟩
    · subst he; exact Or.inr ⟨hs.symm, ht.symm⟩
  · rintro (⟨e', he, hs, ht⟩ | ⟨hu, hv⟩)
    · exact ⟨e', Or.inl he, hs, ht⟩
    · exact ⟨e, Or.inr rfl, hu.symm, hv.symm⟩

theorem Reach.mono_addE {g : Dag} {e : Edge} {x y : Nat} (h : Reach g x y) : Reach (addE g e) x y := by
  induction h with
  | refl => exact Reach.refl _
  | tail _ he ih => exact Reach.tail ih (isEdge_addE.mpr (Or.inl he))

theorem ReachP.mono_addE {g : Dag} {e : Edge} {x y : Nat} (h : ReachP g x y) : ReachP (addE g e) x y := by
  induction h with
  | edge he => exact ReachP.edge (isEdge_addE.mpr (Or.inl he))
  | tail _ he ih => exact ReachP.tail ih (isEdge_addE.mpr (Or.inl he))

/-- a path of the extended graph avoids the new edge or splits around a use of it -/
theorem reachP_addE {g : Dag} {e : Edge} {x y : Nat} (h : ReachP (addE g e) x y) :
    ReachP g x y ∨ (Reach g x e.src ∧ Reach g e.tgt y) := by
  induction h with
  | edge he =>
    rcases isEdge_addE.mp he with he | ⟨rfl, rfl⟩
    · exact Or.inl (ReachP.edge he)
    · exact Or.inr ⟨Reach.refl _, Reach.refl _⟩
  | tail _ he ih =>
    rcases isEdge_addE.mp he with he | ⟨rfl, rfl⟩
    · rcases ih with ih | ⟨h1, h2⟩
      · exact Or.inl (ReachP.tail ih he)
      · exact Or.inr ⟨h1, Reach.tail h2 he⟩
    · rcases ih with ih | ⟨h1, _⟩
      · exact Or.inr ⟨Reach.of_reachP ih, Reach.refl _⟩
      · exact Or.inr ⟨h1, Reach.refl _⟩

theorem acyclic_addE {g : Dag} {e : Edge} (hac : Acyclic g) (hnr : ¬ Reach g e.tgt e.src) :
    Acyclic (addE g e) := by
  intro u hu
  rcases reachP_addE hu with h | ⟨h1, h2⟩
  · exact hac u h
  · exact hnr (Reach.trans h2 h1)

/-- conversely the rejected edge really would close a cycle -/
theorem cyclic_addE {g : Dag} {e : Edge} (hr : Reach g e.tgt e.src) : ¬ Acyclic (addE g e) := by
  intro hac
  have he : IsEdge (addE g e) e.src e.tgt := isEdge_addE.mpr (Or.inr ⟨rfl, rfl⟩)
  rcases Reach.cases_head (Reach.mono_addE (e := e) hr) with h | h
  · rw [h] at he; exact hac _ (ReachP.edge he)
  · exact hac _ (ReachP.trans (ReachP.edge he) h)

/-- overwriting the kind of an edge changes no adjacency -/
theorem isEdge_set_kind {g : Dag} {i : Nat} {a c : Nat} {k : Kind}
    (hi : ∃ e, g.edges[i]? = some e ∧ e.src = a ∧ e.tgt = c) {u v : Nat} :
    IsEdge { g with edges := g.edges.set i ⟨a, c, k⟩ } u v ↔ IsEdge g u v := by
  obtain ⟨e0, he0, hs0, ht0⟩ := hi
  have hlt : i < g.edges.length := by
    rcases Nat.lt_or_ge i g.edges.length with h | h
    · exact h
    · rw [List.getElem?_eq_none h] at he0; cases he0
  unfold IsEdge
  constructor
  · rintro ⟨e, he, hs, ht⟩
    rcases List.mem_or_eq_of_mem_set he with h | h
    · exact ⟨e, h, hs, ht⟩
    · subst h
      refine ⟨e0, List.mem_of_getElem? he0, ?_, ?_⟩
      · simpa [hs0] using hs
      · simpa [ht0] using ht
  · rintro ⟨e, he, hs, ht⟩
    obtain ⟨j, hj, hje⟩ := List.getElem_of_mem he
    by_cases hji : j = i
    · subst hji
      refine ⟨⟨a, c, k⟩, List.mem_iff_getElem.mpr ⟨j, by simpa using hj, by simp⟩, ?_, ?_⟩
      · have : g.edges[j]? = some e := by rw [List.getElem?_eq_getElem hj, hje]
        rw [this] at he0; cases he0; simpa [hs] using hs0.symm
      · have : g.edges[j]? = some e := by rw [List.getElem?_eq_getElem hj, hje]
        rw [this] at he0; cases he0; simpa [ht] using ht0.symm
    · refine ⟨e, List.mem_iff_getElem.mpr ⟨j, by simpa using hj, ?_⟩, hs, ht⟩
      simp [Ne.symm hji, hje]

end FG
