/-
  Proofs/D2Glue.lean — helper lemmas for `Theorems/Build.lean` and `Theorems/C12Eq.lean`:
  `copyStructs` on a good graph, `predCounts` = degrees, `parents`/`children` of the flipped
  graph, `isCyclic`, `eqGraph`.
-/
import FnGraphVerif.Proofs.TopoLemmas
import FnGraphVerif.Theorems.C14
import FnGraphVerif.Model.Build
import FnGraphVerif.Model.GraphInfo
namespace FG

/-! ### monotonicity of reachability in the edge list -/

theorem IsEdge.mono_edges {g g' : Dag} (h : ∀ e ∈ g.edges, e ∈ g'.edges) {u v : Nat}
    (he : IsEdge g u v) : IsEdge g' u v := by
  obtain ⟨e, hm, hs, ht⟩ := he
  exact ⟨e, h e hm, hs, ht⟩

theorem Reach.mono_edges {g g' : Dag} (h : ∀ e ∈ g.edges, e ∈ g'.edges) {a b : Nat}
    (hr : Reach g a b) : Reach g' a b := by
  induction hr with
  | refl => exact Reach.refl _
  | tail _ he ih => exact Reach.tail ih (he.mono_edges h)

/-- in an acyclic graph no edge's target reaches its source, not even in a sub-graph -/
theorem hasPath_sub_false {g : Dag} (hac : Acyclic g) {pre : List Edge} (hsub : ∀ x ∈ pre, x ∈ g.edges)
    {e : Edge} (he : e ∈ g.edges) (m : Nat) : hasPath ⟨m, pre⟩ e.tgt e.src = false := by
  cases hp : hasPath ⟨m, pre⟩ e.tgt e.src with
  | false => rfl
  | true =>
    exfalso
    have hr : Reach g e.tgt e.src := Reach.mono_edges (g := ⟨m, pre⟩) hsub (hasPath_sound hp)
    exact hac e.src (ReachP.head ⟨e, he, rfl, rfl⟩ hr)

theorem addEdgeChecked_sub {g : Dag} (hwf : WF g) (hac : Acyclic g) {pre : List Edge}
    (hsub : ∀ x ∈ pre, x ∈ g.edges) {e : Edge} (he : e ∈ g.edges) :
    addEdgeChecked ⟨g.n, pre⟩ e.src e.tgt e.kind = some ⟨g.n, pre ++ [e]⟩ := by
  unfold addEdgeChecked
  have hb := hwf e he
  have h1 : ¬ (g.n ≤ e.src ∨ g.n ≤ e.tgt) := by omega
  simp only [h1, if_false, hasPath_sub_false hac hsub he]
  rfl

/-! ### `copyStructs` -/

def flipE (e : Edge) : Edge := { e with src := e.tgt, tgt := e.src }

theorem flip_eq (g : Dag) : g.flip = ⟨g.n, g.edges.map flipE⟩ := rfl

def copyStep (acc : Option (Dag × Dag)) (e : Edge) : Option (Dag × Dag) :=
  match acc with
  | none => none
  | some (s, r) =>
    match addEdgeChecked s e.src e.tgt e.kind with
    | none => none
    | some s' =>
      match addEdgeChecked r e.tgt e.src e.kind with
      | none => none
      | some r' => some (s', r')

theorem copyStructs_eq (g : Dag) :
    copyStructs g = g.edges.foldl copyStep (some (⟨g.n, []⟩, ⟨g.n, []⟩)) := rfl

theorem copyFold {g : Dag} (hwf : WF g) (hac : Acyclic g) (hwf' : WF g.flip) (hac' : Acyclic g.flip) :
    ∀ (suf pre : List Edge), pre ++ suf = g.edges →
      suf.foldl copyStep (some (⟨g.n, pre⟩, ⟨g.n, pre.map flipE⟩))
        = some (⟨g.n, pre ++ suf⟩, ⟨g.n, (pre ++ suf).map flipE⟩) := by
  intro suf
  induction suf with
  | nil => intro pre _; simp
  | cons e suf ih =>
    intro pre hps
    have hsub : ∀ x ∈ pre, x ∈ g.edges := fun x hx => hps ▸ List.mem_append_left _ hx
    have he : e ∈ g.edges := hps ▸ List.mem_append_right _ (List.mem_cons_self)
    have h1 := addEdgeChecked_sub hwf hac hsub he
    have hsub' : ∀ x ∈ pre.map flipE, x ∈ g.flip.edges := by
      intro x hx
      obtain ⟨y, hy, rfl⟩ := List.mem_map.mp hx
      exact List.mem_map.mpr ⟨y, hsub y hy, rfl⟩
    have he' : flipE e ∈ g.flip.edges := List.mem_map.mpr ⟨e, he, rfl⟩
    have h2 := addEdgeChecked_sub hwf' hac' hsub' he'
    have h2' : addEdgeChecked ⟨g.n, pre.map flipE⟩ e.tgt e.src e.kind
        = some ⟨g.n, pre.map flipE ++ [flipE e]⟩ := h2
    rw [List.foldl_cons]
    have hstep : copyStep (some (⟨g.n, pre⟩, ⟨g.n, pre.map flipE⟩)) e
        = some (⟨g.n, pre ++ [e]⟩, ⟨g.n, (pre ++ [e]).map flipE⟩) := by
      simp only [copyStep, h1, h2', List.map_append, List.map_cons, List.map_nil]
    rw [hstep]
    have := ih (pre ++ [e]) (by simpa using hps)
    simpa using this

/-- the two structure copies succeed and reproduce the edge list and the flipped list -/
theorem copyStructs_good {g : Dag} (hg : GoodG g) :
    copyStructs g = some (⟨g.n, g.edges⟩, g.flip) := by
  have hf := flip_good hg
  have := copyFold hg.wf hg.acyclic hf.wf hf.acyclic g.edges [] rfl
  rw [copyStructs_eq]
  simpa [flip_eq] using this

/-! ### flipped neighbour lists -/

-- `parents_flip` / `children_flip` are in Proofs/TopoLemmas.lean

/-! ### `predCounts` -/

theorem bump_length (l : List Nat) (i : Nat) : (bump l i).length = l.length := by
  simp [bump]

theorem foldl_bump_length (xs : List Nat) (l : List Nat) : (xs.foldl bump l).length = l.length := by
  induction xs generalizing l with
  | nil => rfl
  | cons x xs ih => rw [List.foldl_cons, ih, bump_length]

theorem bump_get (l : List Nat) (i v : Nat) :
    (bump l i)[v]?.getD 0 = l[v]?.getD 0 + (if v < l.length ∧ i = v then 1 else 0) := by
  unfold bump
  rw [List.getElem?_set]
  by_cases hiv : i = v
  · subst hiv
    by_cases hl : i < l.length
    · simp [hl]
    · simp [hl]
  · simp [hiv]

theorem foldl_bump_get (xs : List Nat) (l : List Nat) (v : Nat) :
    (xs.foldl bump l)[v]?.getD 0 = l[v]?.getD 0 + (if v < l.length then xs.count v else 0) := by
  induction xs generalizing l with
  | nil => simp
  | cons x xs ih =>
    rw [List.foldl_cons, ih, bump_get, bump_length, List.count_cons]
    by_cases hl : v < l.length
    · by_cases hx : x = v
      · simp [hl, hx]; omega
      · simp [hl, hx]
    · simp [hl]

def predStep (g : Dag) (acc : List Nat × List Nat) (u : Nat) : List Nat × List Nat :=
  ((children g u).foldl bump acc.1, (parents g u).foldl bump acc.2)

theorem predCounts_eq (g : Dag) :
    predCounts g = (List.range g.n).foldl (predStep g) (List.replicate g.n 0, List.replicate g.n 0) := rfl

theorem predFold_length (g : Dag) (us : List Nat) (acc : List Nat × List Nat) :
    (us.foldl (predStep g) acc).1.length = acc.1.length ∧
    (us.foldl (predStep g) acc).2.length = acc.2.length := by
  induction us generalizing acc with
  | nil => exact ⟨rfl, rfl⟩
  | cons u us ih =>
    rw [List.foldl_cons]
    obtain ⟨h1, h2⟩ := ih (predStep g acc u)
    rw [h1, h2]
    exact ⟨foldl_bump_length _ _, foldl_bump_length _ _⟩

theorem predFold_get (g : Dag) (us : List Nat) (acc : List Nat × List Nat) (v : Nat) :
    (us.foldl (predStep g) acc).1[v]?.getD 0
      = acc.1[v]?.getD 0 + (if v < acc.1.length then (us.map (fun u => (children g u).count v)).sum else 0) ∧
    (us.foldl (predStep g) acc).2[v]?.getD 0
      = acc.2[v]?.getD 0 + (if v < acc.2.length then (us.map (fun u => (parents g u).count v)).sum else 0) := by
  induction us generalizing acc with
  | nil => simp
  | cons u us ih =>
    rw [List.foldl_cons]
    obtain ⟨h1, h2⟩ := ih (predStep g acc u)
    rw [h1, h2]
    simp only [predStep, foldl_bump_get, foldl_bump_length, List.map_cons, List.sum_cons]
    constructor
    · by_cases hl : v < acc.1.length
      · simp [hl]; omega
      · simp [hl]
    · by_cases hl : v < acc.2.length
      · simp [hl]; omega
      · simp [hl]

theorem children_count (g : Dag) (u v : Nat) :
    (children g u).count v = g.edges.countP (fun e => e.src == u && e.tgt == v) := by
  unfold children
  rw [List.count_eq_countP, List.countP_map, List.countP_filter, List.countP_reverse]
  apply List.countP_congr
  intro e _
  simp [Bool.and_comm]

theorem parents_count (g : Dag) (u v : Nat) :
    (parents g u).count v = g.edges.countP (fun e => e.tgt == u && e.src == v) := by
  rw [← children_flip, children_count]
  unfold Dag.flip
  rw [List.countP_map]
  rfl

theorem parents_length (g : Dag) (v : Nat) :
    (parents g v).length = g.edges.countP (fun e => e.tgt == v) := by
  unfold parents
  rw [List.length_map, ← List.countP_eq_length_filter, List.countP_reverse]

theorem children_length (g : Dag) (v : Nat) :
    (children g v).length = g.edges.countP (fun e => e.src == v) := by
  unfold children
  rw [List.length_map, ← List.countP_eq_length_filter, List.countP_reverse]

theorem sum_range_indicator (n a : Nat) :
    ((List.range n).map (fun u => if a = u then 1 else 0)).sum = if a < n then 1 else 0 := by
  induction n with
  | zero => simp
  | succ n ih =>
    rw [List.range_succ, List.map_append, List.sum_append, ih]
    by_cases h1 : a < n
    · have : a ≠ n := by omega
      simp [h1, this]; omega
    · by_cases h2 : a = n
      · simp [h2]
      · have : ¬ a < n + 1 := by omega
        simp [h1, h2, this]

theorem sum_map_add' (us : List Nat) (f k : Nat → Nat) :
    (us.map (fun u => f u + k u)).sum = (us.map f).sum + (us.map k).sum := by
  induction us with
  | nil => rfl
  | cons u us ih => simp only [List.map_cons, List.sum_cons, ih]; omega

/-- summing the per-source counts over all sources gives the total count -/
theorem sum_countP_key (n : Nat) (f k : Edge → Nat) (v : Nat) (es : List Edge) (hb : ∀ e ∈ es, f e < n) :
    ((List.range n).map (fun u => es.countP (fun e => f e == u && k e == v))).sum
      = es.countP (fun e => k e == v) := by
  induction es with
  | nil => simp
  | cons e es ih =>
    have ih' := ih (fun x hx => hb x (List.mem_cons_of_mem _ hx))
    have hfe := hb e List.mem_cons_self
    simp only [List.countP_cons]
    rw [sum_map_add', ih']
    congr 1
    by_cases hk : k e = v
    · simp only [hk, beq_self_eq_true, Bool.and_true, beq_iff_eq, if_true]
      rw [sum_range_indicator]; simp [hfe]
    · simp [hk]

theorem predCounts_spec {g : Dag} (hwf : WF g) :
    (∀ v, (predCounts g).1[v]?.getD 0 = (parents g v).length) ∧ (predCounts g).1.length = g.n ∧
    (∀ v, (predCounts g).2[v]?.getD 0 = (children g v).length) ∧ (predCounts g).2.length = g.n := by
  rw [predCounts_eq]
  have hl := predFold_length g (List.range g.n) (List.replicate g.n 0, List.replicate g.n 0)
  refine ⟨?_, by simpa using hl.1, ?_, by simpa using hl.2⟩
  · intro v
    rw [(predFold_get g (List.range g.n) _ v).1, parents_length]
    simp only [children_count, List.length_replicate]
    by_cases hv : v < g.n
    · rw [sum_countP_key g.n (·.src) (·.tgt) v g.edges (fun e he => (hwf e he).1)]
      simp [hv]
    · have : g.edges.countP (fun e => e.tgt == v) = 0 := by
        rw [List.countP_eq_zero]
        intro e he; have := (hwf e he).2; simp; omega
      simp [hv, this]
  · intro v
    rw [(predFold_get g (List.range g.n) _ v).2, children_length]
    simp only [parents_count, List.length_replicate]
    by_cases hv : v < g.n
    · rw [sum_countP_key g.n (·.tgt) (·.src) v g.edges (fun e he => (hwf e he).2)]
      simp [hv]
    · have : g.edges.countP (fun e => e.src == v) = 0 := by
        rw [List.countP_eq_zero]
        intro e he; have := (hwf e he).1; simp; omega
      simp [hv, this]

/-! ### `isCyclic` -/

theorem isCyclic_false {g : Dag} (hac : Acyclic g) : isCyclic g = false := by
  unfold isCyclic
  rw [List.any_eq_false]
  intro e he
  have := hasPath_sub_false hac (pre := g.edges) (fun x hx => hx) he g.n
  simp [this]

/-! ### unfolding `build` -/

theorem build_some {b : BState} {G : FnGraph} (hb : build b = some G) :
    ∃ rk s r, rankCalc b.graph = some rk ∧ (augment b.graph b.fns rk.ranks).ok = true ∧
      copyStructs (augment b.graph b.fns rk.ranks).g = some (s, r) ∧
      G = { decls := b.fns, graph := (augment b.graph b.fns rk.ranks).g, struct := s, structRev := r,
            ranks := rk.ranks, incoming := (predCounts (augment b.graph b.fns rk.ranks).g).1,
            outgoing := (predCounts (augment b.graph b.fns rk.ranks).g).2, pops := rk.pops,
            pathChecks := (augment b.graph b.fns rk.ranks).checks } := by
  unfold build at hb
  split at hb
  · cases hb
  · rename_i rk hrk
    dsimp only at hb
    split at hb
    · cases hb
    · rename_i hok
      split at hb
      · cases hb
      · rename_i s r hcs
        cases hb
        exact ⟨rk, s, r, hrk, by simpa using hok, hcs, rfl⟩

/-! ### `eqGraph` -/

theorem zip_all_eq_self {α : Type} (p : α × α → Bool) (hp : ∀ x, p (x, x) = true) (l : List α) :
    (l.zip l).all p = true := by
  induction l with
  | nil => rfl
  | cons x l ih => simp [hp x, ih]

theorem eq_of_zip_all {α : Type} (p : α × α → Bool) (hp : ∀ x y, p (x, y) = true → x = y) :
    ∀ (l1 l2 : List α), l1.length = l2.length → (l1.zip l2).all p = true → l1 = l2 := by
  intro l1
  induction l1 with
  | nil => intro l2 hl _; cases l2 with
    | nil => rfl
    | cons _ _ => cases hl
  | cons x l1 ih =>
    intro l2 hl h
    cases l2 with
    | nil => cases hl
    | cons y l2 =>
      simp only [List.zip_cons_cons, List.all_cons, Bool.and_eq_true] at h
      rw [hp x y h.1, ih l2 (by simpa using hl) h.2]

/-- a list splits in at most one way into a `P`-free prefix followed by an all-`P` suffix -/
theorem prefix_unique {α : Type} (P : α → Prop) :
    ∀ (l1 l2 d1 d2 : List α), l1 ++ d1 = l2 ++ d2 →
      (∀ x ∈ l1, ¬ P x) → (∀ x ∈ l2, ¬ P x) → (∀ x ∈ d1, P x) → (∀ x ∈ d2, P x) → l1 = l2 := by
  intro l1
  induction l1 with
  | nil =>
    intro l2 d1 d2 h _ h2 h3 _
    cases l2 with
    | nil => rfl
    | cons y l2 =>
      exfalso
      simp only [List.nil_append] at h
      exact h2 y List.mem_cons_self (h3 y (h ▸ List.mem_cons_self))
  | cons x l1 ih =>
    intro l2 d1 d2 h h1 h2 h3 h4
    cases l2 with
    | nil =>
      exfalso
      simp only [List.nil_append] at h
      exact h1 x List.mem_cons_self (h4 x (h ▸ List.mem_cons_self))
    | cons y l2 =>
      simp only [List.cons_append, List.cons.injEq] at h
      rw [h.1, ih l2 d1 d2 h.2 (fun z hz => h1 z (List.mem_cons_of_mem _ hz))
        (fun z hz => h2 z (List.mem_cons_of_mem _ hz)) h3 h4]

theorem eqGraph_true_iff (x y : FnGraph) :
    eqGraph x y = true ↔ x.graph.n = y.graph.n ∧ x.graph.edges = y.graph.edges ∧
      (x.decls.zip y.decls).all (fun p => p.1 == p.2) = true := by
  unfold eqGraph
  simp only [Bool.and_eq_true, beq_iff_eq]
  constructor
  · rintro ⟨⟨⟨hn, hl⟩, he⟩, hd⟩
    refine ⟨hn, ?_, hd⟩
    apply eq_of_zip_all _ _ _ _ hl he
    intro e1 e2 h
    simp only [Bool.and_eq_true, beq_iff_eq] at h
    obtain ⟨s1, t1, k1⟩ := e1
    obtain ⟨s2, t2, k2⟩ := e2
    simp only at h
    rw [h.1.1, h.1.2, h.2]
  · rintro ⟨hn, he, hd⟩
    refine ⟨⟨⟨hn, by rw [he]⟩, ?_⟩, hd⟩
    rw [he]
    apply zip_all_eq_self
    intro e; simp

end FG

namespace FG

/-! ### reachable builder states from a list of calls (for the non-vacuity examples) -/

theorem breach_ops (ops : List Op) (hu : ∀ op ∈ ops, op.isUser = true) {b : BState} (hb : BReach b) :
    BReach (ops.foldl (fun b op => (applyOp b op).1) b) := by
  induction ops generalizing b with
  | nil => exact hb
  | cons op ops ih =>
    rw [List.foldl_cons]
    exact ih (fun o ho => hu o (List.mem_cons_of_mem _ ho)) (BReach.step op (hu op List.mem_cons_self) hb)

/-- example builder: `0` writes type 1, `1` reads type 1, `2` writes type 2, `3` reads 1 and writes 2;
    logic edge `0 → 2`, contains edge `2 → 3` -/
def exOps_D2 : List Op :=
  [.addFn ⟨[], [1], 0⟩, .addFn ⟨[1], [], 1⟩, .addFn ⟨[], [2], 2⟩, .addFn ⟨[1], [2], 3⟩,
   .edge .logic 0 2, .edge .contains 2 3]

def exB_D2 : BState := exOps_D2.foldl (fun b op => (applyOp b op).1) BState.empty

theorem exB_reach_D2 : BReach exB_D2 := breach_ops exOps_D2 (by decide) BReach.empty

end FG
