/-
  Proofs/SShape.lean — small facts for `Theorems/MonitorComplete.lean`: how internal actions change
  `handedOut` / `inflight`, list lemmas about prefixes of duplicate-free lists, what the events of a
  `schedPoll` step are, states that have returned are normal forms, shape of `finApply`.
-/
import FnGraphVerif.Proofs.SAdvance
import FnGraphVerif.Theorems.MonitorSound
import FnGraphVerif.Proofs.QCoup
namespace FG
variable {c : Cfg} {s s' t : PState}

/-! ### lists -/

theorem prefix_eq_of_subset_nodup {P H : List Nat} (hp : P <+: H) (hnd : H.Nodup) (hsub : ∀ x ∈ H, x ∈ P) :
    P = H := by
  obtain ⟨R, rfl⟩ := hp
  cases R with
  | nil => simp
  | cons r R =>
    exfalso
    have hr : r ∈ P := hsub r (by simp)
    exact (List.nodup_append.mp hnd).2.2 r hr r (by simp) rfl

theorem prefix_eq_of_length_le {A B H : List Nat} (ha : A <+: H) (hb : B <+: H) (hl : B.length ≤ A.length)
    (hlen : A.length ≤ B.length) : A = B :=
  (List.prefix_of_prefix_length_le ha hb hlen).eq_of_length (by omega)

theorem snoc_prefix_inj {B H : List Nat} {f g : Nat} (h1 : B ++ [f] <+: H) (h2 : B ++ [g] <+: H) : f = g := by
  have := prefix_eq_of_length_le h1 h2 (by simp) (by simp)
  simpa using this

theorem prefix_of_append_prefix {A B Y : List Nat} (h : A <+: B ++ Y) (hl : A.length ≤ B.length) : A <+: B :=
  List.prefix_of_prefix_length_le h (List.prefix_append B Y) hl

/-! ### `handedOut` / `inflight` along internal actions -/

theorem internal_step_shape {a : Action} (ha : a.internal) (h : step? c s a = some s') :
    (s'.handedOut = s.handedOut ∧ s'.inflight = s.inflight) ∨
    ∃ g, s'.handedOut = s.handedOut ++ [g] ∧ s'.inflight = s.inflight ++ [g] := by
  cases a with
  | queuerRecv => obtain ⟨_, _, x, rest, _, rfl⟩ := queuerRecv_cases h; exact Or.inl ⟨rfl, rfl⟩
  | queuerEnd => obtain ⟨_, _, _, rfl⟩ := queuerEnd_cases h; exact Or.inl ⟨rfl, rfl⟩
  | schedPoll =>
    obtain ⟨_, _, _, hcase⟩ := schedPoll_cases h
    rcases hcase with ⟨_, rfl⟩ | ⟨_, rfl⟩ | ⟨_, rfl⟩ | ⟨_, g, rest, _, rfl⟩ | ⟨_, g, rest, _, ⟨_, rfl⟩ | ⟨_, rfl⟩⟩
    · exact Or.inl ⟨rfl, rfl⟩
    · exact Or.inl ⟨rfl, rfl⟩
    · exact Or.inl ⟨rfl, rfl⟩
    · exact Or.inr ⟨g, rfl, rfl⟩
    · exact Or.inr ⟨g, rfl, rfl⟩
    · exact Or.inl ⟨rfl, rfl⟩
  | invoke f => obtain ⟨_, _, rfl⟩ := invoke_cases h; exact Or.inl ⟨rfl, rfl⟩
  | finish f ok => exact absurd rfl (ha.2 f ok)
  | interrupt => exact absurd rfl ha.1
  | schedEnd => obtain ⟨_, _, _, rfl⟩ := schedEnd_cases h; exact Or.inl ⟨rfl, rfl⟩
  | ret => obtain ⟨_, _, _, rfl⟩ := ret_cases h; exact Or.inl ⟨rfl, rfl⟩

theorem nonext_run_shape {as : List Action} : ∀ {s s' : PState}, (∀ a ∈ as, a.isExternal = false) →
    run c s as = some s' → ∃ L, s'.handedOut = s.handedOut ++ L ∧ s'.inflight = s.inflight ++ L := by
  induction as with
  | nil =>
    intro s s' _ h
    simp only [run, Option.some.injEq] at h
    subst h
    exact ⟨[], by simp, by simp⟩
  | cons a as ih =>
    intro s s' hint h
    simp only [run] at h
    cases h1 : step? c s a with
    | none => rw [h1] at h; exact absurd h (by simp)
    | some s1 =>
      rw [h1] at h
      obtain ⟨L, e1, e2⟩ := ih (fun b hb => hint b (List.mem_cons_of_mem _ hb)) h
      rcases internal_step_shape (Action.internal_iff.mpr (hint a List.mem_cons_self)) h1 with ⟨d1, d2⟩ | ⟨g, d1, d2⟩
      · exact ⟨L, by rw [e1, d1], by rw [e2, d2]⟩
      · exact ⟨g :: L, by rw [e1, d1]; simp, by rw [e2, d2]; simp⟩

/-- the events of a `schedPoll` step -/
theorem stepEvents_poll_same (ctl : Bool) {s1 : PState} (h : s1.handedOut = s.handedOut) :
    stepEvents c ctl s .schedPoll s1 = [] := by
  simp [stepEvents, h]

theorem stepEvents_poll_snoc (ctl : Bool) {s1 : PState} {g : Nat} (h : s1.handedOut = s.handedOut ++ [g]) :
    stepEvents c ctl s .schedPoll s1 = [.handout g] := by
  simp [stepEvents, h]

/-! ### returned states are at rest -/

theorem quiescent_of_result (h : s.result.isSome = true) : Quiescent c s := by
  unfold Quiescent settle1 nextInternal
  simp [h]

theorem nf_of_result (hc : GoodCfg c) (hr : Reachable c s) (h : s.result.isSome = true) : NF c s :=
  quiescent_nf hc hr (quiescent_of_result h)

/-! ### `finApply` -/

theorem finApply_shape {f : Nat} {ok : Bool} (h : finApply c s f ok = some s') :
    s'.inflight = s.inflight.erase f ∧ s'.handedOut = s.handedOut ∧ s'.invoked = s.invoked := by
  unfold finApply at h
  split at h
  · simp only [Option.some.injEq] at h; subst h; exact ⟨rfl, rfl, rfl⟩
  · split at h
    · exact absurd h (by simp)
    · simp only [Option.some.injEq] at h; subst h; exact ⟨rfl, rfl, rfl⟩
    · simp only [Option.some.injEq] at h; subst h; exact ⟨rfl, rfl, rfl⟩

theorem finApply_some_congr {f : Nat} {ok : Bool} (h : finApply c s f ok = some s') (t : PState) :
    ∃ t', finApply c t f ok = some t' := by
  unfold finApply at h ⊢
  split
  · exact ⟨_, rfl⟩
  · rename_i hok
    simp only [hok] at h
    split
    · rename_i hm; rw [hm] at h; exact absurd h (by simp)
    · exact ⟨_, rfl⟩
    · exact ⟨_, rfl⟩

/-! ### texts -/

theorem natsText_single (f : Nat) : natsText [f] = toString f := by
  have h := natsText_toList [f]
  simp only [List.map_cons, List.map_nil, List.intercalate_singleton] at h
  exact String.toList_inj.mp h

end FG

namespace FG
variable {c : Cfg} {s s' : PState}

theorem poll_invoked (h : step? c s .schedPoll = some s') : s'.invoked = s.invoked := by
  obtain ⟨_, _, _, hcase⟩ := schedPoll_cases h
  rcases hcase with ⟨_, rfl⟩ | ⟨_, rfl⟩ | ⟨_, rfl⟩ | ⟨_, g, rest, _, rfl⟩ | ⟨_, g, rest, _, ⟨_, rfl⟩ | ⟨_, rfl⟩⟩ <;> rfl

end FG
