/-
  Proofs/WRT.lean — the two ghost counters of the micro-step interruptible stream.  `yAfter` counts
  the items yielded by polls whose `interruptCheck` came after a signal; `yAfterRT` counts the items
  yielded after a signal in real time.  They differ by at most the one item of the poll that was
  already past its `interruptCheck` when the first signal arrived.
-/
import FnGraphVerif.Proofs.WInv
namespace FG

structure RTInv (x : MIState) : Prop where
  pollSig : x.pollSeen = true → x.sigSeen = true
  noSig : x.sigSeen = false → x.yAfterRT = 0 ∧ x.yAfter = 0
  le : x.yAfterRT ≤ x.yAfter + 1
  late : x.pollSeen = false → x.yAfter = 0 ∧ x.yAfterRT ≤ 1 ∧ (x.w = .checked ∨ x.w = .inner → x.yAfterRT = 0)

theorem readyStep_yield_le {c : Cfg} {m m' : MState} (hs : mstep? c m .readyStep = some m') :
    m'.s.yielded.length - m.s.yielded.length ≤ 1 := by
  simp only [mstep?] at hs
  split at hs
  · cases hs
    show (sReadyHalf m.s).1.yielded.length - m.s.yielded.length ≤ 1
    unfold sReadyHalf
    simp only [decr]
    cases m.s.txOpen
    · simp
    · cases m.s.readyQ <;> simp
  · cases hs

theorem rtinv_step {c : Cfg} {x x' : MIState} {a : MIAction} (h : RTInv x) (hs : mistep? c x a = some x') :
    RTInv x' := by
  obtain ⟨h1, h2, h3, h4⟩ := h
  cases a with
  | check =>
    simp only [mistep?] at hs
    split at hs
    · rename_i hg
      split at hs
      · cases hs
        refine ⟨fun hp => hp, h2, h3, fun hp => ?_⟩
        obtain ⟨a1, a2⟩ := h2 hp
        exact ⟨a2, by rw [a1]; omega, fun _ => a1⟩
      · cases hs
        refine ⟨fun hp => hp, h2, h3, fun hp => ?_⟩
        obtain ⟨a1, a2⟩ := h2 hp
        exact ⟨a2, by rw [a1]; omega, fun _ => a1⟩
    · cases hs
  | pollBegin =>
    simp only [mistep?] at hs
    split at hs
    · rename_i hw
      split at hs
      · cases hs
        refine ⟨h1, h2, h3, fun hp => ?_⟩
        obtain ⟨a1, a2, a3⟩ := h4 hp
        exact ⟨a1, a2, fun _ => a3 (Or.inl hw)⟩
      · cases hs
    · cases hs
  | drainStep =>
    simp only [mistep?] at hs
    split at hs
    · split at hs
      · cases hs
        exact ⟨h1, h2, h3, h4⟩
      · cases hs
    · cases hs
  | readyStep =>
    simp only [mistep?] at hs
    split at hs
    · rename_i hw
      split at hs
      · rename_i m' hm
        cases hs
        have hd := readyStep_yield_le hm
        cases hps : x.pollSeen with
        | true =>
          have hss := h1 hps
          refine ⟨fun _ => hss, fun hf => ?_, ?_, fun hp => (by cases hp)⟩
          · change x.sigSeen = false at hf
            rw [hss] at hf; cases hf
          · show x.yAfterRT + _ ≤ x.yAfter + _ + 1
            simp only [hss, if_true]
            omega
        | false =>
          obtain ⟨a1, a2, a3⟩ := h4 hps
          have a3' := a3 (Or.inr hw)
          refine ⟨fun hp => (by cases hp), fun hf => ?_, ?_, fun _ => ⟨?_, ?_, fun hw' => ?_⟩⟩
          · change x.sigSeen = false at hf
            show x.yAfterRT + _ = 0 ∧ x.yAfter + _ = 0
            simp [hf, a1, a3']
          · show x.yAfterRT + _ ≤ x.yAfter + _ + 1
            rw [a3']
            split <;> omega
          · show x.yAfter + _ = 0
            simp [a1]
          · show x.yAfterRT + _ ≤ 1
            rw [a3']
            split <;> omega
          · rcases hw' with hw' | hw' <;> cases hw'
      · cases hs
    · cases hs
  | finish =>
    simp only [mistep?] at hs
    split at hs
    · split at hs
      · cases hs
        refine ⟨h1, h2, h3, fun hp => ?_⟩
        obtain ⟨a1, a2, _⟩ := h4 hp
        exact ⟨a1, a2, fun hw' => by rcases hw' with hw' | hw' <;> cases hw'⟩
      · cases hs
    · cases hs
  | drop f =>
    simp only [mistep?] at hs
    split at hs
    · cases hs
      exact ⟨h1, h2, h3, h4⟩
    · cases hs
  | dropStream =>
    simp only [mistep?] at hs
    split at hs
    · split at hs
      · cases hs
        exact ⟨h1, h2, h3, h4⟩
      · cases hs
    · cases hs
  | interrupt =>
    simp only [mistep?, Option.some.injEq] at hs
    subst hs
    exact ⟨fun _ => rfl, fun hf => (by cases hf), h3, h4⟩

theorem rtinv_reachable {c : Cfg} {x : MIState} (hr : MIReachable c x) : RTInv x := by
  induction hr with
  | init => exact ⟨fun h => (by cases h), fun _ => ⟨rfl, rfl⟩, Nat.zero_le _, fun _ => ⟨rfl, Nat.zero_le _, fun _ => rfl⟩⟩
  | step a _ hs ih => exact rtinv_step ih hs

end FG
