/-
  Proofs/QCoup.lean — the coupling invariant `Coup` between the state `PredSt` of the specification
  predicates and the state of the model along an `ObsRun`, and its preservation by every model
  step other than `ret` (with the notes the step emits).  `ret` is in `Proofs/QRet.lean`.
-/
import FnGraphVerif.Proofs.QPred
import FnGraphVerif.Proofs.QBase
namespace FG

/-! ### the side condition on the run: closures are invoked in hand-out order -/

def Ev.invoke? : Ev → Option Nat
  | .invoke f => some f
  | _ => none

def Ev.handout? : Ev → Option Nat
  | .handout f => some f
  | _ => none

/-- the started functions, in the order of their starts, are an initial segment of the hand-outs -/
def FifoH (m : PredSt) (evs : List Ev) : Prop :=
  (m.realInvoked ++ evs.filterMap Ev.invoke?) <+: (m.realHandout ++ evs.filterMap Ev.handout?)

theorem fifoH_cons (x : MonCtx) (m : PredSt) (e : Ev) (tail : List Ev) :
    FifoH m (e :: tail) ↔ FifoH (predFut x m e).1 tail := by
  cases e <;> simp [FifoH, predFut, Ev.invoke?, Ev.handout?, List.filterMap_cons]

theorem fifoH_predRun (x : MonCtx) (evs tail : List Ev) : ∀ m : PredSt,
    FifoH m (evs ++ tail) ↔ FifoH (predRun x m evs).1 tail := by
  induction evs with
  | nil => intro m; simp [predRun]
  | cons e evs ih =>
    intro m
    rw [List.cons_append, fifoH_cons x, ih]
    rfl

theorem Note.Good.congr {P Q : Prop} {n : Note} (h : P ↔ Q) (hg : n.Good Q) : n.Good P :=
  ⟨fun hp => hg.1 (h.mp hp), hg.2⟩

/-! ### the coupling -/

structure Coup (x : MonCtx) (m : PredSt) (s : PState) (as : List Action) : Prop where
  hrun : run x.c (init x.c) as = some s
  ho : m.realHandout = s.handedOut
  inv : m.realInvoked = s.invoked
  eok : m.realEndedOk = s.endedOk
  fl : m.realFailed = s.failed
  ended : ∀ f, f ∈ m.realEnded ↔ (f ∈ s.endedOk ∨ f ∈ s.failed)
  intrNone : m.intrAt = none → ∀ a ∈ as, a ≠ Action.interrupt
  intrSome : ∀ k, m.intrAt = some k → ∃ pre rest s1, as = pre ++ Action.interrupt :: rest ∧
      (∀ a ∈ pre, a ≠ Action.interrupt) ∧ run x.c (init x.c) pre = some s1 ∧
      (∀ f ∈ s1.inflight, f ∈ s1.invoked) ∧ s1.invoked.length = k ∧
      (m.intrPre = true → pre = [] ∨ x.c.n = 0)
  first : m.nEv = 0 → as = [] ∨ x.c.n = 0

theorem coup_init (x : MonCtx) : Coup x {} (init x.c) [] where
  hrun := rfl
  ho := rfl
  inv := rfl
  eok := rfl
  fl := rfl
  ended := by intro f; simp [init]
  intrNone := by intro _ a ha; cases ha
  intrSome := by intro k hk; cases hk
  first := fun _ => Or.inl rfl

variable {x : MonCtx} {m : PredSt} {s s1 : PState} {as : List Action}

theorem Coup.reach (h : Coup x m s as) : Reachable x.c s :=
  reachable_of_run Reachable.init as h.hrun

theorem Coup.mem_realInflight (hx : GoodCtx x) (h : Coup x m s as) {f : Nat} :
    f ∈ m.realInflight ↔ (f ∈ s.inflight ∧ f ∈ s.invoked) := by
  have hinv := inv0_reachable hx.good h.reach
  unfold PredSt.realInflight
  simp only [List.mem_filter, decide_eq_true_eq, h.inv, h.ended]
  constructor
  · rintro ⟨h1, h2⟩
    refine ⟨?_, h1⟩
    rcases hinv.handedSplit f (hinv.invHanded f h1) with h3 | h3
    · exact h3
    · exact absurd h3 h2
  · rintro ⟨h1, h2⟩
    refine ⟨h2, ?_⟩
    have := hinv.inflNotEnded f h1
    rintro (h3 | h3)
    · exact this.1 h3
    · exact this.2 h3

theorem Coup.realInflight_nodup (h : Coup x m s as) (hx : GoodCtx x) : m.realInflight.Nodup := by
  have hinv := inv0_reachable hx.good h.reach
  unfold PredSt.realInflight
  rw [h.inv]
  exact hinv.invNodup.filter _

theorem Coup.realInflight_nil (hx : GoodCtx x) (h : Coup x m s as) (hi : s.inflight = []) :
    m.realInflight = [] := by
  apply List.eq_nil_iff_forall_not_mem.mpr
  intro f hf
  have := ((h.mem_realInflight hx).mp hf).1
  rw [hi] at this
  cases this

/-- a step other than `interrupt`: the coupling is kept as soon as the lists agree again -/
theorem Coup.extend (h : Coup x m s as) {a : Action} (hs : step? x.c s a = some s1)
    (ha : a ≠ .interrupt) (m' : PredSt) (hat : m'.intrAt = m.intrAt) (hpre : m'.intrPre = m.intrPre)
    (ho : m'.realHandout = s1.handedOut) (inv : m'.realInvoked = s1.invoked)
    (eok : m'.realEndedOk = s1.endedOk) (fl : m'.realFailed = s1.failed)
    (ended : ∀ f, f ∈ m'.realEnded ↔ (f ∈ s1.endedOk ∨ f ∈ s1.failed))
    (first : m'.nEv = 0 → as ++ [a] = [] ∨ x.c.n = 0) : Coup x m' s1 (as ++ [a]) where
  hrun := run_snoc_Q h.hrun hs
  ho := ho
  inv := inv
  eok := eok
  fl := fl
  ended := ended
  intrNone := by
    intro hn b hb
    rw [hat] at hn
    rcases List.mem_append.mp hb with hb | hb
    · exact h.intrNone hn b hb
    · simp only [List.mem_singleton] at hb; rw [hb]; exact ha
  intrSome := by
    intro k hk
    rw [hat] at hk
    obtain ⟨pre, rest, s0, e1, e2, e3, e4, e5, e6⟩ := h.intrSome k hk
    refine ⟨pre, rest ++ [a], s0, ?_, e2, e3, e4, e5, ?_⟩
    · rw [e1]; simp
    · rw [hpre]; exact e6
  first := first

/-- a step without visible events that changes none of the observed lists -/
theorem Coup.silent (hx : GoodCtx x) (h : Coup x m s as) {a : Action} (hs : step? x.c s a = some s1)
    (ha : a ≠ .interrupt) (hev : stepEvents x.c x.control s a s1 = [])
    (h1 : s1.handedOut = s.handedOut) (h2 : s1.invoked = s.invoked) (h3 : s1.endedOk = s.endedOk)
    (h4 : s1.failed = s.failed) : Coup x m s1 (as ++ [a]) := by
  refine h.extend hs ha m rfl rfl (by rw [h.ho, h1]) (by rw [h.inv, h2]) (by rw [h.eok, h3])
    (by rw [h.fl, h4]) (by intro f; rw [h.ended, h3, h4]) ?_
  intro h0
  rcases h.first h0 with he | he
  · by_cases hn : x.c.n = 0
    · exact Or.inr hn
    · exfalso
      subst he
      have hinit : s = init x.c := by
        have := h.hrun
        simp only [run, Option.some.injEq] at this
        exact this.symm
      subst hinit
      exact init_step_visible hx.good hn x.control hs hev
  · exact Or.inr he

end FG
