/-
  Proofs/VStream.lean — helpers for the COMPLETENESS of the stream monitor `trackStream`
  (`Theorems/StreamMonitorComplete.lean`): what `trackStream` does on the events `sStepEvents` shows
  for one step of the stream model, the converse (an accepted event IS the event of the step), and
  the events `trackStream` ignores.
-/
import FnGraphVerif.Proofs.RTrack
namespace FG

/-! ### texts -/

/-- the text the monitor computes for the model's poll answer is the text of the observation the
    harness would log, as soon as an item answer comes with an item -/
theorem pollText_eq_text {out : Out} {fo : Option Nat} (w : Bool)
    (h : out = .noInt ∨ out = .intSome → fo.isSome = true) :
    pollText out fo w = (pollObsOf out fo w).text := by
  cases out <;> cases fo <;> simp_all [pollText, pollObsOf]

theorem sipoll_pollText (c : Cfg) (drain : Bool) (s : SState) :
    pollText (sipoll c drain s).2.1 (sipoll c drain s).2.2 (sipoll c drain s).1.wake =
      (pollObsOf (sipoll c drain s).2.1 (sipoll c drain s).2.2 (sipoll c drain s).1.wake).text := by
  apply pollText_eq_text
  intro hout
  obtain ⟨ys, _, _, _, _, _, hcase⟩ := sipoll_obs c drain s
  rcases hcase with ⟨f, _, hfo, _⟩ | ⟨_, ⟨h, _⟩ | ⟨h, _⟩ | ⟨h, _⟩⟩
  · rw [hfo]; rfl
  · rw [h] at hout; rcases hout with h' | h' <;> cases h'
  · rw [h] at hout; rcases hout with h' | h' <;> cases h'
  · rw [h] at hout; rcases hout with h' | h' <;> cases h'

/-- the text of the wake flag of a drop is injective -/
theorem wokenText_inj {a b : Bool}
    (h : s!"woken={if a then 1 else 0}" = s!"woken={if b then 1 else 0}") : a = b := by
  cases a <;> cases b <;> first | rfl | (exfalso; revert h; decide)

theorem toString_false : toString false = "false" := rfl

/-! ### `trackStream`, event by event, non-coop -/

theorem isBudgetYield_noncoop {x : MonCtx} (hcoop : x.coop = false) (t : STrackSt) (r : PollObs) :
    isBudgetYield x t r = false := by
  simp [isBudgetYield, hcoop]

theorem trackStream_poll {x : MonCtx} (hcoop : x.coop = false) (t : STrackSt) (r : PollObs) :
    trackStream x t (.poll r) = ({ t with ss := (sipoll x.c true t.ss).1 },
      [.cmp "S-poll" (Ev.poll r).text (pollText (sipoll x.c true t.ss).2.1 (sipoll x.c true t.ss).2.2
          (sipoll x.c true t.ss).1.wake) r.text,
       .cmp "S-poll" ((Ev.poll r).text ++ " panic") (toString (sipoll x.c true t.ss).1.panic) "false"]) := by
  simp [trackStream, isBudgetYield_noncoop hcoop]

theorem trackStream_drop (x : MonCtx) (t : STrackSt) (f : Nat) (w : Bool) :
    trackStream x t (.drop f w) = ({ t with ss := (sdrop x.c t.ss f).getD t.ss },
      [.cmp "S-poll" (Ev.drop f w).text
        s!"woken={if (t.ss.doneRxWaker && !t.ss.streamDropped && decide (t.ss.doneQ.length < x.c.cap)) then 1 else 0}"
        s!"woken={if w then 1 else 0}"]) := rfl

theorem trackStream_intr (x : MonCtx) (t : STrackSt) :
    trackStream x t .intr = ({ t with ss := { t.ss with im := { t.ss.im with sent := true } } }, []) := rfl

theorem trackStream_aborted (x : MonCtx) (t : STrackSt) :
    trackStream x t .aborted = ({ t with ss := sdropStream t.ss }, []) := rfl

/-! ### the events `trackStream` looks at -/

/-- the events of a stream trace that denote a model action (`poll`, `drop`, `intr`, `aborted`) -/
def Ev.isStream (e : Ev) : Bool := e.saction?.isSome

theorem trackStream_ignored (x : MonCtx) (t : STrackSt) {e : Ev} (h : e.isStream = false) :
    trackStream x t e = (t, []) := by
  cases e <;> first | rfl | (exfalso; revert h; simp [Ev.isStream, Ev.saction?])

theorem strackRun_filter (x : MonCtx) (evs : List Ev) : ∀ t : STrackSt,
    strackRun x t (evs.filter Ev.isStream) = strackRun x t evs := by
  induction evs with
  | nil => intro t; rfl
  | cons e es ih =>
    intro t
    cases he : e.isStream with
    | true =>
      rw [List.filter_cons_of_pos he, strackRun_cons, strackRun_cons, ih]
    | false =>
      rw [List.filter_cons_of_neg (by simp [he]), strackRun_cons, trackStream_ignored x t he, ih]
      simp

theorem wfStreamFrom_filter (evs : List Ev) : ∀ (live : List Nat) (sd : Bool),
    wfStreamFrom live sd (evs.filter Ev.isStream) = wfStreamFrom live sd evs := by
  induction evs with
  | nil => intro _ _; rfl
  | cons e es ih =>
    intro live sd
    cases e <;>
      first
        | (rw [List.filter_cons_of_pos (by rfl)]; simp only [wfStreamFrom, ih])
        | (rw [List.filter_cons_of_neg (by simp [Ev.isStream, Ev.saction?])]; simp only [wfStreamFrom, ih])

theorem filter_isStream_eq_self {evs : List Ev} (h : ∀ e ∈ evs, e.isStream = true) :
    evs.filter Ev.isStream = evs :=
  List.filter_eq_self.mpr h

/-! ### steps of the model -/

theorem sstep_poll_inv {c : Cfg} {s s1 : SState} (h : sstep? c true s .poll = some s1) :
    s.streamDropped = false ∧ s1 = (sipoll c true s).1 := by
  simp only [sstep?] at h
  split at h
  · cases h
  · rename_i h0
    exact ⟨by simpa using h0, by cases h; rfl⟩

theorem sstep_dropStream_inv {c : Cfg} {s s1 : SState} (h : sstep? c true s .dropStream = some s1) :
    s.streamDropped = false ∧ s1 = sdropStream s := by
  simp only [sstep?] at h
  split at h
  · cases h
  · rename_i h0
    exact ⟨by simpa using h0, by cases h; rfl⟩

theorem sstep_interrupt_inv {c : Cfg} {s s1 : SState} (h : sstep? c true s .interrupt = some s1) :
    s1 = { s with im := { s.im with sent := true } } := by
  simp only [sstep?, Option.some.injEq] at h
  exact h.symm

theorem sdrop_some_inv {c : Cfg} {s s1 : SState} {f : Nat} (h : sdrop c s f = some s1) :
    f ∈ s.live ∧ s1.live = s.live.erase f ∧ s1.streamDropped = s.streamDropped := by
  rw [sdrop_eq] at h
  by_cases hf : f ∈ s.live
  · simp only [hf, not_true_eq_false, if_false] at h
    split at h <;> (cases h; exact ⟨hf, rfl, rfl⟩)
  · simp [hf] at h

/-- the yield an observed poll shows is the yield of the model's poll -/
theorem sipoll_live_obs (c : Cfg) (s : SState) :
    (sipoll c true s).1.live = s.live ++
      (pollObsOf (sipoll c true s).2.1 (sipoll c true s).2.2 (sipoll c true s).1.wake).ys ∧
    (sipoll c true s).1.streamDropped = s.streamDropped := by
  obtain ⟨ys, _, hlive, _, hsd, _, hcase⟩ := sipoll_obs c true s
  refine ⟨?_, hsd⟩
  rw [hlive]
  rcases hcase with ⟨f, hy, _, ⟨_, h⟩ | ⟨_, h⟩⟩ | ⟨hy, ⟨_, h⟩ | ⟨_, h⟩ | ⟨_, h⟩⟩ <;>
    (rw [h, hy]; rfl)

/-! ### runs -/

theorem toString_eq_false_V {b : Bool} (h : toString b = "false") : b = false := by
  cases b
  · rfl
  · exact absurd h (by decide)

theorem strackRun_append (x : MonCtx) (es fs : List Ev) : ∀ t : STrackSt,
    strackRun x t (es ++ fs) =
      ((strackRun x (strackRun x t es).1 fs).1, (strackRun x t es).2 ++ (strackRun x (strackRun x t es).1 fs).2) := by
  induction es with
  | nil => intro t; rfl
  | cons e es ih =>
    intro t
    rw [List.cons_append, strackRun_cons, strackRun_cons, ih]
    simp only [List.append_assoc]

theorem SObsRun.snoc {x : MonCtx} {s s1 s2 : SState} {evs : List Ev} (h : SObsRun x s evs s1)
    {a : SAction} (hs : sstep? x.c true s1 a = some s2) : SObsRun x s (evs ++ sStepEvents x.c s1 a) s2 := by
  induction h with
  | nil s =>
    have := SObsRun.step (x := x) a hs (SObsRun.nil s2)
    simpa using this
  | @step s s' s1 evs b hb _ ih =>
    have := SObsRun.step (x := x) b hb (ih hs)
    rw [List.append_assoc]
    exact this

/-- every reachable state of the stream model is the end of an observed run -/
theorem sreachable_obsRun (x : MonCtx) {t : SState} (hr : SReachable x.c true t) :
    ∃ evs, SObsRun x (sinit x.c) evs t := by
  induction hr with
  | init => exact ⟨[], SObsRun.nil _⟩
  | step a _ hs ih =>
    obtain ⟨evs, h⟩ := ih
    exact ⟨_, h.snoc hs⟩

theorem sobsRun_reachable {x : MonCtx} {s s' : SState} {evs : List Ev} (h : SObsRun x s evs s')
    (hr : SReachable x.c true s) : SReachable x.c true s' := by
  induction h with
  | nil s => exact hr
  | step a hs _ ih => exact ih (SReachable.step a hr hs)

end FG
