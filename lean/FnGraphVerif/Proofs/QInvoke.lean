/-
  Proofs/QInvoke.lean — the `invoke` step: C03 (no double start), C01 (no conflicting function in
  flight, built-graph predecessors ended), C02 (user-graph ancestors ended), C07 (nothing ordered
  after a failed function starts, nothing that conflicts with a failed function starts), C10 (limit), C08 (bound on starts after a quiet interrupt,
  pre-signalled bound).
-/
import FnGraphVerif.Proofs.QStep
namespace FG

variable {x : MonCtx} {m : PredSt} {s s1 : PState} {as : List Action}

theorem ReachP.mono_edges {g h : Dag} (hsub : ∀ u v, IsEdge g u v → IsEdge h u v) {u v : Nat}
    (hr : ReachP g u v) : ReachP h u v := by
  induction hr with
  | edge he => exact .edge (hsub _ _ he)
  | tail _ he ih => exact .tail ih (hsub _ _ he)

theorem boundOf_le_intrBound {st : Strat} {incl : Bool} {b : Nat} (hb : boundOf st incl false = some b) :
    (st = .finish ∨ ∃ k, st = .pollN k) ∧ b = intrBound st incl := by
  cases st with
  | non => simp [boundOf] at hb
  | ignore => simp [boundOf] at hb
  | finish =>
    simp only [boundOf, Bool.not_false, Bool.and_true, Option.some.injEq] at hb
    exact ⟨Or.inl rfl, by rw [← hb]; rfl⟩
  | pollN k =>
    cases k with
    | zero =>
      simp only [boundOf, Bool.not_false, Bool.and_true, Option.some.injEq] at hb
      exact ⟨Or.inr ⟨0, rfl⟩, by rw [← hb]; rfl⟩
    | succ k =>
      simp only [boundOf, Option.some.injEq] at hb
      exact ⟨Or.inr ⟨k + 1, rfl⟩, by rw [← hb]; rfl⟩

theorem boundOf_pre {st : Strat} {incl : Bool} {b : Nat} (hb : boundOf st incl true = some b) :
    ((st = .finish ∨ st = .pollN 0) ∧ b = 0) ∨ (∃ k, st = .pollN (k + 1) ∧ b = k + 1) := by
  cases st with
  | non => simp [boundOf] at hb
  | ignore => simp [boundOf] at hb
  | finish =>
    simp only [boundOf, Bool.not_true, Bool.and_false, Bool.false_eq_true, if_false, Option.some.injEq] at hb
    exact Or.inl ⟨Or.inl rfl, hb.symm⟩
  | pollN k =>
    cases k with
    | zero =>
      simp only [boundOf, Bool.not_true, Bool.and_false, Bool.false_eq_true, if_false, Option.some.injEq] at hb
      exact Or.inl ⟨Or.inr rfl, hb.symm⟩
    | succ k =>
      simp only [boundOf, Option.some.injEq] at hb
      exact Or.inr ⟨k, rfl, hb.symm⟩

theorem step_invoke_coup (hx : GoodCtx x) (h : Coup x m s as) {f : Nat}
    (hs : step? x.c s (.invoke f) = some s1) : StepGoal x m s (.invoke f) s1 as := by
  have hr := h.reach
  have hinv := inv0_reachable hx.good hr
  obtain ⟨hf1, hf2, e⟩ := invoke_cases hs
  have hfh : f ∈ s.handedOut := hinv.inflHanded f hf1
  have hev : stepEvents x.c x.control s (.invoke f) s1 = [.invoke f] := rfl
  have e1 : s1.handedOut = s.handedOut := by rw [e]
  have e2 : s1.invoked = s.invoked ++ [f] := by rw [e]
  have e3 : s1.endedOk = s.endedOk := by rw [e]
  have e4 : s1.failed = s.failed := by rw [e]
  unfold StepGoal
  rw [hev, predRun_single]
  have hcoup : Coup x (predFut x m (.invoke f)).1 s1 (as ++ [.invoke f]) := by
    refine h.extend hs (by simp) _ rfl rfl ?_ ?_ ?_ ?_ ?_ ?_
    · rw [predFut_invoke_fst, e1, ← h.ho]
    · rw [predFut_invoke_fst, e2, ← h.inv]
    · rw [predFut_invoke_fst, e3, ← h.eok]
    · rw [predFut_invoke_fst, e4, ← h.fl]
    · intro g; rw [predFut_invoke_fst, e3, e4]; exact h.ended g
    · intro h0; rw [predFut_invoke_fst] at h0; simp at h0
  refine ⟨hcoup, ?_⟩
  have hlen : m.realInflight.length + 1 ≤ s.inflight.length := by
    have hnd : (f :: m.realInflight).Nodup :=
      List.nodup_cons.mpr ⟨fun hm => hf2 ((h.mem_realInflight hx).mp hm).2, h.realInflight_nodup hx⟩
    have hsub : (f :: m.realInflight) ⊆ s.inflight := by
      intro g hg
      rcases List.mem_cons.mp hg with rfl | hg
      · exact hf1
      · exact ((h.mem_realInflight hx).mp hg).1
    simpa using List.Nodup.length_le_of_subset hnd hsub
  apply predFut_invoke_ok
  · rw [h.inv]; exact hf2
  · unfold conflictInflightB
    rw [List.any_eq_false]
    intro u hu
    have hu' := (h.mem_realInflight hx).mp hu
    by_cases hne : u = f
    · subst hne; simp
    · have := no_conflict_inflight hx.good hr x.decls hx.ordered hu'.1 hf1 hne
      simp [this]
  · intro u hu
    rw [h.eok]
    exact handout_after_ancestors hx.good hr (Or.inr (Or.inl hfh))
      ((reachPlus_sound hu).mono_edges hx.userSub)
  · intro p hp
    rw [h.eok]
    exact handout_after_ancestors hx.good hr (Or.inr (Or.inl hfh)) (.edge (mem_parents.mp hp))
  · intro y hy
    rw [h.fl] at hy
    cases hrp : reachPlus x.c.D y f with
    | false => rfl
    | true => exact absurd hfh (no_successor_of_failed hx.good hr hy (reachPlus_sound hrp)).1
  · -- C07 on the declarations: a conflicting pair is ordered one way or the other (`GoodCtx.ordered`)
    intro y hy
    rw [h.fl] at hy
    by_cases hyf : y = f
    · exact Or.inl hyf
    · right
      cases hcf : conflict (declOf x.decls y) (declOf x.decls f) with
      | false => rfl
      | true =>
        exfalso
        have hyh : y ∈ s.handedOut := hinv.endedHanded y (Or.inr hy)
        have hyn : y < x.c.n := hinv.handed_lt hyh
        have hfn : f < x.c.n := hinv.handed_lt hfh
        rcases hx.ordered y f hyn hfn hyf hcf with hyf' | hfy
        · -- `f` is ordered after the failed `y`: it is never handed out
          exact (no_successor_of_failed hx.good hr hy hyf').1 hfh
        · -- `y` is ordered after `f`: `y` was handed out only after `f` ended, so `f` was invoked
          have hfe : f ∈ s.endedOk := handout_after_ancestors hx.good hr (Or.inr (Or.inl hyh)) hfy
          exact hf2 (hinv.endedInvoked f (Or.inl hfe))
  · intro hseq
    have := hinv.limSeq hseq
    omega
  · intro hseq l hl
    have := hinv.limPar hseq l hl
    omega
  · intro k b hk hb
    obtain ⟨pre, rest, s0, d1, d2, d3, d4, d5, d6⟩ := h.intrSome k hk
    have hrun' : run x.c (init x.c) (pre ++ .interrupt :: (rest ++ [.invoke f])) = some s1 := by
      have := hcoup.hrun
      rw [d1] at this
      simpa using this
    have hrun2 : run x.c s0 (.interrupt :: (rest ++ [.invoke f])) = some s1 := by
      rw [← run_append_G d3]; exact hrun'
    have hg := growth_split d2 d3 hrun2
    rw [invokedGrowth_eq] at hg
    have hlen1 : s1.invoked.length = m.realInvoked.length + 1 := by rw [e2, h.inv]; simp
    have hbound : (x.c.strat = .finish ∨ ∃ k, x.c.strat = .pollN k) →
        m.realInvoked.length + 1 - k ≤ intrBound x.c.strat x.c.incl := by
      intro hst
      have := invokes_after_interrupt_le_of_quiet x.c hst pre (rest ++ [.invoke f]) s0 d2 d3 d4
      omega
    cases hp : m.intrPre with
    | false =>
      rw [hp] at hb
      obtain ⟨hst, hbb⟩ := boundOf_le_intrBound hb
      rw [hbb]
      exact hbound hst
    | true =>
      rw [hp] at hb
      rcases boundOf_pre hb with ⟨hst, hb0⟩ | ⟨j, hst, hbj⟩
      · exfalso
        have hf1' : f ∈ s1.handedOut := by rw [e1]; exact hfh
        rcases d6 hp with h0 | h0
        · subst h0
          have := (presignalled_bound x.c (rest ++ [.invoke f]) (by simpa using hrun')).1 hst
          rw [this] at hf1'
          cases hf1'
        · have := hinv.handed_lt hfh
          omega
      · have := hbound (Or.inr ⟨j + 1, hst⟩)
        rw [hst] at this
        simp only [intrBound] at this
        omega

end FG
