/-
  Proofs/ProtoFFinish.lean — `Inv0` is preserved by `finish f ok` (success, collected error,
  short-circuiting error).
-/
import FnGraphVerif.Proofs.ProtoFBase
namespace FG
variable {c : Cfg} {s s' : PState}

/-- the three shapes of a `finish` step -/
theorem step_finish {f : Nat} {ok : Bool} (h : step? c s (.finish f ok) = some s') :
    f ∈ s.inflight ∧ f ∈ s.invoked ∧
    ((ok = true ∧ ∃ dq, (dq = s.doneQ ∨ dq = s.doneQ ++ [f]) ∧
        s' = { s with inflight := s.inflight.erase f, endedOk := s.endedOk ++ [f], doneQ := dq,
                      sRemaining := s.sRemaining - 1,
                      doneTxOpen := s.doneTxOpen && s.sRemaining - 1 != 0 && s.closeAfter != some f,
                      panic := s.panic || s.sRemaining == 0 ||
                        (s.doneTxOpen && decide (c.cap ≤ s.doneQ.length)) }) ∨
     (ok = false ∧ c.errMode = .collect ∧
        s' = { s with inflight := s.inflight.erase f, failed := s.failed ++ [f],
                      errors := s.errors ++ [f], doneTxOpen := false, sRemaining := s.sRemaining - 1,
                      panic := s.panic || s.sRemaining == 0 || decide (c.cap ≤ s.errors.length) }) ∨
     (ok = false ∧ c.errMode = .shortCircuit ∧
        s' = { s with inflight := s.inflight.erase f, failed := s.failed ++ [f], shortErr := some f,
                      doneTxOpen := false, readyRxOpen := false, sDone := true })) := by
  simp only [step?] at h
  split at h
  · cases h
  · rename_i hg
    simp only [not_not] at hg
    refine ⟨hg.1, hg.2, ?_⟩
    cases ok with
    | true =>
      simp only [if_true, decr] at h
      cases h
      refine Or.inl ⟨rfl, _, ?_, rfl⟩
      split
      · exact Or.inr rfl
      · exact Or.inl rfl
    | false =>
      simp only [Bool.false_eq_true, if_false] at h
      cases hm : c.errMode with
      | none => simp [hm] at h
      | collect =>
        simp only [hm, decr] at h; cases h
        exact Or.inr (Or.inl ⟨rfl, rfl, rfl⟩)
      | shortCircuit =>
        simp only [hm] at h; cases h
        exact Or.inr (Or.inr ⟨rfl, rfl, rfl⟩)

/-! ### facts about `erase` on the in-flight list -/

theorem Inv0.erase_mem (h : Inv0 c s) {f g : Nat} (hg : g ∈ s.inflight.erase f) : g ∈ s.inflight ∧ g ≠ f :=
  ⟨List.mem_of_mem_erase hg, fun e => ((List.Nodup.mem_erase_iff h.inflNodup).mp hg).1 e⟩

theorem Inv0.mem_erase (h : Inv0 c s) {f g : Nat} (hg : g ∈ s.inflight) (hne : g ≠ f) : g ∈ s.inflight.erase f :=
  (List.Nodup.mem_erase_iff h.inflNodup).mpr ⟨hne, hg⟩

theorem erase_len_le (l : List Nat) (f : Nat) : (l.erase f).length ≤ l.length := List.length_erase_le

/-- after the scheduler finished without a short-circuit nothing is in flight: `finish` is disabled -/
theorem Inv0.ret0_finish (h : Inv0 c s) {f : Nat} (hf : f ∈ s.inflight) (r : Ret) (hr : s.result = some r) :
    s.sDone = true ∧ s.qDone = true ∧ s.shortErr ≠ none ∧ (∀ fin p np e, r ≠ .outcome fin p np e) := by
  obtain ⟨h1, h2, _, h4⟩ := h.ret0 r hr
  have hne : s.shortErr ≠ none := by
    intro hn
    have := h.sDoneInfl0 h1 hn
    rw [this] at hf; cases hf
  exact ⟨h1, h2, hne, fun fin p np e he => hne (h4 fin p np e he)⟩

theorem inv0_finish_ok (hinv : Inv0 c s) {f : Nat} (hf : f ∈ s.inflight) (hfi : f ∈ s.invoked)
    {dq : List Nat} (hdq : dq = s.doneQ ∨ dq = s.doneQ ++ [f]) :
    Inv0 c { s with inflight := s.inflight.erase f, endedOk := s.endedOk ++ [f], doneQ := dq,
                    sRemaining := s.sRemaining - 1,
                    doneTxOpen := s.doneTxOpen && s.sRemaining - 1 != 0 && s.closeAfter != some f,
                    panic := s.panic || s.sRemaining == 0 ||
                      (s.doneTxOpen && decide (c.cap ≤ s.doneQ.length)) } := by
  have hne := hinv.inflNotEnded f hf
  have hnd := hinv.infl_not_done hf
  have hpos := hinv.sRem_pos hf
  have hroom := hinv.done_room hf
  have hcap := cap_ge c
  exact { hinv with
    relNodup := by
      show (s.released ++ dq).Nodup
      rcases hdq with rfl | rfl
      · exact hinv.relNodup
      · rw [← List.append_assoc]; exact nodup_snoc_F.mpr ⟨hinv.relNodup, hnd⟩
    doneEnded := by
      intro x hx
      show x ∈ s.endedOk ++ [f]
      have hx' : x ∈ s.released ∨ x ∈ dq := hx
      simp only [List.mem_append, List.mem_singleton]
      rcases hx' with hx' | hx'
      · exact Or.inl (hinv.doneEnded x (Or.inl hx'))
      · rcases hdq with rfl | rfl
        · exact Or.inl (hinv.doneEnded x (Or.inr hx'))
        · simp only [List.mem_append, List.mem_singleton] at hx'
          rcases hx' with hx' | hx'
          · exact Or.inl (hinv.doneEnded x (Or.inr hx'))
          · exact Or.inr hx'
    inflHanded := fun g hg => hinv.inflHanded g (hinv.erase_mem hg).1
    inflNodup := hinv.inflNodup.erase f
    endNodup := by
      show (s.endedOk ++ [f] ++ s.failed).Nodup
      have e : s.endedOk ++ [f] ++ s.failed = s.endedOk ++ f :: s.failed := by simp
      rw [e, List.Perm.nodup_iff List.perm_middle, List.nodup_cons]
      exact ⟨by simp only [List.mem_append]; exact fun h => h.elim hne.1 hne.2, hinv.endNodup⟩
    inflNotEnded := by
      intro g hg
      obtain ⟨hgi, hgf⟩ := hinv.erase_mem hg
      have := hinv.inflNotEnded g hgi
      refine ⟨?_, this.2⟩
      show g ∉ s.endedOk ++ [f]
      simp only [List.mem_append, List.mem_singleton]
      exact fun h => h.elim this.1 hgf
    endedHanded := by
      intro g hg
      have hg' : g ∈ s.endedOk ++ [f] ∨ g ∈ s.failed := hg
      simp only [List.mem_append, List.mem_singleton] at hg'
      rcases hg' with (h | rfl) | h
      · exact hinv.endedHanded g (Or.inl h)
      · exact hinv.inflHanded g hf
      · exact hinv.endedHanded g (Or.inr h)
    handedSplit := by
      intro g hg
      show g ∈ s.inflight.erase f ∨ g ∈ s.endedOk ++ [f] ∨ g ∈ s.failed
      simp only [List.mem_append, List.mem_singleton]
      by_cases hgf : g = f
      · exact Or.inr (Or.inl (Or.inr hgf))
      · rcases hinv.handedSplit g hg with h | h | h
        · exact Or.inl (hinv.mem_erase h hgf)
        · exact Or.inr (Or.inl (Or.inl h))
        · exact Or.inr (Or.inr h)
    endedInvoked := by
      intro g hg
      have hg' : g ∈ s.endedOk ++ [f] ∨ g ∈ s.failed := hg
      simp only [List.mem_append, List.mem_singleton] at hg'
      rcases hg' with (h | rfl) | h
      · exact hinv.endedInvoked g (Or.inl h)
      · exact hfi
      · exact hinv.endedInvoked g (Or.inr h)
    noPanic := by
      show (s.panic || s.sRemaining == 0 || (s.doneTxOpen && decide (c.cap ≤ s.doneQ.length))) = false
      have h1 : (s.sRemaining == 0) = false := by rw [beq_eq_false_iff_ne]; omega
      have h2 : decide (c.cap ≤ s.doneQ.length) = false := by
        rw [decide_eq_false_iff_not]; omega
      simp [hinv.noPanic, h1, h2]
    sRem := by
      have := hinv.sRem
      show s.sRemaining - 1 + (s.endedOk ++ [f]).length + _ = c.n
      simp only [List.length_append, List.length_singleton]
      omega
    limSeq := fun hs => Nat.le_trans (erase_len_le _ _) (hinv.limSeq hs)
    limPar := fun hs l hl => Nat.le_trans (erase_len_le _ _) (hinv.limPar hs l hl)
    sDoneInfl0 := by
      intro h1 h2
      have := hinv.sDoneInfl0 h1 h2
      rw [this] at hf; cases hf
    ret0 := by
      intro r hr
      obtain ⟨h1, h2, h3, h4⟩ := hinv.ret0_finish hf r hr
      exact ⟨h1, h2, fun hn => absurd hn h3, fun fin p np e he => absurd he (h4 fin p np e)⟩ }

theorem inv0_finish_collect (hinv : Inv0 c s) {f : Nat} (hf : f ∈ s.inflight) (hfi : f ∈ s.invoked)
    (hm : c.errMode = .collect) :
    Inv0 c { s with inflight := s.inflight.erase f, failed := s.failed ++ [f],
                    errors := s.errors ++ [f], doneTxOpen := false, sRemaining := s.sRemaining - 1,
                    panic := s.panic || s.sRemaining == 0 || decide (c.cap ≤ s.errors.length) } := by
  have hne := hinv.inflNotEnded f hf
  have hpos := hinv.sRem_pos hf
  have hroom := hinv.ended_room hf
  have hcap := cap_ge c
  have herr : s.errors = s.failed := by have := hinv.errs; rwa [if_pos hm] at this
  exact { hinv with
    inflHanded := fun g hg => hinv.inflHanded g (hinv.erase_mem hg).1
    inflNodup := hinv.inflNodup.erase f
    endNodup := by
      show (s.endedOk ++ (s.failed ++ [f])).Nodup
      rw [← List.append_assoc]
      exact nodup_snoc_F.mpr ⟨hinv.endNodup, by
        simp only [List.mem_append]; exact fun h => h.elim hne.1 hne.2⟩
    inflNotEnded := by
      intro g hg
      obtain ⟨hgi, hgf⟩ := hinv.erase_mem hg
      have := hinv.inflNotEnded g hgi
      refine ⟨this.1, ?_⟩
      show g ∉ s.failed ++ [f]
      simp only [List.mem_append, List.mem_singleton]
      exact fun h => h.elim this.2 hgf
    endedHanded := by
      intro g hg
      have hg' : g ∈ s.endedOk ∨ g ∈ s.failed ++ [f] := hg
      simp only [List.mem_append, List.mem_singleton] at hg'
      rcases hg' with h | h | rfl
      · exact hinv.endedHanded g (Or.inl h)
      · exact hinv.endedHanded g (Or.inr h)
      · exact hinv.inflHanded g hf
    handedSplit := by
      intro g hg
      show g ∈ s.inflight.erase f ∨ g ∈ s.endedOk ∨ g ∈ s.failed ++ [f]
      simp only [List.mem_append, List.mem_singleton]
      by_cases hgf : g = f
      · exact Or.inr (Or.inr (Or.inr hgf))
      · rcases hinv.handedSplit g hg with h | h | h
        · exact Or.inl (hinv.mem_erase h hgf)
        · exact Or.inr (Or.inl h)
        · exact Or.inr (Or.inr (Or.inl h))
    endedInvoked := by
      intro g hg
      have hg' : g ∈ s.endedOk ∨ g ∈ s.failed ++ [f] := hg
      simp only [List.mem_append, List.mem_singleton] at hg'
      rcases hg' with h | h | rfl
      · exact hinv.endedInvoked g (Or.inl h)
      · exact hinv.endedInvoked g (Or.inr h)
      · exact hfi
    noPanic := by
      show (s.panic || s.sRemaining == 0 || decide (c.cap ≤ s.errors.length)) = false
      have h1 : (s.sRemaining == 0) = false := by rw [beq_eq_false_iff_ne]; omega
      have h2 : decide (c.cap ≤ s.errors.length) = false := by
        rw [decide_eq_false_iff_not, herr]; omega
      simp [hinv.noPanic, h1, h2]
    sRem := by
      have := hinv.sRem
      rw [if_pos hm] at this
      show s.sRemaining - 1 + s.endedOk.length + (if c.errMode = .collect then (s.failed ++ [f]).length else 0) = c.n
      rw [if_pos hm]
      simp only [List.length_append, List.length_singleton]
      omega
    errs := by
      show s.errors ++ [f] = if c.errMode = .collect then s.failed ++ [f] else []
      rw [if_pos hm, herr]
    failedMode := fun h => by rw [hm] at h; cases h
    short0 := fun h => by rw [hm] at h; cases h
    limSeq := fun hs => Nat.le_trans (erase_len_le _ _) (hinv.limSeq hs)
    limPar := fun hs l hl => Nat.le_trans (erase_len_le _ _) (hinv.limPar hs l hl)
    sDoneInfl0 := by
      intro h1 h2
      have := hinv.sDoneInfl0 h1 h2
      rw [this] at hf; cases hf
    ret0 := by
      intro r hr
      obtain ⟨h1, h2, h3, h4⟩ := hinv.ret0_finish hf r hr
      exact ⟨h1, h2, fun hn => absurd hn h3, fun fin p np e he => absurd he (h4 fin p np e)⟩ }

theorem inv0_finish_short (hinv : Inv0 c s) {f : Nat} (hf : f ∈ s.inflight) (hfi : f ∈ s.invoked)
    (hm : c.errMode = .shortCircuit) :
    Inv0 c { s with inflight := s.inflight.erase f, failed := s.failed ++ [f], shortErr := some f,
                    doneTxOpen := false, readyRxOpen := false, sDone := true } := by
  have hne := hinv.inflNotEnded f hf
  have hnc : ¬ c.errMode = .collect := by rw [hm]; intro h; cases h
  exact { hinv with
    inflHanded := fun g hg => hinv.inflHanded g (hinv.erase_mem hg).1
    inflNodup := hinv.inflNodup.erase f
    endNodup := by
      show (s.endedOk ++ (s.failed ++ [f])).Nodup
      rw [← List.append_assoc]
      exact nodup_snoc_F.mpr ⟨hinv.endNodup, by
        simp only [List.mem_append]; exact fun h => h.elim hne.1 hne.2⟩
    inflNotEnded := by
      intro g hg
      obtain ⟨hgi, hgf⟩ := hinv.erase_mem hg
      have := hinv.inflNotEnded g hgi
      refine ⟨this.1, ?_⟩
      show g ∉ s.failed ++ [f]
      simp only [List.mem_append, List.mem_singleton]
      exact fun h => h.elim this.2 hgf
    endedHanded := by
      intro g hg
      have hg' : g ∈ s.endedOk ∨ g ∈ s.failed ++ [f] := hg
      simp only [List.mem_append, List.mem_singleton] at hg'
      rcases hg' with h | h | rfl
      · exact hinv.endedHanded g (Or.inl h)
      · exact hinv.endedHanded g (Or.inr h)
      · exact hinv.inflHanded g hf
    handedSplit := by
      intro g hg
      show g ∈ s.inflight.erase f ∨ g ∈ s.endedOk ∨ g ∈ s.failed ++ [f]
      simp only [List.mem_append, List.mem_singleton]
      by_cases hgf : g = f
      · exact Or.inr (Or.inr (Or.inr hgf))
      · rcases hinv.handedSplit g hg with h | h | h
        · exact Or.inl (hinv.mem_erase h hgf)
        · exact Or.inr (Or.inl h)
        · exact Or.inr (Or.inr (Or.inl h))
    endedInvoked := by
      intro g hg
      have hg' : g ∈ s.endedOk ∨ g ∈ s.failed ++ [f] := hg
      simp only [List.mem_append, List.mem_singleton] at hg'
      rcases hg' with h | h | rfl
      · exact hinv.endedInvoked g (Or.inl h)
      · exact hinv.endedInvoked g (Or.inr h)
      · exact hfi
    sRem := by
      have := hinv.sRem
      rw [if_neg hnc] at this
      show s.sRemaining + s.endedOk.length + (if c.errMode = .collect then (s.failed ++ [f]).length else 0) = c.n
      rw [if_neg hnc]; exact this
    errs := by
      have := hinv.errs
      rw [if_neg hnc] at this
      show s.errors = if c.errMode = .collect then s.failed ++ [f] else []
      rw [if_neg hnc]; exact this
    failedMode := fun h => by rw [hm] at h; cases h
    short0 := fun _ h => by cases h
    shortOnly := fun _ => hm
    shortDone := fun _ => rfl
    limSeq := fun hs => Nat.le_trans (erase_len_le _ _) (hinv.limSeq hs)
    limPar := fun hs l hl => Nat.le_trans (erase_len_le _ _) (hinv.limPar hs l hl)
    sDoneInfl0 := fun _ h => by cases h
    ret0 := by
      intro r hr
      obtain ⟨h1, h2, h3, h4⟩ := hinv.ret0_finish hf r hr
      exact ⟨rfl, h2, fun hn => (by cases hn), fun fin p np e he => absurd he (h4 fin p np e)⟩ }

theorem inv0_finish (hinv : Inv0 c s) {f : Nat} {ok : Bool} (h : step? c s (.finish f ok) = some s') :
    Inv0 c s' := by
  obtain ⟨hf, hfi, h | h | h⟩ := step_finish h
  · obtain ⟨_, dq, hdq, rfl⟩ := h
    exact inv0_finish_ok hinv hf hfi hdq
  · obtain ⟨_, hm, rfl⟩ := h
    exact inv0_finish_collect hinv hf hfi hm
  · obtain ⟨_, hm, rfl⟩ := h
    exact inv0_finish_short hinv hf hfi hm

end FG
