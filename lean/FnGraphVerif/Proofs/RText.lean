/-
  Proofs/RText.lean — the text rendering of poll observations is injective, so an accepted
  `S-poll` comparison (equal strings) means the model's poll answer IS the observed one.
-/
import FnGraphVerif.Proofs.TraceDefs
import Std.Data.String.ToNat
namespace FG

/-- the characters of `PollObs.text` -/
def PollObs.chars : PollObs → List Char
  | .some f => ['s', 'o', 'm', 'e', ' '] ++ (Nat.repr f).toList
  | .isome f => ['i', 's', 'o', 'm', 'e', ' '] ++ (Nat.repr f).toList
  | .inone => ['i', 'n', 'o', 'n', 'e']
  | .none => ['n', 'o', 'n', 'e']
  | .pending w => ['p', 'e', 'n', 'd', 'i', 'n', 'g', ' ', 'w', 'o', 'k', 'e', 'n', '='] ++ (if w then ['1'] else ['0'])
  | .panic => ['p', 'a', 'n', 'i', 'c']

theorem PollObs.text_some (f : Nat) : (PollObs.some f).text = "some " ++ Nat.repr f := rfl
theorem PollObs.text_isome (f : Nat) : (PollObs.isome f).text = "isome " ++ Nat.repr f := rfl

theorem PollObs.text_toList (r : PollObs) : r.text.toList = r.chars := by
  cases r with
  | some f =>
    have e : ("some " : String).toList = ['s', 'o', 'm', 'e', ' '] := by decide
    rw [PollObs.text_some, String.toList_append, e]; rfl
  | isome f =>
    have e : ("isome " : String).toList = ['i', 's', 'o', 'm', 'e', ' '] := by decide
    rw [PollObs.text_isome, String.toList_append, e]; rfl
  | inone => decide
  | none => decide
  | pending w => cases w <;> decide
  | panic => decide

theorem natRepr_toList_inj {a b : Nat} (h : (Nat.repr a).toList = (Nat.repr b).toList) : a = b :=
  Nat.repr_injective (String.toList_inj.mp h)

theorem PollObs.chars_injective {a b : PollObs} (h : a.chars = b.chars) : a = b := by
  cases a <;> cases b <;> simp only [PollObs.chars] at h
  all_goals first
    | rfl
    | (have h' := List.append_cancel_left h; rw [natRepr_toList_inj h'])
    | (exfalso; revert h; simp; done)
    | skip
  rename_i w1 w2
  cases w1 <;> cases w2 <;> first | rfl | (exfalso; revert h; simp)

theorem PollObs.text_injective {a b : PollObs} (h : a.text = b.text) : a = b :=
  PollObs.chars_injective (by rw [← PollObs.text_toList, ← PollObs.text_toList, h])


theorem PollObs.text_ne_q (r : PollObs) : "?" ≠ r.text := by
  intro h
  have h' : ("?" : String).toList = r.chars := by rw [← PollObs.text_toList, h]
  have e : ("?" : String).toList = ['?'] := by decide
  rw [e] at h'
  cases r <;> simp [PollObs.chars] at h'

/-- an accepted `S-poll` comparison: the model's answer is the observed one -/
theorem pollObsOf_of_text {out : Out} {fo : Option Nat} {w : Bool} {r : PollObs}
    (h : pollText out fo w = r.text) : pollObsOf out fo w = r := by
  cases out <;> cases fo <;> simp only [pollText, pollObsOf] at h ⊢ <;>
    first
      | exact PollObs.text_injective h
      | exact absurd h (PollObs.text_ne_q r)

end FG
