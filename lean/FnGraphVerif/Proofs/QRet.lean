/-
  Proofs/QRet.lean — the `q` observation (C04 deadlock, C03/C07/C08/C10 "never returns", C06 maximal
  progress, C10 work conservation below the limit) and the `ret` step (C04 nothing in flight at return, C07 errors / first error, C09
  outcome, C08 started-all-reported / noop, C03 clean-all).
-/
import FnGraphVerif.Proofs.QStep
import FnGraphVerif.Proofs.UIdle
namespace FG

variable {x : MonCtx} {m : PredSt} {s s1 : PState} {as : List Action}

/-! ### `q` -/

theorem q_coup (hx : GoodCtx x) (h : Coup x m s as) (hq : Quiescent x.c s) (hres : s.result = none) :
    Coup x (predFut x m .q).1 s as ∧ ∀ n ∈ (predFut x m .q).2, n.ok = true := by
  have hr := h.reach
  have hinv := inv0_reachable hx.good hr
  refine ⟨?_, ?_⟩
  · rw [predFut_q_fst]
    exact ⟨h.hrun, h.ho, h.inv, h.eok, h.fl, h.ended, h.intrNone, h.intrSome, fun h0 => by simp at h0⟩
  · apply predFut_q_ok
    · cases hi : s.inflight with
      | nil =>
        have := deadlock_free hx.good hr hq hi
        rw [hres] at this
        cases this
      | cons f l =>
        have hf : f ∈ s.inflight := by rw [hi]; simp
        have hfi := quiescent_invoke_quiet hq hres f hf
        have := (h.mem_realInflight hx).mpr ⟨hf, hfi⟩
        intro hn
        rw [hn] at this
        cases this
    · intro hi hf hseq hlim
      have hpre := run_preI (h.intrNone hi) (preI_init x.c) h.hrun
      rw [h.fl] at hf
      unfold allBlockedB
      rw [List.all_eq_true]
      intro v hv
      rw [List.mem_range] at hv
      simp only [Bool.or_eq_true, decide_eq_true_eq, List.any_eq_true]
      by_cases hall : ∀ p ∈ parents x.c.D v, p ∈ s.endedOk
      · left
        rw [h.inv]
        exact (maximal_progress hx.good hr hq hseq hlim ⟨hpre.1, hpre.2.1⟩ hf hv hall).2
      · right
        simp only [not_forall] at hall
        obtain ⟨p, hp, hpe⟩ := hall
        exact ⟨p, hp, by rw [h.eok]; exact hpe⟩
    · -- C10: a limit is work-conserving (`idle_below_limit_all_started`)
      intro hi hf hseq l hlim hlt
      have hpre := run_preI (h.intrNone hi) (preI_init x.c) h.hrun
      rw [h.fl] at hf
      -- at a quiescent point the observed in-flight functions are the model's
      have hlen : s.inflight.length ≤ m.realInflight.length := by
        apply List.Nodup.length_le_of_subset hinv.inflNodup
        intro f hf'
        exact (h.mem_realInflight hx).mpr ⟨hf', quiescent_invoke_quiet hq hres f hf'⟩
      unfold allBlockedB
      rw [List.all_eq_true]
      intro v hv
      rw [List.mem_range] at hv
      simp only [Bool.or_eq_true, decide_eq_true_eq, List.any_eq_true]
      by_cases hall : ∀ p ∈ parents x.c.D v, p ∈ s.endedOk
      · left
        rw [h.inv]
        exact (idle_below_limit_all_started hx.good hr hq hseq hlim (by omega) ⟨hpre.1, hpre.2.1⟩ hf
          hv hall).2
      · right
        simp only [not_forall] at hall
        obtain ⟨p, hp, hpe⟩ := hall
        exact ⟨p, hp, by rw [h.eok]; exact hpe⟩

/-! ### list helpers -/

theorem eq_of_append_prefix {a b i j : List Nat} (hp : (a ++ i) <+: (b ++ j)) (hl : a.length = b.length) :
    a = b := by
  obtain ⟨t, ht⟩ := hp
  rw [List.append_assoc] at ht
  exact (List.append_inj ht hl).1

theorem isPermOfRange_of_perm {l : List Nat} {n : Nat} (h : l.Perm (List.range n)) :
    isPermOfRange l n = true := by
  unfold isPermOfRange
  simp only [Bool.and_eq_true, beq_iff_eq, List.all_eq_true, decide_eq_true_eq]
  refine ⟨by simpa using h.length_eq, ?_⟩
  intro v hv
  exact h.mem_iff.mpr hv

theorem flow_ok' (control fnd e : Bool) :
    ((if control then (if (!e || !fnd) then "break" else "cont") else "na") == "na"
      || (((if control then (if (!e || !fnd) then "break" else "cont") else "na") == "cont")
          == (fnd && e))) = true := by
  cases control <;> cases fnd <;> cases e <;> decide

theorem flow_ok (control fnd : Bool) (p np errs : List Nat) :
    ((if control then (if (Ret.outcome fnd p np errs).isBreak then "break" else "cont") else "na") == "na"
      || (((if control then (if (Ret.outcome fnd p np errs).isBreak then "break" else "cont") else "na") == "cont")
          == (fnd && errs.isEmpty))) = true :=
  flow_ok' control fnd errs.isEmpty

/-- when nothing is in flight the started functions are exactly the handed-out ones -/
theorem invoked_perm_handedOut {c : Cfg} (hinv : Inv0 c s) (hi : s.inflight = []) :
    s.invoked.Perm s.handedOut := by
  rw [List.perm_ext_iff_of_nodup hinv.invNodup hinv.handedOut_nodup]
  intro f
  constructor
  · exact hinv.invHanded f
  · intro hf
    rcases hinv.handedSplit f hf with h1 | h1
    · rw [hi] at h1; cases h1
    · exact hinv.endedInvoked f h1

/-! ### `ret` -/

theorem step_ret_coup (hx : GoodCtx x) (h : Coup x m s as) (hs : step? x.c s .ret = some s1)
    (tail : List Ev) :
    Coup x (predRun x m (stepEvents x.c x.control s .ret s1)).1 s1 (as ++ [.ret]) ∧
    ∀ n ∈ (predRun x m (stepEvents x.c x.control s .ret s1)).2,
      n.Good (FifoH m (stepEvents x.c x.control s .ret s1 ++ tail)) := by
  have hr := h.reach
  have hinv0 := inv0_reachable hx.good hr
  have hinv := inv_reachable hx.good hx.api hr
  have hr1 : Reachable x.c s1 := Reachable.step .ret hr hs
  obtain ⟨hsd, hqd, hres, e⟩ := ret_cases hs
  have hinfl : s.inflight = [] := hinv.sDoneInfl hsd
  have e1 : s1.handedOut = s.handedOut := by rw [e]
  have e2 : s1.invoked = s.invoked := by rw [e]
  have e3 : s1.endedOk = s.endedOk := by rw [e]
  have e4 : s1.failed = s.failed := by rw [e]
  have e5 : s1.result = some (mkRet x.c s) := by rw [e]
  have hri : m.realInflight = [] := h.realInflight_nil hx hinfl
  -- the coupling after any single return event
  have hcoup : ∀ m' : PredSt, m' = { m with nEv := m.nEv + 1 } → Coup x m' s1 (as ++ [.ret]) := by
    intro m' hm'
    subst hm'
    refine h.extend hs (by simp) _ rfl rfl ?_ ?_ ?_ ?_ ?_ ?_
    · rw [e1]; exact h.ho
    · rw [e2]; exact h.inv
    · rw [e3]; exact h.eok
    · rw [e4]; exact h.fl
    · intro g; rw [e3, e4]; exact h.ended g
    · intro h0; simp at h0
  cases hse : s.shortErr with
  | some f =>
    have hmk : mkRet x.c s = .err f := by unfold mkRet; rw [hse]
    have hev : stepEvents x.c x.control s .ret s1 = [.retErr f] := by
      simp only [stepEvents, e5, hmk]
    rw [hev, predRun_single]
    refine ⟨hcoup _ (predFut_retErr_fst x m f), ?_⟩
    intro n hn
    apply Note.good_of_ok
    obtain ⟨hmode, hfl, _, _, _⟩ := shortCircuit_first_error hx.good hx.api hr hse
    refine predFut_retErr_ok x m f hri (by rw [h.fl]; exact hfl) ?_ n hn
    rw [h.inv]
    exact (seqLast_reachable hx.good (hx.api hmode) hr).short f hse
  | none =>
    have hmk : mkRet x.c s = .outcome (s.sRemaining == 0) s.handedOut
        ((List.range x.c.n).filter (fun v => decide (v ∉ s.handedOut))) s.errors := by
      unfold mkRet; rw [hse]
    have hres1 : s1.result = some (.outcome (s.sRemaining == 0) s.handedOut
        ((List.range x.c.n).filter (fun v => decide (v ∉ s.handedOut))) s.errors) := by rw [e5, hmk]
    have hev : stepEvents x.c x.control s .ret s1 =
        [.retOutcome (s.sRemaining == 0) s.handedOut
          ((List.range x.c.n).filter (fun v => decide (v ∉ s.handedOut))) s.errors
          (if x.control then (if (Ret.outcome (s.sRemaining == 0) s.handedOut
            ((List.range x.c.n).filter (fun v => decide (v ∉ s.handedOut))) s.errors).isBreak
              then "break" else "cont") else "na")] := by
      simp only [stepEvents, hres1]
    rw [hev, predRun_single]
    refine ⟨hcoup _ (predFut_retOutcome_fst x m _ _ _ _ _), ?_⟩
    have hperm := invoked_perm_handedOut hinv0 hinfl
    obtain ⟨_, _, _, hfin, _⟩ := outcome_exact_strong hx.good hr1 hres1
    rw [e1] at hfin
    have hallperm : s.handedOut.Perm (List.range x.c.n) → isPermOfRange m.realInvoked x.c.n = true := by
      intro hp
      rw [h.inv]
      exact isPermOfRange_of_perm (hperm.trans hp)
    apply predFut_retOutcome_good
    · exact hri
    · intro hf
      unfold FifoH at hf
      rw [h.inv, h.ho] at hf
      rw [h.inv]
      exact (eq_of_append_prefix hf hperm.length_eq).symm
    · rfl
    · rw [Bool.eq_iff_iff, hfin, beq_iff_eq]
      constructor
      · intro hp; simpa using hp.length_eq
      · intro hl
        have hsub : s.handedOut ⊆ List.range x.c.n := fun v hv => List.mem_range.mpr (hinv0.handed_lt hv)
        exact (List.Nodup.subperm hinv0.handedOut_nodup hsub).perm_of_length_le
          (by simp only [List.length_range]; omega)
    · exact flow_ok _ _ _ _ _
    · rw [h.fl, hinv0.errs]
      split
      · rfl
      · rename_i hm
        cases hmode : x.c.errMode with
        | none => exact (hinv0.failedMode hmode).symm
        | collect => exact absurd hmode hm
        | shortCircuit => exact (hinv0.short0 hmode hse).symm
    · intro f hf
      rw [h.inv] at hf
      exact hinv0.invHanded f hf
    · intro hi hf
      have hpre := run_preI (h.intrNone hi) (preI_init x.c) h.hrun
      have hrecv : s1.im.recv = false := by rw [e]; exact hpre.2.1
      have := clean_return_all hx.good hr1 hres1 hrecv (by rw [e4, ← h.fl]; exact hf)
      rw [e1] at this
      exact hallperm this
    · intro hst hf
      have hrun1 : run x.c (init x.c) (as ++ [.ret]) = some s1 := run_snoc_Q h.hrun hs
      have hiso := (interrupt_only_removes x.c hst (as ++ [.ret])).1
      rw [hrun1] at hiso
      cases ht : run x.c (init x.c) ((as ++ [Action.ret]).filter (· ≠ Action.interrupt)) with
      | none => rw [ht] at hiso; cases hiso
      | some t =>
        obtain ⟨_, _, _, _, _, _, _, _, _, _, f11, _, _, _, f15, _, _, _, _, _, _, f22, _⟩ :=
          interrupt_only_removes_fields x.c hst (as ++ [.ret]) hrun1 ht
        have hrt : Reachable x.c t := reachable_of_run Reachable.init _ ht
        have hpre : PreI t.im := by
          refine run_preI ?_ (preI_init x.c) ht
          intro a ha
          have := (List.mem_filter.mp ha).2
          simpa using this
        have := clean_return_all hx.good hrt (by rw [← f22]; exact hres1) hpre.2.1
          (by rw [← f15, e4, ← h.fl]; exact hf)
        rw [← f11, e1] at this
        exact hallperm this

end FG
