/-
  Proofs/LDiamondBase.lean — the ingredients of the local diamond lemmas: joinability, what the
  queuer's fold does to the ready queue in closed form (there is always room), independence of the
  fold's counts from the queue, enabledness of `schedPoll`, and the small frame facts.
-/
import FnGraphVerif.Proofs.LNewman
namespace FG
variable {c : Cfg} {s s' t : PState}

/-- two states can be joined by core runs, modulo `Sim` -/
def Join (c : Cfg) (s1 s2 : PState) : Prop :=
  ∃ (as bs : List CA) (t1 t2 : PState), crun c s1 as = some t1 ∧ crun c s2 bs = some t2 ∧ Sim t1 t2

theorem Join.symm {s1 s2 : PState} (h : Join c s1 s2) : Join c s2 s1 := by
  obtain ⟨as, bs, t1, t2, h1, h2, hs⟩ := h
  exact ⟨bs, as, t2, t1, h2, h1, hs.symm⟩

theorem Join.refl (s : PState) : Join c s s := ⟨[], [], s, s, rfl, rfl, Sim.refl _⟩

theorem crun_one {a : CA} (h : step? c s a.act = some s') : crun c s [a] = some s' := by
  rw [crun_cons, h]; rfl

theorem crun_two {a b : CA} {s1 s2 : PState} (h1 : step? c s a.act = some s1) (h2 : step? c s1 b.act = some s2) :
    crun c s [a, b] = some s2 := by
  rw [crun_cons, h1]; exact crun_one h2

/-- the usual diamond: do the other action on each side -/
theorem Join.of_steps {a b : CA} {s1 s2 t1 t2 : PState} (h1 : step? c s1 b.act = some t1)
    (h2 : step? c s2 a.act = some t2) (hs : Sim t1 t2) : Join c s1 s2 :=
  ⟨[b], [a], t1, t2, crun_one h1, crun_one h2, hs⟩

/-- equal up to `invoked` and (with the receiver gone) the ready queue -/
theorem sim_of_fields {a b : PState}
    (h1 : a.counts = b.counts) (h2 : a.readyRxOpen = true → a.readyQ = b.readyQ) (h3 : a.readyTxOpen = b.readyTxOpen)
    (h4 : a.readyRxOpen = b.readyRxOpen) (h5 : a.doneQ = b.doneQ) (h6 : a.doneTxOpen = b.doneTxOpen)
    (h7 : a.released = b.released) (h8 : a.qRemaining = b.qRemaining) (h9 : a.qDone = b.qDone)
    (h10 : a.sRemaining = b.sRemaining) (h11 : a.handedOut = b.handedOut)
    (h13 : a.inflight = b.inflight) (h14 : a.endedOk = b.endedOk) (h15 : a.failed = b.failed)
    (h16 : a.errors = b.errors) (h17 : a.dropped = b.dropped) (h18 : a.closeAfter = b.closeAfter)
    (h19 : a.im = b.im) (h20 : a.streamEnded = b.streamEnded) (h21 : a.sDone = b.sDone)
    (h22 : a.shortErr = b.shortErr) (h23 : a.result = b.result) (h24 : a.panic = b.panic) : Sim a b := by
  unfold Sim norm
  apply PState.ext' <;> try assumption
  · simp only [← h4]
    rcases Bool.eq_false_or_eq_true a.readyRxOpen with h | h
    · simp [h, h2 h]
    · simp [h]
  · rfl

/-! ### the fold -/

theorem relFold_fst_indep (b b' : Bool) (cap cap' : Nat) (l : List Nat) (cs q q' : List Nat) (p p' : Bool) :
    (relFold b cap (cs, q, p) l).1 = (relFold b' cap' (cs, q', p') l).1 := by
  induction l generalizing cs q q' p p' with
  | nil => rfl
  | cons a l ih =>
    rw [relFold_cons, relFold_cons]
    have h1 : relStep b cap (cs, q, p) a = (cs.set a (cs[a]?.getD 0 - 1), (relStep b cap (cs, q, p) a).2.1,
        (relStep b cap (cs, q, p) a).2.2) := rfl
    have h2 : relStep b' cap' (cs, q', p') a = (cs.set a (cs[a]?.getD 0 - 1), (relStep b' cap' (cs, q', p') a).2.1,
        (relStep b' cap' (cs, q', p') a).2.2) := rfl
    rw [h1, h2]
    exact ih _ _ _ _ _

/-- what the fold appends to the ready queue -/
def qrExt (c : Cfg) (s : PState) (x : Nat) : List Nat :=
  if (s.readyTxOpen && (s.qRemaining - 1 != 0)) && s.readyRxOpen then
    (children c.D x).filter (fun v => s.counts[v]?.getD 0 - 1 == 0)
  else []

theorem qrApply_readyQ_eq {x : Nat} (rest : List Nat) (hnd : (children c.D x).Nodup)
    (hroom : s.readyQ.length + (children c.D x).length ≤ c.cap) :
    (qrApply c s x rest).readyQ = s.readyQ ++ qrExt c s x := by
  unfold qrApply qrExt
  simp only
  rcases Bool.eq_false_or_eq_true ((s.readyTxOpen && (s.qRemaining - 1 != 0)) && s.readyRxOpen) with h | h
  · rw [h, relFold_ready c.cap _ hnd _ hroom]; simp
  · rw [h, relFold_ready_closed]; simp

/-- the ready channel never fills: queued ids and the children of an unreleased id are distinct nodes -/
theorem qr_room (hc : GoodCfg c) (hinv : Inv0 c s) {x : Nat} {rest : List Nat} (hq : s.doneQ = x :: rest) :
    s.readyQ.length + (children c.D x).length ≤ c.cap := by
  have hxdq : x ∈ s.doneQ := by rw [hq]; simp
  have hxnr : x ∉ s.released := fun hx => (List.nodup_append.mp hinv.relNodup).2.2 x hx x hxdq rfl
  have hdisj : ∀ a ∈ s.readyQ, ∀ b ∈ children c.D x, a ≠ b := by
    intro a ha b hb hab
    subst hab
    have hxp : x ∈ parents c.D a := mem_parents.mpr (mem_children.mp hb)
    exact hxnr (hinv.ready a (Or.inl ha) x hxp)
  have hnd : (s.readyQ ++ children c.D x).Nodup :=
    List.nodup_append.mpr ⟨hinv.readyQ_nodup, (hc.simple x).1, hdisj⟩
  have hbd : ∀ y ∈ s.readyQ ++ children c.D x, y < c.n := by
    intro y hy
    rcases List.mem_append.mp hy with hy | hy
    · exact hinv.bound y (Or.inl hy)
    · exact ((mem_children.mp hy).lt hc.wf).2
  have := nodup_bounded_length hnd hbd
  simp only [List.length_append] at this
  have := cap_ge c
  omega

/-! ### `schedPoll` -/

theorem spApply_im (m0 m : IM) (out : Out) : spApply c { s with im := m0 } m out = spApply c s m out := by
  cases out <;> rfl

/-- an unguarded `schedPoll` is enabled: an item is only answered when the queue has one -/
theorem sp_enabled (hg : spGuard c s = false) : ∃ t, step? c s .schedPoll = some t := by
  rw [step_sp, hg]
  simp only [Bool.false_eq_true, if_false]
  obtain ⟨_, _, _, _, _, _, _, hintSome, hnoInt⟩ := pollNext_spec c.strat s.im (readyUnder s)
  generalize hu : readyUnder s = u at *
  generalize pollNext c.strat s.im u = r at *
  obtain ⟨m, out⟩ := r
  simp only at hintSome hnoInt ⊢
  cases out with
  | pending => exact ⟨_, rfl⟩
  | endd => exact ⟨_, rfl⟩
  | intNone => exact ⟨_, rfl⟩
  | noInt =>
    have := (hnoInt rfl).2
    subst this
    have hne := readyUnder_item hu
    cases hq : s.readyQ with
    | nil => exact absurd hq hne
    | cons f rest => simp only [spApply, hq]; exact ⟨_, rfl⟩
  | intSome =>
    have := (hintSome rfl).2.2
    subst this
    have hne := readyUnder_item hu
    cases hq : s.readyQ with
    | nil => exact absurd hq hne
    | cons f rest =>
      simp only [spApply, hq]
      split <;> exact ⟨_, rfl⟩

/-- `schedPoll` leaves the queuer's fields alone and never reopens the done sender -/
theorem spApply_queuer {m : IM} {out : Out} {s2 : PState} (h : spApply c s m out = some s2) :
    s2.qDone = s.qDone ∧ s2.doneQ = s.doneQ ∧ s2.result = s.result ∧ (s.doneTxOpen = false → s2.doneTxOpen = false) := by
  cases out with
  | pending => simp only [spApply, Option.some.injEq] at h; subst h; exact ⟨rfl, rfl, rfl, id⟩
  | endd => simp only [spApply, Option.some.injEq] at h; subst h; exact ⟨rfl, rfl, rfl, id⟩
  | intNone => simp only [spApply, Option.some.injEq] at h; subst h; exact ⟨rfl, rfl, rfl, fun _ => rfl⟩
  | noInt =>
    simp only [spApply] at h
    split at h
    · exact absurd h (by simp)
    · simp only [Option.some.injEq] at h; subst h; exact ⟨rfl, rfl, rfl, id⟩
  | intSome =>
    simp only [spApply] at h
    split at h
    · exact absurd h (by simp)
    · split at h
      · simp only [Option.some.injEq] at h; subst h; exact ⟨rfl, rfl, rfl, id⟩
      · simp only [Option.some.injEq] at h; subst h; exact ⟨rfl, rfl, rfl, fun _ => rfl⟩

end FG
