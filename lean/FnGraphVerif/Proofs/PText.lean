/-
  Proofs/PText.lean — facts about the texts the monitor compares: `toString` on `Nat` is
  injective and consists of digits, hence `natsText` (comma separated decimal numbers) is
  injective; the fixed texts ("none-enabled", "not-returned", …) differ from every number / every
  return text.  Helper of `Theorems/MonitorSound.lean`.
-/
import FnGraphVerif.Proofs.TraceDefs
import Std.Data.String.ToNat
namespace FG

/-! ### lists of characters separated by a separator that does not occur in the words -/

theorem append_sep_inj {α : Type} {sep : α} : ∀ {w v A B : List α}, sep ∉ w → sep ∉ v →
    w ++ sep :: A = v ++ sep :: B → w = v ∧ A = B := by
  intro w
  induction w with
  | nil =>
    intro v A B _ hv h
    cases v with
    | nil => simp only [List.nil_append, List.cons.injEq, true_and] at h; exact ⟨rfl, h⟩
    | cons y v =>
      simp only [List.nil_append, List.cons_append, List.cons.injEq] at h
      exact absurd (h.1 ▸ List.mem_cons_self) hv
  | cons x w ih =>
    intro v A B hw hv h
    cases v with
    | nil =>
      simp only [List.nil_append, List.cons_append, List.cons.injEq] at h
      exact absurd (h.1 ▸ List.mem_cons_self) hw
    | cons y v =>
      simp only [List.cons_append, List.cons.injEq] at h
      obtain ⟨h1, h2⟩ := ih (fun hm => hw (List.mem_cons_of_mem _ hm)) (fun hm => hv (List.mem_cons_of_mem _ hm)) h.2
      exact ⟨by rw [h.1, h1], h2⟩

theorem intercalate_sep_inj {α : Type} {sep : α} : ∀ {ws vs : List (List α)},
    (∀ w ∈ ws, w ≠ [] ∧ sep ∉ w) → (∀ v ∈ vs, v ≠ [] ∧ sep ∉ v) →
    [sep].intercalate ws = [sep].intercalate vs → ws = vs := by
  intro ws
  induction ws with
  | nil =>
    intro vs _ hv h
    cases vs with
    | nil => rfl
    | cons v vs =>
      exfalso
      have hv1 := (hv v List.mem_cons_self).1
      cases vs with
      | nil => simp only [List.intercalate_nil, List.intercalate_singleton] at h; exact hv1 h.symm
      | cons v' vs =>
        simp only [List.intercalate_nil, List.intercalate_cons_cons] at h
        cases v with
        | nil => exact hv1 rfl
        | cons => simp at h
  | cons w ws ih =>
    intro vs hw hv h
    have hw1 := hw w List.mem_cons_self
    cases vs with
    | nil =>
      exfalso
      cases ws with
      | nil => simp only [List.intercalate_nil, List.intercalate_singleton] at h; exact hw1.1 h
      | cons w' ws =>
        simp only [List.intercalate_nil, List.intercalate_cons_cons] at h
        cases w with
        | nil => exact hw1.1 rfl
        | cons => simp at h
    | cons v vs =>
      have hv1 := hv v List.mem_cons_self
      cases ws with
      | nil =>
        cases vs with
        | nil => simp only [List.intercalate_singleton] at h; rw [h]
        | cons v' vs =>
          exfalso
          simp only [List.intercalate_singleton, List.intercalate_cons_cons] at h
          apply hw1.2
          rw [h]
          simp
      | cons w' ws =>
        cases vs with
        | nil =>
          exfalso
          simp only [List.intercalate_singleton, List.intercalate_cons_cons] at h
          apply hv1.2
          rw [← h]
          simp
        | cons v' vs =>
          simp only [List.intercalate_cons_cons, List.append_assoc, List.singleton_append] at h
          obtain ⟨h1, h2⟩ := append_sep_inj hw1.2 hv1.2 h
          have := ih (fun x hx => hw x (List.mem_cons_of_mem _ hx)) (fun x hx => hv x (List.mem_cons_of_mem _ hx)) h2
          rw [h1, this]

/-! ### decimal numbers -/

theorem toString_nat_inj {a b : Nat} (h : toString a = toString b) : a = b :=
  Nat.repr_injective h

theorem toString_nat_toList (n : Nat) : (toString n).toList = Nat.toDigits 10 n :=
  Nat.toList_repr

theorem toString_nat_digit {n : Nat} {ch : Char} (h : ch ∈ (toString n).toList) : ch.isDigit = true := by
  rw [toString_nat_toList] at h
  exact Nat.isDigit_of_mem_toDigits (by omega) (by omega) h

theorem toString_nat_ne_nil (n : Nat) : (toString n).toList ≠ [] := by
  rw [toString_nat_toList]
  exact Nat.toDigits_ne_nil

theorem toString_nat_no_comma (n : Nat) : ',' ∉ (toString n).toList := by
  intro h
  exact absurd (toString_nat_digit h) (by decide)

/-! ### `natsText` -/

theorem natsText_toList (l : List Nat) :
    (natsText l).toList = [','].intercalate (l.map (fun n => (toString n).toList)) := by
  unfold natsText
  rw [String.toList_intercalate, List.map_map]
  rfl

/-- the text of a list of numbers determines the list -/
theorem natsText_inj {a b : List Nat} (h : natsText a = natsText b) : a = b := by
  have h1 := congrArg String.toList h
  rw [natsText_toList, natsText_toList] at h1
  have hwords : ∀ l : List Nat, ∀ w ∈ l.map (fun n => (toString n).toList), w ≠ [] ∧ ',' ∉ w := by
    intro l w hw
    obtain ⟨n, _, rfl⟩ := List.mem_map.mp hw
    exact ⟨toString_nat_ne_nil n, toString_nat_no_comma n⟩
  have h2 := intercalate_sep_inj (hwords a) (hwords b) h1
  have hinj : Function.Injective (fun n : Nat => (toString n).toList) := by
    intro x y hxy
    exact toString_nat_inj (String.toList_inj.mp hxy)
  exact List.map_injective_iff.mpr hinj h2

theorem natsText_inj_iff {a b : List Nat} : natsText a = natsText b ↔ a = b :=
  ⟨natsText_inj, fun h => h ▸ rfl⟩

theorem natsText_singleton (f : Nat) : natsText [f] = toString f := by
  simp [natsText]

theorem natsText_eq_toString {l : List Nat} {f : Nat} (h : natsText l = toString f) : l = [f] :=
  natsText_inj (h.trans (natsText_singleton f).symm)

/-- every character of a `natsText` is a digit or a comma -/
theorem natsText_chars {l : List Nat} {ch : Char} (h : ch ∈ (natsText l).toList) :
    ch.isDigit = true ∨ ch = ',' := by
  rw [natsText_toList] at h
  induction l with
  | nil => simp at h
  | cons n l ih =>
    cases l with
    | nil =>
      simp only [List.map_cons, List.map_nil, List.intercalate_singleton] at h
      exact Or.inl (toString_nat_digit h)
    | cons m l =>
      simp only [List.map_cons, List.intercalate_cons_cons, List.append_assoc, List.mem_append,
        List.mem_singleton] at h
      rcases h with h | h | h
      · exact Or.inl (toString_nat_digit h)
      · exact Or.inr h
      · exact ih (by simpa using h)

/-! ### fixed texts -/

theorem toString_nat_ne_noneEnabled (f : Nat) : "none-enabled" ≠ toString f := by
  intro h
  have h1 : 'n' ∈ (toString f).toList := by rw [← h]; simp
  exact absurd (toString_nat_digit h1) (by decide)

theorem toString_bool_false {b : Bool} (h : toString b = "false") : b = false := by
  cases b
  · rfl
  · exact absurd h (by decide)

/-! ### return texts -/

theorem natsText_no_space (l : List Nat) : ' ' ∉ (natsText l).toList := by
  intro h
  rcases natsText_chars h with h | h
  · exact absurd h (by decide)
  · exact absurd h (by decide)

theorem retOutcome_text (fnd : Bool) (p np e : List Nat) (fl : String) :
    (Ev.retOutcome fnd p np e fl).text = "ret state=" ++ (if fnd then "F" else "I") ++ " processed=" ++ natsText p
      ++ " notprocessed=" ++ natsText np ++ " errs=" ++ natsText e ++ " flow=" ++ fl := rfl

theorem retErr_text (f : Nat) : (Ev.retErr f).text = "ret err " ++ toString f := rfl

theorem retOutcome_text_toList (fnd : Bool) (p np e : List Nat) (fl : String) :
    (Ev.retOutcome fnd p np e fl).text.toList =
      'r' :: 'e' :: 't' :: ' ' :: 's' :: 't' :: 'a' :: 't' :: 'e' :: '=' :: (if fnd then 'F' else 'I') :: ' ' ::
      ("processed=".toList ++ ((natsText p).toList ++ ' ' :: ("notprocessed=".toList ++ ((natsText np).toList ++ ' ' :: ("errs=".toList
       ++ ((natsText e).toList ++ ' ' :: ("flow=".toList ++ fl.toList))))))) := by
  rw [retOutcome_text]
  cases fnd <;> simp [String.toList_append]

theorem retErr_text_toList (f : Nat) :
    (Ev.retErr f).text.toList = 'r' :: 'e' :: 't' :: ' ' :: 'e' :: 'r' :: 'r' :: ' ' :: (toString f).toList := by
  rw [retErr_text]
  simp [String.toList_append]

/-- the text of an outcome determines all its components -/
theorem retOutcome_text_inj {fnd fnd' : Bool} {p p' np np' e e' : List Nat} {fl fl' : String}
    (h : (Ev.retOutcome fnd p np e fl).text = (Ev.retOutcome fnd' p' np' e' fl').text) :
    fnd = fnd' ∧ p = p' ∧ np = np' ∧ e = e' ∧ fl = fl' := by
  have h1 := congrArg String.toList h
  rw [retOutcome_text_toList, retOutcome_text_toList] at h1
  simp only [List.cons.injEq, true_and] at h1
  obtain ⟨hf, h2⟩ := h1
  obtain ⟨hp, h3⟩ := append_sep_inj (natsText_no_space p) (natsText_no_space p') (List.append_cancel_left h2)
  obtain ⟨hnp, h4⟩ := append_sep_inj (natsText_no_space np) (natsText_no_space np') (List.append_cancel_left h3)
  obtain ⟨he, h5⟩ := append_sep_inj (natsText_no_space e) (natsText_no_space e') (List.append_cancel_left h4)
  refine ⟨?_, natsText_inj (String.toList_inj.mp hp), natsText_inj (String.toList_inj.mp hnp),
    natsText_inj (String.toList_inj.mp he), String.toList_inj.mp (List.append_cancel_left h5)⟩
  cases fnd <;> cases fnd' <;> first | rfl | (exact absurd hf (by decide))

theorem retErr_text_inj {f g : Nat} (h : (Ev.retErr f).text = (Ev.retErr g).text) : f = g := by
  have h1 := congrArg String.toList h
  rw [retErr_text_toList, retErr_text_toList] at h1
  simp only [List.cons.injEq, true_and] at h1
  exact toString_nat_inj (String.toList_inj.mp h1)

theorem retErr_text_ne_retOutcome (f : Nat) (fnd : Bool) (p np e : List Nat) (fl : String) :
    (Ev.retErr f).text ≠ (Ev.retOutcome fnd p np e fl).text := by
  intro h
  have h1 := congrArg String.toList h
  rw [retErr_text_toList, retOutcome_text_toList] at h1
  simp at h1

theorem notReturned_ne_retOutcome (fnd : Bool) (p np e : List Nat) (fl : String) :
    "not-returned" ≠ (Ev.retOutcome fnd p np e fl).text := by
  intro h
  have h1 := congrArg String.toList h
  rw [retOutcome_text_toList] at h1
  simp at h1

theorem notReturned_ne_retErr (f : Nat) : "not-returned" ≠ (Ev.retErr f).text := by
  intro h
  have h1 := congrArg String.toList h
  rw [retErr_text_toList] at h1
  simp at h1

/-- the flow text of a model return -/
def flowText (r : Ret) (control : Bool) : String :=
  if control then (if r.isBreak then "break" else "cont") else "na"

theorem retText_err (f : Nat) (control : Bool) : retText (.err f) control = (Ev.retErr f).text := rfl

theorem retText_outcome (fnd : Bool) (p np errs : List Nat) (control : Bool) :
    retText (.outcome fnd p np errs) control =
      (Ev.retOutcome fnd p np (errs.mergeSort (· ≤ ·)) (flowText (.outcome fnd p np errs) control)).text := rfl

end FG
