/-
  Proofs/SStar.lean — `SimC`, a coarser equivalence than `Sim` for the phase after the interruptible
  stream has interrupted AND the done channel is closed (`closedB`): from then on the stream only
  answers end-of-stream, no completion is reported to the queuer any more, and the queuer's private
  data (`counts`, `released`, `qRemaining`, the ready channel) can no longer influence anything that
  is observable.  `SimC` forgets them in closed states and is `Sim` otherwise.  It is a strong
  bisimulation for the core actions on reachable states (`simC_step`).
-/
import FnGraphVerif.Proofs.SShape
namespace FG
variable {c : Cfg} {s s' t : PState}

def closedB (s : PState) : Bool := s.im.ian && !s.doneTxOpen

/-- forget `invoked` and the queuer's private data -/
def coreN (s : PState) : PState :=
  { s with invoked := [], counts := [], readyQ := [], readyTxOpen := false, released := [], qRemaining := 0 }

def normC (s : PState) : PState := if closedB s then coreN s else norm s

def SimC (s t : PState) : Prop := normC s = normC t

theorem SimC.refl (s : PState) : SimC s s := rfl
theorem SimC.symm (h : SimC s t) : SimC t s := Eq.symm h
theorem SimC.trans {u : PState} (h1 : SimC s t) (h2 : SimC t u) : SimC s u := Eq.trans h1 h2

theorem closedB_normC (s : PState) : closedB (normC s) = closedB s := by
  unfold normC
  split <;> rfl

theorem SimC.closed_eq (h : SimC s t) : closedB s = closedB t := by
  have := congrArg closedB (show normC s = normC t from h)
  rwa [closedB_normC, closedB_normC] at this

theorem Sim.closed_eq (h : Sim s t) : closedB s = closedB t := by
  have h' : norm s = norm t := h
  have : closedB (norm s) = closedB (norm t) := by rw [h']
  exact this

theorem Sim.coreN_eq (h : Sim s t) : coreN s = coreN t := by
  have h' : norm s = norm t := h
  have : coreN (norm s) = coreN (norm t) := by rw [h']
  exact this

theorem Sim.toC (h : Sim s t) : SimC s t := by
  unfold SimC normC
  rw [← h.closed_eq]
  split
  · exact h.coreN_eq
  · exact h

theorem simC_open (h : SimC s t) (hs : closedB s = false) : Sim s t := by
  have ht : closedB t = false := by rw [← h.closed_eq]; exact hs
  unfold SimC normC at h
  rw [hs, ht] at h
  exact h

theorem simC_closed (h : SimC s t) (hs : closedB s = true) : coreN s = coreN t := by
  have ht : closedB t = true := by rw [← h.closed_eq]; exact hs
  unfold SimC normC at h
  rw [hs, ht] at h
  exact h

theorem simC_of_core (hs : closedB s = true) (h : coreN s = coreN t) : SimC s t := by
  have ht : closedB t = true := by
    have : closedB (coreN s) = closedB (coreN t) := by rw [h]
    rw [← hs]; exact this.symm
  unfold SimC normC
  rw [hs, ht]
  exact h

/-! ### what `SimC` preserves -/

theorem normC_handedOut (s : PState) : (normC s).handedOut = s.handedOut := by unfold normC; split <;> rfl
theorem normC_inflight (s : PState) : (normC s).inflight = s.inflight := by unfold normC; split <;> rfl
theorem normC_result (s : PState) : (normC s).result = s.result := by unfold normC; split <;> rfl
theorem normC_panic (s : PState) : (normC s).panic = s.panic := by unfold normC; split <;> rfl

theorem SimC.handedOut (h : SimC s t) : s.handedOut = t.handedOut := by
  have := congrArg PState.handedOut (show normC s = normC t from h)
  rwa [normC_handedOut, normC_handedOut] at this
theorem SimC.inflight (h : SimC s t) : s.inflight = t.inflight := by
  have := congrArg PState.inflight (show normC s = normC t from h)
  rwa [normC_inflight, normC_inflight] at this
theorem SimC.result (h : SimC s t) : s.result = t.result := by
  have := congrArg PState.result (show normC s = normC t from h)
  rwa [normC_result, normC_result] at this
theorem SimC.panic (h : SimC s t) : s.panic = t.panic := by
  have := congrArg PState.panic (show normC s = normC t from h)
  rwa [normC_panic, normC_panic] at this

/-! ### closed states stay closed -/

theorem closedB_iff : closedB s = true ↔ s.im.ian = true ∧ s.doneTxOpen = false := by
  unfold closedB
  cases s.im.ian <;> cases s.doneTxOpen <;> simp

theorem closed_step {a : Action} (h : closedB s = true) (hs : step? c s a = some s') : closedB s' = true := by
  obtain ⟨h1, h2⟩ := closedB_iff.mp h
  apply closedB_iff.mpr
  cases a with
  | queuerRecv => obtain ⟨_, _, x, rest, _, rfl⟩ := queuerRecv_cases hs; exact ⟨h1, h2⟩
  | queuerEnd => obtain ⟨_, _, _, rfl⟩ := queuerEnd_cases hs; exact ⟨h1, h2⟩
  | schedPoll =>
    obtain ⟨_, _, _, hcase⟩ := schedPoll_cases hs
    rw [pollNext_ian h1] at hcase
    rcases hcase with ⟨ho, _⟩ | ⟨_, rfl⟩ | ⟨ho, _⟩ | ⟨ho, _⟩ | ⟨ho, _⟩
    · cases ho
    · exact ⟨h1, h2⟩
    · cases ho
    · cases ho
    · cases ho
  | invoke f => obtain ⟨_, _, rfl⟩ := invoke_cases hs; exact ⟨h1, h2⟩
  | finish f ok =>
    cases ok with
    | true =>
      obtain ⟨_, _, rfl⟩ := finishOk_cases hs
      exact ⟨h1, by simp [h2]⟩
    | false =>
      obtain ⟨_, _, ⟨_, rfl⟩ | ⟨_, rfl⟩⟩ := finishErr_cases hs <;> exact ⟨h1, rfl⟩
  | interrupt => rw [interrupt_cases hs]; exact ⟨h1, h2⟩
  | schedEnd => obtain ⟨_, _, _, rfl⟩ := schedEnd_cases hs; exact ⟨h1, by simp [h2]⟩
  | ret => obtain ⟨_, _, _, rfl⟩ := ret_cases hs; exact ⟨h1, h2⟩

/-! ### `SimC` is a strong bisimulation for the core actions -/

theorem step_sp_closed (h : s.im.ian = true) : step? c s .schedPoll =
    if spGuard c s then none else some { s with streamEnded := true, readyRxOpen := false } := by
  rw [step_sp, pollNext_ian h]
  rfl

theorem simC_step_closed (hc : GoodCfg c) (hrs : Reachable c s) (hrt : Reachable c t)
    (hcl : closedB s = true) (hcore : coreN s = coreN t) (a : CA) (hs : step? c s a.act = some s') :
    ∃ t', step? c t a.act = some t' ∧ SimC s' t' := by
  have hcl' : closedB s' = true := closed_step hcl hs
  have e_qd : s.qDone = t.qDone := by have := congrArg PState.qDone hcore; exact this
  have e_res : s.result = t.result := by have := congrArg PState.result hcore; exact this
  have e_dq : s.doneQ = t.doneQ := by have := congrArg PState.doneQ hcore; exact this
  have e_dt : s.doneTxOpen = t.doneTxOpen := by have := congrArg PState.doneTxOpen hcore; exact this
  have e_sd : s.sDone = t.sDone := by have := congrArg PState.sDone hcore; exact this
  have e_se : s.streamEnded = t.streamEnded := by have := congrArg PState.streamEnded hcore; exact this
  have e_in : s.inflight = t.inflight := by have := congrArg PState.inflight hcore; exact this
  have e_im : s.im = t.im := by have := congrArg PState.im hcore; exact this
  cases a with
  | qr =>
    obtain ⟨hqd, hres, x, rest, hq, hs1⟩ := queuerRecv_cases hs
    have hs1' : s' = qrApply c s x rest := hs1
    subst hs1'
    have ht : step? c t .queuerRecv = some (qrApply c t x rest) :=
      step_qr_of (by rw [← e_qd]; exact hqd) (by rw [← e_res]; exact hres) (by rw [← e_dq]; exact hq)
    refine ⟨_, ht, simC_of_core hcl' ?_⟩
    have p1 := (inv0_reachable hc (Reachable.step _ hrs hs)).noPanic
    have p2 := (inv0_reachable hc (Reachable.step _ hrt ht)).noPanic
    have e1 : coreN (qrApply c s x rest) = { coreN s with doneQ := rest, panic := (qrApply c s x rest).panic } := rfl
    have e2 : coreN (qrApply c t x rest) = { coreN t with doneQ := rest, panic := (qrApply c t x rest).panic } := rfl
    rw [e1, e2, p1, p2, hcore]
  | qe =>
    obtain ⟨hqd, hdt, hdq, rfl⟩ := queuerEnd_cases hs
    have ht : step? c t .queuerEnd = some { t with qDone := true, readyTxOpen := false } :=
      step_qe_of (by rw [← e_qd]; exact hqd) (by rw [← e_dt]; exact hdt) (by rw [← e_dq]; exact hdq)
    refine ⟨_, ht, simC_of_core hcl' ?_⟩
    have e1 : coreN { s with qDone := true, readyTxOpen := false } = { coreN s with qDone := true } := rfl
    have e2 : coreN { t with qDone := true, readyTxOpen := false } = { coreN t with qDone := true } := rfl
    rw [e1, e2, hcore]
  | sp =>
    have hian : s.im.ian = true := (closedB_iff.mp hcl).1
    have hs2 := hs
    simp only [CA.act] at hs2
    rw [step_sp_closed hian] at hs2
    have hg : spGuard c t = spGuard c s := by
      unfold spGuard underLimit
      rw [e_sd, e_se, e_in]
    split at hs2
    · exact absurd hs2 (by simp)
    · rename_i hgs
      simp only [Option.some.injEq] at hs2
      subst hs2
      have ht : step? c t .schedPoll = some { t with streamEnded := true, readyRxOpen := false } := by
        rw [step_sp_closed (by rw [← e_im]; exact hian), hg, if_neg hgs]
      refine ⟨_, ht, simC_of_core hcl' ?_⟩
      have e1 : coreN { s with streamEnded := true, readyRxOpen := false } =
          { coreN s with streamEnded := true, readyRxOpen := false } := rfl
      have e2 : coreN { t with streamEnded := true, readyRxOpen := false } =
          { coreN t with streamEnded := true, readyRxOpen := false } := rfl
      rw [e1, e2, hcore]
  | se =>
    obtain ⟨hse, hinf, hsd, rfl⟩ := schedEnd_cases hs
    have ht : step? c t .schedEnd = some { t with sDone := true, doneTxOpen := t.doneTxOpen && !c.sequential } :=
      step_se_of (by rw [← e_se]; exact hse) (by rw [← e_in]; exact hinf) (by rw [← e_sd]; exact hsd)
    refine ⟨_, ht, simC_of_core hcl' ?_⟩
    have e1 : coreN { s with sDone := true, doneTxOpen := s.doneTxOpen && !c.sequential } =
        { coreN s with sDone := true, doneTxOpen := (coreN s).doneTxOpen && !c.sequential } := rfl
    have e2 : coreN { t with sDone := true, doneTxOpen := t.doneTxOpen && !c.sequential } =
        { coreN t with sDone := true, doneTxOpen := (coreN t).doneTxOpen && !c.sequential } := rfl
    rw [e1, e2, hcore]
  | rt =>
    obtain ⟨hsd, hqd, hres, rfl⟩ := ret_cases hs
    have ht : step? c t .ret = some { t with result := some (mkRet c t) } := by
      simp only [step_rt, ← e_sd, ← e_qd, ← e_res, hsd, hqd, hres]
      rfl
    refine ⟨_, ht, simC_of_core hcl' ?_⟩
    have e1 : coreN { s with result := some (mkRet c s) } = { coreN s with result := some (mkRet c (coreN s)) } := rfl
    have e2 : coreN { t with result := some (mkRet c t) } = { coreN t with result := some (mkRet c (coreN t)) } := rfl
    rw [e1, e2, hcore]

theorem simC_step (hc : GoodCfg c) (hrs : Reachable c s) (hrt : Reachable c t) (h : SimC s t) (a : CA)
    (hs : step? c s a.act = some s') : ∃ t', step? c t a.act = some t' ∧ SimC s' t' := by
  cases hcl : closedB s with
  | true => exact simC_step_closed hc hrs hrt hcl (simC_closed h hcl) a hs
  | false =>
    obtain ⟨t', ht', hsim⟩ := sim_step a (simC_open h hcl) (rrx_of_reachable hc hrs) hs
    exact ⟨t', ht', hsim.toC⟩

theorem simC_crun (hc : GoodCfg c) {as : List CA} : ∀ {s t s' : PState}, Reachable c s → Reachable c t →
    SimC s t → crun c s as = some s' → ∃ t', crun c t as = some t' ∧ SimC s' t' := by
  induction as with
  | nil =>
    intro s t s' _ _ hs h
    simp only [crun_nil, Option.some.injEq] at h
    subst h
    exact ⟨t, rfl, hs⟩
  | cons a as ih =>
    intro s t s' hrs hrt hs h
    rw [crun_cons] at h
    cases h1 : step? c s a.act with
    | none => rw [h1] at h; exact absurd h (by simp)
    | some s1 =>
      rw [h1] at h
      simp only [Option.bind] at h
      obtain ⟨t1, ht1, hs1⟩ := simC_step hc hrs hrt hs a h1
      obtain ⟨t', ht', hs'⟩ := ih (Reachable.step _ hrs h1) (Reachable.step _ hrt ht1) hs1 h
      refine ⟨t', ?_, hs'⟩
      rw [crun_cons, ht1]
      exact ht'

end FG
