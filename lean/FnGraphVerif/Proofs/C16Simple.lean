/-
  Proofs/C16Simple.lean — `Simple` (duplicate-free neighbour lists) restated on edge indices,
  `findEdge` facts, and transport of reachability along adjacency-preserving maps.
-/
import FnGraphVerif.Proofs.BuilderInv
namespace FG

/-- index form of "at most one edge per ordered pair" -/
def PairsUniq (es : List Edge) : Prop :=
  ∀ (i j : Nat) (e1 e2 : Edge), es[i]? = some e1 → es[j]? = some e2 → e1.src = e2.src → e1.tgt = e2.tgt → i = j

/-- pairwise form -/
def PairsPW (es : List Edge) : Prop :=
  es.Pairwise (fun e1 e2 => ¬ (e1.src = e2.src ∧ e1.tgt = e2.tgt))

theorem pairsPW_iff_pairsUniq (es : List Edge) : PairsPW es ↔ PairsUniq es := by
  unfold PairsPW PairsUniq
  rw [List.pairwise_iff_getElem]
  constructor
  · intro h i j e1 e2 h1 h2 hs ht
    obtain ⟨hi, rfl⟩ := List.getElem?_eq_some_iff.mp h1
    obtain ⟨hj, rfl⟩ := List.getElem?_eq_some_iff.mp h2
    rcases Nat.lt_trichotomy i j with hij | hij | hij
    · exact absurd ⟨hs, ht⟩ (h i j hi hj hij)
    · exact hij
    · exact absurd ⟨hs.symm, ht.symm⟩ (h j i hj hi hij)
  · intro h i j hi hj hij hst
    have := h i j es[i] es[j] (List.getElem?_eq_getElem hi) (List.getElem?_eq_getElem hj) hst.1 hst.2
    omega

theorem children_nodup_iff (g : Dag) (u : Nat) :
    (children g u).Nodup ↔
      g.edges.Pairwise (fun e1 e2 => e1.src = u → e2.src = u → e1.tgt ≠ e2.tgt) := by
  unfold children
  rw [List.Nodup, List.pairwise_map, List.pairwise_filter, List.pairwise_reverse]
  constructor
  · intro h; refine h.imp ?_
    intro e1 e2 hh h1 h2 ht
    exact hh (by simpa using h2) (by simpa using h1) ht.symm
  · intro h; refine h.imp ?_
    intro e1 e2 hh h2 h1 ht
    exact hh (by simpa using h1) (by simpa using h2) ht.symm

theorem parents_nodup_iff (g : Dag) (v : Nat) :
    (parents g v).Nodup ↔
      g.edges.Pairwise (fun e1 e2 => e1.tgt = v → e2.tgt = v → e1.src ≠ e2.src) := by
  unfold parents
  rw [List.Nodup, List.pairwise_map, List.pairwise_filter, List.pairwise_reverse]
  constructor
  · intro h; refine h.imp ?_
    intro e1 e2 hh h1 h2 ht
    exact hh (by simpa using h2) (by simpa using h1) ht.symm
  · intro h; refine h.imp ?_
    intro e1 e2 hh h2 h1 ht
    exact hh (by simpa using h1) (by simpa using h2) ht.symm

theorem simple_iff_pairsPW (g : Dag) : Simple g ↔ PairsPW g.edges := by
  constructor
  · intro h
    unfold PairsPW
    rw [List.pairwise_iff_getElem]
    intro i j hi hj hij hst
    have hc := (children_nodup_iff g (g.edges[i]).src).mp (h _).1
    rw [List.pairwise_iff_getElem] at hc
    exact hc i j hi hj hij rfl hst.1.symm hst.2
  · intro h u
    refine ⟨(children_nodup_iff g u).mpr (h.imp ?_), (parents_nodup_iff g u).mpr (h.imp ?_)⟩
    · intro e1 e2 hh h1 h2 ht; exact hh ⟨h1.trans h2.symm, ht⟩
    · intro e1 e2 hh h1 h2 hs; exact hh ⟨hs, h1.trans h2.symm⟩

theorem simple_iff_pairsUniq (g : Dag) : Simple g ↔ PairsUniq g.edges :=
  (simple_iff_pairsPW g).trans (pairsPW_iff_pairsUniq _)

/-! ### `findEdge` -/

theorem findEdge_some {g : Dag} {a c i : Nat} (h : findEdge g a c = some i) :
    ∃ e, g.edges[i]? = some e ∧ e.src = a ∧ e.tgt = c := by
  unfold findEdge at h
  rw [List.findIdx?_eq_some_iff_getElem] at h
  obtain ⟨hi, hp, _⟩ := h
  refine ⟨g.edges[i], List.getElem?_eq_getElem hi, ?_⟩
  simpa using hp

theorem findEdge_none {g : Dag} {a c : Nat} (h : findEdge g a c = none) : ¬ IsEdge g a c := by
  unfold findEdge at h
  rw [List.findIdx?_eq_none_iff] at h
  rintro ⟨e, he, hs, ht⟩
  have := h e he
  simp [hs, ht] at this

theorem findEdge_isEdge {g : Dag} {a c i : Nat} (h : findEdge g a c = some i) : IsEdge g a c := by
  obtain ⟨e, he, hs, ht⟩ := findEdge_some h
  exact ⟨e, List.mem_of_getElem? he, hs, ht⟩

/-! ### transporting reachability -/

theorem ReachP.congr {g g' : Dag} (h : ∀ u v, IsEdge g u v → IsEdge g' u v) {x y : Nat}
    (hr : ReachP g x y) : ReachP g' x y := by
  induction hr with
  | edge he => exact ReachP.edge (h _ _ he)
  | tail _ he ih => exact ReachP.tail ih (h _ _ he)

theorem Reach.congr {g g' : Dag} (h : ∀ u v, IsEdge g u v → IsEdge g' u v) {x y : Nat}
    (hr : Reach g x y) : Reach g' x y := by
  induction hr with
  | refl => exact Reach.refl _
  | tail _ he ih => exact Reach.tail ih (h _ _ he)

theorem acyclic_congr {g g' : Dag} (h : ∀ u v, IsEdge g' u v → IsEdge g u v) (hac : Acyclic g) :
    Acyclic g' := fun u hu => hac u (ReachP.congr h hu)

end FG
