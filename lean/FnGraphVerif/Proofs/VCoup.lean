/-
  Proofs/VCoup.lean — the coupling between the state `PredSt` of the specification predicates and
  the model state along an `ObsRun` that starts from a CARRIED `InterruptibilityState`
  (`initWith c s0 r0 k0`), and its preservation by every model step with the notes the step emits.

  The coupling `CoupW` is `Coup` (`Proofs/QCoup.lean`) without its C08 ghost part (`intrSome`,
  `first`): it mentions `im` only through "no `interrupt` action so far while `intrAt = none`"
  and the `clean` clause (if the predicate state has seen no signal, the run was started without a
  carried signal — needed for the two "clean run" notes, which presuppose that the interrupt
  machine never saw a signal).

  What is shown of a note (`Note.OkW K c8`):
    * a note of C01 / C02 / C03 / C04 / C07 / C10 is ok — except that the CLEAN-RUN notes
      (`C03 … clean-all` at the return, `C10 … idle below limit …` at `q` and its `limit = some 0`
      form `C10 … limit 0 means unbounded, yet a ready function is unstarted`) are only shown under `K`
      (`K` → whenever `intrAt = none` the start had `s0 = r0 = false`);
    * under `c8` (`FinishCurrent` / `PollNextN(0)` and a carried signal) a C08 note is ok.
-/
import FnGraphVerif.Proofs.VCarried
import FnGraphVerif.Theorems.TracePreds
namespace FG

/-! ### what is shown of a note -/

/-- the safety / liveness properties whose predicates are independent of the interrupt bookkeeping -/
def safetyProps : List String := ["C01", "C02", "C03", "C04", "C07", "C10"]

/-- the notes that presuppose a run in which the interrupt machine never saw a signal:
    `C03 … clean-all` (a clean run hands out everything),
    `C10 … idle below limit l with a ready function unstarted` (a limit is work-conserving) and the
    form of the latter for `limit = some 0` (= unbounded),
    `C10 … limit 0 means unbounded, yet a ready function is unstarted` -/
def Note.isCleanNote : Note → Prop
  | .prop p wh _ =>
    (p = "C03" ∧ ∃ w, wh = w ++ " clean-all") ∨
    (p = "C10" ∧ ∃ (w : String) (l : Nat), wh = w ++ s!" idle below limit {l+1} with a ready function unstarted") ∨
    (p = "C10" ∧ ∃ w : String, wh = w ++ " limit 0 means unbounded, yet a ready function is unstarted")
  | _ => False

/-- the hypothesis of the C08 part: an interrupting strategy that starts nothing once a signal is
    there, and a signal carried into the run -/
def C8Hyp (c : Cfg) (s0 r0 : Bool) : Prop :=
  (c.strat = .finish ∨ c.strat = .pollN 0) ∧ (r0 = true ∨ s0 = true)

def Note.OkW (K c8 : Prop) (n : Note) : Prop :=
  (n.property ∈ safetyProps → n.ok = true ∨ (n.isCleanNote ∧ ¬ K)) ∧
  (c8 → n.property = "C08" → n.ok = true)

theorem Note.okW_of_ok {K c8 : Prop} {n : Note} (h : n.ok = true) : n.OkW K c8 :=
  ⟨fun _ => Or.inl h, fun _ _ => h⟩

/-- a note of a property outside the statement (C06, C09) -/
theorem Note.okW_other {K c8 : Prop} {p wh : String} {b : Bool} (hp : p ∉ safetyProps) (h8 : p ≠ "C08") :
    (Note.prop p wh b).OkW K c8 :=
  ⟨fun h => absurd h hp, fun _ h => absurd h h8⟩

theorem Note.okW_c8 {K c8 : Prop} {wh : String} {b : Bool} (h : c8 → b = true) :
    (Note.prop "C08" wh b).OkW K c8 :=
  ⟨fun hm => absurd (show "C08" ∈ safetyProps from hm) (by decide), fun hc _ => h hc⟩

/-! ### the notes, event by event (no model facts) -/

theorem predFut_invoke_okW (K c8 : Prop) (x : MonCtx) (m : PredSt) (f : Nat)
    (h3 : f ∉ m.realInvoked)
    (h1 : conflictInflightB x.decls m.realInflight f = false)
    (h2 : ∀ u, reachPlus (if x.rev then x.userD.flip else x.userD) u f = true → u ∈ m.realEndedOk)
    (h1b : ∀ p ∈ parents x.c.D f, p ∈ m.realEndedOk)
    (h7 : ∀ y ∈ m.realFailed, reachPlus x.c.D y f = false)
    (h7c : ∀ y ∈ m.realFailed, y = f ∨ conflict (declOf x.decls y) (declOf x.decls f) = false)
    (h10s : x.c.sequential = true → m.realInflight.length + 1 ≤ 1)
    (h10p : x.c.sequential = false → ∀ l, x.c.limit = some (l + 1) → m.realInflight.length + 1 ≤ l + 1)
    (h8 : c8 → False) :
    ∀ n ∈ (predFut x m (.invoke f)).2, n.OkW K c8 := by
  simp only [predFut, List.mem_append, List.mem_cons, List.not_mem_nil, or_false]
  rintro n (hn | hn)
  · apply Note.okW_of_ok
    rcases hn with rfl | rfl | rfl | rfl | rfl | rfl | rfl
    · simp [Note.ok, h3]
    · simp [Note.ok, h1]
    · simp only [Note.ok, List.all_eq_true, Bool.or_eq_true, Bool.not_eq_true', decide_eq_true_eq]
      intro u _
      cases hr : reachPlus (if x.rev = true then x.userD.flip else x.userD) u f with
      | false => exact Or.inl rfl
      | true => exact Or.inr (h2 u hr)
    · simp only [Note.ok, List.all_eq_true, decide_eq_true_eq]
      exact h1b
    · simp only [Note.ok, List.all_eq_true, Bool.not_eq_true']
      exact h7
    · simp only [Note.ok, List.all_eq_true, Bool.or_eq_true, beq_iff_eq, Bool.not_eq_true']
      exact h7c
    · simp only [Note.ok]
      cases hs : x.c.sequential with
      | true => simpa using h10s hs
      | false =>
        simp only [Bool.false_eq_true, if_false]
        cases hl : x.c.limit with
        | none => rfl
        | some l =>
          cases l with
          | zero => rfl
          | succ l => simpa using h10p hs l hl
  · split at hn
    · split at hn
      · simp only [List.mem_singleton] at hn
        subst hn
        exact Note.okW_c8 (fun hc => (h8 hc).elim)
      · cases hn
    · cases hn

theorem predFut_q_okW (K c8 : Prop) (x : MonCtx) (m : PredSt)
    (hdead : m.realInflight ≠ [])
    (h6 : K → m.intrAt = none → m.realFailed = [] → x.c.sequential = false →
      x.c.limit = some 0 → allBlockedB x.c m.realInvoked m.realEndedOk = true)
    (h10 : K → m.intrAt = none → m.realFailed = [] → x.c.sequential = false →
      ∀ l, x.c.limit = some (l + 1) → m.realInflight.length < l + 1 →
      allBlockedB x.c m.realInvoked m.realEndedOk = true) :
    ∀ n ∈ (predFut x m .q).2, n.OkW K c8 := by
  have hd : m.realInflight.isEmpty = false := by
    cases h : m.realInflight with
    | nil => exact absurd h hdead
    | cons a l => rfl
  have hpre : ∀ n ∈ ([Note.prop "C04" Ev.q.text true]
      ++ (if (m.intrAt.isNone && m.realFailed.isEmpty) = true then
            [Note.prop "C03" (Ev.q.text ++ " clean run can never hand out the rest") true] else [])
      ++ (if (!m.realFailed.isEmpty) = true then
            [Note.prop "C07" (Ev.q.text ++ " never returns after a failure") true] else [])
      ++ (if m.intrAt.isSome = true then
            [Note.prop "C08" (Ev.q.text ++ " never returns after the interrupt") true] else []) : List Note),
      n.ok = true := by
    intro n hn
    simp only [List.mem_append, List.mem_cons, List.not_mem_nil, or_false] at hn
    rcases hn with ((rfl | hn) | hn) | hn
    · rfl
    · split at hn
      · simp only [List.mem_singleton] at hn; subst hn; rfl
      · cases hn
    · split at hn
      · simp only [List.mem_singleton] at hn; subst hn; rfl
      · cases hn
    · split at hn
      · simp only [List.mem_singleton] at hn; subst hn; rfl
      · cases hn
  simp only [predFut, hd, Bool.not_false]
  intro n hn
  rw [List.mem_append, List.mem_append, List.mem_append] at hn
  rcases hn with ((hn | hn) | hn) | hn
  · exact Note.okW_of_ok (hpre n hn)
  · split at hn
    · split at hn
      · simp only [List.mem_singleton] at hn; subst hn; exact Note.okW_of_ok rfl
      · cases hn
    · cases hn
  · -- the C06 note: outside the statement
    split at hn <;>
      (split at hn <;>
        first
          | (simp only [List.mem_singleton] at hn; subst hn; exact Note.okW_other (by decide) (by decide))
          | cases hn)
  · rcases hlim : x.c.limit with _ | _ | l
    · simp only [hlim] at hn; cases hn
    · -- `limit = some 0` (unbounded): a clean-run note as well
      simp only [hlim] at hn
      split at hn
      · rename_i hc
        simp only [Bool.and_eq_true, Option.isNone_iff_eq_none, List.isEmpty_iff,
          Bool.not_eq_true'] at hc
        simp only [List.mem_singleton] at hn; subst hn
        by_cases hK : K
        · exact Note.okW_of_ok (h6 hK hc.1.1 hc.1.2 hc.2 hlim)
        · exact ⟨fun _ => Or.inr ⟨Or.inr (Or.inr ⟨rfl, _, rfl⟩), hK⟩,
            fun _ h => absurd (show "C10" = "C08" from h) (by decide)⟩
      · cases hn
    · simp only [hlim] at hn
      split at hn
      · rename_i hc
        simp only [Bool.and_eq_true, Option.isNone_iff_eq_none, List.isEmpty_iff, Bool.not_eq_true',
          decide_eq_true_eq] at hc
        simp only [List.mem_singleton] at hn; subst hn
        by_cases hK : K
        · exact Note.okW_of_ok (h10 hK hc.1.1.1 hc.1.1.2 hc.1.2 l hlim hc.2)
        · exact ⟨fun _ => Or.inr ⟨Or.inr (Or.inl ⟨rfl, _, l, rfl⟩), hK⟩,
            fun _ h => absurd (show "C10" = "C08" from h) (by decide)⟩
      · cases hn

theorem predFut_retOutcome_okW (K c8 : Prop) (x : MonCtx) (m : PredSt) (fnd : Bool)
    (proc notp errs : List Nat) (flow : String)
    (hi : m.realInflight = [])
    (herr : errs = m.realFailed)
    (hsub : ∀ f ∈ m.realInvoked, f ∈ proc)
    (hclean : K → m.intrAt = none → m.realFailed = [] → isPermOfRange m.realInvoked x.c.n = true)
    (hnoop : c8 → x.c.strat ≠ .non ∧ x.c.strat ≠ .ignore) :
    ∀ n ∈ (predFut x m (.retOutcome fnd proc notp errs flow)).2, n.OkW K c8 := by
  simp only [predFut, List.mem_append, List.mem_cons, List.not_mem_nil, or_false]
  rintro n ((hn | hn) | hn)
  · rcases hn with rfl | rfl | rfl | rfl | rfl | rfl | rfl
    · exact Note.okW_of_ok (by simp [Note.ok, hi])
    · exact Note.okW_other (by decide) (by decide)
    · exact Note.okW_other (by decide) (by decide)
    · exact Note.okW_other (by decide) (by decide)
    · exact Note.okW_other (by decide) (by decide)
    · exact Note.okW_of_ok (by simp [Note.ok, herr, sameMembers_self])
    · exact Note.okW_of_ok (by simpa [Note.ok] using hsub)
  · split at hn
    · rename_i hc
      simp only [Bool.and_eq_true, Option.isNone_iff_eq_none, List.isEmpty_iff] at hc
      simp only [List.mem_singleton] at hn
      subst hn
      by_cases hK : K
      · exact Note.okW_of_ok (by simpa [Note.ok] using hclean hK hc.1 hc.2)
      · exact ⟨fun _ => Or.inr ⟨Or.inl ⟨rfl, _, rfl⟩, hK⟩,
          fun _ h => absurd (show "C03" = "C08" from h) (by decide)⟩
    · cases hn
  · split at hn
    · rename_i hs
      split at hn
      · simp only [List.mem_singleton] at hn
        subst hn
        exact Note.okW_c8 (fun hc => absurd hs (hnoop hc).1)
      · cases hn
    · rename_i hs
      split at hn
      · simp only [List.mem_singleton] at hn
        subst hn
        exact Note.okW_c8 (fun hc => absurd hs (hnoop hc).2)
      · cases hn
    · cases hn

/-! ### the coupling -/

structure CoupW (x : MonCtx) (s0 r0 : Bool) (k0 : Nat) (K : Prop) (m : PredSt) (s : PState)
    (as : List Action) : Prop where
  hrun : run x.c (initWith x.c s0 r0 k0) as = some s
  ho : m.realHandout = s.handedOut
  inv : m.realInvoked = s.invoked
  eok : m.realEndedOk = s.endedOk
  fl : m.realFailed = s.failed
  ended : ∀ f, f ∈ m.realEnded ↔ (f ∈ s.endedOk ∨ f ∈ s.failed)
  intrNone : m.intrAt = none → ∀ a ∈ as, a ≠ Action.interrupt
  clean : K → m.intrAt = none → s0 = false ∧ r0 = false

/-- a predicate state that has seen no hand-out / start / completion yet (its interrupt fields
    `intrAt`, `intrPre`, `intrQuiescent` and its event counter are arbitrary) -/
structure PredSt.Fresh (m : PredSt) : Prop where
  ho : m.realHandout = []
  inv : m.realInvoked = []
  ended : m.realEnded = []
  eok : m.realEndedOk = []
  fl : m.realFailed = []

theorem PredSt.fresh_empty : PredSt.Fresh {} := ⟨rfl, rfl, rfl, rfl, rfl⟩

/-- the driver's seeding of a session that begins with a carried signal -/
def seededPredSt : PredSt := { intrAt := some 0, intrPre := true, intrQuiescent := true }

theorem PredSt.fresh_seeded : PredSt.Fresh seededPredSt := ⟨rfl, rfl, rfl, rfl, rfl⟩

theorem coupW_init (x : MonCtx) (s0 r0 : Bool) (k0 : Nat) {K : Prop} {m : PredSt} (hm : m.Fresh)
    (hclean : K → m.intrAt = none → s0 = false ∧ r0 = false) :
    CoupW x s0 r0 k0 K m (initWith x.c s0 r0 k0) [] where
  hrun := rfl
  ho := hm.ho
  inv := hm.inv
  eok := hm.eok
  fl := hm.fl
  ended := by intro f; rw [hm.ended]; simp [initWith, init]
  intrNone := by intro _ a ha; cases ha
  clean := hclean

variable {x : MonCtx} {s0 r0 : Bool} {k0 : Nat} {K : Prop} {m : PredSt} {s s1 : PState} {as : List Action}

theorem CoupW.reach (h : CoupW x s0 r0 k0 K m s as) : ReachableW x.c s0 r0 k0 s :=
  ReachableFrom.of_run .refl h.hrun

theorem CoupW.inv0 (hx : GoodCtx x) (h : CoupW x s0 r0 k0 K m s as) : Inv0 x.c s :=
  inv0_reachableW hx.good h.reach

theorem CoupW.mem_realInflight (hx : GoodCtx x) (h : CoupW x s0 r0 k0 K m s as) {f : Nat} :
    f ∈ m.realInflight ↔ (f ∈ s.inflight ∧ f ∈ s.invoked) := by
  have hinv := h.inv0 hx
  unfold PredSt.realInflight
  simp only [List.mem_filter, decide_eq_true_eq, h.inv, h.ended]
  constructor
  · rintro ⟨h1, h2⟩
    refine ⟨?_, h1⟩
    rcases hinv.handedSplit f (hinv.invHanded f h1) with h3 | h3
    · exact h3
    · exact absurd h3 h2
  · rintro ⟨h1, h2⟩
    refine ⟨h2, ?_⟩
    have := hinv.inflNotEnded f h1
    rintro (h3 | h3)
    · exact this.1 h3
    · exact this.2 h3

theorem CoupW.realInflight_nodup (hx : GoodCtx x) (h : CoupW x s0 r0 k0 K m s as) : m.realInflight.Nodup := by
  have hinv := h.inv0 hx
  unfold PredSt.realInflight
  rw [h.inv]
  exact hinv.invNodup.filter _

theorem CoupW.realInflight_nil (hx : GoodCtx x) (h : CoupW x s0 r0 k0 K m s as) (hi : s.inflight = []) :
    m.realInflight = [] := by
  apply List.eq_nil_iff_forall_not_mem.mpr
  intro f hf
  have := ((h.mem_realInflight hx).mp hf).1
  rw [hi] at this
  cases this

/-- a step other than `interrupt`: the coupling is kept as soon as the lists agree again -/
theorem CoupW.extend (h : CoupW x s0 r0 k0 K m s as) {a : Action} (hs : step? x.c s a = some s1)
    (ha : a ≠ .interrupt) (m' : PredSt) (hat : m'.intrAt = m.intrAt)
    (ho : m'.realHandout = s1.handedOut) (inv : m'.realInvoked = s1.invoked)
    (eok : m'.realEndedOk = s1.endedOk) (fl : m'.realFailed = s1.failed)
    (ended : ∀ f, f ∈ m'.realEnded ↔ (f ∈ s1.endedOk ∨ f ∈ s1.failed)) :
    CoupW x s0 r0 k0 K m' s1 (as ++ [a]) where
  hrun := run_snoc_Q h.hrun hs
  ho := ho
  inv := inv
  eok := eok
  fl := fl
  ended := ended
  intrNone := by
    intro hn b hb
    rw [hat] at hn
    rcases List.mem_append.mp hb with hb | hb
    · exact h.intrNone hn b hb
    · simp only [List.mem_singleton] at hb; rw [hb]; exact ha
  clean := by
    intro hK hn
    rw [hat] at hn
    exact h.clean hK hn

/-- when the predicate state has seen no signal (and `K`), the model's interrupt machine has not
    either -/
theorem CoupW.noSignal (h : CoupW x s0 r0 k0 K m s as) (hK : K) (hi : m.intrAt = none) :
    s.im.sent = false ∧ s.im.recv = false := by
  obtain ⟨h1, h2⟩ := h.clean hK hi
  subst h1; subst h2
  exact run_preI_W (h.intrNone hi) h.hrun

/-! ### one step -/

/-- what is shown of one step: the coupling after it, and the notes it emits -/
def StepGoalW (x : MonCtx) (s0 r0 : Bool) (k0 : Nat) (K : Prop) (m : PredSt) (s : PState) (a : Action)
    (s1 : PState) (as : List Action) : Prop :=
  CoupW x s0 r0 k0 K (predRun x m (stepEvents x.c x.control s a s1)).1 s1 (as ++ [a]) ∧
  ∀ n ∈ (predRun x m (stepEvents x.c x.control s a s1)).2, n.OkW K (C8Hyp x.c s0 r0)

theorem stepGoalW_silent (h : CoupW x s0 r0 k0 K m s as) {a : Action} (hs : step? x.c s a = some s1)
    (ha : a ≠ .interrupt) (hev : stepEvents x.c x.control s a s1 = [])
    (h1 : s1.handedOut = s.handedOut) (h2 : s1.invoked = s.invoked) (h3 : s1.endedOk = s.endedOk)
    (h4 : s1.failed = s.failed) : StepGoalW x s0 r0 k0 K m s a s1 as := by
  unfold StepGoalW
  rw [hev]
  refine ⟨?_, by intro n hn; cases hn⟩
  exact h.extend hs ha m rfl (by rw [h.ho, h1]) (by rw [h.inv, h2]) (by rw [h.eok, h3])
    (by rw [h.fl, h4]) (by intro f; rw [h.ended, h3, h4])

theorem stepW_queuerRecv (h : CoupW x s0 r0 k0 K m s as)
    (hs : step? x.c s .queuerRecv = some s1) : StepGoalW x s0 r0 k0 K m s .queuerRecv s1 as := by
  obtain ⟨y, rest, _, e⟩ := step_queuerRecv hs
  exact stepGoalW_silent h hs (by simp) rfl (by rw [e]) (by rw [e]) (by rw [e]) (by rw [e])

theorem stepW_queuerEnd (h : CoupW x s0 r0 k0 K m s as)
    (hs : step? x.c s .queuerEnd = some s1) : StepGoalW x s0 r0 k0 K m s .queuerEnd s1 as := by
  obtain ⟨_, _, _, e⟩ := queuerEnd_cases hs
  exact stepGoalW_silent h hs (by simp) rfl (by rw [e]) (by rw [e]) (by rw [e]) (by rw [e])

theorem stepW_schedEnd (h : CoupW x s0 r0 k0 K m s as)
    (hs : step? x.c s .schedEnd = some s1) : StepGoalW x s0 r0 k0 K m s .schedEnd s1 as := by
  obtain ⟨_, _, _, e⟩ := schedEnd_cases hs
  exact stepGoalW_silent h hs (by simp) rfl (by rw [e]) (by rw [e]) (by rw [e]) (by rw [e])

/-- `schedPoll`: C03 (no second hand-out) -/
theorem stepW_schedPoll (hx : GoodCtx x) (h : CoupW x s0 r0 k0 K m s as)
    (hs : step? x.c s .schedPoll = some s1) : StepGoalW x s0 r0 k0 K m s .schedPoll s1 as := by
  have hinv := h.inv0 hx
  obtain ⟨_, _, h3⟩ := step_schedPoll_F hs
  rcases h3 with ⟨im, se, rx, dtx, e⟩ | ⟨im, ca, f, rest, hq, e⟩ | ⟨im, f, rest, hq, e⟩
  · exact stepGoalW_silent h hs (by simp) (stepEvents_schedPoll_same (by rw [e]))
      (by rw [e]) (by rw [e]) (by rw [e]) (by rw [e])
  · have e1 : s1.handedOut = s.handedOut ++ [f] := by rw [e]; rfl
    have e2 : s1.invoked = s.invoked := by rw [e]; rfl
    have e3 : s1.endedOk = s.endedOk := by rw [e]; rfl
    have e4 : s1.failed = s.failed := by rw [e]; rfl
    unfold StepGoalW
    rw [stepEvents_schedPoll_snoc e1, predRun_single]
    refine ⟨?_, ?_⟩
    · refine h.extend hs (by simp) _ rfl ?_ ?_ ?_ ?_ ?_
      · rw [predFut_handout_fst, e1, ← h.ho]
      · rw [predFut_handout_fst, e2, ← h.inv]
      · rw [predFut_handout_fst, e3, ← h.eok]
      · rw [predFut_handout_fst, e4, ← h.fl]
      · intro g; rw [predFut_handout_fst, e3, e4]; exact h.ended g
    · intro n hn
      apply Note.okW_of_ok
      refine predFut_handout_ok x m f ?_ n hn
      rw [h.ho]
      exact (hinv.head_not_handed hq).2.1
  · exact stepGoalW_silent h hs (by simp) (stepEvents_schedPoll_same (by rw [e]))
      (by rw [e]) (by rw [e]) (by rw [e]) (by rw [e])

theorem stepW_finish (hx : GoodCtx x) (h : CoupW x s0 r0 k0 K m s as) {f : Nat} {ok : Bool}
    (hs : step? x.c s (.finish f ok) = some s1) : StepGoalW x s0 r0 k0 K m s (.finish f ok) s1 as := by
  obtain ⟨hf1, _, h3⟩ := step_finish hs
  have hev : stepEvents x.c x.control s (.finish f ok) s1 = [.fin f ok] := rfl
  unfold StepGoalW
  rw [hev, predRun_single]
  refine ⟨?_, ?_⟩
  swap
  · -- C07 at the failure: a function ordered after `f` is handed out only after `f` ended ok, and
    -- `f` is still in flight
    have hinv := h.inv0 hx
    intro n hn
    apply Note.okW_of_ok
    refine predFut_fin_ok x m f ok ?_ n hn
    intro _ g hg
    rw [h.inv] at hg
    cases hrp : reachPlus x.c.D f g with
    | false => rfl
    | true =>
      exact absurd (handout_after_ancestors_of_inv0 hinv (Or.inr (Or.inl (hinv.invHanded g hg)))
        (reachPlus_sound hrp)) (hinv.inflNotEnded f hf1).1
  have key : s1.handedOut = s.handedOut ∧ s1.invoked = s.invoked ∧
      s1.endedOk = (if ok then s.endedOk ++ [f] else s.endedOk) ∧
      s1.failed = (if ok then s.failed else s.failed ++ [f]) := by
    rcases h3 with ⟨hok, dq, _, e⟩ | ⟨hok, _, e⟩ | ⟨hok, _, e⟩ <;> subst hok <;> rw [e] <;>
      exact ⟨rfl, rfl, rfl, rfl⟩
  obtain ⟨e1, e2, e3, e4⟩ := key
  refine h.extend hs (by simp) _ rfl ?_ ?_ ?_ ?_ ?_
  · rw [predFut_fin_fst, e1, ← h.ho]
  · rw [predFut_fin_fst, e2, ← h.inv]
  · rw [predFut_fin_fst, e3, ← h.eok]
  · rw [predFut_fin_fst, e4, ← h.fl]
  · intro g
    rw [predFut_fin_fst, e3, e4]
    simp only [List.mem_append, List.mem_singleton, h.ended]
    cases ok <;> simp only [if_true, if_false, Bool.false_eq_true, List.mem_append, List.mem_singleton] <;> tauto

theorem stepW_interrupt (h : CoupW x s0 r0 k0 K m s as) (hs : step? x.c s .interrupt = some s1) :
    StepGoalW x s0 r0 k0 K m s .interrupt s1 as := by
  have e := interrupt_cases hs
  have hev : stepEvents x.c x.control s .interrupt s1 = [.intr] := rfl
  unfold StepGoalW
  rw [hev, predRun_single]
  refine ⟨?_, by rw [predFut_intr_snd]; intro n hn; cases hn⟩
  rw [predFut_intr_fst]
  have hsome : (match m.intrAt with | none => some m.realInvoked.length | y => y) ≠ none := by
    cases m.intrAt <;> simp
  refine ⟨run_snoc_Q h.hrun hs, by rw [e]; exact h.ho, by rw [e]; exact h.inv, by rw [e]; exact h.eok,
    by rw [e]; exact h.fl, by rw [e]; exact h.ended, ?_, ?_⟩
  · intro hn; exact absurd hn hsome
  · intro _ hn; exact absurd hn hsome

/-- `invoke`: C03 (no double start), C01, C02, C07, C10; under `C8Hyp` no function is ever started -/
theorem stepW_invoke (hx : GoodCtx x) (h : CoupW x s0 r0 k0 K m s as) {f : Nat}
    (hs : step? x.c s (.invoke f) = some s1) : StepGoalW x s0 r0 k0 K m s (.invoke f) s1 as := by
  have hr := h.reach
  have hinv := h.inv0 hx
  obtain ⟨hf1, hf2, e⟩ := invoke_cases hs
  have hfh : f ∈ s.handedOut := hinv.inflHanded f hf1
  have hev : stepEvents x.c x.control s (.invoke f) s1 = [.invoke f] := rfl
  have e1 : s1.handedOut = s.handedOut := by rw [e]
  have e2 : s1.invoked = s.invoked ++ [f] := by rw [e]
  have e3 : s1.endedOk = s.endedOk := by rw [e]
  have e4 : s1.failed = s.failed := by rw [e]
  unfold StepGoalW
  rw [hev, predRun_single]
  have hcoup : CoupW x s0 r0 k0 K (predFut x m (.invoke f)).1 s1 (as ++ [.invoke f]) := by
    refine h.extend hs (by simp) _ rfl ?_ ?_ ?_ ?_ ?_
    · rw [predFut_invoke_fst, e1, ← h.ho]
    · rw [predFut_invoke_fst, e2, ← h.inv]
    · rw [predFut_invoke_fst, e3, ← h.eok]
    · rw [predFut_invoke_fst, e4, ← h.fl]
    · intro g; rw [predFut_invoke_fst, e3, e4]; exact h.ended g
  refine ⟨hcoup, ?_⟩
  have hlen : m.realInflight.length + 1 ≤ s.inflight.length := by
    have hnd : (f :: m.realInflight).Nodup :=
      List.nodup_cons.mpr ⟨fun hm => hf2 ((h.mem_realInflight hx).mp hm).2, h.realInflight_nodup hx⟩
    have hsub : (f :: m.realInflight) ⊆ s.inflight := by
      intro g hg
      rcases List.mem_cons.mp hg with rfl | hg
      · exact hf1
      · exact ((h.mem_realInflight hx).mp hg).1
    simpa using List.Nodup.length_le_of_subset hnd hsub
  apply predFut_invoke_okW
  · rw [h.inv]; exact hf2
  · unfold conflictInflightB
    rw [List.any_eq_false]
    intro u hu
    have hu' := (h.mem_realInflight hx).mp hu
    by_cases hne : u = f
    · subst hne; simp
    · have : conflict (declOf x.decls u) (declOf x.decls f) = false := by
        cases hcf : conflict (declOf x.decls u) (declOf x.decls f) with
        | false => rfl
        | true =>
          exfalso
          rcases hx.ordered u f (hinv.handed_lt (hinv.inflHanded u hu'.1)) (hinv.handed_lt hfh) hne hcf
            with h' | h'
          · exact no_ancestor_inflight_of_inv0 hinv hu'.1 hf1 h'
          · exact no_ancestor_inflight_of_inv0 hinv hf1 hu'.1 h'
      simp [this]
  · intro u hu
    rw [h.eok]
    exact handout_after_ancestors_of_inv0 hinv (Or.inr (Or.inl hfh))
      ((reachPlus_sound hu).mono_edges hx.userSub)
  · intro p hp
    rw [h.eok]
    exact handout_after_ancestors_of_inv0 hinv (Or.inr (Or.inl hfh)) (.edge (mem_parents.mp hp))
  · intro y hy
    rw [h.fl] at hy
    cases hrp : reachPlus x.c.D y f with
    | false => rfl
    | true => exact absurd hfh (no_successor_of_failedW hx.good hr hy (reachPlus_sound hrp)).1
  · intro y hy
    rw [h.fl] at hy
    by_cases hyf : y = f
    · exact Or.inl hyf
    · right
      cases hcf : conflict (declOf x.decls y) (declOf x.decls f) with
      | false => rfl
      | true =>
        exfalso
        have hyh : y ∈ s.handedOut := hinv.endedHanded y (Or.inr hy)
        have hyn : y < x.c.n := hinv.handed_lt hyh
        have hfn : f < x.c.n := hinv.handed_lt hfh
        rcases hx.ordered y f hyn hfn hyf hcf with hyf' | hfy
        · exact (no_successor_of_failedW hx.good hr hy hyf').1 hfh
        · have hfe : f ∈ s.endedOk := handout_after_ancestors_of_inv0 hinv (Or.inr (Or.inl hyh)) hfy
          exact hf2 (hinv.endedInvoked f (Or.inl hfe))
  · intro hseq
    have := hinv.limSeq hseq
    omega
  · intro hseq l hl
    have := hinv.limPar hseq l hl
    omega
  · -- C08 under `C8Hyp`: nothing is ever handed out, so nothing is in flight
    rintro ⟨hst, h0⟩
    have := (carried_finish_nothing hst h0 hr).1
    rw [this] at hfh
    cases hfh

/-- the `q` observation: C04 (no deadlock), the "never returns" clauses, C10 work conservation -/
theorem qW_coup (hx : GoodCtx x) (h : CoupW x s0 r0 k0 K m s as) (hq : Quiescent x.c s)
    (hres : s.result = none) :
    CoupW x s0 r0 k0 K (predFut x m .q).1 s as ∧ ∀ n ∈ (predFut x m .q).2, n.OkW K (C8Hyp x.c s0 r0) := by
  have hr := h.reach
  have hinv := h.inv0 hx
  refine ⟨?_, ?_⟩
  · rw [predFut_q_fst]
    exact ⟨h.hrun, h.ho, h.inv, h.eok, h.fl, h.ended, h.intrNone, h.clean⟩
  · -- work conservation: the limit is not what keeps the scheduler from polling (below a limit
    -- `l+1`, or unbounded: `limit = some 0`), clean run: every ready function has been started
    have hwc : underLimit x.c s = true → (s.im.sent = false ∧ s.im.recv = false) → s.failed = [] →
        allBlockedB x.c m.realInvoked m.realEndedOk = true := by
      intro hul hni hf
      unfold allBlockedB
      rw [List.all_eq_true]
      intro v hv
      rw [List.mem_range] at hv
      simp only [Bool.or_eq_true, decide_eq_true_eq, List.any_eq_true]
      by_cases hall : ∀ p ∈ parents x.c.D v, p ∈ s.endedOk
      · left
        rw [h.inv]
        exact (idle_under_limit_all_startedW hx.good hr hq hul hni hf hv hall).2
      · right
        simp only [not_forall] at hall
        obtain ⟨p, hp, hpe⟩ := hall
        exact ⟨p, hp, by rw [h.eok]; exact hpe⟩
    apply predFut_q_okW
    · cases hi : s.inflight with
      | nil =>
        have := deadlock_freeW hx.good hr hq hi
        rw [hres] at this
        cases this
      | cons f l =>
        have hf : f ∈ s.inflight := by rw [hi]; simp
        have hfi := quiescent_invoke_quiet hq hres f hf
        have := (h.mem_realInflight hx).mpr ⟨hf, hfi⟩
        intro hn
        rw [hn] at this
        cases this
    · intro hK hi hf hseq hlim
      exact hwc (underLimit_unlimited hseq (Or.inr hlim)) (h.noSignal hK hi) (by rw [← h.fl]; exact hf)
    · intro hK hi hf hseq l hlim hlt
      have hlen : s.inflight.length ≤ m.realInflight.length := by
        apply List.Nodup.length_le_of_subset hinv.inflNodup
        intro f hf'
        exact (h.mem_realInflight hx).mpr ⟨hf', quiescent_invoke_quiet hq hres f hf'⟩
      exact hwc (underLimit_of_lt hseq hlim (by omega)) (h.noSignal hK hi) (by rw [← h.fl]; exact hf)

/-- the `ret` step: C04 (nothing in flight at the return), C07 (errors / first error), C03 clean-all -/
theorem stepW_ret (hx : GoodCtx x) (h : CoupW x s0 r0 k0 K m s as) (hs : step? x.c s .ret = some s1) :
    StepGoalW x s0 r0 k0 K m s .ret s1 as := by
  have hr := h.reach
  have hinv0 := h.inv0 hx
  have hinv := inv_reachableW hx.good hx.api hr
  have hr1 : ReachableW x.c s0 r0 k0 s1 := ReachableFrom.step .ret hr hs
  obtain ⟨hsd, hqd, hres, e⟩ := ret_cases hs
  have hinfl : s.inflight = [] := hinv.sDoneInfl hsd
  have e1 : s1.handedOut = s.handedOut := by rw [e]
  have e2 : s1.invoked = s.invoked := by rw [e]
  have e3 : s1.endedOk = s.endedOk := by rw [e]
  have e4 : s1.failed = s.failed := by rw [e]
  have e5 : s1.result = some (mkRet x.c s) := by rw [e]
  have hri : m.realInflight = [] := h.realInflight_nil hx hinfl
  have hcoup : ∀ m' : PredSt, m' = { m with nEv := m.nEv + 1 } →
      CoupW x s0 r0 k0 K m' s1 (as ++ [.ret]) := by
    intro m' hm'
    subst hm'
    refine h.extend hs (by simp) _ rfl ?_ ?_ ?_ ?_ ?_
    · rw [e1]; exact h.ho
    · rw [e2]; exact h.inv
    · rw [e3]; exact h.eok
    · rw [e4]; exact h.fl
    · intro g; rw [e3, e4]; exact h.ended g
  unfold StepGoalW
  cases hse : s.shortErr with
  | some f =>
    have hmk : mkRet x.c s = .err f := by unfold mkRet; rw [hse]
    have hev : stepEvents x.c x.control s .ret s1 = [.retErr f] := by
      simp only [stepEvents, e5, hmk]
    rw [hev, predRun_single]
    refine ⟨hcoup _ (predFut_retErr_fst x m f), ?_⟩
    intro n hn
    apply Note.okW_of_ok
    obtain ⟨hmode, hfl, _, _, _⟩ := shortCircuit_first_errorW hx.good hx.api hr hse
    refine predFut_retErr_ok x m f hri (by rw [h.fl]; exact hfl) ?_ n hn
    rw [h.inv]
    exact (seqLast_reachableW hx.good (hx.api hmode) hr).short f hse
  | none =>
    have hmk : mkRet x.c s = .outcome (s.sRemaining == 0) s.handedOut
        ((List.range x.c.n).filter (fun v => decide (v ∉ s.handedOut))) s.errors := by
      unfold mkRet; rw [hse]
    have hres1 : s1.result = some (.outcome (s.sRemaining == 0) s.handedOut
        ((List.range x.c.n).filter (fun v => decide (v ∉ s.handedOut))) s.errors) := by rw [e5, hmk]
    have hev : stepEvents x.c x.control s .ret s1 =
        [.retOutcome (s.sRemaining == 0) s.handedOut
          ((List.range x.c.n).filter (fun v => decide (v ∉ s.handedOut))) s.errors
          (if x.control then (if (Ret.outcome (s.sRemaining == 0) s.handedOut
            ((List.range x.c.n).filter (fun v => decide (v ∉ s.handedOut))) s.errors).isBreak
              then "break" else "cont") else "na")] := by
      simp only [stepEvents, hres1]
    rw [hev, predRun_single]
    refine ⟨hcoup _ (predFut_retOutcome_fst x m _ _ _ _ _), ?_⟩
    have hperm := invoked_perm_handedOut hinv0 hinfl
    apply predFut_retOutcome_okW
    · exact hri
    · rw [h.fl, hinv0.errs]
      split
      · rfl
      · rename_i hm
        cases hmode : x.c.errMode with
        | none => exact (hinv0.failedMode hmode).symm
        | collect => exact absurd hmode hm
        | shortCircuit => exact (hinv0.short0 hmode hse).symm
    · intro f hf
      rw [h.inv] at hf
      exact hinv0.invHanded f hf
    · intro hK hi hf
      have hni := h.noSignal hK hi
      have hrecv : s1.im.recv = false := by rw [e]; exact hni.2
      have := clean_return_allW hx.good hr1 hres1 hrecv (by rw [e4, ← h.fl]; exact hf)
      rw [e1] at this
      rw [h.inv]
      exact isPermOfRange_of_perm (hperm.trans this)
    · rintro ⟨hst, _⟩
      rcases hst with hst | hst <;> rw [hst] <;> exact ⟨by simp, by simp⟩

/-- one model step: the coupling is kept and the notes of its events are good -/
theorem stepW_all (hx : GoodCtx x) (h : CoupW x s0 r0 k0 K m s as) {a : Action}
    (hs : step? x.c s a = some s1) : StepGoalW x s0 r0 k0 K m s a s1 as := by
  cases a with
  | queuerRecv => exact stepW_queuerRecv h hs
  | queuerEnd => exact stepW_queuerEnd h hs
  | schedPoll => exact stepW_schedPoll hx h hs
  | invoke f => exact stepW_invoke hx h hs
  | finish f ok => exact stepW_finish hx h hs
  | interrupt => exact stepW_interrupt h hs
  | schedEnd => exact stepW_schedEnd h hs
  | ret => exact stepW_ret hx h hs

/-- the generalised statement: from any coupled pair of states -/
theorem predsW_gen (hx : GoodCtx x) {s s' : PState} {evs : List Ev} (h : ObsRun x s evs s') :
    ∀ (m : PredSt) (as : List Action), CoupW x s0 r0 k0 K m s as →
      ∀ n ∈ (predRun x m evs).2, n.OkW K (C8Hyp x.c s0 r0) := by
  induction h with
  | nil s => intro m as _ n hn; cases hn
  | @step s s1 s' evs a hs _ _ ih =>
    intro m as hc n hn
    obtain ⟨hc', hnotes⟩ := stepW_all hx hc hs
    rw [predRun_append] at hn
    rcases List.mem_append.mp hn with hn | hn
    · exact hnotes n hn
    · exact ih _ _ hc' n hn
  | @q s s' evs hq hres _ ih =>
    intro m as hc n hn
    obtain ⟨hc', hnotes⟩ := qW_coup hx hc hq hres
    simp only [predRun] at hn
    rcases List.mem_append.mp hn with hn | hn
    · exact hnotes n hn
    · exact ih _ _ hc' n hn

end FG
