/-
  Theorems/C14.lean — petgraph's `Topo` visits every node exactly once, each after all its
  predecessors; `try_*` stop at the first error; the run-time preload lists every root once.
-/
import FnGraphVerif.Proofs.BuilderInv
import FnGraphVerif.Model.Spec
import FnGraphVerif.Proofs.TopoLemmas
namespace FG

/-- a concrete good graph (triangle 0→1, 0→2, 1→2) used by the non-vacuity examples -/
theorem goodG_ex3 : GoodG ⟨3, [⟨0, 1, .logic⟩, ⟨0, 2, .logic⟩, ⟨1, 2, .data⟩]⟩ := by
  have hedge : ∀ u v, IsEdge ⟨3, [⟨0, 1, .logic⟩, ⟨0, 2, .logic⟩, ⟨1, 2, .data⟩]⟩ u v → u < v := by
    rintro u v ⟨e, he, rfl, rfl⟩
    simp only [List.mem_cons, List.not_mem_nil, or_false] at he
    rcases he with rfl | rfl | rfl <;> decide
  refine ⟨?_, ?_, ?_⟩
  · intro e he
    simp only [List.mem_cons, List.not_mem_nil, or_false] at he
    rcases he with rfl | rfl | rfl <;> decide
  · intro u
    by_cases h0 : u = 0
    · subst h0; decide
    by_cases h1 : u = 1
    · subst h1; decide
    by_cases h2 : u = 2
    · subst h2; decide
    have hc : children ⟨3, [⟨0, 1, .logic⟩, ⟨0, 2, .logic⟩, ⟨1, 2, .data⟩]⟩ u = [] := by
      simp [children, Ne.symm h0, Ne.symm h1]
    have hp : parents ⟨3, [⟨0, 1, .logic⟩, ⟨0, 2, .logic⟩, ⟨1, 2, .data⟩]⟩ u = [] := by
      simp [parents, Ne.symm h1, Ne.symm h2]
    rw [hc, hp]; exact ⟨List.nodup_nil, List.nodup_nil⟩
  · intro u hu
    have : ∀ a b, ReachP ⟨3, [⟨0, 1, .logic⟩, ⟨0, 2, .logic⟩, ⟨1, 2, .data⟩]⟩ a b → a < b := by
      intro a b h
      induction h with
      | edge he => exact hedge _ _ he
      | tail _ he ih => exact Nat.lt_trans ih (hedge _ _ he)
    exact Nat.lt_irrefl _ (this u u hu)

theorem flip_good {g : Dag} (hg : GoodG g) : GoodG g.flip := by
  refine ⟨?_, ?_, ?_⟩
  · intro e he
    simp only [Dag.flip, List.mem_map] at he
    obtain ⟨e0, he0, rfl⟩ := he
    exact ⟨(hg.wf e0 he0).2, (hg.wf e0 he0).1⟩
  · intro u
    rw [children_flip, parents_flip]
    exact ⟨(hg.simple u).2, (hg.simple u).1⟩
  · intro u hu
    exact hg.acyclic u (reachP_flip hu)

example : GoodG (Dag.flip ⟨3, [⟨0, 1, .logic⟩, ⟨0, 2, .logic⟩, ⟨1, 2, .data⟩]⟩) ∧
    (Dag.flip ⟨3, [⟨0, 1, .logic⟩, ⟨0, 2, .logic⟩, ⟨1, 2, .data⟩]⟩).edges
      = [⟨1, 0, .logic⟩, ⟨2, 0, .logic⟩, ⟨2, 1, .data⟩] :=
  ⟨flip_good goodG_ex3, by decide⟩

/-- **C14**: the traversal is a permutation of all nodes … -/
theorem topo_perm {g : Dag} (hg : GoodG g) : (topo g).Perm (List.range g.n) := by
  obtain ⟨st, hinv, hall⟩ := topo_inv hg
  rw [List.perm_ext_iff_of_nodup hinv.nodup List.nodup_range]
  intro v
  rw [List.mem_range]
  exact ⟨hinv.bound v, hall v⟩

example : topo ⟨4, [⟨0, 1, .logic⟩, ⟨0, 2, .logic⟩, ⟨1, 3, .data⟩, ⟨2, 3, .logic⟩]⟩ = [0, 1, 2, 3] := by decide
example : (topo ⟨3, [⟨0, 1, .logic⟩, ⟨0, 2, .logic⟩, ⟨1, 2, .data⟩]⟩).Perm (List.range 3) :=
  topo_perm goodG_ex3

/-- … in which every edge's source comes before its target -/
theorem topo_respects {g : Dag} (hg : GoodG g) {u v : Nat} (he : IsEdge g u v) :
    idxOf (topo g) u < idxOf (topo g) v := by
  obtain ⟨st, hinv, hall⟩ := topo_inv hg
  exact (hinv.edges u v he (hall v (he.lt hg.wf).2)).2

example : idxOf (topo ⟨3, [⟨0, 1, .logic⟩, ⟨0, 2, .logic⟩, ⟨1, 2, .data⟩]⟩) 1
    < idxOf (topo ⟨3, [⟨0, 1, .logic⟩, ⟨0, 2, .logic⟩, ⟨1, 2, .data⟩]⟩) 2 :=
  topo_respects goodG_ex3 ⟨⟨1, 2, .data⟩, by decide, rfl, rfl⟩

/-- the decidable form evaluated by the driver on the real sequences -/
theorem topo_topoOrderB {g : Dag} (hg : GoodG g) : topoOrderB g (topo g) = true := by
  unfold topoOrderB isPermOfRange
  have hp := topo_perm hg
  simp only [Bool.and_eq_true, beq_iff_eq, List.all_eq_true, decide_eq_true_eq, List.mem_range]
  refine ⟨⟨by simpa using hp.length_eq, ?_⟩, ?_⟩
  · intro v hv; exact hp.symm.subset (List.mem_range.mpr hv)
  · intro e he; exact topo_respects hg ⟨e, he, rfl, rfl⟩

example : topoOrderB ⟨4, [⟨0, 1, .logic⟩, ⟨0, 2, .logic⟩, ⟨1, 3, .data⟩, ⟨2, 3, .logic⟩]⟩
    (topo ⟨4, [⟨0, 1, .logic⟩, ⟨0, 2, .logic⟩, ⟨1, 3, .data⟩, ⟨2, 3, .logic⟩]⟩) = true := by decide
/-- the predicate is not trivially true: it rejects an order violating an edge -/
example : topoOrderB ⟨3, [⟨0, 1, .logic⟩, ⟨1, 2, .data⟩]⟩ [0, 2, 1] = false := by decide

/-- walking a `Topo` that was initialised on one graph over another graph with the same edges
    (what `toposort()` callers do) gives the same order -/
theorem topoAll_congr {g g' : Dag} (hn : g.n = g'.n) (he : g.edges = g'.edges) :
    topoAll g (g.n + 1) [] (roots g').reverse = topo g' := by
  obtain ⟨n, es⟩ := g
  obtain ⟨n', es'⟩ := g'
  simp only at hn he
  subst hn; subst he
  rfl

example : topoAll ⟨3, [⟨0, 2, .logic⟩, ⟨1, 2, .data⟩]⟩ (3 + 1) [] (roots ⟨3, [⟨0, 2, .logic⟩, ⟨1, 2, .data⟩]⟩).reverse
    = [1, 0, 2] := by decide

/-- **C14**: `try_fold` / `try_for_each` call the closure on the prefix of the order up to and
    including the first failing function, return its error, and invoke nothing afterwards -/
theorem tryVisit_spec (order fails : List Nat) :
    let r := tryVisit order fails
    (∃ rest, order = r.1 ++ rest) ∧
    (r.2 = none → r.1 = order ∧ ∀ x ∈ order, x ∉ fails) ∧
    (∀ e, r.2 = some e → e ∈ fails ∧ r.1.getLast? = some e ∧ ∀ x ∈ r.1.dropLast, x ∉ fails) := by
  induction order with
  | nil => simp [tryVisit]
  | cons x rest ih =>
    unfold tryVisit
    by_cases hx : x ∈ fails
    · simp only [hx, if_true]
      refine ⟨⟨rest, by simp⟩, by simp, ?_⟩
      intro e he
      simp only [Option.some.injEq] at he
      subst he
      simp [hx]
    · simp only [hx, if_false]
      simp only at ih
      obtain ⟨⟨r, hr⟩, h2, h3⟩ := ih
      refine ⟨⟨r, by rw [List.cons_append, ← hr]⟩, ?_, ?_⟩
      · intro hn
        obtain ⟨h2a, h2b⟩ := h2 hn
        refine ⟨by rw [h2a], ?_⟩
        intro y hy
        rcases List.mem_cons.mp hy with rfl | hy
        · exact hx
        · exact h2b y hy
      · intro e he
        obtain ⟨h3a, h3b, h3c⟩ := h3 e he
        have hne : (tryVisit rest fails).1 ≠ [] := by
          intro hh; rw [hh] at h3b; simp at h3b
        refine ⟨h3a, ?_, ?_⟩
        · rw [List.getLast?_cons_of_ne_nil hne]; exact h3b
        · intro y hy
          obtain ⟨a, t, hat⟩ := List.exists_cons_of_ne_nil hne
          rw [hat, List.dropLast_cons_cons] at hy
          rcases List.mem_cons.mp hy with rfl | hy
          · exact hx
          · rw [hat] at h3c; exact h3c y hy

example : tryVisit [0, 1, 2, 3] [2, 3] = ([0, 1, 2], some 2) := by decide
example : tryVisit [0, 1, 2, 3] [] = ([0, 1, 2, 3], none) := by decide

/-- the run-time preload (`fns_no_predecessors`): every function without predecessors exactly once -/
theorem preload_roots {c : Cfg} (hg : GoodG c.D) (hcnt : ∀ v, c.counts0[v]?.getD 0 = (parents c.D v).length) :
    (preload c).Nodup ∧ ∀ v, v ∈ preload c ↔ (v < c.D.n ∧ parents c.D v = []) := by
  have hp := topo_perm hg
  unfold preload
  refine ⟨(hp.nodup_iff.mpr List.nodup_range).filter _, ?_⟩
  intro v
  simp only [List.mem_filter, beq_iff_eq, hcnt v, List.length_eq_zero_iff]
  rw [hp.mem_iff, List.mem_range]

example : preload { D := ⟨4, [⟨0, 2, .logic⟩, ⟨1, 2, .data⟩, ⟨2, 3, .logic⟩]⟩, counts0 := [0, 0, 2, 1] } = [1, 0] := by
  decide

end FG
