/-
  Theorems/C12Eq.lean — determinism and inequality of builds (`==`).
-/
import FnGraphVerif.Theorems.Build
namespace FG

/-- `==` is reflexive -/
theorem eqGraph_refl (G : FnGraph) : eqGraph G G = true := by
  rw [eqGraph_true_iff]
  exact ⟨rfl, rfl, zip_all_eq_self _ (fun x => by simp) _⟩

/-- the accepted (logic/contains) edges are recoverable from the built edge list: they are its
    maximal `data`-free prefix, so equal built edge lists come from equal accepted edge lists -/
theorem user_edges_unique {b1 b2 : BState} (h1 : BReach b1) (h2 : BReach b2) {G1 G2 : FnGraph}
    (hb1 : build b1 = some G1) (hb2 : build b2 = some G2) (he : G1.graph.edges = G2.graph.edges) :
    b1.edges = b2.edges := by
  obtain ⟨_, _, ⟨D1, hD1, hd1⟩, hu1, _⟩ := build_sound h1 hb1
  obtain ⟨_, _, ⟨D2, hD2, hd2⟩, hu2, _⟩ := build_sound h2 hb2
  rw [hD1, hD2] at he
  exact prefix_unique (fun e : Edge => e.kind = .data) _ _ _ _ he hu1 hu2
    (fun e hm => (hd1 e hm).1) (fun e hm => (hd2 e hm).1)

/-- **C12** (determinism + inequality): two builds compare equal (`==`) exactly when the accepted
    builder states are the same — same functions, same accepted edges with the same kinds, in the
    same positions.  (Equal builds then have equal ranks because `build` is a function.) -/
theorem eqGraph_iff {b1 b2 : BState} (h1 : BReach b1) (h2 : BReach b2) {G1 G2 : FnGraph}
    (hb1 : build b1 = some G1) (hb2 : build b2 = some G2) :
    eqGraph G1 G2 = true ↔ b1 = b2 := by
  constructor
  · intro heq
    obtain ⟨hn, he, hd⟩ := (eqGraph_true_iff G1 G2).mp heq
    have s1 := build_sound h1 hb1
    have s2 := build_sound h2 hb2
    have hfns : b1.fns = b2.fns := by
      rw [s1.1, s2.1] at hd
      apply eq_of_zip_all _ _ _ _ _ hd
      · intro x y hxy; simpa using hxy
      · rw [← s1.2.1, ← s2.2.1]; exact hn
    have hedges := user_edges_unique h1 h2 hb1 hb2 he
    obtain ⟨f1, e1⟩ := b1
    obtain ⟨f2, e2⟩ := b2
    simp only at hfns hedges
    rw [hfns, hedges]
  · rintro rfl
    rw [hb1] at hb2
    cases hb2
    exact eqGraph_refl G1

/-- equal builds have equal ranks, counts and structures: they are the same value -/
theorem eqGraph_eq {b1 b2 : BState} (h1 : BReach b1) (h2 : BReach b2) {G1 G2 : FnGraph}
    (hb1 : build b1 = some G1) (hb2 : build b2 = some G2) (heq : eqGraph G1 G2 = true) : G1 = G2 := by
  have := (eqGraph_iff h1 h2 hb1 hb2).mp heq
  subst this
  rw [hb1] at hb2
  exact Option.some.inj hb2

theorem build_deterministic {b1 b2 : BState} (h : b1 = b2) : build b1 = build b2 := by
  rw [h]

/-! ### non-vacuity -/

/-- the example builder with the kind of its second edge changed by a later upsert -/
def exOps2_D2 : List Op := exOps_D2 ++ [.edge .logic 2 3]
def exB2_D2 : BState := exOps2_D2.foldl (fun b op => (applyOp b op).1) BState.empty
theorem exB2_reach_D2 : BReach exB2_D2 := breach_ops exOps2_D2 (by decide) BReach.empty

/-- the example builder with the two edges accepted in the other order -/
def exOps3_D2 : List Op :=
  [.addFn ⟨[], [1], 0⟩, .addFn ⟨[1], [], 1⟩, .addFn ⟨[], [2], 2⟩, .addFn ⟨[1], [2], 3⟩,
   .edge .contains 2 3, .edge .logic 0 2]
def exB3_D2 : BState := exOps3_D2.foldl (fun b op => (applyOp b op).1) BState.empty
theorem exB3_reach_D2 : BReach exB3_D2 := breach_ops exOps3_D2 (by decide) BReach.empty

-- same calls: equal; a different kind on one edge, or another edge order: not equal
example : eqGraph exG_D2 exG_D2 = true := (eqGraph_iff exB_reach_D2 exB_reach_D2 exG_build_D2 exG_build_D2).mpr rfl
example : ∃ G2, build exB2_D2 = some G2 ∧ eqGraph exG_D2 G2 = false ∧ exB_D2 ≠ exB2_D2 ∧ G2.ranks = exG_D2.ranks :=
  ⟨_, rfl, by decide, by decide, by decide⟩
example : ∃ G3, build exB3_D2 = some G3 ∧ eqGraph exG_D2 G3 = false ∧ exB_D2 ≠ exB3_D2 ∧ G3.ranks = exG_D2.ranks :=
  ⟨_, rfl, by decide, by decide, by decide⟩
example {G2 : FnGraph} (hb : build exB2_D2 = some G2) : eqGraph exG_D2 G2 = false := by
  have := eqGraph_iff exB_reach_D2 exB2_reach_D2 exG_build_D2 hb
  cases h : eqGraph exG_D2 G2 with
  | false => rfl
  | true => exact absurd (this.mp h) (by decide)
example : build exB_D2 = build (exOps_D2.foldl (fun b op => (applyOp b op).1) BState.empty) :=
  build_deterministic rfl

end FG
