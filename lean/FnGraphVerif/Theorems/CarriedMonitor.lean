/-
  Theorems/CarriedMonitor.lean — the correspondence driver's monitors for sessions that share one
  `InterruptibilityState` between runs: the driver starts the tracking monitor of such a run from
  `{ s := initWith c s0 r0 k0 }` (`im := { sent, recv, cnt }` carried over, `Driver/Main.lean`) and,
  when a signal is pending (`s0 ∨ r0`), seeds the predicate state with
  `{ intrAt := some 0, intrPre := true, intrQuiescent := exact }`.

  1. `track_soundW`, `track_reachableW` (+ `track_qW`): MONITOR SOUNDNESS from a carried start — an
     accepted non-coop trace is a run of the model from `initWith …` with exactly the observed
     external actions; the monitor's final state is `ReachableW`.  (`trackFut_sound` /
     `track_sound` are stated for an arbitrary `TrackSt`, so these are corollaries.)

  2. THE PREDICATES on runs from a carried start.
     FINDING — the statement as assigned is FALSE.  It read: for `ObsRun x (initWith …) evs s`
     every note of `predRun x {} evs` of the properties C01, C02, C03, C04, C07, C10 is ok.  Two of
     these notes presuppose that the interrupt machine never saw a signal, and `predRun x {}`
     believes that (`intrAt = none`) although a signal was carried in:
        `C03 … clean-all`  (a run without signal / failure hands out everything), at the return;
        `C10 … idle below limit l with a ready function unstarted`  (work conservation), at `q`
        (and its `limit = some 0` form `C10 … limit 0 means unbounded, yet a ready function is
        unstarted`, added to the monitor later; `cx0_fails_Z` below).
     `preds_holdW_safety_original_false`: the diamond, `PollNextN(3)`, limit 2, a signal received
     by an earlier run (`r0`): the run starts `0` and `2`, is then interrupted with `1` ready and
     not started, and returns `processed = [0, 2]`; both notes are false (and only these two).
     What IS true (all proved here):
       * `preds_holdW_safety_partial` — from `{}`, any carried state: every C01 / C02 / C04 / C07
         note is ok, and every C03 / C10 note is ok except possibly those two clean-run notes;
       * `preds_holdW_safety` — the assigned statement with the missing side condition
         `s0 = false ∧ r0 = false` (only a poll COUNT `k0` is carried): all six properties;
       * `preds_holdW_safety_seeded` / `preds_holdW_safety_driver` — from the driver's seeded
         predicate state (any `Fresh` state with `intrAt ≠ none`; the driver's
         `if s0 || r0 then { intrAt := some 0, … } else {}`): all six properties, for EVERY carried
         state — the seeding is exactly what makes the clean-run notes inapplicable.
  3. `preds_holdW_C08` — the C08 notes with the driver's seeding (indeed from any `Fresh` predicate
     state) when a signal is carried in (`r0 ∨ s0`) and the strategy is `FinishCurrent` /
     `PollNextN(0)`: nothing is handed out at all (`carried_finish_nothing`), so no function is
     ever started and every C08 note holds.

  The coupling invariant and the step lemmas are in `Proofs/VCoup.lean`, the model facts for
  `ReachableW` in `Proofs/VCarried.lean`.
-/
import FnGraphVerif.Theorems.MonitorSound
import FnGraphVerif.Proofs.VCoup
namespace FG

/-! ## 1. monitor soundness from a carried start -/

/-- **Monitor soundness, carried `InterruptibilityState`**: a trace accepted by the tracking
    monitor started at `{ s := initWith x.c s0 r0 k0 }` (non-coop) is a run of the model from
    `initWith …` whose external actions are exactly the observed completions and signals, in order. -/
theorem track_soundW {x : MonCtx} (hcoop : x.coop = false) (s0 r0 : Bool) (k0 : Nat) {evs : List Ev}
    (hok : ∀ n ∈ (trackRun x { s := initWith x.c s0 r0 k0 } evs).2, n.ok = true) :
    ∃ as, run x.c (initWith x.c s0 r0 k0) as = some (trackRun x { s := initWith x.c s0 r0 k0 } evs).1.s ∧
      as.filter Action.isExternal = evs.filterMap Ev.external? :=
  track_sound hcoop hok

/-- the general form: whatever the monitor's start state is reachable from stays so -/
theorem track_reachableFrom {x : MonCtx} (hcoop : x.coop = false) {t : TrackSt} {evs : List Ev} {s₀ : PState}
    (hok : ∀ n ∈ (trackRun x t evs).2, n.ok = true) (hr : ReachableFrom x.c s₀ t.s) :
    ReachableFrom x.c s₀ (trackRun x t evs).1.s := by
  obtain ⟨as, hrun, _⟩ := track_sound hcoop hok
  exact ReachableFrom.of_run hr hrun

/-- the monitor's final state is a state of a run with carried interrupt state -/
theorem track_reachableW {x : MonCtx} (hcoop : x.coop = false) {s0 r0 : Bool} {k0 : Nat} {evs : List Ev}
    (hok : ∀ n ∈ (trackRun x { s := initWith x.c s0 r0 k0 } evs).2, n.ok = true) :
    ReachableW x.c s0 r0 k0 (trackRun x { s := initWith x.c s0 r0 k0 } evs).1.s :=
  track_reachableFrom (t := { s := initWith x.c s0 r0 k0 }) hcoop hok .refl

/-- the driver's form: the monitor state of a fresh monitor with the carried fields written into
    the model state is the monitor started at `initWith` -/
theorem driver_start_eq (c : Cfg) (im0 : IM) :
    ({ ({ s := init c } : TrackSt) with
        s := { ({ s := init c } : TrackSt).s with im := { sent := im0.sent, recv := im0.recv, cnt := im0.cnt } } }
      : TrackSt) = { s := initWith c im0.sent im0.recv im0.cnt } := rfl

/-- both together, as for `track_sound_init` -/
theorem track_sound_initW {x : MonCtx} (hcoop : x.coop = false) (s0 r0 : Bool) (k0 : Nat) {evs : List Ev}
    (hok : ∀ n ∈ (trackRun x { s := initWith x.c s0 r0 k0 } evs).2, n.ok = true) :
    ReachableW x.c s0 r0 k0 (trackRun x { s := initWith x.c s0 r0 k0 } evs).1.s ∧
    ∃ as, run x.c (initWith x.c s0 r0 k0) as = some (trackRun x { s := initWith x.c s0 r0 k0 } evs).1.s ∧
      as.filter Action.isExternal = evs.filterMap Ev.external? :=
  ⟨track_reachableW hcoop hok, track_soundW hcoop s0 r0 k0 hok⟩

/-- an accepted `q` in a run with carried state: the model, run to quiescence, has not returned, has
    not panicked, and has invoked exactly the functions the implementation invoked, in order -/
theorem track_qW {x : MonCtx} {t : TrackSt} {s0 r0 : Bool} {k0 : Nat} (hc : GoodCfg x.c)
    (hr : ReachableW x.c s0 r0 k0 t.s) (hok : ∀ n ∈ (trackFut x t .q).2, n.ok = true) :
    Quiescent x.c (trackFut x t .q).1.s ∧ ReachableW x.c s0 r0 k0 (trackFut x t .q).1.s ∧
    (trackFut x t .q).1.s.result = none ∧ (trackFut x t .q).1.s.panic = false ∧
    (trackFut x t .q).1.s.invoked = t.realInvoked := by
  rw [trackFut_q_notes] at hok
  rw [trackFut_q_s]
  refine ⟨settle_quiescentW hc hr, settle_reachableW hr, ?_, ?_, ?_⟩
  · have h := Note.ok_cmp.mp (hok (.cmp "R-quiesce" (Ev.q.text ++ " returned") (toString (settle x.c t.s).result.isSome) "false") (by simp))
    have := toString_bool_false h
    simpa using this
  · have h := Note.ok_cmp.mp (hok (.cmp "R-quiesce" (Ev.q.text ++ " panic") (toString (settle x.c t.s).panic) "false") (by simp))
    exact toString_bool_false h
  · exact natsText_inj (Note.ok_cmp.mp (hok (.cmp "R-quiesce" (Ev.q.text ++ " invoked") (natsText (settle x.c t.s).invoked) (natsText t.realInvoked)) (by simp)))

/- non-vacuity: the running example of `Theorems/MonitorSound.lean` (diamond, limit 2, errors
   collected, `PollNextN(1)`, a `*_control` API) in a session whose shared state still has a signal
   in its channel (`s0`): the first poll receives it (not counted), the root is handed out, the
   second poll interrupts; the call returns `Interrupted` with `[0]` processed. -/
def exTraceW4_V : List Ev := [.handout 0, .invoke 0, .q, .fin 0 true]
def exTraceW_V : List Ev := exTraceW4_V ++ [.retOutcome false [0] [1, 2, 3] [] "break"]

set_option maxRecDepth 100000 in
theorem exTraceW4_ok_V :
    ∀ n ∈ (trackRun exX_P_P_P { s := initWith exX_P_P_P.c true false 0 } exTraceW4_V).2, n.ok = true := by decide
set_option maxRecDepth 100000 in
theorem exTraceW4_result_V :
    (settle exX_P_P_P.c (trackRun exX_P_P_P { s := initWith exX_P_P_P.c true false 0 } exTraceW4_V).1.s).result =
      some (.outcome false [0] [1, 2, 3] []) := by decide

theorem exTraceW_ok_V :
    ∀ n ∈ (trackRun exX_P_P_P { s := initWith exX_P_P_P.c true false 0 } exTraceW_V).2, n.ok = true := by
  rw [exTraceW_V, trackRun_append, trackRun_singleton]
  intro n hn
  rcases List.mem_append.mp hn with hn | hn
  · exact exTraceW4_ok_V n hn
  · exact trackFut_retOutcome_accepts (x := exX_P_P_P) (errs := []) exTraceW4_result_V rfl n hn

/-- the theorem applied: the accepted trace is a run from the carried start with the one external
    action `finish 0 ok`, and ends in a `ReachableW` state that has returned -/
example : ∃ as, run exX_P_P_P.c (initWith exX_P_P_P.c true false 0) as =
      some (trackRun exX_P_P_P { s := initWith exX_P_P_P.c true false 0 } exTraceW_V).1.s ∧
    as.filter Action.isExternal = [.finish 0 true] :=
  track_soundW (x := exX_P_P_P) rfl true false 0 exTraceW_ok_V
example : ReachableW exX_P_P_P.c true false 0
    (trackRun exX_P_P_P { s := initWith exX_P_P_P.c true false 0 } exTraceW_V).1.s :=
  track_reachableW (x := exX_P_P_P) rfl exTraceW_ok_V
example : (trackRun exX_P_P_P { s := initWith exX_P_P_P.c true false 0 } exTraceW_V).1.s.result =
    some (.outcome false [0] [1, 2, 3] []) := by
  rw [exTraceW_V, trackRun_append, trackRun_singleton]
  exact exTraceW4_result_V
set_option maxRecDepth 100000 in
/-- the carried start matters: the monitor started at `init` (no signal) accepts the first four
    events as well, but its model then goes on (hands out `2` and `1`) and does not return -/
example : (∀ n ∈ (trackRun exX_P_P_P { s := init exX_P_P_P.c } exTraceW4_V).2, n.ok = true) ∧
    (settle exX_P_P_P.c (trackRun exX_P_P_P { s := init exX_P_P_P.c } exTraceW4_V).1.s).result = none ∧
    (settle exX_P_P_P.c (trackRun exX_P_P_P { s := init exX_P_P_P.c } exTraceW4_V).1.s).handedOut = [0, 2, 1] := by
  decide
set_option maxRecDepth 100000 in
/-- `track_qW` on the third event -/
example : (trackFut exX_P_P_P (trackRun exX_P_P_P { s := initWith exX_P_P_P.c true false 0 } (exTraceW4_V.take 2)).1 .q).1.s.invoked = [0] ∧
    Quiescent exX_P_P_P.c (trackFut exX_P_P_P (trackRun exX_P_P_P { s := initWith exX_P_P_P.c true false 0 } (exTraceW4_V.take 2)).1 .q).1.s :=
  have hr : ReachableW exX_P_P_P.c true false 0
      (trackRun exX_P_P_P { s := initWith exX_P_P_P.c true false 0 } (exTraceW4_V.take 2)).1.s :=
    track_reachableW (x := exX_P_P_P) rfl (by decide)
  have h := track_qW (x := exX_P_P_P) (exC_good_G _) hr (by decide)
  ⟨h.2.2.2.2.trans (by decide), h.1⟩

/-! ## 2. the specification predicates on runs from a carried start -/

/-- the general form: any `Fresh` predicate state (lists empty, interrupt fields arbitrary), `K` a
    proposition under which "no signal seen by the predicates" implies "no signal carried in" -/
theorem preds_holdW_gen {x : MonCtx} (hx : GoodCtx x) {s0 r0 : Bool} {k0 : Nat} {K : Prop}
    {evs : List Ev} {s : PState} (h : ObsRun x (initWith x.c s0 r0 k0) evs s)
    {m0 : PredSt} (hm : m0.Fresh) (hclean : K → m0.intrAt = none → s0 = false ∧ r0 = false) :
    ∀ n ∈ (predRun x m0 evs).2, n.OkW K (C8Hyp x.c s0 r0) :=
  predsW_gen hx h m0 [] (coupW_init x s0 r0 k0 hm hclean)

/-- **the strongest variant of the assigned statement that is true without a side condition**:
    from `{}`, any carried state: every note of C01, C02, C03, C04, C07, C10 is ok, except possibly
    the clean-run notes (`C03 … clean-all`, `C10 … idle below limit …` and the `limit = some 0` form
    of the latter, `C10 … limit 0 means unbounded, yet a ready function is unstarted`). -/
theorem preds_holdW_safety_partial {x : MonCtx} (hx : GoodCtx x) {s0 r0 : Bool} {k0 : Nat}
    {evs : List Ev} {s : PState} (h : ObsRun x (initWith x.c s0 r0 k0) evs s) :
    ∀ n ∈ (predRun x {} evs).2, n.property ∈ safetyProps → n.ok = true ∨ n.isCleanNote := by
  intro n hn hp
  rcases (preds_holdW_gen (K := False) hx h PredSt.fresh_empty (fun hf => hf.elim) n hn).1 hp with h1 | h1
  · exact Or.inl h1
  · exact Or.inr h1.1

/-- a clean-run note is a C03 or a C10 note -/
theorem Note.isCleanNote_property {n : Note} (h : n.isCleanNote) : n.property = "C03" ∨ n.property = "C10" := by
  cases n with
  | cmp => exact h.elim
  | prop p wh b =>
    rcases h with ⟨h1, _⟩ | ⟨h1, _⟩ | ⟨h1, _⟩
    · exact Or.inl h1
    · exact Or.inr h1
    · exact Or.inr h1

/-- in particular C01, C02, C04, C07 hold of every run from a carried start, whatever the predicate
    state believes about signals -/
theorem preds_holdW_family {x : MonCtx} (hx : GoodCtx x) {s0 r0 : Bool} {k0 : Nat}
    {evs : List Ev} {s : PState} (h : ObsRun x (initWith x.c s0 r0 k0) evs s) (p : String)
    (hp : p ∈ ["C01", "C02", "C04", "C07"]) :
    ∀ n ∈ (predRun x {} evs).2, n.property = p → n.ok = true := by
  intro n hn hnp
  have hmem : n.property ∈ safetyProps := by
    rw [hnp]
    simp only [List.mem_cons, List.not_mem_nil, or_false] at hp
    rcases hp with rfl | rfl | rfl | rfl <;> decide
  rcases preds_holdW_safety_partial hx h n hn hmem with h1 | h1
  · exact h1
  · exfalso
    rw [hnp] at hmem
    rcases Note.isCleanNote_property h1 with h2 | h2 <;>
      (rw [hnp] at h2; subst h2; revert hp; decide)

theorem preds_holdW_C01 {x : MonCtx} (hx : GoodCtx x) {s0 r0 : Bool} {k0 : Nat} {evs : List Ev} {s : PState}
    (h : ObsRun x (initWith x.c s0 r0 k0) evs s) :
    ∀ n ∈ (predRun x {} evs).2, n.property = "C01" → n.ok = true :=
  preds_holdW_family hx h "C01" (by decide)
theorem preds_holdW_C02 {x : MonCtx} (hx : GoodCtx x) {s0 r0 : Bool} {k0 : Nat} {evs : List Ev} {s : PState}
    (h : ObsRun x (initWith x.c s0 r0 k0) evs s) :
    ∀ n ∈ (predRun x {} evs).2, n.property = "C02" → n.ok = true :=
  preds_holdW_family hx h "C02" (by decide)
theorem preds_holdW_C04 {x : MonCtx} (hx : GoodCtx x) {s0 r0 : Bool} {k0 : Nat} {evs : List Ev} {s : PState}
    (h : ObsRun x (initWith x.c s0 r0 k0) evs s) :
    ∀ n ∈ (predRun x {} evs).2, n.property = "C04" → n.ok = true :=
  preds_holdW_family hx h "C04" (by decide)
theorem preds_holdW_C07 {x : MonCtx} (hx : GoodCtx x) {s0 r0 : Bool} {k0 : Nat} {evs : List Ev} {s : PState}
    (h : ObsRun x (initWith x.c s0 r0 k0) evs s) :
    ∀ n ∈ (predRun x {} evs).2, n.property = "C07" → n.ok = true :=
  preds_holdW_family hx h "C07" (by decide)

/-- ORIGINAL STATEMENT (false, refuted by `preds_holdW_safety_original_false` below):
    `theorem preds_holdW_safety {x} (hx : GoodCtx x) {s0 r0 k0 evs s}
       (h : ObsRun x (initWith x.c s0 r0 k0) evs s) :
       ∀ n ∈ (predRun x {} evs).2, n.property ∈ ["C01","C02","C03","C04","C07","C10"] → n.ok = true`

    **The safety predicates hold of every run from a carried start** — with the missing side
    condition `hns`: no SIGNAL is carried in (`s0 = r0 = false`; the carried poll count `k0` is
    arbitrary).  With a carried signal the predicate state must be seeded as the driver does:
    `preds_holdW_safety_seeded`. -/
theorem preds_holdW_safety {x : MonCtx} (hx : GoodCtx x) {s0 r0 : Bool} {k0 : Nat}
    (hns : s0 = false ∧ r0 = false) {evs : List Ev} {s : PState}
    (h : ObsRun x (initWith x.c s0 r0 k0) evs s) :
    ∀ n ∈ (predRun x {} evs).2, n.property ∈ safetyProps → n.ok = true := by
  intro n hn hp
  rcases (preds_holdW_gen (K := True) hx h PredSt.fresh_empty (fun _ _ => hns) n hn).1 hp with h1 | h1
  · exact h1
  · exact absurd trivial h1.2

/-- **the safety predicates with a seeded predicate state**: from any `Fresh` predicate state that
    knows about a signal (`intrAt ≠ none` — the driver's `{ intrAt := some 0, intrPre := true,
    intrQuiescent := exact }`), EVERY carried state: every note of C01, C02, C03, C04, C07, C10 is ok. -/
theorem preds_holdW_safety_seeded {x : MonCtx} (hx : GoodCtx x) {s0 r0 : Bool} {k0 : Nat}
    {evs : List Ev} {s : PState} (h : ObsRun x (initWith x.c s0 r0 k0) evs s)
    {m0 : PredSt} (hm : m0.Fresh) (hseed : m0.intrAt ≠ none) :
    ∀ n ∈ (predRun x m0 evs).2, n.property ∈ safetyProps → n.ok = true := by
  intro n hn hp
  rcases (preds_holdW_gen (K := True) hx h hm (fun _ hi => absurd hi hseed) n hn).1 hp with h1 | h1
  · exact h1
  · exact absurd trivial h1.2

/-- the predicate state the driver starts a run of a shared-state session with -/
def driverPredSt (s0 r0 exact : Bool) : PredSt :=
  if s0 || r0 then { intrAt := some 0, intrPre := true, intrQuiescent := exact } else {}

/-- **the safety predicates as the driver evaluates them**: whatever is carried in -/
theorem preds_holdW_safety_driver {x : MonCtx} (hx : GoodCtx x) {s0 r0 : Bool} {k0 : Nat} (exact : Bool)
    {evs : List Ev} {s : PState} (h : ObsRun x (initWith x.c s0 r0 k0) evs s) :
    ∀ n ∈ (predRun x (driverPredSt s0 r0 exact) evs).2, n.property ∈ safetyProps → n.ok = true := by
  unfold driverPredSt
  cases hp : (s0 || r0) with
  | true =>
    simp only [if_true]
    exact preds_holdW_safety_seeded hx h ⟨rfl, rfl, rfl, rfl, rfl⟩ (by simp)
  | false =>
    simp only [Bool.false_eq_true, if_false]
    have hns : s0 = false ∧ r0 = false := by simpa using hp
    exact preds_holdW_safety hx hns h

/-! ### the original statement is false: kernel-checked counterexample

  The diamond `0→1, 0→2, 1→3, 2→3`, `PollNextN(3)`, limit 2, a signal received by an earlier run
  (`r0`, no poll counted yet).  Budget `3 - 1 = 2`: `0` runs and returns, `2` is handed out and
  started, the next poll answers `Interrupted(None)` with `1` ready and not started.  At the
  quiescent point one function is in flight (below the limit 2) and `1` is ready: the
  work-conservation note is false.  The call returns `processed = [0, 2]`: `clean-all` is false. -/

def cxCfg_V : Cfg := { exCfg_F with strat := .pollN 3, limit := some 2 }

theorem cxCtx_good_V : GoodCtx (xDiamond cxCfg_V) := xDiamond_good cxCfg_V rfl rfl (by intro h; cases h)

def cxSchedule_V : List OA :=
  [.act .schedPoll, .act (.invoke 0), .act .schedPoll, .q, .act (.finish 0 true), .act .queuerRecv,
   .act .schedPoll, .act (.invoke 2), .act .schedPoll, .act .schedPoll, .act .queuerEnd, .q,
   .act (.finish 2 true), .act .schedEnd, .act .ret]

def cxEvents_V : List Ev :=
  [.handout 0, .invoke 0, .q, .fin 0 true, .handout 2, .invoke 2, .q, .fin 2 true,
   .retOutcome false [0, 2] [1, 3] [] "break"]

set_option maxRecDepth 100000 in
theorem cx_obsRun_V : ∃ s, ObsRun (xDiamond cxCfg_V) (initWith cxCfg_V false true 0) cxEvents_V s :=
  obsRun_of_obsEvents' (l := cxSchedule_V) (by decide)

set_option maxRecDepth 100000 in
/-- exactly the two clean-run notes fail -/
theorem cx_fails_V : (predRun (xDiamond cxCfg_V) {} cxEvents_V).2.filter (fun n => !n.ok) =
    [.prop "C10" "q idle below limit 2 with a ready function unstarted" false,
     .prop "C03" "ret state=I processed=0,2 notprocessed=1,3 errs= flow=break clean-all" false] := by
  decide

theorem preds_holdW_safety_original_false :
    ¬ (∀ (x : MonCtx), GoodCtx x → ∀ (s0 r0 : Bool) (k0 : Nat) (evs : List Ev) (s : PState),
        ObsRun x (initWith x.c s0 r0 k0) evs s →
        ∀ n ∈ (predRun x {} evs).2, n.property ∈ ["C01", "C02", "C03", "C04", "C07", "C10"] → n.ok = true) := by
  intro H
  obtain ⟨s, hs⟩ := cx_obsRun_V
  have hall := H _ cxCtx_good_V false true 0 _ s hs
  have hmem : Note.prop "C03" "ret state=I processed=0,2 notprocessed=1,3 errs= flow=break clean-all" false ∈
      (predRun (xDiamond cxCfg_V) {} cxEvents_V).2 := by
    have : Note.prop "C03" "ret state=I processed=0,2 notprocessed=1,3 errs= flow=break clean-all" false ∈
        (predRun (xDiamond cxCfg_V) {} cxEvents_V).2.filter (fun n => !n.ok) := by
      rw [cx_fails_V]; simp
    exact (List.mem_filter.mp this).1
  have := hall _ hmem (by decide)
  cases this

/-- each of the two properties alone already fails (C10 as well as C03) -/
example : ¬ (∀ n ∈ (predRun (xDiamond cxCfg_V) {} cxEvents_V).2, n.property = "C10" → n.ok = true) := by
  intro H
  have hmem : Note.prop "C10" "q idle below limit 2 with a ready function unstarted" false ∈
      (predRun (xDiamond cxCfg_V) {} cxEvents_V).2 := by
    have : Note.prop "C10" "q idle below limit 2 with a ready function unstarted" false ∈
        (predRun (xDiamond cxCfg_V) {} cxEvents_V).2.filter (fun n => !n.ok) := by
      rw [cx_fails_V]; simp
    exact (List.mem_filter.mp this).1
  have := H _ hmem rfl
  cases this

/-! ### the `limit = some 0` form of the work-conservation note is a clean-run note as well

  `Model/Monitor.lean` emits, at `q` of a clean non-sequential run with `limit = some 0` (unbounded),
  the C10 note `… limit 0 means unbounded, yet a ready function is unstarted`.  Like `idle below
  limit` it presupposes that the interrupt machine never saw a signal, so `Note.isCleanNote`
  (`Proofs/VCoup.lean`) lists it as a third clean-run note.  That this is NECESSARY: the same
  counterexample run with `limit := some 0` — from `{}` the note is false (next to the C06 note,
  which is outside `safetyProps`, and `clean-all`). -/

def cxCfg0_Z : Cfg := { exCfg_F with strat := .pollN 3, limit := some 0 }

set_option maxRecDepth 100000 in
theorem cx0_obsRun_Z : ∃ s, ObsRun (xDiamond cxCfg0_Z) (initWith cxCfg0_Z false true 0) cxEvents_V s :=
  obsRun_of_obsEvents' (l := cxSchedule_V) (by decide)

set_option maxRecDepth 100000 in
theorem cx0_fails_Z : (predRun (xDiamond cxCfg0_Z) {} cxEvents_V).2.filter (fun n => !n.ok) =
    [.prop "C06" "q" false,
     .prop "C10" "q limit 0 means unbounded, yet a ready function is unstarted" false,
     .prop "C03" "ret state=I processed=0,2 notprocessed=1,3 errs= flow=break clean-all" false] := by
  decide

/-- from `{}` with a carried signal the new C10 note can be false … -/
example : ¬ (∀ n ∈ (predRun (xDiamond cxCfg0_Z) {} cxEvents_V).2, n.property = "C10" → n.ok = true) := by
  intro H
  have hmem : Note.prop "C10" "q limit 0 means unbounded, yet a ready function is unstarted" false ∈
      (predRun (xDiamond cxCfg0_Z) {} cxEvents_V).2 := by
    have : Note.prop "C10" "q limit 0 means unbounded, yet a ready function is unstarted" false ∈
        (predRun (xDiamond cxCfg0_Z) {} cxEvents_V).2.filter (fun n => !n.ok) := by
      rw [cx0_fails_Z]; simp
    exact (List.mem_filter.mp this).1
  have := H _ hmem rfl
  cases this

/-- … it is a clean-run note, as `preds_holdW_safety_partial` says of every failing safety note … -/
example : (Note.prop "C10" "q limit 0 means unbounded, yet a ready function is unstarted" false).isCleanNote :=
  Or.inr (Or.inr ⟨rfl, "q", rfl⟩)

/-- … and with the driver's seeding all notes of the six properties of this run are ok -/
example : ∀ n ∈ (predRun (xDiamond cxCfg0_Z) (driverPredSt false true false) cxEvents_V).2,
    n.property ∈ safetyProps → n.ok = true := by
  obtain ⟨s, hs⟩ := cx0_obsRun_Z
  exact preds_holdW_safety_driver (xDiamond_good cxCfg0_Z rfl rfl (by intro h; cases h)) false hs

set_option maxRecDepth 100000 in
/-- no signal carried in (`k0 = 5` only), `limit := some 0`, the clean complete run: the new note is
    emitted three times and `preds_holdW_safety` covers it -/
theorem ok0_obsRun_Z : ∃ s, ObsRun (xDiamond lim0Cfg_Z) (initWith lim0Cfg_Z false false 5) okEvents_Q s :=
  obsRun_of_obsEvents' (l := okSchedule_Q) (by decide)

example : ∀ n ∈ (predRun (xDiamond lim0Cfg_Z) {} okEvents_Q).2, n.property ∈ safetyProps → n.ok = true := by
  obtain ⟨s, hs⟩ := ok0_obsRun_Z
  exact preds_holdW_safety (xDiamond_good lim0Cfg_Z rfl rfl (by intro h; cases h)) ⟨rfl, rfl⟩ hs

/-! ### non-vacuity -/

/-- (1) the same run with the driver's seeding (`PollNextN(3)` is not an `exact` strategy): 27 notes,
    20 of them of the six properties; the theorem says these are ok -/
example : ∀ n ∈ (predRun (xDiamond cxCfg_V) (driverPredSt false true false) cxEvents_V).2,
    n.property ∈ safetyProps → n.ok = true := by
  obtain ⟨s, hs⟩ := cx_obsRun_V
  exact preds_holdW_safety_driver cxCtx_good_V false hs

set_option maxRecDepth 100000 in
example : (predRun (xDiamond cxCfg_V) (driverPredSt false true false) cxEvents_V).2.length = 27 ∧
    ((predRun (xDiamond cxCfg_V) (driverPredSt false true false) cxEvents_V).2.filter
      (fun n => decide (n.property ∈ safetyProps))).length = 20 := by decide

/-- (2) the partial theorem on the counterexample run: every C01 / C02 / C04 / C07 note is ok -/
example : ∀ n ∈ (predRun (xDiamond cxCfg_V) {} cxEvents_V).2, n.property = "C01" → n.ok = true := by
  obtain ⟨s, hs⟩ := cx_obsRun_V
  exact preds_holdW_C01 cxCtx_good_V hs

set_option maxRecDepth 100000 in
/-- (3) only a poll count is carried (`k0 = 5`, no signal): the clean complete run of the diamond
    with its three `q` observations (`Theorems/TracePreds.lean`) from the carried start -/
theorem ok_obsRun_V : ∃ s, ObsRun (xDiamond exCfg_F) (initWith exCfg_F false false 5) okEvents_Q s :=
  obsRun_of_obsEvents' (l := okSchedule_Q) (by decide)

example : ∀ n ∈ (predRun (xDiamond exCfg_F) {} okEvents_Q).2, n.property ∈ safetyProps → n.ok = true := by
  obtain ⟨s, hs⟩ := ok_obsRun_V
  exact preds_holdW_safety (xDiamond_good exCfg_F rfl rfl (by intro h; cases h)) ⟨rfl, rfl⟩ hs

set_option maxRecDepth 100000 in
/-- (4) the failure run of the diamond (`Theorems/TracePreds.lean`, run (5): `2` fails after `0`
    and `2` were started) from a carried start (`k0 = 5`, no signal): the C07 note at the failure
    ("nothing ordered after the failing function was started before") is emitted with the non-empty
    list `[0, 2]` of started functions and `preds_holdW_C07` applies to it -/
theorem fail_obsRun_V : ∃ s, ObsRun (xDiamond failCfg_U) (initWith failCfg_U false false 5) failEvents_U s :=
  obsRun_of_obsEvents' (l := failSchedule_U) (by decide)

example : ∀ n ∈ (predRun (xDiamond failCfg_U) {} failEvents_U).2, n.property = "C07" → n.ok = true := by
  obtain ⟨s, hs⟩ := fail_obsRun_V
  exact preds_holdW_C07 (xDiamond_good failCfg_U rfl rfl (by intro h; cases h)) hs

set_option maxRecDepth 100000 in
example : (Note.prop "C07" "end 2 err (a function ordered after it was started before)" true) ∈
    (predRun (xDiamond failCfg_U) {} failEvents_U).2 := by decide

/-! ## 3. C08 with the driver's seeding: `FinishCurrent` / `PollNextN(0)` and a carried signal -/

/-- **C08, carried signal, `FinishCurrent` / `PollNextN(0)`**: nothing is handed out at all, so no
    function is started; every C08 note (start bound, "never returns after the interrupt",
    started-all-reported, noop) holds — from the driver's seeded predicate state and in fact from any
    `Fresh` one. -/
theorem preds_holdW_C08 {x : MonCtx} (hx : GoodCtx x) {s0 r0 : Bool} {k0 : Nat}
    (hst : x.c.strat = .finish ∨ x.c.strat = .pollN 0) (h0 : r0 = true ∨ s0 = true)
    {evs : List Ev} {s : PState} (h : ObsRun x (initWith x.c s0 r0 k0) evs s)
    {m0 : PredSt} (hm : m0.Fresh) :
    ∀ n ∈ (predRun x m0 evs).2, n.property = "C08" → n.ok = true := by
  intro n hn hp
  exact (preds_holdW_gen (K := False) hx h hm (fun hf => hf.elim) n hn).2 ⟨hst, h0⟩ hp

/-- the driver's form: `{ intrAt := some 0, intrPre := true, intrQuiescent := true }`, together with
    the six safety properties -/
theorem preds_holdW_driver_exact {x : MonCtx} (hx : GoodCtx x) {s0 r0 : Bool} {k0 : Nat}
    (hst : x.c.strat = .finish ∨ x.c.strat = .pollN 0) (h0 : r0 = true ∨ s0 = true)
    {evs : List Ev} {s : PState} (h : ObsRun x (initWith x.c s0 r0 k0) evs s) :
    ∀ n ∈ (predRun x seededPredSt evs).2,
      (n.property ∈ safetyProps ∨ n.property = "C08") → n.ok = true := by
  intro n hn hp
  rcases hp with hp | hp
  · exact preds_holdW_safety_seeded hx h PredSt.fresh_seeded (by simp [seededPredSt]) n hn hp
  · exact preds_holdW_C08 hx hst h0 h PredSt.fresh_seeded n hn hp

/-- under these hypotheses nothing is ever in flight -/
theorem carried_no_inflight {c : Cfg} {s0 r0 : Bool} {k0 : Nat} {s : PState} (hc : GoodCfg c)
    (hst : c.strat = .finish ∨ c.strat = .pollN 0) (h0 : r0 = true ∨ s0 = true)
    (hr : ReachableW c s0 r0 k0 s) : s.inflight = [] := by
  apply List.eq_nil_iff_forall_not_mem.mpr
  intro f hf
  have := (inv0_reachableW hc hr).inflHanded f hf
  rw [(carried_finish_nothing hst h0 hr).1] at this
  cases this

/-- and the whole run shows no `handout`, no `invoke` and no completion: all there is to see is
    `intr` events, and the return of an outcome with nothing processed (`carried_finish_outcome`) -/
theorem carried_finish_no_invoke {x : MonCtx} {s0 r0 : Bool} {k0 : Nat} (hc : GoodCfg x.c)
    (hst : x.c.strat = .finish ∨ x.c.strat = .pollN 0) (h0 : r0 = true ∨ s0 = true)
    {evs : List Ev} {s s' : PState} (hr : ReachableW x.c s0 r0 k0 s) (h : ObsRun x s evs s') :
    ∀ e ∈ evs, (∀ f, e ≠ .handout f) ∧ (∀ f, e ≠ .invoke f) ∧ (∀ f ok, e ≠ .fin f ok) ∧ e ≠ .q := by
  induction h with
  | nil s => intro e he; cases he
  | @step s s1 s' evs a hs _ _ ih =>
    intro e he
    have hr1 : ReachableW x.c s0 r0 k0 s1 := ReachableFrom.step a hr hs
    rcases List.mem_append.mp he with he | he
    · have hho := (carried_finish_nothing hst h0 hr).1
      have hho1 := (carried_finish_nothing hst h0 hr1).1
      have hinf := carried_no_inflight hc hst h0 hr
      cases a with
      | schedPoll =>
        simp only [stepEvents, hho, hho1, List.length_nil, List.drop_nil, List.map_nil] at he
        cases he
      | invoke f =>
        exfalso
        obtain ⟨hf1, _, _⟩ := invoke_cases hs
        rw [hinf] at hf1
        cases hf1
      | finish f ok =>
        exfalso
        obtain ⟨hf1, _, _⟩ := step_finish hs
        rw [hinf] at hf1
        cases hf1
      | interrupt =>
        simp only [stepEvents, List.mem_singleton] at he
        subst he
        exact ⟨(by intro f hh; cases hh), (by intro f hh; cases hh), (by intro f ok hh; cases hh), (by intro hh; cases hh)⟩
      | ret =>
        simp only [stepEvents] at he
        split at he
        · simp only [List.mem_singleton] at he; subst he
          exact ⟨(by intro f hh; cases hh), (by intro f hh; cases hh), (by intro f ok hh; cases hh), (by intro hh; cases hh)⟩
        · simp only [List.mem_singleton] at he; subst he
          exact ⟨(by intro f hh; cases hh), (by intro f hh; cases hh), (by intro f ok hh; cases hh), (by intro hh; cases hh)⟩
        · cases he
      | queuerRecv => cases he
      | queuerEnd => cases he
      | schedEnd => cases he
    · exact ih hr1 e he
  | @q s s' evs hq hres _ ih =>
    -- a `q` cannot be shown: quiescent with nothing in flight means the call has returned
    exfalso
    have := deadlock_freeW hc hr hq (carried_no_inflight hc hst h0 hr)
    rw [hres] at this
    cases this

/- non-vacuity: `FinishCurrent` on the diamond, a signal received by an earlier run: the call polls
   once (`Interrupted(None)`), ends the stream, the scheduler, the queuer and returns `Interrupted`
   with nothing processed; from `{}` the `clean-all` note is false, with the driver's seeding every
   note of the six properties and of C08 is ok -/
def finCfg_V : Cfg := { exCfg_F with strat := .finish }

set_option maxRecDepth 100000 in
theorem fin_obsRun_V : ∃ s, ObsRun (xDiamond finCfg_V) (initWith finCfg_V false true 1)
    [.retOutcome false [] [0, 1, 2, 3] [] "break"] s :=
  obsRun_of_obsEvents' (l := [.act .schedPoll, .act .schedPoll, .act .schedEnd, .act .queuerEnd, .act .ret])
    (by decide)

example : ∀ n ∈ (predRun (xDiamond finCfg_V) seededPredSt [.retOutcome false [] [0, 1, 2, 3] [] "break"]).2,
    (n.property ∈ safetyProps ∨ n.property = "C08") → n.ok = true := by
  obtain ⟨s, hs⟩ := fin_obsRun_V
  exact preds_holdW_driver_exact (xDiamond_good finCfg_V rfl rfl (by intro h; cases h)) (Or.inl rfl)
    (Or.inl rfl) hs

set_option maxRecDepth 100000 in
example : ((predRun (xDiamond finCfg_V) seededPredSt [.retOutcome false [] [0, 1, 2, 3] [] "break"]).2.filter
      (fun n => n.property == "C08")).length = 1 ∧
    ((predRun (xDiamond finCfg_V) {} [.retOutcome false [] [0, 1, 2, 3] [] "break"]).2.filter
      (fun n => !n.ok)).map Note.property = ["C03"] := by decide

end FG
